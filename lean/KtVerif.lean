import KtVerif.Spec.Kmer
import KtVerif.Spec.Minimiser
import KtVerif.Model.Kmer
import KtVerif.Model.Minimiser
