import KtVerif.Spec.Kmer
import KtVerif.Spec.Minimiser
import KtVerif.Spec.Vectors
import KtVerif.Model.Kmer
import KtVerif.Model.Minimiser
import KtVerif.Model.Float
import KtVerif.Model.Vectors
import KtVerif.Driver
