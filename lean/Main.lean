import KtVerif.Driver
/-! Line-protocol driver: one request per line on stdin, one answer per line on stdout. -/

partial def loop (h : IO.FS.Stream) (out : IO.FS.Stream) (c : KT.Driver.Cache) : IO Unit := do
  let line ← h.getLine
  if line.isEmpty then return ()
  let (c, a) := KT.Driver.answer c line
  out.putStrLn a
  loop h out c

def main : IO Unit := do
  let out ← IO.getStdout
  loop (← IO.getStdin) out {}
  out.flush
