import KtVerif.Driver
/-! Line-protocol driver: one request per line on stdin, one answer per line on stdout. -/

partial def loop (h : IO.FS.Stream) (out : IO.FS.Stream) : IO Unit := do
  let line ← h.getLine
  if line.isEmpty then return ()
  out.putStrLn (KT.Driver.answer line)
  loop h out

def main : IO Unit := do
  let out ← IO.getStdout
  loop (← IO.getStdin) out
  out.flush
