/-!
# Specification layer: sequence files (C06)

A record list, what "well-formed" means, and how such a list is written as FASTA / FASTQ text
(any line wrapping, LF or CRLF, with or without a final newline).  The property says: reading the
serialisation gives back the records, numbered 0,1,2,…
-/
namespace KT

/-- what the reader delivers -/
structure SeqRec where
  n   : Nat
  id  : List Nat
  seq : List Nat
deriving DecidableEq, Repr

/-- a record as an author writes it -/
structure SrcRec where
  id   : List Nat
  desc : Option (List Nat)
  seq  : List Nat
  qual : List Nat          -- FASTQ only (same length as `seq`)
deriving DecidableEq, Repr

/-- printable ASCII without space -/
def isGraph (b : Nat) : Bool := decide (33 ≤ b) && decide (b ≤ 126)
/-- printable ASCII including space -/
def isPrint (b : Nat) : Bool := decide (32 ≤ b) && decide (b ≤ 126)

/-- a byte of a header word: printable ASCII without space, or any byte of a multi-byte UTF-8 character (>= 128) -/
def isWordByte (b : Nat) : Bool := isGraph b || decide (128 ≤ b)
/-- a byte of a description: printable ASCII including space, or a byte >= 128 -/
def isDescByte (b : Nat) : Bool := isPrint b || decide (128 ≤ b)

/-- id: non-empty, word bytes; description: description bytes, not starting or ending with a
    space (trailing blanks are trimmed by every reader; a leading one belongs to the separator).
    Bytes >= 128 stand for the bytes of non-ASCII (UTF-8) characters; the reader model is
    byte-based, and white space is ASCII white space. -/
def wfHeader (r : SrcRec) : Bool :=
  !r.id.isEmpty && r.id.all isWordByte &&
  match r.desc with
  | none => true
  | some d => !d.isEmpty && d.all isDescByte && d.head? != some 32 && d.getLast? != some 32

/-- FASTA: bases are graphic characters other than `>` -/
def wfFasta (r : SrcRec) : Bool := wfHeader r && r.seq.all fun b => isGraph b && b != 62

/-- FASTQ: bases non-empty, graphic, not `+` / `@`; one quality character per base -/
def wfFastq (r : SrcRec) : Bool :=
  wfHeader r && !r.seq.isEmpty && (r.seq.all fun b => isGraph b && b != 43 && b != 64) &&
  r.qual.length == r.seq.length && r.qual.all isGraph

/-- cut a list into pieces of length `w` (`w ≥ 1`); the empty list gives no piece -/
def chunks (w : Nat) (l : List Nat) : List (List Nat) :=
  if _h : l = [] ∨ w = 0 then (if l = [] then [] else [l])
  else l.take w :: chunks w (l.drop w)
termination_by l.length
decreasing_by
  have : l ≠ [] := fun e => _h (Or.inl e)
  have : 0 < l.length := List.length_pos_iff.mpr this
  simp only [List.length_drop]; omega

/-- serialisation parameters -/
structure SerCfg where
  eol   : List Nat      -- [10] or [13, 10]
  wrap  : Nat           -- line width for sequence lines, ≥ 1
  final : Bool          -- is the last line terminated

def headerLine (mark : Nat) (r : SrcRec) : List Nat :=
  mark :: r.id ++ (match r.desc with | none => [] | some d => 32 :: d)

/-- lines (without terminators) of one FASTA record; a record without bases has only its header -/
def fastaLines (cfg : SerCfg) (r : SrcRec) : List (List Nat) :=
  headerLine 62 r :: chunks cfg.wrap r.seq

/-- lines of one FASTQ record (sequence and quality wrapped alike) -/
def fastqLines (cfg : SerCfg) (r : SrcRec) : List (List Nat) :=
  headerLine 64 r :: chunks cfg.wrap r.seq ++ [[43]] ++ chunks cfg.wrap r.qual

/-- join lines with the terminator; the last line is terminated iff `final` -/
def joinLines (cfg : SerCfg) : List (List Nat) → List Nat
  | [] => []
  | [l] => if cfg.final then l ++ cfg.eol else l
  | l :: ls => l ++ cfg.eol ++ joinLines cfg ls

def serialiseFasta (cfg : SerCfg) (recs : List SrcRec) : List Nat :=
  joinLines cfg (recs.flatMap (fastaLines cfg))

def serialiseFastq (cfg : SerCfg) (recs : List SrcRec) : List Nat :=
  joinLines cfg (recs.flatMap (fastqLines cfg))

/-- what reading must deliver: record i numbered i, id = first word, bases = all sequence lines -/
def expectedRecs (recs : List SrcRec) : List SeqRec :=
  recs.zipIdx.map fun (r, i) => { n := i, id := r.id, seq := r.seq }

def wfCfg (cfg : SerCfg) : Bool := (cfg.eol == [10] || cfg.eol == [13, 10]) && decide (1 ≤ cfg.wrap)

inductive SeqFormat where
  | fasta | fastq
deriving DecidableEq, Repr

/-- documented suffix table: .fa/.fasta/.fna → FASTA, .fq/.fastq → FASTQ, optional .gz -/
def formatSpec (name : List Nat) : Option SeqFormat :=
  let gz := [46, 103, 122]
  let base := if gz.isSuffixOf name then name.take (name.length - 3) else name
  let ends := fun (suf : String) => (suf.toList.map Char.toNat).isSuffixOf base
  if ends ".fq" || ends ".fastq" then some .fastq
  else if ends ".fasta" || ends ".fa" || ends ".fna" then some .fasta
  else none

end KT
