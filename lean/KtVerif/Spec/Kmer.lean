/-!
# Specification layer: bytes, base-4 codes, windows (C01, C02, C03)

Import-free.  Bytes are `Nat` (values < 256 on the wire), sequences are `List Nat`.
Nothing in this file mentions registers, shifts or masks: it is the property in its own words.
-/
namespace KT

/-- The nucleotide table as the property describes it: A/a=0, C/c=1, G/g=2, T/t/U/u=3,
    the raw bytes 0..3 map to themselves (inherited from minimap2, left unspecified by the
    properties), everything else is ambiguous (4). -/
def nt4 (b : Nat) : Nat :=
  if b = 65 ∨ b = 97 then 0
  else if b = 67 ∨ b = 99 then 1
  else if b = 71 ∨ b = 103 then 2
  else if b = 84 ∨ b = 116 ∨ b = 85 ∨ b = 117 then 3
  else if b < 4 then b else 4

/-- a byte that extends a k-mer -/
def clean (b : Nat) : Bool := decide (nt4 b < 4)

/-- the letters the property names (no raw 0..3) -/
def isNucLetter (b : Nat) : Bool :=
  b == 65 || b == 97 || b == 67 || b == 99 || b == 71 || b == 103 ||
  b == 84 || b == 116 || b == 85 || b == 117

/-- base-4 number of a digit list, leftmost digit most significant -/
def encDigits (ds : List Nat) : Nat := ds.foldl (fun a d => a * 4 + d) 0

/-- forward code of a window of bytes -/
def enc (w : List Nat) : Nat := encDigits (w.map nt4)

/-- complement of a digit -/
def compDigit (d : Nat) : Nat := 3 - d

/-- code of the reverse complement of a window of bytes -/
def rcEnc (w : List Nat) : Nat := encDigits ((w.map nt4).reverse.map compDigit)

/-- the window of length `k` starting at `i` -/
def window (k : Nat) (s : List Nat) (i : Nat) : List Nat := (s.drop i).take k

/-- is the `k`-window starting at `i` inside `s` and free of ambiguous bytes -/
def winValid (k : Nat) (s : List Nat) (i : Nat) : Bool :=
  decide (i + k ≤ s.length) && (window k s i).all clean

/-- C01: one item per valid window, in increasing position order -/
def specKmers (k : Nat) (s : List Nat) : List (Nat × Nat) :=
  (List.range (s.length + 1 - k)).filterMap fun i =>
    if (window k s i).all clean then some (enc (window k s i), rcEnc (window k s i)) else none

/-- the positions (window starts) of the items of `specKmers`, for the "resume after k clean
    bases" clause -/
def specKmerStarts (k : Nat) (s : List Nat) : List Nat :=
  (List.range (s.length + 1 - k)).filter fun i => (window k s i).all clean

/-- digits of a code, most significant first, exactly `k` of them -/
def digitsOf : Nat → Nat → List Nat
  | 0, _ => []
  | k+1, x => digitsOf k (x / 4) ++ [x % 4]

/-- letter of a digit: A C G T -/
def letterOf (d : Nat) : Nat :=
  if d = 0 then 65 else if d = 1 then 67 else if d = 2 then 71 else 84

/-- C02: text of a code -/
def decodeSpec (k x : Nat) : List Nat := (digitsOf k x).map letterOf

/-- C02: reverse complement of a code through its digits -/
def revCompSpec (k x : Nat) : Nat := encDigits ((digitsOf k x).reverse.map compDigit)

/-- reverse complement of text: complements clean bytes (to upper-case letters), keeps others -/
def rcByte (b : Nat) : Nat := if clean b then letterOf (compDigit (nt4 b)) else b
def rcSeq (s : List Nat) : List Nat := (s.map rcByte).reverse

/-- canonical code of a pair -/
def canonPair (p : Nat × Nat) : Nat := min p.1 p.2

/-- C03: canonical codes in increasing order -/
def canonList (k : Nat) : List Nat := (List.range (4 ^ k)).filter fun x => decide (x ≤ revCompSpec k x)

/-- C03: the documented number of columns -/
def kcountFormula (k : Nat) : Nat :=
  if k % 2 = 0 then (4 ^ k + 4 ^ (k / 2)) / 2 else 4 ^ k / 2

/-- C03: header texts in column order -/
def headerSpec (k : Nat) : List (List Nat) := (canonList k).map (decodeSpec k)

/-- canonical codes of the valid windows of a record, in order (C02/C04/C07/C18) -/
def canons (k : Nat) (s : List Nat) : List Nat := (specKmers k s).map canonPair

/-- number of occurrences of `x` in a list -/
def countOcc (x : Nat) (l : List Nat) : Nat := (l.filter fun y => y == x).length

end KT
