import KtVerif.Spec.Kmer
/-!
# Specification layer: window minimisers and maximal runs (C09, C10, C18)
-/
namespace KT

/-- canonical code of the `m`-mer starting at `j` -/
def canonAt (m : Nat) (s : List Nat) (j : Nat) : Nat :=
  min (enc (window m s j)) (rcEnc (window m s j))

/-- minimum of a list (0 for the empty list, never used on it) -/
def listMin : List Nat → Nat
  | [] => 0
  | x :: xs => xs.foldl min x

/-- the m-mers inside the `w`-window starting at `i` -/
def mmersOfWindow (w m : Nat) (s : List Nat) (i : Nat) : List Nat :=
  (List.range (w - m + 1)).map fun j => canonAt m s (i + j)

/-- minimiser of the `w`-window starting at `i`, if that window is valid -/
def winMin (w m : Nat) (s : List Nat) (i : Nat) : Option Nat :=
  if winValid w s i then some (listMin (mmersOfWindow w m s i)) else none

/-- minimiser (or none) of every window start `0 .. |s|-w` -/
def winMins (w m : Nat) (s : List Nat) : List (Option Nat) :=
  (List.range (s.length + 1 - w)).map (winMin w m s)

/-- group consecutive equal `some` values into `(value, start, end)`; `i` is the index of the
    head of the list, `cur` the run that is open -/
def groupRuns (w : Nat) : Nat → Option (Nat × Nat) → List (Option Nat) → List (Nat × Nat × Nat)
  | _, none, [] => []
  | i, some (v, st), [] => [(v, st, i + w - 1)]
  | i, none, none :: rest => groupRuns w (i + 1) none rest
  | i, some (v, st), none :: rest => (v, st, i + w - 1) :: groupRuns w (i + 1) none rest
  | i, none, some x :: rest => groupRuns w (i + 1) (some (x, i)) rest
  | i, some (v, st), some x :: rest =>
      if x = v then groupRuns w (i + 1) (some (v, st)) rest
      else (v, st, i + w - 1) :: groupRuns w (i + 1) (some (x, i)) rest

/-- C09: the maximal runs of consecutive valid windows with equal minimiser -/
def specRuns (w m : Nat) (s : List Nat) : List (Nat × Nat × Nat) :=
  groupRuns w 0 none (winMins w m s)

/-- Declarative characterisation of a run decomposition (what C09 says in words). -/
structure IsRunDecomposition (w m : Nat) (s : List Nat) (out : List (Nat × Nat × Nat)) : Prop where
  /-- runs are listed left to right -/
  sorted  : out.Pairwise fun a b => a.2.1 < b.2.1
  /-- every run is a non-empty range of windows inside `s`, all valid with the run's value -/
  sound   : ∀ r ∈ out, r.2.1 + w ≤ r.2.2 ∧ r.2.2 ≤ s.length ∧
              ∀ i, r.2.1 ≤ i → i + w ≤ r.2.2 → winMin w m s i = some r.1
  /-- a run cannot be extended to the left or to the right -/
  maximal : ∀ r ∈ out, (r.2.1 = 0 ∨ winMin w m s (r.2.1 - 1) ≠ some r.1) ∧
              winMin w m s (r.2.2 + 1 - w) ≠ some r.1
  /-- every valid window lies in a run carrying its minimiser -/
  cover   : ∀ i v, winMin w m s i = some v → ∃ r ∈ out, r.1 = v ∧ r.2.1 ≤ i ∧ i + w ≤ r.2.2

end KT
