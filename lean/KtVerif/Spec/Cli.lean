/-!
# Specification layer: the command line (C15, C16) and the output files on disk (C17)

The documented option ranges and what each accepted command writes where.  Nothing here mentions
clap; the tie to `kmertools/src/args.rs` is the regenerated range table (`KtVerif/Tie/Cli.lean`)
plus the accept/refuse behaviour of the real binary (correspondence).
-/
namespace KT

inductive VecPreset where
  | csv | tsv | spc
deriving DecidableEq, Repr

inductive MinPreset where
  | s2m | m2s
deriving DecidableEq, Repr

/-- the only thing a vector preset decides: the delimiter byte -/
def delimOf : VecPreset → List Nat
  | .csv => [44]
  | .tsv => [9]
  | .spc => [32]

inductive Cmd where
  | oligo (k : Nat) (counts header : Bool) (preset : VecPreset) (threads : Nat)
  | cgr (k : Option Nat) (counts : Bool) (vecSize : Option Nat) (threads : Nat)
  | cov (k binSize binCount memory : Nat) (counts : Bool) (preset : VecPreset) (threads : Nat)
  | min (m w : Nat) (preset : MinPreset) (threads : Nat)
  | ctr (k memory : Nat) (acgt : Bool) (threads : Nat)
deriving Repr

inductive Decision where
  | refuseRange (option : String)     -- the option parser refuses the value (exit status 2)
  | refuseMsg (msg : String)          -- accepted by the parser, refused by the program with a message
  | run
deriving DecidableEq, Repr

def inRange (lo hi x : Nat) : Bool := decide (lo ≤ x) && decide (x ≤ hi)

/-- documented ranges: oligo / k-mer CGR k in 3..=7; coverage k in 7..=31, bin size and bin count ≥ 5,
    memory 6..=128; minimiser m in 7..=28, window 0 or longer than m; counter k in 10..=31, memory 6..=128 -/
def cliDecide : Cmd → Decision
  | .oligo k _ _ _ _ => if inRange 3 7 k then .run else .refuseRange "k-size"
  | .cgr (some k) _ _ _ => if inRange 3 7 k then .run else .refuseRange "k-size"
  | .cgr none counts _ _ => if counts then .refuseMsg "cannot use counts in whole sequence CGR" else .run
  | .cov k bs bc mem _ _ _ =>
    if !inRange 7 31 k then .refuseRange "k-size"
    else if bs < 5 then .refuseRange "bin-size"
    else if bc < 5 then .refuseRange "bin-count"
    else if !inRange 6 128 mem then .refuseRange "memory"
    else .run
  | .min m w _ _ =>
    if !inRange 7 28 m then .refuseRange "m-size"
    else if w ≤ m ∧ 0 < w then .refuseMsg "Window size must be longer than minimiser size"
    else .run
  | .ctr k mem _ _ =>
    if !inRange 10 31 k then .refuseRange "k-size"
    else if !inRange 6 128 mem then .refuseRange "memory"
    else .run

/-- square size of the k-mer CGR when `-v` is not given: `(k^4)^0.5 = k²` -/
def defaultVecSize (k : Nat) : Nat := k * k

/-- the documented range table, as (struct, field, lo, hi) with hi = 0 for "no upper bound" -/
def documentedRanges : List (String × String × Nat × Nat) :=
  [("OligoCommand", "k_size", 3, 7), ("CGRCommand", "k_size", 3, 7), ("CoverageCommand", "k_size", 7, 31),
   ("CoverageCommand", "bin_size", 5, 0), ("CoverageCommand", "bin_count", 5, 0), ("CoverageCommand", "memory", 6, 128),
   ("MinimiserCommand", "m_size", 7, 28), ("MinimiserCommand", "w_size", 0, 0), ("CounterCommand", "k_size", 10, 31),
   ("CounterCommand", "memory", 6, 128)]

/-! ## files on disk (C17) -/

/-- the paths a run touches inside its output location -/
inductive Path where
  | out                          -- the output file of `comp` and `min`
  | counts                       -- `<dir>/kmers.counts`
  | vectors                      -- `<dir>/kmers.vectors`
  | temp (part chunk : Nat)      -- `<dir>/temp_kmers.part_<part>_chunk_<chunk>`
  | other (n : Nat)              -- anything else that happens to be there
deriving DecidableEq, Repr

/-- a file system: path ↦ content (first binding wins) -/
abbrev FS := List (Path × List Nat)

def FS.read (fs : FS) (p : Path) : Option (List Nat) := (fs.find? fun e => e.1 == p).map (·.2)

/-- create-or-truncate then write: what `File::create` + writes, and `OpenOptions … truncate(true)` +
    `set_len` + a write to every byte of the mapping, amount to -/
def FS.write (fs : FS) (p : Path) (content : List Nat) : FS := (p, content) :: fs.filter fun e => e.1 != p

def FS.delete (fs : FS) (p : Path) : FS := fs.filter fun e => e.1 != p

/-- counting: every counted chunk dumps every partition (also empty ones) -/
def countPhase (P C : Nat) (dump : Nat → Nat → List Nat) (fs : FS) : FS :=
  (List.range C).foldl (fun fs c => (List.range P).foldl (fun fs p => fs.write (.temp p c) (dump p c)) fs) fs

/-- merging reads exactly `part < P, chunk < C` and deletes what it read when asked to -/
def mergeReads (P C : Nat) : List Path :=
  (List.range P).flatMap fun p => (List.range C).map fun c => Path.temp p c

def mergePhase (P C : Nat) (delete : Bool) (combine : List (Option (List Nat)) → List Nat) (fs : FS) : FS :=
  let inputs := (mergeReads P C).map fs.read
  let fs := fs.write .counts (combine inputs)
  if delete then (mergeReads P C).foldl FS.delete fs else fs

/-- a whole `ctr` run: count, then merge with deletion -/
def ctrRun (P C : Nat) (dump : Nat → Nat → List Nat) (combine : List (Option (List Nat)) → List Nat) (fs : FS) : FS :=
  mergePhase P C true combine (countPhase P C dump fs)

/-- the library sequence `count(); merge(delete)`: like `ctrRun`, but the caller decides whether the chunk files are deleted -/
def ctrRunD (P C : Nat) (delete : Bool) (dump : Nat → Nat → List Nat) (combine : List (Option (List Nat)) → List Nat) (fs : FS) : FS :=
  mergePhase P C delete combine (countPhase P C dump fs)

/-- a `cov` run: the counting run, then the vectors file computed from the counts table it just wrote -/
def covRun (P C : Nat) (dump : Nat → Nat → List Nat) (combine : List (Option (List Nat)) → List Nat)
    (vectors : Option (List Nat) → List Nat) (fs : FS) : FS :=
  let fs := ctrRun P C dump combine fs
  fs.write .vectors (vectors (fs.read .counts))

/-- `comp oligo`, `comp cgr`, `min`: one output file, created or truncated, then written in full -/
def fileRun (content : List Nat) (fs : FS) : FS := fs.write .out content

end KT
