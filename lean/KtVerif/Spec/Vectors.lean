import KtVerif.Spec.Kmer
/-!
# Specification layer: composition vectors, coverage histogram, chaos game (C04, C08, C11, C12)
-/
namespace KT

/-- C04: number of valid windows of `s` whose canonical form is the k-mer of column `c` -/
def oligoSpec (k : Nat) (s : List Nat) (c : Nat) : Nat :=
  countOcc ((canonList k).getD c 0) (canons k s)

/-- number of valid windows -/
def windowCount (k : Nat) (s : List Nat) : Nat := (specKmers k s).length

/-- C04: the raw row, one entry per canonical k-mer `cl` in column order -/
def oligoRowSpecWith (cl : List Nat) (k : Nat) (s : List Nat) : List Nat :=
  let cs := canons k s
  cl.map fun x => countOcc x cs

/-- C04: the raw row (entry `c` is `oligoSpec k s c`) -/
def oligoRowSpec (k : Nat) (s : List Nat) : List Nat := oligoRowSpecWith (canonList k) k s

/-- C07/C08: multiplicity of canonical code `x` in a list of records -/
def countsOf (k : Nat) (recs : List (List Nat)) (x : Nat) : Nat :=
  countOcc x (recs.flatMap (canons k))

/-- C08: bin of a multiplicity -/
def binOf (binSize binCount c : Nat) : Nat := min (c / binSize) (binCount - 1)

/-- C08: entry `b` of the histogram of record `s` against the multiplicity function `cnt` -/
def covSpec (k binSize binCount : Nat) (cnt : Nat → Nat) (s : List Nat) (b : Nat) : Nat :=
  ((canons k s).filter fun x => binOf binSize binCount (cnt x) == b).length

def covRowSpec (k binSize binCount : Nat) (cnt : Nat → Nat) (s : List Nat) : List Nat :=
  (List.range binCount).map (covSpec k binSize binCount cnt s)

/-- C11: corner of a nucleotide in units of the square side: A=(0,0) C=(0,1) G=(1,1) T/U=(1,0) -/
def cornerSpec (b : Nat) : Option (Nat × Nat) :=
  if b = 65 ∨ b = 97 then some (0, 0)
  else if b = 67 ∨ b = 99 then some (0, 1)
  else if b = 71 ∨ b = 103 then some (1, 1)
  else if b = 84 ∨ b = 116 ∨ b = 85 ∨ b = 117 then some (1, 0)
  else none

/-- C11 exact chaos game.  Point `i` (1-based, after `i` bases) is `(X / 2^(i+1), Y / 2^(i+1))`;
    the state carries the numerators `(X, Y)` and `i`.  Start: centre `(S/2, S/2)` = numerators `(S, S)`, i = 0.
    Midpoint rule: `x' = (c·S + x) / 2`  ⇒  `X' = c·S·2^(i+1) + X`. -/
def cgrExactFrom (S : Nat) : Nat → Nat × Nat → List Nat → Option (List (Nat × Nat × Nat))
  | _, _, [] => some []
  | i, (X, Y), b :: bs =>
    match cornerSpec b with
    | none => none
    | some (cx, cy) =>
      let X' := cx * S * 2 ^ (i + 1) + X
      let Y' := cy * S * 2 ^ (i + 1) + Y
      match cgrExactFrom S (i + 1) (X', Y') bs with
      | none => none
      | some rest => some ((X', Y', i + 2) :: rest)

/-- C11: `none` = rejected; otherwise one `(X, Y, e)` per base meaning the point `(X / 2^e, Y / 2^e)` -/
def cgrExact (S : Nat) (s : List Nat) : Option (List (Nat × Nat × Nat)) := cgrExactFrom S 0 (S, S) s

end KT

namespace KT

/-- letter-case and T→U rewritings of a record (C04 invariances) -/
def lowerNuc (b : Nat) : Nat := if b = 65 ∨ b = 67 ∨ b = 71 ∨ b = 84 ∨ b = 85 then b + 32 else b
def upperNuc (b : Nat) : Nat := if b = 97 ∨ b = 99 ∨ b = 103 ∨ b = 116 ∨ b = 117 then b - 32 else b
def tToU (b : Nat) : Nat := if b = 84 then 85 else if b = 116 then 117 else b

end KT
