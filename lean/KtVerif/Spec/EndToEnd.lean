import KtVerif.Model.Sched
import KtVerif.Model.MinOut
import KtVerif.Spec.Vectors
/-!
# End-to-end specifications (composition of the per-layer theorems)

What a whole run must leave behind, stated only with Spec-layer notions; the `Props/E2E.lean`
theorems connect these to the Model-layer systems for every schedule.
-/
namespace KT

/-- C04/C05: the oligo vectors file — optional header line, then one normalised row per record in input order -/
def oligoFileSpec (k : Nat) (header : Bool) (delim : List Nat) (recs : List (List Nat)) : List Nat :=
  (if header then joinBytes delim (headerSpec k) ++ [10] else []) ++
  (recs.map fun s => rowText true delim (oligoRowSpec k s) (windowCount k s)).flatten

/-- the header bytes the code writes first -/
def oligoHeaderBytes (k : Nat) (header : Bool) (delim : List Nat) : List Nat :=
  if header then joinBytes delim (KT.header k) ++ [10] else []

/-- C07: a counting run is a sequence of chunks; chunk i starts where chunk i-1 stopped, is any
    terminal run of the chunk system, and the last one ends at the end of the input -/
inductive ChunkRuns (N limit T : Nat) (kms : Nat → List Nat) (len : Nat → Nat) : Nat → List CSys → Prop where
  | done : ChunkRuns N limit T kms len N []
  | step (start : Nat) (sched : List CStep) (s : CSys) (rest : List CSys)
      (hlt : start < N)
      (hrun : CSys.run N limit kms len (CSys.init T start) sched = some s)
      (hterm : s.terminal = true)
      (hrest : ChunkRuns N limit T kms len s.next rest) :
      ChunkRuns N limit T kms len start (s :: rest)

/-- the multiset of canonical k-mers of a whole input -/
def allCanons (k : Nat) (recs : List (List Nat)) : List Nat := recs.flatMap (canons k)

end KT
