import KtVerif.Model.Sched
import KtVerif.Model.MinOut
import KtVerif.Spec.Vectors
/-!
# End-to-end specifications (composition of the per-layer theorems)

What a whole run must leave behind, stated only with Spec-layer notions; the `Props/E2E.lean`
theorems connect these to the Model-layer systems for every schedule.
-/
namespace KT

/-- C04/C05: the oligo vectors file — optional header line, then one normalised row per record in input order -/
def oligoFileSpec (k : Nat) (header : Bool) (delim : List Nat) (recs : List (List Nat)) : List Nat :=
  (if header then joinBytes delim (headerSpec k) ++ [10] else []) ++
  (recs.map fun s => rowText true delim (oligoRowSpec k s) (windowCount k s)).flatten

/-- the header bytes the code writes first -/
def oligoHeaderBytes (k : Nat) (header : Bool) (delim : List Nat) : List Nat :=
  if header then joinBytes delim (KT.header k) ++ [10] else []

/-- C07: a counting run is a sequence of chunks; chunk i starts where chunk i-1 stopped, is any
    terminal run of the chunk system, and the last one ends at the end of the input -/
inductive ChunkRuns (N limit T : Nat) (kms : Nat → List Nat) (len : Nat → Nat) : Nat → List CSys → Prop where
  | done : ChunkRuns N limit T kms len N []
  | step (start : Nat) (sched : List CStep) (s : CSys) (rest : List CSys)
      (hlt : start < N)
      (hrun : CSys.run N limit kms len (CSys.init T start) sched = some s)
      (hterm : s.terminal = true)
      (hrest : ChunkRuns N limit T kms len s.next rest) :
      ChunkRuns N limit T kms len start (s :: rest)

/-- the multiset of canonical k-mers of a whole input -/
def allCanons (k : Nat) (recs : List (List Nat)) : List Nat := recs.flatMap (canons k)

end KT

namespace KT

/-- C08: the multiplicity function that `compute_coverages` builds from the lines of the counts table
    (`counts.insert(kmer, count)`; absent k-mers read as 0) -/
def cntOfTable (tbl : List (Nat × Nat)) (x : Nat) : Nat :=
  match tbl.find? (fun p => p.1 == x) with
  | some p => p.2
  | none => 0

/-- C08: the coverage vectors file — one row per record, in input order -/
def covFileSpec (k binSize binCount : Nat) (norm : Bool) (delim : List Nat)
    (countingRecs recs : List (List Nat)) : List Nat :=
  (recs.map fun s =>
      rowText norm delim (covRowSpec k binSize binCount (countsOf k countingRecs) s) (windowCount k s)).flatten

/-- C11: the j-base sub-square bounds of a coordinate: the last `j` corner bits `cs` (most recent first,
    each 0 or 1) confine the coordinate to `[lo, lo + S/2^j]` (in scaled double units) -/
def subsquareLo (S : Nat) (cs : List Nat) : Nat :=
  (List.range cs.length).foldl (fun a t => a + (cs.getD t 0) * S * f64One / 2 ^ (t + 1)) 0

end KT

namespace KT

/-- C04/C05: the oligo vectors file for either mode (raw counts or normalised) — the right-hand side of
    `oligo_batch_end_to_end`; for `norm = true` it is `oligoFileSpec` -/
def oligoFileSpecG (k : Nat) (norm header : Bool) (delim : List Nat) (recs : List (List Nat)) : List Nat :=
  (if header then joinBytes delim (headerSpec k) ++ [10] else []) ++
  (recs.map fun s => rowText norm delim (oligoRowSpec k s) (windowCount k s)).flatten

theorem oligoFileSpecG_norm (k : Nat) (header : Bool) (delim : List Nat) (recs : List (List Nat)) :
    oligoFileSpecG k true header delim recs = oligoFileSpec k header delim recs := rfl

end KT
