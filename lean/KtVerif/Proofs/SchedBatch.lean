import KtVerif.Model.Sched
/-!
# The batched writer loop and byte-join helpers
-/
namespace KT.Sch
open KT

theorem batchLoopAux_flatten {α : Type} (limit : Nat) (len : α → Nat) (recs : List α)
    (buf : List α) (total : Nat) :
    (batchLoopAux limit len buf total recs).flatten = buf ++ recs := by
  induction recs generalizing buf total with
  | nil =>
    unfold batchLoopAux
    cases buf <;> simp
  | cons r rs ih =>
    unfold batchLoopAux
    simp only
    split
    · rw [List.flatten_cons, ih]; simp
    · rw [ih]; simp

theorem batchLoopAux_nonempty {α : Type} (limit : Nat) (len : α → Nat) (recs : List α)
    (buf : List α) (total : Nat) :
    ∀ b ∈ batchLoopAux limit len buf total recs, b ≠ [] := by
  induction recs generalizing buf total with
  | nil =>
    unfold batchLoopAux
    cases buf <;> simp
  | cons r rs ih =>
    unfold batchLoopAux
    simp only
    split
    · intro b hb
      rcases List.mem_cons.mp hb with h | h
      · subst h; simp
      · exact ih _ _ b h
    · exact ih _ _

theorem flatten_map_flatten {α β : Type} (f : α → List β) (bs : List (List α)) :
    (bs.map fun b => (b.map f).flatten).flatten = (bs.flatten.map f).flatten := by
  induction bs with
  | nil => rfl
  | cons b bs ih => simp only [List.map_cons, List.flatten_cons, ih, List.map_append, List.flatten_append]

theorem joinBytes_length (sep : List Nat) (cells : List (List Nat)) (w : Nat) (hne : cells ≠ [])
    (hw : ∀ c ∈ cells, c.length = w) :
    (joinBytes sep cells).length = cells.length * w + (cells.length - 1) * sep.length := by
  induction cells with
  | nil => exact absurd rfl hne
  | cons x xs ih =>
    have hx : x.length = w := hw x List.mem_cons_self
    cases xs with
    | nil => simp [joinBytes, hx]
    | cons y ys =>
      have h2 := ih (by simp) (fun c hc => hw c (List.mem_cons_of_mem _ hc))
      simp only [joinBytes, List.length_append, h2, hx, List.length_cons, Nat.succ_mul,
        Nat.add_sub_cancel]
      omega

end KT.Sch
