import KtVerif.Model.Sched
/-!
# The batched writer loop and byte-join helpers
-/
namespace KT.Sch
open KT

theorem batchLoopAux_flatten {α : Type} (limit : Nat) (len : α → Nat) (recs : List α)
    (buf : List α) (total : Nat) :
    (batchLoopAux limit len buf total recs).flatten = buf ++ recs := by
  induction recs generalizing buf total with
  | nil =>
    unfold batchLoopAux
    cases buf <;> simp
  | cons r rs ih =>
    unfold batchLoopAux
    simp only
    split
    · rw [List.flatten_cons, ih]; simp
    · rw [ih]; simp

theorem batchLoopAux_nonempty {α : Type} (limit : Nat) (len : α → Nat) (recs : List α)
    (buf : List α) (total : Nat) :
    ∀ b ∈ batchLoopAux limit len buf total recs, b ≠ [] := by
  induction recs generalizing buf total with
  | nil =>
    unfold batchLoopAux
    cases buf <;> simp
  | cons r rs ih =>
    unfold batchLoopAux
    simp only
    split
    · intro b hb
      rcases List.mem_cons.mp hb with h | h
      · subst h; simp
      · exact ih _ _ b h
    · exact ih _ _

theorem flatten_map_flatten {α β : Type} (f : α → List β) (bs : List (List α)) :
    (bs.map fun b => (b.map f).flatten).flatten = (bs.flatten.map f).flatten := by
  induction bs with
  | nil => rfl
  | cons b bs ih => simp only [List.map_cons, List.flatten_cons, ih, List.map_append, List.flatten_append]

theorem joinBytes_length (sep : List Nat) (cells : List (List Nat)) (w : Nat) (hne : cells ≠ [])
    (hw : ∀ c ∈ cells, c.length = w) :
    (joinBytes sep cells).length = cells.length * w + (cells.length - 1) * sep.length := by
  induction cells with
  | nil => exact absurd rfl hne
  | cons x xs ih =>
    have hx : x.length = w := hw x List.mem_cons_self
    cases xs with
    | nil => simp [joinBytes, hx]
    | cons y ys =>
      have h2 := ih (by simp) (fun c hc => hw c (List.mem_cons_of_mem _ hc))
      simp only [joinBytes, List.length_append, h2, hx, List.length_cons, Nat.succ_mul,
        Nat.add_sub_cancel]
      omega

end KT.Sch

namespace KT.Sch
open KT

/-- length of a joined, newline-terminated row of fixed-width cells (cell text abstract) -/
theorem row_length_abstract {β : Type} (delim : List Nat) (counts : List Nat) (f : Nat → β)
    (h : β → List Nat) (hne : counts ≠ []) (h8 : ∀ c ∈ counts, (h (f c)).length = 8) :
    (joinBytes delim ((counts.map f).map h) ++ [10]).length = perLineSize counts.length delim.length := by
  have hcells : ∀ c ∈ (counts.map f).map h, c.length = 8 := by
    intro c hc
    simp only [List.map_map, List.mem_map, Function.comp] at hc
    obtain ⟨a, ha, rfl⟩ := hc
    exact h8 a ha
  have hne' : (counts.map f).map h ≠ [] := by
    intro e
    have := congrArg List.length e
    simp only [List.length_map, List.length_nil] at this
    exact hne (List.length_eq_zero_iff.mp this)
  have hj := joinBytes_length delim _ 8 hne' hcells
  simp only [List.length_map] at hj
  simp only [List.length_append, List.length_cons, List.length_nil, hj, perLineSize]

end KT.Sch
