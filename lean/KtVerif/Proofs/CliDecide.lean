import KtVerif.Spec.Cli
import KtVerif.Model.MinOut
/-!
# Helpers for C15 / C16: the decision function as arithmetic, accepted parameters inside the core domain
-/
namespace KT.Cl
open KT

theorem inRange_iff (lo hi x : Nat) : inRange lo hi x = true ↔ lo ≤ x ∧ x ≤ hi := by
  unfold inRange
  rw [Bool.and_eq_true, decide_eq_true_iff, decide_eq_true_iff]

theorem inRange_false_iff (lo hi x : Nat) : inRange lo hi x = false ↔ ¬ (lo ≤ x ∧ x ≤ hi) := by
  rw [← inRange_iff, Bool.not_eq_true]

theorem oligo_run_iff (k : Nat) (c h : Bool) (p : VecPreset) (t : Nat) :
    cliDecide (.oligo k c h p t) = .run ↔ (3 ≤ k ∧ k ≤ 7) := by
  unfold cliDecide
  simp only [inRange_iff]
  repeat' split
  all_goals simp only [reduceCtorEq, false_iff, true_iff]
  all_goals omega

theorem cgr_k_run_iff (k : Nat) (c : Bool) (v : Option Nat) (t : Nat) :
    cliDecide (.cgr (some k) c v t) = .run ↔ (3 ≤ k ∧ k ≤ 7) := by
  unfold cliDecide
  simp only [inRange_iff]
  repeat' split
  all_goals simp only [reduceCtorEq, false_iff, true_iff]
  all_goals omega

theorem cgr_whole_run_iff (c : Bool) (v : Option Nat) (t : Nat) : cliDecide (.cgr none c v t) = .run ↔ c = false := by
  unfold cliDecide
  cases c <;> simp

theorem cov_run_iff (k bs bc mem : Nat) (c : Bool) (p : VecPreset) (t : Nat) :
    cliDecide (.cov k bs bc mem c p t) = .run ↔ (7 ≤ k ∧ k ≤ 31 ∧ 5 ≤ bs ∧ 5 ≤ bc ∧ 6 ≤ mem ∧ mem ≤ 128) := by
  unfold cliDecide
  simp only [Bool.not_eq_true', inRange_false_iff]
  repeat' split
  all_goals simp only [reduceCtorEq, false_iff, true_iff]
  all_goals omega

theorem min_run_iff (m w : Nat) (p : MinPreset) (t : Nat) :
    cliDecide (.min m w p t) = .run ↔ (7 ≤ m ∧ m ≤ 28 ∧ (w = 0 ∨ m < w)) := by
  unfold cliDecide
  simp only [Bool.not_eq_true', inRange_false_iff]
  repeat' split
  all_goals simp only [reduceCtorEq, false_iff, true_iff]
  all_goals omega

theorem ctr_run_iff (k mem : Nat) (a : Bool) (t : Nat) :
    cliDecide (.ctr k mem a t) = .run ↔ (10 ≤ k ∧ k ≤ 31 ∧ 6 ≤ mem ∧ mem ≤ 128) := by
  unfold cliDecide
  simp only [Bool.not_eq_true', inRange_false_iff]
  repeat' split
  all_goals simp only [reduceCtorEq, false_iff, true_iff]
  all_goals omega

theorem kmerNewSafe_of (k : Nat) (h1 : 1 ≤ k) (h2 : k ≤ 31) : kmerNewSafe k = true := by
  unfold kmerNewSafe
  rw [Bool.and_eq_true, decide_eq_true_iff, decide_eq_true_iff]
  omega

theorem effW_ge (w m : Nat) (seq : List Nat) (hw : w = 0 ∨ m ≤ w) : m ≤ effW w m seq := by
  unfold effW
  split
  · exact Nat.le_max_right _ _
  · omega

theorem minOutSafe_of (m w : Nat) (h1 : 1 ≤ m) (h2 : m ≤ 31) (hw : w = 0 ∨ m ≤ w) (seq : List Nat) :
    minOutSafe w m seq = true := by
  have h := effW_ge w m seq hw
  unfold minOutSafe minNewSafe
  rw [Bool.and_eq_true, Bool.and_eq_true, decide_eq_true_iff, decide_eq_true_iff, decide_eq_true_iff]
  omega

theorem refuse_range_reason (cmd : Cmd) (o : String) (h : cliDecide cmd = .refuseRange o) :
    o = "k-size" ∨ o = "bin-size" ∨ o = "bin-count" ∨ o = "memory" ∨ o = "m-size" := by
  rcases cmd with ⟨k, _, _, _, _⟩ | ⟨_ | k, c, _, _⟩ | ⟨k, bs, bc, mem, _, _, _⟩ | ⟨m, w, _, _⟩ | ⟨k, mem, _, _⟩
  all_goals
    simp only [cliDecide] at h
    repeat' split at h
    all_goals first
      | (cases h; done)
      | (injection h with h; subst h; simp only [true_or, or_true])

end KT.Cl
