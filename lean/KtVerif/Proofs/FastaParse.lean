import KtVerif.Proofs.FastaLines
/-!
# C06 helpers, part 2: the record grammars on the lines of a well-formed file
-/
namespace KT.Fa
open KT

/-- what the rust-bio record of a source record is -/
def toRaw (r : SrcRec) : RawRec := { id := r.id, desc := r.desc, seq := r.seq }

/-! ## well-formedness, unpacked -/

theorem isGraph_ge {b : Nat} (h : isGraph b = true) : 33 ≤ b := by
  simp only [isGraph, Bool.and_eq_true, decide_eq_true_eq] at h; exact h.1

theorem isPrint_ge {b : Nat} (h : isPrint b = true) : 32 ≤ b := by
  simp only [isPrint, Bool.and_eq_true, decide_eq_true_eq] at h; exact h.1

theorem isWordByte_ge {b : Nat} (h : isWordByte b = true) : 33 ≤ b := by
  simp only [isWordByte, Bool.or_eq_true, decide_eq_true_eq] at h
  rcases h with h | h
  · exact isGraph_ge h
  · omega

theorem isDescByte_ge {b : Nat} (h : isDescByte b = true) : 32 ≤ b := by
  simp only [isDescByte, Bool.or_eq_true, decide_eq_true_eq] at h
  rcases h with h | h
  · exact isPrint_ge h
  · omega

structure HeaderOk (r : SrcRec) : Prop where
  id_ne : r.id ≠ []
  id_ge : ∀ b ∈ r.id, 33 ≤ b
  desc_ne : ∀ d, r.desc = some d → d ≠ []
  desc_ge : ∀ d, r.desc = some d → ∀ b ∈ d, 32 ≤ b
  desc_last : ∀ d, r.desc = some d → d.getLast? ≠ some 32

theorem headerOk_of_wf {r : SrcRec} (h : wfHeader r = true) : HeaderOk r := by
  unfold wfHeader at h
  simp only [Bool.and_eq_true, Bool.not_eq_true', List.isEmpty_eq_false_iff, List.all_eq_true] at h
  obtain ⟨⟨h1, h2⟩, h3⟩ := h
  refine ⟨h1, fun b hb => isWordByte_ge (h2 b hb), ?_, ?_, ?_⟩
  · intro d hd
    rw [hd] at h3
    simp only [Bool.and_eq_true, Bool.not_eq_true', List.isEmpty_eq_false_iff] at h3
    exact h3.1.1.1
  · intro d hd b hb
    rw [hd] at h3
    simp only [Bool.and_eq_true, List.all_eq_true] at h3
    exact isDescByte_ge (h3.1.1.2 b hb)
  · intro d hd
    rw [hd] at h3
    simp only [Bool.and_eq_true, bne_iff_ne, ne_eq] at h3
    exact h3.2

/-- the text after the marker -/
def headerTail (r : SrcRec) : List Nat :=
  r.id ++ (match r.desc with | none => [] | some d => 32 :: d)

theorem headerLine_eq (m : Nat) (r : SrcRec) : headerLine m r = m :: headerTail r := rfl

theorem headerTail_ge {r : SrcRec} (h : HeaderOk r) : ∀ b ∈ headerTail r, 32 ≤ b := by
  intro b hb
  unfold headerTail at hb
  rw [List.mem_append] at hb
  rcases hb with hb | hb
  · have := h.id_ge b hb; omega
  · cases hd : r.desc with
    | none => rw [hd] at hb; simp at hb
    | some d =>
      rw [hd] at hb
      simp only [List.mem_cons] at hb
      rcases hb with rfl | hb
      · exact Nat.le_refl _
      · exact h.desc_ge d hd b hb

theorem headerTail_lastOk {r : SrcRec} (h : HeaderOk r) : LastOk (headerTail r) := by
  intro x hx
  unfold headerTail at hx
  cases hd : r.desc with
  | none =>
    rw [hd] at hx
    simp only [List.append_nil] at hx
    exact isWs_false_of_ge (h.id_ge x (List.mem_of_getLast? hx))
  | some d =>
    rw [hd] at hx
    have hlast := h.desc_last d hd
    cases d with
    | nil => exact absurd rfl (h.desc_ne _ hd)
    | cons y ys =>
      rw [List.getLast?_append, List.getLast?_cons_cons] at hx
      cases hz : (y :: ys).getLast? with
      | none => simp at hz
      | some z =>
        rw [hz, Option.some_or] at hx
        cases hx
        have hmem : x ∈ y :: ys := List.mem_of_getLast? hz
        have hge := h.desc_ge _ hd x hmem
        have hne : x ≠ 32 := by
          rintro rfl
          exact hlast hz
        exact isWs_false_of_ge (by omega)

theorem headerLine_noNL (m : Nat) (hm : m ≠ 10) {r : SrcRec} (h : HeaderOk r) : NoNL (headerLine m r) := by
  intro b hb
  rw [headerLine_eq, List.mem_cons] at hb
  rcases hb with rfl | hb
  · exact hm
  · have := headerTail_ge h b hb; omega

theorem splitFirst_headerTail (p : Nat → Bool) (hp32 : p 32 = true) (hp : ∀ b, 33 ≤ b → p b = false)
    {r : SrcRec} (h : HeaderOk r) : splitFirst p (headerTail r) = (r.id, r.desc) := by
  unfold headerTail
  have hid : ∀ b ∈ r.id, p b = false := fun b hb => hp b (h.id_ge b hb)
  cases r.desc with
  | none => simpa using splitFirst_none p r.id hid
  | some d => exact splitFirst_some p r.id 32 d hid hp32

/-- how both readers take a header line apart -/
theorem header_parse (m : Nat) (p : Nat → Bool) (hp32 : p 32 = true) (hp : ∀ b, 33 ≤ b → p b = false)
    {r : SrcRec} (h : HeaderOk r) {l' : List Nat} (ht : Term (headerLine m r) l') :
    l'.head? = some m ∧ splitFirst p (trimEnd (l'.drop 1)) = (r.id, r.desc) := by
  obtain ⟨t, rfl, hws⟩ := ht
  refine ⟨by simp [headerLine_eq], ?_⟩
  have : (headerLine m r ++ t).drop 1 = headerTail r ++ t := by simp [headerLine_eq]
  rw [this, trimEnd_append_ws _ _ (headerTail_lastOk h) hws]
  exact splitFirst_headerTail p hp32 hp h

/-! ## sequence lines -/

/-- a sequence / quality line: non-empty, graphic, not starting with `x` -/
def SeqLine (x : Nat) (c : List Nat) : Prop := c ≠ [] ∧ (∀ b ∈ c, 33 ≤ b) ∧ c.head? ≠ some x

theorem SeqLine.term {x : Nat} {c c' : List Nat} (hc : SeqLine x c) (ht : Term c c') :
    c'.head? ≠ some x ∧ trimEnd c' = c := by
  obtain ⟨t, rfl, hws⟩ := ht
  obtain ⟨hne, hge, hh⟩ := hc
  refine ⟨?_, trimEnd_append_ws _ _ (lastOk_of_all fun b hb => isWs_false_of_ge (hge b hb)) hws⟩
  cases c with
  | nil => exact absurd rfl hne
  | cons y ys => simpa using hh

theorem seqLine_chunks (x w : Nat) (l : List Nat) (hl : ∀ b ∈ l, 33 ≤ b ∧ b ≠ x) :
    ∀ c ∈ chunks w l, SeqLine x c := by
  intro c hc
  obtain ⟨hne, hsub⟩ := chunks_mem w l c hc
  refine ⟨hne, fun b hb => (hl b (hsub b hb)).1, ?_⟩
  cases c with
  | nil => exact absurd rfl hne
  | cons y ys =>
    have := (hl y (hsub y (by simp))).2
    simpa using this

/-! ## FASTA -/

theorem fastaBody_lines (cs cs' rest' : List (List Nat)) (ht : Terms cs cs')
    (hc : ∀ c ∈ cs, SeqLine 62 c) (hr : ∀ l ∈ rest'.head?, l.head? = some 62) :
    fastaBody (cs' ++ rest') = (cs.flatten, rest') := by
  induction ht with
  | nil =>
    cases rest' with
    | nil => rfl
    | cons l ls =>
      have : l.head? = some 62 := hr l (by simp)
      simp [fastaBody, this]
  | @cons c c' cs cs' h1 _ ih =>
    have ⟨hh, htrim⟩ := (hc c (by simp)).term h1
    have ih' := ih (fun x hx => hc x (by simp [hx]))
    simp only [List.cons_append, fastaBody, hh, if_false, ih', htrim, List.flatten_cons]

theorem wfFasta_unpack {r : SrcRec} (h : wfFasta r = true) :
    HeaderOk r ∧ ∀ b ∈ r.seq, 33 ≤ b ∧ b ≠ 62 := by
  unfold wfFasta at h
  simp only [Bool.and_eq_true, List.all_eq_true, bne_iff_ne, ne_eq] at h
  exact ⟨headerOk_of_wf h.1, fun b hb => ⟨isGraph_ge (h.2 b hb).1, (h.2 b hb).2⟩⟩

theorem fastaLines_ok (cfg : SerCfg) {r : SrcRec} (h : wfFasta r = true) :
    ∀ l ∈ fastaLines cfg r, NoNL l ∧ l ≠ [] := by
  obtain ⟨hh, hs⟩ := wfFasta_unpack h
  intro l hl
  unfold fastaLines at hl
  rw [List.mem_cons] at hl
  rcases hl with rfl | hl
  · exact ⟨headerLine_noNL 62 (by decide) hh, by simp [headerLine_eq]⟩
  · obtain ⟨hne, hge, _⟩ := seqLine_chunks 62 cfg.wrap r.seq hs l hl
    exact ⟨fun b hb => by have := hge b hb; omega, hne⟩

theorem fastaRecords_lines (cfg : SerCfg) (recs : List SrcRec) (hwf : ∀ r ∈ recs, wfFasta r = true) :
    ∀ ls', Terms (recs.flatMap (fastaLines cfg)) ls' → fastaRecords ls' = (recs.map toRaw, ParseStatus.done) := by
  induction recs with
  | nil =>
    intro ls' h
    rw [Terms.nil_inv h, fastaRecords]; rfl
  | cons r rs ih =>
    intro ls' h
    obtain ⟨hh, hs⟩ := wfFasta_unpack (hwf r (by simp))
    rw [List.flatMap_cons] at h
    obtain ⟨a', rest', rfl, ha, hrest⟩ := Terms.append_inv h
    obtain ⟨h', cs', rfl, hhead, hcs⟩ := Terms.cons_inv ha
    obtain ⟨hh1, hh2⟩ := header_parse 62 isWs (by decide) (fun b hb => isWs_false_of_ge hb) hh hhead
    have hnext : ∀ l ∈ rest'.head?, l.head? = some 62 := by
      cases rs with
      | nil =>
        rw [Terms.nil_inv hrest]; simp
      | cons r2 rs2 =>
        rw [List.flatMap_cons] at hrest
        obtain ⟨l2, rest2, rfl, ht2, _⟩ := Terms.cons_inv hrest
        obtain ⟨hh2, _⟩ := wfFasta_unpack (hwf r2 (by simp))
        intro l hl
        simp only [List.head?_cons, Option.mem_def, Option.some.injEq] at hl
        subst hl
        exact (header_parse 62 isWs (by decide) (fun b hb => isWs_false_of_ge hb) hh2 ht2).1
    have hbody := fastaBody_lines _ cs' rest' hcs (seqLine_chunks 62 cfg.wrap r.seq hs) hnext
    rw [chunks_flatten] at hbody
    have ih' := ih (fun x hx => hwf x (by simp [hx])) rest' hrest
    rw [List.cons_append, fastaRecords]
    simp only [hh1, ne_eq, not_true_eq_false, if_false, hh2, hbody, ih', List.map_cons]
    have : r.id.isEmpty = false := by simpa using hh.id_ne
    simp [this, toRaw]

/-! ## FASTQ -/

theorem fastqSeqLines_lines (cs cs' : List (List Nat)) (plus' : List Nat) (rest : List (List Nat))
    (ht : Terms cs cs') (hc : ∀ c ∈ cs, SeqLine 43 c) (hp : plus'.head? = some 43) :
    fastqSeqLines (cs' ++ plus' :: rest) = (cs.flatten, cs.length, rest) := by
  induction ht with
  | nil => simp [fastqSeqLines, hp]
  | @cons c c' cs cs' h1 _ ih =>
    have ⟨hh, htrim⟩ := (hc c (by simp)).term h1
    have ih' := ih (fun x hx => hc x (by simp [hx]))
    simp only [List.cons_append, fastqSeqLines, hh, if_false, ih', htrim, List.flatten_cons,
      List.length_cons]

theorem fastqQualLines_lines (cs cs' rest' : List (List Nat)) (ht : Terms cs cs')
    (hc : ∀ c ∈ cs, ∀ b ∈ c, 33 ≤ b) :
    fastqQualLines cs.length (cs' ++ rest') = (cs.flatten, rest') := by
  induction ht with
  | nil => simp [fastqQualLines]
  | @cons c c' cs cs' h1 _ ih =>
    obtain ⟨t, rfl, hws⟩ := h1
    have htrim : trimEnd (c ++ t) = c :=
      trimEnd_append_ws _ _ (lastOk_of_all fun b hb => isWs_false_of_ge (hc c (by simp) b hb)) hws
    have ih' := ih (fun x hx => hc x (by simp [hx]))
    simp only [List.cons_append, List.length_cons, fastqQualLines, ih', htrim, List.flatten_cons]

structure FastqOk (r : SrcRec) : Prop where
  header : HeaderOk r
  seq_ne : r.seq ≠ []
  seq_ok : ∀ b ∈ r.seq, 33 ≤ b ∧ b ≠ 43
  qual_len : r.qual.length = r.seq.length
  qual_ok : ∀ b ∈ r.qual, 33 ≤ b

theorem wfFastq_unpack {r : SrcRec} (h : wfFastq r = true) : FastqOk r := by
  unfold wfFastq at h
  simp only [Bool.and_eq_true, List.all_eq_true, bne_iff_ne, ne_eq, Bool.not_eq_true',
    List.isEmpty_eq_false_iff, beq_iff_eq] at h
  obtain ⟨⟨⟨⟨h1, h2⟩, h3⟩, h4⟩, h5⟩ := h
  exact ⟨headerOk_of_wf h1, h2, fun b hb => ⟨isGraph_ge (h3 b hb).1.1, (h3 b hb).1.2⟩, h4,
    fun b hb => isGraph_ge (h5 b hb)⟩

theorem fastqLines_ok (cfg : SerCfg) {r : SrcRec} (h : wfFastq r = true) :
    ∀ l ∈ fastqLines cfg r, NoNL l ∧ l ≠ [] := by
  have ok := wfFastq_unpack h
  intro l hl
  unfold fastqLines at hl
  simp only [List.cons_append, List.mem_cons, List.mem_append,
    List.not_mem_nil, or_false] at hl
  rcases hl with rfl | (hl | rfl) | hl
  · exact ⟨headerLine_noNL 64 (by decide) ok.header, by simp [headerLine_eq]⟩
  · obtain ⟨hne, hge, _⟩ := seqLine_chunks 43 cfg.wrap r.seq ok.seq_ok l hl
    exact ⟨fun b hb => by have := hge b hb; omega, hne⟩
  · exact ⟨fun b hb => by simp only [List.mem_singleton] at hb; omega, by decide⟩
  · obtain ⟨hne, hsub⟩ := chunks_mem cfg.wrap r.qual l hl
    exact ⟨fun b hb => by have := ok.qual_ok b (hsub b hb); omega, hne⟩

theorem fastqRecords_lines (cfg : SerCfg) (recs : List SrcRec) (hwf : ∀ r ∈ recs, wfFastq r = true) :
    ∀ ls', Terms (recs.flatMap (fastqLines cfg)) ls' → fastqRecords ls' = (recs.map toRaw, ParseStatus.done) := by
  induction recs with
  | nil =>
    intro ls' h
    rw [Terms.nil_inv h, fastqRecords]; rfl
  | cons r rs ih =>
    intro ls' h
    have ok := wfFastq_unpack (hwf r (by simp))
    rw [List.flatMap_cons] at h
    obtain ⟨a', rest', rfl, ha, hrest⟩ := Terms.append_inv h
    unfold fastqLines at ha
    rw [List.cons_append, List.cons_append, List.append_assoc] at ha
    obtain ⟨h', b', rfl, hhead, hb⟩ := Terms.cons_inv ha
    obtain ⟨scs', c', rfl, hscs, hc⟩ := Terms.append_inv hb
    rw [List.cons_append, List.nil_append] at hc
    obtain ⟨plus', qcs', rfl, hplus, hqcs⟩ := Terms.cons_inv hc
    obtain ⟨hh1, hh2⟩ := header_parse 64 (· == 32) (by decide)
      (fun b hb => by simp only [beq_eq_false_iff_ne]; omega) ok.header hhead
    have hp : plus'.head? = some 43 := by
      obtain ⟨t, rfl, _⟩ := hplus; rfl
    have hseq := fastqSeqLines_lines _ scs' plus' (qcs' ++ rest') hscs
      (seqLine_chunks 43 cfg.wrap r.seq ok.seq_ok) hp
    rw [chunks_flatten] at hseq
    have hqual := fastqQualLines_lines _ qcs' rest' hqcs
      (fun c hc b hb => ok.qual_ok b ((chunks_mem cfg.wrap r.qual c hc).2 b hb))
    rw [chunks_flatten, chunks_length_congr cfg.wrap r.qual r.seq ok.qual_len] at hqual
    have ih' := ih (fun x hx => hwf x (by simp [hx])) rest' hrest
    have hq : r.qual.isEmpty = false := by
      rw [List.isEmpty_eq_false_iff]
      intro e
      have := ok.qual_len
      rw [e] at this
      exact ok.seq_ne (List.length_eq_zero_iff.mp this.symm)
    rw [List.cons_append, List.append_assoc, List.cons_append, fastqRecords]
    simp only [hh1, ne_eq, not_true_eq_false, if_false, hh2, hseq, hqual, ih', List.map_cons, hq]
    simp [toRaw]

end KT.Fa
