import KtVerif.Proofs.Cgr
import KtVerif.Proofs.FloatDiv
/-!
# Chaos game in `f64`: while the dyadic numerators fit in 53 bits every operation is exact
-/
namespace KT.Fl
open KT

attribute [local irreducible] f64One

/-- `X · 1.0 / 2^e` in scaled units is `X · 2^(1074 - e)` -/
theorem mul_f64One_div (X e : Nat) (he : e ≤ 1074) : X * f64One / 2 ^ e = X * 2 ^ (1074 - e) := by
  rw [f64One_eq, ← two_pow_split (1074 - e) e 1074 (by omega), ← Nat.mul_assoc,
    Nat.mul_div_cancel _ (Nat.two_pow_pos e)]

theorem f64One_split (e : Nat) (he : e ≤ 1074) : f64One = 2 ^ e * 2 ^ (1074 - e) := by
  rw [f64One_eq, two_pow_split e (1074 - e) 1074 (by omega)]

/-- one midpoint step is exact -/
theorem cgrMid_exact (S cx X i : Nat) (hcx : cx ≤ 1) (hX : X ≤ S * 2 ^ (i + 1))
    (hb : bitLen S + i + 2 ≤ 53) :
    cgrMid (cx * f64OfNat S) (X * f64One / 2 ^ (i + 1)) =
      (cx * S * 2 ^ (i + 1) + X) * f64One / 2 ^ (i + 2) := by
  have hS : S < 2 ^ 53 := by
    rw [← bitLen_le_iff]; omega
  have hX' : cx * S * 2 ^ (i + 1) + X < 2 ^ 53 := by
    have h1 : cx * S * 2 ^ (i + 1) ≤ 1 * S * 2 ^ (i + 1) :=
      Nat.mul_le_mul_right _ (Nat.mul_le_mul_right _ hcx)
    rw [Nat.one_mul] at h1
    have h2 : S * 2 ^ (i + 1) + S * 2 ^ (i + 1) = S * 2 ^ (i + 2) := by
      rw [Nat.pow_succ 2 (i + 1), ← Nat.mul_assoc]; omega
    have h3 : S * 2 ^ (i + 2) < 2 ^ bitLen S * 2 ^ (i + 2) :=
      Nat.mul_lt_mul_of_pos_right (lt_two_pow_bitLen S) (Nat.two_pow_pos _)
    have h4 : 2 ^ bitLen S * 2 ^ (i + 2) ≤ 2 ^ 53 := by
      rw [← Nat.pow_add]; exact Nat.pow_le_pow_right (by decide) (by omega)
    omega
  have hk : 1074 - (i + 1) = (1074 - (i + 2)) + 1 := by omega
  unfold cgrMid f64Add f64Half
  rw [f64OfNat_exact S hS, mul_f64One_div X (i + 1) (by omega), mul_f64One_div _ (i + 2) (by omega)]
  have e1 : cx * (S * f64One) + X * 2 ^ (1074 - (i + 1)) =
      (cx * S * 2 ^ (i + 1) + X) * 2 ^ (1074 - (i + 1)) := by
    rw [f64One_split (i + 1) (by omega)]; ring
  rw [e1, roundRat_exact_one _ _ hX', hk, roundRat_half_exact _ _ hX']

/-- the start marker is exact -/
theorem cgrCentre_exact (S : Nat) (hS : S < 2 ^ 53) :
    cgrCentre S = (S * f64One / 2 ^ (0 + 1), S * f64One / 2 ^ (0 + 1)) := by
  unfold cgrCentre f64Half
  rw [f64OfNat_exact S hS, mul_f64One_div S (0 + 1) (by omega)]
  have : S * f64One = S * 2 ^ (1073 + 1) := by rw [f64One_eq]
  rw [this, roundRat_half_exact S 1073 hS]

theorem cgrLoop_exact (S : Nat) (s : List Nat) : ∀ (i X Y : Nat),
    X ≤ S * 2 ^ (i + 1) → Y ≤ S * 2 ^ (i + 1) → bitLen S + i + s.length + 1 ≤ 53 →
    cgrLoop S (X * f64One / 2 ^ (i + 1), Y * f64One / 2 ^ (i + 1)) s =
      (cgrExactFrom S i (X, Y) s).map fun l => l.map fun p =>
        (p.1 * f64One / 2 ^ p.2.2, p.2.1 * f64One / 2 ^ p.2.2) := by
  induction s with
  | nil => intro i X Y _ _ _; rw [cgrLoop_nil, cgrExactFrom_nil]; rfl
  | cons b bs ih =>
    intro i X Y hX hY hbits
    rw [List.length_cons] at hbits
    cases hc : cornerSpec b with
    | none => rw [cgrLoop_cons_none S _ b bs hc, cgrExactFrom_cons_none S i _ b bs hc]; rfl
    | some c =>
      obtain ⟨cx, cy⟩ := c
      obtain ⟨hcx, hcy⟩ := cornerSpec_le_one b cx cy hc
      rw [cgrLoop_cons_some S _ _ b bs cx cy hc, cgrExactFrom_cons_some S i X Y b bs cx cy hc,
        cgrMid_exact S cx X i hcx hX (by omega), cgrMid_exact S cy Y i hcy hY (by omega)]
      have hp2 : S * 2 ^ (i + 1 + 1) = S * 2 ^ (i + 1) + S * 2 ^ (i + 1) := by
        rw [Nat.pow_succ 2 (i + 1), ← Nat.mul_assoc]; omega
      have hX' : cx * S * 2 ^ (i + 1) + X ≤ S * 2 ^ (i + 1 + 1) := by
        have : cx * S * 2 ^ (i + 1) ≤ 1 * S * 2 ^ (i + 1) :=
          Nat.mul_le_mul_right _ (Nat.mul_le_mul_right _ hcx)
        rw [Nat.one_mul] at this; omega
      have hY' : cy * S * 2 ^ (i + 1) + Y ≤ S * 2 ^ (i + 1 + 1) := by
        have : cy * S * 2 ^ (i + 1) ≤ 1 * S * 2 ^ (i + 1) :=
          Nat.mul_le_mul_right _ (Nat.mul_le_mul_right _ hcy)
        rw [Nat.one_mul] at this; omega
      have := ih (i + 1) _ _ hX' hY' (by omega)
      rw [this]
      cases cgrExactFrom S (i + 1) (cx * S * 2 ^ (i + 1) + X, cy * S * 2 ^ (i + 1) + Y) bs <;> rfl

theorem cgrF64_exact (S : Nat) (s : List Nat) (hbits : bitLen S + s.length + 1 ≤ 53) :
    cgrF64 S s = (cgrExact S s).map fun l => l.map fun p =>
      (p.1 * f64One / 2 ^ p.2.2, p.2.1 * f64One / 2 ^ p.2.2) := by
  have hS : S < 2 ^ 53 := by
    rw [← bitLen_le_iff]; omega
  unfold cgrF64 cgrExact
  rw [cgrCentre_exact S hS]
  exact cgrLoop_exact S s 0 S S (by omega) (by omega) (by omega)

end KT.Fl
