import KtVerif.Model.Minimiser
/-!
# Register layer of the minimiser iterator: bit operations as arithmetic (m ≤ 31)
-/
namespace KT.Min
open KT

theorem four_pow (k : Nat) : 4 ^ k = 2 ^ (2 * k) := by
  rw [Nat.pow_mul]

theorem pow_le_62 {k : Nat} (hk : k ≤ 31) : 4 ^ k ≤ 2 ^ 62 := by
  rw [four_pow]; exact Nat.pow_le_pow_right (by omega) (by omega)

theorem four_pow_pos (k : Nat) : 0 < 4 ^ k := Nat.pow_pos (by omega)

theorem four_pow_pred {m : Nat} (hm1 : 1 ≤ m) : 4 ^ m = 4 * 4 ^ (m - 1) := by
  obtain ⟨k, rfl⟩ : ∃ k, m = k + 1 := ⟨m - 1, by omega⟩
  simp [Nat.pow_succ, Nat.mul_comm]

theorem pow_lt_U64MAX {m : Nat} (hm : m ≤ 31) : 4 ^ m < U64MAX := by
  have := pow_le_62 hm
  have : (2:Nat) ^ 62 < U64MAX := by decide
  omega

/-- forward register update -/
theorem fwd_update {m f v : Nat} (hm : m ≤ 31) (hf : f < 4 ^ m) (hv : v < 4) :
    (shl64 f 2 ||| v) &&& maskOf m = (f * 4 + v) % 4 ^ m := by
  have h62 := pow_le_62 hm
  have hW : W64 = 2 ^ 64 := rfl
  unfold shl64 maskOf shl64
  have h1 : f <<< 2 = f * 4 := by rw [Nat.shiftLeft_eq]
  have h2 : (f * 4) % W64 = f * 4 := Nat.mod_eq_of_lt (by rw [hW]; omega)
  have h3 : (1 <<< (2 * m)) = 4 ^ m := by rw [Nat.shiftLeft_eq, four_pow]; simp
  have h4 : (4 ^ m) % W64 = 4 ^ m := Nat.mod_eq_of_lt (by rw [hW]; omega)
  rw [h1, h2, h3, h4]
  have h5 : (f * 4) ||| v = f * 4 + v := by
    have : f * 4 = f <<< 2 := by rw [Nat.shiftLeft_eq]
    rw [this]
    exact (Nat.shiftLeft_add_eq_or_of_lt (by simpa using hv) f).symm
  rw [h5, four_pow, Nat.and_two_pow_sub_one_eq_mod]

theorem xor3 {v : Nat} (hv : v < 4) : v ^^^ 3 = 3 - v := by
  have : v = 0 ∨ v = 1 ∨ v = 2 ∨ v = 3 := by omega
  rcases this with rfl | rfl | rfl | rfl <;> decide

/-- reverse-complement register update -/
theorem rev_update {m r v : Nat} (hm1 : 1 ≤ m) (hm : m ≤ 31) (hr : r < 4 ^ m) (hv : v < 4) :
    (r >>> 2) ||| shl64 (v ^^^ 3) (shiftOf m) = r / 4 + (3 - v) * 4 ^ (m - 1) := by
  have h62 := pow_le_62 hm
  have hW : W64 = 2 ^ 64 := rfl
  have hp := four_pow_pred hm1
  have hpos := four_pow_pos (m - 1)
  rw [xor3 hv]
  unfold shl64 shiftOf
  have h1 : r >>> 2 = r / 4 := by rw [Nat.shiftRight_eq_div_pow]
  have h2 : (3 - v) <<< (2 * (m - 1)) = (3 - v) * 4 ^ (m - 1) := by
    rw [Nat.shiftLeft_eq, four_pow]
  have hd : (3 - v) * 4 ^ (m - 1) ≤ 3 * 4 ^ (m - 1) := Nat.mul_le_mul_right _ (by omega)
  have h3 : ((3 - v) <<< (2 * (m - 1))) % W64 = (3 - v) <<< (2 * (m - 1)) := by
    apply Nat.mod_eq_of_lt; rw [h2, hW]; omega
  rw [h3, h1, Nat.or_comm]
  have hlt : r / 4 < 2 ^ (2 * (m - 1)) := by
    rw [← four_pow]; omega
  rw [← Nat.shiftLeft_add_eq_or_of_lt hlt, h2]; omega

theorem rev_update_lt {m r v : Nat} (hm1 : 1 ≤ m) (hr : r < 4 ^ m) (hv : v < 4) :
    r / 4 + (3 - v) * 4 ^ (m - 1) < 4 ^ m := by
  have hp := four_pow_pred hm1
  have hd : (3 - v) * 4 ^ (m - 1) ≤ 3 * 4 ^ (m - 1) := Nat.mul_le_mul_right _ (by omega)
  omega

end KT.Min
