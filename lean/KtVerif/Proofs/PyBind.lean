import KtVerif.Model.Py
import KtVerif.Proofs.VecCgr
/-!
# Helpers for C13: the Python bindings' duplicated loops agree with the core's

The float emulation is never unfolded: `cgrMid a b` is only ever folded from / unfolded to
`f64Half (f64Add a b)`.
-/
namespace KT.Py
open KT

/-! ## oligo loop -/

theorem pyOligoLoop_eq_foldl (pm : PosMaps) (ks : List (Nat × Nat)) : ∀ (vec : Array Nat) (total : Nat),
    pyOligoLoop pm ks vec total =
      ks.foldl (fun (acc : Array Nat × Nat) p =>
        (acc.1.modify (pm.posMap[min p.1 p.2]!) (· + 1), acc.2 + 1)) (vec, total) := by
  induction ks with
  | nil => intro vec total; rw [pyOligoLoop, List.foldl_nil]
  | cons p rest ih =>
    intro vec total
    obtain ⟨f, r⟩ := p
    rw [pyOligoLoop, List.foldl_cons]
    exact ih _ _

theorem pyOligoLoop_eq_accum (pm : PosMaps) (ks : List (Nat × Nat)) :
    pyOligoLoop pm ks (Array.replicate pm.kcount 0) 0 = oligoAccum pm ks := by
  rw [pyOligoLoop_eq_foldl]; rfl

theorem pyOligoVec_eq (pm : PosMaps) (k : Nat) (norm : Bool) (bytes : List Nat) :
    pyOligoVec pm k norm bytes = oligoVec pm k norm bytes := by
  unfold pyOligoVec oligoVec oligoCounts normalise
  rw [pyOligoLoop_eq_accum]

/-! ## CGR loop -/

theorem cgrMid_fold (a b : Nat) : f64Half (f64Add a b) = cgrMid a b := by unfold cgrMid; rfl

theorem pyCgrLoop_nil (S : Nat) (m : Nat × Nat) (acc : List (Nat × Nat)) :
    pyCgrLoop S [] m acc = some acc.reverse := by
  rw [pyCgrLoop]

theorem pyCgrLoop_cons_none {S mx my b : Nat} {bs : List Nat} {acc : List (Nat × Nat)}
    (h : cgrCorner b = none) : pyCgrLoop S (b :: bs) (mx, my) acc = none := by
  simp only [pyCgrLoop, h]

theorem pyCgrLoop_cons_some {S mx my b cx cy : Nat} {bs : List Nat} {acc : List (Nat × Nat)}
    (h : cgrCorner b = some (cx, cy)) :
    pyCgrLoop S (b :: bs) (mx, my) acc =
      pyCgrLoop S bs (cgrMid (cx * f64OfNat S) mx, cgrMid (cy * f64OfNat S) my)
        ((cgrMid (cx * f64OfNat S) mx, cgrMid (cy * f64OfNat S) my) :: acc) := by
  simp only [pyCgrLoop, h, cgrMid_fold]

theorem map_append_cons {α : Type} (o : Option (List α)) (q : α) (acc : List α) :
    o.map (fun l => (q :: acc).reverse ++ l) = (o.map fun rest => q :: rest).map fun l => acc.reverse ++ l := by
  cases o with
  | none => rfl
  | some rest =>
    show some ((q :: acc).reverse ++ rest) = some (acc.reverse ++ q :: rest)
    rw [List.reverse_cons, List.append_assoc]; rfl

theorem pyCgrLoop_eq (S : Nat) (bs : List Nat) : ∀ (m : Nat × Nat) (acc : List (Nat × Nat)),
    pyCgrLoop S bs m acc = (cgrLoop S m bs).map fun l => acc.reverse ++ l := by
  induction bs with
  | nil =>
    intro m acc
    rw [pyCgrLoop_nil, Vec.cgrLoop_nil]
    show some acc.reverse = some (acc.reverse ++ [])
    rw [List.append_nil]
  | cons b bs ih =>
    intro m acc
    obtain ⟨x, y⟩ := m
    cases h : cgrCorner b with
    | none => rw [pyCgrLoop_cons_none h, Vec.cgrLoop_cons_none h]; rfl
    | some c =>
      obtain ⟨cx, cy⟩ := c
      rw [pyCgrLoop_cons_some h, Vec.cgrLoop_cons_some h, ih]
      exact map_append_cons _ _ _

theorem pyCgr_eq (S : Nat) (bytes : List Nat) : pyCgr S bytes = cgrF64 S bytes := by
  unfold pyCgr cgrF64
  rw [pyCgrLoop_eq]
  generalize cgrLoop S (cgrCentre S) bytes = o
  cases o with
  | none => rfl
  | some l => show some ([].reverse ++ l) = some l; rw [List.reverse_nil, List.nil_append]

/-! ## UTF-8 -/

theorem utf8Char_lt128 (c : Nat) (h : c < 128) : utf8Char c = [c] := by
  unfold utf8Char; rw [if_pos h]

theorem utf8_lt128 (cs : List Nat) (h : ∀ c ∈ cs, c < 128) : utf8 cs = cs := by
  unfold utf8
  induction cs with
  | nil => rfl
  | cons c cs ih =>
    rw [List.flatMap_cons, utf8Char_lt128 c (h c (List.mem_cons_self ..)),
      ih fun d hd => h d (List.mem_cons_of_mem _ hd)]
    rfl

theorem utf8Char_high (c : Nat) (h1 : 128 ≤ c) (h2 : c < 1114112) :
    ∀ b ∈ utf8Char c, 128 ≤ b ∧ b < 256 := by
  intro b hb
  unfold utf8Char at hb
  rw [if_neg (by omega)] at hb
  by_cases h800 : c < 0x800
  · rw [if_pos h800] at hb
    simp only [List.mem_cons, List.not_mem_nil, or_false] at hb
    omega
  · rw [if_neg h800] at hb
    by_cases h10000 : c < 0x10000
    · rw [if_pos h10000] at hb
      simp only [List.mem_cons, List.not_mem_nil, or_false] at hb
      omega
    · rw [if_neg h10000] at hb
      simp only [List.mem_cons, List.not_mem_nil, or_false] at hb
      omega

theorem nt4_high (b : Nat) (h : 128 ≤ b) : nt4 b = 4 := by
  unfold nt4
  rw [if_neg (by omega), if_neg (by omega), if_neg (by omega), if_neg (by omega), if_neg (by omega)]

theorem clean_high (b : Nat) (h : 128 ≤ b) : clean b = false := by
  unfold clean; rw [nt4_high b h]; rfl

theorem cgrCorner_high (b : Nat) (h : 128 ≤ b) : cgrCorner b = none := by
  unfold cgrCorner
  rw [if_neg (by omega), if_neg (by omega), if_neg (by omega), if_neg (by omega), if_neg (by omega),
    if_neg (by omega), if_neg (by omega), if_neg (by omega), if_neg (by omega), if_neg (by omega)]

/-! ## `List.mapM` in `Option` -/

theorem mapM_nil_opt {α β : Type} (f : α → Option β) : ([] : List α).mapM f = some [] := by
  rw [List.mapM_nil]; rfl

theorem mapM_cons_opt {α β : Type} (f : α → Option β) (a : α) (l : List α) :
    (a :: l).mapM f = match f a with
      | none => none
      | some b => (l.mapM f).map fun bs => b :: bs := by
  rw [List.mapM_cons]
  cases f a with
  | none => rfl
  | some b => cases l.mapM f <;> rfl

theorem mapM_some_iff {α β : Type} (f : α → Option β) : ∀ (l : List α) (rows : List β),
    l.mapM f = some rows ↔
      (rows.length = l.length ∧ ∀ i (h : i < l.length), f l[i] = rows[i]?) := by
  intro l
  induction l with
  | nil =>
    intro rows
    rw [mapM_nil_opt]
    constructor
    · intro h
      cases h
      exact ⟨rfl, fun i h => absurd h (Nat.not_lt_zero _)⟩
    · intro ⟨h, _⟩
      rw [List.length_nil, List.length_eq_zero_iff] at h
      rw [h]
  | cons a l ih =>
    intro rows
    rw [mapM_cons_opt]
    cases hfa : f a with
    | none =>
      constructor
      · intro h; cases h
      · intro ⟨hl, h⟩
        have h0 := h 0 (Nat.zero_lt_succ _)
        rw [List.getElem_cons_zero, hfa] at h0
        have := List.getElem?_eq_none_iff.mp h0.symm
        rw [hl, List.length_cons] at this
        omega
    | some b =>
      cases rows with
      | nil =>
        constructor
        · intro h
          cases hm : l.mapM f with
          | none => rw [hm] at h; cases h
          | some bs => rw [hm] at h; cases h
        · intro ⟨hl, _⟩
          rw [List.length_nil, List.length_cons] at hl
          omega
      | cons r rows =>
        constructor
        · intro h
          cases hm : l.mapM f with
          | none => rw [hm] at h; cases h
          | some bs =>
            rw [hm] at h
            have h' : b :: bs = r :: rows := Option.some.inj h
            obtain ⟨rfl, rfl⟩ := List.cons.inj h'
            obtain ⟨hl, hi⟩ := (ih bs).mp hm
            refine ⟨by rw [List.length_cons, List.length_cons, hl], ?_⟩
            intro i h
            cases i with
            | zero => rw [List.getElem_cons_zero, hfa]; rfl
            | succ j =>
              rw [List.getElem_cons_succ, List.getElem?_cons_succ]
              exact hi j (Nat.lt_of_succ_lt_succ h)
        · intro ⟨hl, hi⟩
          have h0 := hi 0 (Nat.zero_lt_succ _)
          rw [List.getElem_cons_zero, hfa, List.getElem?_cons_zero] at h0
          have hbr : b = r := Option.some.inj h0
          have hm : l.mapM f = some rows := by
            refine (ih rows).mpr ⟨by simpa only [List.length_cons, Nat.add_right_cancel_iff] using hl, ?_⟩
            intro i h
            have := hi (i + 1) (Nat.succ_lt_succ h)
            rw [List.getElem_cons_succ, List.getElem?_cons_succ] at this
            exact this
          rw [hm, hbr]; rfl

theorem mapM_none_iff {α β : Type} (f : α → Option β) : ∀ (l : List α),
    l.mapM f = none ↔ ∃ s ∈ l, f s = none := by
  intro l
  induction l with
  | nil =>
    rw [mapM_nil_opt]
    constructor
    · intro h; cases h
    · intro ⟨s, hs, _⟩; cases hs
  | cons a l ih =>
    rw [mapM_cons_opt]
    cases hfa : f a with
    | none => exact ⟨fun _ => ⟨a, List.mem_cons_self .., hfa⟩, fun _ => rfl⟩
    | some b =>
      constructor
      · intro h
        cases hm : l.mapM f with
        | none =>
          obtain ⟨s, hs, hf⟩ := ih.mp hm
          exact ⟨s, List.mem_cons_of_mem _ hs, hf⟩
        | some bs => rw [hm] at h; cases h
      · intro ⟨s, hs, hf⟩
        rcases List.mem_cons.mp hs with rfl | hs'
        · rw [hfa] at hf; cases hf
        · rw [ih.mpr ⟨s, hs', hf⟩]; rfl

end KT.Py
