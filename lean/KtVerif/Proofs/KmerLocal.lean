import KtVerif.Model.Kmer
import KtVerif.Proofs.KmerGen
/-!
# Locality of the k-mer stream: a homopolymer prefix A^n (C01)

Windows are local, so after a prefix `A^n` (`n ≥ k`) the stream is `n - k + 1` copies of the item of
the all-A window followed by the stream of `A^(k-1) ++ t`.
-/
namespace KT
namespace KmerLocal

theorem filterMap_range_const {α : Type} (f : Nat → Option α) (a : α) :
    ∀ m, (∀ i, i < m → f i = some a) → (List.range m).filterMap f = List.replicate m a
  | 0, _ => rfl
  | m+1, h => by
    rw [List.range_succ, List.filterMap_append,
      filterMap_range_const f a m (fun i hi => h i (by omega))]
    simp [h m (by omega), List.replicate_succ']

theorem window_in_prefix (k n i : Nat) (t : List Nat) (h : i + k ≤ n) :
    window k (List.replicate n 65 ++ t) i = List.replicate k 65 := by
  unfold window
  rw [List.drop_append_of_le_length (by simp; omega), List.drop_replicate,
    List.take_append_of_le_length (by simp; omega), List.take_replicate,
    Nat.min_eq_left (by omega)]

theorem drop_prefix (k n : Nat) (t : List Nat) (hk1 : 1 ≤ k) (hn : k ≤ n) :
    (List.replicate n 65 ++ t).drop (n - k + 1) = List.replicate (k - 1) 65 ++ t := by
  rw [List.drop_append_of_le_length (by simp; omega), List.drop_replicate]
  congr 2; omega

theorem window_shift (k n j : Nat) (t : List Nat) (hk1 : 1 ≤ k) (hn : k ≤ n) :
    window k (List.replicate n 65 ++ t) ((n - k + 1) + j) =
      window k (List.replicate (k - 1) 65 ++ t) j := by
  unfold window
  rw [← drop_prefix k n t hk1 hn, List.drop_drop]

theorem all_clean_replicate (k : Nat) : (List.replicate k 65).all clean = true := by
  simp [List.all_replicate]; exact Or.inr (by decide)

theorem foldl_zero (k a : Nat) :
    (List.replicate k 0).foldl (fun a d => a * 4 + d) a = a * 4 ^ k := by
  induction k generalizing a with
  | zero => simp
  | succ k ih => rw [List.replicate_succ, List.foldl_cons, ih, Nat.pow_succ]; simp [Nat.mul_assoc, Nat.mul_comm 4]

theorem foldl_three (k a : Nat) :
    (List.replicate k 3).foldl (fun a d => a * 4 + d) a + 1 = (a + 1) * 4 ^ k := by
  induction k generalizing a with
  | zero => simp
  | succ k ih =>
    rw [List.replicate_succ, List.foldl_cons, ih, Nat.pow_succ,
      show a * 4 + 3 + 1 = (a + 1) * 4 by omega, Nat.mul_assoc, Nat.mul_comm 4]

theorem enc_replicate_A (k : Nat) : enc (List.replicate k 65) = 0 := by
  unfold enc encDigits
  rw [List.map_replicate, show nt4 65 = 0 by decide, foldl_zero]; simp

theorem rcEnc_replicate_A (k : Nat) : rcEnc (List.replicate k 65) = 4 ^ k - 1 := by
  unfold rcEnc encDigits
  rw [List.map_replicate, List.reverse_replicate, List.map_replicate,
    show compDigit (nt4 65) = 3 by decide]
  have := foldl_three k 0
  omega

end KmerLocal

open KmerLocal in
/-- locality of the specification: after a homopolymer prefix A^n (n ≥ k) the stream is n - k + 1 copies of the item of the
all-A window, followed by the stream of A^(k-1) ++ t -/
theorem specKmers_homopolymer_prefix' (k n : Nat) (t : List Nat) (hk1 : 1 ≤ k) (hn : k ≤ n) :
    specKmers k (List.replicate n 65 ++ t) =
      List.replicate (n - k + 1) (enc (List.replicate k 65), rcEnc (List.replicate k 65)) ++
        specKmers k (List.replicate (k - 1) 65 ++ t) := by
  unfold specKmers
  have hlen : (List.replicate n 65 ++ t).length + 1 - k =
      (n - k + 1) + ((List.replicate (k - 1) 65 ++ t).length + 1 - k) := by
    simp; omega
  rw [hlen, List.range_add, List.filterMap_append, List.filterMap_map]
  congr 1
  · apply filterMap_range_const
    intro i hi
    rw [window_in_prefix k n i t (by omega), all_clean_replicate]; rfl
  · congr 1
    funext j
    simp only [Function.comp, window_shift k n j t hk1 hn]

open KmerLocal in
/-- the same for the code-shaped iterator model, with the item spelled out: forward code 0, reverse code 4^k - 1 -/
theorem kmers_homopolymer_prefix' (k n : Nat) (t : List Nat) (hk1 : 1 ≤ k) (hk : k ≤ 31) (hn : k ≤ n) :
    kmers k (List.replicate n 65 ++ t) =
      List.replicate (n - k + 1) (0, 4 ^ k - 1) ++ kmers k (List.replicate (k - 1) 65 ++ t) := by
  rw [kmers_eq_specKmers hk1 hk, kmers_eq_specKmers hk1 hk,
    specKmers_homopolymer_prefix' k n t hk1 hn, enc_replicate_A, rcEnc_replicate_A]

example : kmers 2 (List.replicate 4 65 ++ [67, 78, 71]) =
    List.replicate 3 (0, 15) ++ kmers 2 (List.replicate 1 65 ++ [67, 78, 71]) := by decide

end KT
