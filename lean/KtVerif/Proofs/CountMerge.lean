import KtVerif.Model.Sched
/-!
# C07, merge level: `mergeTables` sums the lines per key; tables of multisets
-/
namespace KT.Cnt
open KT

/-- same body as `KT.IsTableOf` of `Props/C07.lean` -/
def IsTab (t : List (Nat × Nat)) (l : List Nat) : Prop :=
  (t.map (·.1)).Nodup ∧ (∀ x c, (x, c) ∈ t → c = countOcc x l ∧ 0 < c) ∧ (∀ x, x ∈ l → x ∈ t.map (·.1))

theorem countOcc_eq_count (x : Nat) (l : List Nat) : countOcc x l = l.count x := by
  simp [countOcc, List.count, List.countP_eq_length_filter]

/-! ## the fold step -/

def mstep (acc : List (Nat × Nat)) (p : Nat × Nat) : List (Nat × Nat) :=
  match acc.find? (fun q => q.1 == p.1) with
  | some _ => acc.map fun q => if q.1 == p.1 then (q.1, q.2 + p.2) else q
  | none => acc ++ [p]

theorem mergeTables_eq (files : List (List (Nat × Nat))) :
    mergeTables files = files.flatten.foldl mstep [] := rfl

/-- sum of the counts of the lines with key `x` -/
def lineSum (x : Nat) (lines : List (Nat × Nat)) : Nat := ((lines.filter (·.1 == x)).map (·.2)).sum

theorem lineSum_nil (x : Nat) : lineSum x [] = 0 := rfl

theorem lineSum_cons (x : Nat) (p : Nat × Nat) (lines : List (Nat × Nat)) :
    lineSum x (p :: lines) = (if p.1 = x then p.2 else 0) + lineSum x lines := by
  unfold lineSum
  by_cases h : p.1 = x
  · simp [h]
  · simp [h]

theorem lineSum_append (x : Nat) (a b : List (Nat × Nat)) :
    lineSum x (a ++ b) = lineSum x a + lineSum x b := by
  induction a with
  | nil => simp [lineSum_nil]
  | cons p a ih => rw [List.cons_append, lineSum_cons, lineSum_cons, ih]; omega

theorem lineSum_of_not_mem (x : Nat) (t : List (Nat × Nat)) (h : x ∉ t.map (·.1)) : lineSum x t = 0 := by
  induction t with
  | nil => rfl
  | cons p t ih =>
    simp only [List.map_cons, List.mem_cons, not_or] at h
    rw [lineSum_cons, ih h.2, if_neg (fun e => h.1 e.symm)]

theorem lineSum_of_mem (x c : Nat) (t : List (Nat × Nat)) (hnd : (t.map (·.1)).Nodup)
    (h : (x, c) ∈ t) : lineSum x t = c := by
  induction t with
  | nil => cases h
  | cons p t ih =>
    simp only [List.map_cons, List.nodup_cons] at hnd
    rw [lineSum_cons]
    rcases List.mem_cons.mp h with e | e
    · subst e
      rw [lineSum_of_not_mem _ _ hnd.1]; simp
    · have hne : p.1 ≠ x := by
        intro e2; apply hnd.1; rw [e2]
        exact List.mem_map.mpr ⟨(x, c), e, rfl⟩
      rw [if_neg hne, ih hnd.2 e]; omega

structure Good (acc lines : List (Nat × Nat)) : Prop where
  nd : (acc.map (·.1)).Nodup
  val : ∀ x c, (x, c) ∈ acc → c = lineSum x lines
  keys : ∀ x, x ∈ acc.map (·.1) ↔ x ∈ lines.map (·.1)

theorem good_nil : Good [] [] := ⟨List.nodup_nil, fun _ _ h => (by cases h), fun _ => Iff.rfl⟩

theorem good_step (acc lines : List (Nat × Nat)) (p : Nat × Nat) (h : Good acc lines) :
    Good (mstep acc p) (lines ++ [p]) := by
  have hls : ∀ x, lineSum x (lines ++ [p]) = lineSum x lines + (if p.1 = x then p.2 else 0) := by
    intro x; rw [lineSum_append, lineSum_cons, lineSum_nil]; omega
  unfold mstep
  split
  · rename_i q0 hf
    have hq0 := List.find?_some hf
    have hq0m := List.mem_of_find?_eq_some hf
    simp only [beq_iff_eq] at hq0
    have hkeys : (acc.map fun q => if q.1 == p.1 then (q.1, q.2 + p.2) else q).map (·.1)
        = acc.map (·.1) := by
      rw [List.map_map]; apply List.map_congr_left
      intro q _; simp only [Function.comp]; split <;> rfl
    refine ⟨by rw [hkeys]; exact h.nd, ?_, ?_⟩
    · intro x c hm
      obtain ⟨q, hq, e⟩ := List.mem_map.mp hm
      rw [hls]
      by_cases hqp : q.1 = p.1
      · simp only [hqp, beq_self_eq_true, if_true, Prod.mk.injEq] at e
        obtain ⟨e1, e2⟩ := e
        have := h.val q.1 q.2 hq
        rw [if_pos e1, ← e2, ← e1, ← hqp, ← this]
      · have hb : (q.1 == p.1) = false := by simpa using hqp
        simp only [hb, Bool.false_eq_true, if_false] at e
        subst e
        rw [if_neg (fun e => hqp e.symm)]
        exact h.val _ _ hq
    · intro x
      rw [hkeys, h.keys x]
      simp only [List.map_append, List.mem_append, List.map_cons, List.map_nil, List.mem_singleton]
      constructor
      · exact Or.inl
      · rintro (h1 | h1)
        · exact h1
        · rw [h1, ← h.keys, ← hq0]
          exact List.mem_map.mpr ⟨q0, hq0m, rfl⟩
  · rename_i hf
    rw [List.find?_eq_none] at hf
    have hnk : p.1 ∉ acc.map (·.1) := by
      intro hm
      obtain ⟨q, hq, e⟩ := List.mem_map.mp hm
      exact hf q hq (by simpa using e)
    refine ⟨?_, ?_, ?_⟩
    · rw [List.map_append, List.nodup_append]
      refine ⟨h.nd, by simp, ?_⟩
      intro a ha b hb e
      simp only [List.map_cons, List.map_nil, List.mem_singleton] at hb
      subst hb; subst e; exact hnk ha
    · intro x c hm
      rw [hls]
      rcases List.mem_append.mp hm with hm | hm
      · have hne : p.1 ≠ x := by
          intro e; apply hnk; rw [e]; exact List.mem_map.mpr ⟨(x, c), hm, rfl⟩
        rw [if_neg hne]; exact h.val x c hm
      · simp only [List.mem_singleton] at hm
        subst hm
        simp only [if_true]
        rw [lineSum_of_not_mem _ _ (fun hm => hnk ((h.keys _).mpr hm))]; omega
    · intro x
      simp only [List.map_append, List.mem_append, h.keys x]

theorem good_foldl (lines acc done : List (Nat × Nat)) (h : Good acc done) :
    Good (lines.foldl mstep acc) (done ++ lines) := by
  induction lines generalizing acc done with
  | nil => simpa using h
  | cons p lines ih =>
    have := ih (mstep acc p) (done ++ [p]) (good_step acc done p h)
    simpa [List.append_assoc] using this

theorem good_merge (files : List (List (Nat × Nat))) : Good (mergeTables files) files.flatten := by
  have := good_foldl files.flatten [] [] good_nil
  simpa [mergeTables_eq] using this

/-! ## from line sums to multiplicities -/

theorem lineSum_tab (x : Nat) (t : List (Nat × Nat)) (l : List Nat) (h : IsTab t l) :
    lineSum x t = countOcc x l := by
  by_cases hm : x ∈ t.map (·.1)
  · obtain ⟨q, hq, e⟩ := List.mem_map.mp hm
    have hq' : (x, q.2) ∈ t := by rw [← e]; exact hq
    rw [lineSum_of_mem x q.2 t h.1 hq']
    exact (h.2.1 x q.2 hq').1
  · rw [lineSum_of_not_mem x t hm, countOcc_eq_count]
    have : x ∉ l := fun hx => hm (h.2.2 x hx)
    exact (List.count_eq_zero.mpr this).symm

theorem countOcc_append (x : Nat) (a b : List Nat) : countOcc x (a ++ b) = countOcc x a + countOcc x b := by
  simp [countOcc_eq_count, List.count_append]

theorem lineSum_files (x : Nat) (files : List (List (Nat × Nat))) (ls : List (List Nat))
    (hlen : files.length = ls.length)
    (h : ∀ i (hi : i < files.length) (hi' : i < ls.length), IsTab files[i] ls[i]) :
    lineSum x files.flatten = countOcc x ls.flatten := by
  induction files generalizing ls with
  | nil =>
    cases ls with
    | nil => simp [lineSum_nil, countOcc]
    | cons l ls => simp at hlen
  | cons f files ih =>
    cases ls with
    | nil => simp at hlen
    | cons l ls =>
      simp only [List.length_cons, Nat.add_right_cancel_iff] at hlen
      simp only [List.flatten_cons, lineSum_append, countOcc_append]
      rw [lineSum_tab x f l (h 0 (by simp) (by simp))]
      rw [ih ls hlen (fun i hi hi' => h (i + 1) (by simp; omega) (by simp; omega))]

theorem mergeTables_tab (files : List (List (Nat × Nat))) (ls : List (List Nat))
    (hlen : files.length = ls.length)
    (h : ∀ i (hi : i < files.length) (hi' : i < ls.length), IsTab files[i] ls[i]) :
    IsTab (mergeTables files) ls.flatten := by
  have hG := good_merge files
  have hval : ∀ x c, (x, c) ∈ mergeTables files → c = countOcc x ls.flatten := by
    intro x c hm
    rw [hG.val x c hm, lineSum_files x files ls hlen h]
  refine ⟨hG.nd, ?_, ?_⟩
  · intro x c hm
    refine ⟨hval x c hm, ?_⟩
    rw [hval x c hm, countOcc_eq_count, List.count_pos_iff]
    have hk : x ∈ files.flatten.map (·.1) := (hG.keys x).mp (List.mem_map.mpr ⟨(x, c), hm, rfl⟩)
    obtain ⟨q, hq, e⟩ := List.mem_map.mp hk
    obtain ⟨f, hf, hqf⟩ := List.mem_flatten.mp hq
    obtain ⟨i, hi, ei⟩ := List.mem_iff_getElem.mp hf
    have hi' : i < ls.length := by omega
    have ht := h i hi hi'
    rw [ei] at ht
    have hq' : (x, q.2) ∈ f := by rw [← e]; exact hqf
    have hc := ht.2.1 x q.2 hq'
    have hpos : 0 < countOcc x ls[i] := by omega
    rw [countOcc_eq_count, List.count_pos_iff] at hpos
    exact List.mem_flatten.mpr ⟨ls[i], List.getElem_mem _, hpos⟩
  · intro x hx
    obtain ⟨l, hl, hxl⟩ := List.mem_flatten.mp hx
    obtain ⟨i, hi', ei⟩ := List.mem_iff_getElem.mp hl
    have hi : i < files.length := by omega
    have ht := h i hi hi'
    rw [ei] at ht
    have hk := ht.2.2 x hxl
    apply (hG.keys x).mpr
    obtain ⟨q, hq, e⟩ := List.mem_map.mp hk
    exact List.mem_map.mpr ⟨q, List.mem_flatten.mpr ⟨files[i], List.getElem_mem _, hq⟩, e⟩

/-! ## partitions -/

theorem partition_split (P : Nat) (l : List Nat) (x : Nat) :
    countOcc x l = countOcc x (l.filter fun y => partOf P y == partOf P x) ∧
    ∀ p, p ≠ partOf P x → countOcc x (l.filter fun y => partOf P y == p) = 0 := by
  constructor
  · rw [countOcc_eq_count, countOcc_eq_count, List.count_filter (by simp)]
  · intro p hp
    rw [countOcc_eq_count, List.count_eq_zero]
    intro hm
    have := (List.mem_filter.mp hm).2
    simp only [beq_iff_eq] at this
    exact hp this.symm

theorem filter_flatten_map (p : Nat → Bool) (chunks : List (List Nat)) :
    (chunks.map (List.filter p)).flatten = chunks.flatten.filter p := by
  rw [List.filter_flatten]

theorem count_merge (P : Nat) (hP : 1 ≤ P) (chunks : List (List Nat))
    (files : Nat → List (List (Nat × Nat)))
    (hfiles : ∀ p, p < P → (files p).length = chunks.length ∧
        ∀ i (hi : i < chunks.length) (hi' : i < (files p).length),
          IsTab ((files p)[i]) (chunks[i].filter fun y => partOf P y == p)) :
    IsTab ((List.range P).flatMap fun p => mergeTables (files p)) chunks.flatten := by
  -- per partition
  have hpart : ∀ p, p < P →
      IsTab (mergeTables (files p)) (chunks.flatten.filter fun y => partOf P y == p) := by
    intro p hp
    obtain ⟨hl, ht⟩ := hfiles p hp
    rw [← filter_flatten_map]
    apply mergeTables_tab (files p) (chunks.map (List.filter fun y => partOf P y == p))
      (by simpa using hl)
    intro i hi hi'
    simp only [List.getElem_map]
    exact ht i (by simpa using hi') hi
  -- keys of partition p lie in partition p
  have hkeyp : ∀ p, p < P → ∀ x c, (x, c) ∈ mergeTables (files p) → partOf P x = p := by
    intro p hp x c hm
    have hc := (hpart p hp).2.1 x c hm
    have hpos : 0 < countOcc x (chunks.flatten.filter fun y => partOf P y == p) := by omega
    rw [countOcc_eq_count, List.count_pos_iff] at hpos
    simpa using (List.mem_filter.mp hpos).2
  refine ⟨?_, ?_, ?_⟩
  · rw [List.map_flatMap, List.nodup_iff_pairwise_ne, List.pairwise_flatMap]
    constructor
    · intro p hp
      rw [← List.nodup_iff_pairwise_ne]
      exact (hpart p (List.mem_range.mp hp)).1
    · have hr := List.nodup_range (n := P)
      rw [List.nodup_iff_pairwise_ne] at hr
      have hr2 : List.Pairwise (fun a b => a < P ∧ b < P ∧ a ≠ b) (List.range P) := by
        rw [List.pairwise_iff_forall_sublist] at hr ⊢
        intro a b hs
        have ha : a ∈ List.range P := hs.subset (by simp)
        have hb : b ∈ List.range P := hs.subset (by simp)
        exact ⟨List.mem_range.mp ha, List.mem_range.mp hb, hr hs⟩
      refine hr2.imp ?_
      rintro a b ⟨ha, hb, hne⟩ x hx y hy e
      obtain ⟨q, hq, e1⟩ := List.mem_map.mp hx
      obtain ⟨q', hq', e2⟩ := List.mem_map.mp hy
      have h1 := hkeyp a ha q.1 q.2 hq
      have h2 := hkeyp b hb q'.1 q'.2 hq'
      rw [e1] at h1; rw [e2] at h2
      rw [e] at h1; omega
  · intro x c hm
    obtain ⟨p, hp, hmp⟩ := List.mem_flatMap.mp hm
    have hp := List.mem_range.mp hp
    have hc := (hpart p hp).2.1 x c hmp
    have hxp := hkeyp p hp x c hmp
    rw [← hxp] at hc
    rw [(partition_split P chunks.flatten x).1]
    exact hc
  · intro x hx
    have hp : partOf P x < P := Nat.mod_lt _ (by omega)
    have hxf : x ∈ chunks.flatten.filter fun y => partOf P y == partOf P x :=
      List.mem_filter.mpr ⟨hx, by simp⟩
    have hk := (hpart _ hp).2.2 x hxf
    rw [List.map_flatMap]
    exact List.mem_flatMap.mpr ⟨partOf P x, List.mem_range.mpr hp, hk⟩

/-! ## total -/

theorem length_split (x : Nat) (l : List Nat) :
    l.length = countOcc x l + (l.filter fun y => y != x).length := by
  induction l with
  | nil => rfl
  | cons a l ih =>
    by_cases h : a = x
    · subst h; simp [countOcc] at ih ⊢; omega
    · have hb : (a == x) = false := by simpa using h
      simp [countOcc, hb, h] at ih ⊢; omega

theorem table_sum (t : List (Nat × Nat)) (l : List Nat) (h : IsTab t l) :
    (t.map (·.2)).sum = l.length := by
  induction t generalizing l with
  | nil =>
    cases l with
    | nil => rfl
    | cons a l => have := h.2.2 a (by simp); simp at this
  | cons p t ih =>
    obtain ⟨x, c⟩ := p
    obtain ⟨hnd, hval, hkeys⟩ := h
    simp only [List.map_cons, List.nodup_cons] at hnd
    have hne : ∀ y c', (y, c') ∈ t → y ≠ x := by
      intro y c' hm e; subst e
      exact hnd.1 (List.mem_map.mpr ⟨(y, c'), hm, rfl⟩)
    have ht : IsTab t (l.filter fun y => y != x) := by
      refine ⟨hnd.2, ?_, ?_⟩
      · intro y c' hm
        have := hval y c' (List.mem_cons_of_mem _ hm)
        rw [countOcc_eq_count, List.count_filter (by simpa using hne y c' hm), ← countOcc_eq_count]
        exact this
      · intro y hy
        obtain ⟨hyl, hyx⟩ := List.mem_filter.mp hy
        have := hkeys y hyl
        simp only [List.map_cons, List.mem_cons] at this
        rcases this with e | e
        · simp [e] at hyx
        · exact e
    have hc := (hval x c (List.mem_cons_self)).1
    simp only [List.map_cons, List.sum_cons]
    rw [ih _ ht, length_split x l, hc]

end KT.Cnt
