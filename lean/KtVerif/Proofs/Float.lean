import KtVerif.Model.Float
import Mathlib.Tactic.Linarith
import Mathlib.Tactic.Ring
/-!
# Basic facts about the exact binary64 emulation (`KtVerif/Model/Float.lean`)

`bitLen`, `roundDiv` (nearest integer, ties to even), `roundRat` (nearest double).
The scale `f64One = 2^1074` is kept symbolic throughout.
-/
namespace KT.Fl
open KT

/-! ## bitLen -/

theorem bitLen_zero : bitLen 0 = 0 := by simp [bitLen]

theorem bitLen_le_iff (n k : Nat) : bitLen n ≤ k ↔ n < 2 ^ k := by
  unfold bitLen
  by_cases h : n = 0
  · subst h; simp
  · rw [if_neg h, Nat.add_one_le_iff]
    exact Nat.log2_lt h

theorem lt_bitLen_iff (n k : Nat) : k < bitLen n ↔ 2 ^ k ≤ n := by
  have := bitLen_le_iff n k
  omega

theorem lt_two_pow_bitLen (n : Nat) : n < 2 ^ bitLen n := (bitLen_le_iff n _).1 (Nat.le_refl _)

theorem two_pow_bitLen_pred_le (n : Nat) (h : n ≠ 0) : 2 ^ (bitLen n - 1) ≤ n := by
  apply (lt_bitLen_iff n _).1
  have : 0 < bitLen n := by
    rw [lt_bitLen_iff]; have := Nat.pos_of_ne_zero h; omega
  omega

theorem bitLen_eq_of (n k : Nat) (h1 : 2 ^ k ≤ n) (h2 : n < 2 ^ (k + 1)) : bitLen n = k + 1 := by
  have a := (lt_bitLen_iff n k).2 h1
  have b := (bitLen_le_iff n (k + 1)).2 h2
  omega

theorem bitLen_mul_two_pow (x j : Nat) (hx : x ≠ 0) : bitLen (x * 2 ^ j) = bitLen x + j := by
  have hpos : 0 < bitLen x := by
    rw [lt_bitLen_iff]; have := Nat.pos_of_ne_zero hx; omega
  have h1 := two_pow_bitLen_pred_le x hx
  have h2 := lt_two_pow_bitLen x
  have e : bitLen x + j = (bitLen x - 1 + j) + 1 := by omega
  rw [e]
  apply bitLen_eq_of
  · rw [Nat.pow_add]; exact Nat.mul_le_mul_right _ h1
  · have : bitLen x - 1 + j + 1 = bitLen x + j := by omega
    rw [this, Nat.pow_add]
    exact Nat.mul_lt_mul_of_pos_right h2 (Nat.two_pow_pos _)

theorem bitLen_mono {a b : Nat} (h : a ≤ b) : bitLen a ≤ bitLen b := by
  rw [bitLen_le_iff]; exact Nat.lt_of_le_of_lt h (lt_two_pow_bitLen b)

/-! ## roundDiv -/

theorem roundDiv_err (a b : Nat) (hb : 0 < b) :
    2 * (roundDiv a b * b - a) ≤ b ∧ 2 * (a - roundDiv a b * b) ≤ b := by
  have hdm := Nat.div_add_mod a b
  have hr := Nat.mod_lt a hb
  unfold roundDiv
  simp only
  generalize a / b = q at *
  generalize a % b = r at *
  have hbq : b * q = q * b := Nat.mul_comm _ _
  split
  · rename_i h
    have e : (q + 1) * b = q * b + b := by rw [Nat.add_mul, Nat.one_mul]
    rw [e]
    omega
  · rename_i h
    omega

/-- two-sided additive form of `roundDiv_err` -/
theorem roundDiv_bounds (a b : Nat) (hb : 0 < b) :
    2 * (roundDiv a b * b) ≤ 2 * a + b ∧ 2 * a ≤ 2 * (roundDiv a b * b) + b := by
  have := roundDiv_err a b hb
  omega

theorem roundDiv_mono (a a' b : Nat) (hb : 0 < b) (h : a ≤ a') : roundDiv a b ≤ roundDiv a' b := by
  have hq : a / b ≤ a' / b := Nat.div_le_div_right h
  have hdm := Nat.div_add_mod a b
  have hdm' := Nat.div_add_mod a' b
  have hr := Nat.mod_lt a hb
  have hr' := Nat.mod_lt a' hb
  unfold roundDiv
  simp only
  generalize a / b = q at *
  generalize a % b = r at *
  generalize a' / b = q' at *
  generalize a' % b = r' at *
  rcases Nat.lt_or_eq_of_le hq with hlt | heq
  · split <;> split <;> omega
  · subst heq
    have : r ≤ r' := by omega
    split <;> split <;> omega

theorem roundDiv_exact (q b : Nat) (hb : 0 < b) : roundDiv (q * b) b = q := by
  unfold roundDiv
  simp only [Nat.mul_div_cancel _ hb, Nat.mul_mod_left]
  rw [if_neg]
  omega

theorem roundDiv_zero (b : Nat) : roundDiv 0 b = 0 := by
  unfold roundDiv
  simp only [Nat.zero_div, Nat.zero_mod]
  rw [if_neg]
  omega

/-! ## roundRat -/

theorem roundRat_zero (b : Nat) : roundRat 0 b = 0 := by
  unfold roundRat
  simp only [Nat.zero_div, roundDiv_zero, Nat.zero_mul]

/-- absolute error of `roundRat`: at most half a unit in the last place `2^sh` -/
theorem roundRat_err (a b : Nat) (hb : 0 < b) :
    2 * (roundRat a b * b) ≤ 2 * a + b * 2 ^ (bitLen (a / b) - 53) ∧
    2 * a ≤ 2 * (roundRat a b * b) + b * 2 ^ (bitLen (a / b) - 53) := by
  unfold roundRat
  simp only
  generalize bitLen (a / b) - 53 = sh
  have hpos : 0 < b * 2 ^ sh := Nat.mul_pos hb (Nat.two_pow_pos _)
  have := roundDiv_bounds a (b * 2 ^ sh) hpos
  have e : roundDiv a (b * 2 ^ sh) * 2 ^ sh * b = roundDiv a (b * 2 ^ sh) * (b * 2 ^ sh) := by ring
  rw [e]
  exact this

/-- relative error of `roundRat` on normal-range quotients: at most `2^-53` -/
theorem roundRat_rel_err (a b : Nat) (hb : 0 < b) (hbig : 2 ^ 53 ≤ a / b) :
    2 ^ 53 * (roundRat a b * b) ≤ 2 ^ 53 * a + a ∧ 2 ^ 53 * a ≤ 2 ^ 53 * (roundRat a b * b) + a := by
  have herr := roundRat_err a b hb
  have hL : 53 < bitLen (a / b) := (lt_bitLen_iff _ _).2 hbig
  have hne : a / b ≠ 0 := by
    intro h; rw [h] at hbig; exact absurd hbig (by decide)
  have hlow := two_pow_bitLen_pred_le (a / b) hne
  have hqa : a / b * b ≤ a := Nat.div_mul_le_self a b
  generalize hsh : bitLen (a / b) - 53 = sh at herr
  have e : bitLen (a / b) - 1 = 52 + sh := by omega
  rw [e, Nat.pow_add] at hlow
  have h3 : 2 ^ 52 * (b * 2 ^ sh) ≤ a := by
    calc 2 ^ 52 * (b * 2 ^ sh) = 2 ^ 52 * 2 ^ sh * b := by ring
      _ ≤ a / b * b := Nat.mul_le_mul_right _ hlow
      _ ≤ a := hqa
  generalize roundRat a b * b = v at *
  generalize b * 2 ^ sh = u at *
  omega

/-- a value with at most 53 significant bits is returned unchanged -/
theorem roundRat_exact (m j b : Nat) (hb : 0 < b) (hm : m < 2 ^ 53) :
    roundRat (m * 2 ^ j * b) b = m * 2 ^ j := by
  by_cases h0 : m = 0
  · subst h0; simp only [Nat.zero_mul, roundRat_zero]
  unfold roundRat
  simp only [Nat.mul_div_cancel _ hb]
  rw [bitLen_mul_two_pow m j h0]
  have hbl : bitLen m ≤ 53 := (bitLen_le_iff m 53).2 hm
  generalize hsh : bitLen m + j - 53 = sh
  have hle : sh ≤ j := by omega
  obtain ⟨d, rfl⟩ : ∃ d, j = d + sh := ⟨j - sh, by omega⟩
  have hpos : 0 < b * 2 ^ sh := Nat.mul_pos hb (Nat.two_pow_pos _)
  have e : m * 2 ^ (d + sh) * b = (m * 2 ^ d) * (b * 2 ^ sh) := by rw [Nat.pow_add]; ring
  rw [e, roundDiv_exact _ _ hpos, Nat.pow_add]
  ring

theorem roundRat_exact_one (m j : Nat) (hm : m < 2 ^ 53) : roundRat (m * 2 ^ j) 1 = m * 2 ^ j := by
  have := roundRat_exact m j 1 (by decide) hm
  rwa [Nat.mul_one] at this

/-- halving is exact whenever the result is a double -/
theorem roundRat_half_exact (m j : Nat) (hm : m < 2 ^ 53) : roundRat (m * 2 ^ (j + 1)) 2 = m * 2 ^ j := by
  have := roundRat_exact m j 2 (by decide) hm
  rwa [Nat.mul_assoc, ← Nat.pow_succ] at this

end KT.Fl
