import KtVerif.Proofs.E2E2Float
/-!
# Chaos game in binary64: runs of bases pulling a coordinate towards 0

A base whose corner has coordinate 0 maps the coordinate `v` to `fl(fl(0 + v) / 2)`.  The bounds
`S·2^(1074-z)` and their halves are doubles for every `z ≤ 1073` (53-bit significand `S`, any
exponent), and rounding is monotone, so a run of `z` such bases confines the coordinate to
`[0, S/2^z]` at any run length — also where the exact walk is no longer representable.
`f64One = 2^1074` stays symbolic.
-/
namespace KT.E2E2
open KT KT.Fl

attribute [local irreducible] f64One

/-- one step towards the corner coordinate 0 halves the bound `S·2^(1074-z)` exactly -/
theorem cgrMid_zero_step' (S v z : Nat) (hS : S < 2 ^ 53) (hz : z ≤ 1073) (hv : v * 2 ^ z ≤ S * f64One) :
    cgrMid 0 v * 2 ^ (z + 1) ≤ S * f64One := by
  obtain ⟨d, hd⟩ : ∃ d, 1073 = z + d := ⟨1073 - z, by omega⟩
  have e1 : f64One = 2 ^ (d + 1) * 2 ^ z := by
    rw [f64One_eq, two_pow_split (d + 1) z 1074 (by omega)]
  have hvB : v ≤ S * 2 ^ (d + 1) := by
    rw [e1, ← Nat.mul_assoc] at hv
    exact Nat.le_of_mul_le_mul_right hv (Nat.two_pow_pos z)
  have hb := (cgrMid_bounds 0 v 0 S d (by decide) hS (by rw [Nat.zero_mul]; exact Nat.zero_le _)
    (by rw [Nat.zero_add]; exact hvB)).2
  have e2 : f64One = 2 ^ d * 2 ^ (z + 1) := by
    rw [f64One_eq, two_pow_split d (z + 1) 1074 (by omega)]
  rw [e2, ← Nat.mul_assoc]
  exact Nat.mul_le_mul_right _ hb

/-- a run of corner bits 0: after `cs.length` further steps the bound has been halved that many times -/
theorem walk1_zero_run (S : Nat) (hS : S < 2 ^ 53) (cs : List Nat) : ∀ (z x : Nat), (∀ c ∈ cs, c = 0) →
    z + cs.length ≤ 1074 → x * 2 ^ z ≤ S * f64One →
    walk1 S x cs * 2 ^ (z + cs.length) ≤ S * f64One := by
  induction cs with
  | nil =>
    intro z x _ _ hx
    rw [walk1_nil, List.length_nil, Nat.add_zero]
    exact hx
  | cons c cs ih =>
    intro z x hcs hz hx
    rw [List.length_cons] at hz
    have hc : c = 0 := hcs c (List.mem_cons_self ..)
    subst hc
    rw [walk1_cons, Nat.zero_mul, List.length_cons]
    have hstep := cgrMid_zero_step' S x z hS (by omega) hx
    have := ih (z + 1) (cgrMid 0 x) (fun d hd => hcs d (List.mem_cons_of_mem _ hd)) (by omega) hstep
    have e : z + (cs.length + 1) = z + 1 + cs.length := by omega
    rw [e]
    exact this

/-- from anywhere in the square -/
theorem walk1_zero_run0 (S : Nat) (hS : S < 2 ^ 53) (cs : List Nat) (x : Nat) (hcs : ∀ c ∈ cs, c = 0)
    (hz : cs.length ≤ 1074) (hx : x ≤ S * f64One) : walk1 S x cs * 2 ^ cs.length ≤ S * f64One := by
  have := walk1_zero_run S hS cs 0 x hcs (by omega) (by rw [Nat.pow_zero, Nat.mul_one]; exact hx)
  rwa [Nat.zero_add] at this

/-- the last point of the walk over `p ++ q` is the pair of coordinate walks over `q` from a point of the square -/
theorem cgrF64_last_walk (S : Nat) (p q : List Nat) (l : List (Nat × Nat)) (hS : S < 2 ^ 53) (hq : q ≠ [])
    (h : cgrF64 S (p ++ q) = some l) :
    ∃ sx sy, sx ≤ S * f64One ∧ sy ≤ S * f64One ∧
      l.getLastD (0, 0) = (walk1 S sx (q.map cX), walk1 S sy (q.map cY)) := by
  unfold cgrF64 at h
  have hlen := cgrLoop_length S _ (cgrCentre S) l h
  have hqpos : 0 < q.length := List.length_pos_iff.mpr hq
  have hl : l ≠ [] := by
    intro h0
    rw [h0, List.length_append] at hlen
    simp only [List.length_nil] at hlen
    omega
  have hend : cgrEndLoop S (cgrCentre S) (p ++ q) = some (l.getLastD (cgrCentre S)) := by
    rw [Vec.cgrEndLoop_eq_last', h]; rfl
  have hpre := cgrLoop_prefix S p q (cgrCentre S) l h
  have hendp : cgrEndLoop S (cgrCentre S) p = some ((l.take p.length).getLastD (cgrCentre S)) := by
    rw [Vec.cgrEndLoop_eq_last', hpre]; rfl
  rw [endLoop_append, hendp, Option.bind_some] at hend
  obtain ⟨hc1, hc2⟩ := cgrCentre_le S hS
  have hst : ((l.take p.length).getLastD (cgrCentre S)).1 ≤ S * f64One ∧
      ((l.take p.length).getLastD (cgrCentre S)).2 ≤ S * f64One := by
    rcases getLastD_eq_or_mem (l.take p.length) (cgrCentre S) with he | hm
    · rw [he]; exact ⟨hc1, hc2⟩
    · exact cgrLoop_in_square S hS p (cgrCentre S).1 (cgrCentre S).2 _ hc1 hc2 hpre _ hm
  generalize (l.take p.length).getLastD (cgrCentre S) = st at hend hst
  obtain ⟨sx, sy⟩ := st
  have hw := endLoop_walk S q sx sy _ hend
  exact ⟨sx, sy, hst.1, hst.2, by rw [getLastD_of_ne_nil l (0, 0) (cgrCentre S) hl, hw]⟩

/-- a run `q` of at most 1074 bases with corner x-coordinate 0 confines x to `[0, S/2^|q|]` -/
theorem cgrF64_zero_run_x' (S : Nat) (p q : List Nat) (l : List (Nat × Nat)) (hS : S < 2 ^ 53)
    (hz : q.length ≤ 1074) (hq : q ≠ []) (hc : ∀ b ∈ q, cX b = 0) (h : cgrF64 S (p ++ q) = some l) :
    (l.getLastD (0, 0)).1 * 2 ^ q.length ≤ S * f64One := by
  obtain ⟨sx, sy, hx, _, hw⟩ := cgrF64_last_walk S p q l hS hq h
  rw [hw]
  have := walk1_zero_run0 S hS (q.map cX) sx
    (fun c hc' => by obtain ⟨b, hb, rfl⟩ := List.mem_map.mp hc'; exact hc b hb)
    (by rw [List.length_map]; exact hz) hx
  rwa [List.length_map] at this

/-- the same for y -/
theorem cgrF64_zero_run_y' (S : Nat) (p q : List Nat) (l : List (Nat × Nat)) (hS : S < 2 ^ 53)
    (hz : q.length ≤ 1074) (hq : q ≠ []) (hc : ∀ b ∈ q, cY b = 0) (h : cgrF64 S (p ++ q) = some l) :
    (l.getLastD (0, 0)).2 * 2 ^ q.length ≤ S * f64One := by
  obtain ⟨sx, sy, _, hy, hw⟩ := cgrF64_last_walk S p q l hS hq h
  rw [hw]
  have := walk1_zero_run0 S hS (q.map cY) sy
    (fun c hc' => by obtain ⟨b, hb, rfl⟩ := List.mem_map.mp hc'; exact hc b hb)
    (by rw [List.length_map]; exact hz) hy
  rwa [List.length_map] at this

end KT.E2E2
