import KtVerif.Proofs.SchedInv
/-!
# The memory-mapped writer: `blit` algebra, commutation of disjoint writes, sequential fold
-/
namespace KT.Sch
open KT

/-! ## offsets -/

theorem writePos_in_bounds (hdrLen L N n : Nat) (hn : n < N) :
    writePos hdrLen L n + L ≤ N * L + hdrLen := by
  unfold writePos
  have h1 : L * (n + 1) ≤ L * N := Nat.mul_le_mul_left L hn
  rw [Nat.mul_succ] at h1
  rw [Nat.mul_comm N L]
  omega

theorem writePos_disjoint (hdrLen L i j : Nat) (hij : i ≠ j) :
    writePos hdrLen L i + L ≤ writePos hdrLen L j ∨ writePos hdrLen L j + L ≤ writePos hdrLen L i := by
  unfold writePos
  rcases Nat.lt_or_gt_of_ne hij with h | h
  · left
    have h1 : L * (i + 1) ≤ L * j := Nat.mul_le_mul_left L h
    rw [Nat.mul_succ] at h1; omega
  · right
    have h1 : L * (j + 1) ≤ L * i := Nat.mul_le_mul_left L h
    rw [Nat.mul_succ] at h1; omega

/-! ## blit -/

theorem blit_length (f : Cells) (p : Nat) (d : List Nat) : (blit f p d).length = f.length := by
  unfold blit
  split
  · simp only [List.length_append, List.length_take, List.length_map, List.length_drop]; omega
  · rfl

theorem blit_getElem? (f : Cells) (p : Nat) (d : List Nat) (i : Nat) :
    (blit f p d)[i]? =
      if p + d.length ≤ f.length ∧ p ≤ i ∧ i < p + d.length then (d[i - p]?).map some else f[i]? := by
  unfold blit
  by_cases hb : p + d.length ≤ f.length
  · simp only [hb, if_true, true_and]
    have hlt : (List.take p f).length = p := by simp only [List.length_take]; omega
    by_cases h1 : i < p
    · have : ¬ (p ≤ i ∧ i < p + d.length) := by omega
      rw [if_neg this, List.append_assoc, List.getElem?_append_left (by omega), List.getElem?_take_of_lt h1]
    · by_cases h2 : i < p + d.length
      · have : (p ≤ i ∧ i < p + d.length) := by omega
        rw [if_pos this, List.append_assoc, List.getElem?_append_right (by omega), hlt,
          List.getElem?_append_left (by simp only [List.length_map]; omega), List.getElem?_map]
      · have : ¬ (p ≤ i ∧ i < p + d.length) := by omega
        rw [if_neg this, List.getElem?_append_right (by simp only [List.length_append, List.length_map, hlt]; omega)]
        simp only [List.length_append, List.length_map, hlt, List.getElem?_drop]
        congr 1; omega
  · have : ¬ (p + d.length ≤ f.length ∧ p ≤ i ∧ i < p + d.length) := fun h => hb h.1
    rw [if_neg hb, if_neg this]

/-- writes to disjoint ranges commute, on any file (refused writes are the identity) -/
theorem blit_comm (f : Cells) (p1 p2 : Nat) (d1 d2 : List Nat)
    (hd : p1 + d1.length ≤ p2 ∨ p2 + d2.length ≤ p1) :
    blit (blit f p1 d1) p2 d2 = blit (blit f p2 d2) p1 d1 := by
  apply List.ext_getElem?
  intro i
  simp only [blit_getElem?, blit_length]
  by_cases c1 : (p1 + d1.length ≤ f.length ∧ p1 ≤ i ∧ i < p1 + d1.length) <;>
    by_cases c2 : (p2 + d2.length ≤ f.length ∧ p2 ≤ i ∧ i < p2 + d2.length)
  · omega
  · rw [if_neg c2, if_pos c1, if_pos c1]
  · rw [if_pos c2, if_neg c1, if_pos c2]
  · rw [if_neg c2, if_neg c1, if_neg c1, if_neg c2]

/-- writing right after a fully written prefix, into unwritten space -/
theorem blit_after (A : Cells) (m : Nat) (d : List Nat) (p : Nat) (hp : p = A.length)
    (hd : d.length ≤ m) :
    blit (A ++ List.replicate m none) p d = A ++ d.map some ++ List.replicate (m - d.length) none := by
  subst hp
  unfold blit
  have : A.length + d.length ≤ (A ++ List.replicate m none).length := by
    simp only [List.length_append, List.length_replicate]; omega
  rw [if_pos this, List.take_left, List.drop_length_add_append, List.drop_replicate]

/-! ## sequential fold -/

theorem flatten_length_const {L : Nat} (l : List (List Nat)) (h : ∀ r ∈ l, r.length = L) :
    l.flatten.length = l.length * L := by
  induction l with
  | nil => simp
  | cons x xs ih =>
    have hx : x.length = L := h x (List.mem_cons_self)
    have hxs : ∀ r ∈ xs, r.length = L := fun r hr => h r (List.mem_cons_of_mem _ hr)
    simp only [List.flatten_cons, List.length_append, List.length_cons, ih hxs, hx, Nat.succ_mul]
    omega

/-- the file after rows `0 .. k-1` have been written in order -/
def seqFile (hdr : List Nat) (rows : List (List Nat)) (L k : Nat) : Cells :=
  (hdr ++ (rows.take k).flatten).map some ++ List.replicate ((rows.length - k) * L) none

theorem mmapInit_eq (hdr : List Nat) (rows : List (List Nat)) (L : Nat) :
    mmapInit (rows.length * L + hdr.length) hdr = seqFile hdr rows L 0 := by
  unfold mmapInit seqFile
  have h := blit_after [] (rows.length * L + hdr.length) hdr 0 rfl (by omega)
  simp only [List.nil_append] at h
  rw [h]
  simp only [List.take_zero, List.flatten_nil, List.append_nil, Nat.sub_zero, Nat.add_sub_cancel]

theorem seqFile_last (hdr : List Nat) (rows : List (List Nat)) (L : Nat) :
    seqFile hdr rows L rows.length = mmapExpected hdr rows := by
  unfold seqFile mmapExpected
  simp only [List.take_length, Nat.sub_self, Nat.zero_mul, List.replicate_zero, List.append_nil]

theorem getD_eq (rows : List (List Nat)) (k : Nat) (hk : k < rows.length) :
    rows.getD k [] = rows[k] := by
  simp [List.getD_eq_getElem?_getD, hk]

theorem seqFile_step (hdr : List Nat) (rows : List (List Nat)) (L : Nat)
    (hL : ∀ r ∈ rows, r.length = L) (k : Nat) (hk : k < rows.length) :
    mmapEff hdr.length (fun n => rows.getD n []) k (seqFile hdr rows L k) = seqFile hdr rows L (k + 1) := by
  have hrk : rows[k].length = L := hL _ (List.getElem_mem hk)
  have htake : ((rows.take k).flatten).length = k * L := by
    rw [flatten_length_const (L := L) _ (fun r hr => hL r (List.mem_of_mem_take hr))]
    simp only [List.length_take]
    rw [Nat.min_eq_left (Nat.le_of_lt hk)]
  have hmul : (rows.length - k) * L = (rows.length - (k + 1)) * L + L := by
    have : rows.length - k = (rows.length - (k + 1)) + 1 := by omega
    rw [this, Nat.succ_mul]
  unfold mmapEff seqFile
  simp only [getD_eq rows k hk]
  rw [blit_after _ _ _ _ _ (by rw [hrk, hmul]; omega)]
  · rw [List.take_succ_eq_append_getElem hk]
    simp only [List.flatten_append, List.flatten_cons, List.flatten_nil, List.append_nil,
      List.map_append, List.append_assoc]
    congr 3
    rw [hrk, hmul]; simp
  · simp only [List.length_map, List.length_append, htake, writePos, hrk]
    rw [Nat.mul_comm]; omega

theorem seq_fold (hdr : List Nat) (rows : List (List Nat)) (L : Nat)
    (hL : ∀ r ∈ rows, r.length = L) (k : Nat) (hk : k ≤ rows.length) :
    (List.range k).foldl (fun a n => mmapEff hdr.length (fun n => rows.getD n []) n a)
        (seqFile hdr rows L 0) = seqFile hdr rows L k := by
  induction k with
  | zero => simp
  | succ k ih =>
    rw [List.range_succ, List.foldl_append, ih (by omega)]
    simp only [List.foldl_cons, List.foldl_nil]
    exact seqFile_step hdr rows L hL k (by omega)

/-- the row effects of two records in range commute on every file -/
theorem mmapEff_comm (hdrLen : Nat) (row : Nat → List Nat) (L : Nat) (i j : Nat)
    (hi : (row i).length = L) (hj : (row j).length = L) (z : Cells) :
    mmapEff hdrLen row j (mmapEff hdrLen row i z) = mmapEff hdrLen row i (mmapEff hdrLen row j z) := by
  by_cases e : i = j
  · subst e; rfl
  · unfold mmapEff
    apply blit_comm
    rw [hi, hj]
    exact writePos_disjoint hdrLen L i j e

/-- folding the row writes over ANY enumeration of the records gives header ++ rows -/
theorem fold_perm_expected (hdr : List Nat) (rows : List (List Nat)) (L : Nat)
    (hL : ∀ r ∈ rows, r.length = L) (order : List Nat) (hp : order.Perm (List.range rows.length)) :
    order.foldl (fun a n => mmapEff hdr.length (fun n => rows.getD n []) n a)
        (mmapInit (rows.length * L + hdr.length) hdr) = mmapExpected hdr rows := by
  have hlen : ∀ x ∈ order, (rows.getD x []).length = L := by
    intro x hx
    have hx' : x < rows.length := List.mem_range.mp (hp.subset hx)
    rw [getD_eq rows x hx']
    exact hL _ (List.getElem_mem hx')
  rw [List.Perm.foldl_eq' hp
      (fun x hx y hy z => mmapEff_comm hdr.length (fun n => rows.getD n []) L x y (hlen x hx) (hlen y hy) z),
    mmapInit_eq, seq_fold hdr rows L hL rows.length (Nat.le_refl _), seqFile_last]

end KT.Sch
