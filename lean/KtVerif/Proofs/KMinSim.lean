import KtVerif.Model.Minimiser
/-!
# C18 (a): the k-mer-reporting minimiser iterator simulates the plain one

`proj` forgets the `kVal*` registers and the `kbuff` list; every step of `KMG` projects to the
step of `MG` (the k-fields never influence a branch condition).
-/
namespace KT.KMin
open KT

/-- forget the k-mer registers and the pending k-mer list -/
def proj (s : KMG) : MG :=
  ⟨s.mValF, s.mValR, s.mValL, s.active, s.start, s.buff, s.buffPos⟩

/-- forget the k-mer list of a run -/
def projRun (r : KRun) : Run := (r.1, r.2.1, r.2.2.1)

theorem proj_firstScan (cap : Nat) (s : KMG) :
    proj (KMG.firstScan cap s) = MG.firstScan cap (proj s) := by
  unfold KMG.firstScan MG.firstScan
  by_cases h : s.active = U64MAX ∧ s.buff.length = cap
  · have h' : (proj s).active = U64MAX ∧ (proj s).buff.length = cap := h
    rw [if_pos h, if_pos h']
    rfl
  · have h' : ¬ ((proj s).active = U64MAX ∧ (proj s).buff.length = cap) := h
    rw [if_neg h, if_neg h']

local macro "fin" : tactic =>
  `(tactic| (constructor <;> first | rfl | trivial | exact proj_firstScan _ _))

theorem proj_step (w m pos : Nat) (s : KMG) (b : Nat) :
    proj (KMG.step w m pos s b).1 = (MG.step w m pos (proj s) b).1 ∧
    (KMG.step w m pos s b).2.map projRun = (MG.step w m pos (proj s) b).2 := by
  unfold KMG.step MG.step
  simp only [proj]
  by_cases hv : nt4 b < 4
  · simp only [hv, ↓reduceIte]
    by_cases hl : s.mValL + 1 < m
    · simp only [hl, ↓reduceIte]; fin
    · simp only [hl, ↓reduceIte]
      by_cases hb : s.buff.length = w - m + 1
      · by_cases hp : s.buffPos = 0
        · by_cases hn : (scanMin U64MAX 0 0 (s.buff.tail ++ [min ((shl64 s.mValF 2 ||| nt4 b) &&& maskOf m) (s.mValR >>> 2 ||| shl64 (nt4 b ^^^ 3) (shiftOf m))])).fst = s.active
          · by_cases hk : s.kValL + 1 = w
            · simp only [hk, hb, hp, hn, ne_eq, not_true_eq_false, ↓reduceIte]; fin
            · simp only [hk, hb, hp, hn, ne_eq, not_true_eq_false, ↓reduceIte]; fin
          · by_cases hk : s.kValL + 1 = w
            · simp only [hk, hb, hp, hn, ne_eq, not_false_eq_true, ↓reduceIte]; fin
            · simp only [hk, hb, hp, hn, ne_eq, not_false_eq_true, ↓reduceIte]; fin
        · by_cases hn : min ((shl64 s.mValF 2 ||| nt4 b) &&& maskOf m) (s.mValR >>> 2 ||| shl64 (nt4 b ^^^ 3) (shiftOf m)) < s.active
          · by_cases hk : s.kValL + 1 = w
            · simp only [hk, hb, hp, hn, ↓reduceIte]; fin
            · simp only [hk, hb, hp, hn, ↓reduceIte]; fin
          · by_cases hk : s.kValL + 1 = w
            · simp only [hk, hb, hp, hn, ↓reduceIte]; fin
            · simp only [hk, hb, hp, hn, ↓reduceIte]; fin
      · by_cases hk : s.kValL + 1 = w
        · simp only [hk, hb, ↓reduceIte]; fin
        · simp only [hk, hb, ↓reduceIte]; fin
  · simp only [hv, ↓reduceIte]
    by_cases hb : s.buff.length = w - m + 1
    · simp only [hb, ↓reduceIte]; fin
    · simp only [hb, ↓reduceIte]; fin
theorem proj_run (w m n : Nat) (bs : List Nat) :
    ∀ (pos : Nat) (s : KMG), (KMG.run w m n pos s bs).map projRun = MG.run w m n pos (proj s) bs := by
  induction bs with
  | nil =>
    intro pos s
    unfold KMG.run MG.run KMG.finish MG.finish
    by_cases h : s.active ≠ U64MAX
    · have h' : (proj s).active ≠ U64MAX := h
      rw [if_pos h, if_pos h']; rfl
    · have h' : ¬ (proj s).active ≠ U64MAX := h
      rw [if_neg h, if_neg h']; rfl
  | cons b bs ih =>
    intro pos s
    have hs := proj_step w m pos s b
    unfold KMG.run MG.run
    rcases hk : KMG.step w m pos s b with ⟨s', o⟩
    rcases hm : MG.step w m pos (proj s) b with ⟨t', o'⟩
    rw [hk, hm] at hs
    obtain ⟨h1, h2⟩ := hs
    simp only at h1 h2
    subst h1
    cases o with
    | none =>
      cases h2
      simp only []
      exact ih _ _
    | some r =>
      cases h2
      simp only [List.map_cons]
      rw [ih]
      rfl

theorem runs_eq (w m : Nat) (s : List Nat) :
    (kmerMinimisers w m s).map projRun = minimisers w m s :=
  proj_run w m s.length s 0 KMG.init

end KT.KMin
