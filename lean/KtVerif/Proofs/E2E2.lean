import KtVerif.Spec.EndToEnd
import KtVerif.Props.C05
import KtVerif.Props.C06
import KtVerif.Props.C07
import KtVerif.Props.C08
import KtVerif.Props.FloatLemmas
/-!
# End-to-end helpers (second batch): the counts table read back as a multiplicity function, the
coverage row against it, the two containers
-/
namespace KT.E2E2
open KT

/-- reading the table back (`find?` on the key) gives the multiplicity -/
theorem cntOfTable_eq' (tbl : List (Nat × Nat)) (l : List Nat)
    (hval : ∀ x c, (x, c) ∈ tbl → c = countOcc x l ∧ 0 < c)
    (hkey : ∀ x, x ∈ l → x ∈ tbl.map (·.1)) (x : Nat) :
    cntOfTable tbl x = countOcc x l := by
  unfold cntOfTable
  cases hf : tbl.find? (fun p => p.1 == x) with
  | none =>
    show 0 = countOcc x l
    have hnk : x ∉ tbl.map (·.1) := by
      intro hm
      obtain ⟨p, hp, hpx⟩ := List.mem_map.mp hm
      have := List.find?_eq_none.mp hf p hp
      exact this (by simp only [hpx, beq_self_eq_true])
    have hnl : x ∉ l := fun hx => hnk (hkey x hx)
    unfold countOcc
    have : l.filter (fun y => y == x) = [] := by
      rw [List.filter_eq_nil_iff]
      intro a ha hax
      have : a = x := by simpa using hax
      exact hnl (this ▸ ha)
    rw [this]
    rfl
  | some p =>
    show p.2 = countOcc x l
    have hpx : p.1 = x := by
      have := List.find?_some hf
      simpa using this
    have hmem : p ∈ tbl := List.mem_of_find?_eq_some hf
    obtain ⟨a, c⟩ := p
    cases hpx
    exact (hval _ _ hmem).1

/-- the coverage row text against a multiplicity function on the u32 range is the specified row -/
theorem covRowText_eq_spec (k binSize binCount : Nat) (cnt : Nat → Nat) (norm : Bool) (delim s : List Nat)
    (hk1 : 1 ≤ k) (hk : k ≤ 31) (hbs1 : 1 ≤ binSize) (hbs : binSize < 2 ^ 32) (hbc : 1 ≤ binCount)
    (hu32 : ∀ x, cnt x < 2 ^ 32) :
    covRowText k binSize binCount cnt norm delim s =
      rowText norm delim (covRowSpec k binSize binCount cnt s) (windowCount k s) := by
  unfold covRowText
  rw [covCounts_eq_spec_of_bin k binSize binCount cnt s hk1 hk hbc
    (fun x => covBinF64_eq_div (cnt x) binSize (hu32 x) hbs1 hbs)]

end KT.E2E2
