import KtVerif.Model.Minimiser
/-!
# Leftmost-minimum bookkeeping of the ring buffer (rescan, pop-front / push-back)
-/
namespace KT.Min
open KT

/-- `IsLeftMin l v i`: v is the minimum of l and i is its leftmost position. -/
structure IsLeftMin (l : List Nat) (v i : Nat) : Prop where
  lt : i < l.length
  at_i : l[i]? = some v
  le : ∀ (j : Nat) (x : Nat), l[j]? = some x → v ≤ x
  left : ∀ (j : Nat) (x : Nat), j < i → l[j]? = some x → v < x

theorem IsLeftMin.unique {l : List Nat} {v i v' i' : Nat} (h : IsLeftMin l v i) (h' : IsLeftMin l v' i') :
    v = v' ∧ i = i' := by
  have hv : v = v' := Nat.le_antisymm (h.le i' v' h'.at_i) (h'.le i v h.at_i)
  subst hv
  refine ⟨rfl, ?_⟩
  rcases Nat.lt_trichotomy i i' with hlt | heq | hgt
  · have := h'.left i v hlt h.at_i; omega
  · exact heq
  · have := h.left i' v hgt h'.at_i; omega

/-- generalised correctness of `scan` started in the middle of a list `pre ++ l`. -/
theorem scanMin_spec (pre l : List Nat) (best bi : Nat)
    (hpre : pre ≠ [] → IsLeftMin pre best bi)
    (hbig : pre = [] → ∀ x ∈ l, x < best) (hl : pre ++ l ≠ []) :
    IsLeftMin (pre ++ l) (scanMin best bi pre.length l).1 (scanMin best bi pre.length l).2 := by
  induction l generalizing pre best bi with
  | nil =>
    simp only [List.append_nil] at hl ⊢
    simpa [scanMin] using hpre hl
  | cons x xs ih =>
    simp only [scanMin]
    have hassoc : pre ++ x :: xs = (pre ++ [x]) ++ xs := by simp
    have hlen : (pre ++ [x]).length = pre.length + 1 := by simp
    split
    · rename_i hx
      rw [hassoc, ← hlen]
      apply ih (pre ++ [x]) x pre.length
      · intro _
        refine ⟨by simp, by simp, ?_, ?_⟩
        · intro j y hj
          by_cases hjl : j < pre.length
          · rw [List.getElem?_append_left hjl] at hj
            by_cases hp : pre = []
            · subst hp; simp at hjl
            · have := (hpre hp).le j y hj; omega
          · rw [List.getElem?_append_right (by omega)] at hj
            have : j - pre.length = 0 := by
              by_cases h0 : j - pre.length = 0
              · exact h0
              · simp [h0] at hj
            simp [this] at hj; omega
        · intro j y hj hy
          rw [List.getElem?_append_left hj] at hy
          have hp : pre ≠ [] := by intro e; subst e; simp at hj
          have := (hpre hp).le j y hy; omega
      · intro h; simp at h
      · simp
    · rename_i hx
      rw [hassoc, ← hlen]
      have hp : pre ≠ [] := by
        intro e; have := hbig e x (by simp); omega
      apply ih (pre ++ [x]) best bi
      · intro _
        have H := hpre hp
        refine ⟨by simp; have := H.lt; omega, ?_, ?_, ?_⟩
        · rw [List.getElem?_append_left H.lt]; exact H.at_i
        · intro j y hj
          by_cases hjl : j < pre.length
          · rw [List.getElem?_append_left hjl] at hj; exact H.le j y hj
          · rw [List.getElem?_append_right (by omega)] at hj
            have : j - pre.length = 0 := by
              by_cases h0 : j - pre.length = 0
              · exact h0
              · simp [h0] at hj
            simp [this] at hj; omega
        · intro j y hj hy
          have := H.lt
          rw [List.getElem?_append_left (by omega)] at hy
          exact H.left j y hj hy
      · intro h; simp at h
      · simp

/-- Case "else buff_pos -= 1": the minimum was not at the front and the pushed value is not smaller. -/
theorem slide_keep {l : List Nat} {v i x : Nat} (h : IsLeftMin l v i) (hi : 0 < i) (hx : v ≤ x) :
    IsLeftMin (l.tail ++ [x]) v (i - 1) := by
  have hlen := h.lt
  have htl : l.tail.length = l.length - 1 := by simp
  have hget : ∀ j : Nat, j < l.length - 1 → (l.tail ++ [x])[j]? = l[j+1]? := by
    intro j hj
    rw [List.getElem?_append_left (by omega)]
    simp [List.getElem?_tail]
  refine ⟨by simp; omega, ?_, ?_, ?_⟩
  · rw [hget (i-1) (by omega)]
    have : i - 1 + 1 = i := by omega
    rw [this]; exact h.at_i
  · intro j y hj
    by_cases hjl : j < l.length - 1
    · rw [hget j hjl] at hj; exact h.le (j+1) y hj
    · rw [List.getElem?_append_right (by omega)] at hj
      simp [List.getElem?_cons] at hj
      omega
  · intro j y hj hy
    rw [hget j (by omega)] at hy
    exact h.left (j+1) y (by omega) hy

/-- Case "new value strictly smaller": it becomes the unique minimum at the back. -/
theorem slide_new {l : List Nat} {v i x : Nat} (h : IsLeftMin l v i) (hx : x < v) :
    IsLeftMin (l.tail ++ [x]) x (l.length - 1) := by
  have hlen := h.lt
  refine ⟨by simp, ?_, ?_, ?_⟩
  · rw [List.getElem?_append_right (by simp)]; simp
  · intro j y hj
    by_cases hjl : j < l.length - 1
    · rw [List.getElem?_append_left (by simp; omega)] at hj
      simp [List.getElem?_tail] at hj
      have := h.le (j+1) y hj; omega
    · rw [List.getElem?_append_right (by simp; omega)] at hj
      simp [List.getElem?_cons] at hj
      omega
  · intro j y hj hy
    rw [List.getElem?_append_left (by simp; omega)] at hy
    simp [List.getElem?_tail] at hy
    have := h.le (j+1) y hy; omega


/-- the rescan from a value larger than all entries finds the leftmost minimum -/
theorem scanMin_leftMin (l : List Nat) (big bi : Nat) (hl : l ≠ []) (hbig : ∀ x ∈ l, x < big) :
    IsLeftMin l (scanMin big bi 0 l).1 (scanMin big bi 0 l).2 := by
  have := scanMin_spec [] l big bi (fun h => absurd rfl h) (fun _ => hbig) (by simpa using hl)
  simpa using this

theorem foldl_min_le (xs : List Nat) (x : Nat) :
    xs.foldl min x ≤ x ∧ ∀ y ∈ xs, xs.foldl min x ≤ y := by
  induction xs generalizing x with
  | nil => simp
  | cons a xs ih =>
    simp only [List.foldl_cons, List.mem_cons]
    have h := ih (min x a)
    refine ⟨by have := h.1; omega, ?_⟩
    intro y hy
    rcases hy with rfl | hy
    · have := h.1; omega
    · exact h.2 y hy

theorem foldl_min_mem (xs : List Nat) (x : Nat) : xs.foldl min x = x ∨ xs.foldl min x ∈ xs := by
  induction xs generalizing x with
  | nil => simp
  | cons a xs ih =>
    simp only [List.foldl_cons, List.mem_cons]
    rcases ih (min x a) with h | h
    · rw [h]
      rcases Nat.le_total x a with hxa | hxa
      · left; omega
      · right; left; omega
    · right; right; exact h

theorem listMin_le (l : List Nat) : ∀ y ∈ l, listMin l ≤ y := by
  cases l with
  | nil => simp
  | cons x xs =>
    intro y hy
    simp only [listMin]
    rcases List.mem_cons.1 hy with rfl | hy
    · exact (foldl_min_le xs _).1
    · exact (foldl_min_le xs x).2 y hy

theorem listMin_mem (l : List Nat) (hl : l ≠ []) : listMin l ∈ l := by
  cases l with
  | nil => exact absurd rfl hl
  | cons x xs =>
    simp only [listMin]
    rcases foldl_min_mem xs x with h | h
    · rw [h]; simp
    · exact List.mem_cons_of_mem _ h

theorem IsLeftMin.listMin_eq {l : List Nat} {v i : Nat} (h : IsLeftMin l v i) : listMin l = v := by
  have hne : l ≠ [] := by intro e; have := h.lt; simp [e] at this
  apply Nat.le_antisymm
  · exact listMin_le l v (List.mem_of_getElem? h.at_i)
  · obtain ⟨j, hj, hje⟩ := List.getElem_of_mem (listMin_mem l hne)
    exact h.le j _ (by rw [List.getElem?_eq_getElem hj, hje])

end KT.Min
