import KtVerif.Model.Display
import KtVerif.Proofs.Float
import KtVerif.Proofs.FloatDiv
import KtVerif.Proofs.E2E2Float
import Mathlib.Tactic.Ring
/-!
# `format!("{}", x)` / `str::parse::<f64>` on the exact binary64 emulation: helpers

Scaling numerator and denominator of `roundRat` by a common factor changes nothing, hence `decToF64 (D·10^k) (e-k) =
decToF64 D e`; the digit search only returns candidates it has checked; the positional text is read back digit for digit.
`f64One = 2^1074`, `5^1074`, `10^1074` stay symbolic throughout.
-/
namespace KT.Disp
open KT KT.Fl

/-! ## scaling -/

theorem roundDiv_scale (a b c : Nat) (hc : 0 < c) : roundDiv (a * c) (b * c) = roundDiv a b := by
  unfold roundDiv
  simp only [Nat.mul_div_mul_right _ _ hc, Nat.mul_mod_mul_right]
  have e1 : (2 * (a % b * c) > b * c) ↔ (2 * (a % b) > b) := by
    rw [← Nat.mul_assoc]
    exact Nat.mul_lt_mul_right hc
  have e2 : (2 * (a % b * c) = b * c) ↔ (2 * (a % b) = b) := by
    rw [← Nat.mul_assoc]
    exact Nat.mul_left_inj (Nat.pos_iff_ne_zero.1 hc)
  simp only [e1, e2]

theorem roundRat_scale (a b c : Nat) (hc : 0 < c) : roundRat (a * c) (b * c) = roundRat a b := by
  unfold roundRat
  simp only [Nat.mul_div_mul_right _ _ hc]
  generalize bitLen (a / b) - 53 = sh
  have e : b * c * 2 ^ sh = b * 2 ^ sh * c := by ring
  rw [e, roundDiv_scale _ _ _ hc]

attribute [local irreducible] f64One

theorem ten_pow_pos (k : Nat) : 0 < 10 ^ k := Nat.pow_pos (by decide)

/-! ## `decToF64` -/

/-- `decToF64 D e` for any way of writing `e = p - q` -/
theorem decToF64_eq (D : Nat) (e : Int) (p q : Nat) (h : e = (p : Int) - (q : Int)) :
    decToF64 D e = roundRat (D * 10 ^ p * f64One) (10 ^ q) := by
  unfold decToF64
  split
  · rename_i he
    obtain ⟨t, ht⟩ : ∃ t : Nat, e = t := ⟨e.toNat, (Int.toNat_of_nonneg he).symm⟩
    subst ht
    have hp : p = t + q := by omega
    subst hp
    rw [Int.toNat_natCast]
    have e1 : D * 10 ^ (t + q) * f64One = D * 10 ^ t * f64One * 10 ^ q := by rw [Nat.pow_add]; ring
    have := roundRat_scale (D * 10 ^ t * f64One) 1 (10 ^ q) (ten_pow_pos q)
    rw [Nat.one_mul] at this
    rw [e1, this]
  · rename_i he
    obtain ⟨s, hs⟩ : ∃ s : Nat, -e = s := ⟨(-e).toNat, (Int.toNat_of_nonneg (by omega)).symm⟩
    have hq : q = s + p := by omega
    subst hq
    rw [hs, Int.toNat_natCast]
    have e1 : D * 10 ^ p * f64One = D * f64One * 10 ^ p := by ring
    rw [e1, Nat.pow_add, roundRat_scale _ _ _ (ten_pow_pos p)]

theorem decToF64_scale (D k : Nat) (e : Int) : decToF64 (D * 10 ^ k) (e - (k : Int)) = decToF64 D e := by
  rw [decToF64_eq D e e.toNat (-e).toNat (by omega),
    decToF64_eq (D * 10 ^ k) (e - k) e.toNat ((-e).toNat + k) (by omega)]
  have : D * 10 ^ k * 10 ^ e.toNat * f64One = D * 10 ^ e.toNat * f64One * 10 ^ k := by ring
  rw [this, Nat.pow_add, roundRat_scale _ _ _ (ten_pow_pos k)]

theorem decToF64_scale10 (D : Nat) (e : Int) : decToF64 (D * 10) (e - 1) = decToF64 D e := by
  have := decToF64_scale D 1 e
  rwa [Nat.pow_one] at this

theorem decToF64_zero (e : Int) : decToF64 0 e = 0 := by
  unfold decToF64
  split <;> simp only [Nat.zero_mul, roundRat_zero]

theorem decToF64_mono (D D' : Nat) (e : Int) (h : D ≤ D') : decToF64 D e ≤ decToF64 D' e := by
  unfold decToF64
  split
  · exact E2E2.roundRat_mono _ _ _ (by decide)
      (Nat.mul_le_mul_right _ (Nat.mul_le_mul_right _ h))
  · exact E2E2.roundRat_mono _ _ _ (ten_pow_pos _) (Nat.mul_le_mul_right _ h)

/-! ## `stripZeros` -/

theorem stripZeros_sound : ∀ (fuel D : Nat) (e : Int),
    decToF64 (stripZeros fuel D e).1 (stripZeros fuel D e).2 = decToF64 D e := by
  intro fuel
  induction fuel with
  | zero => intro D e; rfl
  | succ fuel ih =>
    intro D e
    unfold stripZeros
    split
    · rename_i h
      rw [ih (D / 10) (e + 1)]
      have h1 := decToF64_scale10 (D / 10) (e + 1)
      have h2 : D / 10 * 10 = D := by omega
      have h3 : e + 1 - 1 = e := by omega
      rw [h2, h3] at h1
      exact h1.symm
    · rfl

/-! ## every output of `roundRat` is a double -/

theorem roundDiv_le_succ (a b : Nat) : roundDiv a b ≤ a / b + 1 := by
  unfold roundDiv
  simp only
  split <;> omega

theorem roundRat_isF64 (a b : Nat) : ∃ m j, m < 2 ^ 53 ∧ roundRat a b = m * 2 ^ j := by
  unfold roundRat
  simp only
  generalize hq : a / b = q
  generalize hsh : bitLen q - 53 = sh
  have h1 : roundDiv a (b * 2 ^ sh) ≤ a / (b * 2 ^ sh) + 1 := roundDiv_le_succ _ _
  rw [← Nat.div_div_eq_div_mul, hq] at h1
  have h2 : q / 2 ^ sh < 2 ^ 53 := by
    rw [Nat.div_lt_iff_lt_mul (Nat.two_pow_pos _), ← Nat.pow_add]
    exact Nat.lt_of_lt_of_le (lt_two_pow_bitLen q) (two_pow_le _ _ (by omega))
  rcases Nat.lt_or_ge (roundDiv a (b * 2 ^ sh)) (2 ^ 53) with hlt | hge
  · exact ⟨_, sh, hlt, rfl⟩
  · have e : roundDiv a (b * 2 ^ sh) = 2 ^ 53 := by omega
    refine ⟨1, 53 + sh, by decide, ?_⟩
    rw [e, Nat.one_mul, Nat.pow_add]

theorem decToF64_isF64 (D : Nat) (e : Int) : ∃ m j, m < 2 ^ 53 ∧ decToF64 D e = m * 2 ^ j := by
  unfold decToF64
  split <;> exact roundRat_isF64 _ _

/-! ## one search step, for an arbitrary exponent -/

/-- `shortestAt` with the exponent of the last digit as a parameter -/
def stepAt (n : Nat) (e : Int) : Option (Nat × Int) :=
  let a := (scaledBy n e).1
  let b := (scaledBy n e).2
  let lo := a / b
  let r := a % b
  let hi := lo + 1
  let okLo := lo ≠ 0 ∧ decToF64 lo e = n
  let okHi := decToF64 hi e = n
  let preferHi := b ≤ 2 * r
  if okLo ∧ okHi then some (if preferHi then hi else lo, e)
  else if okLo then some (lo, e)
  else if okHi then some (hi, e)
  else none

theorem shortestAt_eq (n d : Nat) : shortestAt n d = stepAt n (dec10Exp n - (d : Int) + 1) := rfl

theorem stepAt_sound (n D : Nat) (e e' : Int) (h : stepAt n e = some (D, e')) : decToF64 D e' = n := by
  unfold stepAt at h
  simp only at h
  split at h
  · rename_i hc
    simp only [Option.some.injEq, Prod.mk.injEq] at h
    obtain ⟨h1, h2⟩ := h
    subst h2; subst h1
    split
    · exact hc.2
    · exact hc.1.2
  · split at h
    · rename_i hc
      simp only [Option.some.injEq, Prod.mk.injEq] at h
      obtain ⟨h1, h2⟩ := h
      subst h2; subst h1
      exact hc.2
    · split at h
      · rename_i hc
        simp only [Option.some.injEq, Prod.mk.injEq] at h
        obtain ⟨h1, h2⟩ := h
        subst h2; subst h1
        exact hc
      · exact absurd h (by simp)

theorem shortestAt_sound (n d D : Nat) (e : Int) (h : shortestAt n d = some (D, e)) : decToF64 D e = n :=
  stepAt_sound n D _ e (by rw [← shortestAt_eq]; exact h)

theorem scaledBy_pos (n : Nat) (e : Int) : 0 < (scaledBy n e).2 := by
  unfold scaledBy
  split
  · exact Nat.mul_pos f64One_pos (ten_pow_pos _)
  · exact f64One_pos

/-- the decimal just below the exact value does not read back above `n` -/
theorem decToF64_floor_le (n : Nat) (e : Int) (hn : ∃ m j, m < 2 ^ 53 ∧ n = m * 2 ^ j) :
    decToF64 ((scaledBy n e).1 / (scaledBy n e).2) e ≤ n := by
  obtain ⟨m, j, hm, rfl⟩ := hn
  unfold scaledBy decToF64
  by_cases he : 0 ≤ e
  · simp only [if_pos he]
    have hle := Nat.div_mul_le_self (m * 2 ^ j) (f64One * 10 ^ e.toNat)
    generalize m * 2 ^ j / (f64One * 10 ^ e.toNat) = lo at *
    have e1 : lo * 10 ^ e.toNat * f64One = lo * (f64One * 10 ^ e.toNat) := by ring
    have := E2E2.roundRat_mono _ _ 1 (by decide) (e1 ▸ hle)
    rwa [roundRat_exact_one m j hm] at this
  · simp only [if_neg he]
    have hle := Nat.div_mul_le_self (m * 2 ^ j * 10 ^ (-e).toNat) f64One
    have := E2E2.roundRat_mono _ _ (10 ^ (-e).toNat) (ten_pow_pos _) hle
    rwa [roundRat_exact m j _ (ten_pow_pos _) hm] at this

/-- the decimal just above the exact value does not read back below `n` -/
theorem le_decToF64_ceil (n : Nat) (e : Int) (hn : ∃ m j, m < 2 ^ 53 ∧ n = m * 2 ^ j) :
    n ≤ decToF64 ((scaledBy n e).1 / (scaledBy n e).2 + 1) e := by
  obtain ⟨m, j, hm, rfl⟩ := hn
  unfold scaledBy decToF64
  by_cases he : 0 ≤ e
  · simp only [if_pos he]
    have hle := Nat.le_of_lt (Nat.lt_mul_div_succ (m * 2 ^ j)
      (Nat.mul_pos f64One_pos (ten_pow_pos e.toNat)))
    generalize m * 2 ^ j / (f64One * 10 ^ e.toNat) = lo at *
    have e1 : (lo + 1) * 10 ^ e.toNat * f64One = f64One * 10 ^ e.toNat * (lo + 1) := by ring
    have := E2E2.roundRat_mono _ _ 1 (by decide) (e1 ▸ hle)
    rwa [roundRat_exact_one m j hm] at this
  · simp only [if_neg he]
    have hle := Nat.le_of_lt (Nat.lt_mul_div_succ (m * 2 ^ j * 10 ^ (-e).toNat) f64One_pos)
    rw [Nat.mul_comm f64One] at hle
    have := E2E2.roundRat_mono _ _ (10 ^ (-e).toNat) (ten_pow_pos _) hle
    rwa [roundRat_exact m j _ (ten_pow_pos _) hm] at this

theorem stepAt_complete (n D' : Nat) (e : Int) (hn : 0 < n) (hD : decToF64 D' e = n) :
    (stepAt n e).isSome := by
  have hn64 : ∃ m j, m < 2 ^ 53 ∧ n = m * 2 ^ j := hD ▸ decToF64_isF64 D' e
  have hlo := decToF64_floor_le n e hn64
  have hhi := le_decToF64_ceil n e hn64
  have hD0 : D' ≠ 0 := by
    intro h0; rw [h0, decToF64_zero] at hD; omega
  unfold stepAt
  simp only
  generalize (scaledBy n e).1 / (scaledBy n e).2 = lo at *
  have key : (lo ≠ 0 ∧ decToF64 lo e = n) ∨ decToF64 (lo + 1) e = n := by
    rcases Nat.lt_or_ge lo D' with hlt | hge
    · right
      have := decToF64_mono (lo + 1) D' e hlt
      omega
    · left
      have := decToF64_mono D' lo e hge
      exact ⟨by omega, by omega⟩
  split
  · rfl
  · split
    · rfl
    · split
      · rfl
      · rename_i h1 h2 h3
        rcases key with k | k
        · exact absurd k h2
        · exact absurd k h3

theorem shortestAt_complete (n d D' : Nat) (hn : 0 < n)
    (hD : decToF64 D' (dec10Exp n - (d : Int) + 1) = n) : (shortestAt n d).isSome := by
  rw [shortestAt_eq]; exact stepAt_complete n D' _ hn hD

/-! ## the search over digit counts -/

theorem shortestFrom_zero (n d : Nat) : shortestFrom n 0 d = none := rfl

theorem shortestFrom_succ (n fuel d : Nat) : shortestFrom n (fuel + 1) d =
    match shortestAt n d with
    | some r => some r
    | none => shortestFrom n fuel (d + 1) := rfl

theorem shortestFrom_first (n : Nat) : ∀ (fuel d0 : Nat) (r : Nat × Int), shortestFrom n fuel d0 = some r →
    ∃ d, d0 ≤ d ∧ d < d0 + fuel ∧ shortestAt n d = some r ∧
      ∀ d', d0 ≤ d' → d' < d → shortestAt n d' = none := by
  intro fuel
  induction fuel with
  | zero => intro d0 r h; rw [shortestFrom_zero] at h; exact absurd h (by simp)
  | succ fuel ih =>
    intro d0 r h
    rw [shortestFrom_succ] at h
    split at h
    · rename_i r' hr
      refine ⟨d0, Nat.le_refl _, by omega, by rw [hr, h], ?_⟩
      intro d' h1 h2; omega
    · rename_i hr
      obtain ⟨d, h1, h2, h3, h4⟩ := ih (d0 + 1) r h
      refine ⟨d, by omega, by omega, h3, ?_⟩
      intro d' h5 h6
      rcases Nat.eq_or_lt_of_le h5 with heq | hlt
      · rw [← heq]; exact hr
      · exact h4 d' hlt h6

/-! ## the printed digits -/

theorem pow_5_2 : (5 : Nat) ^ 1074 * 2 ^ 1074 = 10 ^ 1074 := by
  have h : ∀ k : Nat, (5 : Nat) ^ k * 2 ^ k = 10 ^ k := fun k => (Nat.mul_pow 5 2 k).symm
  exact h 1074

/-- the exact expansion `n · 5^1074 · 10^-1074` reads back as `n` -/
theorem fallback_sound (n : Nat) (hn : ∃ m j, m < 2 ^ 53 ∧ n = m * 2 ^ j) :
    decToF64 (n * 5 ^ 1074) (-1074) = n := by
  obtain ⟨m, j, hm, rfl⟩ := hn
  rw [decToF64_eq _ (-1074) 0 1074 (by omega), Nat.pow_zero, Nat.mul_one, f64One_eq]
  have h := pow_5_2
  generalize (5 : Nat) ^ 1074 = A at *
  generalize (2 : Nat) ^ 1074 = B at *
  have e : m * 2 ^ j * A * B = m * 2 ^ j * (A * B) := by ring
  rw [e, h]
  exact roundRat_exact m j _ (ten_pow_pos _) hm

theorem shortestDec_sound (n : Nat) (hn : ∃ m j, m < 2 ^ 53 ∧ n = m * 2 ^ j) :
    decToF64 (shortestDec n).1 (shortestDec n).2 = n := by
  unfold shortestDec
  rcases hg : (shortestFrom n 17 1).getD (n * 5 ^ 1074, -1074) with ⟨D, e⟩
  simp only
  rw [stripZeros_sound]
  cases hs : shortestFrom n 17 1 with
  | none =>
    rw [hs, Option.getD_none] at hg
    simp only [Prod.mk.injEq] at hg
    rw [← hg.1, ← hg.2]
    exact fallback_sound n hn
  | some r =>
    rw [hs, Option.getD_some] at hg
    obtain ⟨d, _, _, h3, _⟩ := shortestFrom_first n 17 1 r hs
    rw [hg] at h3
    exact shortestAt_sound n d D e h3

/-! ## digit strings -/

/-- all characters are ASCII digits -/
def AllDig (l : List Nat) : Prop := ∀ c ∈ l, 48 ≤ c ∧ c ≤ 57

theorem allDigits_iff (l : List Nat) : allDigits l = true ↔ AllDig l := by
  unfold allDigits AllDig
  simp only [List.all_eq_true, decide_eq_true_eq]

theorem AllDig.append {a b : List Nat} (ha : AllDig a) (hb : AllDig b) : AllDig (a ++ b) := by
  intro c hc
  rcases List.mem_append.1 hc with h | h
  · exact ha c h
  · exact hb c h

theorem AllDig.replicate (k : Nat) : AllDig (List.replicate k 48) := by
  intro c hc
  have := List.eq_of_mem_replicate hc
  omega

theorem AllDig.take {l : List Nat} (h : AllDig l) (k : Nat) : AllDig (l.take k) :=
  fun c hc => h c (List.mem_of_mem_take hc)

theorem AllDig.drop {l : List Nat} (h : AllDig l) (k : Nat) : AllDig (l.drop k) :=
  fun c hc => h c (List.mem_of_mem_drop hc)

theorem foldl_dv (l : List Nat) : ∀ acc : Nat,
    l.foldl (fun acc c => acc * 10 + (c - 48)) acc =
      acc * 10 ^ l.length + l.foldl (fun acc c => acc * 10 + (c - 48)) 0 := by
  induction l with
  | nil => intro acc; simp only [List.foldl_nil, List.length_nil, Nat.pow_zero, Nat.mul_one, Nat.add_zero]
  | cons c l ih =>
    intro acc
    simp only [List.foldl_cons, List.length_cons]
    rw [ih (acc * 10 + (c - 48)), ih (0 * 10 + (c - 48))]
    ring

theorem digitsVal_append (a b : List Nat) :
    digitsVal (a ++ b) = digitsVal a * 10 ^ b.length + digitsVal b := by
  unfold digitsVal
  rw [List.foldl_append, foldl_dv b]

theorem digitsVal_replicate (k : Nat) : digitsVal (List.replicate k 48) = 0 := by
  induction k with
  | zero => rfl
  | succ k ih =>
    rw [List.replicate_succ]
    exact ih

theorem natText_ne_nil (D : Nat) : natText D ≠ [] := by
  unfold natText
  intro h
  exact Nat.toDigits_ne_nil (List.map_eq_nil_iff.1 h)

theorem natText_allDig (D : Nat) : AllDig (natText D) := by
  unfold natText
  intro x hx
  obtain ⟨c, hc, rfl⟩ := List.mem_map.1 hx
  have h := Nat.isDigit_of_mem_toDigits (by decide) (by decide) hc
  unfold Char.isDigit at h
  simp only [Bool.and_eq_true, decide_eq_true_eq, ge_iff_le, UInt32.le_iff_toNat_le] at h
  exact h

theorem digitsVal_natText (D : Nat) : digitsVal (natText D) = D := by
  unfold digitsVal natText
  rw [List.foldl_map]
  have h := Nat.ofDigitChars_ten_toDigits (n := D)
  rw [Nat.ofDigitChars_eq_foldl] at h
  have e : (fun (sofar : Nat) (c : Char) => 10 * sofar + (c.toNat - '0'.toNat)) =
      (fun (acc : Nat) (c : Char) => acc * 10 + (c.toNat - 48)) := by
    funext acc c
    rw [Nat.mul_comm]; rfl
  rw [e] at h
  exact h

/-! ## the reader -/

theorem takeWhile_allDig (l : List Nat) (h : AllDig l) (rest : List Nat) :
    (l ++ 46 :: rest).takeWhile (fun x => decide (x ≠ 46)) = l ∧
    (l ++ 46 :: rest).dropWhile (fun x => decide (x ≠ 46)) = 46 :: rest := by
  induction l with
  | nil => simp
  | cons c l ih =>
    have hc := h c (List.mem_cons_self)
    have hc' : c ≠ 46 := by omega
    have ih' := ih (fun x hx => h x (List.mem_cons_of_mem _ hx))
    simp only [List.cons_append, List.takeWhile_cons, List.dropWhile_cons, hc', ne_eq,
      not_false_eq_true, decide_true, if_true, ih'.1, ih'.2, and_self]

theorem takeWhile_allDig' (l : List Nat) (h : AllDig l) :
    l.takeWhile (fun x => decide (x ≠ 46)) = l ∧ l.dropWhile (fun x => decide (x ≠ 46)) = [] := by
  induction l with
  | nil => simp
  | cons c l ih =>
    have hc := h c (List.mem_cons_self)
    have hc' : c ≠ 46 := by omega
    have ih' := ih (fun x hx => h x (List.mem_cons_of_mem _ hx))
    simp only [List.takeWhile_cons, List.dropWhile_cons, hc', ne_eq,
      not_false_eq_true, decide_true, if_true, ih'.1, ih'.2, and_self]

theorem parse_int (l : List Nat) (hne : l ≠ []) (h : AllDig l) :
    parseF64 l = some (decToF64 (digitsVal l) 0) := by
  unfold parseF64
  simp only [(takeWhile_allDig' l h).1, (takeWhile_allDig' l h).2]
  rw [if_pos ⟨hne, (allDigits_iff l).2 h⟩]

theorem parse_frac (ip fp : List Nat) (hi : ip ≠ []) (hf : fp ≠ []) (hid : AllDig ip) (hfd : AllDig fp) :
    parseF64 (ip ++ 46 :: fp) = some (decToF64 (digitsVal (ip ++ fp)) (-(fp.length : Int))) := by
  unfold parseF64
  simp only [(takeWhile_allDig ip hid fp).1, (takeWhile_allDig ip hid fp).2]
  rw [if_pos ⟨hi, hf, (allDigits_iff ip).2 hid, (allDigits_iff fp).2 hfd⟩]

theorem parse_positional (D : Nat) (e : Int) : parseF64 (positional D e) = some (decToF64 D e) := by
  have hne := natText_ne_nil D
  have hd := natText_allDig D
  have hv := digitsVal_natText D
  unfold positional
  simp only
  generalize natText D = ds at *
  split
  · rename_i he
    have hne' : ds ++ List.replicate e.toNat 48 ≠ [] := by
      intro h; exact hne (List.append_eq_nil_iff.1 h).1
    rw [parse_int _ hne' (hd.append (AllDig.replicate _)), digitsVal_append, digitsVal_replicate,
      List.length_replicate, hv, Nat.add_zero]
    have h := decToF64_scale D e.toNat e
    have e0 : e - (e.toNat : Int) = 0 := by omega
    rw [e0] at h
    rw [h]
  · rename_i he
    have hf : 0 < (-e).toNat := by omega
    have hfe : -(((-e).toNat : Nat) : Int) = e := by omega
    generalize (-e).toNat = f at *
    have hlen : 0 < ds.length := List.length_pos_iff.2 hne
    split
    · rename_i hlt
      have h1 : ds.take (ds.length - f) ≠ [] := by
        intro h
        have := congrArg List.length h
        rw [List.length_take, List.length_nil] at this
        omega
      have h2 : ds.drop (ds.length - f) ≠ [] := by
        intro h
        have := congrArg List.length h
        rw [List.length_drop, List.length_nil] at this
        omega
      have hl : (ds.drop (ds.length - f)).length = f := by
        rw [List.length_drop]; omega
      simp only [List.append_assoc, List.cons_append, List.nil_append]
      rw [parse_frac _ _ h1 h2 (hd.take _) (hd.drop _), List.take_append_drop, hv, hl, hfe]
    · rename_i hge
      show parseF64 ([48] ++ 46 :: (List.replicate (f - ds.length) 48 ++ ds)) = _
      have h2 : List.replicate (f - ds.length) 48 ++ ds ≠ [] := by
        intro h; exact hne (List.append_eq_nil_iff.1 h).2
      have h48 : AllDig [48] := by
        intro c hc
        have := List.eq_of_mem_singleton hc
        omega
      have hl : (List.replicate (f - ds.length) 48 ++ ds).length = f := by
        rw [List.length_append, List.length_replicate]; omega
      rw [parse_frac _ _ (by simp) h2 h48 ((AllDig.replicate _).append hd), hl, hfe]
      have hval : digitsVal ([48] ++ (List.replicate (f - ds.length) 48 ++ ds)) = D := by
        have e1 : [48] ++ (List.replicate (f - ds.length) 48 ++ ds) =
            List.replicate (f - ds.length + 1) 48 ++ ds := by
          rw [List.replicate_succ]; rfl
        rw [e1, digitsVal_append, digitsVal_replicate, hv, Nat.zero_mul, Nat.zero_add]
      rw [hval]

/-! ## the round trip -/

theorem parse_zero : parseF64 [48] = some 0 := by
  have h48 : AllDig [48] := by
    intro c hc
    have := List.eq_of_mem_singleton hc
    omega
  have hv : digitsVal [48] = 0 := rfl
  rw [parse_int [48] (by simp) h48, hv, decToF64_zero]

theorem display_roundtrip (n : Nat) (hn : ∃ m j, m < 2 ^ 53 ∧ n = m * 2 ^ j) :
    parseF64 (f64Display n) = some n := by
  unfold f64Display
  split
  · rename_i h0; rw [h0]; exact parse_zero
  · have h := shortestDec_sound n hn
    rcases hs : shortestDec n with ⟨D, e⟩
    rw [hs] at h
    simp only
    rw [parse_positional, h]

end KT.Disp
