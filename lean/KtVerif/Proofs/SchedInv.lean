import KtVerif.Model.Sched
/-!
# Any-schedule invariant of the generic shared-reader system `GSys`
-/
namespace KT.Sch
open KT

structure Inv {σ : Type} (N : Nat) (eff : Nat → σ → σ) (sh0 : σ) (s : GSys σ) : Prop where
  next_le : s.next ≤ N
  cover : ∀ (n : Nat), n < s.next → n ∈ s.order ∨ ∃ w : Nat, s.ws[w]? = some (WState.holding n)
  nodup : s.order.Nodup
  order_lt : ∀ (n : Nat), n ∈ s.order → n < s.next
  held_lt : ∀ (w n : Nat), s.ws[w]? = some (WState.holding n) → n < s.next
  held_notin : ∀ (w n : Nat), s.ws[w]? = some (WState.holding n) → n ∉ s.order
  held_uniq : ∀ (w w' n : Nat), s.ws[w]? = some (WState.holding n) →
      s.ws[w']? = some (WState.holding n) → w = w'
  done_all : ∀ (w : Nat), s.ws[w]? = some WState.done → s.next = N
  sh_eq : s.sh = s.order.foldl (fun a n => eff n a) sh0

theorem inv_init {σ : Type} (N T : Nat) (eff : Nat → σ → σ) (sh0 : σ) :
    Inv N eff sh0 (GSys.init T sh0) := by
  refine ⟨Nat.zero_le _, ?_, ?_, ?_, ?_, ?_, ?_, ?_, ?_⟩
  · intro n hn; simp [GSys.init] at hn
  · simp [GSys.init]
  · intro n hn; simp [GSys.init] at hn
  · intro w n h; simp [GSys.init, List.getElem?_replicate] at h
  · intro w n h; simp [GSys.init, List.getElem?_replicate] at h
  · intro w w' n h; simp [GSys.init, List.getElem?_replicate] at h
  · intro w h; simp [GSys.init, List.getElem?_replicate] at h
  · simp [GSys.init]

/-- reading a worker slot after `set` -/
theorem get_set_cases {l : List WState} {w w' : Nat} {x y : WState}
    (h : (l.set w x)[w']? = some y) : (w = w' ∧ x = y) ∨ (w ≠ w' ∧ l[w']? = some y) := by
  simp only [List.getElem?_set] at h
  split at h
  · split at h
    · left; exact ⟨‹_›, by cases h; rfl⟩
    · cases h
  · right; exact ⟨‹_›, h⟩

theorem get_set_ne {l : List WState} {w w' : Nat} {x y : WState}
    (hne : w ≠ w') (h : l[w']? = some y) : (l.set w x)[w']? = some y := by
  simp [hne, h]

theorem get_set_self {l : List WState} {w : Nat} {x y : WState}
    (h : l[w]? = some y) : (l.set w x)[w]? = some x := by
  have : w < l.length := (List.getElem?_eq_some_iff.mp h).1
  simp [this]

theorem inv_step {σ : Type} (N : Nat) (eff : Nat → σ → σ) (sh0 : σ) (s s' : GSys σ) (st : GStep)
    (h : Inv N eff sh0 s) (ha : GSys.apply N eff s st = some s') : Inv N eff sh0 s' := by
  cases st with
  | take w =>
    simp only [GSys.apply] at ha
    split at ha
    · rename_i hw
      split at ha
      · rename_i hlt
        cases ha
        refine ⟨by simp only; omega, ?_, h.nodup, ?_, ?_, ?_, ?_, ?_, h.sh_eq⟩
        · intro n hn
          simp only at hn ⊢
          by_cases hnn : n = s.next
          · right; exact ⟨w, by rw [hnn]; exact get_set_self hw⟩
          · rcases h.cover n (by omega) with h1 | ⟨w', hw'⟩
            · left; exact h1
            · right
              have hne : w ≠ w' := by
                intro e; subst e; rw [hw] at hw'; cases hw'
              exact ⟨w', get_set_ne hne hw'⟩
        · intro n hn
          have := h.order_lt n hn
          simp only; omega
        · intro w' n hh
          simp only at hh ⊢
          rcases get_set_cases hh with ⟨_, e⟩ | ⟨_, h2⟩
          · cases e; omega
          · have := h.held_lt w' n h2; omega
        · intro w' n hh
          simp only at hh ⊢
          rcases get_set_cases hh with ⟨_, e⟩ | ⟨_, h2⟩
          · cases e
            intro hin
            have := h.order_lt _ hin
            omega
          · exact h.held_notin w' n h2
        · intro w1 w2 n h1 h2
          simp only at h1 h2
          rcases get_set_cases h1 with ⟨e1, x1⟩ | ⟨_, y1⟩
          · rcases get_set_cases h2 with ⟨e2, _⟩ | ⟨_, y2⟩
            · omega
            · cases x1
              have := h.held_lt w2 _ y2
              omega
          · rcases get_set_cases h2 with ⟨e2, x2⟩ | ⟨_, y2⟩
            · cases x2
              have := h.held_lt w1 _ y1
              omega
            · exact h.held_uniq w1 w2 n y1 y2
        · intro w' hh
          simp only at hh ⊢
          rcases get_set_cases hh with ⟨_, e⟩ | ⟨_, h2⟩
          · cases e
          · have := h.done_all w' h2; omega
      · rename_i hge
        cases ha
        have hN : s.next = N := by have := h.next_le; omega
        refine ⟨h.next_le, ?_, h.nodup, h.order_lt, ?_, ?_, ?_, ?_, h.sh_eq⟩
        · intro n hn
          rcases h.cover n hn with h1 | ⟨w', hw'⟩
          · left; exact h1
          · right
            have hne : w ≠ w' := by
              intro e; subst e; rw [hw] at hw'; cases hw'
            exact ⟨w', get_set_ne hne hw'⟩
        · intro w' n hh
          rcases get_set_cases hh with ⟨_, e⟩ | ⟨_, h2⟩
          · cases e
          · exact h.held_lt w' n h2
        · intro w' n hh
          rcases get_set_cases hh with ⟨_, e⟩ | ⟨_, h2⟩
          · cases e
          · exact h.held_notin w' n h2
        · intro w1 w2 n h1 h2
          rcases get_set_cases h1 with ⟨_, x1⟩ | ⟨_, y1⟩
          · cases x1
          · rcases get_set_cases h2 with ⟨_, x2⟩ | ⟨_, y2⟩
            · cases x2
            · exact h.held_uniq w1 w2 n y1 y2
        · intro w' _; exact hN
    · cases ha
  | act w =>
    simp only [GSys.apply] at ha
    split at ha
    · rename_i n hw
      cases ha
      have hnlt : n < s.next := h.held_lt w n hw
      refine ⟨h.next_le, ?_, ?_, ?_, ?_, ?_, ?_, ?_, ?_⟩
      · intro n' hn'
        simp only at hn' ⊢
        by_cases e : n' = n
        · left; simp [e]
        · rcases h.cover n' hn' with h1 | ⟨w', hw'⟩
          · left; simp [h1]
          · right
            have hne : w ≠ w' := by
              intro e2; subst e2; rw [hw] at hw'; cases hw'; exact e rfl
            exact ⟨w', get_set_ne hne hw'⟩
      · simp only
        rw [List.nodup_append]
        refine ⟨h.nodup, by simp, ?_⟩
        intro a ha b hb
        simp at hb; subst hb
        intro e; subst e
        exact h.held_notin w _ hw ha
      · intro n' hn'
        simp only [List.mem_append, List.mem_singleton] at hn'
        rcases hn' with h1 | h1
        · exact h.order_lt n' h1
        · subst h1; exact hnlt
      · intro w' n' hh
        rcases get_set_cases hh with ⟨_, e⟩ | ⟨_, h2⟩
        · cases e
        · exact h.held_lt w' n' h2
      · intro w' n' hh
        rcases get_set_cases hh with ⟨_, e⟩ | ⟨hne, h2⟩
        · cases e
        · simp only [List.mem_append, List.mem_singleton, not_or]
          refine ⟨h.held_notin w' n' h2, ?_⟩
          intro e; subst e
          exact hne (h.held_uniq w w' _ hw h2)
      · intro w1 w2 n' h1 h2
        rcases get_set_cases h1 with ⟨_, x1⟩ | ⟨_, y1⟩
        · cases x1
        · rcases get_set_cases h2 with ⟨_, x2⟩ | ⟨_, y2⟩
          · cases x2
          · exact h.held_uniq w1 w2 n' y1 y2
      · intro w' hh
        rcases get_set_cases hh with ⟨_, e⟩ | ⟨_, h2⟩
        · cases e
        · exact h.done_all w' h2
      · simp only [List.foldl_append, List.foldl_cons, List.foldl_nil, h.sh_eq]
    · cases ha

theorem inv_run {σ : Type} (N : Nat) (eff : Nat → σ → σ) (sh0 : σ) (s s' : GSys σ)
    (sched : List GStep) (h : Inv N eff sh0 s) (hr : GSys.run N eff s sched = some s') :
    Inv N eff sh0 s' := by
  induction sched generalizing s with
  | nil => simp [GSys.run] at hr; subst hr; exact h
  | cons st rest ih =>
    simp only [GSys.run] at hr
    split at hr
    · rename_i s1 h1; exact ih s1 (inv_step N eff sh0 s s1 st h h1) hr
    · cases hr

theorem apply_ws_length {σ : Type} (N : Nat) (eff : Nat → σ → σ) (s s' : GSys σ) (st : GStep)
    (ha : GSys.apply N eff s st = some s') : s'.ws.length = s.ws.length := by
  cases st <;> simp only [GSys.apply] at ha <;> (split at ha) <;> (try split at ha) <;>
    (try cases ha) <;> simp

theorem run_ws_length {σ : Type} (N : Nat) (eff : Nat → σ → σ) (sched : List GStep)
    (s s' : GSys σ) (hr : GSys.run N eff s sched = some s') : s'.ws.length = s.ws.length := by
  induction sched generalizing s with
  | nil => simp [GSys.run] at hr; subst hr; rfl
  | cons st rest ih =>
    simp only [GSys.run] at hr
    split at hr
    · rename_i s1 h1; rw [ih s1 hr, apply_ws_length N eff s s1 st h1]
    · cases hr

/-- core statement: at a terminal state reached from `init`, the ghost order is a duplicate-free
    enumeration of `0 .. N-1` and the shared state is the fold of the effects in that order -/
theorem terminal_facts {σ : Type} (N T : Nat) (hT : 0 < T) (eff : Nat → σ → σ) (sh0 : σ)
    (sched : List GStep) (s' : GSys σ)
    (hr : GSys.run N eff (GSys.init T sh0) sched = some s') (ht : s'.terminal = true) :
    s'.order.Nodup ∧ (∀ n, n ∈ s'.order ↔ n < N) ∧
      s'.sh = s'.order.foldl (fun a n => eff n a) sh0 := by
  have hI := inv_run N eff sh0 _ _ sched (inv_init N T eff sh0) hr
  have hlen : s'.ws.length = T := by
    rw [run_ws_length N eff sched _ _ hr]; simp [GSys.init]
  have hterm : ∀ (w : Nat) (x : WState), s'.ws[w]? = some x → x = WState.done := by
    intro w x hx
    have hmem : x ∈ s'.ws := List.mem_of_getElem? hx
    simp only [GSys.terminal, List.all_eq_true] at ht
    have := ht x hmem
    simpa using this
  have h0 : s'.ws[0]? = some s'.ws[0] := List.getElem?_eq_getElem (by omega)
  have hdone : s'.ws[0]? = some WState.done := by
    have := hterm 0 _ h0; rw [h0, this]
  have hN : s'.next = N := hI.done_all 0 hdone
  refine ⟨hI.nodup, ?_, hI.sh_eq⟩
  intro n
  constructor
  · intro hn; have := hI.order_lt n hn; omega
  · intro hn
    rcases hI.cover n (by omega) with h1 | ⟨w, hw⟩
    · exact h1
    · have := hterm w _ hw; cases this

theorem perm_range_of {l : List Nat} {N : Nat} (hnd : l.Nodup) (hm : ∀ n, n ∈ l ↔ n < N) :
    l.Perm (List.range N) := by
  rw [List.perm_ext_iff_of_nodup hnd List.nodup_range]
  intro a; rw [hm a, List.mem_range]

end KT.Sch
