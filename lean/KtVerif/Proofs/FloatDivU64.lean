import KtVerif.Proofs.FloatDiv
import KtVerif.Proofs.E2EFloat
import KtVerif.Proofs.E2E2Float
/-!
# Coverage bin for every 64-bit bin size

`covBinF64_eq_div` (in `FloatDiv.lean`) covers bin sizes below 2^32.  Beyond that the count (`< 2^32`) is smaller than
the bin size: the exact quotient is at most `(2^32 - 1) / 2^32`, which is a double, so by monotonicity of rounding the
computed quotient is at most that double, strictly below 1.0, and its floor is `0 = c / b`.
(`x as f64` is monotone for any magnitude, so nothing is needed about how `b` itself rounds.)
`f64One = 2^1074 = 2^32 · 2^1042` stays symbolic.
-/
namespace KT.Fl
open KT

attribute [local irreducible] f64One

theorem f64One_split32 : 2 ^ 32 * 2 ^ 1042 = f64One := by
  rw [f64One_eq]; exact two_pow_split 32 1042 1074 (by decide)

/-- a count below 2^32 divided by anything from 2^32 on is strictly below 1.0 in binary64 -/
theorem f64Div_lt_one_of_big (c b : Nat) (hc : c < 2 ^ 32) (hb : 2 ^ 32 ≤ b) :
    f64Div (f64OfNat c) (f64OfNat b) < f64One := by
  have hF := f64One_pos
  have hc53 : c < 2 ^ 53 := Nat.lt_of_lt_of_le hc (Nat.pow_le_pow_right (by decide) (by decide))
  have hy : 2 ^ 32 * f64One ≤ f64OfNat b := by
    have h := E2E.f64OfNat_mono (2 ^ 32) b hb
    rwa [f64OfNat_exact (2 ^ 32) (Nat.pow_lt_pow_right (by decide) (by decide))] at h
  rw [f64OfNat_exact c hc53]
  generalize f64OfNat b = y at hy ⊢
  have hypos : 0 < y := Nat.lt_of_lt_of_le (Nat.mul_pos (Nat.two_pow_pos 32) hF) hy
  have hM53 : 2 ^ 32 - 1 < 2 ^ 53 :=
    Nat.lt_of_le_of_lt (Nat.sub_le _ _) (Nat.pow_lt_pow_right (by decide) (by decide))
  have hex := roundRat_exact (2 ^ 32 - 1) 1042 y hypos hM53
  have hsplit := f64One_split32
  have hGpos : 0 < (2 : Nat) ^ 1042 := Nat.two_pow_pos _
  have hc' : c ≤ 2 ^ 32 - 1 := Nat.le_sub_one_of_lt hc
  have hMlt : 2 ^ 32 - 1 < 2 ^ 32 := Nat.sub_lt (Nat.two_pow_pos 32) (by decide)
  generalize (2 : Nat) ^ 1042 = G at hex hsplit hGpos
  generalize (2 : Nat) ^ 32 - 1 = M at hex hc' hMlt
  generalize (2 : Nat) ^ 32 = T at hy hsplit hMlt
  have hnum : c * f64One * f64One ≤ M * G * y := by
    calc c * f64One * f64One ≤ M * f64One * f64One :=
          Nat.mul_le_mul_right _ (Nat.mul_le_mul_right _ hc')
      _ = M * G * (T * f64One) := by rw [← hsplit]; ring
      _ ≤ M * G * y := Nat.mul_le_mul_left _ hy
  have hm := E2E2.roundRat_mono _ _ y hypos hnum
  rw [hex] at hm
  show roundRat (c * f64One * f64One) y < f64One
  calc roundRat (c * f64One * f64One) y ≤ M * G := hm
    _ < T * G := Nat.mul_lt_mul_of_pos_right hMlt hGpos
    _ = f64One := hsplit

/-- any bin size up to 2^64: beyond the u32 range the quotient is below 1 and the floor is 0 = c / b -/
theorem covBinF64_eq_div_u64 (c b : Nat) (hc : c < 2 ^ 32) (hb1 : 1 ≤ b) (hb : b < 2 ^ 64) : covBinF64 c b = c / b := by
  rcases Nat.lt_or_ge b (2 ^ 32) with hlt | hge
  · exact covBinF64_eq_div c b hc hb1 hlt
  · have _ := hb
    rw [Nat.div_eq_of_lt (Nat.lt_of_lt_of_le hc hge)]
    unfold covBinF64 f64Floor
    exact Nat.div_eq_of_lt (f64Div_lt_one_of_big c b hc hge)

end KT.Fl
