import KtVerif.Model.MinOut
import KtVerif.Props.C02
import KtVerif.Props.C09
/-!
# Helpers for C10: the effective window, the single-window case, run texts
-/
namespace KT.MO
open KT

theorem effW_ge (w m : Nat) (seq : List Nat) (hw : w = 0 ∨ m ≤ w) : m ≤ effW w m seq := by
  unfold effW
  split
  · exact Nat.le_max_right _ _
  · omega

theorem effW_zero' (m : Nat) (seq : List Nat) (h : m ≤ seq.length) : effW 0 m seq = seq.length := by
  simp only [effW, if_true]
  exact Nat.max_eq_left h

theorem effW_zero_short (m : Nat) (seq : List Nat) (h : seq.length < m) : effW 0 m seq = m := by
  simp only [effW, if_true]
  exact Nat.max_eq_right (by omega)

theorem window_full (seq : List Nat) : window seq.length seq 0 = seq := by
  simp [window]

theorem winValid_full (seq : List Nat) : winValid seq.length seq 0 = seq.all clean := by
  simp [winValid, window_full]

theorem winMins_full (m : Nat) (seq : List Nat) :
    winMins seq.length m seq = [winMin seq.length m seq 0] := by
  have h : seq.length + 1 - seq.length = 1 := by omega
  simp [winMins, h, List.range_succ]

theorem specRuns_full_clean (m : Nat) (seq : List Nat) (hpos : 1 ≤ seq.length)
    (hclean : seq.all clean = true) :
    specRuns seq.length m seq = [(listMin (mmersOfWindow seq.length m seq 0), 0, seq.length)] := by
  have hv : winMin seq.length m seq 0 = some (listMin (mmersOfWindow seq.length m seq 0)) := by
    simp only [winMin, winValid_full, hclean, if_true]
  have he : 0 + 1 + seq.length - 1 = seq.length := by omega
  rw [specRuns, winMins_full, hv]
  simp only [groupRuns, he]

theorem specRuns_full_amb (m : Nat) (seq : List Nat) (hamb : seq.all clean = false) :
    specRuns seq.length m seq = [] := by
  have hv : winMin seq.length m seq 0 = none := by
    simp [winMin, winValid_full, hamb]
  rw [specRuns, winMins_full, hv]
  simp only [groupRuns]

theorem runText_eq (m : Nat) (r : Run) :
    runText m r = decodeSpec m r.1 ++ [58] ++ natText r.2.1 ++ [45] ++ natText r.2.2 := by
  rw [runText, numericToKmer_eq_spec]

end KT.MO
