import KtVerif.Proofs.MinimiserWindow
/-!
# Specification-side facts about `specRuns`: provenance and bound of the run values
-/
namespace KT.Min
open KT

/-- every emitted value is the value of the open run or occurs in the list -/
theorem groupRuns_val (w : Nat) (l : List (Option Nat)) (i : Nat) (cur : Option (Nat × Nat)) :
    ∀ r ∈ groupRuns w i cur l, (∃ st, cur = some (r.1, st)) ∨ some r.1 ∈ l := by
  induction l generalizing i cur with
  | nil =>
    intro r hr
    cases cur with
    | none => simp [groupRuns] at hr
    | some c =>
      obtain ⟨v, st⟩ := c
      simp only [groupRuns, List.mem_singleton] at hr
      left; exact ⟨st, by rw [hr]⟩
  | cons x xs ih =>
    intro r hr
    cases cur with
    | none =>
      cases x with
      | none =>
        simp only [groupRuns] at hr
        rcases ih _ _ r hr with ⟨st, h⟩ | h
        · cases h
        · right; exact List.mem_cons_of_mem _ h
      | some x =>
        simp only [groupRuns] at hr
        rcases ih _ _ r hr with ⟨st, h⟩ | h
        · right
          simp only [Option.some.injEq, Prod.mk.injEq] at h
          rw [h.1]; exact List.mem_cons_self
        · right; exact List.mem_cons_of_mem _ h
    | some c =>
      obtain ⟨v, st⟩ := c
      cases x with
      | none =>
        simp only [groupRuns, List.mem_cons] at hr
        rcases hr with hr | hr
        · left; exact ⟨st, by rw [hr]⟩
        · rcases ih _ _ r hr with ⟨st', h⟩ | h
          · cases h
          · right; exact List.mem_cons_of_mem _ h
      | some x =>
        simp only [groupRuns] at hr
        by_cases hx : x = v
        · rw [if_pos hx] at hr
          rcases ih _ _ r hr with ⟨st', h⟩ | h
          · left; exact ⟨st', h⟩
          · right; exact List.mem_cons_of_mem _ h
        · rw [if_neg hx, List.mem_cons] at hr
          rcases hr with hr | hr
          · left; exact ⟨st, by rw [hr]⟩
          · rcases ih _ _ r hr with ⟨st', h⟩ | h
            · right
              simp only [Option.some.injEq, Prod.mk.injEq] at h
              rw [h.1]; exact List.mem_cons_self
            · right; exact List.mem_cons_of_mem _ h

/-- a window minimiser is the canonical code of a clean m-mer -/
theorem winMin_lt {w m : Nat} (hmw : m ≤ w) {s : List Nat} {i x : Nat}
    (h : winMin w m s i = some x) : x < 4 ^ m := by
  unfold winMin at h
  by_cases hv : winValid w s i = true
  · rw [if_pos hv] at h
    simp only [Option.some.injEq] at h
    have hne : mmersOfWindow w m s i ≠ [] := by
      simp [mmersOfWindow]
    have hmem := listMin_mem _ hne
    rw [h] at hmem
    simp only [mmersOfWindow, List.mem_map, List.mem_range] at hmem
    obtain ⟨j, hj, rfl⟩ := hmem
    simp only [winValid, Bool.and_eq_true, decide_eq_true_eq, List.all_eq_true] at hv
    exact canonAt_lt (fun b hb => hv.2 b (mem_window_sub (by omega) hb))
  · rw [if_neg hv] at h; cases h

theorem specRuns_val_lt' {w m : Nat} (hmw : m ≤ w) (s : List Nat) :
    ∀ r ∈ specRuns w m s, r.1 < 4 ^ m := by
  intro r hr
  rcases groupRuns_val w _ 0 none r hr with ⟨st, h⟩ | h
  · cases h
  · simp only [winMins, List.mem_map, List.mem_range] at h
    obtain ⟨i, _, hi⟩ := h
    exact winMin_lt hmw hi

end KT.Min
