import KtVerif.Proofs.MinimiserWindow
/-!
# Simulation: `MG.run` computes the naive run machine
-/
namespace KT.Min
open KT

/-- the open run of a model state -/
def cur (st : MG) : Cur := if st.active = U64MAX then none else some (st.active, st.start)

/-- invariant after `n` bytes whose maximal clean suffix is `q` -/
structure InvQ (w m n : Nat) (q : List Nat) (st : MG) : Prop where
  hF : st.mValF = regF m q
  hR : st.mValR = regR m q
  hL : st.mValL = min q.length (m - 1)
  hB : st.buff = lastN (w - m + 1) (codes m q)
  short : q.length < w → st.active = U64MAX ∧ st.buffPos = 0 ∧ st.start = n - q.length
  full : w ≤ q.length → st.active ≠ U64MAX ∧ IsLeftMin st.buff st.active st.buffPos

/-- what one model step has to achieve -/
def Good (w m n : Nat) (q' : List Nat) (st : MG) (res : MG × Option Run) : Prop :=
  InvQ w m (n + 1) q' res.1 ∧ nstep w n (cur st) (pmQ w m q') = (cur res.1, res.2)

theorem InvQ.buff_length {w m n : Nat} {q : List Nat} {st : MG} (h : InvQ w m n q st) :
    st.buff.length = min (w - m + 1) (q.length + 1 - m) := by
  rw [h.hB, lastN_length, codes_length]

/-! ## the step function with its branches made explicit -/

theorem firstScan_noop (cap : Nat) (s : MG) (h : s.active ≠ U64MAX ∨ s.buff.length ≠ cap) :
    MG.firstScan cap s = s := by
  unfold MG.firstScan
  rw [if_neg]
  intro hc
  rcases h with h | h
  · exact h hc.1
  · exact h hc.2

theorem firstScan_noop_active (cap : Nat) {f r l a s bp : Nat} {bf : List Nat} (h : a ≠ U64MAX) :
    MG.firstScan cap ⟨f, r, l, a, s, bf, bp⟩ = ⟨f, r, l, a, s, bf, bp⟩ :=
  firstScan_noop cap _ (Or.inl h)

theorem firstScan_fire (cap : Nat) (s : MG) (h1 : s.active = U64MAX) (h2 : s.buff.length = cap) :
    MG.firstScan cap s =
      { s with active := (scanMin s.active s.buffPos 0 s.buff).1,
               buffPos := (scanMin s.active s.buffPos 0 s.buff).2 } := by
  unfold MG.firstScan
  rw [if_pos ⟨h1, h2⟩]

/-- the clean-byte branch of `MG.step`, with the updated registers as parameters -/
def stepC (w m pos : Nat) (s : MG) (f r : Nat) : MG × Option Run :=
  if s.mValL + 1 < m then (⟨f, r, s.mValL + 1, s.active, s.start, s.buff, s.buffPos⟩, none)
  else
    if s.buff.length = w - m + 1 then
      if s.buffPos = 0 then
        if (scanMin U64MAX s.buffPos 0 (s.buff.tail ++ [min f r])).1 ≠ s.active then
          (⟨f, r, s.mValL + 1 - 1, (scanMin U64MAX s.buffPos 0 (s.buff.tail ++ [min f r])).1,
            pos - w + 1, s.buff.tail ++ [min f r],
            (scanMin U64MAX s.buffPos 0 (s.buff.tail ++ [min f r])).2⟩,
           some (s.active, s.start, pos))
        else
          (MG.firstScan (w - m + 1)
            ⟨f, r, s.mValL + 1 - 1, s.active, s.start, s.buff.tail ++ [min f r],
             (scanMin U64MAX s.buffPos 0 (s.buff.tail ++ [min f r])).2⟩, none)
      else if min f r < s.active then
        (⟨f, r, s.mValL + 1 - 1, min f r, pos - w + 1, s.buff.tail ++ [min f r],
          (s.buff.tail ++ [min f r]).length - 1⟩, some (s.active, s.start, pos))
      else
        (MG.firstScan (w - m + 1)
          ⟨f, r, s.mValL + 1 - 1, s.active, s.start, s.buff.tail ++ [min f r], s.buffPos - 1⟩, none)
    else
      (MG.firstScan (w - m + 1)
        ⟨f, r, s.mValL + 1 - 1, s.active, s.start, s.buff ++ [min f r], s.buffPos⟩, none)

theorem step_clean_eq (w m pos : Nat) (s : MG) (b : Nat) (hb : nt4 b < 4) :
    MG.step w m pos s b =
      stepC w m pos s ((shl64 s.mValF 2 ||| nt4 b) &&& maskOf m)
        ((s.mValR >>> 2) ||| shl64 (nt4 b ^^^ 3) (shiftOf m)) := by
  unfold MG.step stepC
  simp only [hb, ↓reduceIte]

theorem step_amb_eq (w m pos : Nat) (s : MG) (b : Nat) (hb : ¬ nt4 b < 4) :
    MG.step w m pos s b =
      (⟨0, 0, 0, U64MAX, pos + 1, [], 0⟩,
       if s.buff.length = w - m + 1 then some (s.active, s.start, pos) else none) := by
  unfold MG.step
  simp only [hb, ↓reduceIte]


/-! ## the branches of one step -/

theorem cur_of_none {st : MG} (h : st.active = U64MAX) : cur st = none := by
  simp [cur, h]

theorem cur_of_some {st : MG} (h : st.active ≠ U64MAX) : cur st = some (st.active, st.start) := by
  simp [cur, h]

/-- ambiguous byte -/
theorem good_amb {w m n : Nat} {q : List Nat} {st : MG} (hm1 : 1 ≤ m) (hmw : m ≤ w)
    (h : InvQ w m n q st) (b : Nat) (hb : ¬ nt4 b < 4) :
    Good w m n [] st (MG.step w m n st b) := by
  rw [step_amb_eq w m n st b hb]
  have hcodes : codes m ([] : List Nat) = [] := codes_of_short (by simp; omega)
  have hpm : pmQ w m [] = none := by
    unfold pmQ; rw [if_neg (by simp; omega)]
  refine ⟨⟨rfl, rfl, ?_, ?_, ?_, ?_⟩, ?_⟩
  · show 0 = min ([] : List Nat).length (m - 1); simp
  · show [] = lastN _ (codes m []); rw [hcodes]; simp [lastN]
  · intro _; exact ⟨rfl, rfl, by simp⟩
  · intro hw; simp at hw; omega
  · rw [hpm]
    by_cases hc : w ≤ q.length
    · obtain ⟨ha, _⟩ := h.full hc
      have hbl : st.buff.length = w - m + 1 := by rw [h.buff_length]; omega
      rw [cur_of_some ha, if_pos hbl]
      simp [nstep, cur]
    · obtain ⟨ha, _, _⟩ := h.short (by omega)
      have hbl : st.buff.length ≠ w - m + 1 := by rw [h.buff_length]; omega
      rw [cur_of_none ha, if_neg hbl]
      simp [nstep, cur]

theorem codes_step {m : Nat} {q : List Nat} {b : Nat} (hm1 : 1 ≤ m)
    (hq' : ∀ x ∈ q ++ [b], clean x = true) (hc : m ≤ q.length + 1) :
    codes m (q ++ [b]) = codes m q ++ [min (regF m (q ++ [b])) (regR m (q ++ [b]))] := by
  rw [codes_snoc q b hc, min_regs_eq hm1 hq' (by simp; omega)]

/-- how a step that ends with a full window is shown to be good -/
theorem good_of_full {w m n : Nat} {q' : List Nat} {st : MG} {o : Option Run}
    {f r l a s bp : Nat} {bf : List Nat}
    (hw : w ≤ q'.length)
    (hF : f = regF m q') (hR : r = regR m q')
    (hL : l = min q'.length (m - 1))
    (hB : bf = lastN (w - m + 1) (codes m q'))
    (ha : a ≠ U64MAX) (hlm : IsLeftMin bf a bp)
    (hn : nstep w n (cur st) (some a) = (some (a, s), o)) :
    Good w m n q' st (⟨f, r, l, a, s, bf, bp⟩, o) := by
  refine ⟨⟨hF, hR, hL, hB, fun h => by omega, fun _ => ⟨ha, hlm⟩⟩, ?_⟩
  have : pmQ w m q' = some a := by
    unfold pmQ; rw [if_pos hw, ← hB, hlm.listMin_eq]
  rw [this, hn]
  simp [cur, ha]

/-- clean byte, fewer than `m` clean bytes so far -/
theorem good_short {w m n : Nat} {q : List Nat} {st : MG} {b : Nat} (hmw : m ≤ w)
    (h : InvQ w m n q st) (f r : Nat) (hf : f = regF m (q ++ [b])) (hr : r = regR m (q ++ [b]))
    (hl : st.mValL + 1 < m) :
    Good w m n (q ++ [b]) st (stepC w m n st f r) := by
  have hL := h.hL
  have hc : q.length + 1 < m := by omega
  have e : stepC w m n st f r
      = (⟨f, r, st.mValL + 1, st.active, st.start, st.buff, st.buffPos⟩, none) := by
    unfold stepC; rw [if_pos hl]
  rw [e]
  obtain ⟨ha, hbp, hst⟩ := h.short (by omega)
  refine ⟨⟨hf, hr, ?_, ?_, ?_, ?_⟩, ?_⟩
  · show st.mValL + 1 = min (q ++ [b]).length (m - 1)
    simp only [List.length_append, List.length_cons, List.length_nil]; omega
  · show st.buff = _
    rw [h.hB, codes_of_short (by omega), codes_of_short (by simp; omega)]
  · intro _
    refine ⟨ha, hbp, ?_⟩
    show st.start = _
    simp only [List.length_append, List.length_cons, List.length_nil]; omega
  · intro hw; simp at hw; omega
  · have : pmQ w m (q ++ [b]) = none := by
      unfold pmQ; rw [if_neg (by simp; omega)]
    rw [this, cur_of_none ha]
    simp [nstep, cur, ha]


theorem IsLeftMin.mem {l : List Nat} {v i : Nat} (h : IsLeftMin l v i) : v ∈ l :=
  List.mem_of_getElem? h.at_i

theorem buff_lt_max {w m : Nat} {q' : List Nat} (hm : m ≤ 31) (hq' : ∀ x ∈ q', clean x = true)
    {l : List Nat} (hl : l = lastN (w - m + 1) (codes m q')) : ∀ x ∈ l, x < U64MAX := by
  intro x hx
  rw [hl] at hx
  have := codes_lt hq' x (mem_lastN hx)
  have := pow_lt_U64MAX hm
  omega

/-- clean byte, at least `m` clean bytes, the ring buffer is not yet full -/
theorem good_fill {w m n : Nat} {q : List Nat} {st : MG} {b : Nat}
    (hm1 : 1 ≤ m) (hmw : m ≤ w) (hm : m ≤ 31) (h : InvQ w m n q st) (hqn : q.length ≤ n)
    (hq' : ∀ x ∈ q ++ [b], clean x = true)
    (f r : Nat) (hf : f = regF m (q ++ [b])) (hr : r = regR m (q ++ [b]))
    (hl : ¬ st.mValL + 1 < m) (hbl : st.buff.length ≠ w - m + 1) :
    Good w m n (q ++ [b]) st (stepC w m n st f r) := by
  have hL := h.hL
  have hc : m ≤ q.length + 1 := by omega
  have hlen := h.buff_length
  have hcw : q.length < w := by omega
  obtain ⟨ha, hbp, hst⟩ := h.short hcw
  have hcodes := codes_step hm1 hq' hc
  rw [← hf, ← hr] at hcodes
  have e : stepC w m n st f r
      = (MG.firstScan (w - m + 1)
          ⟨f, r, st.mValL + 1 - 1, st.active, st.start, st.buff ++ [min f r], st.buffPos⟩, none) := by
    unfold stepC; rw [if_neg hl, if_neg hbl]
  rw [e]
  have hbuff : st.buff ++ [min f r] = lastN (w - m + 1) (codes m (q ++ [b])) := by
    rw [hcodes, h.hB, lastN_of_le (by rw [codes_length]; omega),
      lastN_snoc_short _ (by rw [codes_length]; omega)]
  have hLnew : st.mValL + 1 - 1 = min (q ++ [b]).length (m - 1) := by
    simp only [List.length_append, List.length_cons, List.length_nil]; omega
  have hql : (q ++ [b]).length = q.length + 1 := by simp
  by_cases hcw1 : q.length + 1 < w
  · rw [firstScan_noop _ _ (Or.inr (by
      show (st.buff ++ [min f r]).length ≠ _
      simp only [List.length_append, List.length_cons, List.length_nil]; omega))]
    refine ⟨⟨hf, hr, hLnew, hbuff, ?_, ?_⟩, ?_⟩
    · intro _
      refine ⟨ha, hbp, ?_⟩
      show st.start = _
      rw [hql]; omega
    · intro hw; rw [hql] at hw; omega
    · have : pmQ w m (q ++ [b]) = none := by
        unfold pmQ; rw [if_neg (by rw [hql]; omega)]
      rw [this, cur_of_none ha]
      simp [nstep, cur, ha]
  · have hbl' : (st.buff ++ [min f r]).length = w - m + 1 := by
      simp only [List.length_append, List.length_cons, List.length_nil]; omega
    rw [firstScan_fire (w - m + 1)
      (⟨f, r, st.mValL + 1 - 1, st.active, st.start, st.buff ++ [min f r], st.buffPos⟩ : MG) ha hbl']
    have hne : st.buff ++ [min f r] ≠ [] := by simp
    have hbig : ∀ x ∈ st.buff ++ [min f r], x < st.active := by
      rw [ha]; exact buff_lt_max hm hq' hbuff
    have hlm := scanMin_leftMin (st.buff ++ [min f r]) st.active st.buffPos hne hbig
    apply good_of_full (by rw [hql]; omega) hf hr hLnew hbuff
    · have := buff_lt_max hm hq' hbuff _ hlm.mem
      exact Nat.ne_of_lt this
    · exact hlm
    · rw [cur_of_none ha]
      simp only [nstep]
      show (some (_, n + 1 - w), none) = (some (_, st.start), none)
      rw [hst]
      have : n + 1 - w = n - q.length := by omega
      rw [this]


/-- clean byte, the ring buffer is full (a window was already complete) -/
theorem good_slide {w m n : Nat} {q : List Nat} {st : MG} {b : Nat}
    (hm1 : 1 ≤ m) (hmw : m ≤ w) (hm : m ≤ 31) (h : InvQ w m n q st) (hqn : q.length ≤ n)
    (hq' : ∀ x ∈ q ++ [b], clean x = true)
    (f r : Nat) (hf : f = regF m (q ++ [b])) (hr : r = regR m (q ++ [b]))
    (hl : ¬ st.mValL + 1 < m) (hbl : st.buff.length = w - m + 1) :
    Good w m n (q ++ [b]) st (stepC w m n st f r) := by
  have hL := h.hL
  have hc : m ≤ q.length + 1 := by omega
  have hlen := h.buff_length
  have hcw : w ≤ q.length := by omega
  obtain ⟨ha, hlm⟩ := h.full hcw
  have hcodes := codes_step hm1 hq' hc
  rw [← hf, ← hr] at hcodes
  have hbuff : st.buff.tail ++ [min f r] = lastN (w - m + 1) (codes m (q ++ [b])) := by
    rw [hcodes, h.hB, lastN_snoc_full _ (by omega) (by rw [codes_length]; omega)]
  have hLnew : st.mValL + 1 - 1 = min (q ++ [b]).length (m - 1) := by
    simp only [List.length_append, List.length_cons, List.length_nil]; omega
  have hql : (q ++ [b]).length = q.length + 1 := by simp
  have hwq : w ≤ (q ++ [b]).length := by rw [hql]; omega
  have hmax := buff_lt_max hm hq' hbuff
  have hcur := cur_of_some ha
  by_cases hbp0 : st.buffPos = 0
  · have hne : st.buff.tail ++ [min f r] ≠ [] := by simp
    have hsc := scanMin_leftMin (st.buff.tail ++ [min f r]) U64MAX st.buffPos hne hmax
    by_cases hneq : (scanMin U64MAX st.buffPos 0 (st.buff.tail ++ [min f r])).1 ≠ st.active
    · have e : stepC w m n st f r
          = (⟨f, r, st.mValL + 1 - 1, (scanMin U64MAX st.buffPos 0 (st.buff.tail ++ [min f r])).1,
              n - w + 1, st.buff.tail ++ [min f r],
              (scanMin U64MAX st.buffPos 0 (st.buff.tail ++ [min f r])).2⟩,
             some (st.active, st.start, n)) := by
        unfold stepC; rw [if_neg hl, if_pos hbl, if_pos hbp0, if_pos hneq]
      rw [e]
      apply good_of_full hwq hf hr hLnew hbuff (Nat.ne_of_lt (hmax _ hsc.mem)) hsc
      rw [hcur]
      simp only [nstep]
      rw [if_neg hneq]
      have : n + 1 - w = n - w + 1 := by omega
      rw [this]
    · have heq : (scanMin U64MAX st.buffPos 0 (st.buff.tail ++ [min f r])).1 = st.active :=
        Classical.not_not.1 hneq
      have e : stepC w m n st f r
          = (MG.firstScan (w - m + 1)
              ⟨f, r, st.mValL + 1 - 1, st.active, st.start, st.buff.tail ++ [min f r],
               (scanMin U64MAX st.buffPos 0 (st.buff.tail ++ [min f r])).2⟩, none) := by
        unfold stepC; rw [if_neg hl, if_pos hbl, if_pos hbp0, if_neg hneq]
      rw [e, firstScan_noop_active _ ha]
      rw [heq] at hsc
      apply good_of_full hwq hf hr hLnew hbuff ha hsc
      rw [hcur]
      simp [nstep]
  · by_cases hlt : min f r < st.active
    · have e : stepC w m n st f r
          = (⟨f, r, st.mValL + 1 - 1, min f r, n - w + 1, st.buff.tail ++ [min f r],
              (st.buff.tail ++ [min f r]).length - 1⟩, some (st.active, st.start, n)) := by
        unfold stepC; rw [if_neg hl, if_pos hbl, if_neg hbp0, if_pos hlt]
      rw [e]
      have hnew := slide_new hlm hlt
      have hlen' : (st.buff.tail ++ [min f r]).length - 1 = st.buff.length - 1 := by
        simp only [List.length_append, List.length_tail, List.length_cons, List.length_nil]; omega
      rw [← hlen'] at hnew
      apply good_of_full hwq hf hr hLnew hbuff (Nat.ne_of_lt (hmax _ hnew.mem)) hnew
      rw [hcur]
      simp only [nstep]
      rw [if_neg (by omega)]
      have : n + 1 - w = n - w + 1 := by omega
      rw [this]
    · have e : stepC w m n st f r
          = (MG.firstScan (w - m + 1)
              ⟨f, r, st.mValL + 1 - 1, st.active, st.start, st.buff.tail ++ [min f r],
               st.buffPos - 1⟩, none) := by
        unfold stepC; rw [if_neg hl, if_pos hbl, if_neg hbp0, if_neg hlt]
      rw [e, firstScan_noop_active _ ha]
      have hkeep := slide_keep hlm (by omega) (by omega : st.active ≤ min f r)
      apply good_of_full hwq hf hr hLnew hbuff ha hkeep
      rw [hcur]
      simp [nstep]


/-- clean byte: all branches together -/
theorem good_clean {w m n : Nat} {q : List Nat} {st : MG} {b : Nat}
    (hm1 : 1 ≤ m) (hmw : m ≤ w) (hm : m ≤ 31) (h : InvQ w m n q st) (hqn : q.length ≤ n)
    (hq : ∀ x ∈ q, clean x = true) (hb : nt4 b < 4) :
    Good w m n (q ++ [b]) st (MG.step w m n st b) := by
  have hbc : clean b = true := by simp [clean, hb]
  have hq' : ∀ x ∈ q ++ [b], clean x = true := by
    intro x hx
    rcases List.mem_append.1 hx with h1 | h1
    · exact hq x h1
    · simp only [List.mem_cons, List.not_mem_nil, or_false] at h1
      rw [h1]; exact hbc
  rw [step_clean_eq w m n st b hb]
  have hf : (shl64 st.mValF 2 ||| nt4 b) &&& maskOf m = regF m (q ++ [b]) := by
    rw [h.hF, fwd_update hm (regF_lt m q) hb, regF_snoc]
  have hr : (st.mValR >>> 2) ||| shl64 (nt4 b ^^^ 3) (shiftOf m) = regR m (q ++ [b]) := by
    rw [h.hR, rev_update hm1 hm (regR_lt hm1 q hq) hb, regR_snoc]
  by_cases hl : st.mValL + 1 < m
  · exact good_short hmw h _ _ hf hr hl
  · by_cases hbl : st.buff.length = w - m + 1
    · exact good_slide hm1 hmw hm h hqn hq' _ _ hf hr hl hbl
    · exact good_fill hm1 hmw hm h hqn hq' _ _ hf hr hl hbl

/-- one step of the model from the invariant for the consumed prefix `p` -/
theorem step_good {w m : Nat} (hm1 : 1 ≤ m) (hmw : m ≤ w) (hm : m ≤ 31) (p : List Nat) (st : MG)
    (h : InvQ w m p.length (cleanSuffix p) st) (b : Nat) :
    Good w m p.length (cleanSuffix (p ++ [b])) st (MG.step w m p.length st b) := by
  by_cases hb : nt4 b < 4
  · rw [cleanSuffix_snoc_clean p (by simp [clean, hb])]
    exact good_clean hm1 hmw hm h (cleanSuffix_length_le p) (cleanSuffix_clean p) hb
  · rw [cleanSuffix_snoc_amb p (by simp [clean, hb])]
    exact good_amb hm1 hmw h b hb

theorem inv_init (w m : Nat) (hm1 : 1 ≤ m) (hmw : m ≤ w) :
    InvQ w m ([] : List Nat).length (cleanSuffix []) MG.init := by
  rw [cleanSuffix_nil]
  refine ⟨rfl, rfl, ?_, ?_, ?_, ?_⟩
  · show 0 = min ([] : List Nat).length (m - 1); simp
  · show [] = lastN _ (codes m []); rw [codes_of_short (by simp; omega)]; simp [lastN]
  · intro _; exact ⟨rfl, rfl, rfl⟩
  · intro hw; simp at hw; omega

/-- layer (3): the model computes the naive machine -/
theorem run_eq_naive {w m : Nat} (hm1 : 1 ≤ m) (hmw : m ≤ w) (hm : m ≤ 31) (s : List Nat) :
    ∀ (rest p : List Nat) (st : MG), s = p ++ rest → InvQ w m p.length (cleanSuffix p) st →
      MG.run w m s.length p.length st rest
        = naive w s.length p.length (cur st)
            ((List.range' p.length rest.length).map (posMin w m s)) := by
  intro rest
  induction rest with
  | nil =>
    intro p st _ _
    simp only [MG.run, MG.finish, List.length_nil, List.range'_zero, List.map_nil, naive, cur]
    by_cases ha : st.active = U64MAX
    · simp [ha, nfinish]
    · simp [ha, nfinish]
  | cons b bs ih =>
    intro p st hs hinv
    obtain ⟨hinv', hn⟩ := step_good hm1 hmw hm p st hinv b
    have hpm : posMin w m s p.length = pmQ w m (cleanSuffix (p ++ [b])) := by
      rw [hs]; exact posMin_eq hmw p b bs
    have hlen : (p ++ [b]).length = p.length + 1 := by simp
    have ih' := ih (p ++ [b]) (MG.step w m p.length st b).1 (by rw [hs]; simp)
      (by rw [hlen]; exact hinv')
    rw [hlen] at ih'
    simp only [List.length_cons, List.range'_succ, List.map_cons, MG.run, naive]
    rw [hpm, hn]
    generalize MG.step w m p.length st b = res at ih'
    obtain ⟨st', o⟩ := res
    cases o with
    | none => exact ih'
    | some o => simp only; rw [ih']

theorem minimisers_eq_naive {w m : Nat} (hm1 : 1 ≤ m) (hmw : m ≤ w) (hm : m ≤ 31) (s : List Nat) :
    minimisers w m s = naive w s.length 0 none ((List.range s.length).map (posMin w m s)) := by
  have := run_eq_naive hm1 hmw hm s s [] MG.init (by simp) (inv_init w m hm1 hmw)
  rw [List.range_eq_range']
  simpa [minimisers, cur, MG.init] using this

end KT.Min
