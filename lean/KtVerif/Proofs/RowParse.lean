import KtVerif.Model.RowParse
import KtVerif.Model.Vectors
import KtVerif.Proofs.Display

/-!
# Helpers for `Props/RowParse.lean`: a written CGR row reads back as the points that were written

`IsF64 n` is spelled out as `∃ m j, m < 2 ^ 53 ∧ n = m * 2 ^ j` here (the definition lives in `Props/Display.lean`).
-/

namespace KT.Rp
open KT KT.Disp

attribute [local irreducible] f64One

/-! ## the characters of a printed number -/

/-- digits and '.' only -/
def Clean (l : List Nat) : Prop := ∀ c ∈ l, (48 ≤ c ∧ c ≤ 57) ∨ c = 46

theorem Clean.of_allDig {l : List Nat} (h : AllDig l) : Clean l := fun c hc => Or.inl (h c hc)

theorem Clean.append {a b : List Nat} (ha : Clean a) (hb : Clean b) : Clean (a ++ b) := by
  intro c hc
  rcases List.mem_append.1 hc with h | h
  · exact ha c h
  · exact hb c h

theorem clean_dot : Clean [46] := by
  intro c hc
  rw [List.mem_singleton] at hc
  exact Or.inr hc

theorem clean_zero_dot : Clean [48, 46] := by
  intro c hc
  simp only [List.mem_cons, List.not_mem_nil, or_false] at hc
  omega

theorem positional_chars (D : Nat) (e : Int) : Clean (positional D e) := by
  unfold positional
  have hd : AllDig (natText D) := natText_allDig D
  simp only
  split
  · exact (Clean.of_allDig hd).append (Clean.of_allDig (AllDig.replicate _))
  · split
    · exact ((Clean.of_allDig (hd.take _)).append clean_dot).append (Clean.of_allDig (hd.drop _))
    · exact (clean_zero_dot.append (Clean.of_allDig (AllDig.replicate _))).append (Clean.of_allDig hd)

theorem positional_ne_nil (D : Nat) (e : Int) : positional D e ≠ [] := by
  unfold positional
  have hd : natText D ≠ [] := natText_ne_nil D
  simp only
  split
  · intro h
    exact hd (List.append_eq_nil_iff.1 h).1
  · split
    · intro h
      have := (List.append_eq_nil_iff.1 (List.append_eq_nil_iff.1 h).1).2
      exact List.cons_ne_nil _ _ this
    · intro h
      exact hd (List.append_eq_nil_iff.1 h).2

theorem f64Display_chars (n : Nat) : Clean (f64Display n) := by
  unfold f64Display
  split
  · intro c hc
    rw [List.mem_singleton] at hc
    omega
  · exact positional_chars _ _

theorem f64Display_ne_nil (n : Nat) : f64Display n ≠ [] := by
  unfold f64Display
  split
  · exact List.cons_ne_nil _ _
  · exact positional_ne_nil _ _

theorem Clean.not_mem {l : List Nat} (h : Clean l) (s : Nat) (hs : ¬ ((48 ≤ s ∧ s ≤ 57) ∨ s = 46)) : s ∉ l :=
  fun hm => hs (h s hm)

/-! ## splitting -/

theorem splitOnByte_ne_nil (sep : Nat) : ∀ l : List Nat, splitOnByte sep l ≠ []
  | [] => by simp [splitOnByte]
  | c :: cs => by
    have ih := splitOnByte_ne_nil sep cs
    unfold splitOnByte
    split
    · exact List.cons_ne_nil _ _
    · split
      · exact List.cons_ne_nil _ _
      · exact List.cons_ne_nil _ _

theorem splitOnByte_cons_ne (sep c : Nat) (cs : List Nat) (h : c ≠ sep) (f : List Nat) (fs : List (List Nat))
    (hs : splitOnByte sep cs = f :: fs) : splitOnByte sep (c :: cs) = (c :: f) :: fs := by
  rw [splitOnByte, if_neg h, hs]

theorem splitOnByte_cons_eq (sep : Nat) (cs : List Nat) :
    splitOnByte sep (sep :: cs) = [] :: splitOnByte sep cs := by
  rw [splitOnByte, if_pos rfl]

theorem splitOnByte_append_sep (sep : Nat) (a rest : List Nat) (ha : sep ∉ a) :
    splitOnByte sep (a ++ sep :: rest) = a :: splitOnByte sep rest := by
  induction a with
  | nil => exact splitOnByte_cons_eq sep rest
  | cons c cs ih =>
    have hc : c ≠ sep := fun h => ha (h ▸ List.mem_cons_self)
    have hcs : sep ∉ cs := fun h => ha (List.mem_cons_of_mem _ h)
    exact splitOnByte_cons_ne sep c _ hc cs _ (ih hcs)

theorem splitOnByte_nosep (sep : Nat) (a : List Nat) (ha : sep ∉ a) : splitOnByte sep a = [a] := by
  induction a with
  | nil => rfl
  | cons c cs ih =>
    have hc : c ≠ sep := fun h => ha (h ▸ List.mem_cons_self)
    have hcs : sep ∉ cs := fun h => ha (List.mem_cons_of_mem _ h)
    exact splitOnByte_cons_ne sep c _ hc cs _ (ih hcs)

/-! ## `mapM` in `Option` -/

theorem mapM_nil' {β γ : Type} (f : β → Option γ) : ([] : List β).mapM f = some [] := by
  simp

theorem mapM_cons' {β γ : Type} (f : β → Option γ) (b : β) (bs : List β) (c : γ) (cs : List γ)
    (hb : f b = some c) (hbs : bs.mapM f = some cs) : (b :: bs).mapM f = some (c :: cs) := by
  simp [List.mapM_cons, hb, hbs]

theorem mapM_map_some {α β γ : Type} (f : β → Option γ) (g : α → β) (h : α → γ) (l : List α)
    (H : ∀ a ∈ l, f (g a) = some (h a)) : (l.map g).mapM f = some (l.map h) := by
  induction l with
  | nil => exact mapM_nil' f
  | cons a as ih =>
    rw [List.map_cons, List.map_cons]
    exact mapM_cons' f _ _ _ _ (H a List.mem_cons_self) (ih fun x hx => H x (List.mem_cons_of_mem _ hx))

/-! ## one tuple -/

theorem getLast?_snoc (l : List Nat) (a : Nat) : (l ++ [a]).getLast? = some a := by
  simp

theorem dropLast_snoc (l : List Nat) (a : Nat) : (l ++ [a]).dropLast = l := by
  simp

theorem parseTuple_wrap (body : List Nat) :
    parseTuple ([40] ++ body ++ [41]) = (splitOnByte 44 body).mapM parseF64 := by
  have e : [40] ++ body ++ [41] = 40 :: (body ++ [41]) := by simp
  rw [e]
  unfold parseTuple
  simp only [getLast?_snoc, dropLast_snoc, if_true]

theorem parseTuple_pair (d1 d2 : List Nat) (x y : Nat) (h1 : 44 ∉ d1) (h2 : 44 ∉ d2)
    (p1 : parseF64 d1 = some x) (p2 : parseF64 d2 = some y) :
    parseTuple ([40] ++ d1 ++ [44] ++ d2 ++ [41]) = some [x, y] := by
  have e : [40] ++ d1 ++ [44] ++ d2 ++ [41] = [40] ++ (d1 ++ 44 :: d2) ++ [41] := by simp
  rw [e, parseTuple_wrap, splitOnByte_append_sep 44 d1 d2 h1, splitOnByte_nosep 44 d2 h2]
  exact mapM_cons' _ _ _ _ _ p1 (mapM_cons' _ _ _ _ _ p2 (mapM_nil' _))

theorem parseTuple_triple (d1 d2 d3 : List Nat) (x y z : Nat) (h1 : 44 ∉ d1) (h2 : 44 ∉ d2) (h3 : 44 ∉ d3)
    (p1 : parseF64 d1 = some x) (p2 : parseF64 d2 = some y) (p3 : parseF64 d3 = some z) :
    parseTuple ([40] ++ d1 ++ [44] ++ d2 ++ [44] ++ d3 ++ [41]) = some [x, y, z] := by
  have e : [40] ++ d1 ++ [44] ++ d2 ++ [44] ++ d3 ++ [41] = [40] ++ (d1 ++ 44 :: (d2 ++ 44 :: d3)) ++ [41] := by
    simp
  rw [e, parseTuple_wrap, splitOnByte_append_sep 44 d1 _ h1, splitOnByte_append_sep 44 d2 d3 h2,
    splitOnByte_nosep 44 d3 h3]
  exact mapM_cons' _ _ _ _ _ p1 (mapM_cons' _ _ _ _ _ p2 (mapM_cons' _ _ _ _ _ p3 (mapM_nil' _)))

/-! ## a row -/

theorem joinSp_cons_cons (x y : List Nat) (ys : List (List Nat)) :
    joinSp (x :: y :: ys) = x ++ 32 :: joinSp (y :: ys) := by
  rw [joinSp]
  · simp
  · intro h
    exact List.cons_ne_nil _ _ h

theorem joinSp_ne_nil : ∀ (toks : List (List Nat)), toks ≠ [] → (∀ t ∈ toks, t ≠ []) → joinSp toks ≠ []
  | [], h, _ => absurd rfl h
  | [x], _, hne => by
    rw [joinSp]
    exact hne x List.mem_cons_self
  | x :: y :: ys, _, _ => by
    rw [joinSp_cons_cons]
    intro h
    exact List.cons_ne_nil _ _ (List.append_eq_nil_iff.1 h).2

theorem split_joinSp : ∀ (toks : List (List Nat)), toks ≠ [] → (∀ t ∈ toks, 32 ∉ t) →
    splitOnByte 32 (joinSp toks) = toks
  | [], h, _ => absurd rfl h
  | [x], _, h32 => by
    rw [joinSp]
    exact splitOnByte_nosep 32 x (h32 x List.mem_cons_self)
  | x :: y :: ys, _, h32 => by
    rw [joinSp_cons_cons, splitOnByte_append_sep 32 x _ (h32 x List.mem_cons_self),
      split_joinSp (y :: ys) (List.cons_ne_nil _ _) fun t ht => h32 t (List.mem_cons_of_mem _ ht)]

theorem parseRowTuples_join (toks : List (List Nat)) (vals : List (List Nat))
    (h32 : ∀ t ∈ toks, 32 ∉ t) (hne : ∀ t ∈ toks, t ≠ []) (hp : toks.mapM parseTuple = some vals) :
    parseRowTuples (joinSp toks ++ [10]) = some vals := by
  unfold parseRowTuples
  simp only [getLast?_snoc, dropLast_snoc, ne_eq, not_true_eq_false, if_false]
  by_cases ht : toks = []
  · subst ht
    rw [mapM_nil'] at hp
    rw [joinSp, if_pos rfl]
    exact hp
  · rw [if_neg (joinSp_ne_nil toks ht hne), split_joinSp toks ht h32]
    exact hp

/-- the bytes that structure a row do not occur in a printed number -/
theorem disp_no (n s : Nat) (hs : ¬ ((48 ≤ s ∧ s ≤ 57) ∨ s = 46)) : s ∉ f64Display n :=
  (f64Display_chars n).not_mem s hs

theorem not_mem_tok2 (s : Nat) (d1 d2 : List Nat) (h40 : s ≠ 40) (h44 : s ≠ 44) (h41 : s ≠ 41)
    (h1 : s ∉ d1) (h2 : s ∉ d2) : s ∉ [40] ++ d1 ++ [44] ++ d2 ++ [41] := by
  simp only [List.mem_append, List.mem_singleton, not_or]
  exact ⟨⟨⟨⟨h40, h1⟩, h44⟩, h2⟩, h41⟩

theorem not_mem_tok3 (s : Nat) (d1 d2 d3 : List Nat) (h40 : s ≠ 40) (h44 : s ≠ 44) (h41 : s ≠ 41)
    (h1 : s ∉ d1) (h2 : s ∉ d2) (h3 : s ∉ d3) : s ∉ [40] ++ d1 ++ [44] ++ d2 ++ [44] ++ d3 ++ [41] := by
  simp only [List.mem_append, List.mem_singleton, not_or]
  exact ⟨⟨⟨⟨⟨⟨h40, h1⟩, h44⟩, h2⟩, h44⟩, h3⟩, h41⟩

theorem parseCgrRow_cgrRowText (pts : List (Nat × Nat))
    (h : ∀ p ∈ pts, (∃ m j, m < 2 ^ 53 ∧ p.1 = m * 2 ^ j) ∧ (∃ m j, m < 2 ^ 53 ∧ p.2 = m * 2 ^ j)) :
    parseCgrRow (cgrRowText pts) = some pts := by
  unfold parseCgrRow cgrRowText
  have hp : (pts.map fun p => [40] ++ f64Display p.1 ++ [44] ++ f64Display p.2 ++ [41]).mapM parseTuple =
      some (pts.map fun p => [p.1, p.2]) := by
    apply mapM_map_some
    intro p hp
    exact parseTuple_pair _ _ _ _ (disp_no _ 44 (by omega)) (disp_no _ 44 (by omega))
      (display_roundtrip p.1 (h p hp).1) (display_roundtrip p.2 (h p hp).2)
  rw [parseRowTuples_join _ _ _ _ hp]
  · simp only
    have := mapM_map_some (fun t : List Nat => match t with
      | [x, y] => some (x, y)
      | _ => none) (fun p : Nat × Nat => [p.1, p.2]) (fun p => p) pts (fun p _ => rfl)
    rw [List.map_id'] at this
    exact this
  · intro t ht
    obtain ⟨p, _, rfl⟩ := List.mem_map.1 ht
    exact not_mem_tok2 32 _ _ (by decide) (by decide) (by decide) (disp_no _ 32 (by omega)) (disp_no _ 32 (by omega))
  · intro t ht
    obtain ⟨p, _, rfl⟩ := List.mem_map.1 ht
    simp

theorem parseOligoCgrRow_oligoCgrRowText (ts : List (Nat × Nat × Nat))
    (h : ∀ t ∈ ts, (∃ m j, m < 2 ^ 53 ∧ t.1 = m * 2 ^ j) ∧ (∃ m j, m < 2 ^ 53 ∧ t.2.1 = m * 2 ^ j) ∧
      (∃ m j, m < 2 ^ 53 ∧ t.2.2 = m * 2 ^ j)) :
    parseOligoCgrRow (oligoCgrRowText ts) = some ts := by
  unfold parseOligoCgrRow oligoCgrRowText
  have hp : (ts.map fun t => [40] ++ f64Display t.1 ++ [44] ++ f64Display t.2.1 ++ [44] ++ f64Display t.2.2 ++
      [41]).mapM parseTuple = some (ts.map fun t => [t.1, t.2.1, t.2.2]) := by
    apply mapM_map_some
    intro t ht
    exact parseTuple_triple _ _ _ _ _ _ (disp_no _ 44 (by omega)) (disp_no _ 44 (by omega)) (disp_no _ 44 (by omega))
      (display_roundtrip t.1 (h t ht).1) (display_roundtrip t.2.1 (h t ht).2.1)
      (display_roundtrip t.2.2 (h t ht).2.2)
  rw [parseRowTuples_join _ _ _ _ hp]
  · simp only
    have := mapM_map_some (fun t : List Nat => match t with
      | [x, y, f] => some (x, y, f)
      | _ => none) (fun t : Nat × Nat × Nat => [t.1, t.2.1, t.2.2]) (fun t => t) ts (fun t _ => rfl)
    rw [List.map_id'] at this
    exact this
  · intro t ht
    obtain ⟨p, _, rfl⟩ := List.mem_map.1 ht
    exact not_mem_tok3 32 _ _ _ (by decide) (by decide) (by decide) (disp_no _ 32 (by omega))
      (disp_no _ 32 (by omega)) (disp_no _ 32 (by omega))
  · intro t ht
    obtain ⟨p, _, rfl⟩ := List.mem_map.1 ht
    simp

/-! ## the walk produces doubles -/

theorem cgrMid_isF64 (c m : Nat) : ∃ m' j, m' < 2 ^ 53 ∧ cgrMid c m = m' * 2 ^ j := by
  unfold cgrMid f64Half
  exact roundRat_isF64 _ _

theorem cgrLoop_points_isF64 (S : Nat) : ∀ (s : List Nat) (mk : Nat × Nat) (pts : List (Nat × Nat)),
    cgrLoop S mk s = some pts →
    ∀ p ∈ pts, (∃ m j, m < 2 ^ 53 ∧ p.1 = m * 2 ^ j) ∧ (∃ m j, m < 2 ^ 53 ∧ p.2 = m * 2 ^ j)
  | [], mk, pts, h => by
    rw [cgrLoop] at h
    cases h
    intro p hp
    cases hp
  | b :: bs, (x, y), pts, h => by
    rw [cgrLoop] at h
    split at h
    · cases h
    · rename_i cx cy _
      simp only at h
      split at h
      · cases h
      · rename_i rest hr
        cases h
        intro p hp
        rcases List.mem_cons.1 hp with rfl | hp
        · exact ⟨cgrMid_isF64 _ _, cgrMid_isF64 _ _⟩
        · exact cgrLoop_points_isF64 S bs _ rest hr p hp

theorem cgrF64_points_isF64 (S : Nat) (s : List Nat) (pts : List (Nat × Nat)) (h : cgrF64 S s = some pts) :
    ∀ p ∈ pts, (∃ m j, m < 2 ^ 53 ∧ p.1 = m * 2 ^ j) ∧ (∃ m j, m < 2 ^ 53 ∧ p.2 = m * 2 ^ j) :=
  cgrLoop_points_isF64 S s (cgrCentre S) pts h

end KT.Rp
