import KtVerif.Model.Fasta
/-!
# C06 helpers, part 3: file-name suffixes
-/
namespace KT.Fa
open KT

theorem gz_bytes : ".gz".toList.map Char.toNat = [46, 103, 122] := by decide

theorem endsWith_gz (l : List Nat) : endsWith ".gz" l = ([46, 103, 122] : List Nat).isSuffixOf l := by
  unfold endsWith; rw [gz_bytes]

theorem endsWith_gz_length {l : List Nat} (h : endsWith ".gz" l = true) : 3 ≤ l.length := by
  rw [endsWith_gz, List.isSuffixOf_iff_suffix] at h
  simpa using h.length_le

theorem stripGz_of_not {l : List Nat} (h : endsWith ".gz" l = false) : stripGz l = l := by
  rw [stripGz]; simp [h]

theorem stripGz_step {l : List Nat} (h : endsWith ".gz" l = true) :
    stripGz l = stripGz (l.take (l.length - 3)) := by
  conv => lhs; rw [stripGz]
  simp [h, endsWith_gz_length h]

/-- the part of `SeqFormat::get` after `.gz` has been dealt with -/
def suffixTable (p : List Nat) : Option SeqFormat :=
  if endsWith ".fq" p || endsWith ".fastq" p then some .fastq
  else if endsWith ".fasta" p || endsWith ".fa" p || endsWith ".fna" p then some .fasta
  else none

theorem formatOf_eq_table (name : List Nat) :
    formatOf name = suffixTable (if endsWith ".gz" name then stripGz name else name) := rfl

theorem formatSpec_eq_table (name : List Nat) :
    formatSpec name =
      suffixTable (if endsWith ".gz" name then name.take (name.length - 3) else name) := by
  rw [endsWith_gz]; rfl

end KT.Fa
