import KtVerif.Proofs.Float
import KtVerif.Model.Vectors
/-!
# Quotients of naturals in the binary64 emulation: `f64OfNat`, `f64Div`, `fmt6`, `covBinF64`
-/
namespace KT.Fl
open KT

theorem f64One_eq : f64One = 2 ^ 1074 := by unfold f64One; exact Eq.refl _

theorem f64One_pos : 0 < f64One := by rw [f64One_eq]; exact Nat.two_pow_pos 1074

theorem two_pow_split (a b c : Nat) (h : a + b = c) : 2 ^ a * 2 ^ b = 2 ^ c := by
  subst h; exact (Nat.pow_add 2 a b).symm

theorem two_pow_le (a b : Nat) (h : a ≤ b) : 2 ^ a ≤ 2 ^ b := Nat.pow_le_pow_right (by decide) h

theorem two_pow_53_le_f64One : 2 ^ 53 * 2 ^ 1021 = f64One := by
  rw [f64One_eq]; exact two_pow_split 53 1021 1074 (by decide)

attribute [local irreducible] f64One

theorem f64OfNat_exact (x : Nat) (hx : x < 2 ^ 53) : f64OfNat x = x * f64One := by
  unfold f64OfNat
  rw [f64One_eq]
  exact roundRat_exact_one x 1074 hx

theorem f64Div_nat_eq (c t : Nat) (hc53 : c < 2 ^ 53) (ht53 : t < 2 ^ 53) :
    f64Div (f64OfNat c) (f64OfNat t) = roundRat (c * f64One * f64One) (t * f64One) := by
  rw [f64OfNat_exact c hc53, f64OfNat_exact t ht53]; rfl

/-- the exact quotient `c/t` (scaled) of naturals below 2^53 is in the normal range -/
theorem quot_big (c t : Nat) (hc : 1 ≤ c) (ht : 1 ≤ t) (ht53 : t < 2 ^ 53) :
    2 ^ 53 ≤ c * f64One * f64One / (t * f64One) := by
  have hF := f64One_pos
  rw [Nat.mul_div_mul_right _ _ hF, Nat.le_div_iff_mul_le (by omega)]
  have hA : (2 : Nat) ^ 53 ≤ 2 ^ 1021 := two_pow_le 53 1021 (by omega)
  have hB := two_pow_53_le_f64One
  generalize (2 : Nat) ^ 1021 = B at hA hB
  calc 2 ^ 53 * t ≤ 2 ^ 53 * 2 ^ 53 := Nat.mul_le_mul_left _ (Nat.le_of_lt ht53)
    _ ≤ 2 ^ 53 * B := Nat.mul_le_mul_left _ hA
    _ = f64One := hB
    _ ≤ c * f64One := Nat.le_mul_of_pos_left _ hc

/-- additive form of the relative-error bound -/
theorem f64Div_nat_bounds (c t : Nat) (hc : 1 ≤ c) (ht : 1 ≤ t) (hc53 : c < 2 ^ 53) (ht53 : t < 2 ^ 53) :
    2 ^ 53 * (f64Div (f64OfNat c) (f64OfNat t) * t) ≤ 2 ^ 53 * (c * f64One) + c * f64One ∧
    2 ^ 53 * (c * f64One) ≤ 2 ^ 53 * (f64Div (f64OfNat c) (f64OfNat t) * t) + c * f64One := by
  rw [f64Div_nat_eq c t hc53 ht53]
  have hF := f64One_pos
  have hb : 0 < t * f64One := Nat.mul_pos (by omega) hF
  have h := roundRat_rel_err _ _ hb (quot_big c t hc ht ht53)
  generalize roundRat (c * f64One * f64One) (t * f64One) = q at *
  obtain ⟨h1, h2⟩ := h
  constructor
  · apply Nat.le_of_mul_le_mul_right _ hF
    calc 2 ^ 53 * (q * t) * f64One = 2 ^ 53 * (q * (t * f64One)) := by ring
      _ ≤ 2 ^ 53 * (c * f64One * f64One) + c * f64One * f64One := h1
      _ = (2 ^ 53 * (c * f64One) + c * f64One) * f64One := by ring
  · apply Nat.le_of_mul_le_mul_right _ hF
    calc 2 ^ 53 * (c * f64One) * f64One = 2 ^ 53 * (c * f64One * f64One) := by ring
      _ ≤ 2 ^ 53 * (q * (t * f64One)) + c * f64One * f64One := h2
      _ = (2 ^ 53 * (q * t) + c * f64One) * f64One := by ring

theorem f64Div_nat_err (c t : Nat) (hc : 1 ≤ c) (ht : 1 ≤ t) (hc53 : c < 2 ^ 53) (ht53 : t < 2 ^ 53) :
    let q := f64Div (f64OfNat c) (f64OfNat t)
    2 ^ 53 * (q * t - c * f64One) ≤ c * f64One ∧ 2 ^ 53 * (c * f64One - q * t) ≤ c * f64One := by
  intro q
  have h := f64Div_nat_bounds c t hc ht hc53 ht53
  change 2 ^ 53 * (q * t) ≤ _ ∧ _ ≤ 2 ^ 53 * (q * t) + _ at h
  generalize q * t = v at *
  generalize c * f64One = w at *
  rw [Nat.mul_sub, Nat.mul_sub]
  omega

theorem f64Div_zero (t : Nat) (_ht : 1 ≤ t) (ht53 : t < 2 ^ 53) : f64Div (f64OfNat 0) (f64OfNat t) = 0 := by
  rw [f64Div_nat_eq 0 t (by decide) ht53]
  simp only [Nat.zero_mul, roundRat_zero]

/-- an exactly representable quotient is returned exactly -/
theorem f64Div_mul_exact (q t : Nat) (hq : q < 2 ^ 53) (ht : 1 ≤ t) (ht53 : t < 2 ^ 53) (hqt : q * t < 2 ^ 53) :
    f64Div (f64OfNat (q * t)) (f64OfNat t) = q * f64One := by
  rw [f64Div_nat_eq (q * t) t hqt ht53]
  have hb : 0 < t * f64One := Nat.mul_pos (by omega) f64One_pos
  have e : q * t * f64One * f64One = q * 2 ^ 1074 * (t * f64One) := by
    rw [← f64One_eq]; ring
  rw [e, roundRat_exact q 1074 _ hb hq, ← f64One_eq]

theorem f64Div_self (t : Nat) (ht : 1 ≤ t) (ht53 : t < 2 ^ 53) : f64Div (f64OfNat t) (f64OfNat t) = f64One := by
  have := f64Div_mul_exact 1 t (by decide) ht ht53 (by omega)
  rwa [Nat.one_mul, Nat.one_mul] at this

theorem f64Div_le_one (c t : Nat) (hct : c ≤ t) (ht : 1 ≤ t) (ht53 : t < 2 ^ 53) :
    f64Div (f64OfNat c) (f64OfNat t) ≤ f64One := by
  rcases Nat.eq_zero_or_pos c with h0 | hc
  · subst h0; rw [f64Div_zero t ht ht53]; exact Nat.zero_le _
  rcases Nat.lt_or_eq_of_le hct with hlt | heq
  · have h := (f64Div_nat_bounds c t hc ht (by omega) ht53).1
    generalize f64Div (f64OfNat c) (f64OfNat t) = v at *
    have hF := f64One_pos
    -- v·t·2^53 ≤ c·F·(2^53+1) ≤ (t-1)·F·(2^53+1) < t·F·2^53
    have h1 : c * f64One ≤ (t - 1) * f64One := Nat.mul_le_mul_right _ (by omega)
    have h2 : (t - 1) * f64One + f64One = t * f64One := by
      rw [← Nat.succ_mul]; congr 1; omega
    have h3 : (t - 1) * f64One < 2 ^ 53 * f64One := Nat.mul_lt_mul_of_pos_right (by omega) hF
    have h4 : v * t ≤ f64One * t := by
      rw [Nat.mul_comm f64One t]
      generalize v * t = vt at *
      generalize c * f64One = w at *
      generalize (t - 1) * f64One = u at *
      generalize t * f64One = tf at *
      omega
    exact Nat.le_of_mul_le_mul_right h4 (by omega)
  · subst heq; rw [f64Div_self c ht ht53]

/-! ## `{:.6}` formatting -/

theorem fmt6Int_le (n : Nat) (hn : n ≤ f64One) : fmt6Int n ≤ 1000000 := by
  unfold fmt6Int
  have h := roundDiv_mono (n * 1000000) (f64One * 1000000) f64One f64One_pos (Nat.mul_le_mul_right _ hn)
  rw [Nat.mul_comm f64One 1000000, roundDiv_exact _ _ f64One_pos] at h
  exact h

theorem fmt6_quotient_correct (c t : Nat) (hct : c ≤ t) (ht : 1 ≤ t) (ht53 : t < 2 ^ 53) :
    let N := fmt6Int (f64Div (f64OfNat c) (f64OfNat t))
    N * t ≤ c * 1000000 + t ∧ c * 1000000 ≤ N * t + t := by
  intro N
  rcases Nat.eq_zero_or_pos c with h0 | hc
  · subst h0
    have : N = 0 := by
      show fmt6Int (f64Div (f64OfNat 0) (f64OfNat t)) = 0
      rw [f64Div_zero t ht ht53]; unfold fmt6Int; rw [Nat.zero_mul, roundDiv_zero]
    rw [this]; omega
  have hF := f64One_pos
  have hb := f64Div_nat_bounds c t hc ht (by omega) ht53
  have hr : 2 * (N * f64One) ≤ 2 * (f64Div (f64OfNat c) (f64OfNat t) * 1000000) + f64One ∧
      2 * (f64Div (f64OfNat c) (f64OfNat t) * 1000000) ≤ 2 * (N * f64One) + f64One :=
    roundDiv_bounds _ _ hF
  generalize f64Div (f64OfNat c) (f64OfNat t) = v at *
  generalize f64One = F at *
  obtain ⟨hb1, hb2⟩ := hb
  obtain ⟨hr1, hr2⟩ := hr
  constructor
  · apply Nat.le_of_mul_le_mul_right _ (show 0 < F * 2 ^ 54 from Nat.mul_pos hF (Nat.two_pow_pos _))
    nlinarith [Nat.mul_le_mul_right (t * 2 ^ 53) hr1, Nat.mul_le_mul_right (2 * 1000000) hb1,
      Nat.mul_le_mul_right F hct]
  · apply Nat.le_of_mul_le_mul_right _ (show 0 < F * 2 ^ 54 from Nat.mul_pos hF (Nat.two_pow_pos _))
    nlinarith [Nat.mul_le_mul_right (t * 2 ^ 53) hr2, Nat.mul_le_mul_right (2 * 1000000) hb2,
      Nat.mul_le_mul_right F hct]

theorem length_toDigits_lt_ten (d : Nat) (hd : d < 10) : (Nat.toDigits 10 d).length = 1 := by
  rw [Nat.toDigits_of_lt_base hd]; rfl

theorem padDigits_length (w n : Nat) (hw : 0 < w) (hn : n < 10 ^ w) : (padDigits w n).length = w := by
  unfold padDigits
  have h := (Nat.length_toDigits_le_iff (b := 10) (n := n) (k := w) (by decide) hw).2 hn
  simp only [List.length_append, List.length_replicate, List.length_map]
  omega

theorem fmt6_length (n : Nat) (hn : n ≤ f64One) : (fmt6 n).length = 8 := by
  have hle : roundDiv (n * 1000000) f64One ≤ 1000000 := fmt6Int_le n hn
  unfold fmt6
  simp only
  generalize roundDiv (n * 1000000) f64One = q at *
  have h1 : q / 1000000 < 10 := by omega
  have h2 : q % 1000000 < 10 ^ 6 := Nat.mod_lt _ (by decide)
  simp only [List.length_append, List.length_map, List.length_cons, List.length_nil,
    length_toDigits_lt_ten _ h1, padDigits_length 6 _ (by decide) h2]

/-! ## coverage bin: float floor-division = integer division -/

theorem covBinF64_eq_div (c b : Nat) (hc : c < 2 ^ 32) (hb1 : 1 ≤ b) (hb : b < 2 ^ 32) :
    covBinF64 c b = c / b := by
  unfold covBinF64 f64Floor
  have hF := f64One_pos
  have hc53 : c < 2 ^ 53 := Nat.lt_of_lt_of_le hc (Nat.pow_le_pow_right (by decide) (by decide))
  have hb53 : b < 2 ^ 53 := Nat.lt_of_lt_of_le hb (Nat.pow_le_pow_right (by decide) (by decide))
  rcases Nat.eq_zero_or_pos c with h0 | hcpos
  · subst h0; rw [f64Div_zero b hb1 hb53]; simp
  have hdm := Nat.div_add_mod c b
  have hr := Nat.mod_lt c hb1
  have hqc : c / b ≤ c := Nat.div_le_self c b
  by_cases hr0 : c % b = 0
  · -- exact quotient
    have e : c = c / b * b := by rw [hr0, Nat.add_zero, Nat.mul_comm] at hdm; exact hdm.symm
    have := f64Div_mul_exact (c / b) b (by omega) hb1 hb53 (by rw [← e]; exact hc53)
    rw [← e] at this
    rw [this, Nat.mul_div_cancel _ hF]
  · have h := f64Div_nat_bounds c b hcpos hb1 hc53 hb53
    generalize f64Div (f64OfNat c) (f64OfNat b) = v at *
    generalize hq : c / b = q at *
    generalize c % b = r at *
    obtain ⟨h1, h2⟩ := h
    have hcF : c * f64One < 2 ^ 53 * f64One := Nat.mul_lt_mul_of_pos_right hc53 hF
    -- q·b + 1 ≤ c ≤ (q+1)·b - 1
    have hlo : (q * b + 1) * f64One ≤ c * f64One := Nat.mul_le_mul_right _ (by
      have : b * q = q * b := Nat.mul_comm _ _
      omega)
    have hhi : (c + 1) * f64One ≤ (q + 1) * b * f64One := Nat.mul_le_mul_right _ (by
      have : (q + 1) * b = b * q + b := by ring
      omega)
    have e1 : (q * b + 1) * f64One = q * f64One * b + f64One := by ring
    have e2 : (c + 1) * f64One = c * f64One + f64One := by ring
    have e3 : (q + 1) * b * f64One = (q + 1) * f64One * b := by ring
    rw [e1] at hlo; rw [e2, e3] at hhi
    have hlow : q * f64One * b ≤ v * b := by
      generalize q * f64One * b = A at *
      generalize v * b = B at *
      generalize c * f64One = C at *
      omega
    have hupp : v * b < (q + 1) * f64One * b := by
      generalize (q + 1) * f64One * b = A at *
      generalize v * b = B at *
      generalize c * f64One = C at *
      omega
    have hl : q * f64One ≤ v := Nat.le_of_mul_le_mul_right hlow hb1
    have hu : v < (q + 1) * f64One := Nat.lt_of_mul_lt_mul_right hupp
    apply Nat.div_eq_of_lt_le
    · exact hl
    · exact hu

end KT.Fl
