import KtVerif.Proofs.Kmer
/-!
# `specKmers`: membership, front and back recursions, reverse complement of the text
-/
namespace KT

/-- the item of a window -/
def itemOf (w : List Nat) : Nat × Nat := (enc w, rcEnc w)

/-- the pair emitted for window `w`, if it is a full clean window -/
def itemIf (k : Nat) (w : List Nat) : List (Nat × Nat) :=
  if k ≤ w.length ∧ w.all clean = true then [itemOf w] else []

theorem specKmers_def (k : Nat) (s : List Nat) :
    specKmers k s = (List.range (s.length + 1 - k)).filterMap fun i =>
      if (window k s i).all clean then some (itemOf (window k s i)) else none := rfl

theorem filterMap_congr' {α β} {f g : α → Option β} {l : List α} (h : ∀ x ∈ l, f x = g x) :
    l.filterMap f = l.filterMap g := by
  induction l with
  | nil => rfl
  | cons a l ih =>
    simp only [List.filterMap_cons, h a (by simp)]
    rw [ih (fun x hx => h x (by simp [hx]))]

theorem filterMap_ite_eq_map_filter {α β} (p : α → Bool) (f : α → β) (l : List α) :
    (l.filterMap fun i => if p i then some (f i) else none) = (l.filter p).map f := by
  induction l with
  | nil => rfl
  | cons a l ih =>
    simp only [List.filterMap_cons, List.filter_cons]
    cases h : p a <;> simp [ih]

theorem window_length {k i : Nat} {s : List Nat} (h : i + k ≤ s.length) :
    (window k s i).length = k := by
  simp [window]; omega

theorem mem_specKmers {k : Nat} {s : List Nat} {p : Nat × Nat} (hp : p ∈ specKmers k s) :
    ∃ w : List Nat, w.length = k ∧ w.all clean = true ∧ p = itemOf w := by
  rw [specKmers_def, List.mem_filterMap] at hp
  obtain ⟨i, hi, h⟩ := hp
  rw [List.mem_range] at hi
  by_cases hc : (window k s i).all clean = true
  · rw [if_pos hc] at h
    refine ⟨window k s i, window_length (by omega), hc, ?_⟩
    exact (Option.some.inj h).symm
  · rw [if_neg hc] at h
    cases h

/-! ## front recursion -/

theorem window_cons_succ (k b : Nat) (s : List Nat) (i : Nat) :
    window k (b :: s) (i + 1) = window k s i := by
  simp [window]

theorem specKmers_cons (k b : Nat) (s : List Nat) :
    specKmers k (b :: s) = itemIf k ((b :: s).take k) ++ specKmers k s := by
  by_cases hk : k ≤ s.length + 1
  · have e : (b :: s).length + 1 - k = (s.length + 1 - k) + 1 := by simp; omega
    rw [specKmers_def, e, List.range_succ_eq_map, List.filterMap_cons, List.filterMap_map]
    have hw0 : window k (b :: s) 0 = (b :: s).take k := by simp [window]
    have hl : k ≤ ((b :: s).take k).length := by simp; omega
    rw [hw0]
    have htail : List.filterMap ((fun i => if (window k (b :: s) i).all clean = true then
        some (itemOf (window k (b :: s) i)) else none) ∘ Nat.succ) (List.range (s.length + 1 - k))
        = specKmers k s := by
      rw [specKmers_def]
      apply filterMap_congr'
      intro i _
      simp only [Function.comp, Nat.succ_eq_add_one, window_cons_succ]
    rw [htail]
    unfold itemIf
    by_cases hc : ((b :: s).take k).all clean = true
    · rw [if_pos hc, if_pos ⟨hl, hc⟩]; rfl
    · rw [if_neg hc, if_neg (fun h => hc h.2)]; rfl
  · have e1 : (b :: s).length + 1 - k = 0 := by simp; omega
    have e2 : s.length + 1 - k = 0 := by omega
    have hl : ¬ k ≤ ((b :: s).take k).length := by simp; omega
    unfold itemIf
    rw [if_neg (fun h => hl h.1)]
    simp only [specKmers, e1, e2, List.range_zero, List.filterMap_nil, List.append_nil]

/-! ## back recursion -/

theorem window_concat {k i b : Nat} {s : List Nat} (h : i + k ≤ s.length) :
    window k (s ++ [b]) i = window k s i := by
  unfold window
  rw [List.drop_append_of_le_length (by omega), List.take_append_of_le_length (by simp; omega)]

theorem specKmers_concat (k b : Nat) (s : List Nat) :
    specKmers k (s ++ [b]) = specKmers k s ++ itemIf k ((s ++ [b]).drop (s.length + 1 - k)) := by
  by_cases hk : k ≤ s.length + 1
  · have e : (s ++ [b]).length + 1 - k = (s.length + 1 - k) + 1 := by simp; omega
    rw [specKmers_def, e, List.range_succ, List.filterMap_append]
    have hhead : List.filterMap (fun i => if (window k (s ++ [b]) i).all clean = true then
        some (itemOf (window k (s ++ [b]) i)) else none) (List.range (s.length + 1 - k))
        = specKmers k s := by
      rw [specKmers_def]
      apply filterMap_congr'
      intro i hi
      rw [List.mem_range] at hi
      rw [window_concat (by omega)]
    rw [hhead]
    congr 1
    have hw : window k (s ++ [b]) (s.length + 1 - k) = (s ++ [b]).drop (s.length + 1 - k) := by
      unfold window
      apply List.take_of_length_le
      simp; omega
    have hl : k ≤ ((s ++ [b]).drop (s.length + 1 - k)).length := by simp; omega
    simp only [List.filterMap_cons, List.filterMap_nil, hw]
    unfold itemIf
    by_cases hc : ((s ++ [b]).drop (s.length + 1 - k)).all clean = true
    · rw [if_pos hc, if_pos ⟨hl, hc⟩]
    · rw [if_neg hc, if_neg (fun h => hc h.2)]
  · have e1 : (s ++ [b]).length + 1 - k = 0 := by simp; omega
    have e2 : s.length + 1 - k = 0 := by omega
    have hl : ¬ k ≤ ((s ++ [b]).drop (s.length + 1 - k)).length := by simp; omega
    unfold itemIf
    rw [if_neg (fun h => hl h.1)]
    simp only [specKmers, e1, e2, List.range_zero, List.filterMap_nil, List.append_nil]

/-! ## reverse complement of text -/

theorem rcSeq_cons (b : Nat) (s : List Nat) : rcSeq (b :: s) = rcSeq s ++ [rcByte b] := by
  simp [rcSeq]

theorem rcSeq_length (s : List Nat) : (rcSeq s).length = s.length := by
  simp [rcSeq]

theorem all_clean_rcSeq (w : List Nat) : (rcSeq w).all clean = w.all clean := by
  simp [rcSeq, List.all_reverse, List.all_map, Function.comp_def, clean_rcByte]

theorem map_nt4_rcByte {w : List Nat} (h : w.all clean = true) :
    (w.map rcByte).map nt4 = (w.map nt4).map compDigit := by
  rw [List.map_map, List.map_map]
  apply List.map_congr_left
  intro b hb
  rw [List.all_eq_true] at h
  exact nt4_rcByte (h b hb)

theorem enc_rcSeq {w : List Nat} (h : w.all clean = true) : enc (rcSeq w) = rcEnc w := by
  rw [enc, rcSeq, List.map_reverse, map_nt4_rcByte h, rcEnc, List.map_reverse]

theorem rcEnc_rcSeq {w : List Nat} (h : w.all clean = true) : rcEnc (rcSeq w) = enc w := by
  simp only [rcEnc, rcSeq, List.map_reverse, List.reverse_reverse]
  rw [map_nt4_rcByte h, enc, List.map_map]
  congr 1
  conv => rhs; rw [← List.map_id (w.map nt4)]
  apply List.map_congr_left
  intro d hd
  exact compDigit_compDigit (map_nt4_lt h d hd)

theorem itemIf_rcSeq (k : Nat) (w : List Nat) :
    itemIf k (rcSeq w) = (itemIf k w).map Prod.swap := by
  unfold itemIf
  rw [rcSeq_length, all_clean_rcSeq]
  by_cases h : k ≤ w.length ∧ w.all clean = true
  · rw [if_pos h, if_pos h]
    simp [itemOf, enc_rcSeq h.2, rcEnc_rcSeq h.2]
  · rw [if_neg h, if_neg h]; rfl

theorem specKmers_rcSeq' (k : Nat) (s : List Nat) :
    specKmers k (rcSeq s) = (specKmers k s).reverse.map Prod.swap := by
  induction s with
  | nil =>
    cases k with
    | zero => decide
    | succ k => simp [rcSeq, specKmers]
  | cons b s ih =>
    rw [rcSeq_cons, specKmers_concat, ih, specKmers_cons, List.reverse_append, List.map_append]
    congr 1
    rw [← rcSeq_cons, rcSeq_length]
    have : (rcSeq (b :: s)).drop (s.length + 1 - k) = rcSeq ((b :: s).take k) := by
      by_cases hk : k ≤ s.length + 1
      · rw [rcSeq, List.drop_reverse, List.length_map, ← List.map_take, rcSeq]
        congr 3
        simp; omega
      · have e : s.length + 1 - k = 0 := by omega
        rw [e, List.drop_zero, List.take_of_length_le (by simp; omega)]
    rw [this, itemIf_rcSeq]
    unfold itemIf
    split <;> simp

/-! ## starts -/

theorem window_all_clean_iff {k i : Nat} {s : List Nat} (h : i + k ≤ s.length) :
    (window k s i).all clean = true ↔ ∀ j, i ≤ j → j < i + k → clean (s.getD j 0) = true := by
  have hlen := window_length h
  rw [List.all_eq_true]
  constructor
  · intro hall j hij hjk
    have hj : j < s.length := by omega
    have hjw : j - i < (window k s i).length := by omega
    have hm : (window k s i)[j - i] ∈ window k s i := List.getElem_mem hjw
    have he : (window k s i)[j - i] = s[j] := by
      simp only [window, List.getElem_take, List.getElem_drop]
      congr 1; omega
    rw [List.getD_eq_getElem?_getD, List.getElem?_eq_getElem hj, Option.getD_some, ← he]
    exact hall _ hm
  · intro hall x hx
    obtain ⟨j, hj, rfl⟩ := List.mem_iff_getElem.1 hx
    have hj' : i + j < s.length := by omega
    have he : (window k s i)[j] = s[i + j] := by
      simp only [window, List.getElem_take, List.getElem_drop]
    have := hall (i + j) (by omega) (by omega)
    rw [List.getD_eq_getElem?_getD, List.getElem?_eq_getElem hj', Option.getD_some] at this
    rw [he]; exact this

theorem mem_specKmerStarts' (k : Nat) (s : List Nat) (i : Nat) :
    i ∈ specKmerStarts k s ↔ (i + k ≤ s.length ∧ ∀ j, i ≤ j → j < i + k → clean (s.getD j 0) = true) := by
  unfold specKmerStarts
  rw [List.mem_filter, List.mem_range]
  constructor
  · intro ⟨h1, h2⟩
    have h : i + k ≤ s.length := by omega
    exact ⟨h, (window_all_clean_iff h).1 h2⟩
  · intro ⟨h1, h2⟩
    exact ⟨by omega, (window_all_clean_iff h1).2 h2⟩

theorem clean_iff_letter' : ∀ b, b < 256 → (clean b = true ↔ (isNucLetter b = true ∨ b < 4)) := by
  decide +kernel

end KT
