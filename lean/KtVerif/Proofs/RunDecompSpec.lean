import KtVerif.Proofs.RunDecomp
import KtVerif.Proofs.KmerSpec
/-!
# `specRuns` through the abstract grouping invariant, instantiated at `g = winMin w m s`
-/
namespace KT.Runs
open KT

theorem winMin_valid {w m : Nat} {s : List Nat} {i v : Nat} (h : winMin w m s i = some v) :
    winValid w s i = true := by
  unfold winMin at h
  by_cases hv : winValid w s i = true
  · exact hv
  · rw [if_neg hv] at h; cases h

theorem winMin_none_of_ge {w m : Nat} {s : List Nat} {j : Nat} (h : s.length + 1 - w ≤ j) :
    winMin w m s j = none := by
  unfold winMin
  have : winValid w s j = false := by
    simp only [winValid, Bool.and_eq_false_iff, decide_eq_false_iff_not]
    left; omega
  rw [this]; rfl

/-- a window with a minimiser is inside `s` and every byte of it is clean -/
theorem winMin_clean {w m : Nat} {s : List Nat} {i v : Nat} (h : winMin w m s i = some v) :
    i + w ≤ s.length ∧ ∀ j, i ≤ j → j < i + w → clean (s.getD j 0) = true := by
  have hv := winMin_valid h
  simp only [winValid, Bool.and_eq_true, decide_eq_true_eq] at hv
  exact ⟨hv.1, (window_all_clean_iff hv.1).1 hv.2⟩

theorem specRuns_good (w m : Nat) (s : List Nat) (hw : 1 ≤ w) :
    Good w (winMin w m s) 0 (specRuns w m s) := by
  have h := groupRuns_good w hw (winMin w m s) (s.length + 1 - w) 0 none
    (fun j hj => winMin_none_of_ge (by omega)) (Or.inl rfl)
  simp only [lo] at h
  rw [← List.range_eq_range'] at h
  exact h

end KT.Runs
