import KtVerif.Proofs.KmerSpec
/-!
# The rolling generator computes `specKmers` (C01)

The registers after a prefix are functions `fReg`, `rReg`, `cRun` of the REVERSED prefix
(most recent byte first); ambiguous bytes only reset the run length.
-/
namespace KT

/-! ## register arithmetic -/

theorem xor3 {v : Nat} (hv : v < 4) : v ^^^ 3 = 3 - v := by
  have : ∀ v, v < 4 → v ^^^ 3 = 3 - v := by decide
  exact this v hv

theorem maskOf_eq {k : Nat} (hk : k ≤ 31) : maskOf k = 2 ^ (2 * k) - 1 := by
  have h62 := pow_le_62 hk
  rw [four_pow] at h62
  unfold maskOf shl64
  rw [Nat.shiftLeft_eq, Nat.one_mul, Nat.mod_eq_of_lt (by unfold W64; omega)]

theorem shl2_or {f v : Nat} (hf : f * 4 < 2 ^ 64) (hv : v < 4) : shl64 f 2 ||| v = f * 4 + v := by
  unfold shl64
  have h1 : f <<< 2 = f * 4 := by rw [Nat.shiftLeft_eq]
  rw [Nat.mod_eq_of_lt (by unfold W64; omega), ← Nat.shiftLeft_add_eq_or_of_lt (by simpa using hv) f, h1]

theorem fwd_update {k f v : Nat} (hk : k ≤ 31) (hf : f < 4 ^ k) (hv : v < 4) :
    (shl64 f 2 ||| v) &&& maskOf k = (f * 4 + v) % 4 ^ k := by
  have h62 := pow_le_62 hk
  rw [shl2_or (by omega) hv, maskOf_eq hk, Nat.and_two_pow_sub_one_eq_mod, four_pow]

theorem rev_update {k x v : Nat} (hk1 : 1 ≤ k) (hk : k ≤ 31) (hx : x < 4 ^ k) (hv : v < 4) :
    (x >>> 2) ||| shl64 (v ^^^ 3) (shiftOf k) = x / 4 + (3 - v) * 4 ^ (k - 1) := by
  have h62 := pow_le_62 hk
  have hp : 4 ^ k = 4 ^ (k - 1) * 4 := by rw [← Nat.pow_succ]; congr 1; omega
  have h4 : 4 ^ (k - 1) = 2 ^ (2 * (k - 1)) := four_pow _
  have hd : (3 - v) * 4 ^ (k - 1) ≤ 3 * 4 ^ (k - 1) := Nat.mul_le_mul_right _ (by omega)
  have hs : shl64 (v ^^^ 3) (shiftOf k) = (3 - v) <<< (2 * (k - 1)) := by
    rw [xor3 hv]
    unfold shl64 shiftOf
    apply Nat.mod_eq_of_lt
    rw [Nat.shiftLeft_eq, ← h4]; unfold W64; omega
  have hx4 : x >>> 2 = x / 4 := by rw [Nat.shiftRight_eq_div_pow]
  rw [hs, hx4, Nat.or_comm, ← Nat.shiftLeft_add_eq_or_of_lt (by rw [← h4]; omega), Nat.shiftLeft_eq, ← h4]
  omega

/-! ## registers as functions of the reversed prefix -/

def fReg (k : Nat) : List Nat → Nat
  | [] => 0
  | b :: r => if nt4 b < 4 then (fReg k r * 4 + nt4 b) % 4 ^ k else fReg k r

def rReg (k : Nat) : List Nat → Nat
  | [] => 0
  | b :: r => if nt4 b < 4 then rReg k r / 4 + (3 - nt4 b) * 4 ^ (k - 1) else rReg k r

def cRun : List Nat → Nat
  | [] => 0
  | b :: r => if nt4 b < 4 then cRun r + 1 else 0

def stOf (k : Nat) (r : List Nat) : KG := ⟨fReg k r, rReg k r, min (cRun r) (k - 1)⟩

theorem fReg_lt (k : Nat) (r : List Nat) : fReg k r < 4 ^ k := by
  induction r with
  | nil => exact four_pow_pos k
  | cons b r ih =>
    unfold fReg
    split
    · exact Nat.mod_lt _ (four_pow_pos k)
    · exact ih

theorem rReg_lt {k : Nat} (hk1 : 1 ≤ k) (r : List Nat) : rReg k r < 4 ^ k := by
  induction r with
  | nil => exact four_pow_pos k
  | cons b r ih =>
    unfold rReg
    split
    · have hp : 4 ^ k = 4 ^ (k - 1) * 4 := by rw [← Nat.pow_succ]; congr 1; omega
      have hd : (3 - nt4 b) * 4 ^ (k - 1) ≤ 3 * 4 ^ (k - 1) := Nat.mul_le_mul_right _ (by omega)
      omega
    · exact ih

theorem step_stOf {k : Nat} (hk1 : 1 ≤ k) (hk : k ≤ 31) (r : List Nat) (b : Nat) :
    KG.step k (stOf k r) b =
      (stOf k (b :: r), if k ≤ cRun (b :: r) then some (fReg k (b :: r), rReg k (b :: r)) else none) := by
  unfold KG.step
  by_cases hv : nt4 b < 4
  · simp only [stOf, hv, if_true, fReg, rReg, cRun]
    rw [fwd_update hk (fReg_lt k r) hv, rev_update hk1 hk (rReg_lt hk1 r) hv]
    by_cases hc : k ≤ cRun r + 1
    · have e : min (cRun r) (k - 1) + 1 = k := by omega
      have e2 : min (cRun r + 1) (k - 1) = k - 1 := by omega
      rw [if_pos e, if_pos hc, e, e2]
    · have e : ¬ min (cRun r) (k - 1) + 1 = k := by omega
      have e2 : min (cRun r + 1) (k - 1) = min (cRun r) (k - 1) + 1 := by omega
      rw [if_neg e, if_neg hc, e2]
  · have h0 : ¬ (0 = k) := by omega
    have hc : ¬ k ≤ 0 := by omega
    simp only [stOf, hv, if_false, fReg, rReg, cRun, h0, hc, Nat.zero_min]

/-! ## the run splits at any point -/

def KG.final (k : Nat) (st : KG) (s : List Nat) : KG := s.foldl (fun st b => (KG.step k st b).1) st

theorem run_append (k : Nat) (st : KG) (s t : List Nat) :
    KG.run k st (s ++ t) = KG.run k st s ++ KG.run k (KG.final k st s) t := by
  induction s generalizing st with
  | nil => rfl
  | cons b s ih =>
    simp only [List.cons_append, KG.run, KG.final, List.foldl_cons]
    rcases h : KG.step k st b with ⟨st', o⟩
    cases o with
    | none => exact ih st'
    | some o => simp only [List.cons_append]; rw [ih st']; rfl

theorem final_concat (k : Nat) (st : KG) (s : List Nat) (b : Nat) :
    KG.final k st (s ++ [b]) = (KG.step k (KG.final k st s) b).1 := by
  simp [KG.final, List.foldl_append]

theorem final_reverse {k : Nat} (hk1 : 1 ≤ k) (hk : k ≤ 31) (r : List Nat) :
    KG.final k KG.init r.reverse = stOf k r := by
  induction r with
  | nil => simp [KG.final, stOf, KG.init, fReg, rReg, cRun]
  | cons b r ih => rw [List.reverse_cons, final_concat, ih, step_stOf hk1 hk]

/-! ## closed forms over a clean run -/

theorem cRun_ge_iff (k : Nat) (r : List Nat) :
    k ≤ cRun r ↔ (k ≤ r.length ∧ (r.take k).all clean = true) := by
  induction r generalizing k with
  | nil => cases k <;> simp [cRun]
  | cons b r ih =>
    cases k with
    | zero => simp
    | succ k =>
      unfold cRun
      by_cases hv : nt4 b < 4
      · have hb : clean b = true := (clean_iff b).2 hv
        simp only [hv, if_true, List.length_cons, List.take_succ_cons, List.all_cons, hb, Bool.true_and,
          Nat.add_le_add_iff_right]
        exact ih k
      · have hb : clean b = false := (clean_false_iff b).2 hv
        simp [hv, hb]

theorem fReg_append {k : Nat} {w : List Nat} (hw : w.all clean = true) (r : List Nat) :
    fReg k (w ++ r) = (fReg k r * 4 ^ w.length + enc w.reverse) % 4 ^ k := by
  induction w with
  | nil => simp [enc, encDigits, Nat.mod_eq_of_lt (fReg_lt k r)]
  | cons b w ih =>
    rw [List.all_cons, Bool.and_eq_true] at hw
    have hv := (clean_iff b).1 hw.1
    rw [List.cons_append, fReg, if_pos hv, ih hw.2, List.reverse_cons, enc_concat, List.length_cons,
      Nat.pow_succ, Nat.add_mod, Nat.mul_mod, Nat.mod_mod, ← Nat.mul_mod, ← Nat.add_mod]
    congr 1
    rw [Nat.add_mul, Nat.mul_assoc, Nat.add_assoc]

theorem rReg_append {k : Nat} {w : List Nat} (hw : w.all clean = true) (hl : w.length ≤ k) (r : List Nat) :
    rReg k (w ++ r) = rReg k r / 4 ^ w.length + rcEnc w.reverse * 4 ^ (k - w.length) := by
  induction w with
  | nil => simp [rcEnc, encDigits]
  | cons b w ih =>
    rw [List.all_cons, Bool.and_eq_true] at hw
    have hv := (clean_iff b).1 hw.1
    rw [List.length_cons] at hl
    rw [List.cons_append, rReg, if_pos hv, ih hw.2 (by omega), List.reverse_cons, rcEnc_concat,
      List.length_cons, List.length_reverse, Nat.pow_succ, ← Nat.div_div_eq_div_mul]
    have hp : 4 ^ (k - w.length) = 4 ^ (k - (w.length + 1)) * 4 := by
      rw [← Nat.pow_succ]; congr 1; omega
    have hq : 4 ^ w.length * 4 ^ (k - (w.length + 1)) = 4 ^ (k - 1) := by
      rw [← Nat.pow_add]; congr 1; omega
    rw [hp, ← Nat.mul_assoc, Nat.add_mul_div_right _ _ (by omega : 0 < 4), Nat.add_mul,
      Nat.mul_assoc, hq]
    unfold compDigit
    omega

theorem fReg_of_run {k : Nat} {r : List Nat} (h : k ≤ cRun r) : fReg k r = enc (r.take k).reverse := by
  obtain ⟨hl, hc⟩ := (cRun_ge_iff k r).1 h
  have := fReg_append (k := k) hc (r.drop k)
  rw [List.take_append_drop, List.length_take, Nat.min_eq_left hl, Nat.mul_comm,
    Nat.mul_add_mod] at this
  rw [this]
  apply Nat.mod_eq_of_lt
  have := enc_lt (w := (r.take k).reverse) (by simpa using hc)
  simpa [Nat.min_eq_left hl] using this

theorem rReg_of_run {k : Nat} (hk1 : 1 ≤ k) {r : List Nat} (h : k ≤ cRun r) :
    rReg k r = rcEnc (r.take k).reverse := by
  obtain ⟨hl, hc⟩ := (cRun_ge_iff k r).1 h
  have := rReg_append (k := k) hc (by rw [List.length_take]; exact Nat.min_le_left _ _) (r.drop k)
  rw [List.take_append_drop, List.length_take, Nat.min_eq_left hl, Nat.sub_self, Nat.pow_zero,
    Nat.mul_one, Nat.div_eq_of_lt (rReg_lt hk1 _), Nat.zero_add] at this
  exact this

/-! ## the main theorem -/

theorem kmers_eq_specKmers {k : Nat} (hk1 : 1 ≤ k) (hk : k ≤ 31) (s : List Nat) :
    kmers k s = specKmers k s := by
  suffices h : ∀ r : List Nat, kmers k r.reverse = specKmers k r.reverse by
    simpa using h s.reverse
  intro r
  induction r with
  | nil =>
    have : 0 + 1 - k = 0 := by omega
    simp [kmers, KG.run, specKmers, this]
  | cons b r ih =>
    rw [List.reverse_cons, specKmers_concat, ← ih]
    unfold kmers
    rw [run_append, final_reverse hk1 hk]
    congr 1
    have hd : (r.reverse ++ [b]).drop (r.reverse.length + 1 - k) = ((b :: r).take k).reverse := by
      rw [← List.reverse_cons, List.length_reverse, List.drop_reverse]
      by_cases hkl : k ≤ r.length + 1
      · congr 2; simp; omega
      · have : (b :: r).length - (r.length + 1 - k) = (b :: r).length := by simp; omega
        rw [this, List.take_length, List.take_of_length_le (by simp; omega)]
    rw [hd]
    have hrun : KG.run k (stOf k r) [b] =
        if k ≤ cRun (b :: r) then [(fReg k (b :: r), rReg k (b :: r))] else [] := by
      by_cases hc : k ≤ cRun (b :: r)
      · simp only [KG.run, step_stOf hk1 hk, if_pos hc]
      · simp only [KG.run, step_stOf hk1 hk, if_neg hc]
    rw [hrun]
    unfold itemIf
    have hiff := cRun_ge_iff k (b :: r)
    by_cases hc : k ≤ cRun (b :: r)
    · have h2 := hiff.1 hc
      have h3 : k ≤ ((b :: r).take k).reverse.length ∧ ((b :: r).take k).reverse.all clean = true := by
        refine ⟨?_, by simpa using h2.2⟩
        rw [List.length_reverse, List.length_take]
        exact Nat.le_min.2 ⟨Nat.le_refl _, h2.1⟩
      rw [if_pos hc, if_pos h3, fReg_of_run hc, rReg_of_run hk1 hc]
      rfl
    · have h3 : ¬ (k ≤ ((b :: r).take k).reverse.length ∧ ((b :: r).take k).reverse.all clean = true) := by
        intro h
        apply hc
        apply hiff.2
        refine ⟨?_, by simpa using h.2⟩
        have := h.1
        rw [List.length_reverse, List.length_take] at this
        exact (Nat.le_min.1 this).2
      rw [if_neg hc, if_neg h3]

end KT
