import KtVerif.Spec.Vectors
import KtVerif.Model.Vectors
/-!
# Chaos game representation: the exact specification walk (`cgrExactFrom`) and the `f64` loop shape

A state of the exact walk is `(i, (X, Y))`: the point `(X / 2^(i+1), Y / 2^(i+1))` after `i` bases.
-/
namespace KT.Fl
open KT

/-! ## corners -/

theorem corner_small : ∀ b < 118, cgrCorner b = cornerSpec b ∧ ((cornerSpec b).isSome = isNucLetter b) := by
  decide

theorem cgrCorner_eq_spec (b : Nat) : cgrCorner b = cornerSpec b := by
  by_cases h : b < 118
  · exact (corner_small b h).1
  · unfold cgrCorner cornerSpec
    repeat (rw [if_neg (by omega)])

theorem cornerSpec_isSome (b : Nat) : (cornerSpec b).isSome = isNucLetter b := by
  by_cases h : b < 118
  · exact (corner_small b h).2
  · have e1 : cornerSpec b = none := by
      unfold cornerSpec
      repeat (rw [if_neg (by omega)])
    have e2 : isNucLetter b = false := by
      unfold isNucLetter
      have hne : ∀ c, c < 118 → (b == c) = false := by
        intro c hc; simp only [beq_eq_false_iff_ne, ne_eq]; omega
      simp only [hne 65 (by omega), hne 97 (by omega), hne 67 (by omega), hne 99 (by omega), hne 71 (by omega),
        hne 103 (by omega), hne 84 (by omega), hne 116 (by omega), hne 85 (by omega), hne 117 (by omega),
        Bool.or_false]
    rw [e1, e2]; rfl

theorem cornerSpec_none_iff (b : Nat) : cornerSpec b = none ↔ isNucLetter b = false := by
  rw [← cornerSpec_isSome]
  cases cornerSpec b <;> simp

theorem cornerSpec_le_one (b cx cy : Nat) (h : cornerSpec b = some (cx, cy)) : cx ≤ 1 ∧ cy ≤ 1 := by
  unfold cornerSpec at h
  split at h
  · cases h; omega
  split at h
  · cases h; omega
  split at h
  · cases h; omega
  split at h
  · cases h; omega
  · cases h

/-! ## unfolding -/

theorem cgrExactFrom_nil (S i : Nat) (P : Nat × Nat) : cgrExactFrom S i P [] = some [] := by
  unfold cgrExactFrom; rfl

theorem cgrExactFrom_cons_none (S i : Nat) (P : Nat × Nat) (b : Nat) (bs : List Nat)
    (h : cornerSpec b = none) : cgrExactFrom S i P (b :: bs) = none := by
  obtain ⟨X, Y⟩ := P
  rw [cgrExactFrom, h]

theorem cgrExactFrom_cons_some (S i X Y : Nat) (b : Nat) (bs : List Nat) (cx cy : Nat)
    (h : cornerSpec b = some (cx, cy)) :
    cgrExactFrom S i (X, Y) (b :: bs) =
      (cgrExactFrom S (i + 1) (cx * S * 2 ^ (i + 1) + X, cy * S * 2 ^ (i + 1) + Y) bs).map
        fun rest => (cx * S * 2 ^ (i + 1) + X, cy * S * 2 ^ (i + 1) + Y, i + 2) :: rest := by
  rw [cgrExactFrom, h]
  simp only
  cases cgrExactFrom S (i + 1) (cx * S * 2 ^ (i + 1) + X, cy * S * 2 ^ (i + 1) + Y) bs <;> rfl

theorem cgrLoop_nil (S : Nat) (P : Nat × Nat) : cgrLoop S P [] = some [] := by
  unfold cgrLoop; rfl

theorem cgrLoop_cons_none (S : Nat) (P : Nat × Nat) (b : Nat) (bs : List Nat)
    (h : cornerSpec b = none) : cgrLoop S P (b :: bs) = none := by
  obtain ⟨x, y⟩ := P
  rw [cgrLoop, cgrCorner_eq_spec, h]

theorem cgrLoop_cons_some (S x y : Nat) (b : Nat) (bs : List Nat) (cx cy : Nat)
    (h : cornerSpec b = some (cx, cy)) :
    cgrLoop S (x, y) (b :: bs) =
      (cgrLoop S (cgrMid (cx * f64OfNat S) x, cgrMid (cy * f64OfNat S) y) bs).map
        fun rest => (cgrMid (cx * f64OfNat S) x, cgrMid (cy * f64OfNat S) y) :: rest := by
  rw [cgrLoop, cgrCorner_eq_spec, h]
  simp only
  cases cgrLoop S (cgrMid (cx * f64OfNat S) x, cgrMid (cy * f64OfNat S) y) bs <;> rfl

/-! ## rejection -/

theorem cgrExactFrom_none_iff (S : Nat) (s : List Nat) : ∀ (i : Nat) (P : Nat × Nat),
    cgrExactFrom S i P s = none ↔ ∃ b ∈ s, isNucLetter b = false := by
  induction s with
  | nil => intro i P; simp [cgrExactFrom_nil]
  | cons b bs ih =>
    intro i P
    obtain ⟨X, Y⟩ := P
    cases hc : cornerSpec b with
    | none =>
      rw [cgrExactFrom_cons_none S i _ b bs hc]
      simp only [List.mem_cons, true_iff]
      exact ⟨b, Or.inl rfl, (cornerSpec_none_iff b).1 hc⟩
    | some c =>
      obtain ⟨cx, cy⟩ := c
      rw [cgrExactFrom_cons_some S i X Y b bs cx cy hc, Option.map_eq_none_iff, ih]
      have hb : ¬ isNucLetter b = false := by
        intro h; rw [← cornerSpec_none_iff, hc] at h; cases h
      constructor
      · rintro ⟨c, hc1, hc2⟩; exact ⟨c, List.mem_cons_of_mem _ hc1, hc2⟩
      · rintro ⟨c, hc1, hc2⟩
        rcases List.mem_cons.1 hc1 with rfl | hm
        · exact absurd hc2 hb
        · exact ⟨c, hm, hc2⟩

theorem cgrLoop_none_iff (S : Nat) (s : List Nat) : ∀ (P : Nat × Nat),
    cgrLoop S P s = none ↔ ∃ b ∈ s, isNucLetter b = false := by
  induction s with
  | nil => intro P; simp [cgrLoop_nil]
  | cons b bs ih =>
    intro P
    obtain ⟨x, y⟩ := P
    cases hc : cornerSpec b with
    | none =>
      rw [cgrLoop_cons_none S _ b bs hc]
      simp only [List.mem_cons, true_iff]
      exact ⟨b, Or.inl rfl, (cornerSpec_none_iff b).1 hc⟩
    | some c =>
      obtain ⟨cx, cy⟩ := c
      rw [cgrLoop_cons_some S x y b bs cx cy hc, Option.map_eq_none_iff, ih]
      have hb : ¬ isNucLetter b = false := by
        intro h; rw [← cornerSpec_none_iff, hc] at h; cases h
      constructor
      · rintro ⟨c, hc1, hc2⟩; exact ⟨c, List.mem_cons_of_mem _ hc1, hc2⟩
      · rintro ⟨c, hc1, hc2⟩
        rcases List.mem_cons.1 hc1 with rfl | hm
        · exact absurd hc2 hb
        · exact ⟨c, hm, hc2⟩

/-! ## length -/

theorem cgrExactFrom_length (S : Nat) (s : List Nat) : ∀ (i : Nat) (P : Nat × Nat) (l : List (Nat × Nat × Nat)),
    cgrExactFrom S i P s = some l → l.length = s.length := by
  induction s with
  | nil => intro i P l h; rw [cgrExactFrom_nil] at h; cases h; rfl
  | cons b bs ih =>
    intro i P l h
    obtain ⟨X, Y⟩ := P
    cases hc : cornerSpec b with
    | none => rw [cgrExactFrom_cons_none S i _ b bs hc] at h; cases h
    | some c =>
      obtain ⟨cx, cy⟩ := c
      rw [cgrExactFrom_cons_some S i X Y b bs cx cy hc, Option.map_eq_some_iff] at h
      obtain ⟨rest, hr, rfl⟩ := h
      simp only [List.length_cons, ih _ _ _ hr]

theorem cgrLoop_length (S : Nat) (s : List Nat) : ∀ (P : Nat × Nat) (l : List (Nat × Nat)),
    cgrLoop S P s = some l → l.length = s.length := by
  induction s with
  | nil => intro P l h; rw [cgrLoop_nil] at h; cases h; rfl
  | cons b bs ih =>
    intro P l h
    obtain ⟨x, y⟩ := P
    cases hc : cornerSpec b with
    | none => rw [cgrLoop_cons_none S _ b bs hc] at h; cases h
    | some c =>
      obtain ⟨cx, cy⟩ := c
      rw [cgrLoop_cons_some S x y b bs cx cy hc, Option.map_eq_some_iff] at h
      obtain ⟨rest, hr, rfl⟩ := h
      simp only [List.length_cons, ih _ _ hr]

/-! ## prefixes -/

theorem cgrExactFrom_prefix (S : Nat) (s t : List Nat) : ∀ (i : Nat) (P : Nat × Nat) (l : List (Nat × Nat × Nat)),
    cgrExactFrom S i P (s ++ t) = some l → cgrExactFrom S i P s = some (l.take s.length) := by
  induction s with
  | nil => intro i P l _; rw [cgrExactFrom_nil]; rfl
  | cons b bs ih =>
    intro i P l h
    obtain ⟨X, Y⟩ := P
    rw [List.cons_append] at h
    cases hc : cornerSpec b with
    | none => rw [cgrExactFrom_cons_none S i _ b _ hc] at h; cases h
    | some c =>
      obtain ⟨cx, cy⟩ := c
      rw [cgrExactFrom_cons_some S i X Y b _ cx cy hc, Option.map_eq_some_iff] at h
      obtain ⟨rest, hr, rfl⟩ := h
      rw [cgrExactFrom_cons_some S i X Y b _ cx cy hc, ih _ _ _ hr]
      rfl

theorem cgrLoop_prefix (S : Nat) (s t : List Nat) : ∀ (P : Nat × Nat) (l : List (Nat × Nat)),
    cgrLoop S P (s ++ t) = some l → cgrLoop S P s = some (l.take s.length) := by
  induction s with
  | nil => intro P l _; rw [cgrLoop_nil]; rfl
  | cons b bs ih =>
    intro P l h
    obtain ⟨x, y⟩ := P
    rw [List.cons_append] at h
    cases hc : cornerSpec b with
    | none => rw [cgrLoop_cons_none S _ b _ hc] at h; cases h
    | some c =>
      obtain ⟨cx, cy⟩ := c
      rw [cgrLoop_cons_some S x y b _ cx cy hc, Option.map_eq_some_iff] at h
      obtain ⟨rest, hr, rfl⟩ := h
      rw [cgrLoop_cons_some S x y b _ cx cy hc, ih _ _ hr]
      rfl

/-! ## append: the run on `s ++ t` is the run on `s` followed by the run on `t` from the last state -/

theorem cgrExactFrom_append (S : Nat) (s t : List Nat) : ∀ (i X Y : Nat) (l : List (Nat × Nat × Nat)),
    cgrExactFrom S i (X, Y) (s ++ t) = some l →
    ∃ l1 l2, cgrExactFrom S i (X, Y) s = some l1 ∧ l = l1 ++ l2 ∧
      cgrExactFrom S ((l1.getLastD (X, Y, i + 1)).2.2 - 1)
        ((l1.getLastD (X, Y, i + 1)).1, (l1.getLastD (X, Y, i + 1)).2.1) t = some l2 := by
  induction s with
  | nil =>
    intro i X Y l h
    exact ⟨[], l, cgrExactFrom_nil _ _ _, rfl, h⟩
  | cons b bs ih =>
    intro i X Y l h
    rw [List.cons_append] at h
    cases hc : cornerSpec b with
    | none => rw [cgrExactFrom_cons_none S i _ b _ hc] at h; cases h
    | some c =>
      obtain ⟨cx, cy⟩ := c
      rw [cgrExactFrom_cons_some S i X Y b _ cx cy hc, Option.map_eq_some_iff] at h
      obtain ⟨rest, hr, rfl⟩ := h
      obtain ⟨l1, l2, h1, h2, h3⟩ := ih _ _ _ _ hr
      refine ⟨(cx * S * 2 ^ (i + 1) + X, cy * S * 2 ^ (i + 1) + Y, i + 2) :: l1, l2, ?_, ?_, ?_⟩
      · rw [cgrExactFrom_cons_some S i X Y b _ cx cy hc, h1]; rfl
      · rw [h2]; rfl
      · rw [List.getLastD_cons]
        exact h3

/-! ## the exact points lie in the square -/

theorem cgrExactFrom_in_square (S : Nat) (s : List Nat) : ∀ (i X Y : Nat) (l : List (Nat × Nat × Nat)),
    X ≤ S * 2 ^ (i + 1) → Y ≤ S * 2 ^ (i + 1) → cgrExactFrom S i (X, Y) s = some l →
    ∀ p ∈ l, p.1 ≤ S * 2 ^ p.2.2 ∧ p.2.1 ≤ S * 2 ^ p.2.2 := by
  induction s with
  | nil => intro i X Y l _ _ h; rw [cgrExactFrom_nil] at h; cases h; intro p hp; cases hp
  | cons b bs ih =>
    intro i X Y l hX hY h
    cases hc : cornerSpec b with
    | none => rw [cgrExactFrom_cons_none S i _ b _ hc] at h; cases h
    | some c =>
      obtain ⟨cx, cy⟩ := c
      rw [cgrExactFrom_cons_some S i X Y b _ cx cy hc, Option.map_eq_some_iff] at h
      obtain ⟨rest, hr, rfl⟩ := h
      obtain ⟨hcx, hcy⟩ := cornerSpec_le_one b cx cy hc
      have hp2 : S * 2 ^ (i + 2) = S * 2 ^ (i + 1) + S * 2 ^ (i + 1) := by
        rw [Nat.pow_succ 2 (i + 1), ← Nat.mul_assoc]; omega
      have hX' : cx * S * 2 ^ (i + 1) + X ≤ S * 2 ^ (i + 2) := by
        have : cx * S * 2 ^ (i + 1) ≤ 1 * S * 2 ^ (i + 1) :=
          Nat.mul_le_mul_right _ (Nat.mul_le_mul_right _ hcx)
        rw [Nat.one_mul] at this; omega
      have hY' : cy * S * 2 ^ (i + 1) + Y ≤ S * 2 ^ (i + 2) := by
        have : cy * S * 2 ^ (i + 1) ≤ 1 * S * 2 ^ (i + 1) :=
          Nat.mul_le_mul_right _ (Nat.mul_le_mul_right _ hcy)
        rw [Nat.one_mul] at this; omega
      intro p hp
      rcases List.mem_cons.1 hp with rfl | hm
      · exact ⟨hX', hY'⟩
      · exact ih (i + 1) _ _ rest hX' hY' hr p hm

/-! ## closed form of the last point -/

/-- binary code of the corner coordinates of a suffix: base `t` of the suffix weighs `2^t` -/
def codeX : List Nat → Nat
  | [] => 0
  | b :: bs => ((cornerSpec b).getD (0, 0)).1 + 2 * codeX bs

def codeY : List Nat → Nat
  | [] => 0
  | b :: bs => ((cornerSpec b).getD (0, 0)).2 + 2 * codeY bs

theorem cgrExactFrom_last (S : Nat) (q : List Nat) : ∀ (i X Y : Nat) (l : List (Nat × Nat × Nat)),
    cgrExactFrom S i (X, Y) q = some l →
    l.getLastD (X, Y, i + 1) =
      (X + 2 ^ (i + 1) * S * codeX q, Y + 2 ^ (i + 1) * S * codeY q, i + 1 + q.length) := by
  induction q with
  | nil =>
    intro i X Y l h
    rw [cgrExactFrom_nil] at h; cases h
    simp [codeX, codeY]
  | cons b bs ih =>
    intro i X Y l h
    cases hc : cornerSpec b with
    | none => rw [cgrExactFrom_cons_none S i _ b _ hc] at h; cases h
    | some c =>
      obtain ⟨cx, cy⟩ := c
      rw [cgrExactFrom_cons_some S i X Y b _ cx cy hc, Option.map_eq_some_iff] at h
      obtain ⟨rest, hr, rfl⟩ := h
      rw [List.getLastD_cons, ih _ _ _ _ hr]
      simp only [codeX, codeY, hc, Option.getD_some, List.length_cons]
      have e : (2 : Nat) ^ (i + 1 + 1) = 2 * 2 ^ (i + 1) := by rw [Nat.pow_succ]; omega
      rw [e]
      refine Prod.ext ?_ (Prod.ext ?_ ?_)
      · simp only [Nat.mul_add, Nat.mul_comm, Nat.mul_left_comm, Nat.mul_assoc]; omega
      · simp only [Nat.mul_add, Nat.mul_comm, Nat.mul_left_comm, Nat.mul_assoc]; omega
      · simp only; omega

end KT.Fl
