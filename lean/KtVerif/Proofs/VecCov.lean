import KtVerif.Model.Vectors
import KtVerif.Proofs.VecAccum
import KtVerif.Props.C01
/-!
# Helpers for C08: coverage histogram of a record
-/
namespace KT.Vec
open KT

theorem binOf_lt' (binSize binCount c : Nat) (hbc : 1 ≤ binCount) : binOf binSize binCount c < binCount := by
  unfold binOf
  have := Nat.min_le_right (c / binSize) (binCount - 1)
  omega

theorem binOf_saturates' (binSize binCount c : Nat) (hbs : 1 ≤ binSize) (h : (binCount - 1) * binSize ≤ c) :
    binOf binSize binCount c = binCount - 1 := by
  unfold binOf
  exact Nat.min_eq_right ((Nat.le_div_iff_mul_le hbs).2 h)

/-- the bin of an item, specification side -/
def binIdx (binSize binCount : Nat) (cnt : Nat → Nat) (p : Nat × Nat) : Nat :=
  binOf binSize binCount (cnt (canonPair p))

theorem covRowSpec_eq_hits (k binSize binCount : Nat) (cnt : Nat → Nat) (s : List Nat) :
    covRowSpec k binSize binCount cnt s =
      (List.range binCount).map (hits (binIdx binSize binCount cnt) (specKmers k s)) := by
  show (List.range binCount).map (covSpec k binSize binCount cnt s) = _
  apply List.map_congr_left
  intro b _
  show hits (fun x => binOf binSize binCount (cnt x)) ((specKmers k s).map canonPair) b = _
  rw [hits_map]
  rfl

theorem covCounts_eq_accum (k binSize binCount : Nat) (cnt : Nat → Nat) (s : List Nat) :
    covCounts k binSize binCount cnt s =
      (((kmers k s).foldl (bump fun p => min (covBinF64 (cnt (min p.1 p.2)) binSize) (binCount - 1))
          (Array.replicate binCount 0, 0)).1.toList,
       ((kmers k s).foldl (bump fun p => min (covBinF64 (cnt (min p.1 p.2)) binSize) (binCount - 1))
          (Array.replicate binCount 0, 0)).2) := rfl

theorem covCounts_eq (k binSize binCount : Nat) (cnt : Nat → Nat) (s : List Nat)
    (hk1 : 1 ≤ k) (hk : k ≤ 31)
    (hbin : ∀ x, covBinF64 (cnt x) binSize = cnt x / binSize) :
    covCounts k binSize binCount cnt s = (covRowSpec k binSize binCount cnt s, windowCount k s) := by
  rw [covCounts_eq_accum, accum_toList, kmerGen_eq_spec k s hk1 hk, covRowSpec_eq_hits]
  refine Prod.ext ?_ rfl
  show (List.range binCount).map _ = (List.range binCount).map _
  apply List.map_congr_left
  intro b _
  apply hits_congr
  intro p _
  rw [hbin]
  exact Iff.rfl

theorem covRowSpec_sum (k binSize binCount : Nat) (cnt : Nat → Nat) (s : List Nat) (hbc : 1 ≤ binCount) :
    (covRowSpec k binSize binCount cnt s).sum = windowCount k s := by
  rw [covRowSpec_eq_hits]
  apply sum_hits _ _ List.nodup_range
  intro p _
  rw [List.mem_range]
  exact binOf_lt' _ _ _ hbc

theorem covRowSpec_zero (k binSize binCount : Nat) (cnt : Nat → Nat) (s : List Nat)
    (h : windowCount k s = 0) : ∀ x ∈ covRowSpec k binSize binCount cnt s, x = 0 := by
  rw [covRowSpec_eq_hits, List.eq_nil_of_length_eq_zero h]
  exact hits_zero_of_nil _ _

end KT.Vec
