import KtVerif.Spec.Kmer
import KtVerif.Model.Kmer
import KtVerif.Proofs.CanonCount
/-!
# Helpers for C03 (canonical k-mer table)

`KT.Canon.rc` (from `CanonCount`) is the arithmetic form of the reverse complement; here it is
linked to the digit-list specification `revCompSpec`, to the bit loop `revComp`, and the list /
array facts about `minMerVec`, `posMapOf`, `digitsOf` are established.
-/
namespace KT.Canon
open KT

/-! ## `encDigits`, `digitsOf`, `revCompSpec = rc` -/

theorem foldl_enc (ds : List Nat) (a : Nat) :
    ds.foldl (fun a d => a * 4 + d) a
      = a * 4 ^ ds.length + ds.foldl (fun a d => a * 4 + d) 0 := by
  induction ds generalizing a with
  | nil => simp
  | cons d ds ih =>
    simp only [List.foldl_cons, List.length_cons]
    rw [ih (a * 4 + d), ih (0 * 4 + d), Nat.pow_succ]
    ring

theorem encDigits_cons (d : Nat) (ds : List Nat) :
    encDigits (d :: ds) = d * 4 ^ ds.length + encDigits ds := by
  unfold encDigits
  rw [List.foldl_cons, foldl_enc]
  simp

theorem length_digitsOf (k x : Nat) : (digitsOf k x).length = k := by
  induction k generalizing x with
  | zero => simp [digitsOf]
  | succ k ih => simp [digitsOf, ih]

theorem revCompSpec_eq_rc (k x : Nat) : revCompSpec k x = rc k x := by
  induction k generalizing x with
  | zero => simp [revCompSpec, digitsOf, encDigits, rc]
  | succ k ih =>
    have h := ih (x / 4)
    unfold revCompSpec at h ⊢
    simp only [digitsOf, List.reverse_append, List.reverse_singleton, List.singleton_append,
      List.map_cons, encDigits_cons, List.length_map, List.length_reverse, length_digitsOf, h,
      compDigit, rc]

theorem revCompSpec_lt (k x : Nat) : revCompSpec k x < 4 ^ k := by
  rw [revCompSpec_eq_rc]; exact rc_lt k x

theorem revCompSpec_invol (k x : Nat) (hx : x < 4 ^ k) :
    revCompSpec k (revCompSpec k x) = x := by
  rw [revCompSpec_eq_rc, revCompSpec_eq_rc]; exact rc_rc k x hx

/-! ## the bit loop `revComp` -/

theorem xor3 : ∀ d, d < 4 → d ^^^ 3 = 3 - d := by decide

theorem and3 (x : Nat) : x &&& 3 = x % 4 := Nat.and_two_pow_sub_one_eq_mod x 2

theorem shr2 (x : Nat) : x >>> 2 = x / 4 := Nat.shiftRight_eq_div_pow x 2

theorem shl2_or (r d : Nat) (hd : d < 4) : (r <<< 2) ||| d = r * 4 + d := by
  have h : d < 2 ^ 2 := hd
  rw [← Nat.shiftLeft_add_eq_or_of_lt h r, Nat.shiftLeft_eq]

theorem revCompLoop_eq (n : Nat) : ∀ (m x r : Nat), r < 4 ^ m → m + n ≤ 32 →
    revCompLoop n x r = r * 4 ^ n + rc n x := by
  induction n with
  | zero => intro m x r _ _; simp [revCompLoop, rc]
  | succ n ih =>
    intro m x r hr hm
    have hm31 : m ≤ 31 := by omega
    have hpow : (4 : Nat) ^ m ≤ 4 ^ 31 := Nat.pow_le_pow_right (by decide) hm31
    have h64 : (4 : Nat) ^ 31 * 4 = 2 ^ 64 := by norm_num
    have hd : (x % 4) ^^^ 3 = 3 - x % 4 := xor3 _ (Nat.mod_lt _ (by decide))
    have hd4 : 3 - x % 4 < 4 := by omega
    have hshl : shl64 r 2 = r <<< 2 := by
      unfold shl64 W64
      apply Nat.mod_eq_of_lt
      rw [Nat.shiftLeft_eq]
      have : (2 : Nat) ^ 2 = 4 := by decide
      omega
    have hr' : r * 4 + (3 - x % 4) < 4 ^ (m + 1) := by
      rw [Nat.pow_succ]; omega
    have hstep : revCompLoop (n + 1) x r = revCompLoop n (x / 4) (r * 4 + (3 - x % 4)) := by
      show revCompLoop n (x >>> 2) (shl64 r 2 ||| ((x &&& 3) ^^^ 3)) = _
      rw [and3, shr2, hd, hshl, shl2_or r _ hd4]
    rw [hstep, ih (m + 1) (x / 4) _ hr' (by omega)]
    show _ = r * 4 ^ (n + 1) + ((3 - x % 4) * 4 ^ n + rc n (x / 4))
    generalize 3 - x % 4 = d
    rw [Nat.pow_succ]
    ring

theorem revComp_eq_rc (k x : Nat) (hk : k ≤ 31) : revComp k x = rc k x := by
  unfold revComp
  rw [revCompLoop_eq k 0 x 0 (by simp) (by omega)]
  simp

theorem revComp_eq_spec (k x : Nat) (hk : k ≤ 31) : revComp k x = revCompSpec k x := by
  rw [revComp_eq_rc k x hk, revCompSpec_eq_rc]

/-! ## `numericToKmer = decodeSpec` -/

theorem numericToKmerLoop_eq (n : Nat) : ∀ (x : Nat) (acc : List Nat),
    numericToKmerLoop n x acc = (digitsOf n x).map letterOf ++ acc := by
  induction n with
  | zero => intro x acc; simp [numericToKmerLoop, digitsOf]
  | succ n ih =>
    intro x acc
    show numericToKmerLoop n (x >>> 2) (letterOf (x &&& 3) :: acc) = _
    rw [ih, and3, shr2]
    simp [digitsOf]

theorem numericToKmer_eq (k x : Nat) : numericToKmer k x = decodeSpec k x := by
  unfold numericToKmer decodeSpec
  rw [numericToKmerLoop_eq]; simp

/-! ## `canonList` -/

theorem mem_canonList_rc (k x : Nat) : x ∈ canonList k ↔ (x < 4 ^ k ∧ x ≤ rc k x) := by
  unfold canonList
  simp [List.mem_filter, List.mem_range, revCompSpec_eq_rc]

theorem canonList_pairwise (k : Nat) : (canonList k).Pairwise (· < ·) := by
  unfold canonList
  exact List.Pairwise.filter _ List.pairwise_lt_range

theorem zero_mem_canonList (k : Nat) : 0 ∈ canonList k := by
  rw [mem_canonList_rc]
  exact ⟨Nat.pow_pos (by decide), Nat.zero_le _⟩

/-! ## `dedupAdj`, sorted lists -/

theorem mem_dedupAdj (l : List Nat) (z : Nat) : z ∈ dedupAdj l ↔ z ∈ l := by
  fun_induction dedupAdj l with
  | case1 => simp
  | case2 x => simp
  | case3 x rest ih =>
    rw [ih]; simp
  | case4 x y rest h ih =>
    simp only [List.mem_cons] at ih ⊢
    rw [ih]

theorem dedupAdj_sorted (l : List Nat) (h : l.Pairwise (· ≤ ·)) :
    (dedupAdj l).Pairwise (· < ·) := by
  fun_induction dedupAdj l with
  | case1 => simp
  | case2 x => simp
  | case3 x rest ih => exact ih (List.Pairwise.of_cons h)
  | case4 x y rest hxy ih =>
    rw [List.pairwise_cons] at h ⊢
    refine ⟨?_, ih h.2⟩
    intro z hz
    rw [mem_dedupAdj] at hz
    have hxy' : x ≤ y := h.1 y (by simp)
    have hyz : y ≤ z := by
      rcases List.mem_cons.1 hz with rfl | hz'
      · exact Nat.le_refl _
      · exact (List.pairwise_cons.1 h.2).1 z hz'
    omega

theorem eq_of_sorted_of_mem_iff : ∀ (l₁ l₂ : List Nat),
    l₁.Pairwise (· < ·) → l₂.Pairwise (· < ·) → (∀ x, x ∈ l₁ ↔ x ∈ l₂) → l₁ = l₂
  | [], [], _, _, _ => rfl
  | [], b :: t, _, _, h => by have := (h b).2 (by simp); simp at this
  | a :: s, [], _, _, h => by have := (h a).1 (by simp); simp at this
  | a :: s, b :: t, h₁, h₂, h => by
    rw [List.pairwise_cons] at h₁ h₂
    have hab : a = b := by
      have ha := (h a).1 (by simp)
      have hb := (h b).2 (by simp)
      rcases List.mem_cons.1 ha with e | ha'
      · exact e
      · rcases List.mem_cons.1 hb with e | hb'
        · exact e.symm
        · have := h₁.1 b hb'; have := h₂.1 a ha'; omega
    subst hab
    congr 1
    apply eq_of_sorted_of_mem_iff s t h₁.2 h₂.2
    intro x
    constructor
    · intro hx
      rcases List.mem_cons.1 ((h x).1 (List.mem_cons_of_mem _ hx)) with e | hx'
      · have := h₁.1 x hx; omega
      · exact hx'
    · intro hx
      rcases List.mem_cons.1 ((h x).2 (List.mem_cons_of_mem _ hx)) with e | hx'
      · have := h₂.1 x hx; omega
      · exact hx'

theorem minMerVec_eq (k : Nat) (hk : k ≤ 31) : minMerVec k = canonList k := by
  apply eq_of_sorted_of_mem_iff
  · apply dedupAdj_sorted
    have := List.pairwise_mergeSort (le := fun a b : Nat => decide (a ≤ b))
      (by intro a b c; simp only [decide_eq_true_eq]; omega)
      (by intro a b; simp only [Bool.or_eq_true, decide_eq_true_eq]; omega)
      ((List.range (4 ^ k)).map fun x => min x (revComp k x))
    exact this.imp (by intro a b h; simpa using h)
  · exact canonList_pairwise k
  · intro x
    unfold minMerVec
    rw [mem_dedupAdj, List.mem_mergeSort, List.mem_map, mem_canonList_rc]
    constructor
    · rintro ⟨y, hy, rfl⟩
      rw [List.mem_range] at hy
      rw [revComp_eq_rc k y hk]
      have h1 := rc_lt k y
      have h2 := rc_rc k y hy
      rcases Nat.le_total y (rc k y) with hle | hle
      · rw [Nat.min_eq_left hle]; exact ⟨hy, hle⟩
      · rw [Nat.min_eq_right hle]; exact ⟨h1, by rw [h2]; exact hle⟩
    · rintro ⟨hx, hle⟩
      exact ⟨x, List.mem_range.2 hx, by rw [revComp_eq_rc k x hk]; exact Nat.min_eq_left hle⟩

/-! ## `posMapOf` -/

theorem fold_size (l : List Nat) : ∀ (n : Nat) (arr : Array Nat),
    ((l.zipIdx n).foldl (fun arr (p : Nat × Nat) => arr.setIfInBounds p.1 p.2) arr).size
      = arr.size := by
  induction l with
  | nil => intro n arr; simp
  | cons a t ih => intro n arr; simp [ih]

theorem fold_get_not_mem (l : List Nat) (j : Nat) (hj : j ∉ l) : ∀ (n : Nat) (arr : Array Nat),
    ((l.zipIdx n).foldl (fun arr (p : Nat × Nat) => arr.setIfInBounds p.1 p.2) arr)[j]?
      = arr[j]? := by
  induction l with
  | nil => intro n arr; simp
  | cons a t ih =>
    intro n arr
    rw [List.mem_cons, not_or] at hj
    rw [List.zipIdx_cons, List.foldl_cons, ih hj.2]
    exact Array.getElem?_setIfInBounds_ne (fun e => hj.1 e.symm)

theorem fold_get_rank (l : List Nat) (hl : l.Pairwise (· < ·)) :
    ∀ (n : Nat) (arr : Array Nat) (i : Nat) (hi : i < l.length), l[i] < arr.size →
    ((l.zipIdx n).foldl (fun arr (p : Nat × Nat) => arr.setIfInBounds p.1 p.2) arr)[l[i]]?
      = some (n + i) := by
  induction l with
  | nil => intro n arr i hi; simp at hi
  | cons a t ih =>
    intro n arr i hi hb
    rw [List.pairwise_cons] at hl
    rw [List.zipIdx_cons, List.foldl_cons]
    cases i with
    | zero =>
      simp only [List.getElem_cons_zero] at hb ⊢
      have hnot : a ∉ t := fun h => Nat.lt_irrefl _ (hl.1 a h)
      rw [fold_get_not_mem t a hnot]
      simpa using Array.getElem?_setIfInBounds_self_of_lt hb
    | succ i =>
      simp only [List.getElem_cons_succ] at hb ⊢
      have hi' : i < t.length := by simpa using hi
      have := ih hl.2 (n + 1) (arr.setIfInBounds a n) i hi' (by simpa using hb)
      rw [this]; congr 1; omega

theorem posMapOf_size (k : Nat) (mv : List Nat) : (posMapOf k mv).size = 4 ^ k := by
  unfold posMapOf; rw [fold_size]; simp

theorem posMapOf_rank (k : Nat) (mv : List Nat) (hs : mv.Pairwise (· < ·))
    (i : Nat) (hi : i < mv.length) (hb : mv[i] < 4 ^ k) : (posMapOf k mv)[mv[i]]! = i := by
  have h := fold_get_rank mv hs 0 (Array.replicate (4 ^ k) 0) i hi (by simpa using hb)
  unfold posMapOf
  rw [getElem!_def, h]; simp

theorem posMapOf_not_mem (k : Nat) (mv : List Nat) (x : Nat) (hn : x ∉ mv) :
    (posMapOf k mv)[x]! = 0 := by
  have h := fold_get_not_mem mv x hn 0 (Array.replicate (4 ^ k) 0)
  unfold posMapOf
  rw [getElem!_def, h, Array.getElem?_replicate]
  by_cases hx : x < 4 ^ k <;> simp [hx]

/-! ## counting -/

open Finset in
theorem canonList_length_eq_card (k : Nat) : (canonList k).length = (canonS k).card := by
  have hnd : (canonList k).Nodup := (canonList_pairwise k).imp (fun h => Nat.ne_of_lt h)
  rw [← List.toFinset_card_of_nodup hnd]
  congr 1
  ext x
  simp [mem_canonList_rc, canonS, codes]

theorem rc_ne_self_odd (h x : Nat) : rc (h + 1 + h) x ≠ x := by
  intro he
  have hpos : 0 < 4 ^ h := Nat.pow_pos (by decide)
  have hb : x % 4 ^ h < 4 ^ h := Nat.mod_lt _ hpos
  have hx : x = (x / 4 ^ h) * 4 ^ h + x % 4 ^ h := by
    rw [Nat.mul_comm]; exact (Nat.div_add_mod x (4 ^ h)).symm
  have hc := rc_concat (h + 1) h (x / 4 ^ h) (x % 4 ^ h) hb
  rw [← hx, he] at hc
  have hr := rc_lt h (x / 4 ^ h / 4)
  have e1 : rc (h + 1) (x / 4 ^ h)
      = (3 - x / 4 ^ h % 4) * 4 ^ h + rc h (x / 4 ^ h / 4) := rfl
  rw [e1] at hc
  generalize x / 4 ^ h = a at hc hr hx
  generalize rc h (a / 4) = r at hc hr
  generalize rc h (x % 4 ^ h) = q at hc
  have e2 : q * 4 ^ (h + 1) + ((3 - a % 4) * 4 ^ h + r) = 4 ^ h * (q * 4 + (3 - a % 4)) + r := by
    rw [Nat.pow_succ]; ring
  rw [e2] at hc
  have hdiv := congrArg (· / 4 ^ h) hc
  rw [Nat.mul_add_div hpos, Nat.div_eq_of_lt hr] at hdiv
  have ha : x / 4 ^ h = a := by
    rw [hx, Nat.mul_comm, Nat.mul_add_div hpos, Nat.div_eq_of_lt hb]; rfl
  omega

open Finset in
theorem pal_odd (h : Nat) : (palS (h + 1 + h)).card = 0 := by
  rw [Finset.card_eq_zero, palS, Finset.filter_eq_empty_iff]
  intro x _
  exact rc_ne_self_odd h x

theorem canonList_length_formula (k : Nat) : (canonList k).length = kcountFormula k := by
  rw [canonList_length_eq_card]
  have hc := canon_card k
  unfold kcountFormula
  rcases Nat.mod_two_eq_zero_or_one k with hk | hk
  · rw [if_pos hk]
    have hkk : k = k / 2 + k / 2 := by omega
    have hp := pal_even (k / 2)
    rw [← hkk] at hp
    omega
  · rw [if_neg (by omega)]
    have hkk : k = k / 2 + 1 + k / 2 := by omega
    have hp := pal_odd (k / 2)
    rw [← hkk] at hp
    omega

/-! ## lexicographic order of decoded texts -/

theorem letterOf_mono (a b : Nat) (ha : a < 4) (hb : b < 4) (h : a < b) :
    letterOf a < letterOf b := by
  have : ∀ a, a < 4 → ∀ b, b < 4 → a < b → letterOf a < letterOf b := by decide
  exact this a ha b hb h

theorem lex_append_of_length_eq {r : Nat → Nat → Prop} {l₁ l₂ : List Nat}
    (h : List.Lex r l₁ l₂) (hl : l₁.length = l₂.length) (s t : List Nat) :
    List.Lex r (l₁ ++ s) (l₂ ++ t) := by
  induction h with
  | nil => simp at hl
  | rel h => exact List.Lex.rel h
  | cons _ ih => exact List.Lex.cons (ih (by simpa using hl))

theorem lex_append_left {r : Nat → Nat → Prop} (l : List Nat) {s t : List Nat}
    (h : List.Lex r s t) : List.Lex r (l ++ s) (l ++ t) := by
  induction l with
  | nil => exact h
  | cons a l ih => exact List.Lex.cons ih

theorem decodeSpec_lex (k : Nat) : ∀ (x y : Nat), x < 4 ^ k → y < 4 ^ k → x < y →
    List.Lex (· < ·) (decodeSpec k x) (decodeSpec k y) := by
  induction k with
  | zero => intro x y hx hy hxy; simp at hx hy; omega
  | succ k ih =>
    intro x y hx hy hxy
    rw [Nat.pow_succ] at hx hy
    have e : ∀ z, decodeSpec (k + 1) z = decodeSpec k (z / 4) ++ [letterOf (z % 4)] := by
      intro z; simp [decodeSpec, digitsOf]
    rw [e, e]
    rcases Nat.lt_or_ge (x / 4) (y / 4) with hlt | hge
    · apply lex_append_of_length_eq (ih (x / 4) (y / 4) (by omega) (by omega) hlt)
      simp [decodeSpec, length_digitsOf]
    · have heq : x / 4 = y / 4 := by omega
      rw [heq]
      apply lex_append_left
      exact List.Lex.rel (letterOf_mono _ _ (Nat.mod_lt _ (by decide)) (Nat.mod_lt _ (by decide))
        (by omega))

end KT.Canon
