import KtVerif.Proofs.MinimiserCodes
import KtVerif.Proofs.MinimiserLeftMin
import KtVerif.Proofs.MinimiserNaive
/-!
# Windows of the specification in terms of the clean suffix of the consumed prefix
-/
namespace KT.Min
open KT

theorem window_getElem? (k : Nat) (s : List Nat) (i n : Nat) :
    (window k s i)[n]? = if n < k then s[i + n]? else none := by
  simp only [window, List.getElem?_take, List.getElem?_drop]

theorem window_length_le (k : Nat) (s : List Nat) (i : Nat) : (window k s i).length ≤ k := by
  simp only [window, List.length_take]; omega

theorem mem_window {k : Nat} {s : List Nat} {i x : Nat} (h : x ∈ window k s i) : x ∈ s :=
  List.mem_of_mem_drop (List.mem_of_mem_take h)

/-- a window that lies inside the middle part of a concatenation -/
theorem window_mid (k i : Nat) (X Q R : List Nat) (h : i + k ≤ Q.length) :
    window k (X ++ Q ++ R) (X.length + i) = window k Q i := by
  apply List.ext_getElem?
  intro n
  rw [window_getElem?, window_getElem?]
  by_cases hn : n < k
  · rw [if_pos hn, if_pos hn, List.append_assoc,
      List.getElem?_append_right (by omega)]
    have e : X.length + i + n - X.length = i + n := by omega
    rw [e, List.getElem?_append_left (by omega)]
  · rw [if_neg hn, if_neg hn]

theorem canonAt_mid (m i : Nat) (X Q R : List Nat) (h : i + m ≤ Q.length) :
    canonAt m (X ++ Q ++ R) (X.length + i) = canonAt m Q i := by
  simp only [canonAt, window_mid m i X Q R h]

theorem window_last (k : Nat) (Q : List Nat) : window k Q (Q.length - k) = lastN k Q := by
  simp only [window, lastN]
  apply List.take_of_length_le
  simp only [List.length_drop]; omega

/-- the m-mer inside a w-window only contains bytes of that window -/
theorem mem_window_sub {w m : Nat} {s : List Nat} {i j x : Nat} (hj : j + m ≤ w)
    (hx : x ∈ window m s (i + j)) : x ∈ window w s i := by
  obtain ⟨n, hn⟩ := List.getElem?_of_mem hx
  rw [window_getElem?] at hn
  by_cases hnm : n < m
  · rw [if_pos hnm] at hn
    apply List.mem_of_getElem? (i := j + n)
    rw [window_getElem?, if_pos (by omega), ← hn]
    congr 1; omega
  · rw [if_neg hnm] at hn; cases hn

theorem canonAt_lt {m : Nat} {s : List Nat} {i : Nat} (h : ∀ b ∈ window m s i, clean b = true) :
    canonAt m s i < 4 ^ m := by
  have h1 := enc_lt (window m s i) h
  have h2 : 4 ^ (window m s i).length ≤ 4 ^ m :=
    Nat.pow_le_pow_right (by omega) (window_length_le m s i)
  have : canonAt m s i ≤ enc (window m s i) := by simp only [canonAt]; omega
  omega

/-! ## canonical codes of all m-mers of a clean stretch -/

def codes (m : Nat) (q : List Nat) : List Nat := (List.range (q.length + 1 - m)).map (canonAt m q)

theorem codes_length (m : Nat) (q : List Nat) : (codes m q).length = q.length + 1 - m := by
  simp [codes]

theorem codes_of_short {m : Nat} {q : List Nat} (h : q.length < m) : codes m q = [] := by
  have : q.length + 1 - m = 0 := by omega
  simp [codes, this]

theorem canonAt_last {m : Nat} (Q : List Nat) :
    canonAt m Q (Q.length - m) = min (enc (lastN m Q)) (rcEnc (lastN m Q)) := by
  simp only [canonAt, window_last]

theorem codes_snoc {m : Nat} (q : List Nat) (b : Nat) (h : m ≤ q.length + 1) :
    codes m (q ++ [b]) = codes m q ++ [canonAt m (q ++ [b]) ((q ++ [b]).length - m)] := by
  have e : (q ++ [b]).length + 1 - m = (q.length + 1 - m) + 1 := by simp; omega
  have e2 : (q ++ [b]).length - m = q.length + 1 - m := by simp
  simp only [codes]
  rw [e, List.range_succ, List.map_append, e2]
  congr 1
  apply List.map_congr_left
  intro j hj
  have hj' : j < q.length + 1 - m := by simpa using hj
  have := canonAt_mid m j [] q [b] (by omega)
  simpa using this

theorem codes_lt {m : Nat} {q : List Nat} (h : ∀ b ∈ q, clean b = true) :
    ∀ x ∈ codes m q, x < 4 ^ m := by
  intro x hx
  simp only [codes, List.mem_map] at hx
  obtain ⟨j, _, rfl⟩ := hx
  exact canonAt_lt (fun b hb => h b (mem_window hb))

/-- the value pushed into the ring buffer -/
theorem min_regs_eq {m : Nat} (hm1 : 1 ≤ m) {q : List Nat} (h : ∀ b ∈ q, clean b = true)
    (hq : m ≤ q.length) : min (regF m q) (regR m q) = canonAt m q (q.length - m) := by
  rw [canonAt_last, regF_eq_enc h hq, regR_eq_rcEnc hm1 hq]

/-- the m-mers of the window that ends with the clean stretch `Q` are the last `cap` codes -/
theorem mmers_eq {w m : Nat} (hmw : m ≤ w) (X Q R : List Nat) (hQ : w ≤ Q.length) :
    mmersOfWindow w m (X ++ Q ++ R) (X.length + (Q.length - w)) = lastN (w - m + 1) (codes m Q) := by
  apply List.ext_getElem?
  intro j
  simp only [mmersOfWindow, lastN, codes, List.getElem?_map, List.getElem?_drop, List.length_map,
    List.length_range]
  have e : Q.length + 1 - m - (w - m + 1) + j = Q.length - w + j := by omega
  rw [e]
  by_cases hj : j < w - m + 1
  · have hj2 : Q.length - w + j < Q.length + 1 - m := by omega
    simp only [List.getElem?_range hj, List.getElem?_range hj2, Option.map_some]
    rw [Nat.add_assoc, canonAt_mid m _ X Q R (by omega)]
  · have hj2 : ¬ Q.length - w + j < Q.length + 1 - m := by omega
    rw [List.getElem?_eq_none (by simpa using hj), List.getElem?_eq_none (by simpa using hj2)]
    rfl

/-- minimiser of the window completed by the last byte of the prefix, from its clean suffix -/
def pmQ (w m : Nat) (Q : List Nat) : Option Nat :=
  if w ≤ Q.length then some (listMin (lastN (w - m + 1) (codes m Q))) else none

theorem posMin_eq {w m : Nat} (hmw : m ≤ w) (p : List Nat) (b : Nat) (bs : List Nat) :
    posMin w m (p ++ b :: bs) p.length = pmQ w m (cleanSuffix (p ++ [b])) := by
  have hs : p ++ b :: bs = (p ++ [b]) ++ bs := by simp
  generalize hP : p ++ [b] = P at *
  have hPl : P.length = p.length + 1 := by rw [← hP]; simp
  rw [hs]
  have hQP := cleanSuffix_length_le P
  have hQeq := cleanSuffix_eq_lastN P
  generalize hQ : cleanSuffix P = Q at *
  simp only [posMin, pmQ]
  by_cases h1 : p.length + 1 < w
  · rw [if_pos h1, if_neg (by omega)]
  · rw [if_neg h1]
    have hi : p.length + 1 - w = P.length - w := by omega
    rw [hi]
    by_cases h2 : w ≤ Q.length
    · rw [if_pos h2]
      have hX := take_append_lastN Q.length P
      rw [← hQeq] at hX
      have hXl : (P.take (P.length - Q.length)).length = P.length - Q.length := by
        simp
      have hidx : P.length - w = (P.take (P.length - Q.length)).length + (Q.length - w) := by
        rw [hXl]; omega
      have hwin : window w (P ++ bs) (P.length - w) = window w Q (Q.length - w) := by
        conv => lhs; rw [hidx]; arg 2; rw [← hX]
        exact window_mid w _ _ Q bs (by omega)
      have hval : winValid w (P ++ bs) (P.length - w) = true := by
        simp only [winValid, hwin, Bool.and_eq_true, decide_eq_true_eq, List.all_eq_true]
        refine ⟨by simp; omega, ?_⟩
        intro x hx
        have := cleanSuffix_clean P
        rw [hQ] at this
        exact this x (mem_window hx)
      simp only [winMin, hval, if_true]
      congr 2
      conv => lhs; rw [hidx]; arg 3; rw [← hX]
      exact mmers_eq hmw _ Q bs h2
    · rw [if_neg h2]
      have hwin : window w (P ++ bs) (P.length - w) = lastN w P := by
        have := window_mid w (P.length - w) [] P bs (by omega)
        simp only [List.nil_append, List.length_nil, Nat.zero_add] at this
        rw [this, window_last]
      have hval : winValid w (P ++ bs) (P.length - w) = false := by
        apply Bool.eq_false_iff.2
        intro hv
        simp only [winValid, hwin, Bool.and_eq_true, decide_eq_true_eq, List.all_eq_true] at hv
        have := le_cleanSuffix_length (P.take (P.length - w)) (lastN w P) hv.2
        rw [take_append_lastN, hQ, lastN_length] at this
        omega
      simp only [winMin, hval]
      rfl

end KT.Min
