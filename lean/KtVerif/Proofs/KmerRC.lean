import KtVerif.Proofs.KmerGen
/-!
# Helper lemmas for C02: `revComp`, `numericToKmer`, and the digit-level specifications
-/
namespace KT

/-! ## `revComp` -/

theorem and3 (x : Nat) : x &&& 3 = x % 4 := Nat.and_two_pow_sub_one_eq_mod x 2

theorem shr2 (x : Nat) : x >>> 2 = x / 4 := by rw [Nat.shiftRight_eq_div_pow]

theorem revCompLoop_eq (n : Nat) : ∀ (m x r : Nat), m + n ≤ 31 → r < 4 ^ m →
    revCompLoop n x r = ((digitsOf n x).reverse.map compDigit).foldl (fun a d => a * 4 + d) r := by
  induction n with
  | zero => intro m x r _ _; rfl
  | succ n ih =>
    intro m x r hm hr
    have h62 : 4 ^ (m + 1) ≤ 2 ^ 62 := pow_le_62 (by omega)
    rw [Nat.pow_succ] at h62
    have hd : x % 4 < 4 := Nat.mod_lt _ (by omega)
    have hupd : shl64 r 2 ||| ((x &&& 3) ^^^ 3) = r * 4 + compDigit (x % 4) := by
      rw [and3, xor3 hd, shl2_or (by omega) (by omega)]; rfl
    have hr' : r * 4 + compDigit (x % 4) < 4 ^ (m + 1) := by
      rw [Nat.pow_succ]; have := compDigit_lt (x % 4); omega
    rw [revCompLoop, hupd, shr2, ih (m + 1) (x / 4) _ (by omega) hr', digitsOf]
    simp only [List.reverse_append, List.reverse_singleton, List.singleton_append, List.map_cons,
      List.foldl_cons]

theorem revComp_eq_revCompSpec {k : Nat} (hk : k ≤ 31) (x : Nat) : revComp k x = revCompSpec k x := by
  unfold revComp revCompSpec encDigits
  exact revCompLoop_eq k 0 x 0 (by omega) (by simp)

theorem revCompSpec_lt' (k x : Nat) : revCompSpec k x < 4 ^ k := by
  have := encDigits_lt ((digitsOf k x).reverse.map compDigit) (by
    intro d hd
    rw [List.mem_map] at hd
    obtain ⟨b, _, rfl⟩ := hd
    exact compDigit_lt b)
  simpa [revCompSpec, digitsOf_length] using this

theorem digitsOf_revCompSpec (k x : Nat) :
    digitsOf k (revCompSpec k x) = (digitsOf k x).reverse.map compDigit := by
  have := digitsOf_encDigits ((digitsOf k x).reverse.map compDigit) (by
    intro d hd
    rw [List.mem_map] at hd
    obtain ⟨b, _, rfl⟩ := hd
    exact compDigit_lt b)
  simpa [revCompSpec, digitsOf_length] using this

theorem map_compDigit_compDigit {ds : List Nat} (h : ∀ d ∈ ds, d < 4) :
    (ds.map compDigit).map compDigit = ds := by
  rw [List.map_map]
  conv => rhs; rw [← List.map_id ds]
  apply List.map_congr_left
  intro d hd
  exact compDigit_compDigit (h d hd)

theorem revCompSpec_revCompSpec {k x : Nat} (hx : x < 4 ^ k) : revCompSpec k (revCompSpec k x) = x := by
  conv => lhs; rw [revCompSpec, digitsOf_revCompSpec]
  rw [← List.map_reverse, List.reverse_reverse, map_compDigit_compDigit (digitsOf_lt k x),
    encDigits_digitsOf, Nat.mod_eq_of_lt hx]

/-! ## `numericToKmer` -/

theorem numericToKmerLoop_eq (n : Nat) : ∀ (x : Nat) (acc : List Nat),
    numericToKmerLoop n x acc = (digitsOf n x).map letterOf ++ acc := by
  induction n with
  | zero => intro x acc; rfl
  | succ n ih =>
    intro x acc
    rw [numericToKmerLoop, ih, shr2, and3, digitsOf]
    simp

theorem numericToKmer_eq_decodeSpec (k x : Nat) : numericToKmer k x = decodeSpec k x := by
  unfold numericToKmer decodeSpec
  rw [numericToKmerLoop_eq, List.append_nil]

/-! ## text ↔ code -/

theorem map_nt4_letterOf {ds : List Nat} (h : ∀ d ∈ ds, d < 4) : (ds.map letterOf).map nt4 = ds := by
  rw [List.map_map]
  conv => rhs; rw [← List.map_id ds]
  apply List.map_congr_left
  intro d hd
  exact nt4_letterOf (h d hd)

theorem enc_decodeSpec' {k x : Nat} (hx : x < 4 ^ k) : enc (decodeSpec k x) = x := by
  rw [enc, decodeSpec, map_nt4_letterOf (digitsOf_lt k x), encDigits_digitsOf, Nat.mod_eq_of_lt hx]

theorem nt4_lt_of_letter {c : Nat} (hc : c = 65 ∨ c = 67 ∨ c = 71 ∨ c = 84) : nt4 c < 4 := by
  rcases hc with h | h | h | h <;> subst h <;> decide

theorem decodeSpec_enc' (w : List Nat) (hw : ∀ c ∈ w, c = 65 ∨ c = 67 ∨ c = 71 ∨ c = 84) :
    decodeSpec w.length (enc w) = w := by
  have hlt : ∀ d ∈ w.map nt4, d < 4 := by
    intro d hd
    rw [List.mem_map] at hd
    obtain ⟨c, hc, rfl⟩ := hd
    exact nt4_lt_of_letter (hw c hc)
  have := digitsOf_encDigits (w.map nt4) hlt
  rw [List.length_map] at this
  rw [decodeSpec, enc, this, List.map_map]
  conv => rhs; rw [← List.map_id w]
  apply List.map_congr_left
  intro c hc
  exact letterOf_nt4 (hw c hc)

theorem all_clean_decodeSpec (k x : Nat) : (decodeSpec k x).all clean = true := by
  rw [List.all_eq_true]
  intro c hc
  rw [decodeSpec, List.mem_map] at hc
  obtain ⟨d, hd, rfl⟩ := hc
  rw [clean_iff, nt4_letterOf (digitsOf_lt k x d hd)]
  exact digitsOf_lt k x d hd

theorem revCompSpec_eq_text' (k x : Nat) : revCompSpec k x = enc (rcSeq (decodeSpec k x)) := by
  rw [enc_rcSeq (all_clean_decodeSpec k x), rcEnc, decodeSpec, map_nt4_letterOf (digitsOf_lt k x),
    revCompSpec]

/-! ## items -/

theorem specKmers_snd' (k : Nat) (s : List Nat) : ∀ p ∈ specKmers k s, p.2 = revCompSpec k p.1 := by
  intro p hp
  obtain ⟨w, hl, hc, rfl⟩ := mem_specKmers hp
  subst hl
  exact rcEnc_eq_revCompSpec hc

theorem canonPair_swap (p : Nat × Nat) : canonPair p.swap = canonPair p := by
  simp [canonPair, Nat.min_comm]

theorem canons_rcSeq (k : Nat) (s : List Nat) : canons k (rcSeq s) = (canons k s).reverse := by
  unfold canons
  rw [specKmers_rcSeq', List.map_map, ← List.map_reverse]
  apply List.map_congr_left
  intro p _
  exact canonPair_swap p

end KT
