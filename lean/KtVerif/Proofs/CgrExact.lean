import KtVerif.Proofs.Cgr
import Mathlib.Tactic.Ring
/-!
# Exact chaos game: midpoint rule and sub-square confinement
-/
namespace KT.Fl
open KT

theorem getLastD_append_ne_nil {α : Type} (l1 l2 : List α) (d d' : α) (h : l2 ≠ []) :
    (l1 ++ l2).getLastD d = l2.getLastD d' := by
  rw [List.getLastD_eq_getLast?, List.getLastD_eq_getLast?, List.getLast?_append,
    List.getLast?_eq_some_getLast h]
  rfl

/-- the walk on `p ++ q` = walk on `p`, then walk on `q` from the state reached (`(S,S,1)` if `p = []`) -/
theorem cgrExact_split (S : Nat) (p q : List Nat) (l : List (Nat × Nat × Nat))
    (h : cgrExact S (p ++ q) = some l) :
    ∃ l1 l2 X0 Y0, cgrExact S p = some l1 ∧ l = l1 ++ l2 ∧ l1.length = p.length ∧
      X0 ≤ S * 2 ^ (p.length + 1) ∧ Y0 ≤ S * 2 ^ (p.length + 1) ∧
      l1.getLastD (S, S, 1) = (X0, Y0, p.length + 1) ∧
      cgrExactFrom S p.length (X0, Y0) q = some l2 := by
  unfold cgrExact at h ⊢
  obtain ⟨l1, l2, h1, h2, h3⟩ := cgrExactFrom_append S p q 0 S S l h
  have hlast := cgrExactFrom_last S p 0 S S l1 h1
  have hlen := cgrExactFrom_length S p 0 (S, S) l1 h1
  have hsq := cgrExactFrom_in_square S p 0 S S l1 (by omega) (by omega) h1
  simp only [Nat.zero_add] at hlast h3
  have hT : (l1.getLastD (S, S, 1)).1 ≤ S * 2 ^ (l1.getLastD (S, S, 1)).2.2 ∧
      (l1.getLastD (S, S, 1)).2.1 ≤ S * 2 ^ (l1.getLastD (S, S, 1)).2.2 := by
    by_cases hne : l1 = []
    · subst hne; simp only [List.getLastD_nil]; omega
    · rw [List.getLastD_eq_getLast?, List.getLast?_eq_some_getLast hne]
      exact hsq _ (List.getLast_mem hne)
  rw [hlast] at hT h3
  simp only [Nat.add_sub_cancel_left] at h3
  refine ⟨l1, l2, _, _, h1, h2, hlen, ?_, ?_, ?_, h3⟩
  · have := hT.1; rwa [Nat.add_comm 1 p.length] at this
  · have := hT.2; rwa [Nat.add_comm 1 p.length] at this
  · rw [hlast, Nat.add_comm 1 p.length]

theorem cgrExact_midpoint (S : Nat) (s : List Nat) (b : Nat) (l : List (Nat × Nat × Nat)) (cx cy : Nat)
    (h : cgrExact S (s ++ [b]) = some l) (hb : cornerSpec b = some (cx, cy)) :
    let prev := (l.take s.length).getLastD (S, S, 1)
    l.getLast? = some (cx * S * 2 ^ prev.2.2 + prev.1, cy * S * 2 ^ prev.2.2 + prev.2.1, prev.2.2 + 1) := by
  obtain ⟨l1, l2, X0, Y0, _, h2, hlen, _, _, hlast, h3⟩ := cgrExact_split S s [b] l h
  rw [cgrExactFrom_cons_some S _ X0 Y0 b [] cx cy hb, cgrExactFrom_nil] at h3
  simp only [Option.map_some, Option.some.injEq] at h3
  subst h3
  subst h2
  intro prev
  have hp : prev = (X0, Y0, s.length + 1) := by
    show ((l1 ++ _).take s.length).getLastD (S, S, 1) = _
    rw [List.take_left' hlen, hlast]
  rw [hp, List.getLast?_append]
  rfl

/-- arithmetic core of the sub-square property: the common suffix contributes the same amount to both
    end points; the start points contribute at most `S / 2^n` -/
theorem subsquare_arith (S X0 X0' C e0 e0' n : Nat) (hX : X0 ≤ S * 2 ^ e0) :
    ((X0 + 2 ^ e0 * S * C) * 2 ^ (e0' + n) - (X0' + 2 ^ e0' * S * C) * 2 ^ (e0 + n)) * 2 ^ n
      ≤ S * 2 ^ ((e0 + n) + (e0' + n)) := by
  have h1 : (X0 + 2 ^ e0 * S * C) * 2 ^ (e0' + n) - (X0' + 2 ^ e0' * S * C) * 2 ^ (e0 + n)
      ≤ X0 * 2 ^ (e0' + n) := by
    have hK : 2 ^ e0 * S * C * 2 ^ (e0' + n) = 2 ^ e0' * S * C * 2 ^ (e0 + n) := by ring
    rw [Nat.add_mul, Nat.add_mul, hK]
    omega
  calc _ ≤ X0 * 2 ^ (e0' + n) * 2 ^ n := Nat.mul_le_mul_right _ h1
    _ ≤ S * 2 ^ e0 * 2 ^ (e0' + n) * 2 ^ n :=
        Nat.mul_le_mul_right _ (Nat.mul_le_mul_right _ hX)
    _ = S * 2 ^ ((e0 + n) + (e0' + n)) := by ring

theorem cgrExact_subsquare (S : Nat) (p p' q : List Nat) (l l' : List (Nat × Nat × Nat))
    (h : cgrExact S (p ++ q) = some l) (h' : cgrExact S (p' ++ q) = some l') (hq : q ≠ []) :
    let a := l.getLastD (0,0,0); let a' := l'.getLastD (0,0,0)
    (a.1 * 2 ^ a'.2.2 - a'.1 * 2 ^ a.2.2) * 2 ^ q.length ≤ S * 2 ^ (a.2.2 + a'.2.2) ∧
    (a'.1 * 2 ^ a.2.2 - a.1 * 2 ^ a'.2.2) * 2 ^ q.length ≤ S * 2 ^ (a.2.2 + a'.2.2) ∧
    (a.2.1 * 2 ^ a'.2.2 - a'.2.1 * 2 ^ a.2.2) * 2 ^ q.length ≤ S * 2 ^ (a.2.2 + a'.2.2) ∧
    (a'.2.1 * 2 ^ a.2.2 - a.2.1 * 2 ^ a'.2.2) * 2 ^ q.length ≤ S * 2 ^ (a.2.2 + a'.2.2) := by
  obtain ⟨l1, l2, X0, Y0, _, h2, _, hX, hY, _, h3⟩ := cgrExact_split S p q l h
  obtain ⟨l1', l2', X0', Y0', _, h2', _, hX', hY', _, h3'⟩ := cgrExact_split S p' q l' h'
  have hl2 : l2 ≠ [] := by
    intro e
    have := cgrExactFrom_length S q _ _ l2 h3
    rw [e] at this
    exact hq (List.eq_nil_of_length_eq_zero this.symm)
  have hl2' : l2' ≠ [] := by
    intro e
    have := cgrExactFrom_length S q _ _ l2' h3'
    rw [e] at this
    exact hq (List.eq_nil_of_length_eq_zero this.symm)
  have ha : l.getLastD (0,0,0) = (X0 + 2 ^ (p.length + 1) * S * codeX q, Y0 + 2 ^ (p.length + 1) * S * codeY q,
      p.length + 1 + q.length) := by
    rw [h2, getLastD_append_ne_nil l1 l2 _ (X0, Y0, p.length + 1) hl2]
    exact cgrExactFrom_last S q _ _ _ l2 h3
  have ha' : l'.getLastD (0,0,0) = (X0' + 2 ^ (p'.length + 1) * S * codeX q, Y0' + 2 ^ (p'.length + 1) * S * codeY q,
      p'.length + 1 + q.length) := by
    rw [h2', getLastD_append_ne_nil l1' l2' _ (X0', Y0', p'.length + 1) hl2']
    exact cgrExactFrom_last S q _ _ _ l2' h3'
  intro a a'
  show (fun a a' : Nat × Nat × Nat =>
    (a.1 * 2 ^ a'.2.2 - a'.1 * 2 ^ a.2.2) * 2 ^ q.length ≤ S * 2 ^ (a.2.2 + a'.2.2) ∧
    (a'.1 * 2 ^ a.2.2 - a.1 * 2 ^ a'.2.2) * 2 ^ q.length ≤ S * 2 ^ (a.2.2 + a'.2.2) ∧
    (a.2.1 * 2 ^ a'.2.2 - a'.2.1 * 2 ^ a.2.2) * 2 ^ q.length ≤ S * 2 ^ (a.2.2 + a'.2.2) ∧
    (a'.2.1 * 2 ^ a.2.2 - a.2.1 * 2 ^ a'.2.2) * 2 ^ q.length ≤ S * 2 ^ (a.2.2 + a'.2.2))
    (l.getLastD (0,0,0)) (l'.getLastD (0,0,0))
  rw [ha, ha']
  simp only
  refine ⟨?_, ?_, ?_, ?_⟩
  · exact subsquare_arith S X0 X0' (codeX q) _ _ _ hX
  · rw [Nat.add_comm (p.length + 1 + q.length)]
    exact subsquare_arith S X0' X0 (codeX q) _ _ _ hX'
  · exact subsquare_arith S Y0 Y0' (codeY q) _ _ _ hY
  · rw [Nat.add_comm (p.length + 1 + q.length)]
    exact subsquare_arith S Y0' Y0 (codeY q) _ _ _ hY'

end KT.Fl
