import KtVerif.Spec.EndToEnd
import KtVerif.Proofs.E2EFloat
import KtVerif.Proofs.CgrF64
import KtVerif.Proofs.VecCgr
/-!
# End-to-end helpers, chaos game in binary64 beyond the exactly representable range

Rounding to nearest is monotone and fixes representable values, so a value whose exact image lies
between two representable bounds stays between them.  One midpoint step `(corner + marker) / 2.0`
maps `[L·u, (L+S)·u]` into `[(c·S·2^i + L)·u/2, (c·S·2^i + L + S)·u/2]` (`u = 2^(1074-i)`), both
bounds being doubles while `bitLen S + i + 1 ≤ 53`.  `f64One = 2^1074` stays symbolic.
-/
namespace KT.E2E2
open KT KT.Fl

/-! ## monotonicity of rounding -/

/-- rounding a quotient to the nearest double is monotone in the numerator -/
theorem roundRat_mono (a a' b : Nat) (hb : 0 < b) (h : a ≤ a') : roundRat a b ≤ roundRat a' b := by
  unfold roundRat
  simp only
  have hq : a / b ≤ a' / b := Nat.div_le_div_right h
  have hm := bitLen_mono hq
  generalize hsh : bitLen (a / b) - 53 = sh
  generalize hsh' : bitLen (a' / b) - 53 = sh'
  rcases Nat.lt_or_ge sh sh' with hlt | hge
  · have ha : a / b < 2 ^ (53 + sh) :=
      Nat.lt_of_lt_of_le (lt_two_pow_bitLen (a / b)) (two_pow_le _ _ (by omega))
    have ha2 : a < 2 ^ (53 + sh) * b := (Nat.div_lt_iff_lt_mul hb).1 ha
    have hpos : 0 < b * 2 ^ sh := Nat.mul_pos hb (Nat.two_pow_pos _)
    have hpos' : 0 < b * 2 ^ sh' := Nat.mul_pos hb (Nat.two_pow_pos _)
    have h1 : roundDiv a (b * 2 ^ sh) ≤ 2 ^ 53 := by
      have e : 2 ^ (53 + sh) * b = 2 ^ 53 * (b * 2 ^ sh) := by rw [Nat.pow_add]; ring
      have := roundDiv_mono a (2 ^ 53 * (b * 2 ^ sh)) (b * 2 ^ sh) hpos (by rw [← e]; exact Nat.le_of_lt ha2)
      rwa [roundDiv_exact _ _ hpos] at this
    have ha'ne : a' / b ≠ 0 := by
      intro h0; rw [h0, bitLen_zero] at hsh'; omega
    have hlow := two_pow_bitLen_pred_le (a' / b) ha'ne
    have e2 : bitLen (a' / b) - 1 = 52 + sh' := by omega
    rw [e2] at hlow
    have hlow2 : 2 ^ (52 + sh') * b ≤ a' := (Nat.le_div_iff_mul_le hb).1 hlow
    have h2 : 2 ^ 52 ≤ roundDiv a' (b * 2 ^ sh') := by
      have e : 2 ^ (52 + sh') * b = 2 ^ 52 * (b * 2 ^ sh') := by rw [Nat.pow_add]; ring
      have := roundDiv_mono (2 ^ 52 * (b * 2 ^ sh')) a' (b * 2 ^ sh') hpos' (by rw [← e]; exact hlow2)
      rwa [roundDiv_exact _ _ hpos'] at this
    have e3 : (2 : Nat) ^ 53 * 2 ^ sh = 2 ^ 52 * 2 ^ (sh + 1) := by
      rw [← Nat.pow_add, ← Nat.pow_add]; congr 1; omega
    calc roundDiv a (b * 2 ^ sh) * 2 ^ sh ≤ 2 ^ 53 * 2 ^ sh := Nat.mul_le_mul_right _ h1
      _ = 2 ^ 52 * 2 ^ (sh + 1) := e3
      _ ≤ 2 ^ 52 * 2 ^ sh' := Nat.mul_le_mul_left _ (two_pow_le _ _ hlt)
      _ ≤ roundDiv a' (b * 2 ^ sh') * 2 ^ sh' := Nat.mul_le_mul_right _ h2
  · have e : sh = sh' := by omega
    subst e
    exact Nat.mul_le_mul_right _ (roundDiv_mono a a' _ (Nat.mul_pos hb (Nat.two_pow_pos _)) h)

/-- one midpoint step between representable bounds -/
theorem cgrMid_bounds (C x lo hi e : Nat) (hlo : lo < 2 ^ 53) (hhi : hi < 2 ^ 53)
    (h1 : lo * 2 ^ (e + 1) ≤ C + x) (h2 : C + x ≤ hi * 2 ^ (e + 1)) :
    lo * 2 ^ e ≤ cgrMid C x ∧ cgrMid C x ≤ hi * 2 ^ e := by
  unfold cgrMid f64Half f64Add
  have a1 := E2E.roundRat_one_mono _ _ h1
  rw [roundRat_exact_one lo (e + 1) hlo] at a1
  have a2 := E2E.roundRat_one_mono _ _ h2
  rw [roundRat_exact_one hi (e + 1) hhi] at a2
  have b1 := roundRat_mono _ _ 2 (by decide) a1
  rw [roundRat_half_exact lo e hlo] at b1
  have b2 := roundRat_mono _ _ 2 (by decide) a2
  rw [roundRat_half_exact hi e hhi] at b2
  exact ⟨b1, b2⟩

attribute [local irreducible] f64One

/-! ## one coordinate of the walk -/

/-- one coordinate of the chaos-game walk: corner bits `cs` (oldest first) applied to the marker `x` -/
def walk1 (S : Nat) (x : Nat) (cs : List Nat) : Nat :=
  cs.foldl (fun x c => cgrMid (c * f64OfNat S) x) x

theorem walk1_nil (S x : Nat) : walk1 S x [] = x := List.foldl_nil

theorem walk1_cons (S x c : Nat) (cs : List Nat) :
    walk1 S x (c :: cs) = walk1 S (cgrMid (c * f64OfNat S) x) cs := List.foldl_cons ..

/-- numerator of the lower sub-square bound over `2^length` (corner bits oldest first) -/
def numQ (S : Nat) : List Nat → Nat
  | [] => 0
  | c :: cs => c * S + 2 * numQ S cs

theorem S_mul_lt (S n : Nat) (h : bitLen S + n ≤ 53) : S * 2 ^ n < 2 ^ 53 := by
  have h3 : S * 2 ^ n < 2 ^ bitLen S * 2 ^ n :=
    Nat.mul_lt_mul_of_pos_right (lt_two_pow_bitLen S) (Nat.two_pow_pos _)
  have h4 : 2 ^ bitLen S * 2 ^ n ≤ 2 ^ 53 := by
    rw [← Nat.pow_add]; exact Nat.pow_le_pow_right (by decide) h
  omega

/-- one step of a coordinate: `[L·u, (L+S)·u]` goes to `[(c·S·2^i + L)·u/2, (c·S·2^i + L + S)·u/2]` -/
theorem cgrMid_step (S c i L x : Nat) (hc : c ≤ 1) (hb : bitLen S + i + 1 ≤ 53)
    (hL : L + S ≤ S * 2 ^ i) (h1 : L * 2 ^ (1074 - i) ≤ x) (h2 : x ≤ (L + S) * 2 ^ (1074 - i)) :
    (c * S * 2 ^ i + L) * 2 ^ (1074 - (i + 1)) ≤ cgrMid (c * f64OfNat S) x ∧
    cgrMid (c * f64OfNat S) x ≤ (c * S * 2 ^ i + L + S) * 2 ^ (1074 - (i + 1)) ∧
    c * S * 2 ^ i + L + S ≤ S * 2 ^ (i + 1) := by
  have hS : S < 2 ^ 53 := by
    rw [← bitLen_le_iff]; omega
  have hcT : c * S * 2 ^ i ≤ S * 2 ^ i := by
    have : c * (S * 2 ^ i) ≤ 1 * (S * 2 ^ i) := Nat.mul_le_mul_right _ hc
    rwa [Nat.one_mul, ← Nat.mul_assoc] at this
  have hp2 : S * 2 ^ (i + 1) = S * 2 ^ i + S * 2 ^ i := by
    rw [Nat.pow_succ, ← Nat.mul_assoc]; omega
  have hhi : c * S * 2 ^ i + L + S ≤ S * 2 ^ (i + 1) := by omega
  have hlt := S_mul_lt S (i + 1) (by omega)
  have he : 1074 - i = (1074 - (i + 1)) + 1 := by omega
  have hC : c * (S * f64One) = c * S * 2 ^ i * 2 ^ (1074 - i) := by
    rw [f64One_split i (by omega)]; ring
  rw [f64OfNat_exact S hS]
  rw [he] at h1 h2 hC
  have hb := cgrMid_bounds (c * (S * f64One)) x (c * S * 2 ^ i + L) (c * S * 2 ^ i + L + S)
    (1074 - (i + 1)) (by omega) (by omega)
    (by rw [hC, Nat.add_mul]; exact Nat.add_le_add_left h1 _)
    (by rw [hC, Nat.add_assoc, Nat.add_mul]; exact Nat.add_le_add_left h2 _)
  exact ⟨hb.1, hb.2, hhi⟩

theorem walk1_bounds (S : Nat) (cs : List Nat) : ∀ (i L x : Nat), (∀ c ∈ cs, c ≤ 1) →
    bitLen S + i + cs.length ≤ 53 → L + S ≤ S * 2 ^ i →
    L * 2 ^ (1074 - i) ≤ x → x ≤ (L + S) * 2 ^ (1074 - i) →
    (L + 2 ^ i * numQ S cs) * 2 ^ (1074 - i - cs.length) ≤ walk1 S x cs ∧
    walk1 S x cs ≤ (L + 2 ^ i * numQ S cs + S) * 2 ^ (1074 - i - cs.length) := by
  induction cs with
  | nil =>
    intro i L x _ _ _ h1 h2
    rw [walk1_nil]
    simp only [numQ, Nat.mul_zero, Nat.add_zero, List.length_nil, Nat.sub_zero]
    exact ⟨h1, h2⟩
  | cons c cs ih =>
    intro i L x hcs hb hL h1 h2
    rw [List.length_cons] at hb
    have hc : c ≤ 1 := hcs c (List.mem_cons_self ..)
    obtain ⟨s1, s2, s3⟩ := cgrMid_step S c i L x hc (by omega) hL h1 h2
    have := ih (i + 1) (c * S * 2 ^ i + L) _ (fun d hd => hcs d (List.mem_cons_of_mem _ hd))
      (by omega) s3 s1 s2
    rw [walk1_cons, List.length_cons]
    have e1 : 1074 - i - (cs.length + 1) = 1074 - (i + 1) - cs.length := by omega
    have e2 : L + 2 ^ i * numQ S (c :: cs) = c * S * 2 ^ i + L + 2 ^ (i + 1) * numQ S cs := by
      simp only [numQ]; rw [Nat.pow_succ]; ring
    rw [e1, e2]
    exact this

/-- from anywhere in the square: the last `cs.length` corner bits confine the coordinate -/
theorem walk1_bounds0 (S : Nat) (cs : List Nat) (x : Nat) (hcs : ∀ c ∈ cs, c ≤ 1)
    (hb : bitLen S + cs.length ≤ 53) (hx : x ≤ S * f64One) :
    numQ S cs * 2 ^ (1074 - cs.length) ≤ walk1 S x cs ∧
    walk1 S x cs ≤ (numQ S cs + S) * 2 ^ (1074 - cs.length) := by
  have := walk1_bounds S cs 0 0 x hcs (by omega) (by omega) (by omega)
    (by rw [Nat.zero_add, Nat.sub_zero, ← f64One_eq]; exact hx)
  simpa only [Nat.zero_add, Nat.sub_zero, Nat.pow_zero, Nat.one_mul] using this

/-! ## `subsquareLo` in closed form -/

theorem foldl_ext_mem {α β : Type} (f g : α → β → α) (l : List β) : ∀ (a : α),
    (∀ a, ∀ b ∈ l, f a b = g a b) → l.foldl f a = l.foldl g a := by
  induction l with
  | nil => intro a _; rfl
  | cons b bs ih =>
    intro a h
    rw [List.foldl_cons, List.foldl_cons, h a b (List.mem_cons_self ..)]
    exact ih _ (fun a c hc => h a c (List.mem_cons_of_mem _ hc))

theorem getD_append_left (l : List Nat) (c t : Nat) (h : t < l.length) : (l ++ [c]).getD t 0 = l.getD t 0 := by
  rw [List.getD_eq_getElem?_getD, List.getD_eq_getElem?_getD, List.getElem?_append_left h]

theorem getD_append_length (l : List Nat) (c : Nat) : (l ++ [c]).getD l.length 0 = c := by
  rw [List.getD_eq_getElem?_getD, List.getElem?_append_right (Nat.le_refl _), Nat.sub_self]
  rfl

theorem subsquareLo_nil (S : Nat) : subsquareLo S [] = 0 := rfl

theorem subsquareLo_snoc (S c : Nat) (cs : List Nat) :
    subsquareLo S (cs ++ [c]) = subsquareLo S cs + c * S * f64One / 2 ^ (cs.length + 1) := by
  unfold subsquareLo
  rw [List.length_append, List.length_singleton, List.range_succ, List.foldl_append, List.foldl_cons,
    List.foldl_nil, getD_append_length]
  congr 1
  apply foldl_ext_mem
  intro a t ht
  rw [getD_append_left cs c t (List.mem_range.mp ht)]

/-- corner bits oldest first: `subsquareLo` of the reversed list is `numQ · 2^(1074 - length)` -/
theorem subsquareLo_reverse (S : Nat) (cs : List Nat) (h : cs.length ≤ 1074) :
    subsquareLo S cs.reverse = numQ S cs * 2 ^ (1074 - cs.length) := by
  induction cs with
  | nil => rw [List.reverse_nil, subsquareLo_nil]; simp only [numQ, Nat.zero_mul]
  | cons c cs ih =>
    rw [List.length_cons] at h
    rw [List.reverse_cons, subsquareLo_snoc, ih (by omega), List.length_reverse,
      mul_f64One_div _ _ h, List.length_cons]
    have e : 1074 - cs.length = (1074 - (cs.length + 1)) + 1 := by omega
    rw [e, Nat.pow_succ]
    simp only [numQ]
    ring

/-! ## the pair walk projects to two coordinate walks -/

/-- corner bit of a base (x) -/
def cX (b : Nat) : Nat := ((cornerSpec b).getD (0, 0)).1
/-- corner bit of a base (y) -/
def cY (b : Nat) : Nat := ((cornerSpec b).getD (0, 0)).2

theorem cX_le_one (b : Nat) : cX b ≤ 1 := by
  unfold cX
  cases h : cornerSpec b with
  | none => exact Nat.zero_le _
  | some c => obtain ⟨cx, cy⟩ := c; exact (cornerSpec_le_one b cx cy h).1

theorem cY_le_one (b : Nat) : cY b ≤ 1 := by
  unfold cY
  cases h : cornerSpec b with
  | none => exact Nat.zero_le _
  | some c => obtain ⟨cx, cy⟩ := c; exact (cornerSpec_le_one b cx cy h).2

theorem endLoop_walk (S : Nat) (q : List Nat) : ∀ (x y : Nat) (r : Nat × Nat),
    cgrEndLoop S (x, y) q = some r → r = (walk1 S x (q.map cX), walk1 S y (q.map cY)) := by
  induction q with
  | nil =>
    intro x y r h
    rw [Vec.cgrEndLoop_nil] at h
    cases h
    rw [List.map_nil, List.map_nil, walk1_nil, walk1_nil]
  | cons b bs ih =>
    intro x y r h
    cases hc : cgrCorner b with
    | none => rw [Vec.cgrEndLoop_cons_none hc] at h; cases h
    | some c =>
      obtain ⟨cx, cy⟩ := c
      rw [Vec.cgrEndLoop_cons_some hc] at h
      have hs : cornerSpec b = some (cx, cy) := by rw [← cgrCorner_eq_spec]; exact hc
      have hx : cX b = cx := by unfold cX; rw [hs]; rfl
      have hy : cY b = cy := by unfold cY; rw [hs]; rfl
      rw [List.map_cons, List.map_cons, walk1_cons, walk1_cons, hx, hy]
      exact ih _ _ r h

theorem endLoop_append (S : Nat) (p q : List Nat) : ∀ (st : Nat × Nat),
    cgrEndLoop S st (p ++ q) = (cgrEndLoop S st p).bind fun st' => cgrEndLoop S st' q := by
  induction p with
  | nil => intro st; rw [List.nil_append, Vec.cgrEndLoop_nil]; rfl
  | cons b bs ih =>
    intro st
    obtain ⟨x, y⟩ := st
    rw [List.cons_append]
    cases hc : cgrCorner b with
    | none => rw [Vec.cgrEndLoop_cons_none hc, Vec.cgrEndLoop_cons_none hc]; rfl
    | some c =>
      obtain ⟨cx, cy⟩ := c
      rw [Vec.cgrEndLoop_cons_some hc, Vec.cgrEndLoop_cons_some hc]
      exact ih _

/-! ## the square -/

theorem cgrMid_le (S c x : Nat) (hS : S < 2 ^ 53) (hc : c ≤ 1) (hx : x ≤ S * f64One) :
    cgrMid (c * f64OfNat S) x ≤ S * f64One := by
  rw [f64OfNat_exact S hS]
  have hC : c * (S * f64One) ≤ S * f64One := by
    have := Nat.mul_le_mul_right (S * f64One) hc
    rwa [Nat.one_mul] at this
  have e : S * 2 ^ (1074 + 1) = S * f64One + S * f64One := by
    rw [Nat.pow_succ, ← f64One_eq, ← Nat.mul_assoc, Nat.mul_two]
  have h := (cgrMid_bounds (c * (S * f64One)) x 0 S 1074 (by decide) hS (by omega)
    (by rw [e]; omega)).2
  rwa [← f64One_eq] at h

theorem cgrLoop_in_square (S : Nat) (hS : S < 2 ^ 53) (s : List Nat) : ∀ (x y : Nat) (l : List (Nat × Nat)),
    x ≤ S * f64One → y ≤ S * f64One → cgrLoop S (x, y) s = some l →
    ∀ p ∈ l, p.1 ≤ S * f64One ∧ p.2 ≤ S * f64One := by
  induction s with
  | nil =>
    intro x y l _ _ h
    rw [cgrLoop_nil] at h
    cases h
    intro p hp
    cases hp
  | cons b bs ih =>
    intro x y l hx hy h
    cases hc : cornerSpec b with
    | none => rw [cgrLoop_cons_none S _ b bs hc] at h; cases h
    | some c =>
      obtain ⟨cx, cy⟩ := c
      obtain ⟨hcx, hcy⟩ := cornerSpec_le_one b cx cy hc
      rw [cgrLoop_cons_some S x y b bs cx cy hc, Option.map_eq_some_iff] at h
      obtain ⟨rest, hr, rfl⟩ := h
      have hx' := cgrMid_le S cx x hS hcx hx
      have hy' := cgrMid_le S cy y hS hcy hy
      intro p hp
      rcases List.mem_cons.mp hp with rfl | hp
      · exact ⟨hx', hy'⟩
      · exact ih _ _ rest hx' hy' hr p hp

theorem cgrCentre_le (S : Nat) (hS : S < 2 ^ 53) :
    (cgrCentre S).1 ≤ S * f64One ∧ (cgrCentre S).2 ≤ S * f64One := by
  rw [cgrCentre_exact S hS]
  exact ⟨Nat.div_le_self _ _, Nat.div_le_self _ _⟩

theorem cgrF64_in_square' (S : Nat) (s : List Nat) (l : List (Nat × Nat)) (hS : S < 2 ^ 53)
    (h : cgrF64 S s = some l) : ∀ p ∈ l, p.1 ≤ S * f64One ∧ p.2 ≤ S * f64One := by
  unfold cgrF64 at h
  obtain ⟨h1, h2⟩ := cgrCentre_le S hS
  exact cgrLoop_in_square S hS s (cgrCentre S).1 (cgrCentre S).2 l h1 h2 h

/-! ## sub-square containment -/

theorem getLastD_eq_or_mem {α : Type} (l : List α) (d : α) : l.getLastD d = d ∨ l.getLastD d ∈ l := by
  by_cases hne : l = []
  · subst hne; exact Or.inl rfl
  · right
    rw [List.getLastD_eq_getLast?, List.getLast?_eq_some_getLast hne]
    exact List.getLast_mem hne

theorem getLastD_of_ne_nil {α : Type} (l : List α) (d d' : α) (hne : l ≠ []) : l.getLastD d = l.getLastD d' := by
  rw [List.getLastD_eq_getLast?, List.getLastD_eq_getLast?, List.getLast?_eq_some_getLast hne]
  rfl

theorem walk1_subsquare (S : Nat) (cs : List Nat) (x : Nat) (hcs : ∀ c ∈ cs, c ≤ 1)
    (hb : bitLen S + cs.length ≤ 53) (hx : x ≤ S * f64One) :
    subsquareLo S cs.reverse ≤ walk1 S x cs ∧
    walk1 S x cs ≤ subsquareLo S cs.reverse + S * f64One / 2 ^ cs.length := by
  have hl : cs.length ≤ 1074 := by omega
  have := walk1_bounds0 S cs x hcs hb hx
  rw [subsquareLo_reverse S cs hl, mul_f64One_div S cs.length hl, ← Nat.add_mul]
  exact this

theorem cgrF64_subsquare' (S : Nat) (p q : List Nat) (l : List (Nat × Nat))
    (hj : bitLen S + q.length ≤ 53) (hq : q ≠ []) (h : cgrF64 S (p ++ q) = some l) :
    subsquareLo S (q.reverse.map cX) ≤ (l.getLastD (0, 0)).1 ∧
    (l.getLastD (0, 0)).1 ≤ subsquareLo S (q.reverse.map cX) + S * f64One / 2 ^ q.length ∧
    subsquareLo S (q.reverse.map cY) ≤ (l.getLastD (0, 0)).2 ∧
    (l.getLastD (0, 0)).2 ≤ subsquareLo S (q.reverse.map cY) + S * f64One / 2 ^ q.length := by
  have hS : S < 2 ^ 53 := by
    rw [← bitLen_le_iff]; omega
  unfold cgrF64 at h
  have hlen := cgrLoop_length S _ (cgrCentre S) l h
  have hqpos : 0 < q.length := List.length_pos_iff.mpr hq
  have hl : l ≠ [] := by
    intro h0
    rw [h0, List.length_append] at hlen
    simp only [List.length_nil] at hlen
    omega
  have hend : cgrEndLoop S (cgrCentre S) (p ++ q) = some (l.getLastD (cgrCentre S)) := by
    rw [Vec.cgrEndLoop_eq_last', h]; rfl
  have hpre := cgrLoop_prefix S p q (cgrCentre S) l h
  have hendp : cgrEndLoop S (cgrCentre S) p = some ((l.take p.length).getLastD (cgrCentre S)) := by
    rw [Vec.cgrEndLoop_eq_last', hpre]; rfl
  rw [endLoop_append, hendp, Option.bind_some] at hend
  obtain ⟨hc1, hc2⟩ := cgrCentre_le S hS
  have hst : ((l.take p.length).getLastD (cgrCentre S)).1 ≤ S * f64One ∧
      ((l.take p.length).getLastD (cgrCentre S)).2 ≤ S * f64One := by
    rcases getLastD_eq_or_mem (l.take p.length) (cgrCentre S) with he | hm
    · rw [he]; exact ⟨hc1, hc2⟩
    · exact cgrLoop_in_square S hS p (cgrCentre S).1 (cgrCentre S).2 _ hc1 hc2 hpre _ hm
  generalize (l.take p.length).getLastD (cgrCentre S) = st at hend hst
  obtain ⟨sx, sy⟩ := st
  have hw := endLoop_walk S q sx sy _ hend
  rw [getLastD_of_ne_nil l (0, 0) (cgrCentre S) hl, hw, List.map_reverse, List.map_reverse]
  have hx := walk1_subsquare S (q.map cX) sx
    (fun c hc => by obtain ⟨b, _, rfl⟩ := List.mem_map.mp hc; exact cX_le_one b)
    (by rw [List.length_map]; exact hj) hst.1
  have hy := walk1_subsquare S (q.map cY) sy
    (fun c hc => by obtain ⟨b, _, rfl⟩ := List.mem_map.mp hc; exact cY_le_one b)
    (by rw [List.length_map]; exact hj) hst.2
  rw [List.length_map] at hx hy
  exact ⟨hx.1, hx.2, hy.1, hy.2⟩

end KT.E2E2
