import Mathlib.Data.Finset.Card
import Mathlib.Tactic.Ring
import Mathlib.Tactic.Linarith
import Mathlib.Tactic.Positivity
/-! Counting canonical k-mers through the involution argument (helpers for C03). -/
namespace KT.Canon

/-- spec-level reverse complement on codes: pops the low digit, complements, pushes on top -/
def rc : Nat → Nat → Nat
  | 0, _ => 0
  | n+1, x => (3 - x % 4) * 4^n + rc n (x / 4)

theorem rc_lt (n x : Nat) : rc n x < 4^n := by
  induction n generalizing x with
  | zero => simp [rc]
  | succ n ih =>
    have := ih (x/4)
    have h3 : 3 - x % 4 ≤ 3 := by omega
    have h4 : (3 - x % 4) * 4^n ≤ 3 * 4^n := Nat.mul_le_mul_right _ h3
    simp only [rc, pow_succ]
    omega

/-- rc of a concatenation: high part a (p digits), low part b (q digits) -/
theorem rc_concat (p q a b : Nat) (hb : b < 4^q) :
    rc (p+q) (a * 4^q + b) = rc q b * 4^p + rc p a := by
  induction q generalizing b with
  | zero => simp at hb; subst hb; simp [rc]
  | succ q ih =>
    have e : a * 4^(q+1) = 4 * (a * 4^q) := by rw [pow_succ]; ring
    have hdiv : (a * 4^(q+1) + b) / 4 = a * 4^q + b/4 := by
      rw [e]; omega
    have hmod : (a * 4^(q+1) + b) % 4 = b % 4 := by
      rw [e]; omega
    have hb4 : b / 4 < 4^q := by rw [pow_succ] at hb; omega
    have : p + (q+1) = (p+q)+1 := by omega
    rw [this]
    simp only [rc, hdiv, hmod, ih (b/4) hb4]
    ring

theorem rc_rc (n x : Nat) (hx : x < 4^n) : rc n (rc n x) = x := by
  induction n generalizing x with
  | zero => simp at hx; subst hx; simp [rc]
  | succ n ih =>
    -- rc (n+1) x = d' * 4^n + rc n (x/4),  view as concat with p = 1, q = n
    have hx4 : x / 4 < 4^n := by rw [pow_succ] at hx; omega
    have h1 : rc (n+1) x = (3 - x % 4) * 4^n + rc n (x/4) := rfl
    have hlt := rc_lt n (x/4)
    have hc := rc_concat 1 n (3 - x % 4) (rc n (x/4)) hlt
    have : 1 + n = n + 1 := by omega
    rw [this] at hc
    rw [h1, hc, ih (x/4) hx4]
    simp [rc]
    omega

end KT.Canon

namespace KT.Canon
open Finset

def codes (k : Nat) : Finset Nat := range (4^k)
def canonS (k : Nat) : Finset Nat := (codes k).filter fun x => x ≤ rc k x
def ltS (k : Nat) : Finset Nat := (codes k).filter fun x => x < rc k x
def gtS (k : Nat) : Finset Nat := (codes k).filter fun x => rc k x < x
def palS (k : Nat) : Finset Nat := (codes k).filter fun x => rc k x = x

theorem card_lt_eq_gt (k : Nat) : (ltS k).card = (gtS k).card := by
  apply Finset.card_bij (fun x _ => rc k x)
  · intro x hx
    simp only [ltS, gtS, codes, mem_filter, mem_range] at hx ⊢
    exact ⟨rc_lt k x, by rw [rc_rc k x hx.1]; exact hx.2⟩
  · intro x hx y hy h
    simp only [ltS, codes, mem_filter, mem_range] at hx hy
    have := congrArg (rc k) h
    rwa [rc_rc k x hx.1, rc_rc k y hy.1] at this
  · intro y hy
    simp only [ltS, gtS, codes, mem_filter, mem_range] at hy ⊢
    exact ⟨rc k y, ⟨rc_lt k y, by rw [rc_rc k y hy.1]; exact hy.2⟩, rc_rc k y hy.1⟩

theorem card_split (k : Nat) : (ltS k).card + (palS k).card + (gtS k).card = 4^k := by
  have h1 : (codes k).card = 4^k := by simp [codes]
  rw [← h1]
  have hd1 : Disjoint (ltS k) (palS k) := by
    rw [Finset.disjoint_left]; intro x hx hy
    simp only [ltS, palS, mem_filter] at hx hy; omega
  have hd2 : Disjoint (ltS k ∪ palS k) (gtS k) := by
    rw [Finset.disjoint_left]; intro x hx hy
    simp only [ltS, palS, gtS, mem_filter, mem_union] at hx hy; omega
  rw [← Finset.card_union_of_disjoint hd1, ← Finset.card_union_of_disjoint hd2]
  congr 1
  ext x
  simp only [ltS, palS, gtS, mem_filter, mem_union]
  constructor
  · rintro ((⟨h, _⟩ | ⟨h, _⟩) | ⟨h, _⟩) <;> exact h
  · intro h
    rcases Nat.lt_trichotomy x (rc k x) with h1 | h1 | h1
    · exact Or.inl (Or.inl ⟨h, h1⟩)
    · exact Or.inl (Or.inr ⟨h, h1.symm⟩)
    · exact Or.inr ⟨h, h1⟩

theorem canon_card (k : Nat) : 2 * (canonS k).card = 4^k + (palS k).card := by
  have hc : (canonS k).card = (ltS k).card + (palS k).card := by
    have hd1 : Disjoint (ltS k) (palS k) := by
      rw [Finset.disjoint_left]; intro x hx hy
      simp only [ltS, palS, mem_filter] at hx hy; omega
    rw [← Finset.card_union_of_disjoint hd1]
    congr 1
    ext x
    simp only [canonS, ltS, palS, mem_filter, mem_union]
    constructor
    · rintro ⟨h, hle⟩
      rcases Nat.lt_or_ge x (rc k x) with h1 | h1
      · exact Or.inl ⟨h, h1⟩
      · exact Or.inr ⟨h, by omega⟩
    · rintro (⟨h, h1⟩ | ⟨h, h1⟩) <;> exact ⟨h, by omega⟩
  have := card_split k
  have := card_lt_eq_gt k
  omega

/-- even k = 2h: palindromes are exactly a*4^h + rc h a -/
theorem pal_even (h : Nat) : (palS (h+h)).card = 4^h := by
  have : palS (h+h) = (range (4^h)).image (fun a => a * 4^h + rc h a) := by
    ext x
    simp only [palS, codes, mem_filter, mem_range, mem_image]
    constructor
    · rintro ⟨hx, hp⟩
      refine ⟨x / 4^h, ?_, ?_⟩
      · rw [Nat.div_lt_iff_lt_mul (by positivity)]; rwa [← pow_add]
      · have hb : x % 4^h < 4^h := Nat.mod_lt _ (by positivity)
        have hx' : x = (x / 4^h) * 4^h + x % 4^h := by
          rw [Nat.mul_comm]; exact (Nat.div_add_mod x (4^h)).symm
        have hc := rc_concat h h (x / 4^h) (x % 4^h) hb
        rw [← hx', hp] at hc
        -- x = rc h (x % 4^h) * 4^h + rc h (x / 4^h)  ⇒ low part = rc h (high part)
        have hlow : x % 4^h = rc h (x / 4^h) := by
          have := rc_lt h (x / 4^h)
          conv_lhs => rw [hc]
          rw [Nat.mul_comm, Nat.mul_add_mod]
          exact Nat.mod_eq_of_lt this
        rw [← hlow]; exact hx'.symm
    · rintro ⟨a, ha, rfl⟩
      have hr := rc_lt h a
      refine ⟨?_, ?_⟩
      · rw [pow_add]; nlinarith
      · rw [rc_concat h h a (rc h a) hr, rc_rc h a ha]
  rw [this, Finset.card_image_of_injOn, card_range]
  intro a ha b hb hab
  simp only [coe_range, Set.mem_Iio] at ha hb
  have h1 := rc_lt h a; have h2 := rc_lt h b
  have hpos : 0 < 4^h := by positivity
  have := congrArg (· / 4^h) hab
  simp only at this
  rwa [Nat.mul_comm, Nat.mul_add_div hpos, Nat.div_eq_of_lt h1, Nat.mul_comm b, Nat.mul_add_div hpos,
    Nat.div_eq_of_lt h2, Nat.add_zero, Nat.add_zero] at this

end KT.Canon
