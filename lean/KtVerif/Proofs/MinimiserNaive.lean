import KtVerif.Model.Minimiser
/-!
# The naive run machine, indexed by byte position, and its equality with `specRuns`

`naive` consumes one optional window minimiser per *byte position* (the window completed by that
byte, `none` when the byte completes no valid window) and keeps the open run.  It is `groupRuns`
re-indexed from window starts to window ends.
-/
namespace KT.Min
open KT

abbrev Cur := Option (Nat × Nat)

/-- one byte of the naive machine: `x` is the minimiser of the window completed at `pos` -/
def nstep (w pos : Nat) : Cur → Option Nat → Cur × Option Run
  | none, none => (none, none)
  | some (v, st), none => (none, some (v, st, pos))
  | none, some x => (some (x, pos + 1 - w), none)
  | some (v, st), some x =>
      if x = v then (some (v, st), none) else (some (x, pos + 1 - w), some (v, st, pos))

def nfinish (n : Nat) : Cur → List Run
  | none => []
  | some (v, st) => [(v, st, n)]

def naive (w n : Nat) : Nat → Cur → List (Option Nat) → List Run
  | _, cur, [] => nfinish n cur
  | pos, cur, x :: xs =>
    match nstep w pos cur x with
    | (cur', some o) => o :: naive w n (pos + 1) cur' xs
    | (cur', none) => naive w n (pos + 1) cur' xs

/-- minimiser of the window whose last byte is at `pos` -/
def posMin (w m : Nat) (s : List Nat) (pos : Nat) : Option Nat :=
  if pos + 1 < w then none else winMin w m s (pos + 1 - w)

theorem groupRuns_eq_naive (w : Nat) (hw : 1 ≤ w) (l : List (Option Nat)) (i : Nat) (cur : Cur) :
    groupRuns w i cur l = naive w (i + l.length + w - 1) (i + w - 1) cur l := by
  induction l generalizing i cur with
  | nil =>
    cases cur with
    | none => simp [groupRuns, naive, nfinish]
    | some c => obtain ⟨v, st⟩ := c; simp [groupRuns, naive, nfinish]
  | cons x xs ih =>
    have e1 : i + 1 + xs.length + w - 1 = i + (x :: xs).length + w - 1 := by
      simp only [List.length_cons]; omega
    have e2 : i + 1 + w - 1 = i + w - 1 + 1 := by omega
    have e3 : i + w - 1 + 1 - w = i := by omega
    cases cur with
    | none =>
      cases x with
      | none => simp only [groupRuns, naive, nstep]; rw [ih, e1, e2]
      | some x => simp only [groupRuns, naive, nstep]; rw [ih, e1, e2, e3]
    | some c =>
      obtain ⟨v, st⟩ := c
      cases x with
      | none => simp only [groupRuns, naive, nstep]; rw [ih, e1, e2]
      | some x =>
        simp only [groupRuns, naive, nstep]
        by_cases hx : x = v
        · subst hx; simp only [if_true]; rw [ih, e1, e2]
        · simp only [hx, if_false]; rw [ih, e1, e2, e3]

theorem naive_replicate_none (w n k pos : Nat) (l : List (Option Nat)) :
    naive w n pos none (List.replicate k none ++ l) = naive w n (pos + k) none l := by
  induction k generalizing pos with
  | zero => simp
  | succ k ih =>
    simp only [List.replicate_succ, List.cons_append, naive, nstep]
    rw [ih]; congr 1; omega

theorem map_eq_replicate_none {α : Type} (f : Nat → Option α) (l : List Nat)
    (h : ∀ i ∈ l, f i = none) : l.map f = List.replicate l.length none := by
  induction l with
  | nil => simp
  | cons a l ih =>
    simp only [List.map_cons, List.length_cons, List.replicate_succ]
    rw [h a (by simp), ih (fun i hi => h i (by simp [hi]))]

/-- layer (4): the specification is the naive machine run over all byte positions -/
theorem specRuns_eq_naive (w m : Nat) (s : List Nat) (hw : 1 ≤ w) :
    specRuns w m s = naive w s.length 0 none ((List.range s.length).map (posMin w m s)) := by
  by_cases hs : s.length < w
  · have h0 : s.length + 1 - w = 0 := by omega
    have hl : (List.range s.length).map (posMin w m s)
        = List.replicate (List.range s.length).length none := by
      apply map_eq_replicate_none
      intro i hi
      have : i < s.length := by simpa using hi
      simp only [posMin]; rw [if_pos (by omega)]
    unfold specRuns winMins
    rw [h0, hl]
    have := naive_replicate_none w s.length (List.range s.length).length 0 []
    simp only [List.append_nil] at this
    rw [this]
    simp [groupRuns, naive, nfinish]
  · have hlen : s.length = (w - 1) + (s.length + 1 - w) := by omega
    have hl : (List.range s.length).map (posMin w m s)
        = List.replicate (w - 1) none ++ winMins w m s := by
      conv => lhs; rw [hlen]
      rw [List.range_add, List.map_append]
      congr 1
      · have := map_eq_replicate_none (posMin w m s) (List.range (w - 1)) (by
          intro i hi
          have : i < w - 1 := by simpa using hi
          simp only [posMin]; rw [if_pos (by omega)])
        simpa using this
      · unfold winMins
        rw [List.map_map]
        apply List.map_congr_left
        intro j _
        simp only [Function.comp, posMin]
        rw [if_neg (by omega)]
        congr 1; omega
    rw [hl, naive_replicate_none]
    unfold specRuns
    rw [groupRuns_eq_naive w hw]
    have : (winMins w m s).length = s.length + 1 - w := by simp [winMins]
    rw [this]
    congr 1 <;> omega

end KT.Min
