import KtVerif.Model.Vectors
/-!
# Helpers for C04 / C08: histogram accumulation in an array, sums of count rows

Generic facts, independent of k-mers:
* `accum_toList` – folding `vec[idx p] += 1; total += 1` over a list, starting from zeros, gives the
  row of per-index occurrence counts and the length;
* `sum_counts`   – the counts per key of a duplicate-free key list covering all values add up to the length.
-/
namespace KT.Vec
open KT

/-- the accumulation step shared by `oligoAccum` and `covAccum` -/
def bump {α : Type} (idx : α → Nat) (acc : Array Nat × Nat) (p : α) : Array Nat × Nat :=
  (acc.1.modify (idx p) (· + 1), acc.2 + 1)

/-- number of items whose index is `j` -/
def hits {α : Type} (idx : α → Nat) (xs : List α) (j : Nat) : Nat := (xs.filter fun p => idx p == j).length

theorem hits_nil {α : Type} (idx : α → Nat) (j : Nat) : hits idx [] j = 0 := rfl

theorem hits_cons {α : Type} (idx : α → Nat) (p : α) (xs : List α) (j : Nat) :
    hits idx (p :: xs) j = (if idx p = j then 1 else 0) + hits idx xs j := by
  unfold hits
  rw [List.filter_cons]
  by_cases h : idx p = j
  · simp [h]; omega
  · simp [h]

theorem foldl_bump {α : Type} (idx : α → Nat) (xs : List α) : ∀ (a : Array Nat) (n : Nat),
    ∃ (hs : (xs.foldl (bump idx) (a, n)).1.size = a.size),
      (xs.foldl (bump idx) (a, n)).2 = n + xs.length ∧
      ∀ (j : Nat) (hj : j < a.size), (xs.foldl (bump idx) (a, n)).1[j]'(hs ▸ hj) = a[j] + hits idx xs j := by
  induction xs with
  | nil => intro a n; exact ⟨rfl, rfl, fun j hj => rfl⟩
  | cons p xs ih =>
    intro a n
    rw [List.foldl_cons]
    obtain ⟨hs, h2, h3⟩ := ih (bump idx (a, n) p).1 (bump idx (a, n) p).2
    have hsz : (bump idx (a, n) p).1.size = a.size := by simp [bump]
    refine ⟨hs.trans hsz, ?_, ?_⟩
    · rw [h2]; simp [bump]; omega
    · intro j hj
      rw [h3 j (hsz ▸ hj), hits_cons]
      simp only [bump, Array.getElem_modify]
      split <;> omega

/-- accumulation from zeros: row of hit counts, and the number of items -/
theorem accum_toList {α : Type} (idx : α → Nat) (xs : List α) (n : Nat) :
    ((xs.foldl (bump idx) (Array.replicate n 0, 0)).1.toList, (xs.foldl (bump idx) (Array.replicate n 0, 0)).2)
      = ((List.range n).map (hits idx xs), xs.length) := by
  obtain ⟨hs, h2, h3⟩ := foldl_bump idx xs (Array.replicate n 0) 0
  rw [h2, Nat.zero_add]
  congr 1
  apply List.ext_getElem
  · simp [hs]
  · intro j h1 h4
    have hj : j < (Array.replicate n 0).size := by simpa [hs] using h1
    rw [Array.getElem_toList, h3 j hj]
    simp

theorem hits_congr {α : Type} {idx idx' : α → Nat} {xs : List α} {j j' : Nat}
    (h : ∀ p ∈ xs, (idx p = j ↔ idx' p = j')) : hits idx xs j = hits idx' xs j' := by
  unfold hits
  congr 1
  apply List.filter_congr
  intro p hp
  rw [Bool.eq_iff_iff]
  simp only [beq_iff_eq]
  exact h p hp

theorem hits_map {α β : Type} (g : α → β) (idx : β → Nat) (xs : List α) (j : Nat) :
    hits idx (xs.map g) j = hits (fun p => idx (g p)) xs j := by
  unfold hits
  rw [List.filter_map, List.length_map]
  rfl

/-! ## sums -/

theorem sum_map_add {α : Type} (f g : α → Nat) (l : List α) :
    (l.map fun x => f x + g x).sum = (l.map f).sum + (l.map g).sum := by
  induction l with
  | nil => rfl
  | cons a l ih => simp only [List.map_cons, List.sum_cons, ih]; omega

theorem sum_eq_zero' : ∀ (l : List Nat), (∀ x ∈ l, x = 0) → l.sum = 0 := by
  intro l
  induction l with
  | nil => intro _; rfl
  | cons a l ih =>
    intro h
    rw [List.sum_cons, h a (List.mem_cons_self ..), ih (fun x hx => h x (List.mem_cons_of_mem _ hx))]

theorem sum_indicator (c : Nat) : ∀ (keys : List Nat), keys.Nodup → c ∈ keys →
    (keys.map fun b => if c = b then 1 else 0).sum = 1 := by
  intro keys
  induction keys with
  | nil => intro _ h; cases h
  | cons a l ih =>
    intro hn hm
    rw [List.nodup_cons] at hn
    simp only [List.map_cons, List.sum_cons]
    by_cases hca : c = a
    · subst hca
      have : (l.map fun b => if c = b then 1 else 0).sum = 0 := by
        apply sum_eq_zero' _
        intro x hx
        rw [List.mem_map] at hx
        obtain ⟨b, hb, rfl⟩ := hx
        have : c ≠ b := fun h => hn.1 (h ▸ hb)
        simp [this]
      simp [this]
    · have hml : c ∈ l := by
        rcases List.mem_cons.1 hm with h | h
        · exact absurd h hca
        · exact h
      simp [hca, ih hn.2 hml]

/-- per-key hit counts over a duplicate-free key list that covers all indices add up to the length -/
theorem sum_hits {α : Type} (idx : α → Nat) (keys : List Nat) (hn : keys.Nodup) :
    ∀ (xs : List α), (∀ p ∈ xs, idx p ∈ keys) → (keys.map (hits idx xs)).sum = xs.length := by
  intro xs
  induction xs with
  | nil =>
    intro _
    apply sum_eq_zero' _
    intro x hx
    rw [List.mem_map] at hx
    obtain ⟨b, _, rfl⟩ := hx
    rfl
  | cons p xs ih =>
    intro h
    have e : keys.map (hits idx (p :: xs)) = keys.map fun b => (if idx p = b then 1 else 0) + hits idx xs b := by
      apply List.map_congr_left
      intro b _
      exact hits_cons idx p xs b
    rw [e, sum_map_add, sum_indicator (idx p) keys hn (h p (List.mem_cons_self ..)),
      ih (fun q hq => h q (List.mem_cons_of_mem _ hq)), List.length_cons]
    omega

theorem hits_zero_of_nil {α : Type} (idx : α → Nat) (keys : List Nat) :
    ∀ x ∈ keys.map (hits idx ([] : List α)), x = 0 := by
  intro x hx
  rw [List.mem_map] at hx
  obtain ⟨b, _, rfl⟩ := hx
  rfl

end KT.Vec
