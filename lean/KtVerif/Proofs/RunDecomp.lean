import KtVerif.Spec.Minimiser
/-!
# `groupRuns` over an abstract window-value function `g : Nat → Option Nat`

`RunOK w g r` : the run `r = (v, st, en)` is a non-empty range of windows all carrying `some v`,
which cannot be extended to the left or to the right.
`Good w g lo out` : `out` is a sorted list of such runs, all starting at or after `lo`, and every
index `≥ lo` carrying a value lies in one of them.

`groupRuns_good` : the invariant of the `groupRuns` recursion.
`runOK_eq_of_common` : a run is determined by any window it contains.
`eq_of_sorted_key` : lists strictly sorted by a key with the same members are equal.
-/
namespace KT.Runs
open KT

abbrev Run := Nat × Nat × Nat

/-- window `j` lies in the run `r` -/
def Covers (w : Nat) (r : Run) (j : Nat) : Prop := r.2.1 ≤ j ∧ j + w ≤ r.2.2

/-- sound and maximal, over an abstract `g` -/
def RunOK (w : Nat) (g : Nat → Option Nat) (r : Run) : Prop :=
  r.2.1 + w ≤ r.2.2 ∧
  (∀ j, r.2.1 ≤ j → j + w ≤ r.2.2 → g j = some r.1) ∧
  (r.2.1 = 0 ∨ g (r.2.1 - 1) ≠ some r.1) ∧
  g (r.2.2 + 1 - w) ≠ some r.1

structure Good (w : Nat) (g : Nat → Option Nat) (lo : Nat) (out : List Run) : Prop where
  ok     : ∀ r ∈ out, lo ≤ r.2.1 ∧ RunOK w g r
  sorted : out.Pairwise fun a b => a.2.1 < b.2.1
  cover  : ∀ j v, lo ≤ j → g j = some v → ∃ r ∈ out, r.1 = v ∧ r.2.1 ≤ j ∧ j + w ≤ r.2.2

/-- invariant on the open run -/
def Inv (g : Nat → Option Nat) (i : Nat) : Option (Nat × Nat) → Prop
  | none => i = 0 ∨ g (i - 1) = none
  | some (v, st) => st < i ∧ (∀ j, st ≤ j → j < i → g j = some v) ∧ (st = 0 ∨ g (st - 1) ≠ some v)

/-- lower bound of the starts still to be emitted -/
def lo (i : Nat) : Option (Nat × Nat) → Nat
  | none => i
  | some (_, st) => st

theorem Good.nil {w : Nat} {g : Nat → Option Nat} {l : Nat} (h : ∀ j, l ≤ j → g j = none) :
    Good w g l [] where
  ok := fun r hr => by cases hr
  sorted := List.Pairwise.nil
  cover := fun j v hj hv => by rw [h j hj] at hv; cases hv

theorem Good.weaken {w : Nat} {g : Nat → Option Nat} {l l' : Nat} {out : List Run}
    (h : Good w g l' out) (hle : l ≤ l') (hn : ∀ j, l ≤ j → j < l' → g j = none) :
    Good w g l out where
  ok := fun r hr => ⟨Nat.le_trans hle (h.ok r hr).1, (h.ok r hr).2⟩
  sorted := h.sorted
  cover := fun j v hj hv => by
    by_cases hjl : j < l'
    · rw [hn j hj hjl] at hv; cases hv
    · exact h.cover j v (by omega) hv

theorem Good.cons {w : Nat} {g : Nat → Option Nat} {l l' : Nat} {out : List Run} {r : Run}
    (h : Good w g l' out) (hr : RunOK w g r) (hlr : l ≤ r.2.1) (hrl : r.2.1 < l')
    (hc : ∀ j v, l ≤ j → j < l' → g j = some v → r.1 = v ∧ r.2.1 ≤ j ∧ j + w ≤ r.2.2) :
    Good w g l (r :: out) where
  ok := fun r' hr' => by
    rcases List.mem_cons.1 hr' with e | hm
    · subst e; exact ⟨hlr, hr⟩
    · have := h.ok r' hm
      exact ⟨by omega, this.2⟩
  sorted := by
    rw [List.pairwise_cons]
    refine ⟨fun r' hm => ?_, h.sorted⟩
    have := (h.ok r' hm).1
    omega
  cover := fun j v hj hv => by
    by_cases hjl : j < l'
    · exact ⟨r, List.mem_cons_self, hc j v hj hjl hv⟩
    · obtain ⟨r', hm, h'⟩ := h.cover j v (by omega) hv
      exact ⟨r', List.mem_cons_of_mem _ hm, h'⟩

/-- the run that is closed at index `i` (where `g i ≠ some v`) is sound and maximal -/
theorem runOK_close {w : Nat} (hw : 1 ≤ w) {g : Nat → Option Nat} {i v st : Nat}
    (hinv : Inv g i (some (v, st))) (hgi : g i ≠ some v) : RunOK w g (v, st, i + w - 1) := by
  obtain ⟨hlt, hall, hleft⟩ := hinv
  refine ⟨?_, ?_, hleft, ?_⟩
  · show st + w ≤ i + w - 1; omega
  · intro j h1 h2
    exact hall j h1 (by have : j + w ≤ i + w - 1 := h2; omega)
  · have e : i + w - 1 + 1 - w = i := by omega
    show g (i + w - 1 + 1 - w) ≠ some v
    rw [e]; exact hgi

theorem close_covers {w : Nat} (hw : 1 ≤ w) {g : Nat → Option Nat} {i v st : Nat}
    (hinv : Inv g i (some (v, st))) (j v' : Nat) (h1 : st ≤ j) (h2 : j < i) (hv : g j = some v') :
    v = v' ∧ st ≤ j ∧ j + w ≤ i + w - 1 := by
  obtain ⟨_, hall, _⟩ := hinv
  have := hall j h1 h2
  rw [this] at hv
  simp only [Option.some.injEq] at hv
  exact ⟨hv, h1, by omega⟩

/-- **invariant of the `groupRuns` recursion** -/
theorem groupRuns_good (w : Nat) (hw : 1 ≤ w) (g : Nat → Option Nat) :
    ∀ (n i : Nat) (cur : Option (Nat × Nat)), (∀ j, i + n ≤ j → g j = none) → Inv g i cur →
      Good w g (lo i cur) (groupRuns w i cur ((List.range' i n).map g)) := by
  intro n
  induction n with
  | zero =>
    intro i cur hout hinv
    cases cur with
    | none =>
      simp only [List.range'_zero, List.map_nil, groupRuns, lo]
      exact Good.nil (fun j hj => hout j (by omega))
    | some c =>
      obtain ⟨v, st⟩ := c
      simp only [List.range'_zero, List.map_nil, groupRuns, lo]
      have hgi : g i = none := hout i (by omega)
      have hne : g i ≠ some v := by rw [hgi]; exact fun h => by cases h
      have hlt : st < i := hinv.1
      refine Good.cons (l' := i) (Good.nil (fun j hj => hout j (by omega))) (runOK_close hw hinv hne)
        (Nat.le_refl _) hlt ?_
      intro j v' h1 h2 hv
      exact close_covers hw hinv j v' h1 h2 hv
  | succ n ih =>
    intro i cur hout hinv
    have hout' : ∀ j, i + 1 + n ≤ j → g j = none := fun j hj => hout j (by omega)
    rw [List.range'_succ, List.map_cons]
    cases hgi : g i with
    | none =>
      cases cur with
      | none =>
        simp only [groupRuns, lo]
        have := ih (i + 1) none hout' (Or.inr (by simpa using hgi))
        refine Good.weaken this (by simp only [lo]; omega) ?_
        intro j h1 h2
        simp only [lo] at h2
        have : j = i := by omega
        rw [this]; exact hgi
      | some c =>
        obtain ⟨v, st⟩ := c
        simp only [groupRuns, lo]
        have hne : g i ≠ some v := by rw [hgi]; exact fun h => by cases h
        have hlt : st < i := hinv.1
        have := ih (i + 1) none hout' (Or.inr (by simpa using hgi))
        refine Good.cons (l' := i + 1) this (runOK_close hw hinv hne) (Nat.le_refl _)
          (by show st < i + 1; omega) ?_
        intro j v' h1 h2 hv
        have hji : j ≠ i := by
          intro e; rw [e, hgi] at hv; cases hv
        exact close_covers hw hinv j v' h1 (by omega) hv
    | some x =>
      cases cur with
      | none =>
        simp only [groupRuns, lo]
        have hinv' : Inv g (i + 1) (some (x, i)) := by
          refine ⟨Nat.lt_succ_self i, ?_, ?_⟩
          · intro j h1 h2
            have : j = i := by omega
            rw [this]; exact hgi
          · rcases hinv with h | h
            · exact Or.inl h
            · right; rw [h]; exact fun h => by cases h
        exact ih (i + 1) (some (x, i)) hout' hinv'
      | some c =>
        obtain ⟨v, st⟩ := c
        have hlt : st < i := hinv.1
        by_cases hx : x = v
        · simp only [groupRuns, if_pos hx, lo]
          have hinv' : Inv g (i + 1) (some (v, st)) := by
            obtain ⟨_, hall, hleft⟩ := hinv
            refine ⟨by omega, ?_, hleft⟩
            intro j h1 h2
            by_cases hji : j = i
            · rw [hji, hgi, hx]
            · exact hall j h1 (by omega)
          exact ih (i + 1) (some (v, st)) hout' hinv'
        · simp only [groupRuns, if_neg hx, lo]
          have hne : g i ≠ some v := by
            rw [hgi]; intro h; simp only [Option.some.injEq] at h; exact hx h
          have hinv' : Inv g (i + 1) (some (x, i)) := by
            refine ⟨Nat.lt_succ_self i, ?_, ?_⟩
            · intro j h1 h2
              have : j = i := by omega
              rw [this]; exact hgi
            · right
              rw [hinv.2.1 (i - 1) (by omega) (by omega)]
              intro h; simp only [Option.some.injEq] at h; exact hx h.symm
          have := ih (i + 1) (some (x, i)) hout' hinv'
          refine Good.cons (l' := i) this (runOK_close hw hinv hne) (Nat.le_refl _) hlt ?_
          intro j v' h1 h2 hv
          exact close_covers hw hinv j v' h1 h2 hv

/-- **a sound, maximal run is determined by any window it contains** -/
theorem runOK_eq_of_common {w : Nat} {g : Nat → Option Nat} {r r' : Run} {i : Nat}
    (h : RunOK w g r) (h' : RunOK w g r')
    (hi1 : r.2.1 ≤ i) (hi2 : i + w ≤ r.2.2) (hi1' : r'.2.1 ≤ i) (hi2' : i + w ≤ r'.2.2) :
    r = r' := by
  obtain ⟨v, st, en⟩ := r
  obtain ⟨v', st', en'⟩ := r'
  obtain ⟨hne, hall, hleft, hright⟩ := h
  obtain ⟨hne', hall', hleft', hright'⟩ := h'
  simp only at hi1 hi2 hi1' hi2' hne hall hleft hright hne' hall' hleft' hright'
  have hv : v = v' := by
    have a := hall i hi1 hi2
    have b := hall' i hi1' hi2'
    rw [a] at b
    simpa using b
  subst hv
  have hst : st = st' := by
    rcases Nat.lt_trichotomy st st' with hlt | heq | hgt
    · exfalso
      rcases hleft' with h0 | hn
      · omega
      · exact hn (hall (st' - 1) (by omega) (by omega))
    · exact heq
    · exfalso
      rcases hleft with h0 | hn
      · omega
      · exact hn (hall' (st - 1) (by omega) (by omega))
  subst hst
  have hen : en = en' := by
    rcases Nat.lt_trichotomy en en' with hlt | heq | hgt
    · exfalso
      exact hright (hall' (en + 1 - w) (by omega) (by omega))
    · exact heq
    · exfalso
      exact hright' (hall (en' + 1 - w) (by omega) (by omega))
  subst hen
  rfl

/-- lists strictly sorted by a key with the same members are equal -/
theorem eq_of_sorted_key {α : Type} (f : α → Nat) : ∀ (l₁ l₂ : List α),
    l₁.Pairwise (fun a b => f a < f b) → l₂.Pairwise (fun a b => f a < f b) →
    (∀ x, x ∈ l₁ ↔ x ∈ l₂) → l₁ = l₂
  | [], [], _, _, _ => rfl
  | [], b :: t, _, _, h => by have := (h b).2 List.mem_cons_self; cases this
  | a :: s, [], _, _, h => by have := (h a).1 List.mem_cons_self; cases this
  | a :: s, b :: t, h₁, h₂, h => by
    rw [List.pairwise_cons] at h₁ h₂
    have hab : a = b := by
      have ha := (h a).1 List.mem_cons_self
      have hb := (h b).2 List.mem_cons_self
      rcases List.mem_cons.1 ha with e | ha'
      · exact e
      · rcases List.mem_cons.1 hb with e | hb'
        · exact e.symm
        · have := h₁.1 b hb'; have := h₂.1 a ha'; omega
    subst hab
    congr 1
    apply eq_of_sorted_key f s t h₁.2 h₂.2
    intro x
    constructor
    · intro hx
      rcases List.mem_cons.1 ((h x).1 (List.mem_cons_of_mem _ hx)) with e | hx'
      · have := h₁.1 x hx; rw [e] at this; omega
      · exact hx'
    · intro hx
      rcases List.mem_cons.1 ((h x).2 (List.mem_cons_of_mem _ hx)) with e | hx'
      · have := h₂.1 x hx; rw [e] at this; omega
      · exact hx'

end KT.Runs
