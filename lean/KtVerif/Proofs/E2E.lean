import KtVerif.Spec.EndToEnd
import KtVerif.Proofs.E2EFloat
import KtVerif.Props.C03
import KtVerif.Props.C04
import KtVerif.Props.C05
import KtVerif.Props.C07
import KtVerif.Props.C14
import KtVerif.Props.FloatLemmas
/-!
# End-to-end helpers: composition glue between the per-layer property theorems
-/
namespace KT.E2E
open KT

/-! ## rows -/

theorem countOcc_le_length (x : Nat) (l : List Nat) : countOcc x l ≤ l.length :=
  List.length_filter_le _ l

theorem canons_length (k : Nat) (s : List Nat) : (canons k s).length = windowCount k s := by
  show ((specKmers k s).map canonPair).length = (specKmers k s).length
  rw [List.length_map]

theorem mem_oligoRowSpec {k : Nat} {s : List Nat} {c : Nat} (h : c ∈ oligoRowSpec k s) :
    ∃ x, c = countOcc x (canons k s) := by
  have h' : c ∈ (canonList k).map fun x => countOcc x (canons k s) := h
  obtain ⟨x, _, rfl⟩ := List.mem_map.mp h'
  exact ⟨x, rfl⟩

theorem oligoRowSpec_ne_nil (k : Nat) (s : List Nat) : oligoRowSpec k s ≠ [] := by
  intro h
  have hl := oligoRowSpec_length k s
  rw [h] at hl
  have := List.length_pos_of_mem (Canon.zero_mem_canonList k)
  rw [← hl] at this
  exact absurd this (Nat.lt_irrefl _)

/-- each cell of a normalised row is 8 characters, whatever the magnitude of the total -/
theorem cell8 (counts : List Nat) (total : Nat) (hle : ∀ c ∈ counts, c ≤ total) :
    ∀ c ∈ counts, (fmt6 (f64Div (f64OfNat c) (f64OfNat (max 1 total)))).length = 8 := by
  intro c hc
  apply fmt6_length
  exact f64Div_le_one_any c (max 1 total) (Nat.le_trans (hle c hc) (Nat.le_max_right _ _)) (Nat.le_max_left _ _)

theorem oligoRowText_unfold (pm : PosMaps) (k : Nat) (norm : Bool) (delim s cs : List Nat) (t : Nat)
    (h : oligoCounts pm k s = (cs, t)) : oligoRowText pm k norm delim s = rowText norm delim cs t := by
  unfold oligoRowText
  rw [h]

/-! ## chunks -/

theorem chunks_from (N limit T : Nat) (hT : 0 < T) (kms : Nat → List Nat) (len : Nat → Nat)
    (start : Nat) (chunks : List CSys) (h : ChunkRuns N limit T kms len start chunks) :
    start ≤ N →
    (chunks.flatMap fun s => s.table).Perm ((List.range' start (N - start)).flatMap kms) ∧
    (chunks.flatMap fun s => s.taken) = List.range' start (N - start) := by
  induction h with
  | done =>
    intro _
    rw [Nat.sub_self]
    exact ⟨List.Perm.refl _, rfl⟩
  | step start sched s rest hlt hrun hterm _ ih =>
    intro hle
    obtain ⟨htk, hsn, hnN, hperm, _⟩ := chunk_any_schedule N limit T start kms len hT hle sched s hrun hterm
    obtain ⟨ihp, iht⟩ := ih hnN
    have hsplit : List.range' start (N - start) =
        List.range' start (s.next - start) ++ List.range' s.next (N - s.next) := by
      have e1 : N - start = (s.next - start) + (N - s.next) := by omega
      have e2 : s.next = start + 1 * (s.next - start) := by omega
      rw [e1]
      conv => rhs; arg 2; arg 1; rw [e2]
      exact (List.range'_append (s := start) (m := s.next - start) (n := N - s.next) (step := 1)).symm
    rw [hsplit, List.flatMap_cons, List.flatMap_cons, List.flatMap_append]
    refine ⟨?_, ?_⟩
    · rw [← htk]
      exact List.Perm.append hperm ihp
    · rw [htk, iht]

/-! ## tables -/

theorem countOcc_perm (x : Nat) {l l' : List Nat} (h : l.Perm l') : countOcc x l = countOcc x l' :=
  (h.filter _).length_eq

theorem isTableOf_perm {t : List (Nat × Nat)} {l l' : List Nat} (hp : l.Perm l') (h : IsTableOf t l) :
    IsTableOf t l' := by
  obtain ⟨h1, h2, h3⟩ := h
  refine ⟨h1, ?_, ?_⟩
  · intro x c hm
    rw [← countOcc_perm x hp]
    exact h2 x c hm
  · intro x hx
    exact h3 x (hp.mem_iff.mpr hx)

end KT.E2E
