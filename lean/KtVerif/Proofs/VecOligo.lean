import KtVerif.Model.Vectors
import KtVerif.Proofs.VecAccum
import KtVerif.Props.C01
import KtVerif.Props.C02
import KtVerif.Props.C03
/-!
# Helpers for C04: oligo counts of a record (model = specification), invariances
-/
namespace KT.Vec
open KT

/-! ## canonical codes of the items are columns -/

theorem canonPair_mem {k : Nat} {s : List Nat} {p : Nat × Nat} (hp : p ∈ specKmers k s) :
    canonPair p ∈ canonList k := by
  have h1 := (specKmers_lt k s p hp).1
  have h2 := specKmers_snd k s p hp
  unfold canonPair
  rw [h2]
  exact canon_min_mem k p.1 h1

theorem canonPair_lt {k : Nat} {s : List Nat} {p : Nat × Nat} (hp : p ∈ specKmers k s) :
    min p.1 p.2 < 4 ^ k :=
  ((mem_canonList k _).1 (canonPair_mem hp)).1

theorem canonList_nodup (k : Nat) : (canonList k).Nodup :=
  (canonList_sorted k).imp (fun h => Nat.ne_of_lt h)

theorem canonList_getElem_inj {k i j : Nat} (hi : i < (canonList k).length) (hj : j < (canonList k).length)
    (h : (canonList k)[i] = (canonList k)[j]) : i = j := by
  have hs := List.pairwise_iff_getElem.1 (canonList_sorted k)
  rcases Nat.lt_trichotomy i j with hlt | heq | hgt
  · have := hs i j hi hj hlt; omega
  · exact heq
  · have := hs j i hj hi hgt; omega

/-- the column the code reaches for an item is the rank of its canonical code -/
theorem posMap_canonPair_iff {k : Nat} (hk : k ≤ 31) {s : List Nat} {p : Nat × Nat} (hp : p ∈ specKmers k s)
    {j : Nat} (hj : j < (canonList k).length) :
    (kmerPosMaps k).posMap[min p.1 p.2]! = j ↔ canonPair p = (canonList k)[j] := by
  obtain ⟨i, hi, hci⟩ := List.getElem_of_mem (canonPair_mem hp)
  have hm : min p.1 p.2 = (canonList k)[i] := hci.symm
  rw [hm, posMap_rank k hk i hi]
  show i = j ↔ min p.1 p.2 = _
  rw [hm]
  constructor
  · intro h; subst h; rfl
  · exact canonList_getElem_inj hi hj

/-! ## the specification row as hit counts -/

theorem oligoRowSpec_eq_hits (k : Nat) (s : List Nat) :
    oligoRowSpec k s = (canonList k).map (hits canonPair (specKmers k s)) := by
  show (canonList k).map (fun x => countOcc x (canons k s)) = _
  apply List.map_congr_left
  intro x _
  show hits id ((specKmers k s).map canonPair) x = _
  rw [hits_map]
  rfl

theorem oligoCounts_eq_accum (pm : PosMaps) (k : Nat) (s : List Nat) :
    oligoCounts pm k s =
      (((kmers k s).foldl (bump fun p => pm.posMap[min p.1 p.2]!) (Array.replicate pm.kcount 0, 0)).1.toList,
       ((kmers k s).foldl (bump fun p => pm.posMap[min p.1 p.2]!) (Array.replicate pm.kcount 0, 0)).2) := rfl

theorem oligoCounts_eq (k : Nat) (s : List Nat) (hk1 : 1 ≤ k) (hk : k ≤ 31) :
    oligoCounts (kmerPosMaps k) k s = (oligoRowSpec k s, windowCount k s) := by
  rw [oligoCounts_eq_accum, accum_toList, kmerGen_eq_spec k s hk1 hk, kcount_eq k hk, oligoRowSpec_eq_hits]
  refine Prod.ext ?_ rfl
  show (List.range (canonList k).length).map _ = (canonList k).map _
  apply List.ext_getElem
  · simp
  · intro j h1 h2
    have hj : j < (canonList k).length := by simpa using h1
    rw [List.getElem_map, List.getElem_map, List.getElem_range]
    apply hits_congr
    intro p hp
    exact posMap_canonPair_iff hk hp hj

theorem oligoSafe_true (k : Nat) (s : List Nat) (hk1 : 1 ≤ k) (hk : k ≤ 31) :
    oligoSafe (kmerPosMaps k) k s = true := by
  unfold oligoSafe
  rw [kmerGen_eq_spec k s hk1 hk, List.all_eq_true]
  intro p hp
  have hlt := canonPair_lt hp
  unfold oligoStepSafe
  rw [Bool.and_eq_true, decide_eq_true_eq, decide_eq_true_eq, posMap_size]
  exact ⟨hlt, posMap_lt_kcount k hk1 hk _ hlt⟩

theorem oligoRowSpec_sum (k : Nat) (s : List Nat) : (oligoRowSpec k s).sum = windowCount k s := by
  rw [oligoRowSpec_eq_hits]
  exact sum_hits canonPair (canonList k) (canonList_nodup k) (specKmers k s) (fun p hp => canonPair_mem hp)

theorem specKmers_eq_nil_of_windowCount {k : Nat} {s : List Nat} (h : windowCount k s = 0) :
    specKmers k s = [] := List.eq_nil_of_length_eq_zero h

theorem oligoRowSpec_zero (k : Nat) (s : List Nat) (h : windowCount k s = 0) :
    ∀ x ∈ oligoRowSpec k s, x = 0 := by
  rw [oligoRowSpec_eq_hits, specKmers_eq_nil_of_windowCount h]
  exact hits_zero_of_nil canonPair (canonList k)

/-! ## invariances -/

theorem countOcc_reverse (x : Nat) (l : List Nat) : countOcc x l.reverse = countOcc x l := by
  unfold countOcc
  rw [List.filter_reverse, List.length_reverse]

theorem oligoRowSpec_rcSeq' (k : Nat) (s : List Nat) : oligoRowSpec k (rcSeq s) = oligoRowSpec k s := by
  show (canonList k).map (fun x => countOcc x (canons k (rcSeq s))) = (canonList k).map (fun x => countOcc x (canons k s))
  rw [canons_rcSeq]
  apply List.map_congr_left
  intro x _
  exact countOcc_reverse x _

theorem oligoRowSpec_congr {k : Nat} {s t : List Nat} (h : specKmers k s = specKmers k t) :
    oligoRowSpec k s = oligoRowSpec k t := by
  show (canonList k).map (fun x => countOcc x (canons k s)) = (canonList k).map (fun x => countOcc x (canons k t))
  unfold canons
  rw [h]

theorem window_map (k : Nat) (s : List Nat) (g : Nat → Nat) (i : Nat) :
    window k (s.map g) i = (window k s i).map g := by
  unfold window
  rw [List.map_take, List.map_drop]

theorem specKmers_map (k : Nat) (s : List Nat) (g : Nat → Nat) (hg : ∀ b, nt4 (g b) = nt4 b) :
    specKmers k (s.map g) = specKmers k s := by
  have hm : ∀ w : List Nat, (w.map g).map nt4 = w.map nt4 := by
    intro w
    rw [List.map_map]
    apply List.map_congr_left
    intro b _
    exact hg b
  have hc : ∀ w : List Nat, (w.map g).all clean = w.all clean := by
    intro w
    rw [List.all_map]
    congr 1
    funext b
    show decide (nt4 (g b) < 4) = decide (nt4 b < 4)
    rw [hg]
  unfold specKmers
  rw [List.length_map]
  apply List.filterMap_congr
  intro i _
  rw [window_map, hc]
  unfold enc rcEnc
  rw [hm]

theorem nt4_lowerNuc' (b : Nat) : nt4 (lowerNuc b) = nt4 b := by
  unfold lowerNuc
  split
  · rename_i h
    rcases h with rfl | rfl | rfl | rfl | rfl <;> decide
  · rfl

theorem nt4_upperNuc' (b : Nat) : nt4 (upperNuc b) = nt4 b := by
  unfold upperNuc
  split
  · rename_i h
    rcases h with rfl | rfl | rfl | rfl | rfl <;> decide
  · rfl

theorem nt4_tToU' (b : Nat) : nt4 (tToU b) = nt4 b := by
  unfold tToU
  split
  · rename_i h; subst h; decide
  · split
    · rename_i h; subst h; decide
    · rfl

end KT.Vec
