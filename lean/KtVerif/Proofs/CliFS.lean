import KtVerif.Spec.Cli
/-!
# Helpers for C17: reads after writes / deletions / folds of them on the association-list file system
-/
namespace KT.Cl
open KT

theorem find_cons_pos (q : Path) (e : Path × List Nat) (fs : FS) (h : e.1 = q) :
    (e :: fs).find? (fun e => e.1 == q) = some e :=
  List.find?_cons_of_pos (p := fun e : Path × List Nat => e.1 == q) (by simp [h])
theorem find_cons_neg (q : Path) (e : Path × List Nat) (fs : FS) (h : e.1 ≠ q) :
    (e :: fs).find? (fun e => e.1 == q) = fs.find? (fun e => e.1 == q) :=
  List.find?_cons_of_neg (p := fun e : Path × List Nat => e.1 == q) (by simp [h])
theorem filter_cons_pos (p : Path) (e : Path × List Nat) (fs : FS) (h : e.1 ≠ p) :
    (e :: fs).filter (fun e => e.1 != p) = e :: fs.filter (fun e => e.1 != p) :=
  List.filter_cons_of_pos (p := fun e : Path × List Nat => e.1 != p) (by simp [h])
theorem filter_cons_neg (p : Path) (e : Path × List Nat) (fs : FS) (h : e.1 = p) :
    (e :: fs).filter (fun e => e.1 != p) = fs.filter (fun e => e.1 != p) :=
  List.filter_cons_of_neg (p := fun e : Path × List Nat => e.1 != p) (by simp [h])

theorem find_filter_ne (fs : FS) (p q : Path) (h : q ≠ p) :
    (fs.filter fun e => e.1 != p).find? (fun e => e.1 == q) = fs.find? (fun e => e.1 == q) := by
  induction fs with
  | nil => rfl
  | cons e fs ih =>
    by_cases hq : e.1 = q
    · have hp : e.1 ≠ p := by rw [hq]; exact h
      rw [filter_cons_pos p e fs hp, find_cons_pos q e _ hq, find_cons_pos q e _ hq]
    · rw [find_cons_neg q e fs hq]
      by_cases hp : e.1 = p
      · rw [filter_cons_neg p e fs hp, ih]
      · rw [filter_cons_pos p e fs hp, find_cons_neg q e _ hq, ih]

theorem write_read_other (fs : FS) (p q : Path) (c : List Nat) (h : q ≠ p) :
    (fs.write p c).read q = fs.read q := by
  unfold FS.write FS.read
  rw [find_cons_neg q (p, c) _ (fun e => h e.symm), find_filter_ne fs p q h]
theorem write_read (fs : FS) (p : Path) (c : List Nat) : (fs.write p c).read p = some c := by
  unfold FS.write FS.read
  rw [find_cons_pos p (p, c) _ rfl]
  rfl
theorem find_filter_self (fs : FS) (p : Path) :
    (fs.filter fun e => e.1 != p).find? (fun e => e.1 == p) = none := by
  rw [List.find?_eq_none]
  intro e he
  have := (List.mem_filter.mp he).2
  simpa using this

theorem flatMap_congr {α β : Type} (l : List α) (f g : α → List β) (h : ∀ a ∈ l, f a = g a) :
    l.flatMap f = l.flatMap g := by
  rw [List.flatMap_def, List.flatMap_def, List.map_congr_left h]

theorem delete_read (fs : FS) (p : Path) : (fs.delete p).read p = none := by
  unfold FS.delete FS.read
  rw [find_filter_self]; rfl

theorem delete_read_other (fs : FS) (p q : Path) (h : q ≠ p) : (fs.delete p).read q = fs.read q := by
  unfold FS.delete FS.read
  rw [find_filter_ne fs p q h]

/-! ## folds -/

theorem foldl_write_notin {α : Type} (f : α → Path) (g : α → List Nat) (q : Path) (l : List α) (fs : FS)
    (h : ∀ x ∈ l, f x ≠ q) : (l.foldl (fun fs x => fs.write (f x) (g x)) fs).read q = fs.read q := by
  induction l generalizing fs with
  | nil => rfl
  | cons x l ih =>
    rw [List.foldl_cons, ih _ (fun y hy => h y (List.mem_cons_of_mem _ hy)),
      write_read_other _ _ _ _ (fun e => h x List.mem_cons_self e.symm)]

theorem foldl_write_mem {α : Type} (f : α → Path) (g : α → List Nat) (q : Path) (v : List Nat) (l : List α) (fs : FS)
    (hv : ∀ x ∈ l, f x = q → g x = v) (hex : ∃ x ∈ l, f x = q) :
    (l.foldl (fun fs x => fs.write (f x) (g x)) fs).read q = some v := by
  induction l generalizing fs with
  | nil => obtain ⟨x, hx, _⟩ := hex; cases hx
  | cons x l ih =>
    rw [List.foldl_cons]
    by_cases h' : ∃ y ∈ l, f y = q
    · exact ih _ (fun y hy => hv y (List.mem_cons_of_mem _ hy)) h'
    · have hn : ∀ y ∈ l, f y ≠ q := fun y hy e => h' ⟨y, hy, e⟩
      rw [foldl_write_notin f g q l _ hn]
      obtain ⟨y, hy, hyq⟩ := hex
      have hxq : f x = q := by
        rcases List.mem_cons.mp hy with rfl | hy'
        · exact hyq
        · exact absurd hyq (hn y hy')
      rw [← hv x List.mem_cons_self hxq, ← hxq]
      exact write_read _ _ _

theorem foldl_delete_notin (q : Path) (l : List Path) (fs : FS) (h : q ∉ l) :
    (l.foldl FS.delete fs).read q = fs.read q := by
  induction l generalizing fs with
  | nil => rfl
  | cons x l ih =>
    rw [List.foldl_cons, ih _ (fun hq => h (List.mem_cons_of_mem _ hq)),
      delete_read_other _ _ _ (fun e => h (by rw [e]; exact List.mem_cons_self))]

theorem foldl_delete_mem (q : Path) (l : List Path) (fs : FS) (h : q ∈ l) :
    (l.foldl FS.delete fs).read q = none := by
  induction l generalizing fs with
  | nil => cases h
  | cons x l ih =>
    rw [List.foldl_cons]
    by_cases hq : q ∈ l
    · exact ih _ hq
    · rw [foldl_delete_notin q l _ hq]
      rcases List.mem_cons.mp h with rfl | h'
      · exact delete_read _ _
      · exact absurd h' hq

/-! ## the counting phase as one fold over (partition, chunk) pairs -/

def pairs (P C : Nat) : List (Nat × Nat) := (List.range C).flatMap fun c => (List.range P).map fun p => (p, c)

theorem mem_pairs (P C : Nat) (x : Nat × Nat) : x ∈ pairs P C ↔ x.1 < P ∧ x.2 < C := by
  unfold pairs
  simp only [List.mem_flatMap, List.mem_range, List.mem_map]
  constructor
  · rintro ⟨c, hc, p, hp, rfl⟩; exact ⟨hp, hc⟩
  · rintro ⟨hp, hc⟩; exact ⟨x.2, hc, x.1, hp, rfl⟩

theorem countPhase_eq (P C : Nat) (dump : Nat → Nat → List Nat) (fs : FS) :
    countPhase P C dump fs =
      (pairs P C).foldl (fun fs x => fs.write (Path.temp x.1 x.2) (dump x.1 x.2)) fs := by
  unfold countPhase pairs
  generalize List.range C = lc
  induction lc generalizing fs with
  | nil => rfl
  | cons c lc ih =>
    rw [List.foldl_cons, List.flatMap_cons, List.foldl_append, ih, List.foldl_map]

theorem countPhase_read_temp (P C : Nat) (dump : Nat → Nat → List Nat) (fs : FS) (p c : Nat)
    (hp : p < P) (hc : c < C) : (countPhase P C dump fs).read (.temp p c) = some (dump p c) := by
  rw [countPhase_eq]
  apply foldl_write_mem (fun x : Nat × Nat => Path.temp x.1 x.2) (fun x => dump x.1 x.2)
  · intro x _ hx
    injection hx with h1 h2
    show dump x.1 x.2 = dump p c
    rw [h1, h2]
  · exact ⟨(p, c), (mem_pairs P C (p, c)).mpr ⟨hp, hc⟩, rfl⟩

theorem countPhase_read_nontemp (P C : Nat) (dump : Nat → Nat → List Nat) (fs : FS) (q : Path)
    (hq : ∀ p c, q ≠ .temp p c) : (countPhase P C dump fs).read q = fs.read q := by
  rw [countPhase_eq]
  exact foldl_write_notin (fun x : Nat × Nat => Path.temp x.1 x.2) (fun x => dump x.1 x.2) q _ fs
    (fun x _ e => hq x.1 x.2 e.symm)

theorem mem_mergeReads (P C : Nat) (q : Path) : q ∈ mergeReads P C ↔ ∃ p c, p < P ∧ c < C ∧ q = .temp p c := by
  unfold mergeReads
  simp only [List.mem_flatMap, List.mem_range, List.mem_map]
  constructor
  · rintro ⟨p, hp, c, hc, rfl⟩; exact ⟨p, c, hp, hc, rfl⟩
  · rintro ⟨p, c, hp, hc, rfl⟩; exact ⟨p, hp, c, hc, rfl⟩

/-- what the merge phase reads after the counting phase of the same run -/
theorem merge_inputs (P C : Nat) (dump : Nat → Nat → List Nat) (fs : FS) :
    (mergeReads P C).map (countPhase P C dump fs).read =
      (List.range P).flatMap fun p => (List.range C).map fun c => some (dump p c) := by
  unfold mergeReads
  rw [List.map_flatMap]
  apply flatMap_congr
  intro p hp
  rw [List.map_map]
  apply List.map_congr_left
  intro c hc
  exact countPhase_read_temp P C dump fs p c (List.mem_range.mp hp) (List.mem_range.mp hc)

theorem ctrRun_counts (P C : Nat) (dump : Nat → Nat → List Nat) (combine : List (Option (List Nat)) → List Nat) (fs : FS) :
    (ctrRun P C dump combine fs).read .counts =
      some (combine ((List.range P).flatMap fun p => (List.range C).map fun c => some (dump p c))) := by
  unfold ctrRun mergePhase
  simp only [if_true]
  rw [foldl_delete_notin, write_read, merge_inputs]
  intro h
  obtain ⟨p, c, _, _, e⟩ := (mem_mergeReads P C _).mp h
  cases e

theorem ctrRun_no_temp_left (P C : Nat) (dump : Nat → Nat → List Nat) (combine : List (Option (List Nat)) → List Nat) (fs : FS)
    (p c : Nat) (hp : p < P) (hc : c < C) : (ctrRun P C dump combine fs).read (.temp p c) = none := by
  unfold ctrRun mergePhase
  simp only [if_true]
  exact foldl_delete_mem _ _ _ ((mem_mergeReads P C _).mpr ⟨p, c, hp, hc, rfl⟩)

theorem ctrRun_other_untouched (P C : Nat) (dump : Nat → Nat → List Nat) (combine : List (Option (List Nat)) → List Nat) (fs : FS) (n : Nat) :
    (ctrRun P C dump combine fs).read (.other n) = fs.read (.other n) := by
  unfold ctrRun mergePhase
  simp only [if_true]
  rw [foldl_delete_notin, write_read_other _ _ _ _ (by intro e; cases e), countPhase_read_nontemp]
  · intro p c e; cases e
  · intro h
    obtain ⟨p, c, _, _, e⟩ := (mem_mergeReads P C _).mp h
    cases e

/-! ## library histories: `count(); merge(delete)` with any `delete` flag -/

theorem counts_notin_mergeReads (P C : Nat) : Path.counts ∉ mergeReads P C := by
  intro h
  obtain ⟨p, c, _, _, e⟩ := (mem_mergeReads P C _).mp h
  cases e

/-- the table a merge writes, whatever the disk and whatever `delete` is -/
theorem mergePhase_counts (P C : Nat) (d : Bool) (combine : List (Option (List Nat)) → List Nat) (fs : FS) :
    (mergePhase P C d combine fs).read .counts = some (combine ((mergeReads P C).map fs.read)) := by
  unfold mergePhase
  cases d
  · simp only [Bool.false_eq_true, if_false]
    rw [write_read]
  · simp only [if_true]
    rw [foldl_delete_notin _ _ _ (counts_notin_mergeReads P C), write_read]

theorem ctrRunD_true (P C : Nat) (dump : Nat → Nat → List Nat) (combine : List (Option (List Nat)) → List Nat) (fs : FS) :
    ctrRunD P C true dump combine fs = ctrRun P C dump combine fs := rfl

theorem ctrRunD_counts (P C : Nat) (d : Bool) (dump : Nat → Nat → List Nat) (combine : List (Option (List Nat)) → List Nat) (fs : FS) :
    (ctrRunD P C d dump combine fs).read .counts =
      some (combine ((List.range P).flatMap fun p => (List.range C).map fun c => some (dump p c))) := by
  unfold ctrRunD
  rw [mergePhase_counts, merge_inputs]

theorem ctrRunD_keep_temp (P C : Nat) (dump : Nat → Nat → List Nat) (combine : List (Option (List Nat)) → List Nat) (fs : FS)
    (p c : Nat) (hp : p < P) (hc : c < C) : (ctrRunD P C false dump combine fs).read (.temp p c) = some (dump p c) := by
  unfold ctrRunD mergePhase
  simp only [Bool.false_eq_true, if_false]
  rw [write_read_other _ _ _ _ (by intro e; cases e), countPhase_read_temp P C dump fs p c hp hc]

theorem remerge_after_keep (P C : Nat) (d : Bool) (dump : Nat → Nat → List Nat)
    (combine combine' : List (Option (List Nat)) → List Nat) (fs : FS) :
    (mergePhase P C d combine' (ctrRunD P C false dump combine fs)).read .counts
      = (ctrRunD P C d dump combine' fs).read .counts := by
  rw [mergePhase_counts]
  unfold ctrRunD
  rw [mergePhase_counts]
  congr 2
  apply List.map_congr_left
  intro q hq
  obtain ⟨p, c, hp, hc, rfl⟩ := (mem_mergeReads P C q).mp hq
  rw [countPhase_read_temp P C dump fs p c hp hc]
  exact ctrRunD_keep_temp P C dump combine fs p c hp hc

end KT.Cl
