import KtVerif.Model.Minimiser
import KtVerif.Props.C01
/-!
# C18 (b): the k-mer lists attached to the runs concatenate to the canonical w-mers

`KMG.step` is cut into the register phase `regs` and the buffer phase `bufStep`.  The
`kVal*` registers evolve exactly like `KG.step` at `k = w` (`kg` is the projection); the invariant
`Inv` carries a ghost counter `c` (length of the clean suffix consumed so far) that ties the two
run-length registers and the buffer length together, so that a non-empty pending list `kbuff`
is never dropped.
-/
namespace KT.KMin
open KT

/-! ## `scanMin` -/

theorem scanMin_le_best (l : List Nat) : ∀ best bi j, (scanMin best bi j l).1 ≤ best := by
  induction l with
  | nil => intro best bi j; exact Nat.le_refl _
  | cons x xs ih =>
    intro best bi j
    unfold scanMin
    by_cases h : x < best
    · rw [if_pos h]; exact Nat.le_trans (ih _ _ _) (Nat.le_of_lt h)
    · rw [if_neg h]; exact ih _ _ _

theorem scanMin_le_mem (l : List Nat) : ∀ best bi j x, x ∈ l → (scanMin best bi j l).1 ≤ x := by
  induction l with
  | nil => intro best bi j x hx; cases hx
  | cons y ys ih =>
    intro best bi j x hx
    unfold scanMin
    rcases List.mem_cons.1 hx with rfl | hx
    · by_cases h : x < best
      · rw [if_pos h]; exact scanMin_le_best _ _ _ _
      · rw [if_neg h]; exact Nat.le_trans (scanMin_le_best _ _ _ _) (Nat.le_of_not_lt h)
    · by_cases h : y < best
      · rw [if_pos h]; exact ih _ _ _ _ hx
      · rw [if_neg h]; exact ih _ _ _ _ hx

/-! ## the m-mer code pushed into the buffer is a proper `u64` value below `U64MAX` -/

theorem maskOf_lt (m : Nat) : maskOf m < U64MAX := by
  unfold maskOf shl64 U64MAX W64
  have : (1 <<< (2 * m)) % 2 ^ 64 < 2 ^ 64 := Nat.mod_lt _ (by decide)
  omega

theorem mv_lt (m x y : Nat) : min (x &&& maskOf m) y < U64MAX :=
  Nat.lt_of_le_of_lt (Nat.min_le_left _ _) (Nat.lt_of_le_of_lt Nat.and_le_right (maskOf_lt m))

/-! ## `firstScan` -/

theorem firstScan_spec (cap : Nat) (s : KMG) :
    ∃ a bp, KMG.firstScan cap s = { s with active := a, buffPos := bp } ∧
      (1 ≤ cap → (∀ x ∈ s.buff, x < U64MAX) → s.buff.length = cap → a ≠ U64MAX) := by
  unfold KMG.firstScan
  by_cases h : s.active = U64MAX ∧ s.buff.length = cap
  · rw [if_pos h]
    refine ⟨(scanMin s.active s.buffPos 0 s.buff).1, (scanMin s.active s.buffPos 0 s.buff).2, rfl, ?_⟩
    intro hc hb hl
    cases hbf : s.buff with
    | nil => rw [hbf] at hl; simp only [List.length_nil] at hl; omega
    | cons x xs =>
      have hx : x ∈ s.buff := by rw [hbf]; exact List.mem_cons_self
      have h1 := scanMin_le_mem s.buff s.active s.buffPos 0 x hx
      have h2 := hb x hx
      rw [← hbf]
      omega
  · rw [if_neg h]
    refine ⟨s.active, s.buffPos, rfl, ?_⟩
    intro _ _ hl ha
    exact h ⟨ha, hl⟩

/-! ## the two phases of a step on a clean byte -/

/-- register phase (the `l ≥ m` continuation): roll both register pairs, push the canonical
    w-mer when the w-register is full -/
def regs (w m : Nat) (s : KMG) (b : Nat) : KMG :=
  let v := nt4 b
  let kf := (shl64 s.kValF 2 ||| v) &&& maskOf w
  let kr := (s.kValR >>> 2) ||| shl64 (v ^^^ 3) (shiftOf w)
  let kl := s.kValL + 1
  let f := (shl64 s.mValF 2 ||| v) &&& maskOf m
  let r := (s.mValR >>> 2) ||| shl64 (v ^^^ 3) (shiftOf m)
  let l := s.mValL + 1
  let s0 : KMG := { s with kValF := kf, kValR := kr, kValL := kl, mValF := f, mValR := r, mValL := l }
  if kl = w then { s0 with mValL := l - 1, kbuff := min kf kr :: s0.kbuff, kValL := kl - 1 }
  else { s0 with mValL := l - 1 }

/-- buffer phase -/
def bufStep (w m pos : Nat) (s1 : KMG) (mv : Nat) : KMG × Option KRun :=
  let cap := w - m + 1
  if s1.buff.length = cap then
    let buff := s1.buff.tail ++ [mv]
    if s1.buffPos = 0 then
      let (newMin, bp) := scanMin U64MAX s1.buffPos 0 buff
      if newMin ≠ s1.active then
        ({ s1 with buff := buff, buffPos := bp, active := newMin, start := pos - w + 1, kbuff := [] },
         some (s1.active, s1.start, pos, s1.kbuff.reverse))
      else
        (KMG.firstScan cap { s1 with buff := buff, buffPos := bp }, none)
    else if mv < s1.active then
      ({ s1 with buff := buff, active := mv, buffPos := buff.length - 1, start := pos - w + 1, kbuff := [] },
       some (s1.active, s1.start, pos, s1.kbuff.reverse))
    else
      (KMG.firstScan cap { s1 with buff := buff, buffPos := s1.buffPos - 1 }, none)
  else
    (KMG.firstScan cap { s1 with buff := s1.buff ++ [mv] }, none)

theorem step_long {w m pos : Nat} {s : KMG} {b : Nat} (hv : nt4 b < 4) (hl : ¬ s.mValL + 1 < m) :
    KMG.step w m pos s b = bufStep w m pos (regs w m s b)
      (min ((shl64 s.mValF 2 ||| nt4 b) &&& maskOf m) ((s.mValR >>> 2) ||| shl64 (nt4 b ^^^ 3) (shiftOf m))) := by
  unfold KMG.step bufStep regs
  simp only [hv, hl, ↓reduceIte]

theorem step_short {w m pos : Nat} {s : KMG} {b : Nat} (hv : nt4 b < 4) (hl : s.mValL + 1 < m) :
    KMG.step w m pos s b =
      ({ s with kValF := (shl64 s.kValF 2 ||| nt4 b) &&& maskOf w,
                kValR := (s.kValR >>> 2) ||| shl64 (nt4 b ^^^ 3) (shiftOf w),
                kValL := s.kValL + 1,
                mValF := (shl64 s.mValF 2 ||| nt4 b) &&& maskOf m,
                mValR := (s.mValR >>> 2) ||| shl64 (nt4 b ^^^ 3) (shiftOf m),
                mValL := s.mValL + 1 }, none) := by
  unfold KMG.step
  simp only [hv, hl, ↓reduceIte]

theorem step_amb {w m pos : Nat} {s : KMG} {b : Nat} (hv : ¬ nt4 b < 4) :
    KMG.step w m pos s b =
      (⟨0, 0, 0, 0, 0, 0, U64MAX, pos + 1, [], 0, []⟩,
       if s.buff.length = w - m + 1 then some (s.active, s.start, pos, s.kbuff.reverse) else none) := by
  unfold KMG.step
  simp only [hv, ↓reduceIte]

/-! ## projections -/

/-- the w-mer registers as a `KmerGenerator` state -/
def kg (s : KMG) : KG := ⟨s.kValF, s.kValR, s.kValL⟩

/-- k-mers carried by an optional run -/
def outK : Option KRun → List Nat
  | some r => r.2.2.2
  | none => []

/-- canonical code of an optional k-mer item -/
def outG : Option (Nat × Nat) → List Nat
  | some p => [canonPair p]
  | none => []

/-! ## buffer phase: registers untouched, pending list emitted or kept -/

structure BufSpec (w m : Nat) (s1 : KMG) (r : KMG × Option KRun) : Prop where
  ml : r.1.mValL = s1.mValL
  kg : kg r.1 = kg s1
  led : outK r.2 ++ r.1.kbuff.reverse = s1.kbuff.reverse
  bl : r.1.buff.length = if s1.buff.length = w - m + 1 then w - m + 1 else s1.buff.length + 1
  bb : ∀ x ∈ r.1.buff, x < U64MAX
  act : r.1.buff.length = w - m + 1 → r.1.active ≠ U64MAX

theorem mem_tail_snoc {l : List Nat} {mv x : Nat} (h : x ∈ l.tail ++ [mv]) : x ∈ l ∨ x = mv := by
  rcases List.mem_append.1 h with h | h
  · exact Or.inl (List.mem_of_mem_tail h)
  · exact Or.inr (List.mem_singleton.1 h)

theorem length_tail_snoc {l : List Nat} {mv n : Nat} (h : l.length = n + 1) :
    (l.tail ++ [mv]).length = n + 1 := by
  rw [List.length_append, List.length_tail, h]; rfl

theorem bufStep_spec (w m pos : Nat) (s1 : KMG) (mv : Nat)
    (hbb : ∀ x ∈ s1.buff, x < U64MAX) (hmv : mv < U64MAX) :
    BufSpec w m s1 (bufStep w m pos s1 mv) := by
  have hbt : ∀ x ∈ s1.buff.tail ++ [mv], x < U64MAX := by
    intro x hx
    rcases mem_tail_snoc hx with h | h
    · exact hbb x h
    · rw [h]; exact hmv
  have hbs : ∀ x ∈ s1.buff ++ [mv], x < U64MAX := by
    intro x hx
    rcases List.mem_append.1 hx with h | h
    · exact hbb x h
    · rw [List.mem_singleton.1 h]; exact hmv
  unfold bufStep
  by_cases hb : s1.buff.length = w - m + 1
  · have hlt : (s1.buff.tail ++ [mv]).length = w - m + 1 := length_tail_snoc hb
    by_cases hp : s1.buffPos = 0
    · by_cases hn : (scanMin U64MAX s1.buffPos 0 (s1.buff.tail ++ [mv])).1 = s1.active
      · simp only [hb, hp, ↓reduceIte]
        rw [hp] at hn
        simp only [hn, ne_eq, not_true_eq_false, ↓reduceIte]
        obtain ⟨a, bp, he, ha⟩ := firstScan_spec (w - m + 1)
          { s1 with buff := s1.buff.tail ++ [mv],
                    buffPos := (scanMin U64MAX 0 0 (s1.buff.tail ++ [mv])).snd }
        rw [he]
        exact ⟨rfl, rfl, rfl, by simp only [hb, ↓reduceIte]; exact hlt, hbt,
          fun h => ha (by omega) hbt h⟩
      · simp only [hb, hp, ↓reduceIte]
        rw [hp] at hn
        simp only [hn, ne_eq, not_false_eq_true, ↓reduceIte]
        refine ⟨rfl, rfl, ?_, by simp only [hb, ↓reduceIte]; exact hlt, hbt, ?_⟩
        · simp only [outK, List.reverse_nil, List.append_nil]
        · intro _
          have h1 := scanMin_le_mem (s1.buff.tail ++ [mv]) U64MAX 0 0 mv (by simp)
          simp only
          omega
    · by_cases hn : mv < s1.active
      · simp only [hb, hp, hn, ↓reduceIte]
        refine ⟨rfl, rfl, ?_, by simp only [hb, ↓reduceIte]; exact hlt, hbt, ?_⟩
        · simp only [outK, List.reverse_nil, List.append_nil]
        · intro _; simp only; omega
      · simp only [hb, hp, hn, ↓reduceIte]
        obtain ⟨a, bp, he, ha⟩ := firstScan_spec (w - m + 1)
          { s1 with buff := s1.buff.tail ++ [mv], buffPos := s1.buffPos - 1 }
        rw [he]
        exact ⟨rfl, rfl, rfl, by simp only [hb, ↓reduceIte]; exact hlt, hbt,
          fun h => ha (by omega) hbt h⟩
  · simp only [hb, ↓reduceIte]
    obtain ⟨a, bp, he, ha⟩ := firstScan_spec (w - m + 1) { s1 with buff := s1.buff ++ [mv] }
    rw [he]
    exact ⟨rfl, rfl, rfl, by simp only [hb, ↓reduceIte, List.length_append, List.length_singleton], hbs,
      fun h => ha (by omega) hbs h⟩

/-! ## the invariant -/

structure Inv (w m : Nat) (s : KMG) (c : Nat) : Prop where
  ml : s.mValL = min c (m - 1)
  kl : s.kValL = min c (w - 1)
  bl : s.buff.length = min (c + 1 - m) (w - m + 1)
  bb : ∀ x ∈ s.buff, x < U64MAX
  act : s.buff.length = w - m + 1 → s.active ≠ U64MAX
  kb : s.kbuff ≠ [] → w ≤ c

theorem inv_init {w m : Nat} (hm1 : 1 ≤ m) : Inv w m KMG.init 0 := by
  refine ⟨?_, ?_, ?_, ?_, ?_, ?_⟩ <;> simp only [KMG.init]
  · omega
  · omega
  · simp only [List.length_nil]; omega
  · intro x hx; cases hx
  · simp only [List.length_nil]; omega
  · intro h; exact absurd rfl h

/-! ## the w-mer registers as functions of the reversed prefix

`KmerGenerator` keeps stale bits across an ambiguous byte (only the length is reset) whereas
`KmerMinimiserGenerator` zeroes its registers: the two agree once `w` clean bytes have been seen.
`csr r` is the clean prefix of the reversed input prefix `r` (= clean suffix of the input). -/

def csr : List Nat → List Nat
  | [] => []
  | b :: r => if nt4 b < 4 then b :: csr r else []

theorem cRun_csr (r : List Nat) : cRun (csr r) = cRun r := by
  induction r with
  | nil => rfl
  | cons b r ih =>
    by_cases hv : nt4 b < 4
    · simp only [csr, cRun, hv, ↓reduceIte, ih]
    · simp only [csr, cRun, hv, ↓reduceIte]

theorem take_csr (r : List Nat) : ∀ k, k ≤ cRun r → (csr r).take k = r.take k := by
  induction r with
  | nil => intro k _; rfl
  | cons b r ih =>
    intro k hk
    cases k with
    | zero => rfl
    | succ k =>
      by_cases hv : nt4 b < 4
      · simp only [cRun, hv, ↓reduceIte] at hk
        simp only [csr, hv, ↓reduceIte, List.take_succ_cons]
        rw [ih k (by omega)]
      · simp only [cRun, hv, ↓reduceIte] at hk
        omega

theorem fReg_csr {w : Nat} {r : List Nat} (h : w ≤ cRun r) : fReg w (csr r) = fReg w r := by
  rw [fReg_of_run (by rw [cRun_csr]; exact h), fReg_of_run h, take_csr r w h]

theorem rReg_csr {w : Nat} (hw1 : 1 ≤ w) {r : List Nat} (h : w ≤ cRun r) :
    rReg w (csr r) = rReg w r := by
  rw [rReg_of_run hw1 (by rw [cRun_csr]; exact h), rReg_of_run hw1 h, take_csr r w h]

/-- what `KG.step w (stOf w r) b` emits (see `step_stOf`) -/
def kgOut (w : Nat) (r : List Nat) : Option (Nat × Nat) :=
  if w ≤ cRun r then some (fReg w r, rReg w r) else none

/-- register phase against the `KmerGenerator` registers at `k = w` -/
theorem regs_spec {w : Nat} (m : Nat) (hw1 : 1 ≤ w) (hw : w ≤ 31) (s : KMG) (r : List Nat) (b : Nat)
    (hv : nt4 b < 4)
    (hkf : s.kValF = fReg w (csr r)) (hkr : s.kValR = rReg w (csr r))
    (hkl : s.kValL = min (cRun r) (w - 1)) :
    (regs w m s b).mValL = s.mValL + 1 - 1 ∧
    (regs w m s b).kValL = (if s.kValL + 1 = w then w - 1 else s.kValL + 1) ∧
    (regs w m s b).buff = s.buff ∧
    (regs w m s b).kValF = fReg w (csr (b :: r)) ∧
    (regs w m s b).kValR = rReg w (csr (b :: r)) ∧
    (regs w m s b).kbuff.reverse = s.kbuff.reverse ++ outG (kgOut w (b :: r)) ∧
    ((regs w m s b).kbuff ≠ [] → s.kValL + 1 = w ∨ s.kbuff ≠ []) := by
  have hF : (shl64 s.kValF 2 ||| nt4 b) &&& maskOf w = fReg w (csr (b :: r)) := by
    rw [hkf, fwd_update hw (fReg_lt w _) hv]
    simp only [csr, fReg, hv, ↓reduceIte]
  have hR : (s.kValR >>> 2) ||| shl64 (nt4 b ^^^ 3) (shiftOf w) = rReg w (csr (b :: r)) := by
    rw [hkr, rev_update hw1 hw (rReg_lt hw1 _) hv]
    simp only [csr, rReg, hv, ↓reduceIte]
  have hc : cRun (b :: r) = cRun r + 1 := by simp only [cRun, hv, ↓reduceIte]
  unfold regs
  by_cases hk : s.kValL + 1 = w
  · have hcw : w ≤ cRun (b :: r) := by omega
    simp only [hk, ↓reduceIte, List.reverse_cons, kgOut, hcw, outG, canonPair]
    refine ⟨by trivial, by trivial, by trivial, hF, hR, ?_, fun _ => Or.inl (by trivial)⟩
    rw [hF, hR, fReg_csr hcw, rReg_csr hw1 hcw]
  · have hcw : ¬ w ≤ cRun (b :: r) := by omega
    simp only [hk, ↓reduceIte, kgOut, hcw, outG, List.append_nil]
    exact ⟨by trivial, by trivial, by trivial, hF, hR, by trivial, fun h => Or.inr h⟩

/-! ## arithmetic of the ghost counter (kept out of the big contexts so `omega` stays fast) -/

theorem ar_short {c m w ml kl bl : Nat} (hmw : m ≤ w) (hml : ml = min c (m - 1))
    (hkl : kl = min c (w - 1)) (hbl : bl = min (c + 1 - m) (w - m + 1)) (hl : ml + 1 < m) :
    ml + 1 = min (c + 1) (m - 1) ∧ kl + 1 = min (c + 1) (w - 1) ∧
    bl = min (c + 1 + 1 - m) (w - m + 1) ∧ bl ≠ w - m + 1 ∧ ¬ w ≤ c + 1 := by
  have hA : c + 1 < m := by clear hkl hbl; omega
  have e1 : ml = c := by clear hkl hbl; omega
  have e2 : kl = c := by clear hml hbl e1; omega
  have e3 : bl = 0 := by clear hml hkl e1 e2; omega
  clear hml hkl hbl hl
  subst e1 e2 e3
  exact ⟨by omega, by omega, by omega, by omega, by omega⟩

theorem ar_long {c m w ml kl bl : Nat} (hm1 : 1 ≤ m) (hmw : m ≤ w) (hml : ml = min c (m - 1))
    (hkl : kl = min c (w - 1)) (hbl : bl = min (c + 1 - m) (w - m + 1)) (hl : ¬ ml + 1 < m) :
    ml + 1 - 1 = min (c + 1) (m - 1) ∧
    (if kl + 1 = w then w - 1 else kl + 1) = min (c + 1) (w - 1) ∧
    (if bl = w - m + 1 then w - m + 1 else bl + 1) = min (c + 1 + 1 - m) (w - m + 1) ∧
    (kl + 1 = w → w ≤ c + 1) := by
  have hA : m ≤ c + 1 := by clear hkl hbl; omega
  refine ⟨?_, ?_, ?_, ?_⟩
  · clear hkl hbl; omega
  · clear hml hbl hl; split <;> omega
  · clear hml hkl hl; split <;> omega
  · clear hml hbl hl; omega

theorem ar_zero {m w : Nat} (hm1 : 1 ≤ m) : 0 = min (0 + 1 - m) (w - m + 1) := by omega

theorem ar_cap (m w : Nat) : ¬ 0 = w - m + 1 := by omega

theorem ar_full {c m w : Nat} (hmw : m ≤ w) (h : w ≤ c) : min (c + 1 - m) (w - m + 1) = w - m + 1 := by
  omega

/-- the w-registers hold the values of the clean suffix -/
structure KRel (w : Nat) (s : KMG) (r : List Nat) : Prop where
  kf : s.kValF = fReg w (csr r)
  kr : s.kValR = rReg w (csr r)

theorem step_inv {w m : Nat} (hm1 : 1 ≤ m) (hmw : m ≤ w) (hw : w ≤ 31) (pos : Nat) {s : KMG}
    {r : List Nat} (b : Nat) (h : Inv w m s (cRun r)) (hr : KRel w s r) :
    Inv w m (KMG.step w m pos s b).1 (cRun (b :: r)) ∧
      KRel w (KMG.step w m pos s b).1 (b :: r) ∧
      outK (KMG.step w m pos s b).2 ++ (KMG.step w m pos s b).1.kbuff.reverse =
        s.kbuff.reverse ++ outG (kgOut w (b :: r)) := by
  obtain ⟨hml, hkl, hbl, hbb, hact, hkb⟩ := h
  obtain ⟨hkf, hkr⟩ := hr
  have hw1 : 1 ≤ w := Nat.le_trans hm1 hmw
  by_cases hv : nt4 b < 4
  · have hc : cRun (b :: r) = cRun r + 1 := by simp only [cRun, hv, ↓reduceIte]
    rw [hc]
    by_cases hl : s.mValL + 1 < m
    · -- still filling the m-register: nothing is pushed anywhere
      rw [step_short hv hl]
      obtain ⟨a1, a2, a3, a4, a5⟩ := ar_short hmw hml hkl hbl hl
      refine ⟨⟨a1, a2, a3, hbb, fun h => absurd h a4, ?_⟩, ⟨?_, ?_⟩, ?_⟩
      · intro h; exact Nat.le_succ_of_le (hkb h)
      · simp only
        rw [hkf, fwd_update hw (fReg_lt w _) hv]
        simp only [csr, fReg, hv, ↓reduceIte]
      · simp only
        rw [hkr, rev_update hw1 hw (rReg_lt hw1 _) hv]
        simp only [csr, rReg, hv, ↓reduceIte]
      · simp only [kgOut, hc, a5, ↓reduceIte, outK, outG, List.nil_append, List.append_nil]
    · rw [step_long hv hl]
      obtain ⟨a1, a2, a3, a4⟩ := ar_long hm1 hmw hml hkl hbl hl
      obtain ⟨r1, r2, r3, r4, r5, r6, r7⟩ := regs_spec m hw1 hw s r b hv hkf hkr hkl
      have hB := bufStep_spec w m pos (regs w m s b)
        (min ((shl64 s.mValF 2 ||| nt4 b) &&& maskOf m) ((s.mValR >>> 2) ||| shl64 (nt4 b ^^^ 3) (shiftOf m)))
        (by rw [r3]; exact hbb) (mv_lt m _ _)
      obtain ⟨b1, b2, b3, b4, b5, b6⟩ := hB
      refine ⟨⟨?_, ?_, ?_, b5, b6, ?_⟩, ⟨?_, ?_⟩, ?_⟩
      · rw [b1, r1]; exact a1
      · have : (bufStep w m pos (regs w m s b) _).1.kValL = (regs w m s b).kValL :=
          congrArg KG.len b2
        rw [this, r2]; exact a2
      · rw [b4, r3]; exact a3
      · intro hne
        have h1 : (regs w m s b).kbuff ≠ [] := by
          intro h0
          rw [h0, List.reverse_nil] at b3
          have := (List.append_eq_nil_iff.1 b3).2
          exact hne (List.reverse_eq_nil_iff.1 this)
        rcases r7 h1 with h2 | h2
        · exact a4 h2
        · exact Nat.le_succ_of_le (hkb h2)
      · have : (bufStep w m pos (regs w m s b) _).1.kValF = (regs w m s b).kValF :=
          congrArg KG.fval b2
        rw [this, r4]
      · have : (bufStep w m pos (regs w m s b) _).1.kValR = (regs w m s b).kValR :=
          congrArg KG.rval b2
        rw [this, r5]
      · rw [b3, r6]
  · rw [step_amb hv]
    have hc : cRun (b :: r) = 0 := by simp only [cRun, hv, ↓reduceIte]
    have hcw : ¬ w ≤ 0 := Nat.not_le_of_gt hw1
    rw [hc]
    refine ⟨⟨(Nat.zero_min _).symm, (Nat.zero_min _).symm, ar_zero hm1, ?_, ?_, ?_⟩, ⟨?_, ?_⟩, ?_⟩
    · intro x hx; cases hx
    · intro h; exact absurd h (ar_cap m w)
    · intro h; exact absurd rfl h
    · simp only [csr, hv, ↓reduceIte, fReg]
    · simp only [csr, hv, ↓reduceIte, rReg]
    · simp only [kgOut, hc, hcw, ↓reduceIte, outG, List.reverse_nil, List.append_nil]
      by_cases hb : s.buff.length = w - m + 1
      · simp only [hb, ↓reduceIte, outK]
      · simp only [hb, ↓reduceIte, outK]
        -- nothing pending may be dropped
        cases hkb' : s.kbuff with
        | nil => rfl
        | cons x xs =>
          have h1 := hkb (by rw [hkb']; exact List.cons_ne_nil _ _)
          exact absurd (hbl.trans (ar_full hmw h1)) hb

/-! ## the ledger over a whole run -/

theorem run_ledger {w m : Nat} (hm1 : 1 ≤ m) (hmw : m ≤ w) (hw : w ≤ 31) (n : Nat) (bs : List Nat) :
    ∀ (pos : Nat) (s : KMG) (r : List Nat), Inv w m s (cRun r) → KRel w s r →
      (KMG.run w m n pos s bs).flatMap (fun r => r.2.2.2) =
        s.kbuff.reverse ++ (KG.run w (stOf w r) bs).map canonPair := by
  have hw1 : 1 ≤ w := by omega
  induction bs with
  | nil =>
    intro pos s r h _
    unfold KMG.run KG.run KMG.finish
    by_cases ha : s.active ≠ U64MAX
    · rw [if_pos ha]
      simp only [List.flatMap_cons, List.flatMap_nil, List.map_nil]
    · rw [if_neg ha]
      simp only [List.flatMap_nil, List.map_nil, List.append_nil]
      cases hkb : s.kbuff with
      | nil => rfl
      | cons x xs =>
        exfalso
        have h1 := h.kb (by rw [hkb]; exact List.cons_ne_nil _ _)
        exact ha (h.act (h.bl.trans (ar_full hmw h1)))
  | cons b bs ih =>
    intro pos s r h hr
    obtain ⟨hinv, hrel, hled⟩ := step_inv hm1 hmw hw pos b h hr
    unfold KMG.run KG.run
    rw [step_stOf hw1 hw]
    rcases hk : KMG.step w m pos s b with ⟨s', o⟩
    rw [hk] at hinv hrel hled
    simp only at hinv hrel hled
    have ih' := ih (pos + 1) s' (b :: r) hinv hrel
    unfold kgOut at hled
    by_cases hc : w ≤ cRun (b :: r)
    · simp only [hc, ↓reduceIte, outG] at hled ⊢
      cases o with
      | none =>
        simp only [outK, List.nil_append] at hled
        simp only [List.map_cons]
        rw [ih', hled, List.append_assoc]
        rfl
      | some q =>
        simp only [outK] at hled
        simp only [List.flatMap_cons, List.map_cons]
        rw [ih', ← List.append_assoc, hled, List.append_assoc]
        rfl
    · simp only [hc, ↓reduceIte, outG, List.append_nil] at hled ⊢
      cases o with
      | none =>
        simp only [outK, List.nil_append] at hled
        simp only []
        rw [ih', hled]
      | some q =>
        simp only [outK] at hled
        simp only [List.flatMap_cons]
        rw [ih', ← List.append_assoc, hled]

theorem conserves {w m : Nat} (hm1 : 1 ≤ m) (hmw : m ≤ w) (hw : w ≤ 31) (s : List Nat) :
    (kmerMinimisers w m s).flatMap (fun r => r.2.2.2) = canons w s := by
  have h := run_ledger hm1 hmw hw s.length s 0 KMG.init [] (inv_init hm1) ⟨rfl, rfl⟩
  unfold kmerMinimisers
  rw [h]
  have hs : stOf w [] = KG.init := by simp only [stOf, fReg, rReg, cRun, Nat.zero_min]; rfl
  have hk : KG.run w (stOf w []) s = kmers w s := by rw [hs]; rfl
  rw [hk, kmerGen_eq_spec w s (by omega) hw]
  rfl

end KT.KMin
