import KtVerif.Model.Sched
/-!
# C07, chunk level: invariant of `CSys` under every schedule
-/
namespace KT.Cnt
open KT

/-- the record a worker holds whose k-mers are not yet in the table -/
def pend : CState → List Nat
  | .counting n => [n]
  | _ => []

/-- records held in state `counting`, in worker order -/
def pending (ws : List CState) : List Nat := ws.flatMap pend

theorem pending_cons (a : CState) (ws : List CState) : pending (a :: ws) = pend a ++ pending ws := by
  simp [pending]

theorem pending_set (ws : List CState) (w : Nat) (c x : CState) (hw : ws[w]? = some c) :
    (pend c ++ pending (ws.set w x)).Perm (pend x ++ pending ws) := by
  induction ws generalizing w with
  | nil => simp at hw
  | cons a ws ih =>
    cases w with
    | zero =>
      simp only [List.getElem?_cons_zero, Option.some.injEq] at hw
      subst hw
      simp only [List.set_cons_zero, pending_cons]
      rw [List.perm_iff_count]; intro b
      simp only [List.count_append]; omega
    | succ w =>
      simp only [List.getElem?_cons_succ] at hw
      have h := ih w hw
      simp only [List.set_cons_succ, pending_cons]
      rw [List.perm_iff_count] at h ⊢; intro b
      have hb := h b
      simp only [List.count_append] at hb ⊢; omega

/-- count form of `pending_set`, after mapping the records to their k-mers -/
theorem pending_set_count (kms : Nat → List Nat) (ws : List CState) (w : Nat) (c x : CState)
    (hw : ws[w]? = some c) (b : Nat) :
    List.count b ((pend c).flatMap kms) + List.count b ((pending (ws.set w x)).flatMap kms)
      = List.count b ((pend x).flatMap kms) + List.count b ((pending ws).flatMap kms) := by
  have h := (pending_set ws w c x hw).flatMap_right kms
  rw [List.perm_iff_count] at h
  have hb := h b
  simpa only [List.flatMap_append, List.count_append] using hb

theorem pending_all_done (ws : List CState) (h : ws.all (· == CState.done) = true) : pending ws = [] := by
  induction ws with
  | nil => rfl
  | cons a ws ih =>
    simp only [List.all_cons, Bool.and_eq_true, beq_iff_eq] at h
    rw [pending_cons, ih h.2, h.1]; rfl

/-- "progress has been made or the input is exhausted" -/
def Prog (N start : Nat) (s : CSys) : Prop := s.next = N ∨ start < s.next

structure Inv (N start : Nat) (kms : Nat → List Nat) (s : CSys) : Prop where
  le1 : start ≤ s.next
  le2 : s.next ≤ N
  tk : s.taken = List.range' start (s.next - start)
  tb : (s.table ++ (pending s.ws).flatMap kms).Perm (s.taken.flatMap kms)
  sf : 0 < s.soFar → Prog N start s
  act : ∀ (w : Nat) (st : CState), s.ws[w]? = some st → st ≠ CState.start → st ≠ CState.ready →
    Prog N start s

theorem pending_replicate (T : Nat) : pending (List.replicate T CState.start) = [] := by
  induction T with
  | zero => rfl
  | succ T ih => rw [List.replicate_succ, pending_cons, ih]; rfl

theorem inv_init (N T start : Nat) (kms : Nat → List Nat) (h : start ≤ N) :
    Inv N start kms (CSys.init T start) := by
  refine ⟨Nat.le_refl _, h, ?_, ?_, ?_, ?_⟩
  · simp [CSys.init]
  · simp [CSys.init, pending_replicate]
  · intro h; simp [CSys.init] at h
  · intro w st hw h1 _
    simp only [CSys.init, List.getElem?_replicate] at hw
    split at hw
    · cases hw; exact absurd rfl h1
    · cases hw

/-- the state of worker `w'` after worker `w` was set to `x` -/
theorem getElem?_set_cases {ws : List CState} {w w' : Nat} {x st : CState}
    (h : (ws.set w x)[w']? = some st) : st = x ∨ ws[w']? = some st := by
  rw [List.getElem?_set] at h
  split at h
  · split at h
    · cases h; exact Or.inl rfl
    · cases h
  · exact Or.inr h

theorem inv_step (N limit start : Nat) (kms : Nat → List Nat) (len : Nat → Nat) (s s' : CSys)
    (st : CStep) (h : Inv N start kms s) (ha : CSys.apply N limit kms len s st = some s') :
    Inv N start kms s' := by
  cases st with
  | check w =>
    simp only [CSys.apply] at ha
    split at ha
    · rename_i hw
      have hp : ∀ x, pend x = [] →
          (s.table ++ (pending (s.ws.set w x)).flatMap kms).Perm (s.taken.flatMap kms) := by
        intro x hx
        refine List.Perm.trans ?_ h.tb
        rw [List.perm_iff_count]; intro b
        have := pending_set_count kms s.ws w _ x hw b
        rw [hx] at this
        simp only [pend, List.flatMap_nil, List.count_nil] at this
        simp only [List.count_append]; omega
      split at ha
      · rename_i hgt
        cases ha
        have hP : Prog N start s := h.sf (by omega)
        exact ⟨h.le1, h.le2, h.tk, hp _ rfl, fun _ => hP, fun _ _ _ _ _ => hP⟩
      · cases ha
        refine ⟨h.le1, h.le2, h.tk, hp _ rfl, h.sf, ?_⟩
        intro w' st' hw' h1 h2
        rcases getElem?_set_cases hw' with e | e
        · exact absurd e h2
        · exact h.act w' st' e h1 h2
    · cases ha
  | take w =>
    simp only [CSys.apply] at ha
    split at ha
    · rename_i hw
      split at ha
      · rename_i hlt
        cases ha
        have hlt' : start < s.next + 1 := by have := h.le1; omega
        refine ⟨by have := h.le1; simp only; omega, by simp only; omega, ?_, ?_, fun _ => Or.inr hlt',
          fun _ _ _ _ _ => Or.inr hlt'⟩
        · have h1 := h.le1
          have e : s.next + 1 - start = (s.next - start) + 1 := by omega
          simp only [e, List.range'_concat, h.tk]
          congr 2; omega
        · simp only [List.flatMap_append]
          have htb := h.tb
          rw [List.perm_iff_count] at htb ⊢; intro b
          have := pending_set_count kms s.ws w _ (.counting s.next) hw b
          have hb := htb b
          simp only [pend, List.flatMap_nil, List.count_nil, List.flatMap_cons,
            List.count_append] at this hb ⊢
          omega
      · rename_i hge
        cases ha
        have hP : Prog N start s := Or.inl (by have := h.le2; omega)
        refine ⟨h.le1, h.le2, h.tk, ?_, fun _ => hP, fun _ _ _ _ _ => hP⟩
        refine List.Perm.trans ?_ h.tb
        rw [List.perm_iff_count]; intro b
        have := pending_set_count kms s.ws w _ .done hw b
        simp only [pend, List.flatMap_nil, List.count_nil] at this
        simp only [List.count_append]; omega
    · cases ha
  | count w =>
    simp only [CSys.apply] at ha
    split at ha
    · rename_i n hw
      cases ha
      have hP : Prog N start s := h.act w _ hw (by simp) (by simp)
      refine ⟨h.le1, h.le2, h.tk, ?_, fun _ => hP, fun _ _ _ _ _ => hP⟩
      have htb := h.tb
      rw [List.perm_iff_count] at htb ⊢; intro b
      have := pending_set_count kms s.ws w _ (.adding n) hw b
      have hb := htb b
      simp only [pend, List.flatMap_nil, List.count_nil, List.flatMap_cons,
        List.count_append] at this hb ⊢
      omega
    · cases ha
  | addlen w =>
    simp only [CSys.apply] at ha
    split at ha
    · rename_i n hw
      cases ha
      have hP : Prog N start s := h.act w _ hw (by simp) (by simp)
      refine ⟨h.le1, h.le2, h.tk, ?_, fun _ => hP, fun _ _ _ _ _ => hP⟩
      refine List.Perm.trans ?_ h.tb
      rw [List.perm_iff_count]; intro b
      have := pending_set_count kms s.ws w _ .start hw b
      simp only [pend, List.flatMap_nil, List.count_nil] at this
      simp only [List.count_append]; omega
    · cases ha

theorem apply_ws_length (N limit : Nat) (kms : Nat → List Nat) (len : Nat → Nat) (s s' : CSys)
    (st : CStep) (ha : CSys.apply N limit kms len s st = some s') : s'.ws.length = s.ws.length := by
  cases st <;> simp only [CSys.apply] at ha <;> (split at ha) <;> (try split at ha) <;>
    (try cases ha) <;> simp

theorem inv_run (N limit start : Nat) (kms : Nat → List Nat) (len : Nat → Nat) (s s' : CSys)
    (sched : List CStep) (h : Inv N start kms s)
    (hr : CSys.run N limit kms len s sched = some s') :
    Inv N start kms s' ∧ s'.ws.length = s.ws.length := by
  induction sched generalizing s with
  | nil => simp only [CSys.run, Option.some.injEq] at hr; subst hr; exact ⟨h, rfl⟩
  | cons st rest ih =>
    simp only [CSys.run] at hr
    split at hr
    · rename_i s1 h1
      have := ih s1 (inv_step N limit start kms len s s1 st h h1) hr
      exact ⟨this.1, by rw [this.2, apply_ws_length N limit kms len s s1 st h1]⟩
    · cases hr

theorem chunk_main (N limit T start : Nat) (kms : Nat → List Nat) (len : Nat → Nat)
    (hT : 0 < T) (hstart : start ≤ N) (sched : List CStep) (s' : CSys)
    (hr : CSys.run N limit kms len (CSys.init T start) sched = some s') (ht : s'.terminal = true) :
    s'.taken = List.range' start (s'.next - start) ∧ start ≤ s'.next ∧ s'.next ≤ N ∧
    s'.table.Perm (s'.taken.flatMap kms) ∧ (start < N → start < s'.next) := by
  obtain ⟨hI, hlen⟩ := inv_run N limit start kms len _ s' sched (inv_init N T start kms hstart) hr
  have hlen : s'.ws.length = T := by rw [hlen]; simp [CSys.init]
  refine ⟨hI.tk, hI.le1, hI.le2, ?_, ?_⟩
  · have := hI.tb
    rw [pending_all_done s'.ws ht] at this
    simpa using this
  · intro hlt
    have h0 : s'.ws[0]? = some s'.ws[0] := List.getElem?_eq_getElem (by omega)
    have hd : s'.ws[0] = CState.done := by
      have := List.all_eq_true.mp ht s'.ws[0] (List.getElem_mem _)
      simpa using this
    rw [hd] at h0
    rcases hI.act 0 _ h0 (by simp) (by simp) with e | e
    · omega
    · exact e

end KT.Cnt
