import KtVerif.Proofs.SchedInv
/-!
# The minimiser outputs under any schedule: appended lines (s2m), keyed upserts (m2s)
-/
namespace KT.Sch
open KT

/-! ## s2m -/

theorem s2m_fold (line : Nat → List Nat) (order : List Nat) (init : List (List Nat)) :
    order.foldl (fun a n => s2mEff line n a) init = init ++ order.map line := by
  induction order generalizing init with
  | nil => simp
  | cons n ns ih =>
    rw [List.foldl_cons, ih]
    simp only [s2mEff, List.map_cons, List.append_assoc, List.singleton_append]

/-! ## upsert -/

section
variable {κ ε : Type} [DecidableEq κ]

theorem keys_upsert (k : κ) (e : ε) (m : List (κ × List ε)) :
    (upsert k e m).map (·.1) =
      if k ∈ m.map (·.1) then m.map (·.1) else m.map (·.1) ++ [k] := by
  induction m with
  | nil => simp [upsert]
  | cons x rest ih =>
    obtain ⟨k1, es1⟩ := x
    unfold upsert
    by_cases h : k1 = k
    · simp [h]
    · have h' : ¬ k = k1 := fun e => h e.symm
      simp only [h, if_false, List.map_cons, ih, List.mem_cons, h', false_or]
      split <;> simp

theorem mem_upsert_ne (k : κ) (e : ε) (m : List (κ × List ε)) (k' : κ) (es' : List ε) (hne : k' ≠ k) :
    (k', es') ∈ upsert k e m ↔ (k', es') ∈ m := by
  induction m with
  | nil => simp [upsert, hne]
  | cons x rest ih =>
    obtain ⟨k1, es1⟩ := x
    unfold upsert
    by_cases h : k1 = k
    · have : ¬ k' = k1 := fun e => hne (e.trans h)
      simp [h, hne]
    · simp only [h, if_false, List.mem_cons, ih]

theorem mem_upsert_eq (k : κ) (e : ε) (m : List (κ × List ε)) (es' : List ε)
    (hnd : (m.map (·.1)).Nodup) (hin : (k, es') ∈ upsert k e m) :
    (∃ es, (k, es) ∈ m ∧ es' = es ++ [e]) ∨ (k ∉ m.map (·.1) ∧ es' = [e]) := by
  induction m with
  | nil =>
    right
    simp only [upsert, List.mem_singleton, Prod.mk.injEq, true_and] at hin
    exact ⟨by simp, hin⟩
  | cons x rest ih =>
    obtain ⟨k1, es1⟩ := x
    simp only [List.map_cons, List.nodup_cons] at hnd
    unfold upsert at hin
    by_cases h : k1 = k
    · subst h
      simp only [if_true, List.mem_cons, Prod.mk.injEq, true_and] at hin
      rcases hin with h1 | h1
      · left; exact ⟨es1, List.mem_cons_self, h1⟩
      · exfalso
        apply hnd.1
        exact List.mem_map.mpr ⟨(k1, es'), h1, rfl⟩
    · have h' : ¬ k = k1 := fun e => h e.symm
      simp only [h, if_false, List.mem_cons, Prod.mk.injEq, h', false_and, false_or] at hin
      rcases ih hnd.2 hin with ⟨es, hes, he⟩ | ⟨hk, he⟩
      · left; exact ⟨es, List.mem_cons_of_mem _ hes, he⟩
      · right
        refine ⟨?_, he⟩
        simp only [List.map_cons, List.mem_cons, h', false_or]
        exact hk

/-- the map `m` is exactly the grouping of the pair list `ps` by key -/
structure Grouped (m : List (κ × List ε)) (ps : List (κ × ε)) : Prop where
  nodup : (m.map (·.1)).Nodup
  keys : ∀ k, k ∈ m.map (·.1) ↔ ∃ p ∈ ps, p.1 = k
  vals : ∀ k es, (k, es) ∈ m → es = (ps.filter (fun p => decide (p.1 = k))).map (·.2)

theorem grouped_nil : Grouped ([] : List (κ × List ε)) [] :=
  ⟨by simp, by simp, by simp⟩

theorem grouped_upsert (m : List (κ × List ε)) (ps : List (κ × ε)) (k : κ) (e : ε)
    (h : Grouped m ps) : Grouped (upsert k e m) (ps ++ [(k, e)]) := by
  refine ⟨?_, ?_, ?_⟩
  · rw [keys_upsert]
    split
    · exact h.nodup
    · rename_i hk
      rw [List.nodup_append]
      refine ⟨h.nodup, by simp, ?_⟩
      intro a ha b hb
      simp only [List.mem_singleton] at hb
      subst hb
      intro e2; subst e2; exact hk ha
  · intro k'
    have hk' : k' ∈ (upsert k e m).map (·.1) ↔ (k' ∈ m.map (·.1) ∨ k' = k) := by
      rw [keys_upsert]
      split
      · rename_i hk
        constructor
        · intro x; exact Or.inl x
        · intro x; rcases x with x | x
          · exact x
          · subst x; exact hk
      · simp
    rw [hk', h.keys k']
    constructor
    · rintro (⟨p, hp, e1⟩ | e1)
      · exact ⟨p, List.mem_append_left _ hp, e1⟩
      · exact ⟨(k, e), by simp, e1.symm⟩
    · rintro ⟨p, hp, e1⟩
      rcases List.mem_append.mp hp with hp | hp
      · left; exact ⟨p, hp, e1⟩
      · right
        simp only [List.mem_singleton] at hp
        subst hp; exact e1.symm
  · intro k' es' hin
    by_cases hk : k' = k
    · subst hk
      have hf : (List.filter (fun p => decide (p.1 = k')) [(k', e)]) = [(k', e)] := by simp
      rw [List.filter_append, hf, List.map_append]
      rcases mem_upsert_eq k' e m es' h.nodup hin with ⟨es, hes, he⟩ | ⟨hk, he⟩
      · rw [he, h.vals k' es hes]; rfl
      · have hnone : ps.filter (fun p => decide (p.1 = k')) = [] := by
          rw [List.filter_eq_nil_iff]
          intro p hp
          simp only [decide_eq_true_eq]
          intro e1
          exact hk ((h.keys k').mpr ⟨p, hp, e1⟩)
        rw [he, hnone]; rfl
    · have hin' := (mem_upsert_ne k e m k' es' hk).mp hin
      have hf : (List.filter (fun p => decide (p.1 = k')) [(k, e)]) = [] := by
        have : ¬ k = k' := fun e => hk e.symm
        simp [this]
      rw [List.filter_append, hf, List.append_nil]
      exact h.vals k' es' hin'

theorem grouped_foldl (qs : List (κ × ε)) (m : List (κ × List ε)) (ps : List (κ × ε))
    (h : Grouped m ps) : Grouped (qs.foldl (fun acc p => upsert p.1 p.2 acc) m) (ps ++ qs) := by
  induction qs generalizing m ps with
  | nil => simpa using h
  | cons q qs ih =>
    have := ih _ _ (grouped_upsert m ps q.1 q.2 h)
    simpa [List.append_assoc] using this

theorem m2s_fold (runs : Nat → List (κ × ε)) (order : List Nat) :
    Grouped (order.foldl (fun a n => m2sEff runs n a) []) (order.flatMap runs) := by
  have h := grouped_foldl (order.flatMap runs) [] [] (grouped_nil (κ := κ) (ε := ε))
  rw [List.foldl_flatMap, List.nil_append] at h
  exact h

end

end KT.Sch
