import KtVerif.Model.Vectors
import KtVerif.Proofs.VecOligo
/-!
# Helpers for C12: the k-mer chaos-game row (`OligoCgrComputer::vectorise_one`)
-/
namespace KT.Vec
open KT

/-! ## end point of the walk = last point of the whole-sequence CGR -/

/-! equation lemmas in case form.  (Proofs below never let the elaborator or the kernel compare a
`cgrMid …` term with anything but itself: unfolding the float emulation on open terms reaches the
literal `2^1074` and does not terminate in reasonable time.) -/

theorem cgrEndLoop_nil (S : Nat) (p : Nat × Nat) : cgrEndLoop S p [] = some p := by
  rw [cgrEndLoop]

theorem cgrEndLoop_cons_none {S x y b : Nat} {bs : List Nat} (h : cgrCorner b = none) :
    cgrEndLoop S (x, y) (b :: bs) = none := by
  simp only [cgrEndLoop, h]

theorem cgrEndLoop_cons_some {S x y b cx cy : Nat} {bs : List Nat} (h : cgrCorner b = some (cx, cy)) :
    cgrEndLoop S (x, y) (b :: bs) = cgrEndLoop S (cgrMid (cx * f64OfNat S) x, cgrMid (cy * f64OfNat S) y) bs := by
  simp only [cgrEndLoop, h]

theorem cgrLoop_nil (S : Nat) (p : Nat × Nat) : cgrLoop S p [] = some [] := by
  rw [cgrLoop]

theorem cgrLoop_cons_none {S x y b : Nat} {bs : List Nat} (h : cgrCorner b = none) :
    cgrLoop S (x, y) (b :: bs) = none := by
  simp only [cgrLoop, h]

theorem cgrLoop_cons_some {S x y b cx cy : Nat} {bs : List Nat} (h : cgrCorner b = some (cx, cy)) :
    cgrLoop S (x, y) (b :: bs) =
      (cgrLoop S (cgrMid (cx * f64OfNat S) x, cgrMid (cy * f64OfNat S) y) bs).map
        fun rest => (cgrMid (cx * f64OfNat S) x, cgrMid (cy * f64OfNat S) y) :: rest := by
  simp only [cgrLoop, h]
  generalize cgrLoop S (cgrMid (cx * f64OfNat S) x, cgrMid (cy * f64OfNat S) y) bs = o
  cases o <;> rfl

theorem map_getLastD_cons {α : Type} (o : Option (List α)) (q p : α) :
    o.map (fun l => l.getLastD q) = (o.map fun rest => q :: rest).map fun l => l.getLastD p := by
  cases o with
  | none => rfl
  | some rest =>
    show some (rest.getLastD q) = some ((q :: rest).getLastD p)
    rw [List.getLastD_cons]

theorem cgrEndLoop_eq_last' (S : Nat) (t : List Nat) : ∀ p : Nat × Nat,
    cgrEndLoop S p t = (cgrLoop S p t).map fun l => l.getLastD p := by
  induction t with
  | nil => intro p; rw [cgrEndLoop_nil, cgrLoop_nil]; rfl
  | cons b bs ih =>
    intro p
    obtain ⟨x, y⟩ := p
    cases h : cgrCorner b with
    | none => rw [cgrEndLoop_cons_none h, cgrLoop_cons_none h]; rfl
    | some c =>
      obtain ⟨cx, cy⟩ := c
      rw [cgrEndLoop_cons_some h, cgrLoop_cons_some h, ih]
      exact map_getLastD_cons _ _ _

theorem cgrEndLoop_isSome (S : Nat) (t : List Nat) : ∀ p : Nat × Nat,
    (∀ c ∈ t, c = 65 ∨ c = 67 ∨ c = 71 ∨ c = 84) → (cgrEndLoop S p t).isSome = true := by
  induction t with
  | nil => intro p _; rw [cgrEndLoop_nil]; rfl
  | cons b bs ih =>
    intro p h
    obtain ⟨x, y⟩ := p
    have hb := h b (List.mem_cons_self ..)
    have hbs : ∀ c ∈ bs, c = 65 ∨ c = 67 ∨ c = 71 ∨ c = 84 := fun c hc => h c (List.mem_cons_of_mem _ hc)
    rcases hb with rfl | rfl | rfl | rfl
    · rw [cgrEndLoop_cons_some (show cgrCorner 65 = some (0, 0) from by decide)]; exact ih _ hbs
    · rw [cgrEndLoop_cons_some (show cgrCorner 67 = some (0, 1) from by decide)]; exact ih _ hbs
    · rw [cgrEndLoop_cons_some (show cgrCorner 71 = some (1, 1) from by decide)]; exact ih _ hbs
    · rw [cgrEndLoop_cons_some (show cgrCorner 84 = some (1, 0) from by decide)]; exact ih _ hbs
/-! ## `List.mapM` in `Option` -/

theorem mapM_isSome {α β : Type} (f : α → Option β) : ∀ (l : List α),
    (∀ x ∈ l, (f x).isSome = true) → (l.mapM f).isSome = true := by
  intro l
  induction l with
  | nil => intro _; simp
  | cons a l ih =>
    intro h
    have ha := h a (List.mem_cons_self ..)
    have hl := ih (fun x hx => h x (List.mem_cons_of_mem _ hx))
    rw [List.mapM_cons]
    obtain ⟨b, hb⟩ := Option.isSome_iff_exists.1 ha
    obtain ⟨bs, hbs⟩ := Option.isSome_iff_exists.1 hl
    rw [hb, hbs]
    rfl

theorem mapM_eq_some {α β : Type} (f : α → Option β) : ∀ (l : List α) (r : List β),
    l.mapM f = some r → l.map f = r.map some := by
  intro l
  induction l with
  | nil =>
    intro r h
    rw [List.mapM_nil] at h
    cases h
    rfl
  | cons a l ih =>
    intro r h
    rw [List.mapM_cons] at h
    cases ha : f a with
    | none => rw [ha] at h; cases h
    | some b =>
      cases hl : l.mapM f with
      | none => rw [ha, hl] at h; cases h
      | some bs =>
        rw [ha, hl] at h
        cases h
        rw [List.map_cons, List.map_cons, ih bs hl, ha]

/-! ## the row -/

/-- the per-column step of `oligoCgrRow` -/
def cgrCell (S : Nat) (tf : List Nat × Nat) : Option (Nat × Nat × Nat) :=
  match cgrEndLoop S (cgrCentre S) tf.1 with
  | none => none
  | some (x, y) => some (x, y, tf.2)

theorem oligoCgrRow_eq (pm : PosMaps) (k S : Nat) (norm : Bool) (s : List Nat) :
    oligoCgrRow pm k S norm s = ((pm.posKmer.map (numericToKmer k)).zip (oligoVec pm k norm s)).mapM (cgrCell S) := rfl

theorem cgrCell_isSome {S : Nat} {tf : List Nat × Nat} (h : (cgrEndLoop S (cgrCentre S) tf.1).isSome = true) :
    (cgrCell S tf).isSome = true := by
  unfold cgrCell
  obtain ⟨q, hq⟩ := Option.isSome_iff_exists.1 h
  rw [hq]
  rfl

theorem cgrCell_eq_some {S : Nat} {tf : List Nat × Nat} {q : Nat × Nat × Nat} (h : cgrCell S tf = some q) :
    cgrEndLoop S (cgrCentre S) tf.1 = some (q.1, q.2.1) ∧ q.2.2 = tf.2 := by
  unfold cgrCell at h
  cases he : cgrEndLoop S (cgrCentre S) tf.1 with
  | none => rw [he] at h; cases h
  | some xy =>
    rw [he] at h
    obtain ⟨x, y⟩ := xy
    cases h
    exact ⟨rfl, rfl⟩

theorem texts_eq (k : Nat) (hk : k ≤ 31) :
    (kmerPosMaps k).posKmer.map (numericToKmer k) = (canonList k).map (decodeSpec k) := by
  rw [posKmer_eq_canonList k hk]
  exact List.map_congr_left (fun x _ => numericToKmer_eq_spec k x)

theorem oligoVec_length (k : Nat) (norm : Bool) (s : List Nat) (hk1 : 1 ≤ k) (hk : k ≤ 31) :
    (oligoVec (kmerPosMaps k) k norm s).length = (canonList k).length := by
  unfold oligoVec
  rw [oligoCounts_eq k s hk1 hk, oligoRowSpec_eq_hits]
  cases norm <;> simp [normalise]

theorem oligoCgrRow_isSome' (k S : Nat) (norm : Bool) (s : List Nat) (hk : k ≤ 31) :
    (oligoCgrRow (kmerPosMaps k) k S norm s).isSome = true := by
  rw [oligoCgrRow_eq, texts_eq k hk]
  apply mapM_isSome
  intro tf htf
  apply cgrCell_isSome
  have hm : tf.1 ∈ (canonList k).map (decodeSpec k) := (List.of_mem_zip (a := tf.1) (b := tf.2) htf).1
  rw [List.mem_map] at hm
  obtain ⟨x, _, hx⟩ := hm
  rw [← hx]
  exact cgrEndLoop_isSome S _ _ (decodeSpec_alphabet k x)

/-- pointwise content of a successful row -/
theorem oligoCgrRow_pointwise (k S : Nat) (norm : Bool) (s : List Nat) (hk1 : 1 ≤ k) (hk : k ≤ 31)
    (row : List (Nat × Nat × Nat)) (h : oligoCgrRow (kmerPosMaps k) k S norm s = some row) :
    row.length = (canonList k).length ∧
    ∀ (j : Nat) (hr : j < row.length) (hc : j < (canonList k).length)
      (hf : j < (oligoVec (kmerPosMaps k) k norm s).length),
      cgrEndLoop S (cgrCentre S) (decodeSpec k (canonList k)[j]) = some (row[j].1, row[j].2.1) ∧
      row[j].2.2 = (oligoVec (kmerPosMaps k) k norm s)[j] := by
  rw [oligoCgrRow_eq, texts_eq k hk] at h
  have hm := mapM_eq_some _ _ _ h
  have hfl := oligoVec_length k norm s hk1 hk
  have hlen : row.length = (canonList k).length := by
    have := congrArg List.length hm
    simp only [List.length_map, List.length_zip, hfl, Nat.min_self] at this
    exact this.symm
  refine ⟨hlen, ?_⟩
  intro j hr hc hf
  have hj : (((canonList k).map (decodeSpec k)).zip (oligoVec (kmerPosMaps k) k norm s)).map (cgrCell S) =
      row.map some := hm
  have hjl : j < ((((canonList k).map (decodeSpec k)).zip (oligoVec (kmerPosMaps k) k norm s)).map (cgrCell S)).length := by
    rw [hj, List.length_map]; exact hr
  have hjr : j < (row.map some).length := by rw [List.length_map]; exact hr
  have e : ((((canonList k).map (decodeSpec k)).zip (oligoVec (kmerPosMaps k) k norm s)).map (cgrCell S))[j]'hjl
      = (row.map some)[j]'hjr := by
    congr 1
  rw [List.getElem_map, List.getElem_map, List.getElem_zip, List.getElem_map] at e
  exact cgrCell_eq_some e

/-- clean formulation: the coordinates of the row are the end points of the column texts -/
theorem oligoCgrRow_coords (k S : Nat) (norm : Bool) (s : List Nat) (hk1 : 1 ≤ k) (hk : k ≤ 31)
    (row : List (Nat × Nat × Nat)) (h : oligoCgrRow (kmerPosMaps k) k S norm s = some row) :
    row.map (fun t => some (t.1, t.2.1)) =
      (canonList k).map fun x => cgrEndLoop S (cgrCentre S) (decodeSpec k x) := by
  obtain ⟨hlen, hp⟩ := oligoCgrRow_pointwise k S norm s hk1 hk row h
  have hfl := oligoVec_length k norm s hk1 hk
  apply List.ext_getElem
  · simp [hlen]
  · intro j h1 h2
    have hr : j < row.length := by simpa using h1
    rw [List.getElem_map, List.getElem_map]
    exact ((hp j hr (hlen ▸ hr) (hfl ▸ hlen ▸ hr)).1).symm

/-- clean formulation: the values of the row are the oligo vector -/
theorem oligoCgrRow_values (k S : Nat) (norm : Bool) (s : List Nat) (hk1 : 1 ≤ k) (hk : k ≤ 31)
    (row : List (Nat × Nat × Nat)) (h : oligoCgrRow (kmerPosMaps k) k S norm s = some row) :
    row.map (fun t => t.2.2) = oligoVec (kmerPosMaps k) k norm s := by
  obtain ⟨hlen, hp⟩ := oligoCgrRow_pointwise k S norm s hk1 hk row h
  have hfl := oligoVec_length k norm s hk1 hk
  apply List.ext_getElem
  · simp [hlen, hfl]
  · intro j h1 h2
    have hr : j < row.length := by simpa using h1
    rw [List.getElem_map]
    exact (hp j hr (hlen ▸ hr) h2).2

end KT.Vec
