import KtVerif.Proofs.MinimiserBits
/-!
# Arithmetic of `enc` / `rcEnc`, the rolling registers as folds, last-`n` suffixes, clean suffix
-/
namespace KT.Min
open KT

theorem snoc_induction {α : Type} {P : List α → Prop} (hnil : P [])
    (hsnoc : ∀ l a, P l → P (l ++ [a])) : ∀ l, P l := by
  have h : ∀ l : List α, P l.reverse := by
    intro l
    induction l with
    | nil => simpa using hnil
    | cons a l ih => simpa using hsnoc _ a ih
  intro l
  simpa using h l.reverse

/-! ## base-4 codes -/

theorem foldl_enc (l : List Nat) (x : Nat) :
    l.foldl (fun a d => a * 4 + d) x = x * 4 ^ l.length + l.foldl (fun a d => a * 4 + d) 0 := by
  induction l generalizing x with
  | nil => simp
  | cons d l ih =>
    simp only [List.foldl_cons, List.length_cons]
    rw [ih (x * 4 + d), ih (0 * 4 + d), Nat.pow_succ]
    simp only [Nat.zero_mul, Nat.zero_add, Nat.add_mul, Nat.mul_assoc, Nat.mul_comm (4 ^ l.length) 4]
    omega

theorem encDigits_snoc (a : List Nat) (d : Nat) : encDigits (a ++ [d]) = encDigits a * 4 + d := by
  simp [encDigits, List.foldl_append]

theorem encDigits_cons (d : Nat) (a : List Nat) :
    encDigits (d :: a) = d * 4 ^ a.length + encDigits a := by
  simp only [encDigits, List.foldl_cons]
  rw [foldl_enc]; simp

theorem encDigits_append (a b : List Nat) :
    encDigits (a ++ b) = encDigits a * 4 ^ b.length + encDigits b := by
  simp only [encDigits, List.foldl_append]
  rw [foldl_enc]

theorem encDigits_lt (l : List Nat) (h : ∀ d ∈ l, d < 4) : encDigits l < 4 ^ l.length := by
  induction l with
  | nil => simp [encDigits]
  | cons d l ih =>
    rw [encDigits_cons, List.length_cons, Nat.pow_succ]
    have h1 := h d (by simp)
    have h2 := ih (fun x hx => h x (by simp [hx]))
    have : d * 4 ^ l.length ≤ 3 * 4 ^ l.length := Nat.mul_le_mul_right _ (by omega)
    omega

theorem enc_nil : enc [] = 0 := by simp [enc, encDigits]
theorem rcEnc_nil : rcEnc [] = 0 := by simp [rcEnc, encDigits]

theorem enc_snoc (q : List Nat) (b : Nat) : enc (q ++ [b]) = enc q * 4 + nt4 b := by
  simp [enc, encDigits_snoc]

theorem enc_append (a b : List Nat) : enc (a ++ b) = enc a * 4 ^ b.length + enc b := by
  simp [enc, encDigits_append]

theorem rcEnc_snoc (q : List Nat) (b : Nat) :
    rcEnc (q ++ [b]) = (3 - nt4 b) * 4 ^ q.length + rcEnc q := by
  simp only [rcEnc, List.map_append, List.map_cons, List.map_nil, List.reverse_append,
    List.reverse_cons, List.reverse_nil, List.nil_append, List.cons_append]
  rw [encDigits_cons]; simp [compDigit]

theorem rcEnc_cons (x : Nat) (q : List Nat) : rcEnc (x :: q) = rcEnc q * 4 + (3 - nt4 x) := by
  simp only [rcEnc, List.map_cons, List.reverse_cons, List.map_append, List.map_nil]
  rw [encDigits_snoc]; simp [compDigit]

theorem allClean_digits {q : List Nat} (h : ∀ b ∈ q, clean b = true) : ∀ d ∈ q.map nt4, d < 4 := by
  intro d hd
  obtain ⟨b, hb, rfl⟩ := List.mem_map.1 hd
  simpa [clean] using h b hb

theorem enc_lt (q : List Nat) (h : ∀ b ∈ q, clean b = true) : enc q < 4 ^ q.length := by
  have := encDigits_lt (q.map nt4) (allClean_digits h)
  simpa [enc] using this

theorem rcEnc_lt (q : List Nat) : rcEnc q < 4 ^ q.length := by
  have := encDigits_lt ((q.map nt4).reverse.map compDigit) (by
    intro d hd
    obtain ⟨e, _, rfl⟩ := List.mem_map.1 hd
    simp only [compDigit]; omega)
  simpa [rcEnc] using this

/-! ## last `n` elements -/

def lastN {α : Type} (n : Nat) (l : List α) : List α := l.drop (l.length - n)

theorem lastN_length {α : Type} (n : Nat) (l : List α) : (lastN n l).length = min n l.length := by
  simp only [lastN, List.length_drop]; omega

theorem lastN_of_le {α : Type} {n : Nat} {l : List α} (h : l.length ≤ n) : lastN n l = l := by
  have : l.length - n = 0 := by omega
  simp [lastN, this]

theorem lastN_snoc_short {α : Type} {n : Nat} {l : List α} (x : α) (h : l.length < n) :
    lastN n (l ++ [x]) = l ++ [x] := by
  apply lastN_of_le; simp; omega

theorem lastN_snoc_full {α : Type} {n : Nat} {l : List α} (x : α) (hn : 1 ≤ n) (h : n ≤ l.length) :
    lastN n (l ++ [x]) = (lastN n l).tail ++ [x] := by
  simp only [lastN, List.length_append, List.length_cons, List.length_nil, List.tail_drop]
  have e : l.length + (0 + 1) - n = l.length - n + 1 := by omega
  rw [e, List.drop_append_of_le_length (by omega)]

theorem lastN_append_right {α : Type} {n : Nat} (a l : List α) (h : n ≤ l.length) :
    lastN n (a ++ l) = lastN n l := by
  simp only [lastN, List.length_append]
  have e : a.length + l.length - n = a.length + (l.length - n) := by omega
  rw [e, List.drop_append]; simp

theorem take_append_lastN {α : Type} (n : Nat) (l : List α) :
    l.take (l.length - n) ++ lastN n l = l := by
  simp [lastN]

theorem mem_lastN {α : Type} {n : Nat} {l : List α} {x : α} (h : x ∈ lastN n l) : x ∈ l :=
  List.mem_of_mem_drop h

theorem lastN_lastN {α : Type} {n k : Nat} (l : List α) (h : n ≤ k) :
    lastN n (lastN k l) = lastN n l := by
  by_cases hk : k ≤ l.length
  · conv => rhs; rw [← take_append_lastN k l]
    rw [lastN_append_right _ _ (by rw [lastN_length]; omega)]
  · rw [lastN_of_le (n := k) (by omega)]

/-! ## the registers as folds over the clean stretch -/

/-- forward register after the clean bytes `q` -/
def regF (m : Nat) (q : List Nat) : Nat := q.foldl (fun f b => (f * 4 + nt4 b) % 4 ^ m) 0

/-- reverse-complement register after the clean bytes `q` -/
def regR (m : Nat) (q : List Nat) : Nat :=
  q.foldl (fun r b => r / 4 + (3 - nt4 b) * 4 ^ (m - 1)) 0

theorem regF_nil (m : Nat) : regF m [] = 0 := rfl
theorem regR_nil (m : Nat) : regR m [] = 0 := rfl

theorem regF_snoc (m : Nat) (q : List Nat) (b : Nat) :
    regF m (q ++ [b]) = (regF m q * 4 + nt4 b) % 4 ^ m := by
  simp [regF, List.foldl_append]

theorem regR_snoc (m : Nat) (q : List Nat) (b : Nat) :
    regR m (q ++ [b]) = regR m q / 4 + (3 - nt4 b) * 4 ^ (m - 1) := by
  simp [regR, List.foldl_append]

theorem regF_lt (m : Nat) (q : List Nat) : regF m q < 4 ^ m := by
  induction q using snoc_induction with
  | hnil => rw [regF_nil]; exact four_pow_pos m
  | hsnoc q b _ => rw [regF_snoc]; exact Nat.mod_lt _ (four_pow_pos m)

theorem regR_lt {m : Nat} (hm1 : 1 ≤ m) (q : List Nat) (h : ∀ b ∈ q, clean b = true) :
    regR m q < 4 ^ m := by
  induction q using snoc_induction with
  | hnil => rw [regR_nil]; exact four_pow_pos m
  | hsnoc q b ih =>
    rw [regR_snoc]
    have hb : nt4 b < 4 := by simpa [clean] using h b (by simp)
    exact rev_update_lt hm1 (ih (fun x hx => h x (by simp [hx]))) hb

theorem regF_eq_mod (m : Nat) (q : List Nat) : regF m q = enc q % 4 ^ m := by
  induction q using snoc_induction with
  | hnil => simp [regF_nil, enc_nil]
  | hsnoc q b ih =>
    rw [regF_snoc, enc_snoc, ih]
    rw [Nat.add_mod, Nat.mul_mod, Nat.mod_mod, ← Nat.mul_mod, ← Nat.add_mod]

theorem regF_eq_enc {m : Nat} {q : List Nat} (h : ∀ b ∈ q, clean b = true) (hq : m ≤ q.length) :
    regF m q = enc (lastN m q) := by
  rw [regF_eq_mod]
  conv => lhs; rw [← take_append_lastN m q]
  have hl : (lastN m q).length = m := by rw [lastN_length]; omega
  rw [enc_append, hl, Nat.mul_add_mod_self_right]
  apply Nat.mod_eq_of_lt
  have := enc_lt (lastN m q) (fun b hb => h b (mem_lastN hb))
  rwa [hl] at this

theorem regR_eq {m : Nat} (hm1 : 1 ≤ m) (q : List Nat) :
    regR m q = rcEnc (lastN m q) * 4 ^ (m - q.length) := by
  induction q using snoc_induction with
  | hnil => simp [regR_nil, lastN, rcEnc_nil]
  | hsnoc q b ih =>
    rw [regR_snoc, ih]
    by_cases hq : q.length < m
    · rw [lastN_snoc_short b hq, lastN_of_le (Nat.le_of_lt hq), rcEnc_snoc]
      simp only [List.length_append, List.length_cons, List.length_nil]
      obtain ⟨e, he⟩ : ∃ e, m - q.length = e + 1 := ⟨m - q.length - 1, by omega⟩
      have he' : m - (q.length + (0 + 1)) = e := by omega
      have hm' : m - 1 = q.length + e := by omega
      rw [he, he', hm', Nat.pow_succ, ← Nat.mul_assoc, Nat.mul_div_cancel _ (by omega : 0 < 4),
        Nat.pow_add, Nat.add_mul, Nat.mul_assoc]
      omega
    · have hq' : m ≤ q.length := by omega
      rw [lastN_snoc_full b hm1 hq']
      have hl : (lastN m q).length = m := by rw [lastN_length]; omega
      have e0 : m - q.length = 0 := by omega
      have e1 : m - (q ++ [b]).length = 0 := by simp; omega
      rw [e0, e1]
      cases ht : lastN m q with
      | nil => rw [ht] at hl; simp at hl; omega
      | cons x t =>
        rw [ht] at hl
        have hlt : t.length = m - 1 := by simp at hl; omega
        simp only [List.tail_cons, Nat.pow_zero, Nat.mul_one]
        rw [rcEnc_snoc, rcEnc_cons, hlt]
        have : 3 - nt4 x < 4 := by omega
        omega

theorem regR_eq_rcEnc {m : Nat} (hm1 : 1 ≤ m) {q : List Nat} (hq : m ≤ q.length) :
    regR m q = rcEnc (lastN m q) := by
  rw [regR_eq hm1]
  have : m - q.length = 0 := by omega
  simp [this]

/-! ## the maximal clean suffix of the consumed prefix -/

def cleanSuffix (p : List Nat) : List Nat := (p.reverse.takeWhile clean).reverse

theorem cleanSuffix_nil : cleanSuffix [] = [] := rfl

theorem cleanSuffix_snoc_clean {b : Nat} (p : List Nat) (hb : clean b = true) :
    cleanSuffix (p ++ [b]) = cleanSuffix p ++ [b] := by
  simp [cleanSuffix, hb]

theorem cleanSuffix_snoc_amb {b : Nat} (p : List Nat) (hb : clean b = false) :
    cleanSuffix (p ++ [b]) = [] := by
  simp [cleanSuffix, hb]

theorem cleanSuffix_clean (p : List Nat) : ∀ b ∈ cleanSuffix p, clean b = true := by
  intro b hb
  simp only [cleanSuffix, List.mem_reverse] at hb
  have h := List.all_takeWhile (l := p.reverse) (p := clean)
  rw [List.all_eq_true] at h
  exact h b hb

theorem cleanSuffix_eq_lastN (p : List Nat) : cleanSuffix p = lastN (cleanSuffix p).length p := by
  have h := List.takeWhile_append_dropWhile (p := clean) (l := p.reverse)
  have h2 : p = (p.reverse.dropWhile clean).reverse ++ cleanSuffix p := by
    calc p = p.reverse.reverse := (List.reverse_reverse p).symm
      _ = (p.reverse.takeWhile clean ++ p.reverse.dropWhile clean).reverse := by rw [h]
      _ = _ := by rw [List.reverse_append]; rfl
  conv => rhs; rhs; rw [h2]
  rw [lastN_append_right _ _ (Nat.le_refl _), lastN_of_le (Nat.le_refl _)]

theorem cleanSuffix_length_le (p : List Nat) : (cleanSuffix p).length ≤ p.length := by
  simp only [cleanSuffix, List.length_reverse]
  have := (List.takeWhile_sublist (l := p.reverse) clean).length_le
  simpa using this

/-- any clean suffix is at most as long as the maximal one -/
theorem le_cleanSuffix_length (a b : List Nat) (hb : ∀ x ∈ b, clean x = true) :
    b.length ≤ (cleanSuffix (a ++ b)).length := by
  simp only [cleanSuffix, List.reverse_append, List.length_reverse]
  rw [List.takeWhile_append_of_pos (by simpa using hb)]
  simp

end KT.Min
