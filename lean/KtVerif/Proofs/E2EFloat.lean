import KtVerif.Proofs.FloatDiv
/-!
# End-to-end helpers, float part: a quotient `c / t` of converted naturals with `c ≤ t` is at most
1.0 in the binary64 emulation, with NO bound on `c`, `t` (conversion `x as f64` is monotone, and a
quotient whose exact value is ≤ 1 rounds to a value ≤ 1).  `f64One = 2^1074` stays symbolic.
-/
namespace KT.E2E
open KT KT.Fl

/-- a quotient whose exact value is at most `2^e` rounds to at most `2^e` -/
theorem roundRat_le_pow (a b e : Nat) (hb : 0 < b) (h : a ≤ b * 2 ^ e) : roundRat a b ≤ 2 ^ e := by
  have hq : a / b ≤ 2 ^ e := Nat.div_le_of_le_mul h
  have hbl : bitLen (a / b) ≤ e + 1 :=
    (bitLen_le_iff _ _).2 (Nat.lt_of_le_of_lt hq (Nat.pow_lt_pow_right (by decide) (Nat.lt_succ_self e)))
  unfold roundRat
  simp only
  generalize hsh : bitLen (a / b) - 53 = sh
  have hle : sh ≤ e := by omega
  obtain ⟨d, rfl⟩ : ∃ d, e = d + sh := ⟨e - sh, by omega⟩
  have hpos : 0 < b * 2 ^ sh := Nat.mul_pos hb (Nat.two_pow_pos _)
  have e1 : b * 2 ^ (d + sh) = 2 ^ d * (b * 2 ^ sh) := by
    rw [Nat.pow_add, Nat.mul_left_comm]
  rw [e1] at h
  have hm := roundDiv_mono a (2 ^ d * (b * 2 ^ sh)) (b * 2 ^ sh) hpos h
  rw [roundDiv_exact _ _ hpos] at hm
  calc roundDiv a (b * 2 ^ sh) * 2 ^ sh ≤ 2 ^ d * 2 ^ sh := Nat.mul_le_mul_right _ hm
    _ = 2 ^ (d + sh) := (Nat.pow_add 2 d sh).symm

/-- rounding an integer to the nearest double is monotone -/
theorem roundRat_one_mono (a a' : Nat) (h : a ≤ a') : roundRat a 1 ≤ roundRat a' 1 := by
  unfold roundRat
  simp only [Nat.div_one, Nat.one_mul]
  have hm := bitLen_mono h
  generalize hsh : bitLen a - 53 = sh
  generalize hsh' : bitLen a' - 53 = sh'
  rcases Nat.lt_or_ge sh sh' with hlt | hge
  · have ha : a < 2 ^ (53 + sh) :=
      Nat.lt_of_lt_of_le (lt_two_pow_bitLen a) (two_pow_le _ _ (by omega))
    have hps : 0 < 2 ^ sh := Nat.two_pow_pos _
    have hps' : 0 < 2 ^ sh' := Nat.two_pow_pos _
    have h1 : roundDiv a (2 ^ sh) ≤ 2 ^ 53 := by
      have := roundDiv_mono a (2 ^ 53 * 2 ^ sh) (2 ^ sh) hps (by rw [← Nat.pow_add]; exact Nat.le_of_lt ha)
      rwa [roundDiv_exact _ _ hps] at this
    have ha'ne : a' ≠ 0 := by
      intro h0; rw [h0, bitLen_zero] at hsh'; omega
    have hlow := two_pow_bitLen_pred_le a' ha'ne
    have e2 : bitLen a' - 1 = 52 + sh' := by omega
    rw [e2, Nat.pow_add] at hlow
    have h2 : 2 ^ 52 ≤ roundDiv a' (2 ^ sh') := by
      have := roundDiv_mono (2 ^ 52 * 2 ^ sh') a' (2 ^ sh') hps' hlow
      rwa [roundDiv_exact _ _ hps'] at this
    have e3 : (2 : Nat) ^ 53 * 2 ^ sh = 2 ^ 52 * 2 ^ (sh + 1) := by
      rw [← Nat.pow_add, ← Nat.pow_add]; congr 1; omega
    calc roundDiv a (2 ^ sh) * 2 ^ sh ≤ 2 ^ 53 * 2 ^ sh := Nat.mul_le_mul_right _ h1
      _ = 2 ^ 52 * 2 ^ (sh + 1) := e3
      _ ≤ 2 ^ 52 * 2 ^ sh' := Nat.mul_le_mul_left _ (two_pow_le _ _ hlt)
      _ ≤ roundDiv a' (2 ^ sh') * 2 ^ sh' := Nat.mul_le_mul_right _ h2
  · have e : sh = sh' := by omega
    subst e
    exact Nat.mul_le_mul_right _ (roundDiv_mono a a' _ (Nat.two_pow_pos _) h)

attribute [local irreducible] f64One

theorem roundRat_le_one (a b : Nat) (hb : 0 < b) (h : a ≤ b * f64One) : roundRat a b ≤ f64One := by
  rw [f64One_eq] at h ⊢
  exact roundRat_le_pow a b 1074 hb h

/-- `x as f64` is monotone (any magnitude) -/
theorem f64OfNat_mono (c t : Nat) (h : c ≤ t) : f64OfNat c ≤ f64OfNat t := by
  unfold f64OfNat
  exact roundRat_one_mono _ _ (Nat.mul_le_mul_right _ h)

theorem f64OfNat_pos (t : Nat) (ht : 1 ≤ t) : 0 < f64OfNat t := by
  have h1 : f64OfNat 1 = 1 * f64One := f64OfNat_exact 1 (by decide)
  have := f64OfNat_mono 1 t ht
  rw [h1, Nat.one_mul] at this
  exact Nat.lt_of_lt_of_le f64One_pos this

/-- `c as f64 / t as f64 ≤ 1.0` whenever `c ≤ t`, `1 ≤ t`: no `2^53` bound needed -/
theorem f64Div_le_one_any (c t : Nat) (hct : c ≤ t) (ht : 1 ≤ t) :
    f64Div (f64OfNat c) (f64OfNat t) ≤ f64One := by
  unfold f64Div
  apply roundRat_le_one _ _ (f64OfNat_pos t ht)
  exact Nat.mul_le_mul_right _ (f64OfNat_mono c t hct)

end KT.E2E
