import KtVerif.Model.Fasta
/-!
# C06 helpers, part 1: lines

`splitLines` of a text written with `joinLines` gives the written lines back, each followed by a
terminator made of white space (`Terms`); `trimEnd` removes such a terminator; `splitFirst` on a
header; `chunks` algebra.
-/
namespace KT.Fa
open KT

/-! ## white space, trimming -/

theorem isWs_false_of_ge {b : Nat} (h : 33 ≤ b) : isWs b = false := by
  simp only [isWs, Bool.or_eq_false_iff, Bool.and_eq_false_iff, beq_eq_false_iff_ne,
    decide_eq_false_iff_not]
  omega

/-- all bytes white space -/
def AllWs (t : List Nat) : Prop := ∀ b ∈ t, isWs b = true

/-- the last byte (if any) is not white space -/
def LastOk (l : List Nat) : Prop := ∀ x, l.getLast? = some x → isWs x = false

theorem trimEnd_append_ws (l t : List Nat) (hl : LastOk l) (ht : AllWs t) : trimEnd (l ++ t) = l := by
  unfold trimEnd
  rw [List.reverse_append]
  have h1 : (t.reverse ++ l.reverse).dropWhile isWs = l.reverse := by
    rw [List.dropWhile_append_of_pos]
    · cases hr : l.reverse with
      | nil => simp
      | cons y ys =>
        have : l.getLast? = some y := by
          rw [← List.head?_reverse, hr]; rfl
        simp [List.dropWhile, hl y this]
    · intro b hb; exact ht b (by simpa using hb)
  rw [h1, List.reverse_reverse]

theorem lastOk_of_all {l : List Nat} (h : ∀ b ∈ l, isWs b = false) : LastOk l := by
  intro x hx
  exact h x (List.mem_of_getLast? hx)

/-! ## `splitFirst` -/

theorem splitFirst_none (p : Nat → Bool) (a : List Nat) (ha : ∀ b ∈ a, p b = false) :
    splitFirst p a = (a, none) := by
  induction a with
  | nil => rfl
  | cons b bs ih =>
    have hb : p b = false := ha b (by simp)
    have := ih (fun x hx => ha x (by simp [hx]))
    simp [splitFirst, hb, this]

theorem splitFirst_some (p : Nat → Bool) (a : List Nat) (s : Nat) (c : List Nat)
    (ha : ∀ b ∈ a, p b = false) (hs : p s = true) :
    splitFirst p (a ++ s :: c) = (a, some c) := by
  induction a with
  | nil => simp [splitFirst, hs]
  | cons b bs ih =>
    have hb : p b = false := ha b (by simp)
    have := ih (fun x hx => ha x (by simp [hx]))
    simp [splitFirst, hb, this]

/-! ## `splitLines` -/

/-- no line feed inside -/
def NoNL (l : List Nat) : Prop := ∀ b ∈ l, b ≠ 10

theorem splitLinesAux_line (cur line rest : List Nat) (h : NoNL line) :
    splitLinesAux cur (line ++ 10 :: rest) = (cur.reverse ++ line ++ [10]) :: splitLinesAux [] rest := by
  induction line generalizing cur with
  | nil => simp [splitLinesAux]
  | cons b bs ih =>
    have hb : b ≠ 10 := h b (by simp)
    have hbs : NoNL bs := fun x hx => h x (by simp [hx])
    simp only [List.cons_append, splitLinesAux, hb, if_false]
    rw [ih (b :: cur) hbs]
    simp

theorem splitLinesAux_last (cur line : List Nat) (h : NoNL line) :
    splitLinesAux cur line = if (cur.reverse ++ line).isEmpty then [] else [cur.reverse ++ line] := by
  induction line generalizing cur with
  | nil => simp [splitLinesAux]
  | cons b bs ih =>
    have hb : b ≠ 10 := h b (by simp)
    have hbs : NoNL bs := fun x hx => h x (by simp [hx])
    simp only [splitLinesAux, hb, if_false]
    rw [ih (b :: cur) hbs]
    simp

/-- a line terminator: `\n` or `\r\n` -/
def IsEol (e : List Nat) : Prop := e = [10] ∨ e = [13, 10]

theorem IsEol.allWs {e : List Nat} (h : IsEol e) : AllWs e := by
  rcases h with rfl | rfl <;> intro b hb <;> simp at hb <;> rcases hb with rfl | rfl <;> rfl

theorem splitLines_line (e line rest : List Nat) (he : IsEol e) (h : NoNL line) :
    splitLines (line ++ e ++ rest) = (line ++ e) :: splitLines rest := by
  unfold splitLines
  rcases he with rfl | rfl
  · have := splitLinesAux_line [] line rest h
    simpa using this
  · have h' : NoNL (line ++ [13]) := by
      intro b hb
      simp only [List.mem_append, List.mem_singleton] at hb
      rcases hb with hb | rfl
      · exact h b hb
      · decide
    have := splitLinesAux_line [] (line ++ [13]) rest h'
    simpa using this

theorem splitLines_last (line : List Nat) (h : NoNL line) (hne : line ≠ []) :
    splitLines line = [line] := by
  unfold splitLines
  rw [splitLinesAux_last [] line h]
  simp [hne]

theorem splitLines_nil : splitLines [] = [] := rfl

/-! ## lines with terminators -/

/-- `l'` is `l` followed by white space -/
def Term (l l' : List Nat) : Prop := ∃ t, l' = l ++ t ∧ AllWs t

/-- line by line: the read lines are the written lines followed by white space -/
inductive Terms : List (List Nat) → List (List Nat) → Prop
  | nil : Terms [] []
  | cons {l l' ls ls'} : Term l l' → Terms ls ls' → Terms (l :: ls) (l' :: ls')

theorem Terms.nil_inv {ls' : List (List Nat)} (h : Terms [] ls') : ls' = [] := by
  cases h; rfl

theorem Terms.cons_inv {l : List Nat} {ls ls' : List (List Nat)} (h : Terms (l :: ls) ls') :
    ∃ l' rest', ls' = l' :: rest' ∧ Term l l' ∧ Terms ls rest' := by
  cases h with
  | cons h1 h2 => exact ⟨_, _, rfl, h1, h2⟩

theorem Terms.append_inv {a b : List (List Nat)} {ls' : List (List Nat)} (h : Terms (a ++ b) ls') :
    ∃ a' b', ls' = a' ++ b' ∧ Terms a a' ∧ Terms b b' := by
  induction a generalizing ls' with
  | nil => exact ⟨[], ls', rfl, Terms.nil, h⟩
  | cons x xs ih =>
    obtain ⟨l', rest', rfl, h1, h2⟩ := Terms.cons_inv h
    obtain ⟨a', b', rfl, h3, h4⟩ := ih h2
    exact ⟨l' :: a', b', rfl, Terms.cons h1 h3, h4⟩

theorem Terms.length_eq {a a' : List (List Nat)} (h : Terms a a') : a'.length = a.length := by
  induction h with
  | nil => rfl
  | cons _ _ ih => simp [ih]

/-- reading back what `joinLines` wrote -/
theorem splitLines_joinLines (cfg : SerCfg) (lines : List (List Nat)) (he : IsEol cfg.eol)
    (hl : ∀ l ∈ lines, NoNL l ∧ l ≠ []) :
    Terms lines (splitLines (joinLines cfg lines)) := by
  induction lines with
  | nil => exact Terms.nil
  | cons l ls ih =>
    have ⟨hnl, hne⟩ := hl l (by simp)
    cases ls with
    | nil =>
      simp only [joinLines]
      split
      · have := splitLines_line cfg.eol l [] he hnl
        rw [List.append_nil] at this
        rw [this, splitLines_nil]
        exact Terms.cons ⟨cfg.eol, rfl, he.allWs⟩ Terms.nil
      · rw [splitLines_last l hnl hne]
        exact Terms.cons ⟨[], by simp, fun _ hb => by simp at hb⟩ Terms.nil
    | cons l2 ls2 =>
      have ih' := ih (fun x hx => hl x (by simp [hx]))
      simp only [joinLines]
      rw [splitLines_line cfg.eol l _ he hnl]
      exact Terms.cons ⟨cfg.eol, rfl, he.allWs⟩ ih'

/-! ## `chunks` -/

theorem chunks_nil (w : Nat) : chunks w [] = [] := by
  rw [chunks]; simp

theorem chunks_zero (l : List Nat) (h : l ≠ []) : chunks 0 l = [l] := by
  rw [chunks]; simp [h]

theorem chunks_step (w : Nat) (l : List Nat) (h : l ≠ []) (hw : w ≠ 0) :
    chunks w l = l.take w :: chunks w (l.drop w) := by
  conv => lhs; rw [chunks]
  simp [h, hw]

theorem chunks_flatten (w : Nat) (l : List Nat) : (chunks w l).flatten = l := by
  induction l using chunks.induct w with
  | case1 _ => rw [chunks_nil]; rfl
  | case2 x h hne =>
    have hw : w = 0 := h.resolve_left hne
    subst hw
    rw [chunks_zero x hne]; simp
  | case3 x h ih =>
    rw [chunks_step w x (fun e => h (Or.inl e)) (fun e => h (Or.inr e))]
    simp only [List.flatten_cons, ih, List.take_append_drop]

theorem chunks_mem (w : Nat) (l : List Nat) : ∀ c ∈ chunks w l, c ≠ [] ∧ ∀ b ∈ c, b ∈ l := by
  induction l using chunks.induct w with
  | case1 _ => rw [chunks_nil]; simp
  | case2 x h hne =>
    have hw : w = 0 := h.resolve_left hne
    subst hw
    rw [chunks_zero x hne]
    intro c hc
    rw [List.mem_singleton] at hc
    subst hc
    exact ⟨hne, fun b hb => hb⟩
  | case3 x h ih =>
    have hx : x ≠ [] := fun e => h (Or.inl e)
    have hw : w ≠ 0 := fun e => h (Or.inr e)
    rw [chunks_step w x hx hw]
    intro c hc
    rw [List.mem_cons] at hc
    rcases hc with rfl | hc
    · refine ⟨?_, fun b hb => List.mem_of_mem_take hb⟩
      intro e
      rw [List.take_eq_nil_iff] at e
      rcases e with e | e
      · exact hw e
      · exact hx e
    · have ⟨h1, h2⟩ := ih c hc
      exact ⟨h1, fun b hb => List.mem_of_mem_drop (h2 b hb)⟩

theorem chunks_length_congr (w : Nat) (l1 l2 : List Nat) (h : l1.length = l2.length) :
    (chunks w l1).length = (chunks w l2).length := by
  induction l1 using chunks.induct w generalizing l2 with
  | case1 _ =>
    have : l2 = [] := List.length_eq_zero_iff.mp (by simpa using h.symm)
    rw [this]
  | case2 x hx hne =>
    have hw : w = 0 := hx.resolve_left hne
    subst hw
    have hne2 : l2 ≠ [] := by
      intro e; rw [e] at h
      exact hne (List.length_eq_zero_iff.mp (by simpa using h))
    rw [chunks_zero x hne, chunks_zero l2 hne2]; rfl
  | case3 x hx ih =>
    have hne : x ≠ [] := fun e => hx (Or.inl e)
    have hw : w ≠ 0 := fun e => hx (Or.inr e)
    have hne2 : l2 ≠ [] := by
      intro e; rw [e] at h
      exact hne (List.length_eq_zero_iff.mp (by simpa using h))
    rw [chunks_step w x hne hw, chunks_step w l2 hne2 hw]
    simp only [List.length_cons]
    rw [ih (l2.drop w) (by simp [h])]

end KT.Fa
