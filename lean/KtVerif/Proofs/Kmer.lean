import KtVerif.Model.Kmer
/-!
# Helper lemmas for C01/C02: base-4 digit lists, the nucleotide table, `specKmers` recursions
-/
namespace KT

/-! ## powers -/

theorem four_pow (k : Nat) : 4 ^ k = 2 ^ (2 * k) := by
  rw [Nat.pow_mul]

theorem pow_le_62 {k : Nat} (hk : k ≤ 31) : 4 ^ k ≤ 2 ^ 62 := by
  rw [four_pow]; exact Nat.pow_le_pow_right (by omega) (by omega)

theorem four_pow_pos (k : Nat) : 0 < 4 ^ k := Nat.pow_pos (by omega)

/-! ## the table -/

theorem clean_iff (b : Nat) : clean b = true ↔ nt4 b < 4 := by
  simp [clean]

theorem clean_false_iff (b : Nat) : clean b = false ↔ ¬ nt4 b < 4 := by
  simp [clean]

theorem nt4_letterOf {d : Nat} (hd : d < 4) : nt4 (letterOf d) = d := by
  have : ∀ d, d < 4 → nt4 (letterOf d) = d := by decide
  exact this d hd

theorem compDigit_lt (d : Nat) : compDigit d < 4 := by
  unfold compDigit; omega

theorem compDigit_compDigit {d : Nat} (hd : d < 4) : compDigit (compDigit d) = d := by
  unfold compDigit; omega

theorem letterOf_nt4 {c : Nat} (hc : c = 65 ∨ c = 67 ∨ c = 71 ∨ c = 84) : letterOf (nt4 c) = c := by
  rcases hc with h | h | h | h <;> subst h <;> decide

theorem letterOf_alphabet (d : Nat) : letterOf d = 65 ∨ letterOf d = 67 ∨ letterOf d = 71 ∨ letterOf d = 84 := by
  unfold letterOf
  split
  · simp
  · split
    · simp
    · split <;> simp

theorem rcByte_of_clean {b : Nat} (h : clean b = true) : rcByte b = letterOf (compDigit (nt4 b)) := by
  simp [rcByte, h]

theorem rcByte_of_not_clean {b : Nat} (h : clean b = false) : rcByte b = b := by
  simp [rcByte, h]

theorem nt4_rcByte {b : Nat} (h : clean b = true) : nt4 (rcByte b) = compDigit (nt4 b) := by
  rw [rcByte_of_clean h, nt4_letterOf (compDigit_lt _)]

theorem clean_rcByte (b : Nat) : clean (rcByte b) = clean b := by
  cases h : clean b
  · rw [rcByte_of_not_clean h, h]
  · rw [clean_iff, nt4_rcByte h]; exact compDigit_lt _

/-! ## `encDigits` -/

theorem foldl_enc (a : Nat) (ds : List Nat) :
    ds.foldl (fun a d => a * 4 + d) a = a * 4 ^ ds.length + encDigits ds := by
  induction ds generalizing a with
  | nil => simp [encDigits]
  | cons d ds ih =>
    simp only [encDigits, List.foldl_cons, List.length_cons] at ih ⊢
    rw [ih (a * 4 + d), ih (0 * 4 + d), Nat.pow_succ]
    simp only [Nat.add_mul, Nat.zero_mul, Nat.zero_add]
    rw [Nat.mul_assoc, Nat.mul_comm 4, Nat.add_assoc]

theorem encDigits_nil : encDigits [] = 0 := rfl

theorem encDigits_cons (d : Nat) (ds : List Nat) :
    encDigits (d :: ds) = d * 4 ^ ds.length + encDigits ds := by
  have := foldl_enc (0 * 4 + d) ds
  simp only [Nat.zero_mul, Nat.zero_add] at this
  simpa [encDigits] using this

theorem encDigits_concat (ds : List Nat) (d : Nat) : encDigits (ds ++ [d]) = encDigits ds * 4 + d := by
  simp [encDigits, List.foldl_append]

theorem encDigits_lt (ds : List Nat) (h : ∀ d ∈ ds, d < 4) : encDigits ds < 4 ^ ds.length := by
  induction ds with
  | nil => simp [encDigits]
  | cons d ds ih =>
    have hd := h d (by simp)
    have := ih (fun x hx => h x (by simp [hx]))
    rw [encDigits_cons, List.length_cons, Nat.pow_succ]
    have : d * 4 ^ ds.length ≤ 3 * 4 ^ ds.length := Nat.mul_le_mul_right _ (by omega)
    omega

/-! ## `digitsOf` -/

theorem digitsOf_length (k x : Nat) : (digitsOf k x).length = k := by
  induction k generalizing x with
  | zero => rfl
  | succ k ih => simp [digitsOf, ih]

theorem digitsOf_lt (k x : Nat) : ∀ d ∈ digitsOf k x, d < 4 := by
  induction k generalizing x with
  | zero => simp [digitsOf]
  | succ k ih =>
    intro d hd
    simp only [digitsOf, List.mem_append, List.mem_singleton] at hd
    rcases hd with hd | hd
    · exact ih _ d hd
    · omega

theorem encDigits_digitsOf (k x : Nat) : encDigits (digitsOf k x) = x % 4 ^ k := by
  induction k generalizing x with
  | zero => simp [digitsOf, encDigits, Nat.mod_one]
  | succ k ih =>
    rw [digitsOf, encDigits_concat, ih, Nat.pow_succ, Nat.mul_comm (4 ^ k) 4, Nat.mod_mul]
    omega

theorem digitsOf_encDigits_reverse (ds : List Nat) (h : ∀ d ∈ ds, d < 4) :
    digitsOf ds.length (encDigits ds.reverse) = ds.reverse := by
  induction ds with
  | nil => rfl
  | cons d ds ih =>
    have hd := h d (by simp)
    have := ih (fun x hx => h x (by simp [hx]))
    rw [List.reverse_cons, encDigits_concat, List.length_cons, digitsOf]
    have e1 : (encDigits ds.reverse * 4 + d) / 4 = encDigits ds.reverse := by omega
    have e2 : (encDigits ds.reverse * 4 + d) % 4 = d := by omega
    rw [e1, e2, this]

theorem digitsOf_encDigits (ds : List Nat) (h : ∀ d ∈ ds, d < 4) :
    digitsOf ds.length (encDigits ds) = ds := by
  have := digitsOf_encDigits_reverse ds.reverse (by simpa using h)
  simpa using this

/-! ## windows of bytes -/

theorem map_nt4_lt {w : List Nat} (h : w.all clean = true) : ∀ d ∈ w.map nt4, d < 4 := by
  intro d hd
  rw [List.mem_map] at hd
  obtain ⟨b, hb, rfl⟩ := hd
  rw [List.all_eq_true] at h
  exact (clean_iff b).1 (h b hb)

theorem enc_lt {w : List Nat} (h : w.all clean = true) : enc w < 4 ^ w.length := by
  have := encDigits_lt (w.map nt4) (map_nt4_lt h)
  simpa [enc] using this

theorem rcEnc_lt (w : List Nat) : rcEnc w < 4 ^ w.length := by
  have := encDigits_lt ((w.map nt4).reverse.map compDigit) (by
    intro d hd
    rw [List.mem_map] at hd
    obtain ⟨b, _, rfl⟩ := hd
    exact compDigit_lt b)
  simpa [rcEnc] using this

theorem enc_concat (w : List Nat) (b : Nat) : enc (w ++ [b]) = enc w * 4 + nt4 b := by
  simp [enc, encDigits_concat]

theorem rcEnc_concat (w : List Nat) (b : Nat) :
    rcEnc (w ++ [b]) = compDigit (nt4 b) * 4 ^ w.length + rcEnc w := by
  simp [rcEnc, encDigits_cons]

/-- for a clean window the reverse-complement code is a function of the forward code -/
theorem rcEnc_eq_revCompSpec {w : List Nat} (h : w.all clean = true) :
    rcEnc w = revCompSpec w.length (enc w) := by
  have := digitsOf_encDigits (w.map nt4) (map_nt4_lt h)
  rw [List.length_map] at this
  rw [revCompSpec, enc, this, rcEnc]

end KT
