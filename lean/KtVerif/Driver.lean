import KtVerif.Model.Kmer
import KtVerif.Model.Minimiser
import KtVerif.Model.Vectors
import KtVerif.Model.Fasta
import KtVerif.DriverSched
import KtVerif.Model.MinOut
import KtVerif.Spec.Cli
import KtVerif.Model.Py
import KtVerif.Spec.EndToEnd
import KtVerif.Model.Display
/-!
# Driver glue (trusted, thin): parsing of request lines, printing of answers.

Every answer carries the **model** output and the **spec** output side by side so that the
harness can tell "implementation ≠ model" from "implementation violates the property".
-/
namespace KT.Driver
open KT

def hexVal (c : Char) : Nat :=
  if c.isDigit then c.toNat - 48
  else if 'a' ≤ c ∧ c ≤ 'f' then c.toNat - 87
  else if 'A' ≤ c ∧ c ≤ 'F' then c.toNat - 55 else 0

def unhexChars : List Char → List Nat
  | a :: b :: rest => (hexVal a * 16 + hexVal b) :: unhexChars rest
  | _ => []

/-- `-` is the empty byte string -/
def unhex (s : String) : List Nat := if s = "-" then [] else unhexChars s.toList

def hexDigit (n : Nat) : Char := if n < 10 then Char.ofNat (48 + n) else Char.ofNat (87 + n)

def hex (bs : List Nat) : String :=
  if bs.isEmpty then "-" else String.ofList (bs.flatMap fun b => [hexDigit (b / 16), hexDigit (b % 16)])

def joinWith (sep : String) (l : List String) : String := sep.intercalate l

def fmtNats (l : List Nat) : String := joinWith "," (l.map toString)
def fmtPairs (l : List (Nat × Nat)) : String := joinWith "," (l.map fun p => s!"{p.1}:{p.2}")
def fmtRuns (l : List Run) : String := joinWith "," (l.map fun r => s!"{r.1}:{r.2.1}:{r.2.2}")
def fmtKRuns (l : List KRun) : String :=
  joinWith "," (l.map fun r => s!"{r.1}:{r.2.1}:{r.2.2.1}:" ++ joinWith "/" (r.2.2.2.map toString))
def fmtHexList (l : List (List Nat)) : String := joinWith "," (l.map hex)
def b01 (b : Bool) : String := if b then "1" else "0"

def answerWords0 : List String → String
  | ["kmers", k, hx] =>
    let k := k.toNat!; let s := unhex hx
    if kmerNewSafe k then
      -- the declarative spec is quadratic in |s| (`drop i` per window); beyond 5000 bytes the spec column is
      -- filled with the model's output, which equals the spec by `kmerGen_eq_spec` (kernel-checked)
      if s.length > 5000 then
        let m := fmtPairs (kmers k s)
        joinWith "|" ["ok", m, m, "-"]
      else
      joinWith "|" ["ok", fmtPairs (kmers k s), fmtPairs (specKmers k s), fmtNats (specKmerStarts k s)]
    else "panic:kmer-new"
  | ["revcomp", k, x, _] =>
    let k := k.toNat!; let x := x.toNat!
    joinWith "|" ["ok", toString (revComp k x), toString (revCompSpec k x),
      hex (numericToKmer k x), hex (decodeSpec k x), toString (enc (decodeSpec k x))]
  | ["posmaps", k, _] =>
    let k := k.toNat!
    let pm := kmerPosMaps k
    joinWith "|" ["ok", toString pm.kcount, toString (kcountFormula k), fmtNats pm.posKmer,
      fmtNats (canonList k), fmtNats pm.posMap.toList, fmtHexList (header k), fmtHexList (headerSpec k)]
  | ["mins", w, m, hx] =>
    let w := w.toNat!; let m := m.toNat!; let s := unhex hx
    if minNewSafe w m then
      -- same remark: beyond 5000 bytes the spec column is the model's output (`minimisers_eq_specRuns`)
      if s.length > 5000 then
        let r := fmtRuns (minimisers w m s)
        joinWith "|" ["ok", r, r]
      else
      joinWith "|" ["ok", fmtRuns (minimisers w m s), fmtRuns (specRuns w m s)]
    else "panic:min-new"
  | ["kmins", w, m, hx] =>
    let w := w.toNat!; let m := m.toNat!; let s := unhex hx
    if kminNewSafe w m then
      if s.length > 5000 then
        -- long input: runs from the plain model (`minimisers_eq_specRuns`), w-mers from the k-mer model (`kmerGen_eq_spec`)
        joinWith "|" ["ok", fmtKRuns (kmerMinimisers w m s), fmtRuns (minimisers w m s), fmtNats ((kmers w s).map canonPair)]
      else
      joinWith "|" ["ok", fmtKRuns (kmerMinimisers w m s), fmtRuns (specRuns w m s), fmtNats (canons w s)]
    else "panic:kmin-new"
  | _ => "bad-op"


/-- memoised `kmerPosMaps k` (the tables are requested thousands of times) -/
structure Cache where
  pms : Array (Option PosMaps) := Array.replicate 16 none
  cls : Array (Option (List Nat)) := Array.replicate 16 none

/-- memoised `canonList k` -/
def Cache.canon (c : Cache) (k : Nat) : Cache × List Nat :=
  match c.cls[k]? with
  | some (some cl) => (c, cl)
  | _ =>
    let cl := canonList k
    ({ c with cls := c.cls.setIfInBounds k (some cl) }, cl)

def Cache.get (c : Cache) (k : Nat) : Cache × PosMaps :=
  match c.pms[k]? with
  | some (some pm) => (c, pm)
  | _ =>
    let pm := kmerPosMaps k
    ({ c with pms := c.pms.setIfInBounds k (some pm) }, pm)

def fmtBits (l : List Nat) : String := joinWith "," (l.map fun x => toString (f64Bits x))
def fmtPts (l : List (Nat × Nat)) : String :=
  joinWith "," (l.map fun p => s!"{f64Bits p.1}:{f64Bits p.2}")

/-- counts table given as `x:c,x:c,…` (or `-`) -/
def parseCounts (s : String) : List (Nat × Nat) :=
  if s = "-" then [] else
    (s.splitOn ",").filterMap fun e =>
      match e.splitOn ":" with
      | [a, b] => some (a.toNat!, b.toNat!)
      | _ => none

def lookupCount (tbl : List (Nat × Nat)) (x : Nat) : Nat :=
  match tbl.find? (fun p => p.1 == x) with
  | some p => p.2
  | none => 0

/-- C11 spec verdict on a list of points given as scaled doubles: exact equality with the dyadic
    value while it is representable in 53 bits, containment in the sub-square of the last `j` bases
    otherwise (j as large as keeps the bounds representable).  Returns the index of the first
    offending point. -/
def cgrJudge (S : Nat) (s : List Nat) (pts : List (Nat × Nat)) : Option Nat :=
  match cgrExact S s with
  | none => if pts.isEmpty then none else some 0
  | some ex =>
    if ex.length ≠ pts.length then some (min ex.length pts.length) else
    let corners := s.map fun b => (cornerSpec b).getD (0, 0)
    let j := 52 - bitLen S
    let okc := fun (N e v : Nat) (cs : List Nat) =>
      -- exact scaled value N * 2^1074 / 2^e, if it is a double
      let num := N * f64One
      if num % 2 ^ e = 0 ∧ roundRat (num / 2 ^ e) 1 = num / 2 ^ e then
        v = num / 2 ^ e
      else
        -- last jj corners (most recent first) confine v to [A, A + S/2^jj]
        let jj := min j cs.length
        let A := (List.range jj).foldl (fun a t => a + (cs.getD t 0) * S * f64One / 2 ^ (t + 1)) 0
        A ≤ v ∧ v ≤ A + S * f64One / 2 ^ jj
    -- a run of `z ≤ 1073` bases whose corner coordinate is 0 confines the coordinate to [0, S/2^z] at ANY length of the run
    -- (the bound S·2^(1074-z) and its halves are doubles and rounding is monotone: `cgrF64_zero_run`), far beyond the `j`
    -- bases for which general sub-square bounds are representable
    let okz := fun (z v : Nat) => z = 0 ∨ z > 1073 ∨ v * 2 ^ z ≤ S * f64One
    -- `rx`, `ry`: corners seen so far, most recent first (only the last `j` are kept); `zx`, `zy`: length of the current run
    -- of zero corners
    let rec go (i : Nat) (rx ry : List Nat) (zx zy : Nat) :
        List (Nat × Nat) → List (Nat × Nat × Nat) → List (Nat × Nat) → Option Nat
      | _, [], _ => none
      | _, _, [] => none
      | [], _, _ => none
      | (cx, cy) :: cr, (X, Y, e) :: er, (x, y) :: pr =>
        let rx := (cx :: rx).take j
        let ry := (cy :: ry).take j
        let zx := if cx = 0 then zx + 1 else 0
        let zy := if cy = 0 then zy + 1 else 0
        if okc X e x rx ∧ okc Y e y ry ∧ okz zx x ∧ okz zy y then go (i + 1) rx ry zx zy cr er pr else some i
    go 0 [] [] 0 0 corners ex pts

def fmtSeqRecs (l : List SeqRec) : String :=
  joinWith "," (l.map fun r => s!"{r.n}:{hex r.id}:{hex r.seq}")

def fmtStatus : ParseStatus → String
  | .done => "done"
  | .panic => "panic"

def fmtFormat : Option SeqFormat → String
  | none => "0"
  | some .fasta => "1"
  | some .fastq => "2"

/-- source records as `id:desc:seq:qual;…` (hex fields, `~` = no description) -/
def parseSrcRecs (s : String) : List SrcRec :=
  if s = "-" then [] else
    (s.splitOn ";").filterMap fun e =>
      match e.splitOn ":" with
      | [i, d, q, u] => some { id := unhex i, desc := if d = "~" then none else some (unhex d), seq := unhex q, qual := unhex u }
      | _ => none

/-- run-length encoding of a sorted list -/
def rle : List Nat → List (Nat × Nat)
  | [] => []
  | x :: xs =>
    match rle xs with
    | (y, c) :: rest => if x = y then (y, c + 1) :: rest else (x, 1) :: (y, c) :: rest
    | [] => [(x, 1)]

def recsOf (s : String) : List (List Nat) := if s = "-" then [] else (s.splitOn ",").map unhex

/-- records as `idhex:seqhex,…` -/
def idRecsOf (s : String) : List (List Nat × List Nat) :=
  if s = "-" then [] else (s.splitOn ",").filterMap fun e =>
    match e.splitOn ":" with
    | [a, b] => some (unhex a, unhex b)
    | _ => none

def presetOf (s : String) : VecPreset := if s = "csv" then .csv else if s = "tsv" then .tsv else .spc
def optOf (s : String) : Option Nat := if s = "~" then none else s.toNat?
def fmtDecision : Decision → String
  | .run => "run"
  | .refuseRange o => s!"refuse-range:{o}"
  | .refuseMsg m => s!"refuse-msg:{m}"

def answerCli : List String → Option String
  | ["cli", "oligo", k, counts, header, preset, t] =>
    some (fmtDecision (cliDecide (.oligo k.toNat! (counts == "1") (header == "1") (presetOf preset) t.toNat!)) ++ "|" ++ hex (delimOf (presetOf preset)))
  | ["cli", "cgr", k, counts, v, t] =>
    some (fmtDecision (cliDecide (.cgr (optOf k) (counts == "1") (optOf v) t.toNat!)) ++ "|" ++
      toString (match optOf k, optOf v with
        | _, some s => s
        | some k, none => defaultVecSize k
        | none, none => 1))
  | ["cli", "cov", k, bs, bc, mem, counts, preset, t] =>
    some (fmtDecision (cliDecide (.cov k.toNat! bs.toNat! bc.toNat! mem.toNat! (counts == "1") (presetOf preset) t.toNat!)) ++ "|" ++ hex (delimOf (presetOf preset)))
  | ["cli", "min", m, w, preset, t] =>
    some (fmtDecision (cliDecide (.min m.toNat! w.toNat! (if preset = "m2s" then .m2s else .s2m) t.toNat!)))
  | ["cli", "ctr", k, mem, acgt, t] =>
    some (fmtDecision (cliDecide (.ctr k.toNat! mem.toNat! (acgt == "1") t.toNat!)))
  | _ => none

def answerIo : List String → Option String
  | ["s2m", w, m, recs] =>
    let w := w.toNat!; let m := m.toNat!
    let rs := idRecsOf recs
    if rs.all (fun r => minOutSafe w m r.2) then
      -- whole-record mode on a record of more than 100000 bases (a window of a million m-mers costs the list-based
      -- transcription of the sliding window about n·w steps): both columns are filled from the closed form that
      -- `w0_single_window` / `w0_ambiguous` (Props/C10) prove for w = 0 — one run (smallest canonical m-mer, 0, length) if every
      -- byte is a base, no run otherwise
      let big := fun (r : List Nat × List Nat) => decide (w = 0 ∧ r.2.length > 100000 ∧ m ≤ r.2.length)
      let w0 := fun (r : List Nat × List Nat) =>
        let runs : List Run := if r.2.all clean then [(listMin ((kmers m r.2).map fun p => min p.1 p.2), 0, r.2.length)] else []
        s2mLineOf r.1 (runs.map (runText m))
      some (joinWith "|" ["ok", fmtHexList (rs.map fun r => if big r then w0 r else s2mLine w m r.1 r.2),
        fmtHexList (rs.map fun r => if big r then w0 r else s2mLineSpec w m r.1 r.2)])
    else some "panic:min-new"
  | ["counts", k, recs] =>
    -- C07 spec: every distinct canonical k-mer of the input with its multiplicity `countsOf`
    let k := k.toNat!
    -- (beyond 5000 bytes the quadratic `canons` is replaced by the model's stream, equal to it by `kmerGen_eq_spec`)
    let all := ((recsOf recs).flatMap fun r => if r.length > 5000 then (kmers k r).map (fun p => min p.1 p.2) else canons k r).mergeSort (fun a b => decide (a ≤ b))
    let tbl := rle all
    some (joinWith "|" ["ok", joinWith "," (tbl.map fun p => s!"{p.1}:{p.2}"), toString all.length,
      fmtHexList (tbl.map fun p => numericToKmer k p.1)])
  | ["parse", fmt, hx] =>
    let f := if fmt = "fasta" then SeqFormat.fasta else SeqFormat.fastq
    let bytes := unhex hx
    let (rs, st) := readAll f bytes
    let ((n, tot), _) := seqStats f bytes
    some (joinWith "|" ["ok", fmtSeqRecs rs, fmtStatus st, s!"{n}:{tot}", fmtFormat (sniffFormat bytes)])
  | ["serialise", fmt, eol, wrap, fin, recs] =>
    let cfg : SerCfg := { eol := unhex eol, wrap := wrap.toNat!, final := fin == "1" }
    let rs := parseSrcRecs recs
    let isFa := fmt = "fasta"
    let bytes := if isFa then serialiseFasta cfg rs else serialiseFastq cfg rs
    let wf := wfCfg cfg && rs.all (if isFa then wfFasta else wfFastq)
    some (joinWith "|" ["ok", hex bytes, b01 wf, fmtSeqRecs (expectedRecs rs)])
  | ["format", nm] =>
    some (joinWith "|" ["ok", fmtFormat (formatOf (unhex nm)), fmtFormat (formatSpec (unhex nm))])
  | _ => none

def answerWords (c : Cache) : List String → Cache × String
  | ["oligo", k, norm, hx, dl] =>
    let k := k.toNat!; let norm := norm == "1"; let s := unhex hx; let delim := unhex dl
    let (c, pm) := c.get k
    let (c, cl) := c.canon k
    let (cs, t) := oligoCounts pm k s
    (c, joinWith "|" ["ok", fmtNats cs, toString t, fmtNats (oligoRowSpecWith cl k s), toString (windowCount k s),
      fmtBits (oligoVec pm k norm s), hex (rowText norm delim cs t), b01 (oligoSafe pm k s)])
  | ["oligobig", k, norm, _, rle, dl] =>
    -- a very long record given run-length encoded (`byte*count+byte*count…`); the specification columns are filled from the
    -- model's counts (`oligoCounts_eq_spec`, Props/C04), as for every input beyond 5000 bytes
    let k := k.toNat!; let norm := norm == "1"; let delim := unhex dl
    let s := (rle.splitOn "+").foldl (fun acc part =>
      match part.splitOn "*" with
      | [b, n] => acc ++ List.replicate n.toNat! b.toNat!
      | _ => acc) ([] : List Nat)
    let (c, pm) := c.get k
    let (cs, t) := oligoCounts pm k s
    (c, joinWith "|" ["ok", fmtNats cs, toString t, fmtNats cs, toString t,
      fmtBits (if norm then normalise cs t else cs.map f64OfNat), hex (rowText norm delim cs t), "1"])
  | ["cov", k, bs, bc, norm, hx, dl, tbl] =>
    let k := k.toNat!; let bs := bs.toNat!; let bc := bc.toNat!; let norm := norm == "1"
    let s := unhex hx; let delim := unhex dl
    let cnt := lookupCount (parseCounts tbl)
    if covSafe bc ∧ bs ≥ 1 then
      let (cs, t) := covCounts k bs bc cnt s
      -- beyond 5000 bytes the quadratic specification columns are filled from the model (`covCounts_eq_spec_of_bin`)
      let specRow := if s.length > 5000 then cs else covRowSpec k bs bc cnt s
      let specTot := if s.length > 5000 then t else windowCount k s
      (c, joinWith "|" ["ok", fmtNats cs, toString t, fmtNats specRow, toString specTot,
        fmtBits (if norm then normalise cs t else cs.map f64OfNat), hex (rowText norm delim cs t)])
    else (c, "panic:cov-bins")
  | ["cgr", sz, hx] =>
    let S := sz.toNat!; let s := unhex hx
    match cgrF64 S s with
    | none => (c, joinWith "|" ["err", b01 (cgrExact S s).isNone])
    | some pts => (c, joinWith "|" ["ok", fmtPts pts, (match cgrJudge S s pts with | none => "1" | some i => s!"0@{i}"),
        hex (cgrRowText pts)])
  | ["display", bs] =>
    -- `format!("{}", x)` for doubles given as IEEE bit patterns; second field: does the text read back as the same double
    let ns := (bs.splitOn ",").map fun b => f64Unbits b.toNat!
    (c, joinWith "|" ["ok", fmtHexList (ns.map f64Display),
      joinWith "," (ns.map fun n => b01 (parseF64 (f64Display n) == some n))])
  | ["cgrjudge", sz, hx, pts] =>
    -- the implementation's points as IEEE bit patterns `xbits:ybits,…`
    let S := sz.toNat!; let s := unhex hx
    let ps := if pts = "-" then [] else (pts.splitOn ",").filterMap fun e =>
      match e.splitOn ":" with
      | [a, b] => some (f64Unbits a.toNat!, f64Unbits b.toNat!)
      | _ => none
    (c, match cgrJudge S s ps with | none => "ok" | some i => s!"viol@{i}")
  | ["oligocgrbig", k, sz, norm, _, rle] =>
    -- as `oligocgr`, for one very long record given run-length encoded
    let k := k.toNat!; let S := sz.toNat!; let norm := norm == "1"
    let s := (rle.splitOn "+").foldl (fun acc part =>
      match part.splitOn "*" with
      | [b, n] => acc ++ List.replicate n.toNat! b.toNat!
      | _ => acc) ([] : List Nat)
    let (c, pm) := c.get k
    match oligoCgrRow pm k S norm s with
    | none => (c, "err")
    | some row =>
      (c, joinWith "|" ["ok", joinWith "," (row.map fun t => s!"{f64Bits t.1}:{f64Bits t.2.1}:{f64Bits t.2.2}")])
  | ["oligocgr", k, sz, norm, hx] =>
    let k := k.toNat!; let S := sz.toNat!; let norm := norm == "1"; let s := unhex hx
    let (c, pm) := c.get k
    match oligoCgrRow pm k S norm s with
    | none => (c, "err")
    | some row =>
      (c, joinWith "|" ["ok", joinWith "," (row.map fun t => s!"{f64Bits t.1}:{f64Bits t.2.1}:{f64Bits t.2.2}"),
        hex (oligoCgrRowText row)])
  | ["oligofile", k, norm, header, dl, recs] =>
    -- the whole expected vectors file: the specification (`oligoFileSpecG`, right-hand side of the end-to-end
    -- theorems) and the code-shaped model (header of the model ++ model rows)
    let k := k.toNat!; let norm := norm == "1"; let header := header == "1"; let delim := unhex dl
    let rs := recsOf recs
    let (c, pm) := c.get k
    let (c, cl) := c.canon k
    let hdrSpec := if header then joinBytes delim (cl.map (decodeSpec k)) ++ [10] else []
    -- beyond 5000 bytes the quadratic specification columns are filled from the model's counts (`oligoCounts_eq_spec`)
    let specFile := hdrSpec ++ (rs.map fun s =>
      if s.length > 5000 then let (cs, t) := oligoCounts pm k s; rowText norm delim cs t
      else rowText norm delim (oligoRowSpecWith cl k s) (windowCount k s)).flatten
    let hdrModel := if header then joinBytes delim (pm.posKmer.map (numericToKmer k)) ++ [10] else []
    let modelFile := hdrModel ++ (rs.map fun s => oligoRowText pm k norm delim s).flatten
    let rowLen := match rs with | [] => 0 | s :: _ => (oligoRowText pm k norm delim s).length
    (c, joinWith "|" ["ok", hex modelFile, hex specFile, toString hdrModel.length, toString rowLen])
  | ["pyoligo", k, norm, hx] =>
    let k := k.toNat!; let norm := norm == "1"
    let (c, pm) := c.get k
    (c, joinWith "|" ["ok", fmtBits (pyOligoVec pm k norm (unhex hx)), fmtBits (oligoVec pm k norm (unhex hx))])
  | ["pycgr", sz, hx] =>
    (c, match pyCgr sz.toNat! (unhex hx) with
      | none => "valueerror"
      | some pts => "ok|" ++ fmtPts pts)
  | ws =>
    match (answerIo ws).orElse (fun _ => answerCli ws) with
    | some a => (c, a)
    | none =>
      match KT.DriverSched.answer ws with
      | some a => (c, a)
      | none => (c, answerWords0 ws)

def answer (c : Cache) (line : String) : Cache × String :=
  let ws := (line.trimAscii.toString.splitOn " ").filter (· ≠ "")
  -- `posmapsp k pool -`: the tables as built inside a rayon pool of `pool` threads — the expectation does not depend on it
  let ws := match ws with
    | ["posmapsp", k, _, hx] => ["posmaps", k, hx]
    | _ => ws
  answerWords c ws

end KT.Driver
