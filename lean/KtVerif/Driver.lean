import KtVerif.Model.Kmer
import KtVerif.Model.Minimiser
/-!
# Driver glue (trusted, thin): parsing of request lines, printing of answers.

Every answer carries the **model** output and the **spec** output side by side so that the
harness can tell "implementation ≠ model" from "implementation violates the property".
-/
namespace KT.Driver
open KT

def hexVal (c : Char) : Nat :=
  if c.isDigit then c.toNat - 48
  else if 'a' ≤ c ∧ c ≤ 'f' then c.toNat - 87
  else if 'A' ≤ c ∧ c ≤ 'F' then c.toNat - 55 else 0

def unhexChars : List Char → List Nat
  | a :: b :: rest => (hexVal a * 16 + hexVal b) :: unhexChars rest
  | _ => []

/-- `-` is the empty byte string -/
def unhex (s : String) : List Nat := if s = "-" then [] else unhexChars s.toList

def hexDigit (n : Nat) : Char := if n < 10 then Char.ofNat (48 + n) else Char.ofNat (87 + n)

def hex (bs : List Nat) : String :=
  if bs.isEmpty then "-" else String.ofList (bs.flatMap fun b => [hexDigit (b / 16), hexDigit (b % 16)])

def joinWith (sep : String) (l : List String) : String := sep.intercalate l

def fmtNats (l : List Nat) : String := joinWith "," (l.map toString)
def fmtPairs (l : List (Nat × Nat)) : String := joinWith "," (l.map fun p => s!"{p.1}:{p.2}")
def fmtRuns (l : List Run) : String := joinWith "," (l.map fun r => s!"{r.1}:{r.2.1}:{r.2.2}")
def fmtKRuns (l : List KRun) : String :=
  joinWith "," (l.map fun r => s!"{r.1}:{r.2.1}:{r.2.2.1}:" ++ joinWith "/" (r.2.2.2.map toString))
def fmtHexList (l : List (List Nat)) : String := joinWith "," (l.map hex)
def b01 (b : Bool) : String := if b then "1" else "0"

def answerWords : List String → String
  | ["kmers", k, hx] =>
    let k := k.toNat!; let s := unhex hx
    if kmerNewSafe k then
      joinWith "|" ["ok", fmtPairs (kmers k s), fmtPairs (specKmers k s), fmtNats (specKmerStarts k s)]
    else "panic:kmer-new"
  | ["revcomp", k, x, _] =>
    let k := k.toNat!; let x := x.toNat!
    joinWith "|" ["ok", toString (revComp k x), toString (revCompSpec k x),
      hex (numericToKmer k x), hex (decodeSpec k x), toString (enc (decodeSpec k x))]
  | ["posmaps", k, _] =>
    let k := k.toNat!
    let pm := kmerPosMaps k
    joinWith "|" ["ok", toString pm.kcount, toString (kcountFormula k), fmtNats pm.posKmer,
      fmtNats (canonList k), fmtNats pm.posMap.toList, fmtHexList (header k), fmtHexList (headerSpec k)]
  | ["mins", w, m, hx] =>
    let w := w.toNat!; let m := m.toNat!; let s := unhex hx
    if minNewSafe w m then
      joinWith "|" ["ok", fmtRuns (minimisers w m s), fmtRuns (specRuns w m s)]
    else "panic:min-new"
  | ["kmins", w, m, hx] =>
    let w := w.toNat!; let m := m.toNat!; let s := unhex hx
    if kminNewSafe w m then
      joinWith "|" ["ok", fmtKRuns (kmerMinimisers w m s), fmtRuns (specRuns w m s), fmtNats (canons w s)]
    else "panic:kmin-new"
  | _ => "bad-op"

def answer (line : String) : String :=
  answerWords ((line.trimAscii.toString.splitOn " ").filter (· ≠ ""))

end KT.Driver
