import KtVerif.Model.Sched
/-!
# Driver glue for the concurrent loops: validation of an implementation event trace as a run of the
Lean transition system (`traces_validated_against_impl`).
-/
namespace KT.DriverSched
open KT

def optNat (s : String) : Option Nat := if s = "x" then none else s.toNat?

inductive MEv where
  | took (w : Nat) (n : Option Nat)
  | write (w n pos len : Nat)
  | act (w n : Nat)
  | exit (w : Nat)
  | check (w : Nat)
  | count (w n : Nat)
  | addlen (w n : Nat)

def parseEv (s : String) : Option MEv :=
  match s.splitOn ":" with
  | ["t", w, n] => some (.took w.toNat! (optNat n))
  | ["w", w, n, p, l] => some (.write w.toNat! n.toNat! p.toNat! l.toNat!)
  | ["e", w, n] => some (.act w.toNat! n.toNat!)
  | ["x", w] => some (.exit w.toNat!)
  | ["c", w] => some (.check w.toNat!)
  | ["k", w, n] => some (.count w.toNat! n.toNat!)
  | ["a", w, n] => some (.addlen w.toNat! n.toNat!)
  | _ => none

def parseEvs (s : String) : Option (List MEv) :=
  if s = "-" then some [] else (s.splitOn ",").mapM parseEv

def markEff (n : Nat) (slots : List Bool) : List Bool := slots.set n true

/-- replay a trace of the mmap writer (or, with `positional = false`, of any shared-reader loop) -/
def replayG (N hdr L cap : Nat) (positional : Bool) : Nat → GSys (List Bool) → List MEv → Except String (GSys (List Bool))
  | _, s, [] => .ok s
  | i, s, ev :: rest =>
    match ev with
    | .took w n =>
      let expected := if s.next < N then some s.next else none
      if n ≠ expected then .error s!"bad@{i}: worker {w} took {repr n} but the reader model delivers {repr expected}"
      else match s.apply N markEff (.take w) with
        | some s' => replayG N hdr L cap positional (i + 1) s' rest
        | none => .error s!"bad@{i}: take not enabled for worker {w}"
    | .write w n pos len =>
      if s.ws[w]? ≠ some (.holding n) then .error s!"bad@{i}: worker {w} writes record {n} it does not hold"
      else if positional ∧ len ≠ L then .error s!"bad@{i}: row of record {n} has length {len}, file was sized for rows of {L}"
      else if positional ∧ pos ≠ writePos hdr len n then .error s!"bad@{i}: record {n} written at {pos}, expected {writePos hdr len n}"
      else if positional ∧ !writeInBounds cap pos len then .error s!"bad@{i}: write [{pos},{pos+len}) leaves the mapping of {cap} bytes"
      else match s.apply N markEff (.act w) with
        | some s' => replayG N hdr L cap positional (i + 1) s' rest
        | none => .error s!"bad@{i}: act not enabled"
    | .act w n =>
      if s.ws[w]? ≠ some (.holding n) then .error s!"bad@{i}: worker {w} acts on record {n} it does not hold"
      else match s.apply N markEff (.act w) with
        | some s' => replayG N hdr L cap positional (i + 1) s' rest
        | none => .error s!"bad@{i}: act not enabled"
    | .exit w =>
      if s.ws[w]? ≠ some .done then .error s!"bad@{i}: worker {w} left its loop while the model says it is not done"
      else replayG N hdr L cap positional (i + 1) s rest
    | _ => .error s!"bad@{i}: event not part of this loop"

def traceG (N T hdr L cap : Nat) (positional : Bool) (evs : List MEv) : String :=
  match replayG N hdr L cap positional 0 (GSys.init T (List.replicate N false)) evs with
  | .error e => e
  | .ok s =>
    if !s.terminal then "bad@end: not all workers left their loop"
    else if !(s.sh.all id) then "bad@end: a record was never written"
    else if s.order.length ≠ N then "bad@end: number of effects differs from number of records"
    else s!"ok|{evs.length}|{s.order.length}"

def replayC (N limit : Nat) (len : Nat → Nat) : Nat → CSys → List MEv → Except String CSys
  | _, s, [] => .ok s
  | i, s, ev :: rest =>
    let step := fun (st : CStep) =>
      match s.apply N limit (fun _ => []) len st with
      | some s' => replayC N limit len (i + 1) s' rest
      | none => Except.error s!"bad@{i}: step not enabled"
    match ev with
    | .check w => step (.check w)
    | .took w n =>
      let expected := if s.next < N then some s.next else none
      if n ≠ expected then .error s!"bad@{i}: worker {w} took {repr n} but the reader model delivers {repr expected}"
      else step (.take w)
    | .count w n =>
      if s.ws[w]? ≠ some (.counting n) then .error s!"bad@{i}: worker {w} counts record {n} it does not hold" else step (.count w)
    | .addlen w n =>
      if s.ws[w]? ≠ some (.adding n) then .error s!"bad@{i}: worker {w} adds the length of record {n} out of turn" else step (.addlen w)
    | .exit w =>
      if s.ws[w]? ≠ some .done then .error s!"bad@{i}: worker {w} left while the model says it is not done (limit test differs?)"
      else replayC N limit len (i + 1) s rest
    | _ => .error s!"bad@{i}: event not part of this loop"

def traceC (N limit T start : Nat) (lens : List Nat) (evs : List MEv) : String :=
  match replayC N limit (fun n => lens.getD n 0) 0 (CSys.init T start) evs with
  | .error e => e
  | .ok s =>
    if !s.terminal then "bad@end: not all workers left their loop"
    else s!"ok|{s.next}|{s.taken.length}"

def natList (s : String) : List Nat := if s = "-" then [] else (s.splitOn ",").map String.toNat!

def answer : List String → Option String
  | ["mmaptrace", n, t, hdr, l, cap, evs] =>
    match parseEvs evs with
    | some es => some (traceG n.toNat! t.toNat! hdr.toNat! l.toNat! cap.toNat! true es)
    | none => some "bad-events"
  | ["gtrace", n, t, evs] =>
    match parseEvs evs with
    | some es => some (traceG n.toNat! t.toNat! 0 0 0 false es)
    | none => some "bad-events"
  | ["counttrace", n, limit, t, start, lens, evs] =>
    match parseEvs evs with
    | some es => some (traceC n.toNat! limit.toNat! t.toNat! start.toNat! (natList lens) es)
    | none => some "bad-events"
  | ["batch", limit, lens] =>
    let ls := natList lens
    let bs := (batchLoop limit.toNat! (fun (p : Nat × Nat) => p.1) ls.zipIdx).map fun b => b.map (·.2)
    some ("ok|" ++ ";".intercalate (bs.map fun b => ",".intercalate (b.map toString)))
  | _ => none

end KT.DriverSched
