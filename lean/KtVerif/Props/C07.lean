import KtVerif.Proofs.CountChunk
import KtVerif.Proofs.CountMerge
/-!
# C07: k-mer counting — chunk under any schedule, merge of the per-chunk tables, partitions
-/
namespace KT

/-- one chunk, any schedule: the records taken are a contiguous segment starting at the cursor, the
    table holds exactly their k-mers (as a multiset), and a chunk makes progress while records remain -/
theorem chunk_any_schedule (N limit T start : Nat) (kms : Nat → List Nat) (len : Nat → Nat)
    (hT : 0 < T) (hstart : start ≤ N) (sched : List CStep) (s' : CSys)
    (hr : CSys.run N limit kms len (CSys.init T start) sched = some s') (ht : s'.terminal = true) :
    s'.taken = List.range' start (s'.next - start) ∧ start ≤ s'.next ∧ s'.next ≤ N ∧
    s'.table.Perm (s'.taken.flatMap kms) ∧ (start < N → start < s'.next) :=
  Cnt.chunk_main N limit T start kms len hT hstart sched s' hr ht

/-! ### non-vacuity: 2 workers, 3 records, limit 1 — the chunk stops after records 0 and 1 -/

/-- observable projection of a state (`CSys` has no `DecidableEq`) -/
def CSys.view (s : CSys) : Nat × Nat × List CState × List Nat × List Nat :=
  (s.next, s.soFar, s.ws, s.table, s.taken)

def c07Sched : List CStep :=
  [.check 0, .take 0, .check 1, .take 1, .count 1, .count 0, .addlen 0, .check 0, .addlen 1, .check 1]

example :
    (CSys.run 3 1 (fun n => [n, n + 10]) (fun _ => 2) (CSys.init 2 0) c07Sched).map CSys.view
      = some (2, 4, [CState.done, CState.done], [1, 11, 0, 10], [0, 1]) := by decide

example :
    (CSys.run 3 1 (fun n => [n, n + 10]) (fun _ => 2) (CSys.init 2 0) c07Sched).map CSys.terminal
      = some true := by decide

/-- a step that is not enabled is refused -/
example : (CSys.run 3 1 (fun n => [n, n + 10]) (fun _ => 2) (CSys.init 2 0) [.take 0]).isNone = true := by
  decide

/-! ### merge of the per-chunk tables, partitions -/

/-- a dumped table: duplicate-free keys, each with its multiplicity in the multiset `l`, nothing else -/
def IsTableOf (t : List (Nat × Nat)) (l : List Nat) : Prop :=
  (t.map (·.1)).Nodup ∧ (∀ x c, (x, c) ∈ t → c = countOcc x l ∧ 0 < c) ∧ (∀ x, x ∈ l → x ∈ t.map (·.1))

/-- merging the per-chunk tables of one partition gives the table of the union, whatever the order
    in which each chunk's lines were written -/
theorem mergeTables_exact (files : List (List (Nat × Nat))) (ls : List (List Nat))
    (hlen : files.length = ls.length)
    (h : ∀ i (hi : i < files.length), IsTableOf files[i] (ls[i]'(hlen ▸ hi))) :
    IsTableOf (mergeTables files) ls.flatten :=
  Cnt.mergeTables_tab files ls hlen (fun i hi _ => h i hi)

set_option linter.unusedVariables false in
/-- partitions split the k-mers: x goes to partition x % P in every chunk -/
theorem partition_split (P : Nat) (hP : 1 ≤ P) (l : List Nat) (x : Nat) :
    countOcc x l = countOcc x (l.filter fun y => partOf P y == partOf P x) ∧
    ∀ p, p ≠ partOf P x → countOcc x (l.filter fun y => partOf P y == p) = 0 :=
  Cnt.partition_split P l x

/-- end to end: P partitions, any segmentation of the k-mer multiset into chunks, any line order in
    the chunk files ⇒ the concatenation over partitions of the merged tables is the table of all k-mers -/
theorem count_merge_exact (P : Nat) (hP : 1 ≤ P) (chunks : List (List Nat))
    (files : Nat → List (List (Nat × Nat)))
    (hfiles : ∀ p, p < P → (files p).length = chunks.length ∧
        ∀ i (hi : i < chunks.length) (hi' : i < (files p).length),
          IsTableOf ((files p)[i]) (chunks[i].filter fun y => partOf P y == p)) :
    IsTableOf ((List.range P).flatMap fun p => mergeTables (files p)) chunks.flatten :=
  Cnt.count_merge P hP chunks files hfiles

/-- sum of all counts = number of k-mer occurrences -/
theorem table_sum (t : List (Nat × Nat)) (l : List Nat) (h : IsTableOf t l) : (t.map (·.2)).sum = l.length :=
  Cnt.table_sum t l h

/-! ### non-vacuity of the merge statements -/

/-- two chunk files of one partition, different line orders, one shared key -/
example : mergeTables [[(7, 2), (3, 1)], [(5, 1), (7, 3)]] = [(7, 5), (3, 1), (5, 1)] := by decide

/-- the hypotheses of `mergeTables_exact` are satisfiable and its conclusion is the expected table -/
example : IsTableOf [(7, 2), (3, 1)] [7, 3, 7] := by
  refine ⟨by decide, ?_, by decide⟩
  intro x c h
  simp only [List.mem_cons, Prod.mk.injEq, List.not_mem_nil, or_false] at h
  rcases h with ⟨rfl, rfl⟩ | ⟨rfl, rfl⟩ <;> decide

/-- partitions: with P = 2, key 7 lives in partition 1 only -/
example : countOcc 7 ([7, 3, 4, 7].filter fun y => partOf 2 y == 1) = 2 ∧
    countOcc 7 ([7, 3, 4, 7].filter fun y => partOf 2 y == 0) = 0 := by decide

/-- end to end, P = 2, chunks [7,3,7] and [4,7]: partition 0 then partition 1 -/
example :
    ((List.range 2).flatMap fun p =>
      mergeTables (if p = 0 then [[], [(4, 1)]] else [[(3, 1), (7, 2)], [(7, 1)]]))
      = [(4, 1), (3, 1), (7, 3)] := by decide

end KT
