import KtVerif.Spec.Vectors
import KtVerif.Model.Vectors
import KtVerif.Proofs.VecOligo
/-!
# C04: the oligonucleotide composition row of a record

`oligoCounts (kmerPosMaps k) k s` is the code-shaped accumulation `vec[pos_map[min(f, r)]] += 1`
(`OligoComputer::vectorise_one`); `oligoRowSpec k s` counts, per canonical k-mer in column order, the
valid windows of `s` with that canonical form.  Property theorems only; helpers live in
`KtVerif/Proofs/VecAccum.lean`, `KtVerif/Proofs/VecOligo.lean` (namespace `KT.Vec`).
-/
namespace KT

-- some hypotheses of the delivered statements (`hk1`) are not needed by the proofs
set_option linter.unusedVariables false

/-! ## shape of the specification row -/

theorem oligoRowSpec_length (k : Nat) (s : List Nat) : (oligoRowSpec k s).length = (canonList k).length := by
  show ((canonList k).map _).length = _
  rw [List.length_map]

theorem oligoRowSpec_getD (k : Nat) (s : List Nat) (c : Nat) (hc : c < (canonList k).length) :
    (oligoRowSpec k s).getD c 0 = oligoSpec k s c := by
  show ((canonList k).map fun x => countOcc x (canons k s)).getD c 0 = countOcc ((canonList k).getD c 0) (canons k s)
  rw [List.getD_eq_getElem?_getD, List.getD_eq_getElem?_getD, List.getElem?_map, List.getElem?_eq_getElem hc]
  rfl

example : oligoRowSpec 2 [65,67,78,71,84,84] = [1, 2, 0, 0, 0, 0, 0, 0, 0, 0] := by decide
example : (oligoRowSpec 2 [65,67,78,71,84,84]).getD 1 0 = 2 ∧ oligoSpec 2 [65,67,78,71,84,84] 1 = 2 := by decide

/-! ## the model computes the specification row, with in-range `get_unchecked` indices -/

theorem oligoCounts_eq_spec (k : Nat) (s : List Nat) (hk1 : 1 ≤ k) (hk : k ≤ 31) :
    oligoCounts (kmerPosMaps k) k s = (oligoRowSpec k s, windowCount k s) :=
  Vec.oligoCounts_eq k s hk1 hk

theorem oligo_index_safe (k : Nat) (s : List Nat) (hk1 : 1 ≤ k) (hk : k ≤ 31) :
    oligoSafe (kmerPosMaps k) k s = true :=
  Vec.oligoSafe_true k s hk1 hk

-- (`kmerPosMaps` goes through `mergeSort`, so the model side is evaluated through the theorem)
example : oligoCounts (kmerPosMaps 2) 2 [65,67,78,71,84,84] = ([1, 2, 0, 0, 0, 0, 0, 0, 0, 0], 3) := by
  rw [oligoCounts_eq_spec 2 _ (by decide) (by decide)]; decide
example : oligoSafe (kmerPosMaps 1) 1 [84, 78, 67] = true :=
  oligo_index_safe 1 _ (by decide) (by decide)

/-! ## totals -/

theorem oligo_sum (k : Nat) (s : List Nat) (hk1 : 1 ≤ k) : (oligoRowSpec k s).sum = windowCount k s :=
  Vec.oligoRowSpec_sum k s

theorem oligo_zero_of_no_window (k : Nat) (s : List Nat) (h : windowCount k s = 0) :
    ∀ x ∈ oligoRowSpec k s, x = 0 :=
  Vec.oligoRowSpec_zero k s h

example : (oligoRowSpec 2 [65,67,78,71,84,84]).sum = 3 ∧ windowCount 2 [65,67,78,71,84,84] = 3 := by decide
example : windowCount 2 [65,78,84] = 0 ∧ oligoRowSpec 2 [65,78,84] = [0, 0, 0, 0, 0, 0, 0, 0, 0, 0] := by decide

/-! ## invariances: strand, letter case, T ↔ U -/

theorem oligoRowSpec_rcSeq (k : Nat) (s : List Nat) (hk1 : 1 ≤ k) : oligoRowSpec k (rcSeq s) = oligoRowSpec k s :=
  Vec.oligoRowSpec_rcSeq' k s

example : rcSeq [65,67,78,71,71] = [67,67,78,71,84] ∧
    oligoRowSpec 2 [67,67,78,71,84] = oligoRowSpec 2 [65,67,78,71,71] ∧
    specKmers 2 [67,67,78,71,84] ≠ specKmers 2 [65,67,78,71,71] := by decide

theorem specKmers_map_congr (k : Nat) (s : List Nat) (g : Nat → Nat) (hg : ∀ b, nt4 (g b) = nt4 b) :
    specKmers k (s.map g) = specKmers k s :=
  Vec.specKmers_map k s g hg

theorem nt4_lowerNuc (b : Nat) : nt4 (lowerNuc b) = nt4 b := Vec.nt4_lowerNuc' b
theorem nt4_upperNuc (b : Nat) : nt4 (upperNuc b) = nt4 b := Vec.nt4_upperNuc' b
theorem nt4_tToU (b : Nat) : nt4 (tToU b) = nt4 b := Vec.nt4_tToU' b

example : lowerNuc 84 = 116 ∧ upperNuc 117 = 85 ∧ tToU 84 = 85 ∧ tToU 116 = 117 ∧ lowerNuc 78 = 78 := by decide
example : [65,67,78,71,84,84].map lowerNuc = [97,99,78,103,116,116] ∧
    specKmers 2 [97,99,78,103,116,116] = specKmers 2 [65,67,78,71,84,84] := by decide

theorem oligoRowSpec_case_U (k : Nat) (s : List Nat) :
    oligoRowSpec k (s.map lowerNuc) = oligoRowSpec k s ∧ oligoRowSpec k (s.map upperNuc) = oligoRowSpec k s ∧
    oligoRowSpec k (s.map tToU) = oligoRowSpec k s :=
  ⟨Vec.oligoRowSpec_congr (specKmers_map_congr k s lowerNuc nt4_lowerNuc),
   Vec.oligoRowSpec_congr (specKmers_map_congr k s upperNuc nt4_upperNuc),
   Vec.oligoRowSpec_congr (specKmers_map_congr k s tToU nt4_tToU)⟩

example : oligoRowSpec 2 ([65,67,78,71,84,84].map tToU) = [1, 2, 0, 0, 0, 0, 0, 0, 0, 0] := by decide

end KT
