import KtVerif.Props.C09
import KtVerif.Proofs.RunDecompSpec
/-!
# C09 (declarative form): the minimiser runs are THE run decomposition of the sequence

`IsRunDecomposition w m s out` (in `KtVerif/Spec/Minimiser.lean`) says in words what C09 asks:
runs listed left to right, each a non-empty range of valid windows with one minimiser, not
extendable, and every valid window covered.  Here: `specRuns` satisfies it, it determines the
output uniquely, hence the iterator's output (`minimisers`, by `minimisers_eq_specRuns`) is the
run decomposition; runs contain only clean bytes; every valid window lies in exactly one run.

Helpers: `KtVerif/Proofs/RunDecomp.lean` (invariant of `groupRuns` over an abstract value
function, a run is determined by any window it contains, sorted-by-key lists with the same
members are equal), `KtVerif/Proofs/RunDecompSpec.lean` (instantiation at `winMin`).
-/
namespace KT
open KT.Runs

/-- the executable grouping satisfies the declarative characterisation of C09 -/
theorem specRuns_isRunDecomposition (w m : Nat) (s : List Nat) (hw : 1 ≤ w) :
    IsRunDecomposition w m s (specRuns w m s) := by
  have hg := specRuns_good w m s hw
  refine ⟨hg.sorted, ?_, ?_, ?_⟩
  · intro r hr
    obtain ⟨_, hne, hall, _, _⟩ := hg.ok r hr
    refine ⟨hne, ?_, hall⟩
    have h := hall (r.2.2 - w) (by omega) (by omega)
    have := (winMin_clean h).1
    omega
  · intro r hr
    obtain ⟨_, _, _, hleft, hright⟩ := hg.ok r hr
    exact ⟨hleft, hright⟩
  · intro i v h
    exact hg.cover i v (Nat.zero_le _) h

/-- … and the characterisation determines the output uniquely -/
theorem isRunDecomposition_unique (w m : Nat) (s : List Nat) (hw : 1 ≤ w) (a b : List (Nat × Nat × Nat))
    (ha : IsRunDecomposition w m s a) (hb : IsRunDecomposition w m s b) : a = b := by
  have _ := hw
  have key : ∀ (a b : List (Nat × Nat × Nat)), IsRunDecomposition w m s a →
      IsRunDecomposition w m s b → ∀ r, r ∈ a → r ∈ b := by
    intro a b ha hb r hr
    obtain ⟨hne, _, hall⟩ := ha.sound r hr
    obtain ⟨hleft, hright⟩ := ha.maximal r hr
    have hst := hall r.2.1 (Nat.le_refl _) hne
    obtain ⟨r', hr', _, h1, h2⟩ := hb.cover r.2.1 r.1 hst
    obtain ⟨hne', _, hall'⟩ := hb.sound r' hr'
    obtain ⟨hleft', hright'⟩ := hb.maximal r' hr'
    have : r = r' :=
      runOK_eq_of_common (w := w) (g := winMin w m s) (i := r.2.1)
        ⟨hne, hall, hleft, hright⟩ ⟨hne', hall', hleft', hright'⟩ (Nat.le_refl _) hne h1 h2
    rw [this]; exact hr'
  exact eq_of_sorted_key (fun r : Nat × Nat × Nat => r.2.1) a b ha.sorted hb.sorted
    (fun x => ⟨key a b ha hb x, key b a hb ha x⟩)

/-- hence the iterator's output is THE run decomposition -/
theorem minimisers_isRunDecomposition (w m : Nat) (s : List Nat) (hm1 : 1 ≤ m) (hmw : m ≤ w) (hm : m ≤ 31) :
    IsRunDecomposition w m s (minimisers w m s) := by
  rw [minimisers_eq_specRuns w m s hm1 hmw hm]
  exact specRuns_isRunDecomposition w m s (by omega)

/-- runs never cross an ambiguous byte: every byte inside a run is clean -/
theorem specRuns_clean (w m : Nat) (s : List Nat) (hw : 1 ≤ w) :
    ∀ r ∈ specRuns w m s, ∀ j, r.2.1 ≤ j → j < r.2.2 → clean (s.getD j 0) = true := by
  intro r hr j h1 h2
  obtain ⟨hne, _, hall⟩ := (specRuns_isRunDecomposition w m s hw).sound r hr
  by_cases hj : j + w ≤ r.2.2
  · exact (winMin_clean (hall j h1 hj)).2 j (Nat.le_refl _) (by omega)
  · exact (winMin_clean (hall (r.2.2 - w) (by omega) (by omega))).2 j (by omega) (by omega)

/-- every full valid window, including the last one of the sequence, lies in exactly one run -/
theorem specRuns_cover_unique (w m : Nat) (s : List Nat) (hw : 1 ≤ w) (i v : Nat) (h : winMin w m s i = some v) :
    ∃ r ∈ specRuns w m s, r.1 = v ∧ r.2.1 ≤ i ∧ i + w ≤ r.2.2 ∧
      ∀ r' ∈ specRuns w m s, r'.2.1 ≤ i → i + w ≤ r'.2.2 → r' = r := by
  have hg := specRuns_good w m s hw
  obtain ⟨r, hr, hv, h1, h2⟩ := hg.cover i v (Nat.zero_le _) h
  refine ⟨r, hr, hv, h1, h2, ?_⟩
  intro r' hr' h1' h2'
  exact runOK_eq_of_common (hg.ok r' hr').2 (hg.ok r hr).2 h1' h2' h1 h2

/-! ## non-vacuity -/

-- "ACGTNACGTTA", w = 3, m = 2: three runs, the ambiguous byte at 4 separates the first two,
-- the last run ends at |s| = 11 (covers the last window)
example : specRuns 3 2 [65,67,71,84,78,65,67,71,84,84,65] = [(1,0,4),(1,5,9),(0,7,11)] := by decide
example : winMin 3 2 [65,67,71,84,78,65,67,71,84,84,65] 8 = some 0 := by decide
example : winMin 3 2 [65,67,71,84,78,65,67,71,84,84,65] 9 = none := by decide
example : winMin 3 2 [65,67,71,84,78,65,67,71,84,84,65] 2 = none := by decide
example : clean 78 = false := by decide
-- the hypotheses of `minimisers_isRunDecomposition` are satisfiable and the output is non-empty
example : minimisers 3 2 [65,67,71,84,78,65,67,71,84,84,65] ≠ [] := by decide
-- adjacent runs with the same value separated by one invalid window are *not* merged
example : specRuns 1 1 [65,78,65] = [(0,0,1),(0,2,3)] := by decide
-- the characterisation rejects wrong outputs: a non-maximal split of "AA" (w = m = 1)
example : specRuns 1 1 [65,65] = [(0,0,2)] := by decide
example : ¬ IsRunDecomposition 1 1 [65,65] [(0,0,1),(0,1,2)] := by
  intro h
  have := (h.maximal (0,0,1) (by simp)).2
  exact this (by decide)
-- … and an output missing a window
example : ¬ IsRunDecomposition 1 1 [65,65] [] := by
  intro h
  obtain ⟨r, hr, _⟩ := h.cover 0 0 (by decide)
  cases hr

end KT
