import KtVerif.Proofs.MinOut
import KtVerif.Props.C09b
import KtVerif.Props.C10sched
/-!
# C10: the two minimiser outputs (`seq_to_min`, `bin_sequences`) against the specification

* the s2m line of a record is its id followed by the specification's runs, in order;
* window size 0 means one window spanning the whole record;
* the m2s contributions of a record are the runs its s2m line lists;
* end to end, under every schedule of the worker loop.

Helpers in `KtVerif/Proofs/MinOut.lean` (namespace `KT.MO`).
-/
namespace KT
open KT.MO

/-- the s2m line written by the code is the line the specification describes: id, then the record's runs in order -/
theorem s2mLine_eq_spec (w m : Nat) (id seq : List Nat) (hm1 : 1 ≤ m) (hm : m ≤ 31) (hw : w = 0 ∨ m ≤ w) :
    s2mLine w m id seq = s2mLineSpec w m id seq := by
  rw [s2mLine, s2mLineSpec, minimisers_eq_specRuns _ m seq hm1 (effW_ge w m seq hw) hm]
  congr 1
  exact List.map_congr_left fun r _ => runText_eq m r

/-- window size 0 = one window spanning the whole record -/
theorem effW_zero (m : Nat) (seq : List Nat) (h : m ≤ seq.length) : effW 0 m seq = seq.length :=
  effW_zero' m seq h

theorem w0_single_window (m : Nat) (seq : List Nat) (hm1 : 1 ≤ m) (hlen : m ≤ seq.length) (hclean : seq.all clean = true) :
    specRuns (effW 0 m seq) m seq = [(listMin (mmersOfWindow seq.length m seq 0), 0, seq.length)] := by
  rw [effW_zero m seq hlen]
  exact specRuns_full_clean m seq (by omega) hclean

theorem w0_ambiguous (m : Nat) (seq : List Nat) (hm1 : 1 ≤ m) (hlen : m ≤ seq.length) (hamb : seq.all clean = false) :
    specRuns (effW 0 m seq) m seq = [] := by
  have _ := hm1  -- also holds for m = 0
  rw [effW_zero m seq hlen]
  exact specRuns_full_amb m seq hamb

theorem w0_short (m : Nat) (seq : List Nat) (hlen : seq.length < m) : specRuns (effW 0 m seq) m seq = [] := by
  rw [effW_zero_short m seq hlen]
  exact specRuns_nil_of_short m m seq hlen

/-- the m2s contributions of a record are exactly the runs its s2m line lists (same order, same coordinates) -/
theorem m2sRuns_eq_line_runs (w m : Nat) (id seq : List Nat) :
    (m2sRuns w m id seq).map (fun p => p.1 ++ [58] ++ natText p.2.2.1 ++ [45] ++ natText p.2.2.2) =
      (minimisers (effW w m seq) m seq).map (runText m) ∧
    ∀ p ∈ m2sRuns w m id seq, p.2.1 = id := by
  constructor
  · rw [m2sRuns, List.map_map]
    exact List.map_congr_left fun r _ => rfl
  · intro p hp
    rw [m2sRuns, List.mem_map] at hp
    obtain ⟨r, _, rfl⟩ := hp
    rfl

/-- end to end, any schedule: the s2m output is one line per record, each the specification's line -/
theorem s2m_output_spec (w m N T : Nat) (hT : 0 < T) (hm1 : 1 ≤ m) (hm : m ≤ 31) (hw : w = 0 ∨ m ≤ w)
    (ids seqs : Nat → List Nat) (sched : List GStep) (s' : GSys (List (List Nat)))
    (hr : GSys.run N (s2mEff fun n => s2mLine w m (ids n) (seqs n)) (GSys.init T []) sched = some s')
    (ht : s'.terminal = true) :
    s'.sh.Perm ((List.range N).map fun n => s2mLineSpec w m (ids n) (seqs n)) := by
  have h := s2m_any_schedule N T hT (fun n => s2mLine w m (ids n) (seqs n)) sched s' hr ht
  have he : ((List.range N).map fun n => s2mLine w m (ids n) (seqs n)) =
      (List.range N).map fun n => s2mLineSpec w m (ids n) (seqs n) :=
    List.map_congr_left fun n _ => s2mLine_eq_spec w m (ids n) (seqs n) hm1 hm hw
  rw [← he]; exact h

/-- end to end, any schedule: the m2s table lists, per minimiser text, exactly the (id, start, end) of all records' runs with that text -/
theorem m2s_output_spec (w m N T : Nat) (hT : 0 < T) (ids seqs : Nat → List Nat) (sched : List GStep)
    (s' : GSys (List (List Nat × List (List Nat × Nat × Nat))))
    (hr : GSys.run N (m2sEff fun n => m2sRuns w m (ids n) (seqs n)) (GSys.init T []) sched = some s')
    (ht : s'.terminal = true) :
    (s'.sh.map (·.1)).Nodup ∧
    (∀ k, k ∈ s'.sh.map (·.1) ↔ ∃ n, n < N ∧ ∃ r ∈ minimisers (effW w m (seqs n)) m (seqs n), numericToKmer m r.1 = k) ∧
    (∀ k es, (k, es) ∈ s'.sh → ∀ e, e ∈ es ↔
        ∃ n, n < N ∧ ∃ r ∈ minimisers (effW w m (seqs n)) m (seqs n), numericToKmer m r.1 = k ∧ e = (ids n, r.2.1, r.2.2)) := by
  obtain ⟨hnd, hkeys, hvals, hord⟩ :=
    m2s_any_schedule N T hT (fun n => m2sRuns w m (ids n) (seqs n)) sched s' hr ht
  have hmem : ∀ n, n ∈ s'.order ↔ n < N := fun n => by rw [hord.mem_iff, List.mem_range]
  refine ⟨hnd, ?_, ?_⟩
  · intro k
    rw [hkeys k]
    constructor
    · rintro ⟨n, hn, p, hp, rfl⟩
      rw [m2sRuns, List.mem_map] at hp
      obtain ⟨r, hrm, rfl⟩ := hp
      exact ⟨n, hn, r, hrm, rfl⟩
    · rintro ⟨n, hn, r, hrm, rfl⟩
      exact ⟨n, hn, _, List.mem_map.mpr ⟨r, hrm, rfl⟩, rfl⟩
  · intro k es hin e
    rw [(hvals k es hin).mem_iff, List.mem_map]
    constructor
    · rintro ⟨p, hp, rfl⟩
      obtain ⟨n, hn, hpf⟩ := List.mem_flatMap.mp hp
      obtain ⟨hpr, hk⟩ := List.mem_filter.mp hpf
      rw [m2sRuns, List.mem_map] at hpr
      obtain ⟨r, hrm, rfl⟩ := hpr
      exact ⟨n, (hmem n).mp hn, r, hrm, of_decide_eq_true hk, rfl⟩
    · rintro ⟨n, hn, r, hrm, hk, rfl⟩
      refine ⟨(numericToKmer m r.1, (ids n, r.2.1, r.2.2)), ?_, rfl⟩
      refine List.mem_flatMap.mpr ⟨n, (hmem n).mpr hn, List.mem_filter.mpr ⟨?_, decide_eq_true hk⟩⟩
      exact List.mem_map.mpr ⟨r, hrm, rfl⟩

/-! ## non-vacuity -/

-- "ACGTACG", id "r0", w = 3, m = 2: `r0\tAC:0-7\n`
example : minimisers 3 2 [65,67,71,84,65,67,71] = [(1,0,7)] := by decide
example : s2mLine 3 2 [114,48] [65,67,71,84,65,67,71] = [114,48,9,65,67,58,48,45,55,9,10] := by decide
example : s2mLineSpec 3 2 [114,48] [65,67,71,84,65,67,71] = [114,48,9,65,67,58,48,45,55,9,10] := by decide
-- two runs with an ambiguous byte in between: "ACGTNACGTTA"
example : s2mLine 3 2 [120] [65,67,71,84,78,65,67,71,84,84,65] =
    [120,9, 65,67,58,48,45,52, 9, 65,67,58,53,45,57, 9, 65,65,58,55,45,49,49, 9,10] := by decide
-- a record without runs: id, tab, newline
example : s2mLine 4 2 [120] [65,67,71] = [120,9,10] := by decide

-- window size 0
example : effW 0 2 [65,67,71,84] = 4 ∧ effW 0 5 [65,67,71,84] = 5 ∧ effW 3 2 [65,67,71,84] = 3 := by decide
example : specRuns (effW 0 2 [65,67,71,84]) 2 [65,67,71,84] = [(1,0,4)] := by decide
example : listMin (mmersOfWindow 4 2 [65,67,71,84] 0) = 1 := by decide
example : minimisers (effW 0 2 [65,67,71,84]) 2 [65,67,71,84] = [(1,0,4)] := by decide
-- with an `N` inside: nothing
example : [65,67,78,84].all clean = false ∧ specRuns (effW 0 2 [65,67,78,84]) 2 [65,67,78,84] = [] := by decide
example : minimisers (effW 0 2 [65,67,78,84]) 2 [65,67,78,84] = [] := by decide
-- shorter than m: nothing
example : specRuns (effW 0 5 [65,67,71,84]) 5 [65,67,71,84] = [] := by decide
example : s2mLine 0 5 [120] [65,67,71,84] = [120,9,10] := by decide

-- m2s contributions of "ACGTNACGTTA": same texts and coordinates as the s2m line, all with the id
example : m2sRuns 3 2 [120] [65,67,71,84,78,65,67,71,84,84,65] =
    [([65,67], [120], 0, 4), ([65,67], [120], 5, 9), ([65,65], [120], 7, 11)] := by decide

-- end to end, two records "ACGTNACGTTA" (id x) and "AAC" (id y), effects out of record order
set_option synthInstance.maxSize 1024 in  -- `DecidableEq` of the nested table type
example : ((GSys.run 2 (m2sEff fun n => if n = 0 then m2sRuns 3 2 [120] [65,67,71,84,78,65,67,71,84,84,65]
      else m2sRuns 3 2 [121] [65,65,67])
    (GSys.init 2 ([] : List (List Nat × List (List Nat × Nat × Nat))))
    [.take 0, .take 1, .act 1, .act 0, .take 0, .take 1]).map fun s => (s.terminal, s.sh)) =
    some (true, [([65,65], [([121], 0, 3), ([120], 7, 11)]), ([65,67], [([120], 0, 4), ([120], 5, 9)])]) := by decide

end KT
