import KtVerif.Model.Py
import KtVerif.Proofs.PyBind
/-!
# C13: the Python bindings agree with the core

The bindings duplicate the oligo accumulation loop and the CGR loop (`Model/Py.lean` transcribes
them separately from `Model/Vectors.lean`).  Property theorems only; helpers live in
`KtVerif/Proofs/PyBind.lean`.
-/
namespace KT

/-- the binding's oligo loop computes exactly what the core's loop computes (same counts, same normalisation) -/
theorem pyOligoVec_eq_core (pm : PosMaps) (k : Nat) (norm : Bool) (bytes : List Nat) :
    pyOligoVec pm k norm bytes = oligoVec pm k norm bytes :=
  Py.pyOligoVec_eq pm k norm bytes

theorem pyHeader_eq_core (k : Nat) : pyHeader (kmerPosMaps k) k = header k := rfl

/-- the binding's CGR loop = the core's: same points, and ValueError exactly when the core returns Err -/
theorem pyCgr_eq_core (S : Nat) (bytes : List Nat) : pyCgr S bytes = cgrF64 S bytes :=
  Py.pyCgr_eq S bytes

theorem utf8Char_ascii (c : Nat) (h : c < 128) : utf8Char c = [c] := Py.utf8Char_lt128 c h

theorem utf8_ascii (cs : List Nat) (h : ∀ c ∈ cs, c < 128) : utf8 cs = cs := Py.utf8_lt128 cs h

example : utf8Char 65 = [65] := by decide
example : utf8Char 233 = [195, 169] := by decide
example : utf8Char 8364 = [226, 130, 172] := by decide
example : utf8Char 128512 = [240, 159, 152, 128] := by decide
example : utf8Char 1114111 = [244, 143, 191, 191] := by decide
example : utf8 [65, 233, 67] = [65, 195, 169, 67] := by decide
example : utf8 [65, 67, 71, 84] = [65, 67, 71, 84] := by decide

/-- every byte of the encoding of a non-ASCII character is ≥ 0x80, hence ambiguous for the iterators and rejected by the CGR -/
theorem utf8_nonascii_bytes (c : Nat) (h1 : 128 ≤ c) (h2 : c < 1114112) : ∀ b ∈ utf8Char c, 128 ≤ b ∧ b < 256 :=
  Py.utf8Char_high c h1 h2

theorem high_byte_ambiguous (b : Nat) (h : 128 ≤ b) : nt4 b = 4 ∧ clean b = false ∧ cgrCorner b = none :=
  ⟨Py.nt4_high b h, Py.clean_high b h, Py.cgrCorner_high b h⟩

theorem utf8_nonascii_ambiguous (c : Nat) (h1 : 128 ≤ c) (h2 : c < 1114112) :
    ∀ b ∈ utf8Char c, nt4 b = 4 ∧ cgrCorner b = none := fun b hb =>
  have hb' := (utf8_nonascii_bytes c h1 h2 b hb).1
  ⟨Py.nt4_high b hb', Py.cgrCorner_high b hb'⟩

example : (utf8Char 233).map nt4 = [4, 4] ∧ (utf8Char 233).map cgrCorner = [none, none] := by decide
example : (utf8 [65, 233, 67]).map nt4 = [0, 4, 4, 1] := by decide

/-- batch calls return the per-sequence results in argument order -/
theorem pyOligoBatch_is_map (pm : PosMaps) (k : Nat) (norm : Bool) (seqs : List (List Nat)) :
    pyOligoBatch pm k norm seqs = seqs.map (oligoVec pm k norm) ∧ (pyOligoBatch pm k norm seqs).length = seqs.length := by
  unfold pyOligoBatch
  rw [show pyOligoVec pm k norm = oligoVec pm k norm from funext (pyOligoVec_eq_core pm k norm)]
  exact ⟨rfl, List.length_map _⟩

theorem pyCgrBatch_some_iff (S : Nat) (seqs : List (List Nat)) (rows : List (List (Nat × Nat))) :
    pyCgrBatch S seqs = some rows ↔ (rows.length = seqs.length ∧ ∀ i (h : i < seqs.length), cgrF64 S seqs[i] = rows[i]?) := by
  unfold pyCgrBatch
  rw [show pyCgr S = cgrF64 S from funext (pyCgr_eq_core S)]
  exact Py.mapM_some_iff (cgrF64 S) seqs rows

theorem pyCgrBatch_none_iff (S : Nat) (seqs : List (List Nat)) :
    pyCgrBatch S seqs = none ↔ ∃ s ∈ seqs, cgrF64 S s = none := by
  unfold pyCgrBatch
  rw [show pyCgr S = cgrF64 S from funext (pyCgr_eq_core S)]
  exact Py.mapM_none_iff (cgrF64 S) seqs

end KT
