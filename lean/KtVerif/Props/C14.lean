import KtVerif.Model.Sched
import KtVerif.Proofs.SchedMmap
import KtVerif.Proofs.SchedBatch
import KtVerif.Props.C05
/-!
# C14: the positional writes of the memory-mapped path stay inside the mapping, never overlap,
tile the whole body, and the size the mapping is created with is exactly the size of the rows
-/
namespace KT

theorem mmap_write_in_bounds (hdrLen L N n : Nat) (hn : n < N) : writePos hdrLen L n + L ≤ N * L + hdrLen :=
  Sch.writePos_in_bounds hdrLen L N n hn

theorem mmap_writes_disjoint (hdrLen L i j : Nat) (hij : i ≠ j) :
    writePos hdrLen L i + L ≤ writePos hdrLen L j ∨ writePos hdrLen L j + L ≤ writePos hdrLen L i :=
  Sch.writePos_disjoint hdrLen L i j hij

theorem mmap_writes_tile (hdrLen L N p : Nat) (hL : 0 < L) (hp : hdrLen ≤ p) (hp2 : p < N * L + hdrLen) :
    ∃ n, n < N ∧ writePos hdrLen L n ≤ p ∧ p < writePos hdrLen L n + L := by
  refine ⟨(p - hdrLen) / L, ?_, ?_, ?_⟩
  · rw [Nat.div_lt_iff_lt_mul hL]; omega
  · unfold writePos
    have := Nat.mul_div_le (p - hdrLen) L
    omega
  · unfold writePos
    have := Nat.lt_mul_div_succ (p - hdrLen) hL
    rw [Nat.mul_succ] at this
    omega

theorem mmapSize_eq (nrec kcount delimLen hdrLen : Nat) :
    mmapSize nrec kcount delimLen hdrLen = nrec * perLineSize kcount delimLen + hdrLen := rfl

theorem joinBytes_length (sep : List Nat) (cells : List (List Nat)) (w : Nat) (hne : cells ≠ [])
    (hw : ∀ c ∈ cells, c.length = w) : (joinBytes sep cells).length = cells.length * w + (cells.length - 1) * sep.length :=
  Sch.joinBytes_length sep cells w hne hw

/-- a normalised row is exactly as long as the size the mapping was computed with, for ANY delimiter -/
theorem rowText_norm_length (delim : List Nat) (counts : List Nat) (total : Nat) (hne : counts ≠ [])
    (h8 : ∀ c ∈ counts, (fmt6 (f64Div (f64OfNat c) (f64OfNat (max 1 total)))).length = 8) :
    (rowText true delim counts total).length = perLineSize counts.length delim.length :=
  Sch.row_length_abstract delim counts (fun c => f64Div (f64OfNat c) (f64OfNat (max 1 total))) fmt6 hne h8

/-- no cell is left unwritten and no write is refused: every schedule fills the whole mapping -/
theorem mmap_no_unwritten (T : Nat) (hT : 0 < T) (hdr : List Nat) (rows : List (List Nat)) (L : Nat)
    (hL : ∀ r ∈ rows, r.length = L) (sched : List GStep) (s' : GSys Cells)
    (hr : GSys.run rows.length (mmapEff hdr.length (fun n => rows.getD n []))
            (GSys.init T (mmapInit (rows.length * L + hdr.length) hdr)) sched = some s')
    (ht : s'.terminal = true) :
    s'.sh.length = rows.length * L + hdr.length ∧ ∀ c ∈ s'.sh, c ≠ none := by
  rw [mmap_any_schedule T hT hdr rows L hL sched s' hr ht]
  unfold mmapExpected
  constructor
  · rw [List.length_map, List.length_append, Sch.flatten_length_const rows hL]; omega
  · intro c hc
    obtain ⟨a, _, rfl⟩ := List.mem_map.mp hc
    exact Option.some_ne_none a

theorem partOf_lt (nParts x : Nat) (h : 1 ≤ nParts) : partOf nParts x < nParts :=
  Nat.mod_lt x h

/-! ## non-vacuity -/

example : writePos 5 3 0 = 5 ∧ writePos 5 3 1 = 8 ∧ writePos 5 3 1 + 3 ≤ 2 * 3 + 5 := by decide
example : perLineSize 4 1 = 36 ∧ perLineSize 1 3 = 9 ∧ perLineSize 4 0 = 33 := by decide
example : mmapSize 3 4 1 7 = 115 := by decide
example : joinBytes [9] [[1, 2], [3, 4], [5, 6]] = [1, 2, 9, 3, 4, 9, 5, 6] := by decide
example : joinBytes [] [[1, 2], [3, 4]] = [1, 2, 3, 4] := by decide
/-- an out-of-bounds write is refused and leaves the file unchanged (so `mmap_no_unwritten` is not
    trivially true of `blit`) -/
example : blit [none, none, none] 2 [1, 2] = [none, none, none] := by decide
example : blit [none, none, none] 1 [1, 2] = [none, some 1, some 2] := by decide
example : partOf 4 10 = 2 := by decide
/-- a concrete normalised row (counts 1 and 3 of total 4, delimiter ","): "0.250000,0.750000\n" -/
example : rowText true [44] [1, 3] 4 =
    [48, 46, 50, 53, 48, 48, 48, 48, 44, 48, 46, 55, 53, 48, 48, 48, 48, 10] := by decide +kernel
example : (rowText true [44] [1, 3] 4).length = perLineSize 2 1 := by decide +kernel

end KT
