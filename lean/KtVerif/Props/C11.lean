import KtVerif.Spec.Vectors
import KtVerif.Model.Vectors
import KtVerif.Proofs.Cgr
import KtVerif.Proofs.CgrExact
import KtVerif.Proofs.CgrF64
/-!
# C11: whole-sequence chaos game representation (`CgrComputer::vectorise_one`)

Property theorems only; helpers live in `KtVerif/Proofs/Cgr*.lean`, `KtVerif/Proofs/Float*.lean`
(namespace `KT.Fl`).  Exact points are `(X, Y, e)` meaning `(X / 2^e, Y / 2^e)`; `(a - b)` on `Nat`
is truncated, so each pair of inequalities below is an absolute-value bound.
-/
namespace KT

-- `hS` of `cgrF64_exact` is not needed by the proof
set_option linter.unusedVariables false

/-! ## corners and rejection -/

theorem cgrCorner_eq_spec (b : Nat) : cgrCorner b = cornerSpec b := Fl.cgrCorner_eq_spec b

theorem cornerSpec_isSome_iff (b : Nat) : (cornerSpec b).isSome = true ↔ isNucLetter b = true := by
  rw [Fl.cornerSpec_isSome]

theorem cgrExact_none_iff (S : Nat) (s : List Nat) : cgrExact S s = none ↔ ∃ b ∈ s, isNucLetter b = false :=
  Fl.cgrExactFrom_none_iff S s 0 (S, S)

theorem cgrF64_none_iff (S : Nat) (s : List Nat) : cgrF64 S s = none ↔ ∃ b ∈ s, isNucLetter b = false :=
  Fl.cgrLoop_none_iff S s (cgrCentre S)

/-! ## shape -/

theorem cgrExact_length (S : Nat) (s : List Nat) (l : List (Nat × Nat × Nat)) (h : cgrExact S s = some l) : l.length = s.length :=
  Fl.cgrExactFrom_length S s 0 (S, S) l h

theorem cgrF64_length (S : Nat) (s : List Nat) (l : List (Nat × Nat)) (h : cgrF64 S s = some l) : l.length = s.length :=
  Fl.cgrLoop_length S s (cgrCentre S) l h

/-- point i depends only on the first i bases -/
theorem cgrExact_prefix (S : Nat) (s t : List Nat) (l : List (Nat × Nat × Nat)) (h : cgrExact S (s ++ t) = some l) :
    cgrExact S s = some (l.take s.length) :=
  Fl.cgrExactFrom_prefix S s t 0 (S, S) l h

theorem cgrF64_prefix (S : Nat) (s t : List Nat) (l : List (Nat × Nat)) (h : cgrF64 S (s ++ t) = some l) :
    cgrF64 S s = some (l.take s.length) :=
  Fl.cgrLoop_prefix S s t (cgrCentre S) l h

/-! ## geometry of the exact walk -/

/-- midpoint rule of the exact spec: numerators over 2^(i+2) after base i (0-based), previous numerators over 2^(i+1) -/
theorem cgrExact_midpoint (S : Nat) (s : List Nat) (b : Nat) (l : List (Nat × Nat × Nat)) (cx cy : Nat)
    (h : cgrExact S (s ++ [b]) = some l) (hb : cornerSpec b = some (cx, cy)) :
    let prev := (l.take s.length).getLastD (S, S, 1)
    l.getLast? = some (cx * S * 2 ^ prev.2.2 + prev.1, cy * S * 2 ^ prev.2.2 + prev.2.1, prev.2.2 + 1) :=
  Fl.cgrExact_midpoint S s b l cx cy h hb

/-- every exact point lies in the square: 0 ≤ X ≤ S·2^e -/
theorem cgrExact_in_square (S : Nat) (s : List Nat) (l : List (Nat × Nat × Nat)) (h : cgrExact S s = some l) :
    ∀ p ∈ l, p.1 ≤ S * 2 ^ p.2.2 ∧ p.2.1 ≤ S * 2 ^ p.2.2 :=
  Fl.cgrExactFrom_in_square S s 0 S S l (by omega) (by omega) h

/-- the last j bases confine the point to a sub-square of side S/2^j: two walks that end in the same j bases end within S/2^j of each other (per coordinate) -/
theorem cgrExact_subsquare (S : Nat) (p p' q : List Nat) (l l' : List (Nat × Nat × Nat))
    (h : cgrExact S (p ++ q) = some l) (h' : cgrExact S (p' ++ q) = some l') (hq : q ≠ []) :
    let a := l.getLastD (0,0,0); let a' := l'.getLastD (0,0,0)
    (a.1 * 2 ^ a'.2.2 - a'.1 * 2 ^ a.2.2) * 2 ^ q.length ≤ S * 2 ^ (a.2.2 + a'.2.2) ∧
    (a'.1 * 2 ^ a.2.2 - a.1 * 2 ^ a'.2.2) * 2 ^ q.length ≤ S * 2 ^ (a.2.2 + a'.2.2) ∧
    (a.2.1 * 2 ^ a'.2.2 - a'.2.1 * 2 ^ a.2.2) * 2 ^ q.length ≤ S * 2 ^ (a.2.2 + a'.2.2) ∧
    (a'.2.1 * 2 ^ a.2.2 - a.2.1 * 2 ^ a'.2.2) * 2 ^ q.length ≤ S * 2 ^ (a.2.2 + a'.2.2) :=
  Fl.cgrExact_subsquare S p p' q l l' h h' hq

/-! ## the double-precision walk -/

/-- while the dyadic values fit in 53 bits the double-precision walk IS the exact walk -/
theorem cgrF64_exact (S : Nat) (s : List Nat) (hS : 1 ≤ S) (hbits : bitLen S + s.length + 1 ≤ 53) :
    cgrF64 S s = (cgrExact S s).map fun l => l.map fun p => (p.1 * f64One / 2 ^ p.2.2, p.2.1 * f64One / 2 ^ p.2.2) :=
  Fl.cgrF64_exact S s hbits

/-! ## non-vacuity -/

example : cgrExact 2 [65, 67] = some [(2, 2, 2), (2, 10, 3)] := by decide
example : cgrExact 3 [65, 67, 71] = some [(3, 3, 2), (3, 15, 3), (27, 39, 4)] := by decide
example : cgrExact 2 [65, 78, 67] = none := by decide
example : cgrCorner 117 = some (1, 0) ∧ cornerSpec 84 = some (1, 0) ∧ cornerSpec 78 = none := by decide
-- S = 8, "ac": points (2, 2) and (1, 5); bit patterns of 2.0, 2.0, 1.0, 5.0
example : (cgrF64 8 [97, 99]).map (fun l => l.map fun p => (f64Bits p.1, f64Bits p.2)) =
    some [(4611686018427387904, 4611686018427387904), (4607182418800017408, 4617315517961601024)] := by
  decide +kernel
example : cgrF64 8 [65, 42] = none := by decide +kernel
-- the hypothesis of `cgrF64_exact` is tight-ish: 2^45 - 1 has 45 bits, 7 bases fit (45 + 7 + 1 = 53) …
example : bitLen (2 ^ 45 - 1) + [71,71,71,71,71,71,71].length + 1 = 53 := by decide +kernel
-- … and with an 8th base the double-precision walk leaves the exact walk
example : cgrF64 (2 ^ 45 - 1) [71,71,71,71,71,71,71,71] ≠
    (cgrExact (2 ^ 45 - 1) [71,71,71,71,71,71,71,71]).map fun l => l.map fun p =>
      (p.1 * f64One / 2 ^ p.2.2, p.2.1 * f64One / 2 ^ p.2.2) := by decide +kernel

end KT
