import KtVerif.Model.RowParse
import KtVerif.Model.Vectors
import KtVerif.Props.Display
import KtVerif.Proofs.RowParse
/-!
# A written CGR row reads back as exactly the doubles that were computed

Property theorems only; helpers live in `KtVerif/Proofs/RowParse.lean` (namespace `KT.Rp`).
`cgrRowText` / `oligoCgrRowText` are the lines `kmertools comp cgr` writes, `parseCgrRow` / `parseOligoCgrRow` the
readers of that syntax (`Model/RowParse.lean`), `IsF64` the scaled doubles (`Props/Display.lean`).
-/
namespace KT

/-- a printed number consists of digits and at most one '.', so it contains none of the bytes that structure a row -/
theorem f64Display_chars (n : Nat) : ∀ c ∈ f64Display n, (48 ≤ c ∧ c ≤ 57) ∨ c = 46 :=
  Rp.f64Display_chars n

theorem f64Display_ne_nil (n : Nat) : f64Display n ≠ [] :=
  Rp.f64Display_ne_nil n

/-- reading a written whole-sequence CGR row gives back exactly the points -/
theorem parseCgrRow_cgrRowText (pts : List (Nat × Nat)) (h : ∀ p ∈ pts, IsF64 p.1 ∧ IsF64 p.2) :
    parseCgrRow (cgrRowText pts) = some pts :=
  Rp.parseCgrRow_cgrRowText pts h

/-- …and a k-mer CGR row gives back exactly the triples -/
theorem parseOligoCgrRow_oligoCgrRowText (ts : List (Nat × Nat × Nat))
    (h : ∀ t ∈ ts, IsF64 t.1 ∧ IsF64 t.2.1 ∧ IsF64 t.2.2) :
    parseOligoCgrRow (oligoCgrRowText ts) = some ts :=
  Rp.parseOligoCgrRow_oligoCgrRowText ts h

/-- every coordinate the double-precision walk produces is a double (so the hypothesis above is met by the real rows) -/
theorem cgrF64_points_isF64 (S : Nat) (s : List Nat) (pts : List (Nat × Nat)) (h : cgrF64 S s = some pts) :
    ∀ p ∈ pts, IsF64 p.1 ∧ IsF64 p.2 :=
  Rp.cgrF64_points_isF64 S s pts h

/-- end to end: the line written for a record reads back as the walk of that record -/
theorem cgr_row_roundtrip (S : Nat) (s : List Nat) (pts : List (Nat × Nat)) (h : cgrF64 S s = some pts) :
    parseCgrRow (cgrRowText pts) = some pts :=
  parseCgrRow_cgrRowText pts (cgrF64_points_isF64 S s pts h)

/-! ## non-vacuity -/

example : splitOnByte 44 [49, 44, 50] = [[49], [50]] := by decide

example : splitOnByte 32 [32] = [[], []] := by decide

example : splitOnByte 44 [] = [[]] := by decide

example : parseTuple [40, 49, 44, 50, 41] = some [decToF64 1 0, decToF64 2 0] := by rfl

example : parseTuple [40, 49, 44, 50] = none := by decide

example : parseTuple [49, 44, 50, 41] = none := by decide

example : parseCgrRow [10] = some [] := by decide

example : parseOligoCgrRow [10] = some [] := by decide

example : parseCgrRow [] = none := by decide

example : parseCgrRow [40, 49, 44, 50, 41, 10] = some [(decToF64 1 0, decToF64 2 0)] := by rfl

/-- a triple is not a point -/
example : parseCgrRow [40, 49, 44, 50, 44, 51, 41, 10] = none := by rfl

/-- the empty record: an empty line, read back as no points -/
example : parseCgrRow (cgrRowText []) = some [] := by decide

/-- the hypothesis of `cgr_row_roundtrip` is met by the empty text (for which the walk has no points) -/
example (S : Nat) : cgrF64 S [] = some [] := rfl

end KT
