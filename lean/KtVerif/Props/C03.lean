import KtVerif.Spec.Kmer
import KtVerif.Model.Kmer
import KtVerif.Proofs.Canon
/-!
# C03: the canonical k-mer table (`kmer_pos_maps`, `get_header`)

Property theorems only; helpers live in `KtVerif/Proofs/Canon*.lean` (namespace `KT.Canon`).
-/
namespace KT

-- some hypotheses of the delivered statements (`hk1`, `hx`) are not needed by the proofs
set_option linter.unusedVariables false

/-! ## the specification list of canonical codes -/

theorem mem_canonList (k x : Nat) : x ∈ canonList k ↔ (x < 4 ^ k ∧ x ≤ revCompSpec k x) := by
  rw [Canon.mem_canonList_rc, Canon.revCompSpec_eq_rc]

theorem canonList_sorted (k : Nat) : (canonList k).Pairwise (· < ·) :=
  Canon.canonList_pairwise k

theorem canon_min_mem (k x : Nat) (hx : x < 4 ^ k) : min x (revCompSpec k x) ∈ canonList k := by
  rw [mem_canonList]
  have h1 := Canon.revCompSpec_lt k x
  have h2 := Canon.revCompSpec_invol k x hx
  rcases Nat.le_total x (revCompSpec k x) with hle | hle
  · rw [Nat.min_eq_left hle]; exact ⟨hx, hle⟩
  · rw [Nat.min_eq_right hle]; exact ⟨h1, by rw [h2]; exact hle⟩

example : canonList 2 = [0, 1, 2, 3, 4, 5, 6, 8, 9, 12] := by decide
example : 6 ∈ canonList 2 ∧ 7 ∉ canonList 2 := by decide
example : min 7 (revCompSpec 2 7) = 2 ∧ min 7 (revCompSpec 2 7) ∈ canonList 2 := by decide

/-! ## the model's table equals the specification list -/

theorem minMerVec_eq_canonList (k : Nat) (hk : k ≤ 31) : minMerVec k = canonList k :=
  Canon.minMerVec_eq k hk

theorem posKmer_eq_canonList (k : Nat) (hk : k ≤ 31) : (kmerPosMaps k).posKmer = canonList k :=
  Canon.minMerVec_eq k hk

theorem kcount_eq (k : Nat) (hk : k ≤ 31) : (kmerPosMaps k).kcount = (canonList k).length := by
  show (minMerVec k).length = _
  rw [Canon.minMerVec_eq k hk]

-- (`mergeSort` is defined by well-founded recursion, so the model side is evaluated through the
-- theorems; the hypotheses are discharged by `decide`)
example : minMerVec 2 = [0, 1, 2, 3, 4, 5, 6, 8, 9, 12] := by
  rw [minMerVec_eq_canonList 2 (by decide)]; decide
example : (kmerPosMaps 2).posKmer = [0, 1, 2, 3, 4, 5, 6, 8, 9, 12] := by
  rw [posKmer_eq_canonList 2 (by decide)]; decide
example : (kmerPosMaps 2).kcount = 10 := by
  rw [kcount_eq 2 (by decide)]; decide

/-! ## the position map -/

theorem posMap_size (k : Nat) : (kmerPosMaps k).posMap.size = 4 ^ k :=
  Canon.posMapOf_size k (minMerVec k)

theorem posMap_rank (k : Nat) (hk : k ≤ 31) (i : Nat) (hi : i < (canonList k).length) :
    (kmerPosMaps k).posMap[(canonList k)[i]]! = i := by
  show (posMapOf k (minMerVec k))[(canonList k)[i]]! = i
  rw [Canon.minMerVec_eq k hk]
  exact Canon.posMapOf_rank k (canonList k) (canonList_sorted k) i hi
    ((mem_canonList k _).1 (List.getElem_mem hi)).1

theorem posMap_noncanon (k : Nat) (hk : k ≤ 31) (x : Nat) (hx : x < 4 ^ k) (hn : x ∉ canonList k) :
    (kmerPosMaps k).posMap[x]! = 0 := by
  show (posMapOf k (minMerVec k))[x]! = 0
  rw [Canon.minMerVec_eq k hk]
  exact Canon.posMapOf_not_mem k (canonList k) x hn

theorem posMap_lt_kcount (k : Nat) (hk1 : 1 ≤ k) (hk : k ≤ 31) (x : Nat) (hx : x < 4 ^ k) :
    (kmerPosMaps k).posMap[x]! < (kmerPosMaps k).kcount := by
  rw [kcount_eq k hk]
  by_cases hm : x ∈ canonList k
  · obtain ⟨i, hi, rfl⟩ := List.getElem_of_mem hm
    rw [posMap_rank k hk i hi]; exact hi
  · rw [posMap_noncanon k hk x hx hm]
    exact List.length_pos_of_mem (Canon.zero_mem_canonList k)

example : (kmerPosMaps 2).posMap = #[0, 1, 2, 3, 4, 5, 6, 0, 7, 8, 0, 0, 9, 0, 0, 0] := by
  show posMapOf 2 (minMerVec 2) = _
  rw [minMerVec_eq_canonList 2 (by decide)]; decide
example : (canonList 2)[7] = 8 ∧ (kmerPosMaps 2).posMap[(canonList 2)[7]]! = 7 :=
  ⟨by decide, posMap_rank 2 (by decide) 7 (by decide)⟩
example : 7 < 4 ^ 2 ∧ 7 ∉ canonList 2 ∧ (kmerPosMaps 2).posMap[7]! = 0 :=
  ⟨by decide, by decide, posMap_noncanon 2 (by decide) 7 (by decide) (by decide)⟩
example : (kmerPosMaps 2).posMap[7]! < (kmerPosMaps 2).kcount :=
  posMap_lt_kcount 2 (by decide) (by decide) 7 (by decide)

/-! ## the documented column count -/

theorem kcount_formula (k : Nat) (hk1 : 1 ≤ k) : (canonList k).length = kcountFormula k :=
  Canon.canonList_length_formula k

example : kcountFormula 4 = 136 := by decide
example : kcountFormula 3 = 32 ∧ (canonList 3).length = 32 := by decide
example : kcountFormula 2 = 10 ∧ (canonList 2).length = 10 := by decide

/-! ## header texts -/

theorem header_eq_spec (k : Nat) (hk : k ≤ 31) : header k = headerSpec k := by
  unfold header headerSpec
  rw [posKmer_eq_canonList k hk]
  exact List.map_congr_left (fun x _ => Canon.numericToKmer_eq k x)

theorem decodeSpec_lex_mono (k x y : Nat) (hx : x < 4 ^ k) (hy : y < 4 ^ k) (hxy : x < y) :
    List.Lex (· < ·) (decodeSpec k x) (decodeSpec k y) :=
  Canon.decodeSpec_lex k x y hx hy hxy

example : header 1 = [[65], [67]] := by
  rw [header_eq_spec 1 (by decide)]; decide
example : List.Lex (· < ·) (decodeSpec 2 6) (decodeSpec 2 8) :=
  decodeSpec_lex_mono 2 6 8 (by decide) (by decide) (by decide)
example : headerSpec 2 =
    [[65, 65], [65, 67], [65, 71], [65, 84], [67, 65], [67, 67], [67, 71], [71, 65], [71, 67],
     [84, 65]] := by decide
example : decodeSpec 2 6 = [67, 71] ∧ decodeSpec 2 8 = [71, 65] := by decide

end KT
