import KtVerif.Model.Float
import KtVerif.Model.Vectors
import KtVerif.Proofs.Float
import KtVerif.Proofs.FloatDiv
import KtVerif.Proofs.FloatDivU64
/-!
# Shared facts about the exact binary64 emulation (used by C04, C08, C11, C14)

Property theorems only; helpers live in `KtVerif/Proofs/Float*.lean` (namespace `KT.Fl`).
A scaled double is the natural number `n` meaning `n · 2^-1074`; `f64One = 2^1074` is the value 1.0.
Truncated subtraction on `Nat` makes each pair of inequalities an absolute-value bound.
-/
namespace KT

/-! ## rounding to the nearest integer, ties to even -/

theorem roundDiv_err (a b : Nat) (hb : 0 < b) : 2 * (roundDiv a b * b - a) ≤ b ∧ 2 * (a - roundDiv a b * b) ≤ b :=
  Fl.roundDiv_err a b hb

theorem roundDiv_mono (a a' b : Nat) (hb : 0 < b) (h : a ≤ a') : roundDiv a b ≤ roundDiv a' b :=
  Fl.roundDiv_mono a a' b hb h

theorem roundDiv_exact (q b : Nat) (hb : 0 < b) : roundDiv (q * b) b = q :=
  Fl.roundDiv_exact q b hb

/-! ## conversion and division of naturals below 2^53 -/

theorem f64OfNat_exact (x : Nat) (hx : x < 2 ^ 53) : f64OfNat x = x * f64One :=
  Fl.f64OfNat_exact x hx

/-- relative error of a correctly rounded quotient of naturals is at most 2^-53 -/
theorem f64Div_nat_err (c t : Nat) (hc : 1 ≤ c) (ht : 1 ≤ t) (hc53 : c < 2 ^ 53) (ht53 : t < 2 ^ 53) :
    let q := f64Div (f64OfNat c) (f64OfNat t)
    2 ^ 53 * (q * t - c * f64One) ≤ c * f64One ∧ 2 ^ 53 * (c * f64One - q * t) ≤ c * f64One :=
  Fl.f64Div_nat_err c t hc ht hc53 ht53

theorem f64Div_zero (t : Nat) (ht : 1 ≤ t) (ht53 : t < 2 ^ 53) : f64Div (f64OfNat 0) (f64OfNat t) = 0 :=
  Fl.f64Div_zero t ht ht53

theorem f64Div_self (t : Nat) (ht : 1 ≤ t) (ht53 : t < 2 ^ 53) : f64Div (f64OfNat t) (f64OfNat t) = f64One :=
  Fl.f64Div_self t ht ht53

theorem f64Div_le_one (c t : Nat) (hct : c ≤ t) (ht : 1 ≤ t) (ht53 : t < 2 ^ 53) :
    f64Div (f64OfNat c) (f64OfNat t) ≤ f64One :=
  Fl.f64Div_le_one c t hct ht ht53

/-! ## `{:.6}` text -/

/-- C04/C08 "correct to 6 decimals": the printed value N/10^6 is within 10^-6 of c/t -/
theorem fmt6_quotient_correct (c t : Nat) (hct : c ≤ t) (ht : 1 ≤ t) (ht53 : t < 2 ^ 53) :
    let N := fmt6Int (f64Div (f64OfNat c) (f64OfNat t))
    N * t ≤ c * 1000000 + t ∧ c * 1000000 ≤ N * t + t :=
  Fl.fmt6_quotient_correct c t hct ht ht53

/-- a value in [0, 1] prints as exactly 8 characters `d.dddddd` (constant row width: C05, C14) -/
theorem fmt6_length (n : Nat) (hn : n ≤ f64One) : (fmt6 n).length = 8 :=
  Fl.fmt6_length n hn

/-! ## coverage bin -/

/-- C08: the float floor-division equals the integer division on the u32 range -/
theorem covBinF64_eq_div (c b : Nat) (hc : c < 2 ^ 32) (hb1 : 1 ≤ b) (hb : b < 2 ^ 32) : covBinF64 c b = c / b :=
  Fl.covBinF64_eq_div c b hc hb1 hb

/-- any bin size up to 2^64: beyond the u32 range the quotient is below 1 and the floor is 0 = c / b -/
theorem covBinF64_eq_div_u64 (c b : Nat) (hc : c < 2 ^ 32) (hb1 : 1 ≤ b) (hb : b < 2 ^ 64) : covBinF64 c b = c / b :=
  Fl.covBinF64_eq_div_u64 c b hc hb1 hb

/-! ## non-vacuity: concrete values of the emulation (bit patterns as printed by Rust `to_bits`);
    `decide +kernel`: kernel evaluation with GMP-accelerated `Nat` arithmetic, no axioms -/

-- 1/2 = 0.5
example : f64Bits (f64Div (f64OfNat 1) (f64OfNat 2)) = 4602678819172646912 := by decide +kernel
-- 1/3 = 0.333… (0x3FD5555555555555)
example : f64Bits (f64Div (f64OfNat 1) (f64OfNat 3)) = 4599676419421066581 := by decide +kernel
-- 1.0
example : f64Bits (f64Div (f64OfNat 7) (f64OfNat 7)) = 4607182418800017408 := by decide +kernel
-- "0.007812": 1/128 = 0.0078125 is a tie, rounded to the even digit
example : fmt6 (f64Div (f64OfNat 1) (f64OfNat 128)) = [48,46,48,48,55,56,49,50] := by decide +kernel
-- "0.333333", "1.000000", "0.000000"
example : fmt6 (f64Div (f64OfNat 1) (f64OfNat 3)) = [48,46,51,51,51,51,51,51] := by decide +kernel
example : fmt6 (f64Div (f64OfNat 5) (f64OfNat 5)) = [49,46,48,48,48,48,48,48] := by decide +kernel
example : fmt6 (f64Div (f64OfNat 0) (f64OfNat 5)) = [48,46,48,48,48,48,48,48] := by decide +kernel
example : fmt6Int (f64Div (f64OfNat 2) (f64OfNat 3)) = 666667 := by decide +kernel
example : roundDiv 5 2 = 2 ∧ roundDiv 7 2 = 4 ∧ roundDiv 9 4 = 2 := by decide
example : covBinF64 4294967294 4294967295 = 0 ∧ covBinF64 4294967295 4294967295 = 1 ∧ covBinF64 100 7 = 14 := by decide +kernel
-- bin sizes beyond u32: 2^32, 2^53 + 1 (not a double), 2^64 - 1
example : covBinF64 4294967295 4294967296 = 0 ∧ covBinF64 4294967295 9007199254740993 = 0 ∧
    covBinF64 4294967295 18446744073709551615 = 0 := by decide +kernel

end KT
