import KtVerif.Model.Kmer
import KtVerif.Proofs.KmerGen
import KtVerif.Proofs.KmerLocal
/-!
# C01: the k-mer generator emits exactly the clean windows, in order
-/
namespace KT

theorem kmerGen_eq_spec (k : Nat) (s : List Nat) (hk1 : 1 ≤ k) (hk : k ≤ 31) : kmers k s = specKmers k s :=
  kmers_eq_specKmers hk1 hk s

example : kmers 2 [65,67,78,71,84,84] = [(1,11),(11,1),(15,0)] := by decide
example : specKmers 2 [65,67,78,71,84,84] = [(1,11),(11,1),(15,0)] := by decide

theorem specKmers_eq_map_starts (k : Nat) (s : List Nat) :
    specKmers k s = (specKmerStarts k s).map fun i => (enc (window k s i), rcEnc (window k s i)) :=
  filterMap_ite_eq_map_filter _ _ _

example : specKmerStarts 2 [65,67,78,71,84,84] = [0,3,4] := by decide

theorem specKmerStarts_sorted (k : Nat) (s : List Nat) : (specKmerStarts k s).Pairwise (· < ·) :=
  List.Pairwise.sublist List.filter_sublist List.pairwise_lt_range

theorem mem_specKmerStarts (k : Nat) (s : List Nat) (i : Nat) (hk1 : 1 ≤ k) :
    i ∈ specKmerStarts k s ↔ (i + k ≤ s.length ∧ ∀ j, i ≤ j → j < i + k → clean (s.getD j 0) = true) :=
  have _ := hk1  -- the equivalence also holds for k = 0
  mem_specKmerStarts' k s i

example : 3 ∈ specKmerStarts 2 [65,67,78,71,84,84] ∧ 1 ∉ specKmerStarts 2 [65,67,78,71,84,84] := by decide

theorem specKmers_lt (k : Nat) (s : List Nat) : ∀ p ∈ specKmers k s, p.1 < 4 ^ k ∧ p.2 < 4 ^ k := by
  intro p hp
  obtain ⟨w, hl, hc, rfl⟩ := mem_specKmers hp
  exact ⟨hl ▸ enc_lt hc, hl ▸ rcEnc_lt w⟩

theorem kmerGen_lt (k : Nat) (s : List Nat) (hk1 : 1 ≤ k) (hk : k ≤ 31) : ∀ p ∈ kmers k s, p.1 < 4 ^ k ∧ p.2 < 4 ^ k := by
  rw [kmerGen_eq_spec k s hk1 hk]; exact specKmers_lt k s

example : (15, 0) ∈ kmers 2 [65,67,78,71,84,84] := by decide

theorem clean_iff_letter (b : Nat) (hb : b < 256) : clean b = true ↔ (isNucLetter b = true ∨ b < 4) :=
  clean_iff_letter' b hb

example : clean 85 = true ∧ clean 2 = true ∧ clean 78 = false ∧ isNucLetter 2 = false := by decide

theorem nt4_letters : nt4 65 = 0 ∧ nt4 97 = 0 ∧ nt4 67 = 1 ∧ nt4 99 = 1 ∧ nt4 71 = 2 ∧ nt4 103 = 2 ∧ nt4 84 = 3 ∧ nt4 116 = 3 ∧ nt4 85 = 3 ∧ nt4 117 = 3 := by
  decide

/-- locality of the specification (proved in `Proofs/KmerLocal.lean`): after a homopolymer prefix A^n (n ≥ k) the stream is
n - k + 1 copies of the item of the all-A window, followed by the stream of A^(k-1) ++ t -/
theorem specKmers_homopolymer_prefix (k n : Nat) (t : List Nat) (hk1 : 1 ≤ k) (hn : k ≤ n) :
    specKmers k (List.replicate n 65 ++ t) =
      List.replicate (n - k + 1) (enc (List.replicate k 65), rcEnc (List.replicate k 65)) ++
        specKmers k (List.replicate (k - 1) 65 ++ t) := specKmers_homopolymer_prefix' k n t hk1 hn

/-- the same for the code-shaped iterator model (proved in `Proofs/KmerLocal.lean`): forward code 0, reverse code 4^k - 1 -/
theorem kmers_homopolymer_prefix (k n : Nat) (t : List Nat) (hk1 : 1 ≤ k) (hk : k ≤ 31) (hn : k ≤ n) :
    kmers k (List.replicate n 65 ++ t) =
      List.replicate (n - k + 1) (0, 4 ^ k - 1) ++ kmers k (List.replicate (k - 1) 65 ++ t) :=
  kmers_homopolymer_prefix' k n t hk1 hk hn

example : kmers 2 (List.replicate 4 65 ++ [67, 78, 71]) =
    List.replicate 3 (0, 15) ++ kmers 2 (List.replicate 1 65 ++ [67, 78, 71]) := by decide

end KT
