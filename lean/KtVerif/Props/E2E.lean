import KtVerif.Spec.EndToEnd
import KtVerif.Proofs.E2E
import KtVerif.Props.C01
import KtVerif.Props.C10
/-!
# End to end: the per-layer theorems composed into statements about whole runs

C04 (row = specification row) + C05 (any schedule / any batch limit) + C14 (row length = mapping
row size, for any delimiter and any record length) for the oligo vector writers; C07 chunk level
(any schedule per chunk) + merge (any partition count, any line order) for the counter.
Property theorems only; helpers live in `KtVerif/Proofs/E2E*.lean` (namespace `KT.E2E`).
-/
namespace KT

-- some hypotheses of the delivered statements (`hk1`) are not needed by the proofs
set_option linter.unusedVariables false

/-- every count of a record's row is at most the row total -/
theorem oligoRowSpec_le_total (k : Nat) (s : List Nat) (hk1 : 1 ≤ k) : ∀ c ∈ oligoRowSpec k s, c ≤ windowCount k s := by
  intro c hc
  obtain ⟨x, rfl⟩ := E2E.mem_oligoRowSpec hc
  rw [← E2E.canons_length k s]
  exact E2E.countOcc_le_length x _

/-- the row the code writes is the row of the specification -/
theorem oligoRowText_eq_spec (k : Nat) (norm : Bool) (delim s : List Nat) (hk1 : 1 ≤ k) (hk : k ≤ 31) :
    oligoRowText (kmerPosMaps k) k norm delim s = rowText norm delim (oligoRowSpec k s) (windowCount k s) :=
  E2E.oligoRowText_unfold _ k norm delim s _ _ (oligoCounts_eq_spec k s hk1 hk)

/-- every normalised row of the oligo writer has the length the mapping is sized with, for any delimiter and any record -/
theorem oligoRowText_length (k : Nat) (delim s : List Nat) (hk1 : 1 ≤ k) (hk : k ≤ 31) :
    (oligoRowText (kmerPosMaps k) k true delim s).length = perLineSize (kmerPosMaps k).kcount delim.length := by
  rw [oligoRowText_eq_spec k true delim s hk1 hk,
    rowText_norm_length delim _ _ (E2E.oligoRowSpec_ne_nil k s)
      (E2E.cell8 _ _ (oligoRowSpec_le_total k s hk1)),
    oligoRowSpec_length, kcount_eq k hk]

/-- C04 + C05 + C14 end to end: for every schedule of the memory-mapped writer, every k in 1..=31, any delimiter, header or
    not, the file is exactly the specified file (header of canonical k-mers, then one row per record in input order) -/
theorem oligo_mmap_end_to_end (k T : Nat) (hk1 : 1 ≤ k) (hk : k ≤ 31) (hT : 0 < T) (header : Bool) (delim : List Nat)
    (recs : List (List Nat)) (sched : List GStep) (s' : GSys Cells)
    (hr : GSys.run recs.length
            (mmapEff (oligoHeaderBytes k header delim).length
              (fun n => (recs.map (oligoRowText (kmerPosMaps k) k true delim)).getD n []))
            (GSys.init T (mmapInit (mmapSize recs.length (kmerPosMaps k).kcount delim.length (oligoHeaderBytes k header delim).length)
                            (oligoHeaderBytes k header delim))) sched = some s')
    (ht : s'.terminal = true) :
    s'.sh = (oligoFileSpec k header delim recs).map some := by
  have hL : ∀ r ∈ recs.map (oligoRowText (kmerPosMaps k) k true delim),
      r.length = perLineSize (kmerPosMaps k).kcount delim.length := by
    intro r hr
    obtain ⟨a, _, rfl⟩ := List.mem_map.mp hr
    exact oligoRowText_length k delim a hk1 hk
  have h := mmap_any_schedule T hT (oligoHeaderBytes k header delim)
    (recs.map (oligoRowText (kmerPosMaps k) k true delim)) _ hL sched s'
  simp only [List.length_map] at h
  rw [mmapSize_eq] at hr
  rw [h hr ht]
  have hrows : recs.map (oligoRowText (kmerPosMaps k) k true delim) =
      recs.map fun s => rowText true delim (oligoRowSpec k s) (windowCount k s) :=
    List.map_congr_left fun s _ => oligoRowText_eq_spec k true delim s hk1 hk
  unfold mmapExpected oligoFileSpec oligoHeaderBytes
  rw [hrows, header_eq_spec k hk]

/-- the batched writer, any batch limit, normalised or raw -/
theorem oligo_batch_end_to_end (k limit : Nat) (hk1 : 1 ≤ k) (hk : k ≤ 31) (header norm : Bool) (delim : List Nat)
    (recs : List (List Nat)) :
    oligoHeaderBytes k header delim ++ batchOutput limit List.length (oligoRowText (kmerPosMaps k) k norm delim) recs =
      (if header then joinBytes delim (headerSpec k) ++ [10] else []) ++
      (recs.map fun s => rowText norm delim (oligoRowSpec k s) (windowCount k s)).flatten := by
  have hrows : recs.map (oligoRowText (kmerPosMaps k) k norm delim) =
      recs.map fun s => rowText norm delim (oligoRowSpec k s) (windowCount k s) :=
    List.map_congr_left fun s _ => oligoRowText_eq_spec k norm delim s hk1 hk
  unfold oligoHeaderBytes
  rw [batchOutput_eq, hrows, header_eq_spec k hk]

/-- C07 end to end, chunk level: whatever the schedules of the successive chunks, the tables of the chunks together hold
    exactly the canonical k-mers of all records (as a multiset), each record counted in exactly one chunk -/
theorem count_chunks_end_to_end (N limit T : Nat) (hT : 0 < T) (kms : Nat → List Nat) (len : Nat → Nat)
    (chunks : List CSys) (h : ChunkRuns N limit T kms len 0 chunks) :
    (chunks.flatMap fun s => s.table).Perm ((List.range N).flatMap kms) ∧
    (chunks.flatMap fun s => s.taken) = List.range N := by
  have := E2E.chunks_from N limit T hT kms len 0 chunks h (Nat.zero_le N)
  rwa [Nat.sub_zero, ← List.range_eq_range'] at this

/-- C07 end to end: chunk runs under any schedules, any partition count P ≥ 1, any line order inside the dumped chunk files
    ⇒ the merged counts file is the table of the canonical k-mers of the whole input -/
theorem count_end_to_end (k N limit T P : Nat) (hT : 0 < T) (hP : 1 ≤ P) (recs : Nat → List Nat) (len : Nat → Nat)
    (chunks : List CSys) (h : ChunkRuns N limit T (fun n => canons k (recs n)) len 0 chunks)
    (files : Nat → List (List (Nat × Nat)))
    (hfiles : ∀ p, p < P → (files p).length = chunks.length ∧
        ∀ i (hi : i < chunks.length) (hi' : i < (files p).length),
          IsTableOf ((files p)[i]) ((chunks[i]).table.filter fun y => partOf P y == p)) :
    IsTableOf ((List.range P).flatMap fun p => mergeTables (files p)) ((List.range N).flatMap fun n => canons k (recs n)) := by
  have hm := count_merge_exact P hP (chunks.map fun s => s.table) files (by
    intro p hp
    obtain ⟨hl, ht⟩ := hfiles p hp
    refine ⟨by rw [List.length_map]; exact hl, ?_⟩
    intro i hi hi'
    rw [List.getElem_map]
    exact ht i (by rw [List.length_map] at hi; exact hi) hi')
  have hp := (count_chunks_end_to_end N limit T hT (fun n => canons k (recs n)) len chunks h).1
  rw [← List.flatMap_def] at hm
  exact E2E.isTableOf_perm hp hm

/-! ## non-vacuity: a two-chunk counting run (3 records, 2 workers, limit 1) satisfies `ChunkRuns` -/

example : ChunkRuns 3 1 2 (fun n => [n, n + 10]) (fun _ => 2) 0
    [{ next := 2, soFar := 4, ws := [.done, .done], table := [1, 11, 0, 10], taken := [0, 1] },
     { next := 3, soFar := 2, ws := [.done, .done], table := [2, 12], taken := [2] }] :=
  .step 0 c07Sched _ _ (by decide) rfl rfl
    (.step 2 [.check 0, .take 0, .count 0, .addlen 0, .check 0, .check 1] _ _ (by decide) rfl rfl .done)

end KT
