import KtVerif.Proofs.FastaParse
import KtVerif.Proofs.FastaFormat
/-!
# C06: sequence files

Reading the FASTA / FASTQ serialisation of a well-formed record list (any line width, LF or CRLF,
with or without a final newline) delivers exactly the records, numbered 0,1,2,…; the statistics
pass agrees with iteration; the format is chosen by the documented suffix table; gzip members are
all read; the batch paths sniff the format from the first byte.

Helpers: `KtVerif/Proofs/FastaLines.lean` (`read_line` splitting undoes `joinLines` up to
white-space terminators, `trim_end`, `splitn`, `chunks`), `KtVerif/Proofs/FastaParse.lean` (the two
record grammars on the lines of a well-formed file), `KtVerif/Proofs/FastaFormat.lean` (suffixes).
-/
namespace KT
open KT.Fa

private theorem isEol_of_wfCfg {cfg : SerCfg} (h : wfCfg cfg = true) : IsEol cfg.eol := by
  unfold wfCfg at h
  simp only [Bool.and_eq_true, Bool.or_eq_true, beq_iff_eq] at h
  exact h.1

private theorem zipIdx_toRaw (recs : List SrcRec) :
    ((recs.map toRaw).zipIdx.map fun (r, i) => ({ n := i, id := r.id, seq := r.seq } : SeqRec)) =
      expectedRecs recs := by
  unfold expectedRecs
  rw [List.zipIdx_map, List.map_map]
  rfl

theorem fasta_roundtrip (cfg : SerCfg) (recs : List SrcRec) (hcfg : wfCfg cfg = true)
    (hwf : ∀ r ∈ recs, wfFasta r = true) :
    readAll .fasta (serialiseFasta cfg recs) = (expectedRecs recs, ParseStatus.done) := by
  have hl : ∀ l ∈ recs.flatMap (fastaLines cfg), NoNL l ∧ l ≠ [] := by
    intro l hl
    obtain ⟨r, hr, hlr⟩ := List.mem_flatMap.mp hl
    exact fastaLines_ok cfg (hwf r hr) l hlr
  have ht := splitLines_joinLines cfg _ (isEol_of_wfCfg hcfg) hl
  have := fastaRecords_lines cfg recs hwf _ ht
  unfold readAll rawRecords serialiseFasta
  simp only [this, zipIdx_toRaw]

theorem fastq_roundtrip (cfg : SerCfg) (recs : List SrcRec) (hcfg : wfCfg cfg = true)
    (hwf : ∀ r ∈ recs, wfFastq r = true) :
    readAll .fastq (serialiseFastq cfg recs) = (expectedRecs recs, ParseStatus.done) := by
  have hl : ∀ l ∈ recs.flatMap (fastqLines cfg), NoNL l ∧ l ≠ [] := by
    intro l hl
    obtain ⟨r, hr, hlr⟩ := List.mem_flatMap.mp hl
    exact fastqLines_ok cfg (hwf r hr) l hlr
  have ht := splitLines_joinLines cfg _ (isEol_of_wfCfg hcfg) hl
  have := fastqRecords_lines cfg recs hwf _ ht
  unfold readAll rawRecords serialiseFastq
  simp only [this, zipIdx_toRaw]

/-- records are numbered 0,1,2,… without gaps, whatever the input -/
theorem readAll_numbering (fmt : SeqFormat) (bytes : List Nat) :
    ((readAll fmt bytes).1.map fun r => r.n) = List.range (readAll fmt bytes).1.length := by
  unfold readAll
  simp only [List.map_map, List.length_map, List.length_zipIdx]
  have : ((fun (r : SeqRec) => r.n) ∘ fun (x : RawRec × Nat) =>
      ({ n := x.2, id := x.1.id, seq := x.1.seq } : SeqRec)) = Prod.snd := rfl
  rw [this, List.zipIdx_map_snd, List.range_eq_range']

/-- the statistics pass agrees with what iteration delivers, whatever the input -/
theorem seqStats_agree (fmt : SeqFormat) (bytes : List Nat) :
    seqStats fmt bytes = (((readAll fmt bytes).1.length, ((readAll fmt bytes).1.map fun r => r.seq.length).sum), (readAll fmt bytes).2) := by
  unfold readAll seqStats
  simp only [List.map_map, List.length_map, List.length_zipIdx]
  have : ((fun (r : SeqRec) => r.seq.length) ∘ fun (x : RawRec × Nat) =>
      ({ n := x.2, id := x.1.id, seq := x.1.seq } : SeqRec)) = (fun r => r.seq.length) ∘ Prod.fst := rfl
  rw [this, ← List.map_map, List.zipIdx_map_fst]

theorem expectedRecs_length (recs : List SrcRec) : (expectedRecs recs).length = recs.length := by
  simp [expectedRecs]

theorem expectedRecs_getElem (recs : List SrcRec) (i : Nat) (h : i < recs.length) :
    (expectedRecs recs)[i]? = some { n := i, id := recs[i].id, seq := recs[i].seq } := by
  simp [expectedRecs, h]

/-- gzip members are read one after the other (all of them) -/
theorem readerBytes_members (name : List Nat) (members : List (List Nat)) :
    readerBytes name members = members.flatten := by
  unfold readerBytes; split <;> rfl

/-- documented suffix table, with one optional `.gz` -/
theorem formatOf_eq_spec (name : List Nat) (h : endsWith ".gz" (name.take (name.length - 3)) = false) :
    formatOf name = formatSpec name := by
  rw [formatOf_eq_table, formatSpec_eq_table]
  cases hg : endsWith ".gz" name with
  | false => rfl
  | true =>
    simp only [if_true]
    rw [stripGz_step hg, stripGz_of_not h]

private def nm (s : String) : List Nat := s.toList.map Char.toNat

theorem formatOf_table :
    formatOf (nm "x.fa") = some .fasta ∧ formatOf (nm "x.fasta") = some .fasta ∧
    formatOf (nm "x.fna") = some .fasta ∧ formatOf (nm "x.fq") = some .fastq ∧
    formatOf (nm "x.fastq") = some .fastq ∧ formatOf (nm "x.fa.gz") = some .fasta ∧
    formatOf (nm "x.fasta.gz") = some .fasta ∧ formatOf (nm "x.fna.gz") = some .fasta ∧
    formatOf (nm "x.fq.gz") = some .fastq ∧ formatOf (nm "x.fastq.gz") = some .fastq ∧
    formatOf (nm "x.txt") = none ∧ formatOf (nm "x.gz") = none := by
  refine ⟨?_, ?_, ?_, ?_, ?_, ?_, ?_, ?_, ?_, ?_, ?_, ?_⟩ <;>
    exact (formatOf_eq_spec _ (by decide)).trans (by decide)

/-- the batch paths sniff the format from the first byte -/
theorem sniffFormat_fasta (cfg : SerCfg) (recs : List SrcRec) (hne : recs ≠ []) :
    sniffFormat (serialiseFasta cfg recs) = some .fasta := by
  cases recs with
  | nil => exact absurd rfl hne
  | cons r rs =>
    have : ∃ t, serialiseFasta cfg (r :: rs) = 62 :: t := by
      unfold serialiseFasta
      rw [List.flatMap_cons]
      unfold fastaLines
      rw [List.cons_append]
      cases chunks cfg.wrap r.seq ++ List.flatMap (fun r => headerLine 62 r :: chunks cfg.wrap r.seq) rs with
      | nil =>
        unfold joinLines
        split <;> exact ⟨_, rfl⟩
      | cons l ls => exact ⟨_, rfl⟩
    obtain ⟨t, ht⟩ := this
    rw [ht]; rfl

theorem sniffFormat_fastq (cfg : SerCfg) (recs : List SrcRec) (hne : recs ≠ []) :
    sniffFormat (serialiseFastq cfg recs) = some .fastq := by
  cases recs with
  | nil => exact absurd rfl hne
  | cons r rs =>
    have : ∃ t, serialiseFastq cfg (r :: rs) = 64 :: t := by
      unfold serialiseFastq
      rw [List.flatMap_cons]
      unfold fastqLines
      rw [List.cons_append, List.cons_append, List.cons_append]
      cases chunks cfg.wrap r.seq ++ [[43]] ++ chunks cfg.wrap r.qual ++
          List.flatMap (fun r => headerLine 64 r :: chunks cfg.wrap r.seq ++ [[43]] ++ chunks cfg.wrap r.qual) rs with
      | nil =>
        unfold joinLines
        split <;> exact ⟨_, rfl⟩
      | cons l ls => exact ⟨_, rfl⟩
    obtain ⟨t, ht⟩ := this
    rw [ht]; rfl

/-! ## non-vacuity: a concrete file (CRLF, width 3, no final newline, a record without bases) -/

private def exCfg : SerCfg := { eol := [13, 10], wrap := 3, final := false }

/-- `s1 a b` / ACGTACG, `e` / no bases, `s2` / GG -/
private def exFasta : List SrcRec :=
  [ { id := [115, 49], desc := some [97, 32, 98], seq := [65, 67, 71, 84, 65, 67, 71], qual := [] },
    { id := [101], desc := none, seq := [], qual := [] },
    { id := [115, 50], desc := none, seq := [71, 71], qual := [] } ]

example : wfCfg exCfg = true ∧ ∀ r ∈ exFasta, wfFasta r = true := by decide

/-- `>s1 a b\r\nACG\r\nTAC\r\nG\r\n>e\r\n>s2\r\nGG` -/
private theorem exFasta_bytes : serialiseFasta exCfg exFasta =
    [62, 115, 49, 32, 97, 32, 98, 13, 10, 65, 67, 71, 13, 10, 84, 65, 67, 13, 10, 71, 13, 10,
     62, 101, 13, 10, 62, 115, 50, 13, 10, 71, 71] := by
  simp [serialiseFasta, fastaLines, headerLine, joinLines, chunks, exFasta, exCfg]

example : readAll .fasta
    [62, 115, 49, 32, 97, 32, 98, 13, 10, 65, 67, 71, 13, 10, 84, 65, 67, 13, 10, 71, 13, 10,
     62, 101, 13, 10, 62, 115, 50, 13, 10, 71, 71] =
    ([{ n := 0, id := [115, 49], seq := [65, 67, 71, 84, 65, 67, 71] },
      { n := 1, id := [101], seq := [] },
      { n := 2, id := [115, 50], seq := [71, 71] }], ParseStatus.done) := by
  rw [← exFasta_bytes]
  exact (fasta_roundtrip exCfg exFasta (by decide) (by decide)).trans (by decide)

/-- non-ASCII header text: id `sé` (`73 C3 A9`), description `漢` (`E6 BC A2`), bases ACG -/
private def exUtf : SrcRec :=
  { id := [115, 195, 169], desc := some [230, 188, 162], seq := [65, 67, 71], qual := [] }

example : wfFasta exUtf = true := by decide

/-- `>sé 漢\r\nACG` -/
private theorem exUtf_bytes : serialiseFasta exCfg [exUtf] =
    [62, 115, 195, 169, 32, 230, 188, 162, 13, 10, 65, 67, 71] := by
  simp [serialiseFasta, fastaLines, headerLine, joinLines, chunks, exUtf, exCfg]

example : readAll .fasta [62, 115, 195, 169, 32, 230, 188, 162, 13, 10, 65, 67, 71] =
    ([{ n := 0, id := [115, 195, 169], seq := [65, 67, 71] }], ParseStatus.done) := by
  rw [← exUtf_bytes]
  exact (fasta_roundtrip exCfg [exUtf] (by decide) (by decide)).trans (by decide)

/-- `s1 a b` / ACGTACG / !"#$%&', `s2` / GG / +@ (quality lines may start with `+` or `@`) -/
private def exFastq : List SrcRec :=
  [ { id := [115, 49], desc := some [97, 32, 98], seq := [65, 67, 71, 84, 65, 67, 71],
      qual := [33, 34, 35, 36, 37, 38, 39] },
    { id := [115, 50], desc := none, seq := [71, 71], qual := [43, 64] } ]

example : ∀ r ∈ exFastq, wfFastq r = true := by decide

/-- `@s1 a b\r\nACG\r\nTAC\r\nG\r\n+\r\n!"#\r\n$%&\r\n'\r\n@s2\r\nGG\r\n+\r\n+@` -/
private theorem exFastq_bytes : serialiseFastq exCfg exFastq =
    [64, 115, 49, 32, 97, 32, 98, 13, 10, 65, 67, 71, 13, 10, 84, 65, 67, 13, 10, 71, 13, 10,
     43, 13, 10, 33, 34, 35, 13, 10, 36, 37, 38, 13, 10, 39, 13, 10,
     64, 115, 50, 13, 10, 71, 71, 13, 10, 43, 13, 10, 43, 64] := by
  simp [serialiseFastq, fastqLines, headerLine, joinLines, chunks, exFastq, exCfg]

example : readAll .fastq
    [64, 115, 49, 32, 97, 32, 98, 13, 10, 65, 67, 71, 13, 10, 84, 65, 67, 13, 10, 71, 13, 10,
     43, 13, 10, 33, 34, 35, 13, 10, 36, 37, 38, 13, 10, 39, 13, 10,
     64, 115, 50, 13, 10, 71, 71, 13, 10, 43, 13, 10, 43, 64] =
    ([{ n := 0, id := [115, 49], seq := [65, 67, 71, 84, 65, 67, 71] },
      { n := 1, id := [115, 50], seq := [71, 71] }], ParseStatus.done) := by
  rw [← exFastq_bytes]
  exact (fastq_roundtrip exCfg exFastq (by decide) (by decide)).trans (by decide)

end KT
