import KtVerif.Spec.Vectors
import KtVerif.Model.Vectors
import KtVerif.Proofs.VecCov
/-!
# C08: the coverage histogram row of a record

`covCounts k binSize binCount cnt s` is the code-shaped accumulation
`vec[min(floor(count / bin_size), bin_count - 1)] += 1` (`CovComputer::vectorise_one`), the quotient
being computed on doubles (`covBinF64`); `covRowSpec` is the histogram of the multiplicities `cnt` of
the canonical codes of the valid windows over the bins `binOf`.  The exactness of the float quotient is
the hypothesis `hbin` (proved separately for `cnt x < 2^32`, `1 ≤ binSize < 2^32`).
Property theorems only; helpers live in `KtVerif/Proofs/VecAccum.lean`, `KtVerif/Proofs/VecCov.lean`
(namespace `KT.Vec`).
-/
namespace KT

-- some hypotheses of the delivered statements (`hbc` in the correspondence) are not needed by the proofs
set_option linter.unusedVariables false

/-! ## bins -/

theorem binOf_lt (binSize binCount c : Nat) (hbc : 1 ≤ binCount) : binOf binSize binCount c < binCount :=
  Vec.binOf_lt' binSize binCount c hbc

theorem binOf_absent (binSize binCount : Nat) : binOf binSize binCount 0 = 0 := by
  unfold binOf
  rw [Nat.zero_div]
  exact Nat.min_eq_left (Nat.zero_le _)

theorem binOf_saturates (binSize binCount c : Nat) (hbs : 1 ≤ binSize) (h : (binCount - 1) * binSize ≤ c) :
    binOf binSize binCount c = binCount - 1 :=
  Vec.binOf_saturates' binSize binCount c hbs h

example : binOf 10 16 37 = 3 ∧ binOf 10 16 149 = 14 ∧ binOf 10 16 150 = 15 ∧ binOf 10 16 100000 = 15 := by decide
example : binOf 10 16 0 = 0 ∧ binOf 0 16 7 = 0 := by decide

/-! ## the histogram row -/

theorem covRowSpec_length (k binSize binCount : Nat) (cnt : Nat → Nat) (s : List Nat) :
    (covRowSpec k binSize binCount cnt s).length = binCount := by
  show ((List.range binCount).map _).length = _
  rw [List.length_map, List.length_range]

theorem cov_sum (k binSize binCount : Nat) (cnt : Nat → Nat) (s : List Nat) (hbc : 1 ≤ binCount) :
    (covRowSpec k binSize binCount cnt s).sum = windowCount k s :=
  Vec.covRowSpec_sum k binSize binCount cnt s hbc

-- canons = [1, 1, 0]; multiplicities 5·(x+1): code 1 ↦ 10 (bin 3, two windows), code 0 ↦ 5 (bin 1)
example : covRowSpec 2 3 4 (fun x => 5 * (x + 1)) [65,67,78,71,84,84] = [0, 1, 0, 2] ∧
    windowCount 2 [65,67,78,71,84,84] = 3 := by decide
-- without a bin the histogram is empty and the sum is 0 although there are windows
example : covRowSpec 2 3 0 (fun x => x) [65,67,78,71,84,84] = [] := by decide

theorem covCounts_eq_spec_of_bin (k binSize binCount : Nat) (cnt : Nat → Nat) (s : List Nat)
    (hk1 : 1 ≤ k) (hk : k ≤ 31) (hbc : 1 ≤ binCount)
    (hbin : ∀ x, covBinF64 (cnt x) binSize = cnt x / binSize) :
    covCounts k binSize binCount cnt s = (covRowSpec k binSize binCount cnt s, windowCount k s) :=
  Vec.covCounts_eq k binSize binCount cnt s hk1 hk hbin

-- the float hypothesis holds on a concrete instance (checked by kernel evaluation of the emulation),
-- and the model side is then evaluated through the theorem
example : covBinF64 7 3 = 7 / 3 ∧ covBinF64 10 3 = 3 ∧ covBinF64 9 3 = 3 := by decide +kernel
example : covCounts 2 3 4 (fun _ => 7) [65,67,78,71,84,84] = ([0, 0, 3, 0], 3) := by
  rw [covCounts_eq_spec_of_bin 2 3 4 (fun _ => 7) _ (by decide) (by decide) (by decide)
    (fun _ => by decide +kernel)]
  decide

theorem cov_zero_of_no_window (k binSize binCount : Nat) (cnt : Nat → Nat) (s : List Nat)
    (h : windowCount k s = 0) : ∀ x ∈ covRowSpec k binSize binCount cnt s, x = 0 :=
  Vec.covRowSpec_zero k binSize binCount cnt s h

example : windowCount 2 [65,78,84] = 0 ∧ covRowSpec 2 3 4 (fun x => x) [65,78,84] = [0, 0, 0, 0] := by decide

end KT
