import KtVerif.Model.Minimiser
import KtVerif.Proofs.KMinSim
import KtVerif.Proofs.KMinLedger
/-!
# C18: the k-mer-reporting minimiser iterator

Same runs as the plain minimiser iterator, and the k-mer lists attached to the runs concatenate
to the canonical w-mers of the record (nothing lost, nothing duplicated, order kept).
-/
namespace KT

/-- the k-mer-reporting iterator yields the same (minimiser, start, end) runs as the plain one -/
theorem kmg_runs_eq_minGen (w m : Nat) (s : List Nat) :
    (kmerMinimisers w m s).map (fun r => (r.1, r.2.1, r.2.2.1)) = minimisers w m s :=
  KMin.runs_eq w m s

/-- the concatenation of the attached k-mer lists is the sequence of canonical w-mers of the input -/
theorem kmg_conserves (w m : Nat) (s : List Nat) (hm1 : 1 ≤ m) (hmw : m ≤ w) (hw : w ≤ 31) :
    (kmerMinimisers w m s).flatMap (fun r => r.2.2.2) = canons w s :=
  KMin.conserves hm1 hmw hw s

example : kmerMinimisers 3 2 [65,67,71,84,78,65,67,71,84,84,65] =
    [(1,0,4,[6,6]),(1,5,9,[6,6,1]),(0,7,11,[48])] := by decide
example : minimisers 3 2 [65,67,71,84,78,65,67,71,84,84,65] = [(1,0,4),(1,5,9),(0,7,11)] := by decide
example : canons 3 [65,67,71,84,78,65,67,71,84,84,65] = [6,6,6,6,1,48] := by decide
example : (kmerMinimisers 3 2 [65,67,71,84,78,65,67,71,84,84,65]).flatMap (fun r => r.2.2.2) =
    [6,6,6,6,1,48] := by decide
-- stale register bits of `KmerGenerator` across an ambiguous byte do not matter (w = m)
example : kmerMinimisers 2 2 [84,84,78,65,67,65] = [(0,0,2,[0]),(1,3,5,[1,4]),(4,4,6,[])] := by decide
example : canons 2 [84,84,78,65,67,65] = [0,1,4] := by decide

end KT
