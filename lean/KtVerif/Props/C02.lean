import KtVerif.Model.Kmer
import KtVerif.Proofs.KmerRC
import KtVerif.Props.C01
/-!
# C02: reverse complement and decoding of codes; reverse complement of the text
-/
namespace KT

theorem revComp_eq_spec (k x : Nat) (hk : k ≤ 31) (hx : x < 4 ^ k) : revComp k x = revCompSpec k x :=
  have _ := hx  -- the equality also holds for x ≥ 4^k (both sides read k digits only)
  revComp_eq_revCompSpec hk x

example : revComp 3 6 = 27 ∧ revCompSpec 3 6 = 27 := by decide   -- ACG ↦ CGT

theorem revCompSpec_lt (k x : Nat) : revCompSpec k x < 4 ^ k :=
  revCompSpec_lt' k x

theorem revCompSpec_involutive (k x : Nat) (hx : x < 4 ^ k) : revCompSpec k (revCompSpec k x) = x :=
  revCompSpec_revCompSpec hx

example : revCompSpec 3 (revCompSpec 3 6) = 6 ∧ revCompSpec 3 6 ≠ 6 := by decide
-- the bound is needed:
example : revCompSpec 1 (revCompSpec 1 5) = 1 := by decide

theorem revComp_involutive (k x : Nat) (hk : k ≤ 31) (hx : x < 4 ^ k) : revComp k (revComp k x) = x := by
  rw [revComp_eq_spec k x hk hx, revComp_eq_spec k _ hk (revCompSpec_lt k x), revCompSpec_involutive k x hx]

example : revComp 4 (revComp 4 255) = 255 ∧ revComp 4 255 = 0 ∧ revComp 3 (revComp 3 6) = 6 := by decide

theorem numericToKmer_eq_spec (k x : Nat) : numericToKmer k x = decodeSpec k x :=
  numericToKmer_eq_decodeSpec k x

example : numericToKmer 3 6 = [65, 67, 71] := by decide

theorem decodeSpec_length (k x : Nat) : (decodeSpec k x).length = k := by
  simp [decodeSpec, digitsOf_length]

theorem decodeSpec_alphabet (k x : Nat) : ∀ c ∈ decodeSpec k x, c = 65 ∨ c = 67 ∨ c = 71 ∨ c = 84 := by
  intro c hc
  rw [decodeSpec, List.mem_map] at hc
  obtain ⟨d, _, rfl⟩ := hc
  exact letterOf_alphabet d

theorem enc_decodeSpec (k x : Nat) (hx : x < 4 ^ k) : enc (decodeSpec k x) = x :=
  enc_decodeSpec' hx

example : enc (decodeSpec 3 27) = 27 ∧ enc (decodeSpec 1 5) ≠ 5 := by decide

theorem decodeSpec_enc (w : List Nat) (hw : ∀ c ∈ w, c = 65 ∨ c = 67 ∨ c = 71 ∨ c = 84) : decodeSpec w.length (enc w) = w :=
  decodeSpec_enc' w hw

example : decodeSpec 3 (enc [67, 71, 84]) = [67, 71, 84] ∧ decodeSpec 1 (enc [97]) ≠ [97] := by decide

theorem revCompSpec_eq_text (k x : Nat) (hx : x < 4 ^ k) : revCompSpec k x = enc (rcSeq (decodeSpec k x)) :=
  have _ := hx  -- also holds without the bound
  revCompSpec_eq_text' k x

example : rcSeq (decodeSpec 3 6) = [67, 71, 84] ∧ enc [67, 71, 84] = 27 := by decide

theorem specKmers_snd (k : Nat) (s : List Nat) : ∀ p ∈ specKmers k s, p.2 = revCompSpec k p.1 :=
  specKmers_snd' k s

example : (11, 1) ∈ specKmers 2 [65,67,78,71,84,84] ∧ revCompSpec 2 11 = 1 := by decide
example : specKmers 0 [65] = [(0,0),(0,0)] ∧ revCompSpec 0 0 = 0 := by decide

theorem kmers_snd_eq_revComp (k : Nat) (s : List Nat) (hk1 : 1 ≤ k) (hk : k ≤ 31) : ∀ p ∈ kmers k s, p.2 = revComp k p.1 := by
  intro p hp
  have hlt := kmerGen_lt k s hk1 hk p hp
  rw [kmerGen_eq_spec k s hk1 hk] at hp
  rw [revComp_eq_spec k p.1 hk hlt.1]
  exact specKmers_snd k s p hp

example : (11, 1) ∈ kmers 2 [65,67,78,71,84,84] ∧ revComp 2 11 = 1 := by decide

theorem specKmers_rcSeq (k : Nat) (s : List Nat) (hk1 : 1 ≤ k) : specKmers k (rcSeq s) = (specKmers k s).reverse.map Prod.swap :=
  have _ := hk1  -- also holds for k = 0
  specKmers_rcSeq' k s

example : rcSeq [65,67,78,71,84,84] = [65,65,67,78,71,84] ∧
    specKmers 2 [65,65,67,78,71,84] = [(0,15),(1,11),(11,1)] ∧
    specKmers 2 [65,67,78,71,84,84] = [(1,11),(11,1),(15,0)] := by decide

theorem kmers_rcSeq (k : Nat) (s : List Nat) (hk1 : 1 ≤ k) (hk : k ≤ 31) : kmers k (rcSeq s) = (kmers k s).reverse.map Prod.swap := by
  rw [kmerGen_eq_spec k _ hk1 hk, kmerGen_eq_spec k _ hk1 hk, specKmers_rcSeq k s hk1]

example : kmers 2 (rcSeq [65,67,78,71,84,84]) = [(0,15),(1,11),(11,1)] := by decide

theorem canons_rcSeq_perm (k : Nat) (s : List Nat) (hk1 : 1 ≤ k) : (canons k (rcSeq s)).Perm (canons k s) := by
  have _ := hk1  -- also holds for k = 0
  rw [canons_rcSeq]; exact List.reverse_perm _

example : canons 2 [65,67,78,71,84,84] = [1,1,0] ∧ canons 2 (rcSeq [65,67,78,71,84,84]) = [0,1,1] := by decide

end KT
