import KtVerif.Model.Display
import KtVerif.Proofs.Display
/-!
# `format!("{}", x)` of a non-negative finite `f64` reads back as the same double

Property theorems only; helpers live in `KtVerif/Proofs/Display.lean` (namespace `KT.Disp`).
A scaled double is the natural number `n` meaning `n · 2^-1074`.  `decToF64 D e` is the double nearest to `D · 10^e`
(ties to even), `parseF64` the reader for the positional syntax, `f64Display` Rust's `Display`.
-/
namespace KT

/-- `n` is a (non-negative) double in scaled units: at most 53 significant bits -/
def IsF64 (n : Nat) : Prop := ∃ m j, m < 2 ^ 53 ∧ n = m * 2 ^ j

/-- whatever the search returns reads back as `n` -/
theorem shortestAt_sound (n d D : Nat) (e : Int) (h : shortestAt n d = some (D, e)) : decToF64 D e = n :=
  Disp.shortestAt_sound n d D e h

/-- the digits and exponent that are printed denote a decimal that rounds to `n` -/
theorem shortestDec_sound (n : Nat) (hn : IsF64 n) : decToF64 (shortestDec n).1 (shortestDec n).2 = n :=
  Disp.shortestDec_sound n hn

/-- reading the positional text gives the double nearest to `D · 10^e` -/
theorem parse_positional (D : Nat) (e : Int) : parseF64 (positional D e) = some (decToF64 D e) :=
  Disp.parse_positional D e

/-- THE ROUND TRIP: the printed text of every double reads back as that double -/
theorem display_roundtrip (n : Nat) (hn : IsF64 n) : parseF64 (f64Display n) = some n :=
  Disp.display_roundtrip n hn

/-- completeness of one search step: if ANY non-zero decimal with `d` digits' worth of precision (last digit at
exponent `dec10Exp n - d + 1`) reads back as `n`, the step finds one — so `shortestFrom` stops at the first digit count
for which a round-tripping decimal exists, i.e. the output is a shortest one -/
theorem shortestAt_complete (n d D' : Nat) (hn : 0 < n) (hD : decToF64 D' (dec10Exp n - (d : Int) + 1) = n) :
    (shortestAt n d).isSome :=
  Disp.shortestAt_complete n d D' hn hD

/-- `shortestFrom` returns the result of the first successful step -/
theorem shortestFrom_first (n fuel d0 : Nat) (r : Nat × Int) (h : shortestFrom n fuel d0 = some r) :
    ∃ d, d0 ≤ d ∧ d < d0 + fuel ∧ shortestAt n d = some r ∧ ∀ d', d0 ≤ d' → d' < d → shortestAt n d' = none :=
  Disp.shortestFrom_first n fuel d0 r h

/-! ## non-vacuity -/

example : IsF64 3 := ⟨3, 0, by decide, by decide⟩

example : IsF64 (3 * 2 ^ 1073) := ⟨3, 1073, by decide, rfl⟩

example : digitsVal [49, 50, 53] = 125 := by decide

example : allDigits [48, 53] = true := by decide

example : positional 125 1 = [49, 50, 53, 48] := by decide

example : positional 125 (-2) = [49, 46, 50, 53] := by decide

example : positional 5 (-3) = [48, 46, 48, 48, 53] := by decide

example : stripZeros 1100 2500 (-4) = (25, -2) := by decide

example : parseF64 [48, 46, 53] = some (decToF64 5 (-1)) := by rfl

example : parseF64 [49, 50] = some (decToF64 12 0) := by rfl

example : parseF64 [49, 46] = none := by decide

example : parseF64 (positional 5 (-1)) = some (decToF64 5 (-1)) := parse_positional 5 (-1)

/-- the hypothesis of `shortestFrom_first` is satisfiable only through a successful step, and the conclusion pins it -/
example (n : Nat) (r : Nat × Int) (h : shortestFrom n 17 1 = some r) : decToF64 r.1 r.2 = n := by
  obtain ⟨d, _, _, h3, _⟩ := shortestFrom_first n 17 1 r h
  exact shortestAt_sound n d r.1 r.2 h3

end KT
