import KtVerif.Spec.Cli
import KtVerif.Proofs.CliFS
/-!
# C17: the output files on disk do not depend on what was there before

`FS` is an association list path ↦ content; `write` is create-or-truncate-then-write, `delete` removes.
A `ctr` run is the counting phase (every chunk dumps every partition) followed by the merge (reads
`part < P, chunk < C`, writes the counts table, deletes what it read); a `cov` run adds the vectors
file.  Property theorems only; helpers live in `KtVerif/Proofs/CliFS.lean` (namespace `KT.Cl`).
-/
namespace KT

theorem write_read (fs : FS) (p : Path) (c : List Nat) : (fs.write p c).read p = some c :=
  Cl.write_read fs p c

theorem write_read_other (fs : FS) (p q : Path) (c : List Nat) (h : q ≠ p) : (fs.write p c).read q = fs.read q :=
  Cl.write_read_other fs p q c h

theorem delete_read (fs : FS) (p : Path) : (fs.delete p).read p = none :=
  Cl.delete_read fs p

theorem delete_read_other (fs : FS) (p q : Path) (h : q ≠ p) : (fs.delete p).read q = fs.read q :=
  Cl.delete_read_other fs p q h

example : (FS.write [(.out, [1]), (.other 0, [2]), (.out, [3])] .out [9]) = [(.out, [9]), (.other 0, [2])] := by decide
example : (FS.delete [(.out, [1]), (.other 0, [2]), (.out, [3])] .out).read .out = none := by decide
example : (FS.read [(.out, [1]), (.out, [3])] .out) = some [1] := by decide

/-- a single-file subcommand: the output file does not depend on what was there before -/
theorem fileRun_independent (content : List Nat) (fs fs' : FS) : (fileRun content fs).read .out = (fileRun content fs').read .out := by
  unfold fileRun
  rw [write_read, write_read]

example : (fileRun [7, 8] [(.out, [1, 2, 3, 4, 5])]).read .out = some [7, 8] ∧ (fileRun [7, 8] []).read .out = some [7, 8] := by
  decide

/-- every temporary file that merge reads was written by the counting phase of THIS run -/
theorem reads_own_writes (P C : Nat) (dump : Nat → Nat → List Nat) (fs : FS) (p c : Nat) (hp : p < P) (hc : c < C) :
    (countPhase P C dump fs).read (.temp p c) = some (dump p c) :=
  Cl.countPhase_read_temp P C dump fs p c hp hc

theorem mem_mergeReads (P C : Nat) (q : Path) : q ∈ mergeReads P C ↔ ∃ p c, p < P ∧ c < C ∧ q = .temp p c :=
  Cl.mem_mergeReads P C q

example : mergeReads 2 2 = [.temp 0 0, .temp 0 1, .temp 1 0, .temp 1 1] := by decide
example : mergeReads 0 3 = [] ∧ mergeReads 3 0 = [] := by decide

/-- …and it is the combination of exactly this run's dumps -/
theorem ctrRun_counts (P C : Nat) (dump : Nat → Nat → List Nat) (combine : List (Option (List Nat)) → List Nat) (fs : FS) :
    (ctrRun P C dump combine fs).read .counts =
      some (combine ((List.range P).flatMap fun p => (List.range C).map fun c => some (dump p c))) :=
  Cl.ctrRun_counts P C dump combine fs

/-- the counts table does not depend on the initial disk state (stale tables, left-over chunk files of runs with more chunks or partitions) -/
theorem ctrRun_result_independent (P C : Nat) (dump : Nat → Nat → List Nat) (combine : List (Option (List Nat)) → List Nat) (fs fs' : FS) :
    (ctrRun P C dump combine fs).read .counts = (ctrRun P C dump combine fs').read .counts := by
  rw [ctrRun_counts, ctrRun_counts]

/-- no temporary chunk file of this run survives the merge -/
theorem ctrRun_no_temp_left (P C : Nat) (dump : Nat → Nat → List Nat) (combine : List (Option (List Nat)) → List Nat) (fs : FS)
    (p c : Nat) (hp : p < P) (hc : c < C) : (ctrRun P C dump combine fs).read (.temp p c) = none :=
  Cl.ctrRun_no_temp_left P C dump combine fs p c hp hc

/-- files the run does not own are left alone -/
theorem ctrRun_other_untouched (P C : Nat) (dump : Nat → Nat → List Nat) (combine : List (Option (List Nat)) → List Nat) (fs : FS) (n : Nat) :
    (ctrRun P C dump combine fs).read (.other n) = fs.read (.other n) :=
  Cl.ctrRun_other_untouched P C dump combine fs n

theorem covRun_result_independent (P C : Nat) (dump : Nat → Nat → List Nat) (combine : List (Option (List Nat)) → List Nat)
    (vectors : Option (List Nat) → List Nat) (fs fs' : FS) :
    (covRun P C dump combine vectors fs).read .vectors = (covRun P C dump combine vectors fs').read .vectors ∧
    (covRun P C dump combine vectors fs).read .counts = (covRun P C dump combine vectors fs').read .counts := by
  unfold covRun
  constructor
  · rw [write_read, write_read, ctrRun_result_independent P C dump combine fs fs']
  · rw [write_read_other _ _ _ _ (by decide), write_read_other _ _ _ _ (by decide),
      ctrRun_result_independent P C dump combine fs fs']

/-- running the same command twice gives the same result files as running it once -/
theorem ctrRun_idempotent (P C : Nat) (dump : Nat → Nat → List Nat) (combine : List (Option (List Nat)) → List Nat) (fs : FS) :
    (ctrRun P C dump combine (ctrRun P C dump combine fs)).read .counts = (ctrRun P C dump combine fs).read .counts :=
  ctrRun_result_independent P C dump combine _ fs

/-! ## non-vacuity: a disk holding a stale table, stale chunk files of a larger run, and a bystander -/

/-- the dump of (partition, chunk) and a `combine` that concatenates what it could read (a missing file shows as 99) -/
def exDump (p c : Nat) : List Nat := [10 * p + c]
def exCombine (l : List (Option (List Nat))) : List Nat := l.flatMap fun o => o.getD [99]
def exStale : FS := [(.counts, [5, 5, 5]), (.temp 0 0, [77]), (.temp 1 1, [78]), (.temp 2 0, [79]), (.temp 0 3, [80]), (.other 4, [1])]

example : ctrRun 2 2 exDump exCombine exStale =
    [(.counts, [0, 1, 10, 11]), (.temp 2 0, [79]), (.temp 0 3, [80]), (.other 4, [1])] := by decide
example : (ctrRun 2 2 exDump exCombine exStale).read .counts = (ctrRun 2 2 exDump exCombine []).read .counts := by decide
example : (ctrRun 2 2 exDump exCombine exStale).read (.temp 1 1) = none ∧
    (ctrRun 2 2 exDump exCombine exStale).read (.other 4) = some [1] := by decide
/-- chunk files outside `part < P, chunk < C` are neither read nor deleted -/
example : (ctrRun 2 2 exDump exCombine exStale).read (.temp 2 0) = some [79] := by decide
/-- degenerate: no partitions or no chunks — the table is `combine []`, nothing is deleted -/
example : ctrRun 0 3 exDump exCombine exStale = (.counts, []) :: exStale.tail ∧
    (ctrRun 3 0 exDump exCombine exStale).read .counts = some [] := by decide
example : (covRun 2 1 exDump exCombine (fun o => o.getD [] ++ [0]) exStale).read .vectors = some [0, 10, 0] ∧
    (covRun 2 1 exDump exCombine (fun o => o.getD [] ++ [0]) exStale).read .counts = some [0, 10] := by decide
/-- without the counting phase the merge WOULD read stale files: the counting phase is what makes the result independent -/
example : (mergePhase 2 2 true exCombine exStale).read .counts = some [77, 99, 99, 78] := by decide

end KT
