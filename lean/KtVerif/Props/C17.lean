import KtVerif.Spec.Cli
import KtVerif.Proofs.CliFS
/-!
# C17: the output files on disk do not depend on what was there before

`FS` is an association list path ↦ content; `write` is create-or-truncate-then-write, `delete` removes.
A `ctr` run is the counting phase (every chunk dumps every partition) followed by the merge (reads
`part < P, chunk < C`, writes the counts table, deletes what it read); a `cov` run adds the vectors
file.  Property theorems only; helpers live in `KtVerif/Proofs/CliFS.lean` (namespace `KT.Cl`).
-/
namespace KT

theorem write_read (fs : FS) (p : Path) (c : List Nat) : (fs.write p c).read p = some c :=
  Cl.write_read fs p c

theorem write_read_other (fs : FS) (p q : Path) (c : List Nat) (h : q ≠ p) : (fs.write p c).read q = fs.read q :=
  Cl.write_read_other fs p q c h

theorem delete_read (fs : FS) (p : Path) : (fs.delete p).read p = none :=
  Cl.delete_read fs p

theorem delete_read_other (fs : FS) (p q : Path) (h : q ≠ p) : (fs.delete p).read q = fs.read q :=
  Cl.delete_read_other fs p q h

example : (FS.write [(.out, [1]), (.other 0, [2]), (.out, [3])] .out [9]) = [(.out, [9]), (.other 0, [2])] := by decide
example : (FS.delete [(.out, [1]), (.other 0, [2]), (.out, [3])] .out).read .out = none := by decide
example : (FS.read [(.out, [1]), (.out, [3])] .out) = some [1] := by decide

/-- a single-file subcommand: the output file does not depend on what was there before -/
theorem fileRun_independent (content : List Nat) (fs fs' : FS) : (fileRun content fs).read .out = (fileRun content fs').read .out := by
  unfold fileRun
  rw [write_read, write_read]

example : (fileRun [7, 8] [(.out, [1, 2, 3, 4, 5])]).read .out = some [7, 8] ∧ (fileRun [7, 8] []).read .out = some [7, 8] := by
  decide

/-- every temporary file that merge reads was written by the counting phase of THIS run -/
theorem reads_own_writes (P C : Nat) (dump : Nat → Nat → List Nat) (fs : FS) (p c : Nat) (hp : p < P) (hc : c < C) :
    (countPhase P C dump fs).read (.temp p c) = some (dump p c) :=
  Cl.countPhase_read_temp P C dump fs p c hp hc

theorem mem_mergeReads (P C : Nat) (q : Path) : q ∈ mergeReads P C ↔ ∃ p c, p < P ∧ c < C ∧ q = .temp p c :=
  Cl.mem_mergeReads P C q

example : mergeReads 2 2 = [.temp 0 0, .temp 0 1, .temp 1 0, .temp 1 1] := by decide
example : mergeReads 0 3 = [] ∧ mergeReads 3 0 = [] := by decide

/-- …and it is the combination of exactly this run's dumps -/
theorem ctrRun_counts (P C : Nat) (dump : Nat → Nat → List Nat) (combine : List (Option (List Nat)) → List Nat) (fs : FS) :
    (ctrRun P C dump combine fs).read .counts =
      some (combine ((List.range P).flatMap fun p => (List.range C).map fun c => some (dump p c))) :=
  Cl.ctrRun_counts P C dump combine fs

/-- the counts table does not depend on the initial disk state (stale tables, left-over chunk files of runs with more chunks or partitions) -/
theorem ctrRun_result_independent (P C : Nat) (dump : Nat → Nat → List Nat) (combine : List (Option (List Nat)) → List Nat) (fs fs' : FS) :
    (ctrRun P C dump combine fs).read .counts = (ctrRun P C dump combine fs').read .counts := by
  rw [ctrRun_counts, ctrRun_counts]

/-- no temporary chunk file of this run survives the merge -/
theorem ctrRun_no_temp_left (P C : Nat) (dump : Nat → Nat → List Nat) (combine : List (Option (List Nat)) → List Nat) (fs : FS)
    (p c : Nat) (hp : p < P) (hc : c < C) : (ctrRun P C dump combine fs).read (.temp p c) = none :=
  Cl.ctrRun_no_temp_left P C dump combine fs p c hp hc

/-- files the run does not own are left alone -/
theorem ctrRun_other_untouched (P C : Nat) (dump : Nat → Nat → List Nat) (combine : List (Option (List Nat)) → List Nat) (fs : FS) (n : Nat) :
    (ctrRun P C dump combine fs).read (.other n) = fs.read (.other n) :=
  Cl.ctrRun_other_untouched P C dump combine fs n

theorem covRun_result_independent (P C : Nat) (dump : Nat → Nat → List Nat) (combine : List (Option (List Nat)) → List Nat)
    (vectors : Option (List Nat) → List Nat) (fs fs' : FS) :
    (covRun P C dump combine vectors fs).read .vectors = (covRun P C dump combine vectors fs').read .vectors ∧
    (covRun P C dump combine vectors fs).read .counts = (covRun P C dump combine vectors fs').read .counts := by
  unfold covRun
  constructor
  · rw [write_read, write_read, ctrRun_result_independent P C dump combine fs fs']
  · rw [write_read_other _ _ _ _ (by decide), write_read_other _ _ _ _ (by decide),
      ctrRun_result_independent P C dump combine fs fs']

/-- running the same command twice gives the same result files as running it once -/
theorem ctrRun_idempotent (P C : Nat) (dump : Nat → Nat → List Nat) (combine : List (Option (List Nat)) → List Nat) (fs : FS) :
    (ctrRun P C dump combine (ctrRun P C dump combine fs)).read .counts = (ctrRun P C dump combine fs).read .counts :=
  ctrRun_result_independent P C dump combine _ fs

/-! ## library histories: `count(); merge(delete)` for any `delete`, repeated runs in one directory -/

theorem ctrRunD_true (P C : Nat) (dump : Nat → Nat → List Nat) (combine : List (Option (List Nat)) → List Nat) (fs : FS) :
    ctrRunD P C true dump combine fs = ctrRun P C dump combine fs :=
  Cl.ctrRunD_true P C dump combine fs

/-- whatever `delete` is and whatever was on the disk (stale tables, chunk files an earlier `merge(false)` left behind,
of runs with more partitions or chunks): the table is the one a fresh directory would get -/
theorem ctrRunD_result_independent (P C : Nat) (d : Bool) (dump : Nat → Nat → List Nat)
    (combine : List (Option (List Nat)) → List Nat) (fs fs' : FS) :
    (ctrRunD P C d dump combine fs).read .counts = (ctrRunD P C d dump combine fs').read .counts := by
  rw [Cl.ctrRunD_counts, Cl.ctrRunD_counts]

/-- …and it does not depend on `delete` either -/
theorem ctrRunD_result_delete_irrelevant (P C : Nat) (d d' : Bool) (dump : Nat → Nat → List Nat)
    (combine : List (Option (List Nat)) → List Nat) (fs : FS) :
    (ctrRunD P C d dump combine fs).read .counts = (ctrRunD P C d' dump combine fs).read .counts := by
  rw [Cl.ctrRunD_counts, Cl.ctrRunD_counts]

/-- a history of two library runs in one directory (any partition / chunk counts, any delete flags): the table is that
of the last run alone in an empty directory -/
theorem ctr_history_two (P1 C1 P2 C2 : Nat) (d1 d2 : Bool) (dump1 dump2 : Nat → Nat → List Nat)
    (combine1 combine2 : List (Option (List Nat)) → List Nat) (fs : FS) :
    (ctrRunD P2 C2 d2 dump2 combine2 (ctrRunD P1 C1 d1 dump1 combine1 fs)).read .counts
      = (ctrRunD P2 C2 d2 dump2 combine2 []).read .counts :=
  ctrRunD_result_independent P2 C2 d2 dump2 combine2 _ []

/-- the same object asked again after `merge(false)`: its second `count()` finds no records (nothing is dumped), the second
merge reads the chunk files the first one kept — the table is the same, for any rendering `combine'` applied to the same inputs -/
theorem remerge_after_keep (P C : Nat) (d : Bool) (dump : Nat → Nat → List Nat)
    (combine combine' : List (Option (List Nat)) → List Nat) (fs : FS) :
    (mergePhase P C d combine' (ctrRunD P C false dump combine fs)).read .counts
      = (ctrRunD P C d dump combine' fs).read .counts :=
  Cl.remerge_after_keep P C d dump combine combine' fs

/-- after `merge(false)` every chunk file of the run is still there with what the run dumped -/
theorem ctrRunD_keep_temp (P C : Nat) (dump : Nat → Nat → List Nat) (combine : List (Option (List Nat)) → List Nat) (fs : FS)
    (p c : Nat) (hp : p < P) (hc : c < C) : (ctrRunD P C false dump combine fs).read (.temp p c) = some (dump p c) :=
  Cl.ctrRunD_keep_temp P C dump combine fs p c hp hc

/-! ## non-vacuity: a disk holding a stale table, stale chunk files of a larger run, and a bystander -/

/-- the dump of (partition, chunk) and a `combine` that concatenates what it could read (a missing file shows as 99) -/
def exDump (p c : Nat) : List Nat := [10 * p + c]
def exCombine (l : List (Option (List Nat))) : List Nat := l.flatMap fun o => o.getD [99]
def exStale : FS := [(.counts, [5, 5, 5]), (.temp 0 0, [77]), (.temp 1 1, [78]), (.temp 2 0, [79]), (.temp 0 3, [80]), (.other 4, [1])]

example : ctrRun 2 2 exDump exCombine exStale =
    [(.counts, [0, 1, 10, 11]), (.temp 2 0, [79]), (.temp 0 3, [80]), (.other 4, [1])] := by decide
example : (ctrRun 2 2 exDump exCombine exStale).read .counts = (ctrRun 2 2 exDump exCombine []).read .counts := by decide
example : (ctrRun 2 2 exDump exCombine exStale).read (.temp 1 1) = none ∧
    (ctrRun 2 2 exDump exCombine exStale).read (.other 4) = some [1] := by decide
/-- chunk files outside `part < P, chunk < C` are neither read nor deleted -/
example : (ctrRun 2 2 exDump exCombine exStale).read (.temp 2 0) = some [79] := by decide
/-- degenerate: no partitions or no chunks — the table is `combine []`, nothing is deleted -/
example : ctrRun 0 3 exDump exCombine exStale = (.counts, []) :: exStale.tail ∧
    (ctrRun 3 0 exDump exCombine exStale).read .counts = some [] := by decide
example : (covRun 2 1 exDump exCombine (fun o => o.getD [] ++ [0]) exStale).read .vectors = some [0, 10, 0] ∧
    (covRun 2 1 exDump exCombine (fun o => o.getD [] ++ [0]) exStale).read .counts = some [0, 10] := by decide
/-- without the counting phase the merge WOULD read stale files: the counting phase is what makes the result independent -/
example : (mergePhase 2 2 true exCombine exStale).read .counts = some [77, 99, 99, 78] := by decide
/-- library histories: a first run with 4 partitions and `merge(false)` on a disk with a stale chunk file of this run's
range (`.temp 0 0`), one outside it (`.temp 3 0`) and a stale table; then a 2-partition run — the table is the second run's alone,
and the first run's left-over chunk files outside `part < 2` are still there -/
def exStale2 : FS := [(.temp 0 0, [77]), (.temp 3 0, [78]), (.counts, [5, 5, 5])]
example : (ctrRunD 2 1 false exDump exCombine (ctrRunD 4 1 false (fun p c => [100 + p + c]) exCombine exStale2)).read .counts = some [0, 10] ∧
    (ctrRunD 2 1 false exDump exCombine []).read .counts = some [0, 10] ∧
    (ctrRunD 2 1 true exDump exCombine exStale2).read .counts = some [0, 10] := by decide
example : ctrRunD 2 1 false exDump exCombine exStale2 = [(.counts, [0, 10]), (.temp 1 0, [10]), (.temp 0 0, [0]), (.temp 3 0, [78])] ∧
    ctrRunD 2 1 true exDump exCombine exStale2 = [(.counts, [0, 10]), (.temp 3 0, [78])] := by decide
/-- re-merge after `merge(false)` reads the kept chunk files; after `merge(true)` it would find nothing (99 = missing) -/
example : (mergePhase 2 1 true exCombine (ctrRunD 2 1 false exDump exCombine exStale2)).read .counts = some [0, 10] ∧
    (mergePhase 2 1 true exCombine (ctrRunD 2 1 true exDump exCombine exStale2)).read .counts = some [99, 99] := by decide

end KT
