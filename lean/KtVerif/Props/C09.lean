import KtVerif.Proofs.MinimiserSim
import KtVerif.Proofs.MinimiserRuns
/-!
# C09: the minimiser iterator emits exactly the maximal runs of the specification

`minimisers w m s` is the code-shaped model of `MinimiserGenerator::new(seq, w, m).collect()`;
`specRuns w m s` groups the window minimisers of the specification into maximal runs.

Proof structure (helpers in `KtVerif/Proofs/Minimiser*.lean`, namespace `KT.Min`):
* `MinimiserBits`    – shifts / masks / xor of the registers as arithmetic (needs `m ≤ 31`);
* `MinimiserCodes`   – `enc`, `rcEnc`, the registers as folds, clean suffix of the consumed prefix;
* `MinimiserLeftMin` – leftmost-minimum bookkeeping of the ring buffer (rescan, slide);
* `MinimiserWindow`  – windows of the specification in terms of the clean suffix;
* `MinimiserNaive`   – a per-byte run machine and `specRuns = naive`;
* `MinimiserSim`     – invariant of `MG.step` (one lemma per branch) and `MG.run = naive`.
-/
namespace KT
open KT.Min

theorem minimisers_eq_specRuns (w m : Nat) (s : List Nat) (hm1 : 1 ≤ m) (hmw : m ≤ w) (hm : m ≤ 31) :
    minimisers w m s = specRuns w m s := by
  rw [minimisers_eq_naive hm1 hmw hm s, specRuns_eq_naive w m s (by omega)]

theorem specRuns_val_lt (w m : Nat) (s : List Nat) (hm1 : 1 ≤ m) (hmw : m ≤ w) :
    ∀ r ∈ specRuns w m s, r.1 < 4 ^ m := by
  have _ := hm1
  exact specRuns_val_lt' hmw s

theorem minimisers_no_placeholder (w m : Nat) (s : List Nat) (hm1 : 1 ≤ m) (hmw : m ≤ w) (hm : m ≤ 31) :
    ∀ r ∈ minimisers w m s, r.1 ≠ U64MAX := by
  intro r hr
  rw [minimisers_eq_specRuns w m s hm1 hmw hm] at hr
  have h1 := specRuns_val_lt w m s hm1 hmw r hr
  have h2 := pow_lt_U64MAX hm
  omega

theorem specRuns_nil_of_short (w m : Nat) (s : List Nat) (hw : s.length < w) : specRuns w m s = [] := by
  have h0 : s.length + 1 - w = 0 := by omega
  simp [specRuns, winMins, h0, groupRuns]

/-! ## non-vacuity: concrete runs, both sides evaluated -/

-- "ACGTNACGTTA", w = 3, m = 2
example : minimisers 3 2 [65,67,71,84,78,65,67,71,84,84,65] = [(1,0,4),(1,5,9),(0,7,11)] := by decide
example : specRuns 3 2 [65,67,71,84,78,65,67,71,84,84,65] = [(1,0,4),(1,5,9),(0,7,11)] := by decide
-- "AC", w = m = 1 (cap = 1: every step rescans)
example : minimisers 1 1 [65,67] = [(0,0,1),(1,1,2)] := by decide
example : specRuns 1 1 [65,67] = [(0,0,1),(1,1,2)] := by decide
-- w = m = 2, ties and an ambiguous byte first and last: "NACGTN"
example : minimisers 2 2 [78,65,67,71,84,78] = specRuns 2 2 [78,65,67,71,84,78] := by decide
example : minimisers 2 2 [78,65,67,71,84,78] = [(1,1,3),(6,2,4),(1,3,5)] := by decide
-- shorter than the window: nothing
example : minimisers 4 2 [65,67,71] = [] := by decide

end KT
