import KtVerif.Model.Fasta
import KtVerif.Model.MinOut
import KtVerif.Model.Sched
import KtVerif.Proofs.CliDecide
import KtVerif.Props.C04
import KtVerif.Props.C05
import KtVerif.Props.C09
import KtVerif.Props.FloatLemmas
/-!
# C16: degenerate inputs (empty stream, empty / short records, records without a valid window)

Accepted commands are total on every record: no out-of-range index, no overflow in a constructor, no
placeholder value in the output, one row per record, and an all-zero (never NaN) normalised row when
a record has no valid window.  Property theorems only; helpers live in `KtVerif/Proofs/CliDecide.lean`.
-/
namespace KT

/-- an empty stream is zero records in either format (the batched writers fall back to FASTQ) -/
theorem readAll_empty : readAll .fasta [] = ([], ParseStatus.done) ∧ readAll .fastq [] = ([], ParseStatus.done) ∧ sniffFormat [] = none := by
  refine ⟨?_, ?_, rfl⟩
  · simp [readAll, rawRecords, splitLines, splitLinesAux, fastaRecords]
  · simp [readAll, rawRecords, splitLines, splitLinesAux, fastqRecords]

/-- a stream that is not empty but holds no record start panics in the reader: "empty" means zero bytes -/
example : readAll .fasta [10] = ([], ParseStatus.panic) := by
  simp [readAll, rawRecords, splitLines, splitLinesAux, fastaRecords]

/-- accepted oligo / k-mer CGR runs never index out of range, whatever the record -/
theorem oligo_total (k : Nat) (hk : 3 ≤ k ∧ k ≤ 7) (s : List Nat) : oligoSafe (kmerPosMaps k) k s = true :=
  oligo_index_safe k s (by omega) (by omega)

example : oligoSafe (kmerPosMaps 3) 3 [] = true ∧ oligoSafe (kmerPosMaps 3) 3 [65, 67] = true ∧
    oligoSafe (kmerPosMaps 7) 7 [78, 78, 78, 78, 78, 78, 78, 78] = true :=
  ⟨oligo_total 3 (by decide) _, oligo_total 3 (by decide) _, oligo_total 7 (by decide) _⟩

/-- accepted minimiser runs never panic in the generator constructor, whatever the record (incl. records shorter than m, empty records) -/
theorem min_total (m w : Nat) (hm : 7 ≤ m ∧ m ≤ 28) (hw : w = 0 ∨ m < w) (seq : List Nat) : minOutSafe w m seq = true :=
  Cl.minOutSafe_of m w (by omega) (by omega) (by omega) seq

example : minOutSafe 0 7 [] = true ∧ minOutSafe 0 7 [65, 67, 71] = true ∧ minOutSafe 9 7 [] = true := by decide
/-- the refused window sizes are exactly those where `wsize - msize + 1` … `msize ≤ wsize` fails -/
example : minOutSafe 5 7 [65, 67, 71] = false := by decide

theorem effW_ge (w m : Nat) (seq : List Nat) (hw : w = 0 ∨ m ≤ w) : m ≤ effW w m seq :=
  Cl.effW_ge w m seq hw

example : effW 0 7 [] = 7 ∧ effW 0 3 [65, 67, 71, 84, 65] = 5 ∧ effW 9 7 [65] = 9 := by decide

/-- no placeholder is ever emitted: every emitted minimiser value is a real m-mer code -/
theorem no_sentinel (m w : Nat) (hm : 1 ≤ m ∧ m ≤ 31) (hw : w = 0 ∨ m ≤ w) (seq : List Nat) :
    ∀ r ∈ minimisers (effW w m seq) m seq, r.1 < 4 ^ m ∧ r.1 ≠ U64MAX := by
  intro r hr
  have hge := effW_ge w m seq hw
  refine ⟨?_, minimisers_no_placeholder _ m seq hm.1 hge hm.2 r hr⟩
  rw [minimisers_eq_specRuns _ m seq hm.1 hge hm.2] at hr
  exact specRuns_val_lt _ m seq hm.1 hge r hr

/-- a record shorter than the minimiser, an empty record, a record of `N` only: no run at all -/
example : minimisers (effW 0 3 [65, 67]) 3 [65, 67] = [] ∧ minimisers (effW 0 3 []) 3 [] = [] ∧
    minimisers (effW 4 3 [78, 78, 78, 78, 78]) 3 [78, 78, 78, 78, 78] = [] := by decide
example : minimisers (effW 0 2 [65, 67, 71, 84]) 2 [65, 67, 71, 84] = [(1, 0, 4)] := by decide

/-- one row per record for every batch limit -/
theorem rows_eq_records {α : Type} (limit : Nat) (len : α → Nat) (row : α → List Nat) (recs : List α)
    (hrow : ∀ r, (row r).getLast? = some 10 ∧ (row r).count 10 = 1) :
    (batchOutput limit len row recs).count 10 = recs.length := by
  rw [batchOutput_eq]
  induction recs with
  | nil => rfl
  | cons r rs ih =>
    rw [List.map_cons, List.flatten_cons, List.count_append, ih, (hrow r).2, List.length_cons]
    omega

example : (batchOutput 3 List.length (fun r => r ++ [10]) [[], [1, 2, 3], [], [4]]).count 10 = 4 := by decide
example : (batchOutput 0 List.length (fun r => r ++ [10]) ([] : List (List Nat))).count 10 = 0 := by decide

/-- a record without valid window gives an all-zero normalised row (never NaN: division by max(1, total)) -/
theorem normalise_zero (n : Nat) : normalise (List.replicate n 0) 0 = List.replicate n 0 := by
  have h1 : max 1 0 = 1 := rfl
  unfold normalise
  rw [List.map_replicate, h1, f64Div_zero 1 (Nat.le_refl 1) (by omega)]

/-- such a record: shorter than k, or no window free of `N` -/
example : oligoRowSpec 3 [65, 67] = List.replicate 32 0 ∧ windowCount 3 [65, 67] = 0 ∧
    oligoRowSpec 3 [65, 67, 78, 71, 84] = List.replicate 32 0 ∧ windowCount 3 [] = 0 := by decide

end KT
