import KtVerif.Model.Sched
import KtVerif.Proofs.SchedMin
import KtVerif.Props.C05
/-!
# C10 (scheduling part): the two minimiser outputs under every schedule of the worker loop

`seq_to_min` appends one line per record under the writer lock: the output is, as a multiset of
lines, one line per record.  `bin_sequences` upserts into a concurrent map: one entry per distinct
key, whose value list holds exactly the entries of that key, records in effect order.
-/
namespace KT

/-- s2m: whatever the schedule, the output holds exactly one line per record (as a multiset of lines) -/
theorem s2m_any_schedule (N T : Nat) (hT : 0 < T) (line : Nat → List Nat) (sched : List GStep) (s' : GSys (List (List Nat)))
    (hr : GSys.run N (s2mEff line) (GSys.init T []) sched = some s') (ht : s'.terminal = true) :
    s'.sh.Perm ((List.range N).map line) := by
  obtain ⟨hp, hsh⟩ := gsys_any_schedule N T hT (s2mEff line) [] sched s' hr ht
  rw [hsh, Sch.s2m_fold, List.nil_append]
  exact hp.map line

/-- m2s: one entry per distinct key, holding (as a multiset) exactly the (key, entry) pairs of all records -/
theorem m2s_any_schedule {κ ε : Type} [DecidableEq κ] (N T : Nat) (hT : 0 < T) (runs : Nat → List (κ × ε))
    (sched : List GStep) (s' : GSys (List (κ × List ε)))
    (hr : GSys.run N (m2sEff runs) (GSys.init T []) sched = some s') (ht : s'.terminal = true) :
    (s'.sh.map (·.1)).Nodup ∧
    (∀ k, k ∈ s'.sh.map (·.1) ↔ ∃ n, n < N ∧ ∃ p ∈ runs n, p.1 = k) ∧
    (∀ k es, (k, es) ∈ s'.sh →
        es.Perm ((s'.order.flatMap fun n => (runs n).filter (fun p => decide (p.1 = k))).map (·.2))) ∧
    s'.order.Perm (List.range N) := by
  obtain ⟨hp, hsh⟩ := gsys_any_schedule N T hT (m2sEff runs) [] sched s' hr ht
  have hg := Sch.m2s_fold runs s'.order
  rw [← hsh] at hg
  have hmem : ∀ n, n ∈ s'.order ↔ n < N := fun n => by rw [hp.mem_iff, List.mem_range]
  refine ⟨hg.nodup, ?_, ?_, hp⟩
  · intro k
    rw [hg.keys k]
    constructor
    · rintro ⟨p, hpm, e⟩
      obtain ⟨n, hn, hpn⟩ := List.mem_flatMap.mp hpm
      exact ⟨n, (hmem n).mp hn, p, hpn, e⟩
    · rintro ⟨n, hn, p, hpn, e⟩
      exact ⟨p, List.mem_flatMap.mpr ⟨n, (hmem n).mpr hn, hpn⟩, e⟩
  · intro k es hin
    rw [hg.vals k es hin, List.filter_flatMap]

/-! ## non-vacuity -/

/-- s2m, two workers, lines appended out of record order -/
example : ((GSys.run 2 (s2mEff fun n => [n, 10]) (GSys.init 2 [])
    [.take 0, .take 1, .act 1, .act 0, .take 0, .take 1]).map fun s => (s.terminal, s.sh)) =
    some (true, [[1, 10], [0, 10]]) := by decide

/-- m2s: record 0 has runs with keys 7, 8, 7; record 1 has keys 8, 9; effects happen 1 then 0 -/
example : ((GSys.run 2 (m2sEff fun n => if n = 0 then [(7, 100), (8, 101), (7, 102)] else [(8, 200), (9, 201)])
    (GSys.init 2 ([] : List (Nat × List Nat)))
    [.take 0, .take 1, .act 1, .act 0, .take 0, .take 1]).map fun s => (s.terminal, s.order, s.sh)) =
    some (true, [1, 0], [(8, [200, 101]), (9, [201]), (7, [100, 102])]) := by decide

example : upsert 3 (9 : Nat) [(1, [4]), (3, [5])] = [(1, [4]), (3, [5, 9])] := by decide
example : upsert 2 (9 : Nat) [(1, [4]), (3, [5])] = [(1, [4]), (3, [5]), (2, [9])] := by decide

end KT
