import KtVerif.Spec.Vectors
import KtVerif.Model.Vectors
import KtVerif.Proofs.VecCgr
/-!
# C12: the k-mer chaos-game row (`OligoCgrComputer::vectorise_one`)

One `(x, y, f)` triple per canonical k-mer column: `(x, y)` is the end point of the chaos-game walk
over the column's k-mer text, `f` the oligo value of the column.  Property theorems only; helpers
live in `KtVerif/Proofs/VecCgr.lean` (namespace `KT.Vec`), which also has the list-level formulations
`Vec.oligoCgrRow_coords` (`row.map (fun t => some (t.1, t.2.1)) = (canonList k).map (end point)`) and
`Vec.oligoCgrRow_values`.
-/
namespace KT

-- the binder `hj` of the delivered statement `oligoCgrRow_spec` is not referenced in its conclusion
set_option linter.unusedVariables false

/-- the end point of the walk is the last point of the whole-sequence CGR of the same text (or the start point for the empty text) -/
theorem cgrEndLoop_eq_last (S : Nat) (p : Nat × Nat) (t : List Nat) :
    cgrEndLoop S p t = (cgrLoop S p t).map fun l => l.getLastD p :=
  Vec.cgrEndLoop_eq_last' S t p

-- coordinates are doubles scaled by 2^1074: (10, 14) · 2^1072 is the point (2.5, 3.5) of the 4 × 4 square
example : cgrEndLoop 4 (cgrCentre 4) [67, 71] = some (10 * 2 ^ 1072, 14 * 2 ^ 1072) ∧
    cgrLoop 4 (cgrCentre 4) [67, 71] = some [(4 * 2 ^ 1072, 12 * 2 ^ 1072), (10 * 2 ^ 1072, 14 * 2 ^ 1072)] := by
  decide +kernel
example : cgrEndLoop 4 (cgrCentre 4) [] = some (8 * 2 ^ 1072, 8 * 2 ^ 1072) ∧ cgrLoop 4 (cgrCentre 4) [] = some [] := by
  decide +kernel
example : cgrEndLoop 4 (cgrCentre 4) [67, 78] = none ∧ cgrLoop 4 (cgrCentre 4) [67, 78] = none := by
  decide +kernel

theorem oligoCgrRow_isSome (k S : Nat) (norm : Bool) (s : List Nat) (hk : k ≤ 31) :
    (oligoCgrRow (kmerPosMaps k) k S norm s).isSome = true :=
  Vec.oligoCgrRow_isSome' k S norm s hk

/-- triple j = (CGR end point of column j's k-mer text, oligo value of column j) -/
theorem oligoCgrRow_spec (k S : Nat) (norm : Bool) (s : List Nat) (hk1 : 1 ≤ k) (hk : k ≤ 31)
    (row : List (Nat × Nat × Nat)) (h : oligoCgrRow (kmerPosMaps k) k S norm s = some row) :
    row.length = (canonList k).length ∧
    row.map (fun t => t.2.2) = oligoVec (kmerPosMaps k) k norm s ∧
    ∀ j (hj : j < row.length), cgrEndLoop S (cgrCentre S) (decodeSpec k ((canonList k).getD j 0)) = some ((row.getD j (0,0,0)).1, (row.getD j (0,0,0)).2.1) := by
  obtain ⟨hlen, hp⟩ := Vec.oligoCgrRow_pointwise k S norm s hk1 hk row h
  refine ⟨hlen, Vec.oligoCgrRow_values k S norm s hk1 hk row h, ?_⟩
  intro j hj
  have hc : j < (canonList k).length := hlen ▸ hj
  have hf : j < (oligoVec (kmerPosMaps k) k norm s).length := by
    rw [Vec.oligoVec_length k norm s hk1 hk]; exact hc
  rw [List.getD_eq_getElem?_getD, List.getD_eq_getElem?_getD, List.getElem?_eq_getElem hc,
    List.getElem?_eq_getElem hj]
  exact (hp j hj hc hf).1

/-- the coordinates do not depend on the record or on the normalisation flag -/
theorem oligoCgrRow_coords_record_independent (k S : Nat) (n1 n2 : Bool) (s1 s2 : List Nat) (hk1 : 1 ≤ k) (hk : k ≤ 31)
    (r1 r2 : List (Nat × Nat × Nat))
    (h1 : oligoCgrRow (kmerPosMaps k) k S n1 s1 = some r1) (h2 : oligoCgrRow (kmerPosMaps k) k S n2 s2 = some r2) :
    r1.map (fun t => (t.1, t.2.1)) = r2.map (fun t => (t.1, t.2.1)) := by
  have e1 := Vec.oligoCgrRow_coords k S n1 s1 hk1 hk r1 h1
  have e2 := Vec.oligoCgrRow_coords k S n2 s2 hk1 hk r2 h2
  have e : (r1.map fun t => (t.1, t.2.1)).map some = (r2.map fun t => (t.1, t.2.1)).map some := by
    rw [List.map_map, List.map_map]
    exact e1.trans e2.symm
  exact List.map_injective_iff.2 (Option.some_injective _) e

-- the hypotheses `h`, `h1`, `h2` are satisfiable (`kmerPosMaps` goes through `mergeSort`, so the model
-- side is reached through the theorems): a row exists, has one triple per column, and its first
-- triple carries the end point of the text "A" (column 0 of k = 1)
example : ∃ row, oligoCgrRow (kmerPosMaps 1) 1 4 false [65, 67, 71] = some row ∧ row.length = 2 ∧
    ((row.getD 0 (0,0,0)).1, (row.getD 0 (0,0,0)).2.1) = (4 * 2 ^ 1072, 4 * 2 ^ 1072) := by
  have hs := oligoCgrRow_isSome 1 4 false [65, 67, 71] (by decide)
  obtain ⟨row, hrow⟩ := Option.isSome_iff_exists.1 hs
  obtain ⟨hl, _, hc⟩ := oligoCgrRow_spec 1 4 false [65, 67, 71] (by decide) (by decide) row hrow
  have hl2 : row.length = 2 := hl
  refine ⟨row, hrow, hl2, ?_⟩
  have h0 := hc 0 (by omega)
  have hA : cgrEndLoop 4 (cgrCentre 4) (decodeSpec 1 ((canonList 1).getD 0 0)) = some (4 * 2 ^ 1072, 4 * 2 ^ 1072) := by
    decide +kernel
  rw [hA] at h0
  exact (Option.some.inj h0).symm
example : (canonList 1).length = 2 ∧ decodeSpec 1 ((canonList 1).getD 0 0) = [65] ∧
    decodeSpec 1 ((canonList 1).getD 1 0) = [67] := by decide

end KT
