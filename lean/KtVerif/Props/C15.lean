import KtVerif.Spec.Cli
import KtVerif.Model.MinOut
import KtVerif.Model.Vectors
import KtVerif.Proofs.CliDecide
/-!
# C15: the command line — which parameter sets are accepted, and what the options change

`cliDecide` is the documented accept/refuse behaviour (range table of `KtVerif/Tie/Cli.lean`, checked
against the shipped binary).  Every accepted parameter set lies inside the domain of the core
theorems; thread count, presets and flags do not enter the decision; a preset only selects the
delimiter.  Property theorems only; helpers live in `KtVerif/Proofs/CliDecide.lean` (namespace `KT.Cl`).
-/
namespace KT

theorem oligo_run_iff (k : Nat) (c h : Bool) (p : VecPreset) (t : Nat) :
    cliDecide (.oligo k c h p t) = .run ↔ (3 ≤ k ∧ k ≤ 7) :=
  Cl.oligo_run_iff k c h p t

theorem cgr_k_run_iff (k : Nat) (c : Bool) (v : Option Nat) (t : Nat) :
    cliDecide (.cgr (some k) c v t) = .run ↔ (3 ≤ k ∧ k ≤ 7) :=
  Cl.cgr_k_run_iff k c v t

theorem cgr_whole_run_iff (c : Bool) (v : Option Nat) (t : Nat) : cliDecide (.cgr none c v t) = .run ↔ c = false :=
  Cl.cgr_whole_run_iff c v t

theorem cov_run_iff (k bs bc mem : Nat) (c : Bool) (p : VecPreset) (t : Nat) :
    cliDecide (.cov k bs bc mem c p t) = .run ↔ (7 ≤ k ∧ k ≤ 31 ∧ 5 ≤ bs ∧ 5 ≤ bc ∧ 6 ≤ mem ∧ mem ≤ 128) :=
  Cl.cov_run_iff k bs bc mem c p t

theorem min_run_iff (m w : Nat) (p : MinPreset) (t : Nat) :
    cliDecide (.min m w p t) = .run ↔ (7 ≤ m ∧ m ≤ 28 ∧ (w = 0 ∨ m < w)) :=
  Cl.min_run_iff m w p t

theorem ctr_run_iff (k mem : Nat) (a : Bool) (t : Nat) :
    cliDecide (.ctr k mem a t) = .run ↔ (10 ≤ k ∧ k ≤ 31 ∧ 6 ≤ mem ∧ mem ≤ 128) :=
  Cl.ctr_run_iff k mem a t

example : cliDecide (.oligo 8 false false .csv 0) = .refuseRange "k-size" := by decide
example : cliDecide (.oligo 2 false false .csv 0) = .refuseRange "k-size" := by decide
example : cliDecide (.oligo 3 true true .tsv 4) = .run ∧ cliDecide (.oligo 7 false false .spc 0) = .run := by decide
example : cliDecide (.cgr (some 8) false none 0) = .refuseRange "k-size" := by decide
example : cliDecide (.cgr none true none 0) = .refuseMsg "cannot use counts in whole sequence CGR" := by decide
example : cliDecide (.cgr none false (some 64) 0) = .run := by decide
example : cliDecide (.cov 6 5 5 6 false .csv 0) = .refuseRange "k-size" := by decide
example : cliDecide (.cov 15 4 5 6 false .csv 0) = .refuseRange "bin-size" := by decide
example : cliDecide (.cov 15 5 4 6 false .csv 0) = .refuseRange "bin-count" := by decide
example : cliDecide (.cov 15 5 5 129 false .csv 0) = .refuseRange "memory" := by decide
example : cliDecide (.cov 15 5 5 5 false .csv 0) = .refuseRange "memory" := by decide
example : cliDecide (.cov 31 5 5 128 true .spc 8) = .run := by decide
example : cliDecide (.min 7 5 .s2m 0) = .refuseMsg "Window size must be longer than minimiser size" := by decide
example : cliDecide (.min 7 7 .s2m 0) = .refuseMsg "Window size must be longer than minimiser size" := by decide
example : cliDecide (.min 6 0 .s2m 0) = .refuseRange "m-size" ∧ cliDecide (.min 29 40 .m2s 0) = .refuseRange "m-size" := by decide
example : cliDecide (.min 7 0 .s2m 0) = .run ∧ cliDecide (.min 28 29 .m2s 3) = .run := by decide
example : cliDecide (.ctr 9 6 false 0) = .refuseRange "k-size" ∧ cliDecide (.ctr 10 5 false 0) = .refuseRange "memory" := by decide
example : cliDecide (.ctr 10 6 true 0) = .run ∧ cliDecide (.ctr 31 128 false 2) = .run := by decide

/-- every accepted parameter set lies in the domain of the core theorems (no overflow panic in any constructor) -/
theorem accepted_in_core_domain (cmd : Cmd) (h : cliDecide cmd = .run) :
    match cmd with
    | .oligo k _ _ _ _ => kmerNewSafe k = true
    | .cgr (some k) _ _ _ => kmerNewSafe k = true
    | .cgr none _ _ _ => True
    | .cov k _ bc _ _ _ _ => kmerNewSafe k = true ∧ covSafe bc = true
    | .min m w _ _ => ∀ seq, minOutSafe w m seq = true
    | .ctr k _ _ _ => kmerNewSafe k = true := by
  rcases cmd with ⟨k, c, hd, p, t⟩ | ⟨_ | k, c, v, t⟩ | ⟨k, bs, bc, mem, c, p, t⟩ | ⟨m, w, p, t⟩ | ⟨k, mem, a, t⟩
  · have := (oligo_run_iff k c hd p t).mp h
    exact Cl.kmerNewSafe_of k (by omega) (by omega)
  · trivial
  · have := (cgr_k_run_iff k c v t).mp h
    exact Cl.kmerNewSafe_of k (by omega) (by omega)
  · have := (cov_run_iff k bs bc mem c p t).mp h
    refine ⟨Cl.kmerNewSafe_of k (by omega) (by omega), ?_⟩
    unfold covSafe
    rw [decide_eq_true_iff]; omega
  · have := (min_run_iff m w p t).mp h
    intro seq
    exact Cl.minOutSafe_of m w (by omega) (by omega) (by omega) seq
  · have := (ctr_run_iff k mem a t).mp h
    exact Cl.kmerNewSafe_of k (by omega) (by omega)

/-- outside the accepted range the constructor WOULD overflow: the refusal is what keeps the run in the domain -/
example : kmerNewSafe 32 = false ∧ kmerNewSafe 0 = false ∧ covSafe 0 = false ∧ minOutSafe 5 7 [65, 67] = false := by decide
example : minOutSafe 0 7 [] = true ∧ minOutSafe 0 7 [65, 67] = true ∧ minOutSafe 8 7 [] = true := by decide

/-- the thread option never enters the decision -/
theorem decision_ignores_threads_oligo (k : Nat) (c h : Bool) (p : VecPreset) (t t' : Nat) :
    cliDecide (.oligo k c h p t) = cliDecide (.oligo k c h p t') := rfl

theorem decision_ignores_threads_min (m w : Nat) (p : MinPreset) (t t' : Nat) :
    cliDecide (.min m w p t) = cliDecide (.min m w p t') := rfl

/-- presets, header flag, counts flag do not enter the oligo decision -/
theorem decision_ignores_flags_oligo (k : Nat) (c c' h h' : Bool) (p p' : VecPreset) (t : Nat) :
    cliDecide (.oligo k c h p t) = cliDecide (.oligo k c' h' p' t) := rfl

theorem delimOf_values : delimOf .csv = [44] ∧ delimOf .tsv = [9] ∧ delimOf .spc = [32] := ⟨rfl, rfl, rfl⟩

/-- a preset only changes the delimiter: a row is its cells joined by the delimiter plus a newline, and the cells do not depend on it -/
theorem rowText_cells (norm : Bool) (delim : List Nat) (counts : List Nat) (total : Nat) :
    rowText norm delim counts total =
      joinBytes delim (if norm then (normalise counts total).map fmt6 else counts.map natText) ++ [10] := rfl

/-- counts and default output differ exactly by per-row normalisation -/
theorem normalise_spec (counts : List Nat) (total : Nat) :
    normalise counts total = counts.map fun c => f64Div (f64OfNat c) (f64OfNat (max 1 total)) := rfl

theorem defaultVecSize_sq (k : Nat) : defaultVecSize k = k * k := rfl

example : rowText false (delimOf .csv) [3, 0, 12] 15 = [51, 44, 48, 44, 49, 50, 10] := by decide
example : rowText false (delimOf .tsv) [3, 0, 12] 15 = [51, 9, 48, 9, 49, 50, 10] := by decide
example : rowText false (delimOf .spc) [] 0 = [10] := by decide
example : defaultVecSize 5 = 25 := by decide

/-- every refused command is refused for a documented reason only -/
theorem refuse_range_reason (cmd : Cmd) (o : String) (h : cliDecide cmd = .refuseRange o) :
    o = "k-size" ∨ o = "bin-size" ∨ o = "bin-count" ∨ o = "memory" ∨ o = "m-size" :=
  Cl.refuse_range_reason cmd o h

/-- each of the five reasons occurs -/
example : cliDecide (.oligo 8 false false .csv 0) = .refuseRange "k-size" ∧
    cliDecide (.cov 15 4 5 6 false .csv 0) = .refuseRange "bin-size" ∧
    cliDecide (.cov 15 5 4 6 false .csv 0) = .refuseRange "bin-count" ∧
    cliDecide (.ctr 10 200 false 0) = .refuseRange "memory" ∧
    cliDecide (.min 30 0 .s2m 0) = .refuseRange "m-size" := by decide

end KT
