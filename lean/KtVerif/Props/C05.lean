import KtVerif.Model.Sched
import KtVerif.Proofs.SchedInv
import KtVerif.Proofs.SchedMmap
import KtVerif.Proofs.SchedBatch
/-!
# C05: the two writer strategies (memory-mapped positional writes under any schedule; batched
sequential writes under any memory limit) produce the same file: header, then rows in record order
-/
namespace KT

/-- any schedule: at a terminal state every record's effect happened exactly once -/
theorem gsys_any_schedule {σ : Type} (N T : Nat) (hT : 0 < T) (eff : Nat → σ → σ) (sh0 : σ)
    (sched : List GStep) (s' : GSys σ)
    (hr : GSys.run N eff (GSys.init T sh0) sched = some s') (ht : s'.terminal = true) :
    s'.order.Perm (List.range N) ∧ s'.sh = s'.order.foldl (fun a n => eff n a) sh0 := by
  obtain ⟨hnd, hm, hsh⟩ := Sch.terminal_facts N T hT eff sh0 sched s' hr ht
  exact ⟨Sch.perm_range_of hnd hm, hsh⟩

/-- with pairwise commuting effects the final state is the sequential one, for every schedule -/
theorem gsys_commute {σ : Type} (N T : Nat) (hT : 0 < T) (eff : Nat → σ → σ) (sh0 : σ)
    (hc : ∀ i j a, i ≠ j → eff i (eff j a) = eff j (eff i a))
    (sched : List GStep) (s' : GSys σ)
    (hr : GSys.run N eff (GSys.init T sh0) sched = some s') (ht : s'.terminal = true) :
    s'.sh = (List.range N).foldl (fun a n => eff n a) sh0 := by
  obtain ⟨hp, hsh⟩ := gsys_any_schedule N T hT eff sh0 sched s' hr ht
  rw [hsh]
  apply List.Perm.foldl_eq' hp
  intro x _ y _ z
  by_cases e : y = x
  · subst e; rfl
  · exact hc y x z e

/-- every schedule of the mmap writer leaves header ++ rows in record order -/
theorem mmap_any_schedule (T : Nat) (hT : 0 < T) (hdr : List Nat) (rows : List (List Nat)) (L : Nat)
    (hL : ∀ r ∈ rows, r.length = L) (sched : List GStep) (s' : GSys Cells)
    (hr : GSys.run rows.length (mmapEff hdr.length (fun n => rows.getD n []))
            (GSys.init T (mmapInit (rows.length * L + hdr.length) hdr)) sched = some s')
    (ht : s'.terminal = true) :
    s'.sh = mmapExpected hdr rows := by
  obtain ⟨hp, hsh⟩ := gsys_any_schedule _ T hT _ _ sched s' hr ht
  rw [hsh]
  exact Sch.fold_perm_expected hdr rows L hL s'.order hp

theorem batchLoop_flatten {α : Type} (limit : Nat) (len : α → Nat) (recs : List α) :
    (batchLoop limit len recs).flatten = recs := by
  unfold batchLoop
  rw [Sch.batchLoopAux_flatten]; rfl

theorem batchLoop_nonempty {α : Type} (limit : Nat) (len : α → Nat) (recs : List α) :
    ∀ b ∈ batchLoop limit len recs, b ≠ [] :=
  Sch.batchLoopAux_nonempty limit len recs [] 0

/-- any batch limit: the batched path writes the rows in record order -/
theorem batchOutput_eq {α : Type} (limit : Nat) (len : α → Nat) (row : α → List Nat) (recs : List α) :
    batchOutput limit len row recs = (recs.map row).flatten := by
  unfold batchOutput
  rw [Sch.flatten_map_flatten, batchLoop_flatten]

/-- both writer strategies produce the same bytes -/
theorem paths_agree (T : Nat) (hT : 0 < T) (hdr : List Nat) (recs : List (List Nat)) (row : List Nat → List Nat) (L limit : Nat)
    (hL : ∀ r ∈ recs, (row r).length = L) (sched : List GStep) (s' : GSys Cells)
    (hr : GSys.run recs.length (mmapEff hdr.length (fun n => (recs.map row).getD n []))
            (GSys.init T (mmapInit (recs.length * L + hdr.length) hdr)) sched = some s')
    (ht : s'.terminal = true) :
    s'.sh = (hdr ++ batchOutput limit List.length row recs).map some := by
  have hL' : ∀ r ∈ recs.map row, r.length = L := by
    intro r hr
    obtain ⟨a, ha, rfl⟩ := List.mem_map.mp hr
    exact hL a ha
  have h := mmap_any_schedule T hT hdr (recs.map row) L hL' sched s'
  simp only [List.length_map] at h
  rw [h hr ht, batchOutput_eq]; rfl

/-! ## non-vacuity -/

/-- two workers, two records, effects happen out of order; the run is defined and terminal -/
example : ((GSys.run 2 (fun n (a : List Nat) => a ++ [n]) (GSys.init 2 [])
    [.take 0, .take 1, .act 1, .act 0, .take 0, .take 1]).map
      fun s => (s.terminal, s.order, s.sh, s.next)) = some (true, [1, 0], [1, 0], 2) := by decide

/-- a disabled step (worker 0 acts while idle) makes the run undefined -/
example : ((GSys.run 2 (fun n (a : List Nat) => a ++ [n]) (GSys.init 2 []) [.act 0]).isSome) = false := by
  decide

/-- the mmap writer with rows written in reverse order -/
example : ((GSys.run 2 (mmapEff 2 (fun n => [[1, 2, 3], [4, 5, 6]].getD n []))
    (GSys.init 2 (mmapInit (2 * 3 + 2) [8, 9]))
    [.take 0, .take 1, .act 1, .act 0, .take 0, .take 1]).map fun s => (s.terminal, s.sh)) =
    some (true, mmapExpected [8, 9] [[1, 2, 3], [4, 5, 6]]) := by decide

/-- degenerate: no records, one worker -/
example : ((GSys.run 0 (mmapEff 0 (fun n => ([] : List (List Nat)).getD n []))
    (GSys.init 1 (mmapInit (0 * 7 + 0) [])) [.take 0]).map fun s => (s.terminal, s.sh)) =
    some (true, []) := by decide

/-- degenerate: all rows empty (`L = 0`) -/
example : ((GSys.run 2 (mmapEff 1 (fun n => [[], []].getD n []))
    (GSys.init 1 (mmapInit (2 * 0 + 1) [7])) [.take 0, .act 0, .take 0, .act 0, .take 0]).map
      fun s => (s.terminal, s.sh)) = some (true, [some 7]) := by decide

example : batchLoop 5 List.length [[1, 2, 3], [4, 5, 6], [7]] = [[[1, 2, 3], [4, 5, 6]], [[7]]] := by decide
example : batchLoop 0 List.length [[1, 2, 3], [4, 5, 6], [7]] = [[[1, 2, 3]], [[4, 5, 6]], [[7]]] := by decide
example : batchLoop 100 List.length [[1, 2, 3], [4, 5, 6], [7]] = [[[1, 2, 3], [4, 5, 6], [7]]] := by decide
example : batchLoop 5 List.length ([] : List (List Nat)) = [] := by decide
example : batchOutput 5 List.length (fun r => r ++ [10]) [[1, 2, 3], [4, 5, 6], [7]] =
    [1, 2, 3, 10, 4, 5, 6, 10, 7, 10] := by decide

end KT
