import KtVerif.Spec.EndToEnd
import KtVerif.Proofs.E2E2
import KtVerif.Proofs.E2E2Float
import KtVerif.Proofs.CgrZeroRun
/-!
# End to end (second batch)
-/
namespace KT

-- some hypotheses of the delivered statements are not needed by the proofs
set_option linter.unusedVariables false

/-- reading the counts table back gives the true multiplicity of every k-mer -/
theorem cntOfTable_eq (tbl : List (Nat × Nat)) (l : List Nat) (h : IsTableOf tbl l) (x : Nat) :
    cntOfTable tbl x = countOcc x l :=
  E2E2.cntOfTable_eq' tbl l h.2.1 h.2.2 x

example : cntOfTable [(7, 5), (3, 1)] 7 = 5 ∧ cntOfTable [(7, 5), (3, 1)] 3 = 1 ∧ cntOfTable [(7, 5), (3, 1)] 4 = 0 := by
  decide

/-- C08 end to end: for any batch limit, the vectors file computed from the merged table of the counting input is the
    specified file (u32 multiplicities, bin size below 2^32) -/
theorem cov_end_to_end (k binSize binCount limit : Nat) (norm : Bool) (delim : List Nat)
    (countingRecs recs : List (List Nat)) (tbl : List (Nat × Nat))
    (hk1 : 1 ≤ k) (hk : k ≤ 31) (hbs1 : 1 ≤ binSize) (hbs : binSize < 2 ^ 32) (hbc : 1 ≤ binCount)
    (htbl : IsTableOf tbl (allCanons k countingRecs)) (hu32 : ∀ x, countsOf k countingRecs x < 2 ^ 32) :
    batchOutput limit List.length (covRowText k binSize binCount (cntOfTable tbl) norm delim) recs =
      covFileSpec k binSize binCount norm delim countingRecs recs := by
  have hcnt : cntOfTable tbl = countsOf k countingRecs :=
    funext fun x => cntOfTable_eq tbl (allCanons k countingRecs) htbl x
  rw [batchOutput_eq, hcnt]
  unfold covFileSpec
  exact congrArg List.flatten (List.map_congr_left fun s _ =>
    E2E2.covRowText_eq_spec k binSize binCount _ norm delim s hk1 hk hbs1 hbs hbc hu32)

/-- C05: the same records give the same rows whether they arrive as FASTA (any wrapping, LF/CRLF) or as FASTQ -/
theorem containers_agree (cfgA cfgQ : SerCfg) (recs : List SrcRec) (hA : wfCfg cfgA = true) (hQ : wfCfg cfgQ = true)
    (hwfA : ∀ r ∈ recs, wfFasta r = true) (hwfQ : ∀ r ∈ recs, wfFastq r = true) :
    (readAll .fasta (serialiseFasta cfgA recs)).1.map (fun r => r.seq) =
      (readAll .fastq (serialiseFastq cfgQ recs)).1.map (fun r => r.seq) ∧
    (readAll .fasta (serialiseFasta cfgA recs)).1.map (fun r => r.n) =
      (readAll .fastq (serialiseFastq cfgQ recs)).1.map (fun r => r.n) := by
  rw [fasta_roundtrip cfgA recs hA hwfA, fastq_roundtrip cfgQ recs hQ hwfQ]
  exact ⟨rfl, rfl⟩

/-- C11: every point of the double-precision walk lies in the square [0, S] (any length, any S ≥ 1 below 2^52) -/
theorem cgrF64_in_square (S : Nat) (s : List Nat) (l : List (Nat × Nat)) (hS : 1 ≤ S) (hS2 : S < 2 ^ 52)
    (h : cgrF64 S s = some l) : ∀ p ∈ l, p.1 ≤ S * f64One ∧ p.2 ≤ S * f64One :=
  E2E2.cgrF64_in_square' S s l (Nat.lt_trans hS2 (by decide)) h

/-- C11: sub-square containment of the double-precision walk, beyond the exactly representable range: after a prefix `p`
    and `j` further bases `q` (with `bitLen S + j ≤ 52`), the last point lies in the sub-square determined by `q` alone -/
theorem cgrF64_subsquare (S : Nat) (p q : List Nat) (l : List (Nat × Nat)) (hS : 1 ≤ S)
    (hj : bitLen S + q.length ≤ 52) (hq : q ≠ []) (h : cgrF64 S (p ++ q) = some l) :
    let cx := (q.reverse.map fun b => ((cornerSpec b).getD (0, 0)).1)
    let cy := (q.reverse.map fun b => ((cornerSpec b).getD (0, 0)).2)
    let a := l.getLastD (0, 0)
    subsquareLo S cx ≤ a.1 ∧ a.1 ≤ subsquareLo S cx + S * f64One / 2 ^ q.length ∧
    subsquareLo S cy ≤ a.2 ∧ a.2 ≤ subsquareLo S cy + S * f64One / 2 ^ q.length :=
  E2E2.cgrF64_subsquare' S p q l (Nat.le_succ_of_le hj) hq h

/-- one step towards the corner coordinate 0 halves the bound `S·2^(1074-z)` exactly -/
theorem cgrMid_zero_step (S v z : Nat) (hS : S < 2 ^ 53) (hz : z ≤ 1073) (hv : v * 2 ^ z ≤ S * f64One) :
    cgrMid 0 v * 2 ^ (z + 1) ≤ S * f64One :=
  E2E2.cgrMid_zero_step' S v z hS hz hv

/-- C11: after a prefix `p` and `z ≤ 1073` further bases `q` whose corner has x-coordinate 0 (A, C, a, c), the x-coordinate of the
last point is at most `S / 2^z` — at any run length, also where the exact walk is no longer representable -/
theorem cgrF64_zero_run_x (S : Nat) (p q : List Nat) (l : List (Nat × Nat)) (hS : 1 ≤ S) (hS2 : S < 2 ^ 52)
    (hz : q.length ≤ 1073) (hq : q ≠ []) (hc : ∀ b ∈ q, ((cornerSpec b).getD (0, 0)).1 = 0)
    (h : cgrF64 S (p ++ q) = some l) :
    (l.getLastD (0, 0)).1 * 2 ^ q.length ≤ S * f64One :=
  E2E2.cgrF64_zero_run_x' S p q l (Nat.lt_trans hS2 (by decide)) (Nat.le_succ_of_le hz) hq hc h

/-- the same for y (corner y-coordinate 0: A, T, U, a, t, u) -/
theorem cgrF64_zero_run_y (S : Nat) (p q : List Nat) (l : List (Nat × Nat)) (hS : 1 ≤ S) (hS2 : S < 2 ^ 52)
    (hz : q.length ≤ 1073) (hq : q ≠ []) (hc : ∀ b ∈ q, ((cornerSpec b).getD (0, 0)).2 = 0)
    (h : cgrF64 S (p ++ q) = some l) :
    (l.getLastD (0, 0)).2 * 2 ^ q.length ≤ S * f64One :=
  E2E2.cgrF64_zero_run_y' S p q l (Nat.lt_trans hS2 (by decide)) (Nat.le_succ_of_le hz) hq hc h

-- non-vacuity of the corner hypotheses: A, C, a, c have corner x-coordinate 0; A, T, U, t have corner y-coordinate 0
example : ∀ b ∈ [65, 67, 97, 99], ((cornerSpec b).getD (0, 0)).1 = 0 := by decide
example : ∀ b ∈ [65, 84, 85, 116], ((cornerSpec b).getD (0, 0)).2 = 0 := by decide

/-! ### non-vacuity (`decide +kernel`: kernel evaluation with GMP-accelerated `Nat` arithmetic, no axioms) -/

-- corner bits most recent first: "…GA" with S = 8 confines x and y to [2, 4]; "…AG" to [4, 6]
example : subsquareLo 8 [0, 1] = 2 * f64One ∧ subsquareLo 8 [1, 0] = 4 * f64One ∧ 8 * f64One / 2 ^ 2 = 2 * f64One := by
  decide +kernel
-- S = 2^45 - 1: after 8 G's the double-precision walk has left the exact walk (see C11); 7 further G's still
-- confine the last point to the sub-square [S - S/2^7, S] of the theorem (45 + 7 = 52)
example : bitLen (2 ^ 45 - 1) + [71,71,71,71,71,71,71].length = 52 := by decide +kernel
example :
    (cgrF64 (2 ^ 45 - 1) ([71,71,71,71,71,71,71,71] ++ [71,71,71,71,71,71,71])).map (fun l =>
      decide (subsquareLo (2 ^ 45 - 1) [1,1,1,1,1,1,1] ≤ (l.getLastD (0, 0)).1 ∧
        (l.getLastD (0, 0)).1 ≤ subsquareLo (2 ^ 45 - 1) [1,1,1,1,1,1,1] + (2 ^ 45 - 1) * f64One / 2 ^ 7 ∧
        (l.getLastD (0, 0)).1 ≤ (2 ^ 45 - 1) * f64One)) = some true := by
  decide +kernel

end KT
