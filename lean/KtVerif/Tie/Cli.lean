import KtVerif.Generated
import KtVerif.Spec.Cli
/-!
# Tie: the option ranges found in `kmertools/src/args.rs` are the documented ones

Every `(struct, field, lo, hi)` the translator extracted lexically from the clap attributes must be
a row of the documented table.  A range literal that was not found is not a row (logged by the
translator; the accept/refuse behaviour of the real binary is what the correspondence checks).
-/
namespace KT.Tie
open KT

theorem clap_ranges_documented :
    (Gen.clapRangesLex.all fun e => documentedRanges.contains e) = true := by decide +kernel

end KT.Tie
