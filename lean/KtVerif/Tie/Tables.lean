import KtVerif.Generated
import KtVerif.Spec.Kmer
/-!
# Tie of the regenerated data to the spec data (tables of the three iterators, letters)

`KtVerif/Generated.lean` is rewritten by every check from the Rust source text (lexical copy) and
from the compiled code's behaviour on all 256 one-byte inputs (behavioural copy).  The theorems
below are re-checked by the kernel on every run; they say that the table each iterator uses is the
spec table `nt4` (outside the raw bytes 0..3, which the properties leave unspecified).
The behavioural copy must be present; a lexical copy that was not found does not break anything.
-/
namespace KT.Tie
open KT

/-- a table agrees with the spec function on every byte 4..255 -/
def tableOk (t : Array Nat) : Bool :=
  t.size == 256 && (List.range 256).all fun b => b < 4 || t[b]! == nt4 b

def optTableOk : Option (Array Nat) → Bool
  | none => true
  | some t => tableOk t

def behTableOk : Option (Array Nat) → Bool
  | none => false
  | some t => tableOk t

/-- C01/C02: table of `KmerGenerator` -/
theorem nt4_kmer_table_eq_spec :
    behTableOk Gen.nt4KmerBeh = true ∧ optTableOk Gen.nt4KmerLex = true := by decide +kernel

/-- C09/C10: table of `MinimiserGenerator` -/
theorem nt4_min_table_eq_spec :
    behTableOk Gen.nt4MinBeh = true ∧ optTableOk Gen.nt4MinLex = true := by decide +kernel

/-- C18: table of `KmerMinimiserGenerator` -/
theorem nt4_kmin_table_eq_spec :
    behTableOk Gen.nt4KMinBeh = true ∧ optTableOk Gen.nt4KMinLex = true := by decide +kernel

/-- `REV_MASK = 3` wherever it is found -/
theorem rev_mask_eq_three :
    (Gen.revMaskKmerLex.all (· == 3) && Gen.revMaskMinLex.all (· == 3) && Gen.revMaskKMinLex.all (· == 3)) = true := by
  decide +kernel

/-- C02: the four letters of `numeric_to_kmer` -/
theorem letters_eq_spec :
    Gen.lettersBeh = some #[letterOf 0, letterOf 1, letterOf 2, letterOf 3] ∧
    (Gen.lettersLex = none ∨ Gen.lettersLex = some #[letterOf 0, letterOf 1, letterOf 2, letterOf 3]) := by
  decide +kernel

end KT.Tie
