import KtVerif.Generated
import KtVerif.Spec.Vectors
import KtVerif.Spec.Fasta
/-!
# Tie: corner table of the chaos game, cell width of a normalised value, suffix table of the reader

Behavioural copies (`…Beh`, complete enumeration of the compiled code on the datum's finite domain)
must be present and equal to the spec datum; lexical copies (`…Lex`, read from the Rust source
text) must agree when they were found.
-/
namespace KT.Tie
open KT

/-- encoding used by the translator: corner (x, y) in units of the square side ↦ 2x + y, 4 = not in the map -/
def cornerCode (b : Nat) : Nat :=
  match cornerSpec b with
  | some (x, y) => 2 * x + y
  | none => 4

def cornerTableOk (t : Array Nat) : Bool :=
  t.size == 256 && (List.range 256).all fun b => t[b]! == cornerCode b

/-- C11: the corner of every byte value in `composition::cgr::cgr_maps` (also used by the Python binding) -/
theorem cgr_corner_table_eq_spec :
    (match Gen.cgrCornerCgrBeh with | some t => cornerTableOk t | none => false) = true ∧
    (match Gen.cgrCornerCgrLex with | some t => cornerTableOk t | none => true) = true := by decide +kernel

/-- C12: the private copy of the corner table in `composition::oligocgr` -/
theorem oligocgr_corner_table_eq_spec :
    (match Gen.cgrCornerOligoCgrLex with | some t => cornerTableOk t | none => true) = true := by decide +kernel

/-- C04 / C05 / C14: `NUMBER_SIZE` (characters per normalised value) is 8 wherever it is found -/
theorem number_size_eq_eight :
    (Gen.numberSizeOligoLex.all (· == 8) && Gen.numberSizeCovLex.all (· == 8)) = true := by decide +kernel

/-- the file names on which the translator asks the compiled `SeqFormat::get` (see `p_tables.rs`) -/
def formatNames : List String :=
  ["x.fa", "x.fasta", "x.fna", "x.fq", "x.fastq", "x.fa.gz", "x.fasta.gz", "x.fna.gz", "x.fq.gz",
   "x.fastq.gz", "x.txt", "x.gz", "x", "x.fa.bz2", "x.FA", "fa", "x.fastq.fa", "x.fa.fq", "x.fas",
   ".fa", "dir/.fastq", ".fq.gz", "reads.fq.fa.gz", "a.fq/x.fa", "x.fastq.fasta", ".gz", "x..fa"]

def formatCode : Option SeqFormat → Nat
  | none => 0
  | some .fasta => 1
  | some .fastq => 2

/-- C06: the format inferred by the compiled code for each of these names is the documented one -/
theorem formats_eq_spec :
    Gen.formatsBeh = some (formatNames.map fun n => formatCode (formatSpec (n.toList.map Char.toNat))).toArray := by
  decide +kernel

end KT.Tie
