import KtVerif.Spec.Fasta
/-!
# Model layer: `ktio/src/seq.rs` on top of rust-bio 2.0.3's FASTA / FASTQ readers

rust-bio is modelled (not verified) as a line grammar transcribed from its source
(`fasta::Reader::read`, `fastq::Reader::read`, the `Records` iterators).  `read_line` semantics:
a line includes its `\n`; the last line may lack it.  `trim_end` and the word split are modelled on ASCII white space.
The well-formed domain (`wfHeader`) admits bytes >= 128 in ids and descriptions, standing for the bytes of non-ASCII characters;
the real readers work on `str` and also treat Unicode white space (U+0085, U+00A0, U+1680, U+2000-200A, U+2028/9, U+202F,
U+205F, U+3000) as white space, so for header text containing those characters the model is not claimed to be faithful: the
correspondence generators never produce them, and the round-trip theorems are about the byte-level model.  An `Err` from rust-bio becomes a panic in `Sequences::next`
(`record.unwrap()`), reported as `ParseStatus.panic`.
-/
namespace KT

def isWs (b : Nat) : Bool := b == 32 || (decide (9 ≤ b) && decide (b ≤ 13))

def trimEnd (l : List Nat) : List Nat := (l.reverse.dropWhile isWs).reverse

def splitLinesAux : List Nat → List Nat → List (List Nat)
  | cur, [] => if cur.isEmpty then [] else [cur.reverse]
  | cur, b :: bs => if b = 10 then (b :: cur).reverse :: splitLinesAux [] bs else splitLinesAux (b :: cur) bs

/-- successive results of `read_line` until it returns the empty string -/
def splitLines (bs : List Nat) : List (List Nat) := splitLinesAux [] bs

/-- `s.splitn(2, pred)`: (first field, rest after the first separator if there is one) -/
def splitFirst (isSep : Nat → Bool) : List Nat → List Nat × Option (List Nat)
  | [] => ([], none)
  | b :: bs =>
    if isSep b then ([], some bs)
    else let (a, r) := splitFirst isSep bs; (b :: a, r)

structure RawRec where
  id   : List Nat
  desc : Option (List Nat)
  seq  : List Nat
deriving DecidableEq, Repr

inductive ParseStatus where
  | done      -- iterator returned `None`
  | panic     -- `record.unwrap()` on an `Err`
deriving DecidableEq, Repr

/-- the sequence lines following a FASTA header: up to (not including) the next line starting with `>` -/
def fastaBody : List (List Nat) → List Nat × List (List Nat)
  | [] => ([], [])
  | l :: ls =>
    if l.head? = some 62 then ([], l :: ls)
    else let (s, rest) := fastaBody ls; (trimEnd l ++ s, rest)

theorem fastaBody_length_le (ls : List (List Nat)) : (fastaBody ls).2.length ≤ ls.length := by
  induction ls with
  | nil => simp [fastaBody]
  | cons l ls ih =>
    simp only [fastaBody]
    split
    · simp
    · show (fastaBody ls).2.length ≤ (l :: ls).length
      simp only [List.length_cons]; omega

/-- `fasta::Records::next` repeated; stops silently at an "empty" record, panics on a bad start -/
def fastaRecords : List (List Nat) → List RawRec × ParseStatus
  | [] => ([], .done)
  | l :: ls =>
    if l.head? ≠ some 62 then ([], .panic)
    else
      let (id, desc) := splitFirst isWs (trimEnd (l.drop 1))
      let body := fastaBody ls
      if id.isEmpty ∧ desc.isNone ∧ body.1.isEmpty then ([], .done)
      else
        let (rs, st) := fastaRecords body.2
        ({ id := id, desc := desc, seq := body.1 } :: rs, st)
termination_by ls => ls.length
decreasing_by
  have := fastaBody_length_le ls
  simp only [List.length_cons]; omega

/-- sequence lines of a FASTQ record: up to the `+` line; returns (bases, number of lines, rest
    AFTER the `+` line) -/
def fastqSeqLines : List (List Nat) → List Nat × Nat × List (List Nat)
  | [] => ([], 0, [])
  | l :: ls =>
    if l.head? = some 43 then ([], 0, ls)
    else let (s, n, rest) := fastqSeqLines ls; (trimEnd l ++ s, n + 1, rest)

/-- `n` quality lines (missing lines read as empty) -/
def fastqQualLines : Nat → List (List Nat) → List Nat × List (List Nat)
  | 0, ls => ([], ls)
  | n + 1, [] => let (q, r) := fastqQualLines n []; (q, r)
  | n + 1, l :: ls => let (q, r) := fastqQualLines n ls; (trimEnd l ++ q, r)

theorem fastqSeqLines_length_le (ls : List (List Nat)) : (fastqSeqLines ls).2.2.length ≤ ls.length := by
  induction ls with
  | nil => simp [fastqSeqLines]
  | cons l ls ih =>
    simp only [fastqSeqLines]
    split
    · simp
    · show (fastqSeqLines ls).2.2.length ≤ (l :: ls).length
      simp only [List.length_cons]; omega

theorem fastqQualLines_length_le (n : Nat) (ls : List (List Nat)) : (fastqQualLines n ls).2.length ≤ ls.length := by
  induction n generalizing ls with
  | zero => simp [fastqQualLines]
  | succ n ih =>
    cases ls with
    | nil => simpa [fastqQualLines] using ih []
    | cons l ls => simp only [fastqQualLines, List.length_cons]; have := ih ls; omega

/-- `fastq::Records::next` repeated -/
def fastqRecords : List (List Nat) → List RawRec × ParseStatus
  | [] => ([], .done)
  | l :: ls =>
    if l.head? ≠ some 64 then ([], .panic)
    else
      let (id, desc) := splitFirst (· == 32) (trimEnd (l.drop 1))
      let sl := fastqSeqLines ls
      let ql := fastqQualLines sl.2.1 sl.2.2
      if ql.1.isEmpty then ([], .panic)
      else
        let (rs, st) := fastqRecords ql.2
        ({ id := id, desc := desc, seq := sl.1 } :: rs, st)
termination_by ls => ls.length
decreasing_by
  have h1 := fastqSeqLines_length_le ls
  have h2 := fastqQualLines_length_le (fastqSeqLines ls).2.1 (fastqSeqLines ls).2.2
  simp only [List.length_cons]; omega

def rawRecords (fmt : SeqFormat) (bytes : List Nat) : List RawRec × ParseStatus :=
  match fmt with
  | .fasta => fastaRecords (splitLines bytes)
  | .fastq => fastqRecords (splitLines bytes)

/-- `Sequences::next` until `None`: numbering by `current_record` -/
def readAll (fmt : SeqFormat) (bytes : List Nat) : List SeqRec × ParseStatus :=
  let (rs, st) := rawRecords fmt bytes
  (rs.zipIdx.map fun (r, i) => { n := i, id := r.id, seq := r.seq }, st)

/-- `Sequences::seq_stats`: (record count, total bases) of a separate pass -/
def seqStats (fmt : SeqFormat) (bytes : List Nat) : (Nat × Nat) × ParseStatus :=
  let (rs, st) := rawRecords fmt bytes
  ((rs.length, (rs.map fun r => r.seq.length).sum), st)

def endsWith (suf : String) (l : List Nat) : Bool := (suf.toList.map Char.toNat).isSuffixOf l

/-- `path.trim_end_matches(".gz")` removes every trailing repetition -/
def stripGz (l : List Nat) : List Nat :=
  if h : endsWith ".gz" l = true ∧ 3 ≤ l.length then stripGz (l.take (l.length - 3)) else l
termination_by l.length
decreasing_by simp only [List.length_take]; omega

/-- `SeqFormat::get` -/
def formatOf (name : List Nat) : Option SeqFormat :=
  let p := if endsWith ".gz" name then stripGz name else name
  if endsWith ".fq" p || endsWith ".fastq" p then some .fastq
  else if endsWith ".fasta" p || endsWith ".fa" p || endsWith ".fna" p then some .fasta
  else none

/-- `get_reader`: a `.gz` path is decoded member after member (all members), anything else is read as is -/
def readerBytes (name : List Nat) (members : List (List Nat)) : List Nat :=
  if endsWith ".gz" name then members.flatten else members.flatten

/-- format sniffing of the batch paths: `buffer[0] == b'>'` (panics on an empty stream) -/
def sniffFormat (bytes : List Nat) : Option SeqFormat :=
  match bytes with
  | [] => none
  | b :: _ => if b = 62 then some .fasta else some .fastq

end KT
