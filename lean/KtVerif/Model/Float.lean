/-!
# Exact emulation of the IEEE-754 binary64 operations the code performs

A non-negative finite double is represented by the natural number `n` with value `n · 2^-1074`
(every finite double is an integer multiple of the smallest subnormal).  `n` is representable iff it
has at most 53 significant bits.  Rounding is to nearest, ties to even.  Lean's opaque `Float` is
never used; the driver prints bit patterns.  Overflow to infinity cannot occur for the values the
code computes (counts, quotients ≤ 1, coordinates ≤ S < 2^53) and is not modelled.
-/
namespace KT

/-- number of significant bits -/
def bitLen (n : Nat) : Nat := if n = 0 then 0 else Nat.log2 n + 1

/-- `a / b` rounded to the nearest integer, ties to even (`b > 0`) -/
def roundDiv (a b : Nat) : Nat :=
  let q := a / b
  let r := a % b
  if 2 * r > b ∨ (2 * r = b ∧ q % 2 = 1) then q + 1 else q

/-- scale factor: value 1.0 -/
def f64One : Nat := 2 ^ 1074

/-- the double nearest to the rational `a / b` in scaled units (`b > 0`) -/
def roundRat (a b : Nat) : Nat :=
  let sh := bitLen (a / b) - 53
  roundDiv a (b * 2 ^ sh) * 2 ^ sh

/-- the double of a natural number `x` (`x as f64`) -/
def f64OfNat (x : Nat) : Nat := roundRat (x * f64One) 1

/-- `x / y` on doubles (both scaled, `y > 0`) -/
def f64Div (x y : Nat) : Nat := roundRat (x * f64One) y

/-- `x + y` on doubles -/
def f64Add (x y : Nat) : Nat := roundRat (x + y) 1

/-- `x / 2.0` -/
def f64Half (x : Nat) : Nat := roundRat x 2

/-- `x.floor() as usize` -/
def f64Floor (x : Nat) : Nat := x / f64One

/-- IEEE bit pattern of a scaled non-negative double -/
def f64Bits (n : Nat) : Nat :=
  let l := bitLen n
  if l ≤ 52 then n
  else (l - 52) * 2 ^ 52 + ((n >>> (l - 53)) - 2 ^ 52)

/-- inverse of `f64Bits` on non-negative finite doubles -/
def f64Unbits (b : Nat) : Nat :=
  let e := (b >>> 52) % 2048
  let m := b % 2 ^ 52
  if e = 0 then m else (2 ^ 52 + m) * 2 ^ (e - 1)

/-- decimal digits of `n`, left-padded with zeros to width `w` -/
def padDigits (w n : Nat) : List Nat :=
  let ds := (Nat.toDigits 10 n).map fun c => c.toNat
  List.replicate (w - ds.length) 48 ++ ds

/-- `format!("{:.6}", x)`: the exact binary value rounded half-to-even at 6 decimals -/
def fmt6 (n : Nat) : List Nat :=
  let q := roundDiv (n * 1000000) f64One
  ((Nat.toDigits 10 (q / 1000000)).map fun c => c.toNat) ++ [46] ++ padDigits 6 (q % 1000000)

/-- the integer `round(x · 10^6)` that `fmt6` prints -/
def fmt6Int (n : Nat) : Nat := roundDiv (n * 1000000) f64One

/-- decimal text of a natural number (`format!("{}", x)` of an integral double below 2^53) -/
def natText (n : Nat) : List Nat := (Nat.toDigits 10 n).map fun c => c.toNat

end KT
