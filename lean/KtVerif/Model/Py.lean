import KtVerif.Model.Vectors
import KtVerif.Model.Minimiser
/-!
# Model layer: the Python bindings (`pybindings/src/*.rs`)

The bindings duplicate the oligo accumulation loop and the CGR loop of the core instead of calling
them.  They are transcribed here SEPARATELY from `Model/Vectors.lean`, so that "binding = core" is a
theorem about two transcriptions (and drift of either copy shows up as a disagreement), not a
tautology.  A Python `str` reaches Rust as its UTF-8 bytes.
-/
namespace KT

/-- UTF-8 encoding of one code point (Rust `String` is valid UTF-8; surrogates cannot occur) -/
def utf8Char (c : Nat) : List Nat :=
  if c < 0x80 then [c]
  else if c < 0x800 then [0xC0 + c / 64, 0x80 + c % 64]
  else if c < 0x10000 then [0xE0 + c / 4096, 0x80 + (c / 64) % 64, 0x80 + c % 64]
  else [0xF0 + c / 262144, 0x80 + (c / 4096) % 64, 0x80 + (c / 64) % 64, 0x80 + c % 64]

def utf8 (cs : List Nat) : List Nat := cs.flatMap utf8Char

/-- `pybindings::oligo::OligoComputer::vectorise_one` (its own copy of the loop) -/
def pyOligoLoop (pm : PosMaps) : List (Nat × Nat) → Array Nat → Nat → Array Nat × Nat
  | [], vec, total => (vec, total)
  | (f, r) :: rest, vec, total =>
    let minMer := min f r
    let pos := pm.posMap[minMer]!
    pyOligoLoop pm rest (vec.modify pos (· + 1)) (total + 1)

def pyOligoVec (pm : PosMaps) (k : Nat) (norm : Bool) (bytes : List Nat) : List Nat :=
  let (vec, total) := pyOligoLoop pm (kmers k bytes) (Array.replicate pm.kcount 0) 0
  if norm then vec.toList.map fun c => f64Div (f64OfNat c) (f64OfNat (max 1 total))
  else vec.toList.map f64OfNat

/-- `get_header` of the binding -/
def pyHeader (pm : PosMaps) (k : Nat) : List (List Nat) := pm.posKmer.map (numericToKmer k)

/-- `pybindings::cgr::CgrComputer::vectorise_one` (its own copy of the loop; the corner map is the
    core's `cgr_maps`) : `none` = `ValueError` -/
def pyCgrLoop (S : Nat) : List Nat → Nat × Nat → List (Nat × Nat) → Option (List (Nat × Nat))
  | [], _, acc => some acc.reverse
  | b :: bs, (mx, my), acc =>
    match cgrCorner b with
    | some (cx, cy) =>
      let m' := (f64Half (f64Add (cx * f64OfNat S) mx), f64Half (f64Add (cy * f64OfNat S) my))
      pyCgrLoop S bs m' (m' :: acc)
    | none => none

def pyCgr (S : Nat) (bytes : List Nat) : Option (List (Nat × Nat)) := pyCgrLoop S bytes (cgrCentre S) []

/-- `vectorise_batch`: `into_par_iter().map().collect()` — order-preserving (trusted: rayon) -/
def pyOligoBatch (pm : PosMaps) (k : Nat) (norm : Bool) (seqs : List (List Nat)) : List (List Nat) :=
  seqs.map (pyOligoVec pm k norm)

/-- `collect::<PyResult<Vec<_>>>()`: the first error wins, otherwise all results in order -/
def pyCgrBatch (S : Nat) (seqs : List (List Nat)) : Option (List (List (Nat × Nat))) := seqs.mapM (pyCgr S)

end KT
