import KtVerif.Model.Vectors
/-!
# Model layer: the concurrent loops as labelled transition systems (C05, C07, C10, C14)

All three worker loops of the code base have the same shape: `T` workers share one record reader
behind a mutex; a worker *takes* the next record (atomic: the mutex), computes on it privately, then
performs one *effect* on shared state (a positional write into the mapped file; an append under the
writer lock; inserts into a concurrent map).  A schedule is any list of steps; the theorems quantify
over all of them.  Hook granularity = one step per `sched_point` in the instrumented code.
-/
namespace KT

inductive WState where
  | idle
  | holding (n : Nat)
  | done
deriving DecidableEq, Repr

/-- generic shared-reader system; `order` is a ghost log of the order in which effects happened -/
structure GSys (σ : Type) where
  next  : Nat
  ws    : List WState
  sh    : σ
  order : List Nat

inductive GStep where
  | take (w : Nat)      -- `records.lock().next()`: gets record `next`, or sees the end and leaves
  | act (w : Nat)       -- the worker's effect for the record it holds
deriving DecidableEq, Repr

def GSys.apply {σ : Type} (N : Nat) (eff : Nat → σ → σ) (s : GSys σ) : GStep → Option (GSys σ)
  | .take w =>
    match s.ws[w]? with
    | some .idle =>
      if s.next < N then some { s with next := s.next + 1, ws := s.ws.set w (.holding s.next) }
      else some { s with ws := s.ws.set w .done }
    | _ => none
  | .act w =>
    match s.ws[w]? with
    | some (.holding n) =>
      some { s with ws := s.ws.set w .idle, sh := eff n s.sh, order := s.order ++ [n] }
    | _ => none

def GSys.run {σ : Type} (N : Nat) (eff : Nat → σ → σ) : GSys σ → List GStep → Option (GSys σ)
  | s, [] => some s
  | s, st :: rest =>
    match s.apply N eff st with
    | some s' => GSys.run N eff s' rest
    | none => none

def GSys.init {σ : Type} (T : Nat) (sh0 : σ) : GSys σ :=
  { next := 0, ws := List.replicate T .idle, sh := sh0, order := [] }

/-- every worker has left its loop -/
def GSys.terminal {σ : Type} (s : GSys σ) : Bool := s.ws.all (· == .done)

/-! ## C05 / C14: the memory-mapped writer of `OligoComputer::vectorise_mmap` -/

/-- `per_line_size` of the code: `kcount * NUMBER_SIZE + (kcount - 1) * delim.len() + 1` -/
def perLineSize (kcount delimLen : Nat) : Nat := kcount * 8 + (kcount - 1) * delimLen + 1

/-- `estimated_file_size` -/
def mmapSize (nrec kcount delimLen hdrLen : Nat) : Nat := nrec * perLineSize kcount delimLen + hdrLen

/-- `start_pos + header_len` with `start_pos = kvec_str.len() * record.n` -/
def writePos (hdrLen rowLen n : Nat) : Nat := rowLen * n + hdrLen

/-- the mapped file: one optional byte per cell (none = never written, reads back as NUL) -/
abbrev Cells := List (Option Nat)

/-- `write_at(data, pos)`: a write that would leave the mapping is undefined behaviour in the real
    code; the model (like the instrumented build) refuses it and leaves the file unchanged -/
def blit (file : Cells) (pos : Nat) (data : List Nat) : Cells :=
  if pos + data.length ≤ file.length then
    file.take pos ++ data.map some ++ file.drop (pos + data.length)
  else file

def writeInBounds (cap pos len : Nat) : Bool := decide (pos + len ≤ cap)

/-- effect of worker holding record `n`: write its row at its offset -/
def mmapEff (hdrLen : Nat) (row : Nat → List Nat) (n : Nat) (file : Cells) : Cells :=
  blit file (writePos hdrLen (row n).length n) (row n)

/-- the file before the workers start: all cells unwritten, then the header written at 0 -/
def mmapInit (cap : Nat) (hdr : List Nat) : Cells := blit (List.replicate cap none) 0 hdr

/-- the expected content: header then the rows in record order -/
def mmapExpected (hdr : List Nat) (rows : List (List Nat)) : Cells := (hdr ++ rows.flatten).map some

/-! ## batched writer (`vectorise_batch`, `CgrComputer::vectorise`, `OligoCgrComputer::vectorise`,
     `CovComputer::compute_coverages`) -/

/-- the `for record in records { total += len; buffer.push(record); if total >= memory { flush } }`
    loop followed by `if !buffer.is_empty() { flush }`; a flush writes the rows of the buffered
    records in buffer order (`par_iter().map().collect()` preserves order — trusted, rayon) -/
def batchLoopAux {α : Type} (limit : Nat) (len : α → Nat) :
    List α → Nat → List α → List (List α)
  | buf, _, [] => if buf.isEmpty then [] else [buf]
  | buf, total, r :: rs =>
    let total := total + len r
    let buf := buf ++ [r]
    if total ≥ limit then buf :: batchLoopAux limit len [] 0 rs
    else batchLoopAux limit len buf total rs

/-- the batches that are flushed, in order -/
def batchLoop {α : Type} (limit : Nat) (len : α → Nat) (recs : List α) : List (List α) :=
  batchLoopAux limit len [] 0 recs

/-- bytes written by the batched path -/
def batchOutput {α : Type} (limit : Nat) (len : α → Nat) (row : α → List Nat) (recs : List α) : List Nat :=
  ((batchLoop limit len recs).map fun b => (b.map row).flatten).flatten

/-! ## C10: `seq_to_min` and `bin_sequences` -/

/-- s2m: append the record's line under the writer lock -/
def s2mEff (line : Nat → List Nat) (n : Nat) (out : List (List Nat)) : List (List Nat) := out ++ [line n]

/-- m2s: `entry(key).and_modify(push).or_insert(vec![…])` for every run of the record, in run order -/
def upsert {κ ε : Type} [DecidableEq κ] (k : κ) (e : ε) : List (κ × List ε) → List (κ × List ε)
  | [] => [(k, [e])]
  | (k', es) :: rest => if k' = k then (k', es ++ [e]) :: rest else (k', es) :: upsert k e rest

def m2sEff {κ ε : Type} [DecidableEq κ] (runs : Nat → List (κ × ε)) (n : Nat)
    (m : List (κ × List ε)) : List (κ × List ε) :=
  (runs n).foldl (fun acc p => upsert p.1 p.2 acc) m

/-! ## C07: one chunk of `CountComputer::count_chunk` -/

inductive CState where
  | start                 -- about to test the limit
  | ready                 -- limit test passed, about to take
  | counting (n : Nat)    -- holds record n, has not inserted its k-mers yet
  | adding (n : Nat)      -- k-mers inserted, record length not yet added to the estimate
  | done
deriving DecidableEq, Repr

structure CSys where
  next   : Nat                 -- reader cursor (global over chunks)
  soFar  : Nat                 -- `total_kmers_so_far`
  ws     : List CState
  table  : List Nat            -- canonical k-mers inserted so far in this chunk (multiset as a list)
  taken  : List Nat            -- ghost: records taken in this chunk, in take order

inductive CStep where
  | check (w : Nat) | take (w : Nat) | count (w : Nat) | addlen (w : Nat)
deriving DecidableEq, Repr

/-- `N` records; `kms n` = canonical k-mers of record n; `len n` = its length; `limit` = the ceiling -/
def CSys.apply (N limit : Nat) (kms : Nat → List Nat) (len : Nat → Nat) (s : CSys) : CStep → Option CSys
  | .check w =>
    match s.ws[w]? with
    | some .start =>
      if s.soFar > limit then some { s with ws := s.ws.set w .done }
      else some { s with ws := s.ws.set w .ready }
    | _ => none
  | .take w =>
    match s.ws[w]? with
    | some .ready =>
      if s.next < N then
        some { s with next := s.next + 1, ws := s.ws.set w (.counting s.next), taken := s.taken ++ [s.next] }
      else some { s with ws := s.ws.set w .done }
    | _ => none
  | .count w =>
    match s.ws[w]? with
    | some (.counting n) => some { s with ws := s.ws.set w (.adding n), table := s.table ++ kms n }
    | _ => none
  | .addlen w =>
    match s.ws[w]? with
    | some (.adding n) => some { s with ws := s.ws.set w .start, soFar := s.soFar + len n }
    | _ => none

def CSys.run (N limit : Nat) (kms : Nat → List Nat) (len : Nat → Nat) : CSys → List CStep → Option CSys
  | s, [] => some s
  | s, st :: rest =>
    match s.apply N limit kms len st with
    | some s' => CSys.run N limit kms len s' rest
    | none => none

/-- a chunk starts at reader position `start` with `T` workers -/
def CSys.init (T start : Nat) : CSys :=
  { next := start, soFar := 0, ws := List.replicate T .start, table := [], taken := [] }

def CSys.terminal (s : CSys) : Bool := s.ws.all (· == .done)

/-- partition of a canonical k-mer: `min_mer % n_parts` -/
def partOf (nParts x : Nat) : Nat := x % nParts

/-- merge: for one partition, sum the per-chunk tables (each a list of (k-mer, count) lines) -/
def mergeTables (chunks : List (List (Nat × Nat))) : List (Nat × Nat) :=
  chunks.flatten.foldl (fun acc p =>
    match acc.find? (fun q => q.1 == p.1) with
    | some _ => acc.map fun q => if q.1 == p.1 then (q.1, q.2 + p.2) else q
    | none => acc ++ [p]) []

end KT
