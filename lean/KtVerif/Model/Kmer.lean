import KtVerif.Spec.Kmer
/-!
# Model layer: `kmer/src/kmer.rs`, `kmer/src/lib.rs`

Code-shaped transcription.  `u64` registers are `Nat` with explicit truncation where Rust
truncates (`shl64`); checked arithmetic that would panic in a debug build is reported through the
`*Safe` guards.  Import-free apart from the specification it is compared with.
-/
namespace KT

def W64 : Nat := 2 ^ 64
def U64MAX : Nat := 2 ^ 64 - 1

/-- `x << n` on `u64` (bits shifted out are lost) -/
def shl64 (x n : Nat) : Nat := (x <<< n) % W64

/-- `(1_u64 << (2*k)) - 1` -/
def maskOf (k : Nat) : Nat := shl64 1 (2 * k) - 1

/-- `2 * (k - 1)` -/
def shiftOf (k : Nat) : Nat := 2 * (k - 1)

/-- `KmerGenerator::new` is free of overflow panics exactly when 1 ≤ k ≤ 31
    (`1 << 64` overflows, `0 - 1` underflows) -/
def kmerNewSafe (k : Nat) : Bool := decide (1 ≤ k) && decide (2 * k < 64)

structure KG where
  fval : Nat
  rval : Nat
  len  : Nat
deriving Repr, DecidableEq

def KG.init : KG := ⟨0, 0, 0⟩

/-- one turn of the `loop` in `KmerGenerator::next` (one input byte) -/
def KG.step (k : Nat) (s : KG) (b : Nat) : KG × Option (Nat × Nat) :=
  let v := nt4 b
  let s' : KG :=
    if v < 4 then
      { fval := (shl64 s.fval 2 ||| v) &&& maskOf k,
        rval := (s.rval >>> 2) ||| shl64 (v ^^^ 3) (shiftOf k),
        len := s.len + 1 }
    else { s with len := 0 }
  if s'.len = k then ({ s' with len := s'.len - 1 }, some (s'.fval, s'.rval))
  else (s', none)

def KG.run (k : Nat) : KG → List Nat → List (Nat × Nat)
  | _, [] => []
  | s, b :: bs =>
    match KG.step k s b with
    | (s', some o) => o :: KG.run k s' bs
    | (s', none) => KG.run k s' bs

/-- tail-recursive form of `KG.run`, used by compiled code only (`KG.run_eq_runTR` below is a `csimp` lemma): the driver then
handles records of tens of millions of bases without exhausting the stack. Theorems are stated about `KG.run`. -/
def KG.runTR.go (k : Nat) : KG → List Nat → Array (Nat × Nat) → List (Nat × Nat)
  | _, [], acc => acc.toList
  | s, b :: bs, acc =>
    match KG.step k s b with
    | (s', some o) => KG.runTR.go k s' bs (acc.push o)
    | (s', none) => KG.runTR.go k s' bs acc

def KG.runTR (k : Nat) (s : KG) (bs : List Nat) : List (Nat × Nat) := KG.runTR.go k s bs #[]

theorem KG.runTR.go_eq (k : Nat) (s : KG) (bs : List Nat) (acc : Array (Nat × Nat)) :
    KG.runTR.go k s bs acc = acc.toList ++ KG.run k s bs := by
  induction bs generalizing s acc with
  | nil => simp [KG.runTR.go, KG.run]
  | cons b bs ih =>
    simp only [KG.runTR.go, KG.run]
    split <;> simp_all

@[csimp] theorem KG.run_eq_runTR : @KG.run = @KG.runTR := by
  funext k s bs
  simp [KG.runTR, KG.runTR.go_eq]

/-- `KmerGenerator::new(seq, k).collect()` -/
def kmers (k : Nat) (seq : List Nat) : List (Nat × Nat) := KG.run k KG.init seq

/-- `KmerGenerator::rev_comp` -/
def revCompLoop : Nat → Nat → Nat → Nat
  | 0, _, r => r
  | n+1, x, r => revCompLoop n (x >>> 2) (shl64 r 2 ||| ((x &&& 3) ^^^ 3))

def revComp (k x : Nat) : Nat := revCompLoop k x 0

/-- `numeric_to_kmer`: pushes the low digit first, then reverses -/
def numericToKmerLoop : Nat → Nat → List Nat → List Nat
  | 0, _, acc => acc
  | n+1, x, acc => numericToKmerLoop n (x >>> 2) (letterOf (x &&& 3) :: acc)

def numericToKmer (k x : Nat) : List Nat := numericToKmerLoop k x []

/-- remove adjacent duplicates (of a sorted list) -/
def dedupAdj : List Nat → List Nat
  | [] => []
  | [x] => [x]
  | x :: y :: rest => if x = y then dedupAdj (y :: rest) else x :: dedupAdj (y :: rest)

/-- the sorted, de-duplicated `min(kmer, rev_comp(kmer))` values: `min_mer_vec` after `sort()` -/
def minMerVec (k : Nat) : List Nat :=
  dedupAdj (((List.range (4 ^ k)).map fun x => min x (revComp k x)).mergeSort (fun a b => decide (a ≤ b)))

/-- `min_mer_pos_map`: vector of size 4^k, `min_mer_pos_map[kmer] = pos` for each entry of the
    sorted vector, 0 elsewhere -/
def posMapOf (k : Nat) (mv : List Nat) : Array Nat :=
  mv.zipIdx.foldl (fun arr (p : Nat × Nat) => arr.setIfInBounds p.1 p.2) (Array.replicate (4 ^ k) 0)

structure PosMaps where
  posMap  : Array Nat      -- code ↦ column (0 when not canonical)
  posKmer : List Nat      -- column ↦ code
  kcount  : Nat

/-- `KmerGenerator::kmer_pos_maps` -/
def kmerPosMaps (k : Nat) : PosMaps :=
  let mv := minMerVec k
  { posMap := posMapOf k mv, posKmer := mv, kcount := mv.length }

/-- `get_header` -/
def header (k : Nat) : List (List Nat) := (kmerPosMaps k).posKmer.map (numericToKmer k)

end KT
