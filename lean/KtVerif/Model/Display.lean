import KtVerif.Model.Float

/-!
# `format!("{}", x)` for a non-negative finite `f64` — Rust's `Display`

Rust prints the *shortest* decimal digit string that reads back as the same double (closest to the exact value when
there is a choice), in positional notation without an exponent and without a trailing `.0`.  The model works on scaled
naturals (`n` stands for `n · 2^-1074`) with exact arithmetic: for 1, 2, …, 17 significant digits it takes the two decimals
that enclose the exact value, keeps those that round (nearest, ties to even: `roundRat`) back to `n`, and prints the closer one.
If none of them does (never observed; the theorems do not need the fact) it prints the exact binary value in full.

`parseF64` is the reader (`str::parse::<f64>` restricted to the positional syntax produced here): digits, optional
`.digits`, value rounded to nearest-even.  `Props/Display.lean` proves `parseF64 (f64Display n) = some n` for every double.
-/

namespace KT

/-- the double nearest to `D · 10^e` -/
def decToF64 (D : Nat) (e : Int) : Nat :=
  if 0 ≤ e then roundRat (D * 10 ^ e.toNat * f64One) 1 else roundRat (D * f64One) (10 ^ (-e).toNat)

/-- least `j ≤ fuel` (counted from `j`) with `n · 10^j ≥ 2^1074`, i.e. `x · 10^j ≥ 1` -/
def firstScale (n : Nat) : Nat → Nat → Nat
  | 0, j => j
  | fuel + 1, j => if f64One ≤ n * 10 ^ j then j else firstScale n fuel (j + 1)

/-- `⌊log10 x⌋` for `x = n · 2^-1074 > 0` -/
def dec10Exp (n : Nat) : Int :=
  if f64One ≤ n then ((Nat.toDigits 10 (n / f64One)).length : Int) - 1
  else - (firstScale n 400 1 : Int)

/-- `x / 10^e` as a fraction `(numerator, denominator)` -/
def scaledBy (n : Nat) (e : Int) : Nat × Nat :=
  if 0 ≤ e then (n, f64One * 10 ^ e.toNat) else (n * 10 ^ (-e).toNat, f64One)

/-- the candidate with `d` significant digits: the enclosing decimals `lo·10^e ≤ x < (lo+1)·10^e` that read back as `n`,
the closer one when both do (an exact tie goes up, as in `flt2dec::strategy::dragon::format_shortest`) -/
def shortestAt (n : Nat) (d : Nat) : Option (Nat × Int) :=
  let e : Int := dec10Exp n - (d : Int) + 1
  let (a, b) := scaledBy n e
  let lo := a / b
  let r := a % b
  let hi := lo + 1
  let okLo := lo ≠ 0 ∧ decToF64 lo e = n
  let okHi := decToF64 hi e = n
  let preferHi := b ≤ 2 * r
  if okLo ∧ okHi then some (if preferHi then hi else lo, e)
  else if okLo then some (lo, e)
  else if okHi then some (hi, e)
  else none

def shortestFrom (n : Nat) : Nat → Nat → Option (Nat × Int)
  | 0, _ => none
  | fuel + 1, d =>
    match shortestAt n d with
    | some r => some r
    | none => shortestFrom n fuel (d + 1)

/-- strip trailing zeros of the digit string: `D·10^e = (D/10)·10^(e+1)` -/
def stripZeros : Nat → Nat → Int → Nat × Int
  | 0, D, e => (D, e)
  | fuel + 1, D, e => if D ≠ 0 ∧ D % 10 = 0 then stripZeros fuel (D / 10) (e + 1) else (D, e)

/-- shortest digits and exponent of the last digit; falls back to the exact expansion `n · 5^1074 · 10^-1074` -/
def shortestDec (n : Nat) : Nat × Int :=
  let (D, e) := (shortestFrom n 17 1).getD (n * 5 ^ 1074, -1074)
  stripZeros 1100 D e

/-- positional text of `D · 10^e` -/
def positional (D : Nat) (e : Int) : List Nat :=
  let ds := natText D
  if 0 ≤ e then ds ++ List.replicate e.toNat 48
  else
    let f := (-e).toNat
    if f < ds.length then ds.take (ds.length - f) ++ [46] ++ ds.drop (ds.length - f)
    else [48, 46] ++ List.replicate (f - ds.length) 48 ++ ds

/-- `format!("{}", x)` -/
def f64Display (n : Nat) : List Nat :=
  if n = 0 then [48] else
    let (D, e) := shortestDec n
    positional D e

/-- `kvec_str.join(" ") + "\n"` -/
def joinSp : List (List Nat) → List Nat
  | [] => []
  | [x] => x
  | x :: xs => x ++ [32] ++ joinSp xs

/-- a row of `kmertools comp cgr` without `-k`: `format!("({},{})", x, y)` joined by blanks, newline -/
def cgrRowText (pts : List (Nat × Nat)) : List Nat :=
  joinSp (pts.map fun p => [40] ++ f64Display p.1 ++ [44] ++ f64Display p.2 ++ [41]) ++ [10]

/-- a row of `kmertools comp cgr -k`: `format!("({},{},{})", x, y, f)` -/
def oligoCgrRowText (ts : List (Nat × Nat × Nat)) : List Nat :=
  joinSp (ts.map fun t => [40] ++ f64Display t.1 ++ [44] ++ f64Display t.2.1 ++ [44] ++ f64Display t.2.2 ++ [41]) ++ [10]

/-- value of a digit string -/
def digitsVal (ds : List Nat) : Nat := ds.foldl (fun acc c => acc * 10 + (c - 48)) 0

def allDigits (ds : List Nat) : Bool := ds.all fun c => decide (48 ≤ c ∧ c ≤ 57)

/-- reader for the positional syntax: `digits` or `digits.digits` (both parts non-empty) -/
def parseF64 (t : List Nat) : Option Nat :=
  let ip := t.takeWhile (· ≠ 46)
  let rest := t.dropWhile (· ≠ 46)
  match rest with
  | [] => if ip ≠ [] ∧ allDigits ip then some (decToF64 (digitsVal ip) 0) else none
  | _ :: fp =>
    if ip ≠ [] ∧ fp ≠ [] ∧ allDigits ip ∧ allDigits fp then
      some (decToF64 (digitsVal (ip ++ fp)) (-(fp.length : Int)))
    else none

end KT
