import KtVerif.Model.Kmer
import KtVerif.Spec.Minimiser
/-!
# Model layer: `kmer/src/minimiser.rs` and `kmer/src/kmer_minimisers.rs`

One call of `MG.step` is one turn of the `loop` in `next()` that consumes the byte at `pos`;
`MG.finish` is the `pos == seq.len()` test at the top of the loop (the end-of-sequence emission).
The two generators are transcribed separately on purpose (C18 compares them).
-/
namespace KT

/-- the rescan loop `for j in 0..buff.len() { if buff[j] < best { buff_pos = j; best = buff[j] } }` -/
def scanMin (best bi j : Nat) : List Nat → Nat × Nat
  | [] => (best, bi)
  | x :: xs => if x < best then scanMin x j (j + 1) xs else scanMin best bi (j + 1) xs

structure MG where
  mValF   : Nat
  mValR   : Nat
  mValL   : Nat
  active  : Nat          -- m_active, U64MAX = no run open
  start   : Nat          -- m_window_start
  buff    : List Nat     -- VecDeque, front first
  buffPos : Nat
deriving Repr, DecidableEq

def MG.init : MG := ⟨0, 0, 0, U64MAX, 0, [], 0⟩

abbrev Run := Nat × Nat × Nat

/-- `MinimiserGenerator::new` free of overflow panics: `wsize - msize + 1`, `1 << 2m`, `msize - 1` -/
def minNewSafe (w m : Nat) : Bool := decide (1 ≤ m) && decide (2 * m < 64) && decide (m ≤ w)

/-- `if m_active == MAX && buff.len() == cap { scan }` ("first time we see all minimisers") -/
def MG.firstScan (cap : Nat) (s : MG) : MG :=
  if s.active = U64MAX ∧ s.buff.length = cap then
    let (a, bp) := scanMin s.active s.buffPos 0 s.buff
    { s with active := a, buffPos := bp }
  else s

/-- one turn of the loop of `MinimiserGenerator::next` on byte `b` at position `pos` -/
def MG.step (w m : Nat) (pos : Nat) (s : MG) (b : Nat) : MG × Option Run :=
  let v := nt4 b
  let cap := w - m + 1
  if v < 4 then
    let f := (shl64 s.mValF 2 ||| v) &&& maskOf m
    let r := (s.mValR >>> 2) ||| shl64 (v ^^^ 3) (shiftOf m)
    let l := s.mValL + 1
    if l < m then ({ s with mValF := f, mValR := r, mValL := l }, none)
    else
      let l := l - 1
      let mv := min f r
      let s1 : MG := { s with mValF := f, mValR := r, mValL := l }
      if s1.buff.length = cap then
        let buff := s1.buff.tail ++ [mv]
        if s1.buffPos = 0 then
          let (newMin, bp) := scanMin U64MAX s1.buffPos 0 buff
          if newMin ≠ s1.active then
            ({ s1 with buff := buff, buffPos := bp, active := newMin, start := pos - w + 1 },
             some (s1.active, s1.start, pos))
          else
            -- the "first time" scan is skipped: m_active ≠ MAX here (see `MG.Inv`); it is
            -- transcribed anyway in `firstScan`
            (MG.firstScan cap { s1 with buff := buff, buffPos := bp }, none)
        else if mv < s1.active then
          ({ s1 with buff := buff, active := mv, buffPos := buff.length - 1, start := pos - w + 1 },
           some (s1.active, s1.start, pos))
        else
          (MG.firstScan cap { s1 with buff := buff, buffPos := s1.buffPos - 1 }, none)
      else
        (MG.firstScan cap { s1 with buff := s1.buff ++ [mv] }, none)
  else
    let shouldReturn := s.buff.length = cap
    let s' : MG := { mValF := 0, mValR := 0, mValL := 0, active := U64MAX, start := pos + 1,
                     buff := [], buffPos := 0 }
    (s', if shouldReturn then some (s.active, s.start, pos) else none)

/-- the `pos == seq.len()` test: the run still open is emitted once -/
def MG.finish (n : Nat) (s : MG) : List Run :=
  if s.active ≠ U64MAX then [(s.active, s.start, n)] else []

def MG.run (w m n : Nat) : Nat → MG → List Nat → List Run
  | _, s, [] => MG.finish n s
  | pos, s, b :: bs =>
    match MG.step w m pos s b with
    | (s', some o) => o :: MG.run w m n (pos + 1) s' bs
    | (s', none) => MG.run w m n (pos + 1) s' bs

/-- `MinimiserGenerator::new(seq, w, m).collect()` -/
def minimisers (w m : Nat) (seq : List Nat) : List Run := MG.run w m seq.length 0 MG.init seq

/-! ## `KmerMinimiserGenerator` (separate transcription) -/

structure KMG where
  mValF   : Nat
  mValR   : Nat
  mValL   : Nat
  kValF   : Nat
  kValR   : Nat
  kValL   : Nat
  active  : Nat
  start   : Nat
  buff    : List Nat
  buffPos : Nat
  kbuff   : List Nat     -- the `k_buff` local of the current call (reversed: newest first)
deriving Repr, DecidableEq

def KMG.init : KMG := ⟨0, 0, 0, 0, 0, 0, U64MAX, 0, [], 0, []⟩

abbrev KRun := Nat × Nat × Nat × List Nat

def kminNewSafe (w m : Nat) : Bool := minNewSafe w m && decide (2 * w < 64)

def KMG.firstScan (cap : Nat) (s : KMG) : KMG :=
  if s.active = U64MAX ∧ s.buff.length = cap then
    let (a, bp) := scanMin s.active s.buffPos 0 s.buff
    { s with active := a, buffPos := bp }
  else s

def KMG.step (w m : Nat) (pos : Nat) (s : KMG) (b : Nat) : KMG × Option KRun :=
  let v := nt4 b
  let cap := w - m + 1
  if v < 4 then
    let kf := (shl64 s.kValF 2 ||| v) &&& maskOf w
    let kr := (s.kValR >>> 2) ||| shl64 (v ^^^ 3) (shiftOf w)
    let kl := s.kValL + 1
    let f := (shl64 s.mValF 2 ||| v) &&& maskOf m
    let r := (s.mValR >>> 2) ||| shl64 (v ^^^ 3) (shiftOf m)
    let l := s.mValL + 1
    let s0 : KMG := { s with kValF := kf, kValR := kr, kValL := kl, mValF := f, mValR := r, mValL := l }
    if l < m then (s0, none)
    else
      let mv := min f r
      let s1 : KMG :=
        if kl = w then { s0 with mValL := l - 1, kbuff := min kf kr :: s0.kbuff, kValL := kl - 1 }
        else { s0 with mValL := l - 1 }
      if s1.buff.length = cap then
        let buff := s1.buff.tail ++ [mv]
        if s1.buffPos = 0 then
          let (newMin, bp) := scanMin U64MAX s1.buffPos 0 buff
          if newMin ≠ s1.active then
            ({ s1 with buff := buff, buffPos := bp, active := newMin, start := pos - w + 1, kbuff := [] },
             some (s1.active, s1.start, pos, s1.kbuff.reverse))
          else
            (KMG.firstScan cap { s1 with buff := buff, buffPos := bp }, none)
        else if mv < s1.active then
          ({ s1 with buff := buff, active := mv, buffPos := buff.length - 1, start := pos - w + 1, kbuff := [] },
           some (s1.active, s1.start, pos, s1.kbuff.reverse))
        else
          (KMG.firstScan cap { s1 with buff := buff, buffPos := s1.buffPos - 1 }, none)
      else
        (KMG.firstScan cap { s1 with buff := s1.buff ++ [mv] }, none)
  else
    let shouldReturn := s.buff.length = cap
    let s' : KMG := { mValF := 0, mValR := 0, mValL := 0, kValF := 0, kValR := 0, kValL := 0,
                      active := U64MAX, start := pos + 1, buff := [], buffPos := 0, kbuff := [] }
    (s', if shouldReturn then some (s.active, s.start, pos, s.kbuff.reverse) else none)

def KMG.finish (n : Nat) (s : KMG) : List KRun :=
  if s.active ≠ U64MAX then [(s.active, s.start, n, s.kbuff.reverse)] else []

def KMG.run (w m n : Nat) : Nat → KMG → List Nat → List KRun
  | _, s, [] => KMG.finish n s
  | pos, s, b :: bs =>
    match KMG.step w m pos s b with
    | (s', some o) => o :: KMG.run w m n (pos + 1) s' bs
    | (s', none) => KMG.run w m n (pos + 1) s' bs

/-- `KmerMinimiserGenerator::new(seq, w, m).collect()` -/
def kmerMinimisers (w m : Nat) (seq : List Nat) : List KRun := KMG.run w m seq.length 0 KMG.init seq

end KT
