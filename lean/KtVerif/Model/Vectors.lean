import KtVerif.Model.Kmer
import KtVerif.Model.Float
import KtVerif.Spec.Vectors
/-!
# Model layer: `composition/src/{oligo,cgr,oligocgr}.rs`, `coverage/src/lib.rs` (per-record functions)

Counters that the Rust code keeps in `f64` (`+= 1.0`) are `Nat` here; they are exact below 2^53
occurrences (stated assumption).  Normalised values go through the exact float emulation.
-/
namespace KT

/-! ## oligo (`OligoComputer::vectorise_one`, `OligoCgrComputer::seq_to_kmer`, python `vectorise_one`) -/

/-- both `get_unchecked` indices of one accumulation step are in range -/
def oligoStepSafe (pm : PosMaps) (p : Nat × Nat) : Bool :=
  decide (min p.1 p.2 < pm.posMap.size) && decide (pm.posMap[min p.1 p.2]! < pm.kcount)

/-- `vec[pos_map[min(f, r)]] += 1; total += 1` over the k-mer stream -/
def oligoAccum (pm : PosMaps) (ks : List (Nat × Nat)) : Array Nat × Nat :=
  ks.foldl (fun (acc : Array Nat × Nat) p =>
      (acc.1.modify (pm.posMap[min p.1 p.2]!) (· + 1), acc.2 + 1))
    (Array.replicate pm.kcount 0, 0)

/-- raw counts and total of a record -/
def oligoCounts (pm : PosMaps) (k : Nat) (s : List Nat) : List Nat × Nat :=
  let r := oligoAccum pm (kmers k s)
  (r.1.toList, r.2)

def oligoSafe (pm : PosMaps) (k : Nat) (s : List Nat) : Bool := (kmers k s).all (oligoStepSafe pm)

/-- `el /= f64::max(1.0, total)` -/
def normalise (counts : List Nat) (total : Nat) : List Nat :=
  counts.map fun c => f64Div (f64OfNat c) (f64OfNat (max 1 total))

/-- the values of a row as scaled doubles -/
def oligoVec (pm : PosMaps) (k : Nat) (norm : Bool) (s : List Nat) : List Nat :=
  let (cs, t) := oligoCounts pm k s
  if norm then normalise cs t else cs.map f64OfNat

def joinBytes (sep : List Nat) : List (List Nat) → List Nat
  | [] => []
  | [x] => x
  | x :: xs => x ++ sep ++ joinBytes sep xs

/-- text of a vector row: `{:.6}` when normalised, integer otherwise, joined by `delim`, newline -/
def rowText (norm : Bool) (delim : List Nat) (counts : List Nat) (total : Nat) : List Nat :=
  let cells := if norm then (normalise counts total).map fmt6 else counts.map natText
  joinBytes delim cells ++ [10]

def oligoRowText (pm : PosMaps) (k : Nat) (norm : Bool) (delim : List Nat) (s : List Nat) : List Nat :=
  let (cs, t) := oligoCounts pm k s
  rowText norm delim cs t

/-! ## coverage (`CovComputer::vectorise_one`) -/

/-- `(count as f64 / bin_size as f64).floor() as usize` -/
def covBinF64 (count binSize : Nat) : Nat := f64Floor (f64Div (f64OfNat count) (f64OfNat binSize))

/-- `min(kmer_bin, bin_count - 1)` is a valid index (and `bin_count - 1` does not underflow) -/
def covSafe (binCount : Nat) : Bool := decide (1 ≤ binCount)

def covAccum (k binSize binCount : Nat) (cnt : Nat → Nat) (s : List Nat) : Array Nat × Nat :=
  (kmers k s).foldl (fun (acc : Array Nat × Nat) p =>
      (acc.1.modify (min (covBinF64 (cnt (min p.1 p.2)) binSize) (binCount - 1)) (· + 1), acc.2 + 1))
    (Array.replicate binCount 0, 0)

def covCounts (k binSize binCount : Nat) (cnt : Nat → Nat) (s : List Nat) : List Nat × Nat :=
  let r := covAccum k binSize binCount cnt s
  (r.1.toList, r.2)

def covRowText (k binSize binCount : Nat) (cnt : Nat → Nat) (norm : Bool) (delim : List Nat) (s : List Nat) : List Nat :=
  let (cs, t) := covCounts k binSize binCount cnt s
  rowText norm delim cs t

/-! ## whole-sequence CGR (`CgrComputer::vectorise_one`, python `CgrComputer.vectorise_one`) -/

/-- `cgr_maps`: the ten-entry map (in units of `vecsize`) -/
def cgrCorner (b : Nat) : Option (Nat × Nat) :=
  if b = 65 then some (0, 0) else if b = 84 then some (1, 0) else if b = 71 then some (1, 1)
  else if b = 67 then some (0, 1) else if b = 85 then some (1, 0) else if b = 97 then some (0, 0)
  else if b = 116 then some (1, 0) else if b = 103 then some (1, 1) else if b = 99 then some (0, 1)
  else if b = 117 then some (1, 0) else none

/-- `(corner + marker) / 2.0` on doubles -/
def cgrMid (corner marker : Nat) : Nat := f64Half (f64Add corner marker)

def cgrLoop (S : Nat) : Nat × Nat → List Nat → Option (List (Nat × Nat))
  | _, [] => some []
  | (x, y), b :: bs =>
    match cgrCorner b with
    | none => none
    | some (cx, cy) =>
      let x' := cgrMid (cx * f64OfNat S) x
      let y' := cgrMid (cy * f64OfNat S) y
      match cgrLoop S (x', y') bs with
      | none => none
      | some rest => some ((x', y') :: rest)

/-- centre `(vecsize / 2.0, vecsize / 2.0)` -/
def cgrCentre (S : Nat) : Nat × Nat := (f64Half (f64OfNat S), f64Half (f64OfNat S))

/-- `vectorise_one`: `none` = `Err("Bad nucleotide, …")`, otherwise the points as scaled doubles -/
def cgrF64 (S : Nat) (s : List Nat) : Option (List (Nat × Nat)) := cgrLoop S (cgrCentre S) s

/-- last point of the walk from the centre (the marker itself for the empty text) -/
def cgrEndLoop (S : Nat) : Nat × Nat → List Nat → Option (Nat × Nat)
  | p, [] => some p
  | (x, y), b :: bs =>
    match cgrCorner b with
    | none => none
    | some (cx, cy) => cgrEndLoop S (cgrMid (cx * f64OfNat S) x, cgrMid (cy * f64OfNat S) y) bs

/-! ## k-mer CGR (`OligoCgrComputer::vectorise_one`) -/

/-- one `(x, y, f)` triple per column; `none` if a column text is not a nucleotide string -/
def oligoCgrRow (pm : PosMaps) (k S : Nat) (norm : Bool) (s : List Nat) : Option (List (Nat × Nat × Nat)) :=
  let freqs := oligoVec pm k norm s
  let texts := pm.posKmer.map (numericToKmer k)
  (texts.zip freqs).mapM fun (t, f) =>
    match cgrEndLoop S (cgrCentre S) t with
    | none => none
    | some (x, y) => some (x, y, f)

end KT
