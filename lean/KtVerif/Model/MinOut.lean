import KtVerif.Model.Minimiser
import KtVerif.Model.Vectors
/-!
# Model layer: `misc/src/minimisers.rs` (what one record contributes to the two outputs)
-/
namespace KT

/-- `if wsize == 0 { max(record.seq.len(), msize) } else { wsize }`: window 0 = the whole record
    (a record shorter than the minimiser has no window at all) -/
def effW (w m : Nat) (seq : List Nat) : Nat := if w = 0 then max seq.length m else w

/-- `format!("{}:{}-{}", numeric_to_kmer(k, msize), s, e)` -/
def runText (m : Nat) (r : Run) : List Nat :=
  numericToKmer m r.1 ++ [58] ++ natText r.2.1 ++ [45] ++ natText r.2.2

/-- s2m line of one record: `[id, run…, "\n"].join("\t")` -/
def s2mLineOf (id : List Nat) (runs : List (List Nat)) : List Nat := joinBytes [9] ([id] ++ runs ++ [[10]])

def s2mLine (w m : Nat) (id seq : List Nat) : List Nat :=
  s2mLineOf id ((minimisers (effW w m seq) m seq).map (runText m))

/-- the same line from the specification of the runs -/
def s2mLineSpec (w m : Nat) (id seq : List Nat) : List Nat :=
  s2mLineOf id ((specRuns (effW w m seq) m seq).map fun r => decodeSpec m r.1 ++ [58] ++ natText r.2.1 ++ [45] ++ natText r.2.2)

/-- m2s contributions of one record: (minimiser text, (id, start, end)) per run, in run order -/
def m2sRuns (w m : Nat) (id seq : List Nat) : List (List Nat × (List Nat × Nat × Nat)) :=
  (minimisers (effW w m seq) m seq).map fun r => (numericToKmer m r.1, (id, r.2.1, r.2.2))

/-- both entry points construct the generator without overflow panic -/
def minOutSafe (w m : Nat) (seq : List Nat) : Bool := minNewSafe (effW w m seq) m

end KT
