import KtVerif.Model.Display

/-!
# Reading a CGR output row back

`kmertools comp cgr` writes one line per record: points `(x,y)` (or triples `(x,y,f)` with `-k`) separated by one blank,
each number printed by `format!("{}", …)`.  `parseCgrRow` / `parseOligoCgrRow` are the obvious readers of that syntax; the
theorems in `Props/RowParse.lean` say that reading a written row gives back exactly the doubles that were computed — the text
loses nothing and is unambiguous (a printed number contains only digits and at most one '.').
-/

namespace KT

/-- split at every occurrence of the separator byte (`"a,b".split(',')`): always at least one field -/
def splitOnByte (sep : Nat) : List Nat → List (List Nat)
  | [] => [[]]
  | c :: cs =>
    if c = sep then [] :: splitOnByte sep cs
    else match splitOnByte sep cs with
      | [] => [[c]]          -- unreachable
      | f :: fs => (c :: f) :: fs

/-- `(n1,n2,…)` → the numbers; `none` unless the token is parenthesised and every field reads as a number -/
def parseTuple (tok : List Nat) : Option (List Nat) :=
  match tok with
  | 40 :: rest =>
    if rest.getLast? = some 41 then (splitOnByte 44 rest.dropLast).mapM parseF64 else none
  | _ => none

/-- a whole line (with its newline) → the tuples; an empty line is a record without points -/
def parseRowTuples (line : List Nat) : Option (List (List Nat)) :=
  if line.getLast? ≠ some 10 then none
  else
    let body := line.dropLast
    if body = [] then some [] else (splitOnByte 32 body).mapM parseTuple

def parseCgrRow (line : List Nat) : Option (List (Nat × Nat)) :=
  match parseRowTuples line with
  | none => none
  | some ts => ts.mapM fun t => match t with
    | [x, y] => some (x, y)
    | _ => none

def parseOligoCgrRow (line : List Nat) : Option (List (Nat × Nat × Nat)) :=
  match parseRowTuples line with
  | none => none
  | some ts => ts.mapM fun t => match t with
    | [x, y, f] => some (x, y, f)
    | _ => none

end KT
