#!/bin/sh
# Run once after a fresh restore (offline): builds the Lean project (kernel-checks every theorem),
# the model driver, the correspondence harness (hooks on), the shipped CLI (hooks off) and the
# Python module.  Everything is rebuilt incrementally by ./check afterwards.
set -e
cd "$(dirname "$0")"
V="$(pwd)"
export CARGO_NET_OFFLINE=true
mkdir -p .cache evidence replays
[ -f harness/Cargo.lock ] || cp /repo/Cargo.lock harness/Cargo.lock
(cd harness && CARGO_TARGET_DIR=$V/.cache/target-hooks cargo build --offline 2>&1 | tail -3)
(cd harness && CARGO_PROFILE_DEV_DEBUG_ASSERTIONS=true CARGO_TARGET_DIR=$V/.cache/target-hooks-ub cargo build --offline 2>&1 | tail -1)
(cd /repo && CARGO_TARGET_DIR=$V/.cache/target-cli cargo build --offline --release -p kmertools 2>&1 | tail -3)
(cd /repo && CARGO_TARGET_DIR=$V/.cache/target-py cargo build --offline --release -p pip 2>&1 | tail -3) || true
python3 - "$V" <<'PY'
import sys, json, subprocess
sys.path.insert(0, sys.argv[1] + '/tools')
import gen_from_source
out = subprocess.run([sys.argv[1] + '/.cache/target-hooks/debug/ktharness', 'dump-tables'], capture_output=True, text=True).stdout
text, notes = gen_from_source.generate('/repo', json.loads(out))
open(sys.argv[1] + '/lean/KtVerif/Generated.lean', 'w').write(text)
PY
(cd lean && lake build 2>&1 | tail -5 && lake build ktmodel 2>&1 | tail -2)
echo setup done
