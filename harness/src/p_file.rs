//! C05 / C14: the composition writers on real files (memory-mapped and batched), under the
//! serialising scheduler, seeded jitter, or free-running
use crate::engine::*;
use crate::gen;
use crate::model::Model;
use crate::p_io::{write_container, IoCase, Src};
use crate::util::*;
use composition::oligo::OligoComputer;
use ktio::verif::{self, Mode};
use std::collections::HashMap;

#[derive(Clone, Debug)]
pub struct OFCase {
    pub recs: Vec<Vec<u8>>,
    pub k: usize,
    pub norm: bool,
    pub header: bool,
    pub delim: Vec<u8>,
    pub threads: usize,
    /// "mmap" | "batch:<memory>"
    pub path: String,
    /// "fa" | "fawrap:<w>" | "fq" | "fagz" | "fqgz"
    pub container: String,
    /// "free" | "jitter:<seed>" | "serial:<c.c.c>" | "serialrand:<seed>"
    pub sched: String,
}

impl OFCase {
    pub fn req(&self) -> String {
        format!(
            "ofile {} {} {} {} {} {} {} {} {}",
            self.k,
            if self.norm { 1 } else { 0 },
            if self.header { 1 } else { 0 },
            hex(&self.delim),
            self.threads,
            self.path,
            self.container,
            self.sched,
            if self.recs.is_empty() { "-".to_string() } else { self.recs.iter().map(|r| hexr(r)).collect::<Vec<_>>().join(",") }
        )
    }
    pub fn parse(line: &str) -> Option<OFCase> {
        let w: Vec<&str> = line.split_whitespace().collect();
        if w.len() != 10 || w[0] != "ofile" {
            return None;
        }
        Some(OFCase {
            k: w[1].parse().ok()?,
            norm: w[2] == "1",
            header: w[3] == "1",
            delim: unhex(w[4]),
            threads: w[5].parse().ok()?,
            path: w[6].to_string(),
            container: w[7].to_string(),
            sched: w[8].to_string(),
            recs: if w[9] == "-" { vec![] } else { w[9].split(',').map(unhex).collect() },
        })
    }
    pub fn describe(&self) -> String {
        format!(
            "oligo file k={} norm={} header={} delim=\"{}\" threads={} writer={} container={} schedule={} records={} [{}]",
            self.k,
            self.norm,
            self.header,
            show(&self.delim),
            self.threads,
            self.path,
            self.container,
            self.sched,
            self.recs.len(),
            self.recs.iter().take(4).map(|r| show(&r[..r.len().min(24)])).collect::<Vec<_>>().join(" | ")
        )
    }
}

/// when non-zero, record `i` gets the id `r{i % ID_MOD}`: inputs in which several records share an id (cases run one at a time)
pub static ID_MOD: std::sync::atomic::AtomicUsize = std::sync::atomic::AtomicUsize::new(0);

/// when set, ids are 23 ASCII bytes followed by a two-byte character (code that cuts ids at a byte offset must respect
/// character boundaries)
pub static ID_WIDE: std::sync::atomic::AtomicBool = std::sync::atomic::AtomicBool::new(false);

pub fn rec_id(i: usize) -> String {
    let m = ID_MOD.load(std::sync::atomic::Ordering::SeqCst);
    let j = if m > 0 { i % m } else { i };
    if ID_WIDE.load(std::sync::atomic::Ordering::SeqCst) {
        // … with an apostrophe in front of it (quoting / escaping of ids in listings)
        format!("r{:0>21}'é{}", j, j % 7)
    } else {
        format!("r{}", j)
    }
}

pub fn input_case(recs: &[Vec<u8>], container: &str) -> (IoCase, &'static str) {
    let fastq = container.starts_with("fq");
    let wrap = container.strip_prefix("fawrap:").or(container.strip_prefix("fqwrap:")).and_then(|w| w.trim_end_matches("gz").parse().ok()).unwrap_or(1_000_000);
    let c = IoCase {
        fastq,
        eol: b"\n".to_vec(),
        wrap,
        fin: true,
        recs: recs
            .iter()
            .enumerate()
            .map(|(i, s)| {
                // quality strings that begin with the record markers of the format ('@' is Phred 31, '+' Phred 10)
                let mut qual = vec![b'I'; s.len()];
                if !qual.is_empty() && i % 2 == 1 {
                    qual[0] = if i % 4 == 1 { b'@' } else { b'+' };
                }
                Src { id: rec_id(i).into_bytes(), desc: None, seq: s.clone(), qual }
            })
            .collect(),
        container: if container.ends_with("gzm") { "gzm".into() } else if container.ends_with("gz") { "gzc".into() } else { "plain".into() },
        // "faX": FASTA text under a suffix the format table does not know (the batched writer sniffs the first byte, the mapped
        // writer asks the table)
        suffix: if fastq { ".fq".into() } else if container.starts_with("faX") { ".FA".into() } else { ".fa".into() },
    };
    (c, if container.ends_with("gz") || container.ends_with("gzm") { ".gz" } else { "" })
}

/// The container a file-level harness without a container field of its own writes its input in: chosen by a hash of the
/// request (a replay repeats it) among plain / wrapped FASTA, gzip with one and with two members, and (when every record has a
/// base) FASTQ, plain or wrapped. The reader must deliver the same records from all of them.
pub fn container_for(req: &str, recs: &[Vec<u8>]) -> String {
    let mut h: u64 = 0x2545F4914F6CDD1D;
    for b in req.bytes() {
        h = (h ^ b as u64).wrapping_mul(0x100000001b3);
    }
    let fq_ok = recs.iter().all(|r| !r.is_empty() && !r.iter().any(|&b| b == b'+' || b == b'@' || b <= 32 || b >= 127));
    match (h >> 9) % 10 {
        0 => "fawrap:60".into(),
        1 => if (h >> 20) & 1 == 1 { "fagz+ln".into() } else { "fagz".into() },
        2 => "fagzm".into(),
        3 if fq_ok => "fq".into(),
        4 if fq_ok => "fqwrap:16".into(),
        _ => "fa".into(),
    }
}

/// write the records in the requested container; returns the path
pub fn write_input(work: &str, uid: &str, recs: &[Vec<u8>], container: &str) -> String {
    // "<container>+ln": the data sits in a file with an unrelated name and the tool is given a symbolic link carrying the
    // usual suffix (workflow managers and caches do this); the name the user passes decides format and compression
    let ln = container.ends_with("+ln");
    let container = container.trim_end_matches("+ln");
    let (mut c, gz) = input_case(recs, container);
    if c.container == "gzm" {
        // two gzip members cut in the middle of the text (bgzip / concatenated .gz)
        let n = crate::p_io::serialise(&c).len();
        c.container = format!("gzm:{}", n / 2);
    }
    let path = format!("{}/in_{}{}{}", work, uid, c.suffix, gz);
    let _ = std::fs::remove_file(&path);
    if ln {
        let store = format!("{}/store_{}.dat", work, uid);
        write_container(&store, &crate::p_io::serialise(&c), &c.container);
        let _ = std::os::unix::fs::symlink(&store, &path);
    } else {
        write_container(&path, &crate::p_io::serialise(&c), &c.container);
    }
    // left-overs of other tools next to the input: a stale sequence index and friends, describing some other file
    if stale_case(&format!("sidecar {}", uid)) {
        let nlines = 1 + (uid.len() * 7 + recs.len() * 3) % 9;
        let mut fai = String::new();
        for i in 0..nlines {
            fai.push_str(&format!("old{}\t{}\t{}\t60\t61\n", i, 100 + i, 7 + 120 * i));
        }
        let _ = std::fs::write(format!("{}.fai", path), &fai);
        let _ = std::fs::write(format!("{}.gzi", path), b"\x00\x00\x00\x00\x00\x00\x00\x00");
    }
    path
}

/// removes an input written by `write_input` together with its side files
pub fn remove_input(path: &str) {
    if let Ok(t) = std::fs::read_link(path) {
        let _ = std::fs::remove_file(t);
    }
    let _ = std::fs::remove_file(path);
    let _ = std::fs::remove_file(format!("{}.fai", path));
    let _ = std::fs::remove_file(format!("{}.gzi", path));
}

pub fn install_sched(s: &str) {
    if s == "free" {
        verif::install(Mode::Free, vec![], 0);
    } else if let Some(seed) = s.strip_prefix("jitter:") {
        verif::install(Mode::Jitter, vec![], seed.parse().unwrap_or(1));
    } else if let Some(seed) = s.strip_prefix("serialrand:") {
        verif::install(Mode::Serial, vec![], seed.parse::<u64>().unwrap_or(1).max(1));
    } else if let Some(ch) = s.strip_prefix("serial:") {
        let choices: Vec<usize> = ch.split('.').filter(|x| !x.is_empty()).filter_map(|x| x.parse().ok()).collect();
        verif::install(Mode::Serial, choices, 0);
    } else {
        verif::install(Mode::Free, vec![], 0);
    }
}

pub struct RunOut {
    pub result: Result<Result<(), String>, String>,
    pub out: Vec<u8>,
    pub ctl: Option<verif::Ctl>,
}

pub fn run_oligo(c: &OFCase, work: &str, uid: &str) -> RunOut {
    let inp = write_input(work, uid, &c.recs, &c.container);
    let outp = format!("{}/out_{}.txt", work, uid);
    let _ = std::fs::remove_file(&outp);
    if stale_case(&c.req()) {
        plant_file(&outp, c.recs.len() * 400);
    }
    let mut oc = OligoComputer::new(inp.clone(), outp.clone(), c.k);
    oc.set_threads(c.threads);
    oc.set_norm(c.norm);
    oc.set_header(c.header);
    oc.set_delim(String::from_utf8_lossy(&c.delim).to_string());
    let mmap = c.path == "mmap";
    if let Some(m) = c.path.strip_prefix("batch:") {
        oc.set_max_memory(m.parse().unwrap_or(4 << 30));
    } else if stale_case(&format!("mem {}", c.req())) {
        // the mapped writer has no use for the batch limit: setting a tiny one must not change anything
        let lim = [1usize, 50, 100, 1000][(c.recs.len() + c.k) % 4];
        oc.set_max_memory(lim);
    }
    install_sched(&c.sched);
    let result = catch(std::panic::AssertUnwindSafe(|| if mmap { oc.verif_vectorise_mmap() } else { oc.verif_vectorise_batch() }));
    let ctl = verif::uninstall();
    let out = std::fs::read(&outp).unwrap_or_default();
    crate::p_file::remove_input(&inp);
    let _ = std::fs::remove_file(&outp);
    RunOut { result, out, ctl }
}

/// Thorough tier only: outputs beyond the 32-bit limits. N identical 8-base records at k = 7 (8192 columns, 73728 bytes per
/// normalised row): the mapped writer with header produces more than 4 GiB (58300 records), the batched writer one batch of more
/// than 2 GiB of row text (29200 records: one write call cannot take it). Expected: the header, then the same row N times (row and
/// header from the Lean model for one record); the file is compared streaming.
pub fn giant_output(mapped: bool, exp: &mut Expect, work: &str) -> Option<Fail> {
    let rec = b"ACGTACGT".to_vec();
    let n: usize = if mapped { 58_300 } else { 29_200 };
    let one = OFCase { recs: vec![rec.clone()], k: 7, norm: true, header: mapped, delim: b" ".to_vec(), threads: 8, path: "mmap".into(), container: "fa".into(), sched: "free".into() };
    let (file1, hdr_len, row_len) = exp.file(&one);
    if row_len == 0 || file1.len() != hdr_len + row_len {
        return Some(Fail { class: "model", detail: "model did not produce the one-record file".into(), theorem: "", impl_out: String::new(), model_out: String::new() });
    }
    let (header, row) = (file1[..hdr_len].to_vec(), file1[hdr_len..].to_vec());
    let inp = format!("{}/giant_{}.fa", work, if mapped { "m" } else { "b" });
    let outp = format!("{}/giant_{}.out", work, if mapped { "m" } else { "b" });
    {
        use std::io::Write;
        let mut f = std::io::BufWriter::new(std::fs::File::create(&inp).unwrap());
        for i in 0..n {
            writeln!(f, ">r{}", i).unwrap();
            f.write_all(&rec).unwrap();
            f.write_all(b"\n").unwrap();
        }
    }
    let _ = std::fs::remove_file(&outp);
    let mut oc = OligoComputer::new(inp.clone(), outp.clone(), 7);
    oc.set_threads(8);
    oc.set_norm(true);
    oc.set_header(mapped);
    install_sched("free");
    let result = catch(std::panic::AssertUnwindSafe(|| if mapped { oc.verif_vectorise_mmap() } else { oc.verif_vectorise_batch() }));
    let _ = verif::uninstall();
    let _ = std::fs::remove_file(&inp);
    let mut verdict: Option<String> = None;
    if !matches!(result, Ok(Ok(()))) {
        verdict = Some(format!("the writer failed: {:?}", result.map(|r| r.is_ok())));
    } else {
        use std::io::Read;
        let want = header.len() as u64 + (n as u64) * row.len() as u64;
        let have = std::fs::metadata(&outp).map(|m| m.len()).unwrap_or(0);
        if have != want {
            verdict = Some(format!("output has {} bytes, expected {} (header {} + {} rows of {})", have, want, header.len(), n, row.len()));
        } else {
            let mut f = std::io::BufReader::with_capacity(1 << 20, std::fs::File::open(&outp).unwrap());
            let mut h = vec![0u8; header.len()];
            if f.read_exact(&mut h).is_err() || h != header {
                verdict = Some(format!("the header line is not the column line (first difference at byte {})", h.iter().zip(header.iter()).position(|(a, b)| a != b).unwrap_or(0)));
            } else {
                let mut buf = vec![0u8; row.len()];
                for i in 0..n {
                    if f.read_exact(&mut buf).is_err() || buf != row {
                        verdict = Some(format!("row {} of {} is not the row of its record ({} NUL bytes in it)", i, n, buf.iter().filter(|&&b| b == 0).count()));
                        break;
                    }
                }
            }
        }
    }
    let _ = std::fs::remove_file(&outp);
    verdict.map(|d| Fail { class: "spec", detail: format!("{} writer, {} records at k = 7: {}", if mapped { "mapped" } else { "batched" }, n, d), theorem: if mapped { "KT.mmap_any_schedule" } else { "KT.batchOutput_eq" }, impl_out: String::new(), model_out: String::new() })
}

/// One `OligoComputer` used twice while the input file changes in between (a pipeline that re-fills the same path): the second
/// mapped file must be sized, tiled and filled for the records that are in the file at the second call.
/// request: `oftwice <k> <header> <threads> <recs of the first call> <recs of the second call>`
pub fn eval_twice(req: &str, exp: &mut Expect, work: &str, uid: &str) -> Option<Fail> {
    let w: Vec<&str> = req.split_whitespace().collect();
    if w.len() != 6 {
        return None;
    }
    let (k, header, threads) = (w[1].parse::<usize>().unwrap_or(3), w[2] == "1", w[3].parse::<usize>().unwrap_or(1));
    let parse = |s: &str| -> Vec<Vec<u8>> { if s == "-" { vec![] } else { s.split(',').map(unhex).collect() } };
    let (r1, r2) = (parse(w[4]), parse(w[5]));
    let second = OFCase { recs: r2.clone(), k, norm: true, header, delim: b" ".to_vec(), threads, path: "mmap".into(), container: "fa".into(), sched: "free".into() };
    let (expected, _, _) = exp.file(&second);
    let inp = write_input(work, uid, &r1, "fa");
    let outp = format!("{}/twice_{}.txt", work, uid);
    let _ = std::fs::remove_file(&outp);
    let mut oc = OligoComputer::new(inp.clone(), outp.clone(), k);
    oc.set_threads(threads);
    oc.set_norm(true);
    oc.set_header(header);
    install_sched("free");
    let first = catch(std::panic::AssertUnwindSafe(|| oc.verif_vectorise_mmap()));
    // the same path now holds other records
    let (c2, _) = input_case(&r2, "fa");
    std::fs::write(&inp, crate::p_io::serialise(&c2)).unwrap();
    let result = catch(std::panic::AssertUnwindSafe(|| oc.verif_vectorise_mmap()));
    let _ = verif::uninstall();
    let out = std::fs::read(&outp).unwrap_or_default();
    remove_input(&inp);
    let _ = std::fs::remove_file(&outp);
    if !matches!(first, Ok(Ok(()))) {
        return Some(Fail { class: "spec", detail: format!("first call failed: {:?}", first.map(|r| r.is_ok())), theorem: "KT.mmap_writes_tile", impl_out: String::new(), model_out: String::new() });
    }
    if !matches!(result, Ok(Ok(()))) || out != expected {
        let nul = out.iter().filter(|&&b| b == 0).count();
        return Some(Fail {
            class: "spec",
            detail: format!("second call on the same computer after the input changed from {} to {} records: {} bytes written ({} NUL), expected {} ({})", r1.len(), r2.len(), out.len(), nul, expected.len(), match &result { Ok(Ok(())) => "returned Ok".to_string(), Ok(Err(e)) => format!("Err {}", e), Err(p) => format!("panicked: {}", trunc(p, 120)) }),
            theorem: "KT.mmap_writes_tile",
            impl_out: trunc(&show(&out), 500),
            model_out: trunc(&show(&expected), 500),
        });
    }
    None
}

/// C14 on ill-formed input text: whatever the reader makes of it (it may refuse: panic / Err), a run that completes must
/// leave a file in which every byte was written (no NUL byte, last byte a newline) — rows tile the mapping for every input.
pub fn eval_raw(req: &str, work: &str, uid: &str) -> Option<Fail> {
    // ofraw <k> <threads> <header> <suffix> <hex bytes>
    let w: Vec<&str> = req.split_whitespace().collect();
    if w.len() != 6 {
        return None;
    }
    let (k, threads, header) = (w[1].parse::<usize>().unwrap_or(3), w[2].parse::<usize>().unwrap_or(1), w[3] == "1");
    let bytes = unhex(w[5]);
    let inp = format!("{}/raw_{}{}", work, uid, w[4]);
    let outp = format!("{}/rawout_{}.txt", work, uid);
    std::fs::write(&inp, &bytes).unwrap();
    let _ = std::fs::remove_file(&outp);
    let mut oc = OligoComputer::new(inp.clone(), outp.clone(), k);
    oc.set_threads(threads);
    oc.set_norm(true);
    oc.set_header(header);
    install_sched("free");
    let result = catch(std::panic::AssertUnwindSafe(|| oc.verif_vectorise_mmap()));
    let ctl = verif::uninstall();
    let out = std::fs::read(&outp).unwrap_or_default();
    crate::p_file::remove_input(&inp);
    let _ = std::fs::remove_file(&outp);
    let completed = matches!(result, Ok(Ok(())));
    if !completed {
        return None; // refused: nothing is claimed about the file
    }
    let nul = out.iter().filter(|&&b| b == 0).count();
    let mut bad_write = None;
    if let Some(c) = &ctl {
        for l in c.log.iter() {
            let f: Vec<&str> = l.split(' ').collect();
            if f[0] == "mmwrite" && f.len() >= 5 {
                let (pos, len, cap): (usize, usize, usize) = (f[2].parse().unwrap_or(0), f[3].parse().unwrap_or(0), f[4].parse().unwrap_or(0));
                if pos + len > cap {
                    bad_write = Some(l.clone());
                }
            }
        }
    }
    if nul > 0 || bad_write.is_some() || (!out.is_empty() && *out.last().unwrap() != b'\n') {
        return Some(Fail {
            class: "spec",
            detail: format!("the run completed on ill-formed input but the mapped file has {} unwritten (NUL) bytes of {}{}", nul, out.len(), bad_write.map(|b| format!("; write outside the mapping: {}", b)).unwrap_or_default()),
            theorem: "KT.mmap_no_unwritten",
            impl_out: trunc(&show(&out), 400),
            model_out: String::new(),
        });
    }
    None
}

/// model-side expected bytes: header line (spec k-mers in column order) then one row per record
pub struct Expect<'a> {
    pub model: &'a Model,
    pub headers: HashMap<usize, Vec<Vec<u8>>>,
    pub rows: HashMap<String, Vec<u8>>,
    pub files: HashMap<String, (Vec<u8>, usize, usize)>,
}

impl<'a> Expect<'a> {
    pub fn new(model: &'a Model) -> Self {
        Expect { model, headers: HashMap::new(), rows: HashMap::new(), files: HashMap::new() }
    }
    pub fn header_kmers(&mut self, k: usize) -> Vec<Vec<u8>> {
        if let Some(h) = self.headers.get(&k) {
            return h.clone();
        }
        let ans = self.model.query(&[format!("posmaps {} -", k)]);
        let f: Vec<&str> = ans[0].split('|').collect();
        let h: Vec<Vec<u8>> = if f.len() >= 8 && !f[7].is_empty() { f[7].split(',').map(unhex).collect() } else { vec![] };
        self.headers.insert(k, h.clone());
        h
    }
    pub fn rows_for(&mut self, k: usize, norm: bool, delim: &[u8], recs: &[Vec<u8>]) -> Vec<Vec<u8>> {
        let reqs: Vec<String> = recs
            .iter()
            .map(|r| format!("oligo {} {} {} {}", k, if norm { 1 } else { 0 }, hex(r), hex(delim)))
            .collect();
        let missing: Vec<String> = {
            let mut m: Vec<String> = reqs.iter().filter(|r| !self.rows.contains_key(*r)).cloned().collect();
            m.sort();
            m.dedup();
            m
        };
        let ans = self.model.query(&missing);
        for (r, a) in missing.iter().zip(ans.iter()) {
            let f: Vec<&str> = a.split('|').collect();
            let row = if f.len() >= 8 { unhex(f[6]) } else { b"<model-error>".to_vec() };
            self.rows.insert(r.clone(), row);
        }
        reqs.iter().map(|r| self.rows[r].clone()).collect()
    }
    /// the whole expected file from ONE model request: the specification's file (`oligoFileSpecG`, the right-hand side
    /// of the end-to-end theorems) decides; the code-shaped model's file must coincide with it
    pub fn file(&mut self, c: &OFCase) -> (Vec<u8>, usize, usize) {
        let recs = if c.recs.is_empty() { "-".to_string() } else { c.recs.iter().map(|r| hexr(r)).collect::<Vec<_>>().join(",") };
        let req = format!("oligofile {} {} {} {} {}", c.k, if c.norm { 1 } else { 0 }, if c.header { 1 } else { 0 }, hex(&c.delim), recs);
        if let Some(hit) = self.files.get(&req) {
            return hit.clone();
        }
        let ans = self.model.query(&[req.clone()]);
        let f: Vec<&str> = ans[0].split('|').collect();
        if f.len() < 5 || f[0] != "ok" {
            return (b"<model-error>".to_vec(), 0, 0);
        }
        let spec = unhex(f[2]);
        if f[1] != f[2] {
            // model and spec disagree: impossible while `oligo_batch_end_to_end` checks; make it visible
            return (b"<model-differs-from-spec>".to_vec(), 0, 0);
        }
        let out = (spec, f[3].parse().unwrap_or(0), f[4].parse().unwrap_or(0));
        if self.files.len() < 64 {
            self.files.insert(req, out.clone());
        }
        out
    }
}

/// events of the mmap loop for the model's trace validator
pub fn mmap_events(log: &[String]) -> String {
    let mut ev: Vec<String> = Vec::new();
    let mut pending_write: HashMap<String, String> = HashMap::new();
    for l in log {
        let w: Vec<&str> = l.split(' ').collect();
        match w[0] {
            "took" => ev.push(format!("t:{}:{}", w[1], if w[2] == "-1" { "x" } else { w[2] })),
            "write" => {
                pending_write.insert(w[1].to_string(), w[2].to_string());
            }
            "mmwrite" => {
                if let Some(n) = pending_write.remove(w[1]) {
                    ev.push(format!("w:{}:{}:{}:{}", w[1], n, w[2], w[3]));
                }
            }
            "exit" => ev.push(format!("x:{}", w[1])),
            _ => {}
        }
    }
    if ev.is_empty() { "-".into() } else { ev.join(",") }
}

pub fn eval_oligo(c: &OFCase, exp: &mut Expect, work: &str, uid: &str, traces: &mut u64, branching: &mut Vec<usize>) -> Option<Fail> {
    let r = run_oligo(c, work, uid);
    let (expected, hdr_len, row_len) = exp.file(c);
    branching.clear();
    if let Some(ctl) = &r.ctl {
        branching.extend(ctl.branching.iter());
    }
    let res_txt = match &r.result {
        Ok(Ok(())) => "ok".to_string(),
        Ok(Err(e)) => format!("err:{}", e),
        Err(p) => format!("panic:{}", p),
    };
    let fail = |class: &'static str, thm: &'static str, detail: String| {
        Some(Fail { class, detail, theorem: thm, impl_out: format!("{} out={}", res_txt, trunc(&show(&r.out), 600)), model_out: trunc(&show(&expected), 600) })
    };
    if let Err(p) = &r.result {
        return fail("spec", "KT.mmap_any_schedule", format!("writer panicked: {}", p));
    }
    // C14: every write inside the mapping, disjoint, tiling
    if c.path == "mmap" {
        if let Some(ctl) = &r.ctl {
            let mut ws = ctl.writes.clone();
            for &(pos, len, cap) in &ws {
                if pos + len > cap {
                    return fail("spec", "KT.mmap_write_in_bounds", format!("write [{}, {}) leaves the mapping of {} bytes (row length {} vs estimated row size)", pos, pos + len, cap, len));
                }
            }
            ws.retain(|w| w.1 > 0);
            ws.sort();
            let cap = ws.first().map(|w| w.2).unwrap_or(0);
            let mut at = 0;
            for &(pos, len, _) in &ws {
                if pos < at {
                    return fail("spec", "KT.mmap_writes_disjoint", format!("writes overlap at byte {}", pos));
                }
                if pos > at {
                    return fail("spec", "KT.mmap_writes_tile", format!("bytes [{}, {}) of the mapping are never written", at, pos));
                }
                at = pos + len;
            }
            if !ws.is_empty() && at != cap {
                return fail("spec", "KT.mmap_writes_tile", format!("bytes [{}, {}) of the mapping are never written", at, cap));
            }
        }
    }
    if r.out != expected {
        let thm = if c.path == "mmap" { "KT.mmap_any_schedule" } else { "KT.batchOutput_eq" };
        return fail("spec", thm, "output file is not header ++ rows in record order".to_string());
    }
    // trace validation (serialised runs only: the log order is the execution order)
    if c.path == "mmap" && c.sched.starts_with("serial") {
        if let Some(ctl) = &r.ctl {
            if ctl.uncontrolled {
                return fail("model", "", "scheduler lost control of the workers (uncontrolled run)".into());
            }
            let evs = mmap_events(&ctl.log);
            let req = format!("mmaptrace {} {} {} {} {} {}", c.recs.len(), c.threads, hdr_len, row_len, expected.len(), evs);
            let ans = exp.model.query(&[req]);
            if !ans[0].starts_with("ok") {
                return Some(Fail { class: "model", detail: format!("event trace is not a run of the Lean transition system: {}", ans[0]), theorem: "", impl_out: trunc(&evs, 1500), model_out: ans[0].clone() });
            }
            *traces += 1;
        }
    }
    None
}

fn gen_recs(r: &mut Rng, n: usize, k: usize, maxlen: usize) -> Vec<Vec<u8>> {
    (0..n)
        .map(|_| match r.below(8) {
            0 => vec![],
            1 => gen::clean_seq(r, k.saturating_sub(1), gen::Flavor::Uniform),
            2 => vec![b'N'; r.range(1, 6) as usize],
            _ => gen::sequence(r, &[k, k + 1, 3 * k], maxlen).0.into_iter().map(|b| if b < 33 || b > 126 || b == b'>' || b == b'+' || b == b'@' { b'N' } else { b }).collect(),
        })
        .collect()
}

pub fn shrink_of(c: &OFCase) -> Vec<OFCase> {
    let mut out = Vec::new();
    for r in shrink_records(&c.recs) {
        let mut d = c.clone();
        d.recs = r;
        out.push(d);
    }
    if c.threads > 1 {
        let mut d = c.clone();
        d.threads = 1;
        out.push(d);
    }
    if c.header {
        let mut d = c.clone();
        d.header = false;
        out.push(d);
    }
    if c.container != "fa" {
        let mut d = c.clone();
        d.container = "fa".into();
        out.push(d);
    }
    if c.k > 1 {
        let mut d = c.clone();
        d.k -= 1;
        out.push(d);
    }
    out
}

/// `which` = "C05" (order / paths / containers; delimiters of length 1) or "C14" (bounds / tiling; delimiters of any length)
pub fn run_files(which: &str, tier: &str, seed: u64, model: &Model, corpus_lines: Vec<String>, work: &str) -> Report {
    let mut rep = Report::new(which);
    if sharded() {
        return rep;
    }
    rep.rules.push("a case = record list + k + header flag + delimiter + thread count + writer path (memory-mapped, or batched with a memory limit from 1 byte to 4 GiB) + container (single-line FASTA, wrapped FASTA, FASTQ, gzip) + schedule (every interleaving at hook granularity by stateless DFS for small cases; seeded random serialised schedules; seeded jitter; free-running); compared: output bytes vs header ++ rows in record order built from the Lean model's row text, every logged write (in bounds, disjoint, tiling the mapping), the event trace as a run of the Lean transition system; non-trivial = at least two records and two workers".into());
    let mut rng = Rng::new(seed);
    let mut exp = Expect::new(model);
    let mut traces = 0u64;
    let mut branching: Vec<usize> = Vec::new();
    let mut n_sched = 0u64;
    let mut counter = 0u64;
    let mut run_one = |c: &OFCase, section: &str, rep: &mut Report, exp: &mut Expect, traces: &mut u64, branching: &mut Vec<usize>| {
        counter += 1;
        let uid = format!("{}_{}_{}", which, seed, counter);
        progress(&c.req());
        rep.evaluations += 1;
        rep.count(&format!("{}/writer:{}", section, c.path.split(':').next().unwrap()), 1);
        rep.count(&format!("{}/sched:{}", section, c.sched.split(':').next().unwrap()), 1);
        rep.count(&format!("{}/container:{}", section, c.container.split(':').next().unwrap()), 1);
        rep.count(&format!("{}/threads:{}", section, c.threads), 1);
        rep.count(&format!("{}/delim-len:{}", section, c.delim.len()), 1);
        match eval_oligo(c, exp, work, &uid, traces, branching) {
            None => {
                if c.recs.len() >= 2 && c.threads >= 2 {
                    rep.nontrivial.insert(c.req());
                }
                if counter % 97 == 1 {
                    rep.sample(format!("[{}] {}", section, c.describe()));
                }
            }
            Some(f) => {
                if rep.fail_count(section, f.class) < 2 {
                    let from = c.recs.len();
                    let mut tr = 0u64;
                    let mut br = Vec::new();
                    let mut k = 0u64;
                    let work2 = work.to_string();
                    let ev = |x: &OFCase| {
                        // shrinking re-runs with the same schedule string (choices beyond the trace default to 0)
                        let mut e2 = Expect::new(model);
                        let uid2 = format!("{}_s{}", uid, { k += 1; k });
                        let _ = &work2;
                        eval_oligo(x, &mut e2, work, &uid2, &mut tr, &mut br)
                    };
                    // `ev` mutates counters: wrap in a RefCell-free way by using a local fn pointer
                    let evc = std::cell::RefCell::new(ev);
                    let (sc, sf) = shrink_struct(c.clone(), f, &|x| (evc.borrow_mut())(x), &shrink_of, 150);
                    rep.push_fail(section, sc.describe(), sc.req(), sf, from);
                } else {
                    rep.count(&format!("{}/more-failures:{}", section, f.class), 1);
                }
            }
        }
    };
    for c in corpus_lines.iter().filter_map(|l| OFCase::parse(l)) {
        run_one(&c, "corpus", &mut rep, &mut exp, &mut traces, &mut branching);
    }
    for (i, r) in corpus_lines.iter().filter(|l| l.starts_with("oftwice ")).enumerate() {
        rep.evaluations += 1;
        if let Some(f) = eval_twice(r, &mut exp, work, &format!("twc{}", i)) {
            rep.push_fail("corpus", "same computer twice".into(), r.clone(), f, 0);
        }
    }
    for (i, r) in corpus_lines.iter().filter(|l| l.starts_with("ofraw ")).enumerate() {
        rep.evaluations += 1;
        if let Some(f) = eval_raw(r, work, &format!("rawc{}", i)) {
            rep.push_fail("corpus", format!("ill-formed input text: \"{}\"", trunc(&show(&unhex(r.split(' ').last().unwrap_or("-"))), 300)), r.clone(), f, 0);
        }
    }
    if tier == "replay" {
        rep.traces_validated = traces;
        return rep;
    }
    if which == "C16" {
        // library entry points on degenerate record lists, with every kind of delimiter the setter accepts
        let delims: Vec<Vec<u8>> = vec![b" ".to_vec(), b",".to_vec(), b"".to_vec(), b", ".to_vec(), b" | ".to_vec(), "µ".as_bytes().to_vec()];
        let n = if tier == "thorough" { 600 } else { 90 };
        for i in 0..n {
            let k = rng.range(1, 5) as usize;
            let nrec = rng.range(0, 6) as usize;
            let recs: Vec<Vec<u8>> = (0..nrec).map(|_| match rng.below(7) {
                0 => vec![],
                1 => vec![b'A'; 1],
                2 => gen::clean_seq(&mut rng, k.saturating_sub(1), gen::Flavor::Uniform),
                3 => gen::clean_seq(&mut rng, k, gen::Flavor::Uniform),
                4 => vec![b'N'; k + 2],
                5 => { let mut s = gen::clean_seq(&mut rng, k + 3, gen::Flavor::Uniform); s[0] = b'N'; s }
                _ => { let l = k + 1 + rng.below(20) as usize; gen::clean_seq(&mut rng, l, gen::Flavor::Uniform) }
            }).collect();
            let c = OFCase {
                recs, k, norm: rng.chance(2, 3), header: rng.chance(1, 2), delim: delims[i % delims.len()].clone(), threads: *rng.pick(&[1usize, 4]),
                path: rng.pick(&["mmap", "mmap", "batch:1", "batch:4294967296"]).to_string(), container: "fa".into(), sched: "free".into(),
            };
            let mut c = c;
            if c.path == "mmap" {
                c.norm = true; // the mapped writer is the normalised one
            }
            run_one(&c, "degenerate-library", &mut rep, &mut exp, &mut traces, &mut branching);
        }
        rep.traces_validated = traces;
        return rep;
    }
    if tier == "thorough" && which != "C16" {
        for mapped in [true, false] {
            if which == "C14" && !mapped {
                continue;
            }
            rep.evaluations += 1;
            progress(&format!("giant output mapped={}", mapped));
            rep.count("giant-output/cases", 1);
            if let Some(f) = giant_output(mapped, &mut exp, work) {
                rep.push_fail("giant-output", format!("{} identical records, k = 7, {} writer", if mapped { 58_300 } else { 29_200 }, if mapped { "mapped" } else { "batched" }), format!("giant {}", if mapped { 1 } else { 0 }), f, 0);
            } else {
                rep.nontrivial.insert(format!("giant {}", mapped));
            }
        }
    }
    if which == "C14" || which == "C05" {
        // the same computer run twice over a path whose content changed in between
        let n = if tier == "thorough" { 200 } else { 30 };
        for i in 0..n {
            let k = rng.range(1, 4) as usize;
            let (n1, n2) = (rng.range(0, 8) as usize, rng.range(0, 8) as usize);
            let r1 = gen_recs(&mut rng, n1, k, 40);
            let r2 = gen_recs(&mut rng, n2, k, 40);
            let f = |r: &[Vec<u8>]| if r.is_empty() { "-".to_string() } else { r.iter().map(|x| hexr(x)).collect::<Vec<_>>().join(",") };
            let req = format!("oftwice {} {} {} {} {}", k, rng.below(2), *rng.pick(&[1u64, 3]), f(&r1), f(&r2));
            rep.evaluations += 1;
            progress(&req);
            rep.count("same-computer-twice/cases", 1);
            if let Some(fl) = eval_twice(&req, &mut exp, work, &format!("tw{}", i)) {
                if rep.fail_count("same-computer-twice", fl.class) < 2 {
                    rep.push_fail("same-computer-twice", format!("records {} then {}", n1, n2), req.clone(), fl, 0);
                }
            } else if n1 != n2 {
                rep.nontrivial.insert(req);
            }
        }
    }
    if which == "C14" {
        // ill-formed inputs: FASTQ / FASTA text damaged the way concatenated or truncated files are
        let mut raws: Vec<String> = Vec::new();
        let n = if tier == "thorough" { 1500 } else { 200 };
        for _ in 0..n {
            let fastq = rng.chance(2, 3);
            let nrec = rng.range(2, 7) as usize;
            let mut parts: Vec<Vec<u8>> = Vec::new();
            for i in 0..nrec {
                let l = rng.range(1, 30) as usize;
                let sq = gen::clean_seq(&mut rng, l, gen::Flavor::Uniform);
                let mut t = Vec::new();
                if fastq {
                    t.extend_from_slice(format!("@r{}\n", i).as_bytes());
                    t.extend_from_slice(&sq);
                    t.extend_from_slice(b"\n+\n");
                    t.extend(std::iter::repeat(b'I').take(l));
                    t.push(b'\n');
                } else {
                    t.extend_from_slice(format!(">r{}\n", i).as_bytes());
                    t.extend_from_slice(&sq);
                    t.push(b'\n');
                }
                parts.push(t);
            }
            let mut bytes = Vec::new();
            for (i, p) in parts.iter().enumerate() {
                bytes.extend_from_slice(p);
                if i + 1 < parts.len() && rng.chance(1, 2) {
                    // blank line(s) between records (cat of files ending with an empty line), or a stray line
                    bytes.extend_from_slice(*rng.pick(&[&b"\n"[..], &b"\n\n"[..], &b"\r\n"[..], &b" \n"[..], &b"+\n"[..], &b"junk\n"[..]]));
                }
            }
            match rng.below(5) {
                0 => { let cut = rng.below(bytes.len() as u64) as usize; bytes.truncate(cut); }
                1 => bytes.extend_from_slice(b"\n\n"),
                _ => {}
            }
            raws.push(format!("ofraw {} {} {} {} {}", rng.range(1, 4), *rng.pick(&[1u64, 1, 2, 4]), rng.below(2), if fastq { ".fq" } else { ".fa" }, hex(&bytes)));
        }
        for (i, r) in raws.iter().enumerate() {
            rep.evaluations += 1;
            progress(r);
            rep.count("ill-formed-input/cases", 1);
            if let Some(f) = eval_raw(r, work, &format!("raw{}", i)) {
                if rep.fail_count("ill-formed-input", f.class) < 2 {
                    rep.push_fail("ill-formed-input", format!("ill-formed input text: \"{}\"", trunc(&show(&unhex(r.split(' ').last().unwrap_or("-"))), 300)), r.clone(), f, 0);
                }
            }
        }
    }
    let delims: Vec<Vec<u8>> = if which == "C14" {
        vec![b" ".to_vec(), b",".to_vec(), b"\t".to_vec(), b", ".to_vec(), b"".to_vec(), b" | ".to_vec(), b"::::".to_vec(), "µ".as_bytes().to_vec(), " → ".as_bytes().to_vec()]
    } else {
        vec![b" ".to_vec(), b",".to_vec(), b"\t".to_vec()]
    };
    // (1) all interleavings at hook granularity, small cases, by stateless DFS over choice prefixes
    let dfs_cfgs: Vec<(usize, usize)> = if tier == "thorough" { vec![(2, 2), (2, 3), (3, 2), (3, 3), (2, 4)] } else { vec![(2, 2), (2, 3)] };
    for (t, n) in dfs_cfgs {
        let k = 2;
        let recs = gen_recs(&mut rng, n, k, 12);
        let base = OFCase { recs, k, norm: true, header: rng.chance(1, 2), delim: rng.pick(&delims).clone(), threads: t, path: "mmap".into(), container: "fa".into(), sched: "serial:".into() };
        let mut stack: Vec<Vec<usize>> = vec![vec![]];
        let mut explored = 0u64;
        let cap = if tier == "thorough" { 20_000 } else { 1_500 };
        while let Some(prefix) = stack.pop() {
            let mut c = base.clone();
            c.sched = format!("serial:{}", prefix.iter().map(|x| x.to_string()).collect::<Vec<_>>().join("."));
            run_one(&c, "dfs", &mut rep, &mut exp, &mut traces, &mut branching);
            explored += 1;
            n_sched += 1;
            if explored >= cap {
                rep.notes.push(format!("DFS over schedules of {} workers x {} records stopped at the cap of {} schedules", t, n, cap));
                break;
            }
            for i in prefix.len()..branching.len() {
                for alt in 1..branching[i] {
                    let mut p = prefix.clone();
                    p.resize(i, 0);
                    p.push(alt);
                    stack.push(p);
                }
            }
        }
        if explored < cap {
            rep.exhaustive_spaces.push(format!("all {} interleavings (hook granularity) of {} workers over {} records, mmap writer", explored, t, n));
        }
    }
    // (2) random cases: both writer paths, containers, schedules
    let n = if tier == "thorough" { 3000 } else { 260 };
    for _ in 0..n {
        let k = if rng.chance(1, 6) { rng.range(4, 6) as usize } else { rng.range(1, 3) as usize };
        let nrec = match rng.below(5) {
            0 => rng.range(0, 2) as usize,
            1 => rng.range(50, if tier == "thorough" { 2000 } else { 300 }) as usize,
            _ => rng.range(2, 30) as usize,
        };
        let recs = gen_recs(&mut rng, nrec, k, if nrec > 100 { 40 } else { 200 });
        let mmap = rng.chance(1, 2);
        let norm = mmap || rng.chance(1, 2);
        let path = if mmap { "mmap".to_string() } else { format!("batch:{}", rng.pick(&[1usize, 2, 7, 100, 5000, 4 << 30])) };
        let threads = *rng.pick(&[1usize, 2, 3, 4, 8, 16]);
        let sched = match rng.below(4) {
            0 => "free".to_string(),
            1 => format!("jitter:{}", rng.below(1 << 30) + 1),
            _ => {
                if mmap {
                    format!("serialrand:{}", rng.below(1 << 30) + 1)
                } else {
                    "free".to_string()
                }
            }
        };
        let container = match rng.below(6) {
            0 => if rng.chance(1, 2) { "fq".to_string() } else { format!("fqwrap:{}", rng.pick(&[5usize, 16])) },
            1 => format!("fawrap:{}", rng.pick(&[1usize, 7, 60])),
            2 => if rng.chance(1, 2) { "fagz".to_string() } else { "fagzm".to_string() },
            3 => "fqgz".to_string(),
            _ => "fa".to_string(),
        };
        // FASTQ needs non-empty records
        let recs = if container.starts_with("fq") { recs.into_iter().map(|r| if r.is_empty() { b"N".to_vec() } else { r }).collect() } else { recs };
        let c = OFCase { recs, k, norm, header: rng.chance(1, 2), delim: rng.pick(&delims).clone(), threads, path, container, sched };
        run_one(&c, "random", &mut rep, &mut exp, &mut traces, &mut branching);
    }
    // (2a) one record with more than a million windows and three k-mers seen once: frequencies just below 1e-6 sit between
    // the rounding thresholds of the 6-decimal text (0.0000005 rounds up to 0.000001), where shortcuts for "tiny" values go wrong
    for path in ["mmap".to_string(), format!("batch:{}", 4usize << 30)] {
        let n = rng.range(1_050_000, 1_300_000) as usize;
        let mut s = vec![b'A'; n];
        s[n / 3] = b'C';
        s[2 * n / 3] = b'G';
        let recs = vec![gen::clean_seq(&mut rng, 40, gen::Flavor::Uniform), s];
        let c = OFCase { recs, k: 3, norm: true, header: false, delim: b" ".to_vec(), threads: 2, path, container: "fa".into(), sched: "free".into() };
        run_one(&c, "long-record", &mut rep, &mut exp, &mut traces, &mut branching);
    }
    // (2a') a record of more than 2^23 bases in the middle of a file: what is handed to a worker after (or together with) a very
    // long record must still be written
    {
        let n = (1usize << 23) + rng.range(100_000, 400_000) as usize;
        let mut big = gen::clean_seq(&mut rng, 4096, gen::Flavor::Uniform);
        while big.len() < n {
            let l = big.len().min(n - big.len());
            big.extend_from_within(..l);
        }
        let recs = vec![gen::clean_seq(&mut rng, 30, gen::Flavor::Uniform), big, gen::clean_seq(&mut rng, 25, gen::Flavor::Uniform), gen::clean_seq(&mut rng, 9, gen::Flavor::Uniform)];
        let c = OFCase { recs, k: *rng.pick(&[3usize, 4]), norm: true, header: rng.chance(1, 2), delim: b" ".to_vec(), threads: *rng.pick(&[1usize, 4]), path: "mmap".into(), container: "fa".into(), sched: "free".into() };
        run_one(&c, "very-long-record-among-others", &mut rep, &mut exp, &mut traces, &mut branching);
    }
    // (2b) many records in one batch / one mapping with several threads
    for path in ["mmap".to_string(), format!("batch:{}", 4usize << 30)] {
        let n = rng.range(2200, 3000) as usize;
        let recs: Vec<Vec<u8>> = (0..n).map(|i| gen::clean_seq(&mut rng, 2 + (i % 11), gen::Flavor::Uniform)).collect();
        let c = OFCase { recs, k: 2, norm: true, header: false, delim: b" ".to_vec(), threads: 8, path, container: "fa".into(), sched: "free".into() };
        run_one(&c, "many-records", &mut rep, &mut exp, &mut traces, &mut branching);
    }
    // (2c) more than 2^16 records in one mapping / one batch (16-bit record numbers, block-wise readers)
    {
        let n = rng.range(65_600, 67_000) as usize;
        let recs: Vec<Vec<u8>> = (0..n).map(|i| gen::clean_seq(&mut rng, 1 + (i % 5), gen::Flavor::Uniform)).collect();
        let path = if rng.chance(1, 2) { "mmap".to_string() } else { format!("batch:{}", 4usize << 30) };
        let c = OFCase { recs, k: 1, norm: true, header: true, delim: b",".to_vec(), threads: 4, path, container: "fa".into(), sched: "free".into() };
        run_one(&c, "records-beyond-16-bits", &mut rep, &mut exp, &mut traces, &mut branching);
    }
    // (3) the same records through every container and both writers must give identical bytes (checked against the one expectation above)
    rep.traces_validated = traces;
    rep.schedules_enumerated = n_sched;
    rep
}
