//! generic correspondence engine: cases → implementation answers, model answers, verdicts,
//! shrinking, report
use crate::model::Model;
use crate::util::*;
use std::collections::{BTreeMap, HashSet};

#[derive(Clone, Debug)]
pub struct Case {
    /// request keyword of the model driver
    pub kind: &'static str,
    pub params: Vec<u64>,
    pub seq: Vec<u8>,
    /// extra words appended after the hex sequence (already rendered)
    pub extra: String,
    /// outside the property's quantifier domain: logged, never decides
    pub info: bool,
    pub tag: &'static str,
}

impl Case {
    pub fn new(kind: &'static str, params: &[u64], seq: &[u8], tag: &'static str) -> Self {
        Case {
            kind,
            params: params.to_vec(),
            seq: seq.to_vec(),
            extra: String::new(),
            info: false,
            tag,
        }
    }
    pub fn req(&self) -> String {
        let mut s = self.kind.to_string();
        for p in &self.params {
            s.push(' ');
            s.push_str(&p.to_string());
        }
        s.push(' ');
        s.push_str(&hex(&self.seq));
        if !self.extra.is_empty() {
            s.push(' ');
            s.push_str(&self.extra);
        }
        s
    }
    pub fn describe(&self) -> String {
        format!(
            "{} params={:?} seq=\"{}\" (len {}){}",
            self.kind,
            self.params,
            show(&self.seq),
            self.seq.len(),
            if self.extra.is_empty() {
                String::new()
            } else {
                format!(" extra={}", self.extra)
            }
        )
    }
}

#[derive(Clone, Debug)]
pub enum Verdict {
    Ok { nontrivial: bool },
    /// implementation ≠ model, but the property's spec is not contradicted on this case
    ModelDiff(String),
    /// implementation output contradicts the property (spec side of the answer); names the theorem
    SpecViolation(String, &'static str),
}

pub type ImplFn<'a> = dyn Fn(&Case) -> String + Sync + 'a;
pub type JudgeFn<'a> = dyn Fn(&Case, &str, &str) -> Verdict + Sync + 'a;

#[derive(Clone, Debug)]
pub struct Failure {
    pub class: &'static str, // "spec" | "model"
    pub case_desc: String,
    pub req: String,
    pub impl_out: String,
    pub model_out: String,
    pub detail: String,
    pub theorem: String,
    pub info: bool,
    pub shrunk_from: usize,
}

#[derive(Default)]
pub struct Report {
    pub property: String,
    pub evaluations: u64,
    pub nontrivial: HashSet<String>,
    pub distribution: BTreeMap<String, u64>,
    pub samples: Vec<String>,
    pub failures: Vec<Failure>,
    pub info_disagreements: u64,
    pub info_samples: Vec<String>,
    pub exhaustive_spaces: Vec<String>,
    pub traces_validated: u64,
    pub schedules_enumerated: u64,
    pub notes: Vec<String>,
    pub rules: Vec<String>,
}

impl Report {
    pub fn new(p: &str) -> Self {
        Report {
            property: p.to_string(),
            ..Default::default()
        }
    }
    pub fn count(&mut self, key: &str, n: u64) {
        *self.distribution.entry(key.to_string()).or_insert(0) += n;
    }
    pub fn sample(&mut self, s: String) {
        if self.samples.len() < 12 {
            self.samples.push(s);
        }
    }
    pub fn decisive_failures(&self) -> Vec<&Failure> {
        self.failures.iter().filter(|f| !f.info).collect()
    }
    pub fn to_json(&self) -> String {
        let fails: Vec<String> = self
            .failures
            .iter()
            .map(|f| {
                Obj::new()
                    .s("class", f.class)
                    .s("case", &f.case_desc)
                    .s("request", &f.req)
                    .s("impl", &trunc(&f.impl_out, 4000))
                    .s("model", &trunc(&f.model_out, 4000))
                    .s("detail", &trunc(&f.detail, 4000))
                    .s("theorem", &f.theorem)
                    .b("informational", f.info)
                    .n("shrunk_from_len", f.shrunk_from as u64)
                    .render()
            })
            .collect();
        let dist: Vec<String> = self
            .distribution
            .iter()
            .map(|(k, v)| format!("{}:{}", json_str(k), v))
            .collect();
        Obj::new()
            .s("property", &self.property)
            .n("evaluations", self.evaluations)
            .n("distinct_nontrivial", self.nontrivial.len() as u64)
            .raw("rules", json_arr(&self.rules.iter().map(|s| json_str(s)).collect::<Vec<_>>()))
            .raw("samples", json_arr(&self.samples.iter().map(|s| json_str(s)).collect::<Vec<_>>()))
            .raw("distribution", format!("{{{}}}", dist.join(",")))
            .raw("failures", json_arr(&fails))
            .n("informational_disagreements", self.info_disagreements)
            .raw(
                "informational_samples",
                json_arr(&self.info_samples.iter().map(|s| json_str(s)).collect::<Vec<_>>()),
            )
            .raw(
                "exhaustive_spaces",
                json_arr(&self.exhaustive_spaces.iter().map(|s| json_str(s)).collect::<Vec<_>>()),
            )
            .n("traces_validated_against_impl", self.traces_validated)
            .n("schedules_enumerated", self.schedules_enumerated)
            .raw("notes", json_arr(&self.notes.iter().map(|s| json_str(s)).collect::<Vec<_>>()))
            .render()
    }
}

pub fn trunc(s: &str, n: usize) -> String {
    if s.len() <= n {
        s.to_string()
    } else {
        let mut e = n;
        while !s.is_char_boundary(e) {
            e -= 1;
        }
        format!("{}…(+{} bytes)", &s[..e], s.len() - e)
    }
}

/// implementation answers for all cases, in parallel, panics captured
pub fn run_impl_all(cases: &[Case], f: &ImplFn<'_>) -> Vec<String> {
    let n = cases.len();
    let nthreads = std::thread::available_parallelism()
        .map(|x| x.get())
        .unwrap_or(4)
        .min(16);
    let chunk = ((n + nthreads - 1) / nthreads).max(1);
    let mut out: Vec<Vec<String>> = Vec::new();
    std::thread::scope(|sc| {
        let hs: Vec<_> = cases
            .chunks(chunk)
            .map(|cs| {
                sc.spawn(move || {
                    cs.iter()
                        .map(|c| {
                            match catch(std::panic::AssertUnwindSafe(|| f(c))) {
                                Ok(s) => s,
                                Err(m) => format!("panic:{}", m),
                            }
                        })
                        .collect::<Vec<String>>()
                })
            })
            .collect();
        for h in hs {
            out.push(h.join().expect("impl thread"));
        }
    });
    out.into_iter().flatten().collect()
}

static CASE_OFFSET: std::sync::atomic::AtomicUsize = std::sync::atomic::AtomicUsize::new(0);

/// `VERIF_SHARD=lo:hi` restricts a run to the generated cases with global index in [lo, hi) (used by
/// ./check to localise a case that kills the harness process: abort, heap corruption); the requests
/// of a shard of at most 64 cases are appended to `VERIF_SHARD_LOG` before they are executed
fn shard() -> Option<(usize, usize)> {
    let v = std::env::var("VERIF_SHARD").ok()?;
    let mut it = v.split(':');
    Some((it.next()?.parse().ok()?, it.next()?.parse().ok()?))
}

/// structured (file / schedule / history level) cases announce themselves before they run, so that a
/// case which kills the process can be named by ./check (`VERIF_PROGRESS` = file to overwrite)
pub fn progress(req: &str) {
    if let Ok(path) = std::env::var("VERIF_PROGRESS") {
        let _ = std::fs::write(path, req);
    }
    if let Ok(mut g) = CURRENT.lock() {
        *g = Some((std::time::Instant::now(), req.to_string()));
    }
}

static CURRENT: std::sync::Mutex<Option<(std::time::Instant, String)>> = std::sync::Mutex::new(None);

/// a structured case that does not finish (deadlock / livelock of the code under test, e.g. after an
/// out-of-range access) would stall the whole check: the watchdog aborts the process instead, and
/// ./check names the case from the progress file
pub fn start_watchdog(limit_s: u64) {
    std::thread::spawn(move || loop {
        std::thread::sleep(std::time::Duration::from_secs(2));
        let cur = CURRENT.lock().ok().and_then(|g| g.clone());
        if let Some((t0, req)) = cur {
            if t0.elapsed().as_secs() > limit_s {
                eprintln!("WATCHDOG: a case did not finish within {} s: {}", limit_s, trunc(&req, 300));
                std::process::abort();
            }
        }
    });
}

/// the structured part of a run is over (bulk sections have no per-case deadline)
pub fn progress_done() {
    if let Ok(mut g) = CURRENT.lock() {
        *g = None;
    }
}

/// true while ./check bisects a process-killing case: only the shardable per-record sections run
pub fn sharded() -> bool {
    std::env::var("VERIF_SHARD").is_ok()
}

/// run one section of cases through implementation, model and judge; failures are shrunk
pub fn run_section(
    rep: &mut Report,
    model: &Model,
    section: &str,
    cases: Vec<Case>,
    run_impl: &ImplFn<'_>,
    judge: &JudgeFn<'_>,
) {
    progress_done();
    let base = CASE_OFFSET.fetch_add(cases.len(), std::sync::atomic::Ordering::SeqCst);
    let mut cases = cases;
    let mut sequential = false;
    if let Some((lo, hi)) = shard() {
        cases = cases.into_iter().enumerate().filter(|(i, _)| base + i >= lo && base + i < hi).map(|(_, c)| c).collect();
        sequential = true;
        if hi - lo <= 64 {
            if let Ok(path) = std::env::var("VERIF_SHARD_LOG") {
                use std::io::Write;
                if let Ok(mut f) = std::fs::OpenOptions::new().create(true).append(true).open(path) {
                    for c in &cases {
                        let _ = writeln!(f, "{}", c.req());
                    }
                }
            }
        }
    }
    if cases.is_empty() {
        return;
    }
    let reqs: Vec<String> = cases.iter().map(|c| c.req()).collect();
    let impl_out = if sequential {
        cases.iter().map(|c| match catch(std::panic::AssertUnwindSafe(|| run_impl(c))) { Ok(s) => s, Err(m) => format!("panic:{}", m) }).collect()
    } else {
        run_impl_all(&cases, run_impl)
    };
    let model_out = model.query(&reqs);
    let mut failing: Vec<(usize, Verdict)> = Vec::new();
    for (i, c) in cases.iter().enumerate() {
        rep.evaluations += 1;
        rep.count(&format!("{}/gen:{}", section, c.tag), 1);
        rep.count(&format!("{}/len:{}", section, len_bucket(c.seq.len())), 1);
        if c.info {
            rep.count(&format!("{}/informational", section), 1);
        }
        if model_out[i].starts_with("panic") {
            rep.count(&format!("{}/model:{}", section, model_out[i].split('|').next().unwrap_or("")), 1);
        }
        if impl_out[i].starts_with("panic") {
            rep.count(&format!("{}/impl:panic", section), 1);
        }
        let v = judge(c, &impl_out[i], &model_out[i]);
        match v {
            Verdict::Ok { nontrivial } => {
                if nontrivial && !c.info {
                    rep.nontrivial.insert(reqs[i].clone());
                }
                if i % (cases.len() / 3 + 1) == 0 {
                    rep.sample(format!(
                        "[{}] {} => impl {}",
                        section,
                        c.describe(),
                        trunc(&impl_out[i], 160)
                    ));
                }
            }
            other => failing.push((i, other)),
        }
    }
    // report at most 2 decisive failures per (class, theorem) per section, shrunk
    let mut seen: BTreeMap<String, u32> = BTreeMap::new();
    for (i, v) in failing {
        let c = &cases[i];
        if c.info {
            rep.info_disagreements += 1;
            if rep.info_samples.len() < 5 {
                rep.info_samples.push(format!(
                    "[{}] {} impl={} model={}",
                    section,
                    c.describe(),
                    trunc(&impl_out[i], 120),
                    trunc(&model_out[i], 120)
                ));
            }
            continue;
        }
        let key = match &v {
            Verdict::SpecViolation(_, t) => format!("spec:{}", t),
            _ => "model".to_string(),
        };
        let n = seen.entry(key.clone()).or_insert(0);
        *n += 1;
        if *n > 2 {
            rep.count(&format!("{}/more-failures:{}", section, key), 1);
            continue;
        }
        let (sc, si, sm, sv) = shrink(model, c, &impl_out[i], &model_out[i], v, run_impl, judge);
        let (class, detail, thm) = match sv {
            Verdict::SpecViolation(d, t) => ("spec", d, t.to_string()),
            Verdict::ModelDiff(d) => ("model", d, String::new()),
            Verdict::Ok { .. } => unreachable!(),
        };
        rep.failures.push(Failure {
            class,
            case_desc: format!("[{}] {}", section, sc.describe()),
            req: sc.req(),
            impl_out: si,
            model_out: sm,
            detail,
            theorem: thm,
            info: false,
            shrunk_from: c.seq.len(),
        });
    }
}

fn len_bucket(n: usize) -> &'static str {
    match n {
        0 => "0",
        1..=3 => "1-3",
        4..=15 => "4-15",
        16..=63 => "16-63",
        64..=255 => "64-255",
        256..=1023 => "256-1023",
        _ => "1024+",
    }
}

fn same_class(a: &Verdict, b: &Verdict) -> bool {
    matches!(
        (a, b),
        (Verdict::SpecViolation(..), Verdict::SpecViolation(..)) | (Verdict::ModelDiff(_), Verdict::ModelDiff(_))
    )
}

/// delta-debugging on the byte sequence (drop chunks, then simplify bytes to 'A')
pub fn shrink(
    model: &Model,
    c: &Case,
    impl_out: &str,
    model_out: &str,
    v: Verdict,
    run_impl: &ImplFn<'_>,
    judge: &JudgeFn<'_>,
) -> (Case, String, String, Verdict) {
    let mut best = (c.clone(), impl_out.to_string(), model_out.to_string(), v);
    let mut rounds = 0;
    let t0 = std::time::Instant::now();
    let mut out_of_time = false;
    loop {
        rounds += 1;
        if rounds > 40 || out_of_time {
            break;
        }
        let cur = &best.0;
        let n = cur.seq.len();
        let mut cands: Vec<Case> = Vec::new();
        // remove chunks
        let mut sz = n / 2;
        while sz >= 1 {
            let mut st = 0;
            while st + sz <= n {
                let mut s = cur.seq[..st].to_vec();
                s.extend_from_slice(&cur.seq[st + sz..]);
                let mut cc = cur.clone();
                cc.seq = s;
                cands.push(cc);
                st += sz;
            }
            sz /= 2;
            if cands.len() > 400 {
                break;
            }
        }
        // simplify bytes
        if n <= 64 {
            for i in 0..n {
                if cur.seq[i] != b'A' {
                    let mut cc = cur.clone();
                    cc.seq[i] = b'A';
                    cands.push(cc);
                }
            }
        }
        if cands.is_empty() {
            break;
        }
        // candidates are evaluated in small batches (first failing one wins) under a time budget: one model query on a
        // 70 kb sequence with a 65 k window costs tens of seconds, and a replay that is not minimal is still a replay
        let mut found = None;
        let batch = if n > 20_000 { 8 } else { 64 };
        for chunk in cands.chunks(batch) {
            if t0.elapsed().as_secs() > 120 {
                out_of_time = true;
                break;
            }
            let reqs: Vec<String> = chunk.iter().map(|x| x.req()).collect();
            let io = run_impl_all(chunk, run_impl);
            let mo = model.query(&reqs);
            for (i, cc) in chunk.iter().enumerate() {
                let vv = judge(cc, &io[i], &mo[i]);
                if same_class(&vv, &best.3) {
                    found = Some((cc.clone(), io[i].clone(), mo[i].clone(), vv));
                    break;
                }
            }
            if found.is_some() {
                break;
            }
        }
        if out_of_time && found.is_none() {
            break;
        }
        match found {
            Some(f) => best = f,
            None => break,
        }
    }
    best
}

/// outcome of one structured case (file-level, schedule-level, history-level)
#[derive(Clone, Debug)]
pub struct Fail {
    pub class: &'static str, // "spec" | "model"
    pub detail: String,
    pub theorem: &'static str,
    pub impl_out: String,
    pub model_out: String,
}

/// greedy shrinking for structured cases: keep replacing the case by the first candidate that
/// still fails in the same class
pub fn shrink_struct<T: Clone>(
    case: T,
    first: Fail,
    eval: &dyn Fn(&T) -> Option<Fail>,
    cands: &dyn Fn(&T) -> Vec<T>,
    budget: usize,
) -> (T, Fail) {
    let mut best = (case, first);
    let mut used = 0;
    let t0 = std::time::Instant::now();
    loop {
        let mut progressed = false;
        for c in cands(&best.0) {
            used += 1;
            if used > budget || t0.elapsed().as_secs() > 90 {
                return best;
            }
            if let Some(f) = eval(&c) {
                if f.class == best.1.class {
                    best = (c, f);
                    progressed = true;
                    break;
                }
            }
        }
        if !progressed {
            return best;
        }
    }
}

impl Report {
    /// fold another report (another section of the same property) into this one
    pub fn merge(&mut self, o: Report) {
        self.evaluations += o.evaluations;
        self.nontrivial.extend(o.nontrivial);
        for (k, v) in o.distribution {
            *self.distribution.entry(k).or_insert(0) += v;
        }
        for s in o.samples {
            if self.samples.len() < 16 {
                self.samples.push(s);
            }
        }
        self.failures.extend(o.failures);
        self.info_disagreements += o.info_disagreements;
        self.info_samples.extend(o.info_samples);
        self.exhaustive_spaces.extend(o.exhaustive_spaces);
        self.traces_validated += o.traces_validated;
        self.schedules_enumerated += o.schedules_enumerated;
        self.notes.extend(o.notes);
        self.rules.extend(o.rules);
    }
    /// record a structured failure (already shrunk); `req` must replay the case
    pub fn push_fail(&mut self, section: &str, desc: String, req: String, f: Fail, shrunk_from: usize) {
        self.failures.push(Failure {
            class: f.class,
            case_desc: format!("[{}] {}", section, desc),
            req,
            impl_out: f.impl_out,
            model_out: f.model_out,
            detail: f.detail,
            theorem: f.theorem.to_string(),
            info: false,
            shrunk_from,
        });
    }
    pub fn fail_count(&self, section: &str, class: &str) -> usize {
        self.failures
            .iter()
            .filter(|f| f.class == class && f.case_desc.starts_with(&format!("[{}]", section)))
            .count()
    }
}

/// shrinking candidates for a record list: for long lists only whole blocks are dropped (halves,
/// quarters, eighths …), for short ones single records are dropped and records are halved
pub fn shrink_records(recs: &[Vec<u8>]) -> Vec<Vec<Vec<u8>>> {
    let n = recs.len();
    let mut out: Vec<Vec<Vec<u8>>> = Vec::new();
    if n > 24 {
        let mut parts = 2;
        while parts <= 16 {
            let sz = (n + parts - 1) / parts;
            let mut st = 0;
            while st < n {
                let mut v = recs[..st].to_vec();
                v.extend_from_slice(&recs[(st + sz).min(n)..]);
                out.push(v);
                st += sz;
            }
            parts *= 2;
        }
        return out;
    }
    for i in 0..n {
        let mut v = recs.to_vec();
        v.remove(i);
        out.push(v);
    }
    for i in 0..n {
        if recs[i].len() > 1 {
            let mut v = recs.to_vec();
            let h = v[i].len() / 2;
            v[i].truncate(h);
            out.push(v);
        }
    }
    out
}
