//! C15, C16, C17: the shipped binary (built with the guard off) against the Lean model
use crate::engine::*;
use crate::gen;
use crate::model::Model;
use crate::p_covfile::{expected_rows, CovCase};
use crate::p_file::{write_input, Expect, OFCase};
use crate::util::*;
use std::collections::BTreeMap;
use std::io::{Read, Write};
use std::process::{Command, Stdio};
use std::time::{Duration, Instant};

#[derive(Clone, Debug)]
pub enum Sub {
    Oligo { k: u64, counts: bool, header: bool, preset: String, threads: u64, stdin: bool },
    Cgr { k: Option<u64>, counts: bool, v: Option<u64>, threads: u64 },
    Cov { k: u64, bs: u64, bc: u64, mem: u64, counts: bool, preset: String, threads: u64, alt: Option<Vec<Vec<u8>>> },
    Min { m: u64, w: u64, preset: String, threads: u64 },
    Ctr { k: u64, mem: u64, acgt: bool, threads: u64 },
}

#[derive(Clone, Debug)]
pub struct CliCase {
    pub sub: Sub,
    pub recs: Vec<Vec<u8>>,
    /// "fa" | "fq" | "fawrap:<w>" | "fagz" | "empty" (a zero-byte file)
    pub container: String,
}

fn recs_field(r: &[Vec<u8>]) -> String {
    if r.is_empty() { "-".into() } else { r.iter().map(|x| hexr(x)).collect::<Vec<_>>().join(",") }
}
fn parse_recs(s: &str) -> Vec<Vec<u8>> {
    if s == "-" { vec![] } else { s.split(',').map(unhex).collect() }
}
fn b(x: bool) -> &'static str {
    if x { "1" } else { "0" }
}
fn o(x: &Option<u64>) -> String {
    x.map(|v| v.to_string()).unwrap_or("~".into())
}
fn po(s: &str) -> Option<u64> {
    if s == "~" { None } else { s.parse().ok() }
}

impl CliCase {
    pub fn req(&self) -> String {
        let tail = format!("{} {}", self.container, recs_field(&self.recs));
        match &self.sub {
            Sub::Oligo { k, counts, header, preset, threads, stdin } => format!("clicase oligo {} {} {} {} {} {} {}", k, b(*counts), b(*header), preset, threads, b(*stdin), tail),
            Sub::Cgr { k, counts, v, threads } => format!("clicase cgr {} {} {} {} {}", o(k), b(*counts), o(v), threads, tail),
            Sub::Cov { k, bs, bc, mem, counts, preset, threads, alt } => format!(
                "clicase cov {} {} {} {} {} {} {} {} {}",
                k, bs, bc, mem, b(*counts), preset, threads, alt.as_ref().map(|a| recs_field(a)).unwrap_or("~".into()), tail
            ),
            Sub::Min { m, w, preset, threads } => format!("clicase min {} {} {} {} {}", m, w, preset, threads, tail),
            Sub::Ctr { k, mem, acgt, threads } => format!("clicase ctr {} {} {} {} {}", k, mem, b(*acgt), threads, tail),
        }
    }
    pub fn parse(line: &str) -> Option<CliCase> {
        let w: Vec<&str> = line.split_whitespace().collect();
        if w.len() < 4 || w[0] != "clicase" {
            return None;
        }
        let n = w.len();
        let container = w[n - 2].to_string();
        let recs = parse_recs(w[n - 1]);
        let sub = match w[1] {
            "oligo" if n == 10 => Sub::Oligo { k: w[2].parse().ok()?, counts: w[3] == "1", header: w[4] == "1", preset: w[5].into(), threads: w[6].parse().ok()?, stdin: w[7] == "1" },
            "cgr" if n == 8 => Sub::Cgr { k: po(w[2]), counts: w[3] == "1", v: po(w[4]), threads: w[5].parse().ok()? },
            "cov" if n == 12 => Sub::Cov {
                k: w[2].parse().ok()?, bs: w[3].parse().ok()?, bc: w[4].parse().ok()?, mem: w[5].parse().ok()?, counts: w[6] == "1",
                preset: w[7].into(), threads: w[8].parse().ok()?, alt: if w[9] == "~" { None } else { Some(parse_recs(w[9])) },
            },
            "min" if n == 8 => Sub::Min { m: w[2].parse().ok()?, w: w[3].parse().ok()?, preset: w[4].into(), threads: w[5].parse().ok()? },
            "ctr" if n == 8 => Sub::Ctr { k: w[2].parse().ok()?, mem: w[3].parse().ok()?, acgt: w[4] == "1", threads: w[5].parse().ok()? },
            _ => return None,
        };
        Some(CliCase { sub, recs, container })
    }
    pub fn describe(&self) -> String {
        format!("kmertools {} on {} ({} records: {})", self.cmdline("IN", "OUT", Some("ALT")).join(" "), self.container, self.recs.len(),
            self.recs.iter().take(4).map(|r| show(&r[..r.len().min(24)])).collect::<Vec<_>>().join(" | "))
    }
    /// the arguments after the binary name
    pub fn cmdline(&self, inp: &str, out: &str, alt: Option<&str>) -> Vec<String> {
        let mut a: Vec<String> = Vec::new();
        let s = |x: &str| x.to_string();
        match &self.sub {
            Sub::Oligo { k, counts, header, preset, threads, stdin } => {
                a.extend([s("comp"), s("oligo"), s("-i"), if *stdin { s("-") } else { s(inp) }, s("-o"), s(out), s("-k"), k.to_string(), s("-p"), preset.clone(), s("-t"), threads.to_string()]);
                if *counts { a.push(s("-c")); }
                if *header { a.push(s("-H")); }
            }
            Sub::Cgr { k, counts, v, threads } => {
                a.extend([s("comp"), s("cgr"), s("-i"), s(inp), s("-o"), s(out), s("-t"), threads.to_string()]);
                if let Some(k) = k { a.extend([s("-k"), k.to_string()]); }
                if let Some(v) = v { a.extend([s("-v"), v.to_string()]); }
                if *counts { a.push(s("-c")); }
            }
            Sub::Cov { k, bs, bc, mem, counts, preset, threads, alt: al } => {
                a.extend([s("cov"), s("-i"), s(inp), s("-o"), s(out), s("-k"), k.to_string(), s("-s"), bs.to_string(), s("-c"), bc.to_string(), s("-m"), mem.to_string(), s("-p"), preset.clone(), s("-t"), threads.to_string()]);
                if *counts { a.push(s("--counts")); }
                if al.is_some() { a.extend([s("-a"), s(alt.unwrap_or("ALT"))]); }
            }
            Sub::Min { m, w, preset, threads } => {
                a.extend([s("min"), s("-i"), s(inp), s("-o"), s(out), s("-m"), m.to_string(), s("-w"), w.to_string(), s("-p"), preset.clone(), s("-t"), threads.to_string()]);
            }
            Sub::Ctr { k, mem, acgt, threads } => {
                a.extend([s("ctr"), s("-i"), s(inp), s("-o"), s(out), s("-k"), k.to_string(), s("-m"), mem.to_string(), s("-t"), threads.to_string()]);
                if *acgt { a.push(s("-a")); }
            }
        }
        a
    }
    pub fn out_is_dir(&self) -> bool {
        matches!(self.sub, Sub::Cov { .. } | Sub::Ctr { .. })
    }
    /// model request for the accept / refuse decision
    pub fn decision_req(&self) -> String {
        match &self.sub {
            Sub::Oligo { k, counts, header, preset, threads, .. } => format!("cli oligo {} {} {} {} {}", k, b(*counts), b(*header), preset, threads),
            Sub::Cgr { k, counts, v, threads } => format!("cli cgr {} {} {} {}", o(k), b(*counts), o(v), threads),
            Sub::Cov { k, bs, bc, mem, counts, preset, threads, .. } => format!("cli cov {} {} {} {} {} {} {}", k, bs, bc, mem, b(*counts), preset, threads),
            Sub::Min { m, w, preset, threads } => format!("cli min {} {} {} {}", m, w, preset, threads),
            Sub::Ctr { k, mem, acgt, threads } => format!("cli ctr {} {} {} {}", k, mem, b(*acgt), threads),
        }
    }
}

pub struct ProcOut {
    pub code: Option<i32>,
    pub stderr: String,
    pub timed_out: bool,
}

/// size of rayon's global pool for a run of the binary (`RAYON_NUM_THREADS`; `-t` sizes the pools the computers build
/// themselves): chosen by a hash of the case so that a replay repeats it; `None` = auto-detected
pub fn pool_env(req: &str) -> Option<u32> {
    let mut h: u64 = 0x9e3779b97f4a7c15;
    for b in req.bytes() {
        h = (h ^ b as u64).wrapping_mul(0x100000001b3);
    }
    [None, None, Some(1), Some(3), Some(6), Some(13), Some(24), Some(48)][((h >> 11) % 8) as usize]
}

pub fn run_bin(bin: &str, args: &[String], stdin: Option<&[u8]>, timeout_s: u64) -> ProcOut {
    run_bin_env(bin, args, stdin, timeout_s, None)
}

pub fn run_bin_env(bin: &str, args: &[String], stdin: Option<&[u8]>, timeout_s: u64, pool: Option<u32>) -> ProcOut {
    let mut cmd = Command::new(bin);
    match pool {
        Some(n) => {
            cmd.env("RAYON_NUM_THREADS", n.to_string());
        }
        None => {
            cmd.env_remove("RAYON_NUM_THREADS");
        }
    }
    cmd.args(args).stdout(Stdio::null()).stderr(Stdio::piped());
    cmd.stdin(if stdin.is_some() { Stdio::piped() } else { Stdio::null() });
    let mut child = match cmd.spawn() {
        Ok(c) => c,
        Err(e) => return ProcOut { code: None, stderr: format!("cannot start {}: {}", bin, e), timed_out: false },
    };
    if let (Some(data), Some(mut si)) = (stdin, child.stdin.take()) {
        let data = data.to_vec();
        std::thread::spawn(move || {
            let _ = si.write_all(&data);
        });
    }
    let mut se = child.stderr.take().unwrap();
    let h = std::thread::spawn(move || {
        let mut s = String::new();
        let _ = se.read_to_string(&mut s);
        s
    });
    let t0 = Instant::now();
    let mut timed_out = false;
    let code = loop {
        match child.try_wait() {
            Ok(Some(st)) => break st.code(),
            Ok(None) => {
                if t0.elapsed() > Duration::from_secs(timeout_s) {
                    let _ = child.kill();
                    let _ = child.wait();
                    timed_out = true;
                    break None;
                }
                std::thread::sleep(Duration::from_millis(2));
            }
            Err(_) => break None,
        }
    };
    let stderr = h.join().unwrap_or_default();
    ProcOut { code, stderr, timed_out }
}

/// files of a run: name (relative to the output location, "" = the output file itself) ↦ bytes
pub type Files = BTreeMap<String, Vec<u8>>;

pub fn collect(out: &str, is_dir: bool) -> Files {
    let mut f = Files::new();
    if is_dir {
        if let Ok(rd) = std::fs::read_dir(out) {
            for e in rd.flatten() {
                let n = e.file_name().to_string_lossy().to_string();
                if let Ok(bytes) = std::fs::read(e.path()) {
                    f.insert(n, bytes);
                }
            }
        }
    } else if let Ok(bytes) = std::fs::read(out) {
        f.insert(String::new(), bytes);
    }
    f
}

pub struct Expected {
    pub decision: String,
    /// file name ↦ (content, ordered)
    pub files: BTreeMap<String, (Vec<u8>, bool)>,
    /// whole-sequence CGR on a record with a non-nucleotide byte: the run may be refused
    pub bad_nucleotide: bool,
}

fn fmt_f64(bits: u64) -> String {
    format!("{}", f64::from_bits(bits))
}

pub fn expected(c: &CliCase, model: &Model) -> Result<Expected, String> {
    let ans = model.query(&[c.decision_req()]);
    let f: Vec<&str> = ans[0].split('|').collect();
    let decision = f[0].to_string();
    let mut files = BTreeMap::new();
    let mut bad = false;
    if decision != "run" {
        return Ok(Expected { decision, files, bad_nucleotide: false });
    }
    match &c.sub {
        Sub::Oligo { k, counts, header, threads: _, .. } => {
            let delim = unhex(f.get(1).unwrap_or(&"20"));
            let mut e = Expect::new(model);
            let oc = OFCase { recs: c.recs.clone(), k: *k as usize, norm: !*counts, header: *header, delim, threads: 1, path: "mmap".into(), container: "fa".into(), sched: "free".into() };
            let (bytes, _, _) = e.file(&oc);
            files.insert(String::new(), (bytes, true));
        }
        Sub::Cgr { k: None, .. } => {
            let size: u64 = f.get(1).and_then(|x| x.parse().ok()).unwrap_or(1);
            let reqs: Vec<String> = c.recs.iter().map(|r| format!("cgr {} {}", size, hex(r))).collect();
            let ans = model.query(&reqs);
            let mut out = Vec::new();
            for a in ans {
                let g: Vec<&str> = a.split('|').collect();
                if g[0] == "err" {
                    bad = true;
                    continue;
                }
                if g[0] != "ok" {
                    return Err(format!("model cgr failed: {}", a));
                }
                let pts: Vec<String> = if g[1].is_empty() { vec![] } else {
                    g[1].split(',').map(|p| { let mut it = p.split(':'); format!("({},{})", fmt_f64(it.next().unwrap().parse().unwrap()), fmt_f64(it.next().unwrap().parse().unwrap())) }).collect()
                };
                out.extend(format!("{}\n", pts.join(" ")).into_bytes());
            }
            files.insert(String::new(), (out, true));
        }
        Sub::Cgr { k: Some(k), counts, .. } => {
            let size: u64 = f.get(1).and_then(|x| x.parse().ok()).unwrap_or(1);
            let reqs: Vec<String> = c.recs.iter().map(|r| format!("oligocgr {} {} {} {}", k, size, b(!*counts), hex(r))).collect();
            let ans = model.query(&reqs);
            let mut out = Vec::new();
            for a in ans {
                let g: Vec<&str> = a.split('|').collect();
                if g[0] != "ok" {
                    return Err(format!("model oligocgr failed: {}", a));
                }
                let pts: Vec<String> = if g[1].is_empty() { vec![] } else {
                    g[1].split(',').map(|p| { let v: Vec<u64> = p.split(':').map(|x| x.parse().unwrap()).collect(); format!("({},{},{})", fmt_f64(v[0]), fmt_f64(v[1]), fmt_f64(v[2])) }).collect()
                };
                out.extend(format!("{}\n", pts.join(" ")).into_bytes());
            }
            files.insert(String::new(), (out, true));
        }
        Sub::Cov { k, bs, bc, counts, threads, alt, .. } => {
            let delim = unhex(f.get(1).unwrap_or(&"20"));
            let cc = CovCase { recs: c.recs.clone(), alt: alt.clone(), k: *k as usize, bin_size: *bs as usize, bin_count: *bc as usize, norm: !*counts, delim, threads: *threads as usize, mem: 6.0, prev: None };
            files.insert("kmers.vectors".into(), (expected_rows(&cc, model)?, true));
            let counting = alt.as_ref().unwrap_or(&c.recs);
            files.insert("kmers.counts".into(), (counts_file(model, *k, counting, false)?, false));
        }
        Sub::Ctr { k, acgt, .. } => {
            files.insert("kmers.counts".into(), (counts_file(model, *k, &c.recs, *acgt)?, false));
        }
        Sub::Min { m, w, preset, .. } => {
            let recs_f = if c.recs.is_empty() { "-".to_string() } else {
                c.recs.iter().enumerate().map(|(i, r)| format!("{}:{}", hex(crate::p_file::rec_id(i).as_bytes()), hex(r))).collect::<Vec<_>>().join(",")
            };
            let ans = model.query(&[format!("s2m {} {} {}", w, m, recs_f)]);
            let g: Vec<&str> = ans[0].split('|').collect();
            if g[0] != "ok" || g.len() < 3 {
                return Err(format!("model s2m failed: {}", ans[0]));
            }
            let lines: Vec<Vec<u8>> = if g[2].is_empty() { vec![] } else { g[2].split(',').map(unhex).collect() };
            if preset == "s2m" {
                files.insert(String::new(), (lines.concat(), false));
            } else {
                // inversion of the s2m lines, rendered canonically (see `canon_m2s`)
                let mut inv: BTreeMap<String, Vec<(String, usize, usize)>> = BTreeMap::new();
                for l in &lines {
                    let t = String::from_utf8_lossy(l).to_string();
                    let fields: Vec<&str> = t.trim_end_matches('\n').split('\t').filter(|x| !x.is_empty()).collect();
                    if fields.is_empty() { continue; }
                    for r in &fields[1..] {
                        let mut kv = r.splitn(2, ':');
                        let key = kv.next().unwrap_or("").to_string();
                        let mut se = kv.next().unwrap_or("").splitn(2, '-');
                        let s: usize = se.next().unwrap_or("0").parse().unwrap_or(0);
                        let e: usize = se.next().unwrap_or("0").parse().unwrap_or(0);
                        inv.entry(key).or_default().push((fields[0].to_string(), s, e));
                    }
                }
                let mut out = String::new();
                for (k, mut v) in inv {
                    v.sort();
                    out.push_str(&format!("{}\t{:?}\n", k, v));
                }
                files.insert(String::new(), (out.into_bytes(), false));
            }
        }
    }
    Ok(Expected { decision, files, bad_nucleotide: bad })
}

fn counts_file(model: &Model, k: u64, recs: &[Vec<u8>], acgt: bool) -> Result<Vec<u8>, String> {
    let ans = model.query(&[format!("counts {} {}", k, recs_field(recs))]);
    let f: Vec<&str> = ans[0].split('|').collect();
    if f.len() < 4 || f[0] != "ok" {
        return Err(format!("model counts failed: {}", ans[0]));
    }
    let mut out = String::new();
    if !f[1].is_empty() {
        let texts: Vec<&str> = f[3].split(',').collect();
        for (i, e) in f[1].split(',').enumerate() {
            let mut it = e.split(':');
            let x = it.next().unwrap();
            let n = it.next().unwrap();
            if acgt {
                out.push_str(&format!("{}\t{}\n", String::from_utf8_lossy(&unhex(texts[i])), n));
            } else {
                out.push_str(&format!("{}\t{}\n", x, n));
            }
        }
    }
    Ok(out.into_bytes())
}

/// canonical form of an unordered file: sorted lines; for m2s lines the tuple list is sorted too
pub fn canon_lines(bytes: &[u8]) -> Vec<String> {
    let t = String::from_utf8_lossy(bytes);
    let mut v: Vec<String> = t
        .lines()
        .map(|l| {
            if let Some((k, rest)) = l.split_once('\t') {
                if rest.starts_with('[') && rest.ends_with(']') {
                    let inner = &rest[1..rest.len() - 1];
                    let mut ts: Vec<&str> = if inner.is_empty() { vec![] } else { inner.split("), (").collect() };
                    let mut cleaned: Vec<String> = ts.drain(..).map(|t| t.trim_start_matches('(').trim_end_matches(')').to_string()).collect();
                    cleaned.sort();
                    return format!("{}\t[{}]", k, cleaned.join(" ; "));
                }
            }
            l.to_string()
        })
        .collect();
    v.sort();
    v
}

pub struct RunResult {
    pub proc: ProcOut,
    pub files: Files,
}

/// run the case into `out` (a file path or a directory), writing its inputs into `work`
pub fn run_case(c: &CliCase, bin: &str, work: &str, uid: &str, out: &str) -> RunResult {
    let inp = if c.container == "empty" {
        let p = format!("{}/in_{}.fa", work, uid);
        std::fs::write(&p, b"").unwrap();
        p
    } else {
        write_input(work, uid, &c.recs, &c.container)
    };
    let alt = match &c.sub {
        // the counting input in a container of its own (it need not be of the same format as the input)
        Sub::Cov { alt: Some(a), .. } => Some(write_input(work, &format!("{}alt", uid), a, &crate::p_file::container_for(&format!("alt {}", c.req()), a))),
        _ => None,
    };
    let mut args = c.cmdline(&inp, out, alt.as_deref());
    let mut stdin_bytes = match &c.sub {
        Sub::Oligo { stdin: true, .. } => Some(std::fs::read(&inp).unwrap_or_default()),
        _ => None,
    };
    // the k-mer CGR reads a pipe as well: every fourth of its cases gets its input on stdin (`-i -`)
    if let Sub::Cgr { k: Some(_), .. } = &c.sub {
        if stale_case(&format!("stdin {}", c.req())) && stale_case(&format!("stdin2 {}", c.req())) && c.container != "empty" {
            if let Some(p) = args.iter().position(|a| a == "-i" || a == "--input") {
                if p + 1 < args.len() {
                    args[p + 1] = "-".to_string();
                    stdin_bytes = Some(std::fs::read(&inp).unwrap_or_default());
                }
            }
        }
    }
    let proc = run_bin_env(bin, &args, stdin_bytes.as_deref(), 60, pool_env(&c.req()));
    let files = collect(out, c.out_is_dir());
    crate::p_file::remove_input(&inp);
    if let Some(a) = alt {
        crate::p_file::remove_input(&a);
    }
    RunResult { proc, files }
}

fn clean_out(out: &str) {
    let _ = std::fs::remove_file(out);
    let _ = std::fs::remove_dir_all(out);
}

pub fn eval_cli(c: &CliCase, model: &Model, bin: &str, work: &str, uid: &str) -> Option<Fail> {
    let exp = match expected(c, model) {
        Ok(e) => e,
        Err(e) => return Some(Fail { class: "model", detail: e, theorem: "", impl_out: String::new(), model_out: String::new() }),
    };
    let out = format!("{}/cliout_{}", work, uid);
    clean_out(&out);
    if exp.decision.starts_with("run") && stale_case(&c.req()) {
        // an accepted run into a used location: an older, longer output file, or a directory with an old table, an old
        // vectors file and chunk files of an earlier run (a refused run must leave nothing, so nothing is planted for those)
        if c.out_is_dir() {
            let _ = std::fs::create_dir_all(&out);
            plant_counter_dir(&out, 6);
        } else {
            plant_file(&out, 200_000);
        }
    }
    let r = run_case(c, bin, work, uid, &out);
    clean_out(&out);
    judge_cli(c, &exp, &r)
}

pub fn judge_cli(c: &CliCase, exp: &Expected, r: &RunResult) -> Option<Fail> {
    let imp_txt = format!("exit={:?} timed_out={} stderr={} files={:?}", r.proc.code, r.proc.timed_out, trunc(&r.proc.stderr.replace('\n', " / "), 300),
        r.files.iter().map(|(k, v)| format!("{}:{}B", k, v.len())).collect::<Vec<_>>());
    let fail = |class: &'static str, thm: &'static str, detail: String, model_out: String| Some(Fail { class, detail, theorem: thm, impl_out: imp_txt.clone(), model_out });
    if r.proc.timed_out {
        return fail("spec", "KT.cli_total", "the command did not finish within 60 s".into(), exp.decision.clone());
    }
    if exp.decision.starts_with("refuse-range") {
        if r.proc.code != Some(2) || r.proc.stderr.is_empty() || !r.files.is_empty() {
            return fail("spec", "KT.refused_no_output", format!("a value outside the documented range must be refused with a diagnostic and no output ({})", exp.decision), exp.decision.clone());
        }
        return None;
    }
    if let Some(msg) = exp.decision.strip_prefix("refuse-msg:") {
        if !r.proc.stderr.contains(msg) || !r.files.is_empty() {
            return fail("spec", "KT.refused_no_output", format!("expected the refusal \"{}\" and no output", msg), exp.decision.clone());
        }
        return None;
    }
    if r.proc.code == Some(2) {
        return fail("spec", "KT.accepted_in_documented_range", "a value inside the documented range was refused by the option parser".into(), exp.decision.clone());
    }
    if exp.bad_nucleotide {
        // whole-sequence CGR may refuse: either a failure mentioning the bad nucleotide, or it must not print coordinates for that record
        if r.proc.code != Some(0) {
            if r.proc.stderr.contains("Bad nucleotide") {
                return None;
            }
            return fail("spec", "KT.cgr_reject", "run failed without the bad-nucleotide diagnostic".into(), String::new());
        }
        return fail("spec", "KT.cgr_reject", "a record with a non-nucleotide byte was not rejected".into(), String::new());
    }
    if r.proc.code != Some(0) {
        return fail("spec", "KT.cli_total", format!("exit status {:?} on a well-formed input with accepted options", r.proc.code), String::new());
    }
    for (name, (content, ordered)) in &exp.files {
        let got = r.files.get(name);
        let ok = match got {
            None => content.is_empty() && name.is_empty() && false,
            Some(g) => if *ordered { g == content } else { canon_lines(g) == canon_lines(content) },
        };
        if !ok {
            let g = got.cloned().unwrap_or_default();
            let thm = match &c.sub {
                Sub::Oligo { .. } => "KT.cli_eq_library_oligo",
                Sub::Cgr { .. } => "KT.cli_eq_library_cgr",
                Sub::Cov { .. } => "KT.cli_eq_library_cov",
                Sub::Min { .. } => "KT.cli_eq_library_min",
                Sub::Ctr { .. } => "KT.cli_eq_library_ctr",
            };
            let nl = g.iter().filter(|&&x| x == b'\n').count();
            return Some(Fail {
                class: "spec",
                detail: format!("output file '{}' differs from the library/model result for the same settings ({} lines written, {} expected){}", name, nl, content.iter().filter(|&&x| x == b'\n').count(),
                    if String::from_utf8_lossy(&g).contains("18446744073709551615") || String::from_utf8_lossy(&g).contains("NaN") { "; a sentinel / NaN value was written as data" } else { "" }),
                theorem: thm,
                impl_out: format!("{} content={}", imp_txt, trunc(&show(&g), 700)),
                model_out: trunc(&show(content), 700),
            });
        }
    }
    // files other than the result files (e.g. left-over temporary chunk files) are C07's business
    // ("no temporary chunk file survives a merge"), checked there at library level; they are not part of
    // C15 / C16 / C17 and are not judged here
    None
}

// ------------------------------------------------------------------ generators

fn seqs(r: &mut Rng, n: usize, k: usize, maxlen: usize, degenerate: bool) -> Vec<Vec<u8>> {
    let mut v = seqs_ascii(r, n, k, maxlen, degenerate);
    // now and then a character outside ASCII typed or pasted into a sequence line (valid UTF-8, so the reader takes it):
    // each of its bytes is an ambiguous base
    for s in v.iter_mut() {
        if r.chance(1, 8) {
            let ch: &[u8] = *r.pick(&["Ñ".as_bytes(), "é".as_bytes(), "µ".as_bytes(), "—".as_bytes(), "\u{a0}".as_bytes(), "Ａ".as_bytes()]);
            let p = r.below(s.len() as u64 + 1) as usize;
            s.splice(p..p, ch.iter().cloned());
        }
    }
    v
}

fn seqs_ascii(r: &mut Rng, n: usize, k: usize, maxlen: usize, degenerate: bool) -> Vec<Vec<u8>> {
    (0..n)
        .map(|_| {
            let pick = if degenerate { r.below(8) } else { 4 + r.below(6) };
            match pick {
                0 => vec![],
                1 => gen::clean_seq(r, 1, gen::Flavor::Uniform),
                2 => gen::clean_seq(r, k.saturating_sub(1), gen::Flavor::Uniform),
                3 => vec![b'N'; r.range(1, 2 * k as u64 + 1) as usize],
                4 => gen::clean_seq(r, k, gen::Flavor::Uniform),
                5 => { let mut s = gen::clean_seq(r, 2 * k + 3, gen::Flavor::Uniform); s[0] = b'N'; s }
                6 => { let mut s = gen::clean_seq(r, 2 * k + 3, gen::Flavor::Uniform); let l = s.len() - 1; s[l] = b'N'; s }
                _ => gen::sequence(r, &[k, k + 1, 3 * k], maxlen).0.into_iter().map(|x| if x < 33 || x > 126 || x == b'>' || x == b'@' || x == b'+' { b'N' } else { x }).collect(),
            }
        })
        .collect()
}

fn pick_in_out(r: &mut Rng, lo: u64, hi: u64) -> u64 {
    // values in and just outside [lo, hi]
    match r.below(10) {
        0 => lo.saturating_sub(1),
        1 => hi + 1,
        2 => lo,
        3 => hi,
        4 => if r.chance(1, 2) { 0 } else { hi + 100 },
        _ => r.range(lo, hi),
    }
}

pub fn gen_cli(r: &mut Rng, degenerate: bool) -> CliCase {
    let threads = *r.pick(&[0u64, 1, 2, 3, 8, 16]);
    let preset = r.pick(&["csv", "tsv", "spc"]).to_string();
    let which = r.below(6);
    let nrec = if degenerate { r.range(0, 4) as usize } else { r.range(1, 12) as usize };
    match which {
        0 | 1 => {
            let k = pick_in_out(r, 3, 7).min(9);
            let mut recs = seqs(r, nrec, k.max(1) as usize, 120, degenerate);
            if !degenerate && r.chance(1, 3) && (1..=8).contains(&k) {
                // a record whose window total is a multiple of 640 = 2^7*5: count/total is then often an exact tie at the 7th
                // decimal, where `{:.6}` must round the exactly divided value half-to-even
                let l = 640 * r.range(1, 3) as usize + k as usize - 1;
                recs.push(gen::clean_seq(r, l, gen::Flavor::Uniform));
            }
            let mut container: String = if (degenerate && r.chance(1, 6)) || r.chance(1, 25) { "empty".into() } else { r.pick(&["fa", "fa", "fq", "fqwrap:9", "fawrap:7", "fagz"]).to_string() };
            if (container.starts_with("fawrap") || container.starts_with("fqwrap")) && recs.iter().any(|s| s.iter().any(|&b| b >= 0x80)) {
                // wrapping counts bytes: it would cut a multi-byte character in two and the file would no longer be text
                container = "fa".into();
            }
            let recs = fix_fq(recs, &container);
            let stdin = r.chance(1, 4) && container != "fagz";
            CliCase { sub: Sub::Oligo { k, counts: r.chance(1, 2), header: r.chance(1, 2), preset, threads, stdin }, recs, container }
        }
        2 => {
            let k = if r.chance(1, 2) { None } else { Some(pick_in_out(r, 3, 7).min(9)) };
            let v = if r.chance(1, 2) { None } else { Some(*r.pick(&[1u64, 2, 3, 16, 1000, 1 << 20])) };
            let mut recs = seqs(r, nrec, k.unwrap_or(3) as usize, 100, degenerate);
            if k.is_none() && r.chance(2, 3) {
                // whole-sequence CGR: mostly clean records
                for s in recs.iter_mut() {
                    for x in s.iter_mut() {
                        if !gen::NUC_ALL.contains(x) { *x = *r.pick(gen::ACGT); }
                    }
                }
            }
            let container = if degenerate && r.chance(1, 6) { "empty".into() } else { r.pick(&["fa", "fq"]).to_string() };
            let recs = fix_fq(recs, &container);
            CliCase { sub: Sub::Cgr { k, counts: r.chance(1, 4), v, threads }, recs, container }
        }
        3 => {
            let k = pick_in_out(r, 7, 31).min(33);
            let mut recs = seqs(r, nrec, k.max(1) as usize, 150, degenerate);
            if !degenerate && r.chance(1, 3) && (1..=31).contains(&k) {
                let l = 640 * r.range(1, 2) as usize + k as usize - 1;
                recs.push(gen::clean_seq(r, l, gen::Flavor::Tandem));
            }
            // a separate counting input: unrelated records, or (degenerate) one without any countable k-mer
            let alt = if r.chance(1, 4) { Some(seqs(r, 3, k.max(1) as usize, 150, false)) } else if degenerate && r.chance(1, 3) { let n = r.below(3) as usize; Some(seqs(r, n, k.max(1) as usize, 20, true)) } else { None };
            // the bin size is a u64 with a lower bound only: now and then a value at or beyond 2^32
            let bs = if r.chance(1, 5) { r.range(3, 4) } else if r.chance(1, 6) { *r.pick(&[(1u64 << 32) - 1, 1 << 32, (1 << 32) + 1, (1 << 32) + 5, u64::MAX]) } else { r.range(5, 20) };
            let bc = if r.chance(1, 5) { r.range(3, 4) } else { r.range(5, 20) };
            let mem = if r.chance(1, 5) { *r.pick(&[5u64, 129, 0]) } else { *r.pick(&[6u64, 7, 128]) };
            CliCase { sub: Sub::Cov { k, bs, bc, mem, counts: r.chance(1, 2), preset, threads, alt }, recs, container: "fa".into() }
        }
        4 => {
            let m = pick_in_out(r, 7, 28).min(32);
            let w = match r.below(4) { 0 => 0, 1 => m, 2 => m.saturating_sub(2), _ => m + r.range(1, 30) };
            let recs = seqs(r, nrec, (m.max(w)).max(1) as usize, 200, degenerate);
            CliCase { sub: Sub::Min { m, w, preset: r.pick(&["s2m", "m2s"]).to_string(), threads }, recs, container: "fa".into() }
        }
        _ => {
            let k = pick_in_out(r, 10, 31).min(33);
            let recs = seqs(r, nrec, k.max(1) as usize, 150, degenerate);
            let mem = if r.chance(1, 5) { *r.pick(&[5u64, 129]) } else { *r.pick(&[6u64, 128]) };
            CliCase { sub: Sub::Ctr { k, mem, acgt: r.chance(1, 2), threads }, recs, container: "fa".into() }
        }
    }
}

fn fix_fq(recs: Vec<Vec<u8>>, container: &str) -> Vec<Vec<u8>> {
    if container == "empty" {
        return vec![];
    }
    if container.starts_with("fq") { recs.into_iter().map(|r| if r.is_empty() { b"N".to_vec() } else { r }).collect() } else { recs }
}

fn shrink_cli(c: &CliCase) -> Vec<CliCase> {
    let mut out = Vec::new();
    for r in shrink_records(&c.recs) {
        let mut d = c.clone();
        d.recs = r;
        out.push(d);
    }
    if c.container != "fa" && c.container != "empty" {
        let mut d = c.clone();
        d.container = "fa".into();
        out.push(d);
    }
    out
}

fn tally(rep: &mut Report, section: &str, c: &CliCase) {
    let name = match &c.sub { Sub::Oligo { .. } => "oligo", Sub::Cgr { k: None, .. } => "cgr", Sub::Cgr { .. } => "cgr-k", Sub::Cov { .. } => "cov", Sub::Min { .. } => "min", Sub::Ctr { .. } => "ctr" };
    rep.count(&format!("{}/sub:{}", section, name), 1);
    rep.count(&format!("{}/container:{}", section, c.container.split(':').next().unwrap()), 1);
}

fn run_section_cli(rep: &mut Report, section: &str, cases: Vec<CliCase>, model: &Model, bin: &str, work: &str, seed: u64) {
    for (i, c) in cases.iter().enumerate() {
        rep.evaluations += 1;
        tally(rep, section, c);
        let uid = format!("{}_{}_{}", section, seed, i);
        progress(&c.req());
        match eval_cli(c, model, bin, work, &uid) {
            None => {
                let dec = model.query(&[c.decision_req()]);
                rep.count(&format!("{}/decision:{}", section, dec[0].split(['|', ':']).next().unwrap_or("")), 1);
                if c.recs.len() >= 2 || dec[0].starts_with("refuse") {
                    rep.nontrivial.insert(c.req());
                }
                if i % 37 == 0 {
                    rep.sample(format!("[{}] {}", section, c.describe()));
                }
            }
            Some(f) => {
                let key = format!("{}:{}", f.class, f.theorem);
                let n = rep.failures.iter().filter(|x| x.case_desc.starts_with(&format!("[{}]", section)) && format!("{}:{}", x.class, x.theorem) == key).count();
                if n < 2 {
                    let from = c.recs.len();
                    let k = std::cell::Cell::new(0u64);
                    let ev = |x: &CliCase| {
                        k.set(k.get() + 1);
                        eval_cli(x, model, bin, work, &format!("{}_s{}", uid, k.get()))
                    };
                    let (sc, sf) = shrink_struct(c.clone(), f, &ev, &shrink_cli, 60);
                    rep.push_fail(section, sc.describe(), sc.req(), sf, from);
                } else {
                    rep.count(&format!("{}/more-failures:{}", section, key), 1);
                }
            }
        }
    }
}

// ------------------------------------------------------------------ C15

pub fn run_c15(tier: &str, seed: u64, model: &Model, corpus_lines: Vec<String>, bin: &str, work: &str) -> Report {
    let mut rep = Report::new("C15");
    rep.rules.push("a case = subcommand + option values in and just outside every documented range (lo-1, lo, hi, hi+1, extremes) + preset + -c/--counts + -H + -t in {0,1,2,3,8,16} + --acgt + --alt-input + stdin + random input; the shipped binary (guard off, release profile) is run; compared: accept / refuse (exit status 2 or the refusal message, and no output) vs the Lean decision function; every output file vs the result built from the Lean model of the library (bytes for ordered outputs, sets of lines otherwise); relations on the real outputs: presets differ only in the delimiter, -H adds exactly one first line, -t never changes results, counts vs default = per-row normalisation, --acgt only re-renders the keys; non-trivial = a refusal, or a run on at least two records".into());
    let mut rng = Rng::new(seed);
    let corpus: Vec<CliCase> = corpus_lines.iter().filter_map(|l| CliCase::parse(l)).collect();
    run_section_cli(&mut rep, "corpus", corpus, model, bin, work, seed);
    if tier == "replay" {
        return rep;
    }
    // every documented range at lo-1, lo, hi, hi+1 (the behavioural copy of the clap ranges)
    let mut bcases: Vec<CliCase> = Vec::new();
    let rec = |k: usize| vec![gen::clean_seq(&mut Rng::new(seed ^ k as u64), 2 * k + 5, gen::Flavor::Uniform)];
    for k in [2u64, 3, 7, 8] {
        bcases.push(CliCase { sub: Sub::Oligo { k, counts: false, header: false, preset: "spc".into(), threads: 1, stdin: false }, recs: rec(k as usize), container: "fa".into() });
        bcases.push(CliCase { sub: Sub::Cgr { k: Some(k), counts: false, v: None, threads: 1 }, recs: rec(k as usize), container: "fa".into() });
    }
    for k in [6u64, 7, 31, 32] {
        bcases.push(CliCase { sub: Sub::Cov { k, bs: 5, bc: 5, mem: 6, counts: false, preset: "spc".into(), threads: 1, alt: None }, recs: rec(k as usize), container: "fa".into() });
    }
    for v in [4u64, 5] {
        bcases.push(CliCase { sub: Sub::Cov { k: 7, bs: v, bc: 5, mem: 6, counts: false, preset: "spc".into(), threads: 1, alt: None }, recs: rec(7), container: "fa".into() });
        bcases.push(CliCase { sub: Sub::Cov { k: 7, bs: 5, bc: v, mem: 6, counts: false, preset: "spc".into(), threads: 1, alt: None }, recs: rec(7), container: "fa".into() });
    }
    for mem in [5u64, 6, 128, 129] {
        bcases.push(CliCase { sub: Sub::Cov { k: 7, bs: 5, bc: 5, mem, counts: false, preset: "spc".into(), threads: 1, alt: None }, recs: rec(7), container: "fa".into() });
        bcases.push(CliCase { sub: Sub::Ctr { k: 10, mem, acgt: false, threads: 1 }, recs: rec(10), container: "fa".into() });
    }
    for m in [6u64, 7, 28, 29] {
        bcases.push(CliCase { sub: Sub::Min { m, w: 0, preset: "s2m".into(), threads: 1 }, recs: rec(m as usize), container: "fa".into() });
        bcases.push(CliCase { sub: Sub::Min { m, w: m + 1, preset: "m2s".into(), threads: 1 }, recs: rec(m as usize), container: "fa".into() });
    }
    for (m, w) in [(7u64, 6u64), (7, 7), (7, 8), (28, 28), (28, 29), (10, 1)] {
        bcases.push(CliCase { sub: Sub::Min { m, w, preset: "s2m".into(), threads: 1 }, recs: rec(30), container: "fa".into() });
    }
    for k in [9u64, 10, 31, 32] {
        bcases.push(CliCase { sub: Sub::Ctr { k, mem: 6, acgt: false, threads: 1 }, recs: rec(k as usize), container: "fa".into() });
    }
    rep.exhaustive_spaces.push("every documented option range at lo-1, lo, hi, hi+1 and the window/minimiser boundary w = m-1, m, m+1".into());
    run_section_cli(&mut rep, "boundaries", bcases, model, bin, work, seed);
    let n = if tier == "thorough" { 2500 } else { 230 };
    let mut cases: Vec<CliCase> = (0..n).map(|_| gen_cli(&mut rng, false)).collect();
    // every input container once with the mapped oligo writer (file input, normalised), with and without the header
    for container in ["fq", "fqwrap:9", "fawrap:7", "fagz", "fa"] {
        for header in [false, true] {
            let recs = fix_fq(seqs_ascii(&mut rng, 4, 4, 60, false), container);
            cases.push(CliCase { sub: Sub::Oligo { k: *rng.pick(&[3u64, 4]), counts: false, header, preset: "spc".into(), threads: 2, stdin: false }, recs, container: container.into() });
        }
    }
    run_section_cli(&mut rep, "options", cases, model, bin, work, seed);
    // relations between real runs
    let nrel = if tier == "thorough" { 150 } else { 14 };
    for i in 0..nrel {
        rep.evaluations += 1;
        if let Some((desc, req, f)) = relations(&mut rng, model, bin, work, &format!("rel_{}_{}", seed, i)) {
            if rep.fail_count("relations", f.class) < 3 {
                rep.push_fail("relations", desc, req, f, 0);
            }
        } else {
            rep.count("relations/ok", 1);
        }
    }
    rep
}

fn run_files(c: &CliCase, bin: &str, work: &str, uid: &str) -> (ProcOut, Files) {
    let out = format!("{}/cliout_{}", work, uid);
    clean_out(&out);
    let r = run_case(c, bin, work, uid, &out);
    clean_out(&out);
    (r.proc, r.files)
}

/// option relations checked directly on the real binary's outputs
fn relations(r: &mut Rng, model: &Model, bin: &str, work: &str, uid: &str) -> Option<(String, String, Fail)> {
    let which = r.below(4);
    let mk_fail = |detail: String, thm: &'static str, a: &Files, b: &Files| Fail {
        class: "spec", detail, theorem: thm,
        impl_out: trunc(&format!("{:?}", a.iter().map(|(k, v)| (k.clone(), show(v))).collect::<Vec<_>>()), 600),
        model_out: trunc(&format!("{:?}", b.iter().map(|(k, v)| (k.clone(), show(v))).collect::<Vec<_>>()), 600),
    };
    match which {
        0 => {
            // oligo: presets / header / threads / counts
            let k = r.range(3, 5);
            let nn = r.range(2, 8) as usize;
            let recs = seqs(r, nn, k as usize, 100, false);
            let base = CliCase { sub: Sub::Oligo { k, counts: false, header: false, preset: "spc".into(), threads: 1, stdin: false }, recs, container: "fa".into() };
            let (_, f0) = run_files(&base, bin, work, &format!("{}a", uid));
            let spc = f0.get("").cloned().unwrap_or_default();
            for (p, d) in [("csv", b','), ("tsv", b'\t')] {
                let mut c = base.clone();
                if let Sub::Oligo { preset, .. } = &mut c.sub { *preset = p.into(); }
                let (_, f1) = run_files(&c, bin, work, &format!("{}b", uid));
                let got = f1.get("").cloned().unwrap_or_default();
                let want: Vec<u8> = spc.iter().map(|&x| if x == b' ' { d } else { x }).collect();
                if got != want {
                    return Some((c.describe(), c.req(), mk_fail(format!("preset {} changes more than the delimiter", p), "KT.preset_only_delim", &f1, &f0)));
                }
            }
            let mut c = base.clone();
            if let Sub::Oligo { header, .. } = &mut c.sub { *header = true; }
            let (_, f1) = run_files(&c, bin, work, &format!("{}c", uid));
            let got = f1.get("").cloned().unwrap_or_default();
            let first_nl = got.iter().position(|&x| x == b'\n').map(|p| p + 1).unwrap_or(0);
            if got[first_nl..] != spc[..] || first_nl == 0 {
                return Some((c.describe(), c.req(), mk_fail("the header flag changes more than adding one first line".into(), "KT.header_only_first_line", &f1, &f0)));
            }
            for t in [0u64, 2, 7, 16] {
                let mut c = base.clone();
                if let Sub::Oligo { threads, .. } = &mut c.sub { *threads = t; }
                let (_, f1) = run_files(&c, bin, work, &format!("{}d", uid));
                if f1.get("") != f0.get("") {
                    return Some((c.describe(), c.req(), mk_fail(format!("-t {} changes the result", t), "KT.threads_never_change_results", &f1, &f0)));
                }
            }
            let mut c = base.clone();
            if let Sub::Oligo { counts, .. } = &mut c.sub { *counts = true; }
            let (_, f1) = run_files(&c, bin, work, &format!("{}e", uid));
            if let Some(d) = norm_mismatch(f1.get("").map(|v| v.as_slice()).unwrap_or(b""), &spc, b' ') {
                return Some((c.describe(), c.req(), mk_fail(d, "KT.counts_iff_not_norm", &f1, &f0)));
            }
            None
        }
        1 => {
            // cov: presets, threads, --counts
            let k = r.range(7, 9);
            let nn = r.range(2, 6) as usize;
            let recs = seqs(r, nn, k as usize, 120, false);
            let base = CliCase { sub: Sub::Cov { k, bs: 5, bc: 6, mem: 6, counts: false, preset: "spc".into(), threads: 1, alt: None }, recs, container: "fa".into() };
            let (_, f0) = run_files(&base, bin, work, &format!("{}a", uid));
            let v0 = f0.get("kmers.vectors").cloned().unwrap_or_default();
            let mut c = base.clone();
            if let Sub::Cov { preset, threads, .. } = &mut c.sub { *preset = "csv".into(); *threads = 5; }
            let (_, f1) = run_files(&c, bin, work, &format!("{}b", uid));
            let want: Vec<u8> = v0.iter().map(|&x| if x == b' ' { b',' } else { x }).collect();
            if f1.get("kmers.vectors").cloned().unwrap_or_default() != want {
                return Some((c.describe(), c.req(), mk_fail("preset/threads change more than the delimiter of kmers.vectors".into(), "KT.preset_only_delim", &f1, &f0)));
            }
            if canon_lines(f1.get("kmers.counts").map(|v| v.as_slice()).unwrap_or(b"")) != canon_lines(f0.get("kmers.counts").map(|v| v.as_slice()).unwrap_or(b"")) {
                return Some((c.describe(), c.req(), mk_fail("threads change the counts table".into(), "KT.threads_never_change_results", &f1, &f0)));
            }
            let mut c = base.clone();
            if let Sub::Cov { counts, .. } = &mut c.sub { *counts = true; }
            let (_, f1) = run_files(&c, bin, work, &format!("{}c", uid));
            if let Some(d) = norm_mismatch(f1.get("kmers.vectors").map(|v| v.as_slice()).unwrap_or(b""), &v0, b' ') {
                return Some((c.describe(), c.req(), mk_fail(d, "KT.counts_iff_not_norm", &f1, &f0)));
            }
            None
        }
        2 => {
            // ctr: --acgt only re-renders keys; threads keep the set of lines
            let k = r.range(10, 14);
            let nn = r.range(2, 6) as usize;
            let recs = seqs(r, nn, k as usize, 120, false);
            let base = CliCase { sub: Sub::Ctr { k, mem: 6, acgt: false, threads: 1 }, recs, container: "fa".into() };
            let (_, f0) = run_files(&base, bin, work, &format!("{}a", uid));
            let mut c = base.clone();
            if let Sub::Ctr { acgt, threads, .. } = &mut c.sub { *acgt = true; *threads = 6; }
            let (_, f1) = run_files(&c, bin, work, &format!("{}b", uid));
            let num = canon_lines(f0.get("kmers.counts").map(|v| v.as_slice()).unwrap_or(b""));
            let txt = canon_lines(f1.get("kmers.counts").map(|v| v.as_slice()).unwrap_or(b""));
            // decode numeric keys with the model's decoder
            let reqs: Vec<String> = num.iter().filter_map(|l| l.split('\t').next()).map(|x| format!("revcomp {} {} -", k, x)).collect();
            let ans = model.query(&reqs);
            let mut want: Vec<String> = num.iter().zip(ans.iter()).map(|(l, a)| {
                let t = a.split('|').nth(4).map(|h| String::from_utf8_lossy(&unhex(h)).to_string()).unwrap_or_default();
                format!("{}\t{}", t, l.split('\t').nth(1).unwrap_or(""))
            }).collect();
            want.sort();
            if txt != want {
                return Some((c.describe(), c.req(), mk_fail("--acgt (and -t) change more than the rendering of the k-mers".into(), "KT.acgt_only_rendering", &f1, &f0)));
            }
            None
        }
        _ => {
            // min: threads keep the set of lines
            let m = r.range(7, 9);
            let nn = r.range(2, 8) as usize;
            let mut recs = seqs(r, nn, m as usize + 4, 150, false);
            // groups of identical reads: all workers meet the same minimisers at the same time
            recs.clear();
            for _ in 0..100 {
                let l = r.range(120, 200) as usize;
                let one = gen::clean_seq(r, l, gen::Flavor::Uniform);
                for _ in 0..16 { recs.push(one.clone()); }
            }
            let w = if r.chance(1, 2) { 0 } else { m + 5 };
            let p = r.pick(&["s2m", "m2s"]).to_string();
            let base = CliCase { sub: Sub::Min { m, w, preset: p, threads: 1 }, recs, container: "fa".into() };
            let (_, f0) = run_files(&base, bin, work, &format!("{}a", uid));
            for t in [0u64, 3, 16] {
                let mut c = base.clone();
                if let Sub::Min { threads, .. } = &mut c.sub { *threads = t; }
                let (_, f1) = run_files(&c, bin, work, &format!("{}b", uid));
                if canon_lines(f1.get("").map(|v| v.as_slice()).unwrap_or(b"")) != canon_lines(f0.get("").map(|v| v.as_slice()).unwrap_or(b"")) {
                    return Some((c.describe(), c.req(), mk_fail(format!("-t {} changes the set of lines", t), "KT.threads_never_change_results", &f1, &f0)));
                }
            }
            None
        }
    }
}

/// counts rows vs normalised rows: each normalised value = count / row total to 6 decimals
fn norm_mismatch(counts: &[u8], norm: &[u8], delim: u8) -> Option<String> {
    let cl: Vec<&[u8]> = counts.split(|&x| x == b'\n').filter(|l| !l.is_empty()).collect();
    let nl: Vec<&[u8]> = norm.split(|&x| x == b'\n').filter(|l| !l.is_empty()).collect();
    if cl.len() != nl.len() {
        return Some(format!("{} count rows vs {} normalised rows", cl.len(), nl.len()));
    }
    for (i, (c, n)) in cl.iter().zip(nl.iter()).enumerate() {
        let cv: Vec<f64> = c.split(|&x| x == delim).map(|t| String::from_utf8_lossy(t).parse().unwrap_or(f64::NAN)).collect();
        let nv: Vec<f64> = n.split(|&x| x == delim).map(|t| String::from_utf8_lossy(t).parse().unwrap_or(f64::NAN)).collect();
        if cv.len() != nv.len() {
            return Some(format!("row {}: {} vs {} columns", i, cv.len(), nv.len()));
        }
        let tot: f64 = cv.iter().sum::<f64>().max(1.0);
        for (a, bb) in cv.iter().zip(nv.iter()) {
            if (a / tot - bb).abs() > 1e-6 {
                return Some(format!("row {}: normalised value {} is not count {} / row total {}", i, bb, a, tot));
            }
        }
    }
    None
}

// ------------------------------------------------------------------ C16

pub fn run_c16(tier: &str, seed: u64, model: &Model, corpus_lines: Vec<String>, bin: &str, work: &str) -> Report {
    let mut rep = Report::new("C16");
    rep.rules.push("degenerate and boundary inputs (a zero-byte file; 0 records; records of length 0, 1, k-1, k; all-N; N first/last; mixtures) crossed with every subcommand, both oligo writer paths (default = memory-mapped, -c / stdin = batched), w = 0 and w > 0, threads 0/1/many, accepted option values only; the shipped binary must exit 0 within 60 s (whole-sequence CGR may refuse non-nucleotide records), write exactly the rows the Lean model gives (one per record, zeros / empty where nothing can be computed) and nothing else; non-trivial = at least two records".into());
    let mut rng = Rng::new(seed);
    let corpus: Vec<CliCase> = corpus_lines.iter().filter_map(|l| CliCase::parse(l)).collect();
    run_section_cli(&mut rep, "corpus", corpus, model, bin, work, seed);
    if tier == "replay" {
        return rep;
    }
    let n = if tier == "thorough" { 3000 } else { 300 };
    let mut cases = Vec::new();
    while cases.len() < n {
        let c = gen_cli(&mut rng, true);
        // accepted option combinations only
        let d = model.query(&[c.decision_req()]);
        if d[0].starts_with("run") {
            cases.push(c);
        }
    }
    // fixed boundary shapes for every subcommand
    for sub in [
        Sub::Oligo { k: 3, counts: false, header: true, preset: "csv".into(), threads: 2, stdin: false },
        Sub::Oligo { k: 3, counts: true, header: false, preset: "spc".into(), threads: 1, stdin: false },
        Sub::Oligo { k: 4, counts: false, header: false, preset: "tsv".into(), threads: 0, stdin: true },
        Sub::Cgr { k: None, counts: false, v: None, threads: 1 },
        Sub::Cgr { k: Some(3), counts: false, v: None, threads: 2 },
        Sub::Cgr { k: Some(4), counts: true, v: Some(16), threads: 0 },
        Sub::Cov { k: 7, bs: 5, bc: 5, mem: 6, counts: false, preset: "spc".into(), threads: 1, alt: None },
        Sub::Cov { k: 9, bs: 16, bc: 16, mem: 6, counts: true, preset: "csv".into(), threads: 4, alt: None },
        Sub::Min { m: 7, w: 0, preset: "s2m".into(), threads: 1 },
        Sub::Min { m: 7, w: 12, preset: "s2m".into(), threads: 3 },
        Sub::Min { m: 10, w: 0, preset: "m2s".into(), threads: 2 },
        Sub::Min { m: 8, w: 9, preset: "m2s".into(), threads: 0 },
        Sub::Ctr { k: 10, mem: 6, acgt: false, threads: 1 },
        Sub::Ctr { k: 12, mem: 6, acgt: true, threads: 5 },
    ] {
        let (k, clean_only) = match &sub {
            Sub::Oligo { k, .. } => (*k as usize, false),
            Sub::Cgr { k: Some(k), .. } => (*k as usize, false),
            Sub::Cgr { k: None, .. } => (3, true),
            Sub::Cov { k, .. } => (*k as usize, false),
            Sub::Min { m, w, .. } => ((*m).max(*w) as usize, false),
            Sub::Ctr { k, .. } => (*k as usize, false),
        };
        let a = |n: usize| vec![b'A'; n];
        let mut shapes: Vec<(Vec<Vec<u8>>, &str)> = vec![
            (vec![], "empty"),
            (vec![vec![]], "fa"),
            (vec![vec![], vec![], vec![]], "fa"),
            (vec![a(1)], "fa"),
            (vec![a(k - 1), a(k), a(k + 1)], "fa"),
            (vec![a(k), vec![], a(1), a(k)], "fa"),
        ];
        if !clean_only {
            shapes.push((vec![vec![b'N'; k + 2]], "fa"));
            shapes.push((vec![{ let mut s = a(k + 3); s[0] = b'N'; s }, { let mut s = a(k + 3); s[k + 2] = b'N'; s }], "fa"));
        }
        for (recs, cont) in shapes {
            cases.push(CliCase { sub: sub.clone(), recs, container: cont.into() });
        }
    }
    run_section_cli(&mut rep, "degenerate", cases, model, bin, work, seed);
    // more than 10000 (mostly degenerate) records whose ids are 23 ASCII bytes followed by a two-byte character: whatever is
    // done every so many records (progress messages, flushes) must cope with such ids
    {
        let n = 10_050 + rng.below(40) as usize;
        let recs: Vec<Vec<u8>> = (0..n).map(|i| match i % 5 { 0 => vec![], 1 => b"ACG".to_vec(), 2 => vec![b'N'; 9], _ => gen::clean_seq(&mut rng, 8 + i % 9, gen::Flavor::Uniform) }).collect();
        let cases = vec![
            CliCase { sub: Sub::Min { m: 7, w: 0, preset: "s2m".into(), threads: 2 }, recs: recs.clone(), container: "fa".into() },
            CliCase { sub: Sub::Min { m: 7, w: 12, preset: "m2s".into(), threads: 3 }, recs, container: "fa".into() },
        ];
        crate::p_file::ID_WIDE.store(true, std::sync::atomic::Ordering::SeqCst);
        run_section_cli(&mut rep, "many-records-wide-ids", cases, model, bin, work, seed);
        crate::p_file::ID_WIDE.store(false, std::sync::atomic::Ordering::SeqCst);
    }
    rep
}

// ------------------------------------------------------------------ C17

#[derive(Clone, Debug)]
pub struct History {
    pub runs: Vec<CliCase>,
    /// stale files planted before the first run (relative name, content)
    pub stale: Vec<(String, Vec<u8>)>,
}

impl History {
    pub fn req(&self) -> String {
        format!(
            "history {} {}",
            if self.stale.is_empty() { "-".to_string() } else { self.stale.iter().map(|(n, c)| format!("{}={}", hex(n.as_bytes()), hex(c))).collect::<Vec<_>>().join(",") },
            self.runs.iter().map(|r| r.req().replace(' ', "+")).collect::<Vec<_>>().join(" ")
        )
    }
    pub fn parse(line: &str) -> Option<History> {
        let w: Vec<&str> = line.split_whitespace().collect();
        if w.len() < 3 || w[0] != "history" {
            return None;
        }
        let stale = if w[1] == "-" { vec![] } else {
            w[1].split(',').filter_map(|e| { let mut it = e.split('='); Some((String::from_utf8_lossy(&unhex(it.next()?)).to_string(), unhex(it.next()?))) }).collect()
        };
        let runs: Vec<CliCase> = w[2..].iter().filter_map(|r| CliCase::parse(&r.replace('+', " "))).collect();
        if runs.is_empty() { None } else { Some(History { runs, stale }) }
    }
    pub fn describe(&self) -> String {
        format!("{} stale files {:?}, then: {}", self.stale.len(), self.stale.iter().map(|s| s.0.clone()).collect::<Vec<_>>(), self.runs.iter().map(|r| r.describe()).collect::<Vec<_>>().join("  ;;  "))
    }
}

fn result_files(c: &CliCase, f: &Files) -> BTreeMap<String, Vec<String>> {
    // the result files of a subcommand; unordered ones canonicalised
    let mut out = BTreeMap::new();
    for (name, bytes) in f {
        let is_result = match &c.sub {
            Sub::Cov { .. } => name == "kmers.counts" || name == "kmers.vectors",
            Sub::Ctr { .. } => name == "kmers.counts",
            _ => name.is_empty(),
        };
        if !is_result {
            continue;
        }
        let ordered = match &c.sub { Sub::Oligo { .. } | Sub::Cgr { .. } => true, Sub::Cov { .. } => name == "kmers.vectors", _ => false };
        out.insert(name.clone(), if ordered { vec![show(bytes)] } else { canon_lines(bytes) });
    }
    out
}

pub fn eval_history(h: &History, model: &Model, bin: &str, work: &str, uid: &str) -> Option<Fail> {
    let last = h.runs.last().unwrap();
    let shared = format!("{}/hist_{}", work, uid);
    let fresh = format!("{}/fresh_{}", work, uid);
    clean_out(&shared);
    clean_out(&fresh);
    if last.out_is_dir() {
        let _ = std::fs::create_dir_all(&shared);
        for (n, c) in &h.stale {
            let _ = std::fs::write(format!("{}/{}", shared, n), c);
        }
    } else if let Some((_, c)) = h.stale.first() {
        let _ = std::fs::write(&shared, c);
    }
    let mut last_res = None;
    for (i, r) in h.runs.iter().enumerate() {
        // runs of a different kind (file vs directory output) cannot share a location
        if r.out_is_dir() != last.out_is_dir() {
            continue;
        }
        let res = run_case(r, bin, work, &format!("{}_{}", uid, i), &shared);
        last_res = Some(res);
    }
    let shared_res = last_res?;
    let fresh_res = run_case(last, bin, work, &format!("{}_f", uid), &fresh);
    // twice in a row into the fresh location
    let again = run_case(last, bin, work, &format!("{}_g", uid), &fresh);
    clean_out(&shared);
    clean_out(&fresh);
    let a = result_files(last, &shared_res.files);
    let b = result_files(last, &fresh_res.files);
    let c = result_files(last, &again.files);
    let mk = |detail: String, thm: &'static str, x: &BTreeMap<String, Vec<String>>, y: &BTreeMap<String, Vec<String>>| Fail {
        class: "spec", detail, theorem: thm, impl_out: trunc(&format!("{:?}", x), 900), model_out: trunc(&format!("{:?}", y), 900),
    };
    if shared_res.proc.code != fresh_res.proc.code {
        return Some(mk(format!("exit status differs: {:?} after the history vs {:?} in a fresh location", shared_res.proc.code, fresh_res.proc.code), "KT.result_independent", &a, &b));
    }
    if last.container == "faX" && fresh_res.proc.code != Some(0) {
        // an input the reader refuses (unknown suffix on the mapped path) is refused alike in both locations: nothing to compare
        return None;
    }
    if a != b {
        return Some(mk("result files after the history differ from those of the last run alone in a fresh location".into(), "KT.result_independent", &a, &b));
    }
    if b != c {
        return Some(mk("running the same command twice gives different results".into(), "KT.rerun_idempotent", &c, &b));
    }
    // and the last run equals the model's expectation (ties the differential to the spec)
    if let Ok(exp) = expected(last, model) {
        if let Some(f) = judge_cli(last, &exp, &fresh_res) {
            return Some(f);
        }
    }
    None
}

fn gen_history(r: &mut Rng) -> History {
    let kind = r.below(5);
    let nruns = r.range(2, 3) as usize;
    let mut runs = Vec::new();
    for _ in 0..nruns {
        let threads = *r.pick(&[1u64, 2, 5, 16]);
        let nrec = r.range(0, 10) as usize;
        let c = match kind {
            0 => {
                let k = r.range(3, 5);
                // now and then an input whose suffix the format table does not know: accepted by the batched writer (which looks
                // at the first byte), refused by the mapped one — in a used location exactly as in a fresh one
                let container = if r.chance(1, 4) { "faX" } else { "fa" };
                CliCase { sub: Sub::Oligo { k, counts: r.chance(1, 2), header: r.chance(1, 2), preset: r.pick(&["csv", "spc"]).to_string(), threads, stdin: false }, recs: seqs(r, nrec, k as usize, 80, false), container: container.into() }
            }
            1 => {
                let k = if r.chance(1, 2) { None } else { Some(r.range(3, 4)) };
                let mut recs = seqs(r, nrec, 3, 60, false);
                for s in recs.iter_mut() { for x in s.iter_mut() { if !gen::NUC_ALL.contains(x) { *x = b'A'; } } }
                CliCase { sub: Sub::Cgr { k, counts: false, v: Some(*r.pick(&[1u64, 16])), threads }, recs, container: "fa".into() }
            }
            2 => {
                let k = r.range(7, 9);
                // a separate counting input in some runs (the table of an earlier run with another k or another source must not
                // be taken for this run's)
                let alt = if r.chance(1, 2) { let n = r.range(1, 6) as usize; Some(seqs(r, n, k as usize, 100, false)) } else { None };
                CliCase { sub: Sub::Cov { k, bs: 5, bc: r.range(5, 8), mem: 6, counts: r.chance(1, 2), preset: "spc".into(), threads, alt }, recs: seqs(r, nrec, k as usize, 100, false), container: "fa".into() }
            }
            3 => {
                let m = r.range(7, 9);
                CliCase { sub: Sub::Min { m, w: if r.chance(1, 2) { 0 } else { m + 4 }, preset: r.pick(&["s2m", "m2s"]).to_string(), threads }, recs: seqs(r, nrec, m as usize + 4, 100, false), container: "fa".into() }
            }
            _ => {
                let k = r.range(10, 12);
                CliCase { sub: Sub::Ctr { k, mem: 6, acgt: r.chance(1, 3), threads }, recs: seqs(r, nrec, k as usize, 100, false), container: "fa".into() }
            }
        };
        runs.push(c);
    }
    // the last run on (almost) nothing: zero records, or one record with a handful of k-mers so that most
    // counting partitions stay empty (a shortcut for "nothing to write" must not expose stale files)
    let mut stale = Vec::new();
    let tiny = r.chance(1, 3);
    if tiny {
        let last = runs.len() - 1;
        let k = match &runs[last].sub { Sub::Ctr { k, .. } | Sub::Cov { k, .. } | Sub::Oligo { k, .. } => *k as usize, Sub::Min { m, .. } => *m as usize, _ => 3 };
        let extra = r.below(3) as usize;
        runs[last].recs = if r.chance(1, 2) { vec![] } else { vec![gen::clean_seq(r, k + extra, gen::Flavor::Uniform)] };
        match &mut runs[last].sub {
            Sub::Oligo { counts, header, .. } => { if r.chance(2, 3) { *counts = false; *header = false; } }
            Sub::Ctr { threads, .. } | Sub::Cov { threads, .. } => { *threads = *r.pick(&[8u64, 16]); }
            _ => {}
        }
        if r.chance(1, 2) {
            // only the stale disk state and the last run (earlier runs of the history would clean up part of it)
            let l = runs.pop().unwrap();
            runs = vec![l];
        }
        if runs[0].out_is_dir() {
            for p in 0..16u64 {
                for ch in 0..2u64 {
                    stale.push((format!("temp_kmers.part_{}_chunk_{}", p, ch), format!("{}\t{}\n", 1000 + p * 7 + ch, 3).into_bytes()));
                }
            }
            // and what a run that died in its merge leaves: staging copies of the result files, longer than the new ones
            for n in ["kmers.counts.tmp", "kmers.vectors.tmp", "kmers.counts.part"] {
                stale.push((n.into(), b"123456789\t5\n".repeat(4000)));
            }
        } else {
            stale.push((String::new(), b"0.111111 0.222222 0.333333\n".repeat(30)));
        }
    }
    if !tiny && r.chance(1, 2) {
        if runs[0].out_is_dir() {
            // left-overs of a crashed run with more chunks / partitions, a stale table and vectors file
            for (p, ch) in [(0u64, 0u64), (1, 0), (3, 1), (40, 7)] {
                if r.chance(2, 3) {
                    stale.push((format!("temp_kmers.part_{}_chunk_{}", p, ch), format!("{}\t{}\n{}\t7\n", r.below(1 << 20), r.range(1, 9), r.below(1 << 20)).into_bytes()));
                }
            }
            if r.chance(1, 2) { stale.push(("kmers.counts".into(), b"1\t1\n2\t2\n3\t3\n4\t4\n5\t5\n6\t6\n7\t7\n8\t8\n9\t9\n".repeat(20))); }
            if r.chance(1, 2) { stale.push(("kmers.vectors".into(), b"9 9 9 9 9 9 9 9 9 9 9 9 9 9 9 9 9 9 9 9\n".repeat(40))); }
            // staging files a run that died in its merge may leave (longer than any new table)
            if r.chance(1, 2) {
                for n in ["kmers.counts.tmp", "kmers.vectors.tmp", "kmers.counts.part"] {
                    stale.push((n.into(), b"123456789\t5\n".repeat(4000)));
                }
            }
        } else {
            stale.push((String::new(), b"stale content of an earlier, much longer output file\n".repeat(200)));
        }
    }
    History { runs, stale }
}

pub fn run_c17(tier: &str, seed: u64, model: &Model, corpus_lines: Vec<String>, bin: &str, work: &str) -> Report {
    let mut rep = Report::new("C17");
    rep.rules.push("a history = optional stale files planted in the output location (a longer old output file; for directories: temp_kmers.part_P_chunk_C files of a run with more chunks/partitions, an old counts table and vectors file) followed by two or three runs of the shipped binary with different inputs, k, presets, thread counts into the SAME location; the result files (vectors, counts table, minimiser listings; bytes for ordered outputs, sets of lines otherwise) are compared with those of the last run alone in a fresh location, with a second identical run, and with the Lean model's expectation for the last run; non-trivial = every history (at least two runs)".into());
    let mut rng = Rng::new(seed);
    let mut hs: Vec<History> = corpus_lines.iter().filter_map(|l| History::parse(l)).collect();
    let ncorpus = hs.len();
    if tier != "replay" {
        let n = if tier == "thorough" { 900 } else { 70 };
        for _ in 0..n {
            hs.push(gen_history(&mut rng));
        }
    }
    for (i, h) in hs.iter().enumerate() {
        let section = if i < ncorpus { "corpus" } else { "histories" };
        rep.evaluations += 1;
        let last = h.runs.last().unwrap();
        tally(&mut rep, section, last);
        rep.count(&format!("{}/stale:{}", section, !h.stale.is_empty()), 1);
        match eval_history(h, model, bin, work, &format!("{}_{}", seed, i)) {
            None => {
                rep.nontrivial.insert(h.req());
                if i % 17 == 0 {
                    rep.sample(format!("[{}] {}", section, trunc(&h.describe(), 500)));
                }
            }
            Some(f) => {
                if rep.fail_count(section, f.class) < 3 {
                    rep.push_fail(section, trunc(&h.describe(), 1500), h.req(), f, h.runs.len());
                }
            }
        }
    }
    rep
}

/// C03: the header line of the CLI for every accepted k and every delimiter preset, both writer paths
pub fn run_c03_cli(rep: &mut Report, tier: &str, seed: u64, model: &Model, bin: &str, work: &str) {
    if tier == "replay" || sharded() {
        return;
    }
    rep.rules.push("CLI: `comp oligo -H` for every k in 3..=7 x presets csv/tsv/spc x normalised/counts on a small input; the whole output (header = canonical k-mers in column order joined by the preset delimiter) is compared with the Lean expectation".into());
    let mut cases = Vec::new();
    let mut r = Rng::new(seed ^ 0xC03);
    for k in 3..=7u64 {
        for preset in ["csv", "tsv", "spc"] {
            for counts in [false, true] {
                let recs = vec![gen::clean_seq(&mut r, 2 * k as usize + 3, gen::Flavor::Uniform), gen::clean_seq(&mut r, k as usize, gen::Flavor::Uniform)];
                // one worker, two, several, and the automatic count (0)
                let threads = *r.pick(&[1u64, 1, 2, 4, 0]);
                cases.push(CliCase { sub: Sub::Oligo { k, counts, header: true, preset: preset.into(), threads, stdin: false }, recs, container: "fa".into() });
            }
        }
    }
    // an input without records still gets its header line, through both writers
    for k in [3u64, 5, 7] {
        for counts in [false, true] {
            cases.push(CliCase { sub: Sub::Oligo { k, counts, header: true, preset: "csv".into(), threads: 2, stdin: false }, recs: vec![], container: "empty".into() });
        }
    }
    rep.exhaustive_spaces.push("CLI header for every accepted k (3..=7) x every delimiter preset x both writer paths".into());
    run_section_cli(rep, "cli-header", cases, model, bin, work, seed);
}

// ------------------------------------------------------------------ C12 through the CLI

/// `kmertools comp cgr -k`: every accepted k x the square sizes the option takes from the bottom of its range (1, 2, 3) to large
/// ones, the size left to its default, raw and normalised — the whole output against the Lean expectation
pub fn run_c12_cli(rep: &mut Report, tier: &str, seed: u64, model: &Model, corpus_lines: &[String], bin: &str, work: &str) {
    if sharded() {
        return;
    }
    let corpus: Vec<CliCase> = corpus_lines.iter().filter_map(|l| CliCase::parse(l)).collect();
    run_section_cli(rep, "corpus-cli", corpus, model, bin, work, seed);
    if tier == "replay" {
        return;
    }
    rep.rules.push("CLI: `comp cgr -k K [-v S] [-c]` for K in 3..=7, S in {default, 1, 2, 3, 16, 1000, 2^20}, raw and normalised, on small inputs with ambiguous bytes; the whole output vs the Lean expectation (end points at the requested size, frequencies of the oligo vector)".into());
    let mut r = Rng::new(seed ^ 0xC12);
    let mut cases = Vec::new();
    for k in 3..=7u64 {
        for v in [None, Some(1u64), Some(2), Some(3), Some(16), Some(1000), Some(1 << 20)] {
            if k >= 6 && !(v == Some(1) || v.is_none()) && !r.chance(1, 3) {
                continue;
            }
            let recs = seqs(&mut r, 3, k as usize, 60, false);
            cases.push(CliCase { sub: Sub::Cgr { k: Some(k), counts: r.chance(1, 2), v, threads: *r.pick(&[1u64, 2, 4]) }, recs, container: "fa".into() });
        }
    }
    run_section_cli(rep, "cli-kmer-cgr", cases, model, bin, work, seed);
}
