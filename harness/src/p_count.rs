//! C07: chunked, partitioned k-mer counting on real files
use crate::engine::*;
use crate::gen;
use crate::model::Model;
use crate::p_file::{install_sched, write_input};
use crate::util::*;
use counter::CountComputer;
use ktio::verif;

#[derive(Clone, Debug)]
pub struct CntCase {
    pub recs: Vec<Vec<u8>>,
    pub k: usize,
    pub threads: usize,
    /// memory ceiling in GB as the public setter takes it (tiny values give many chunks / partitions)
    pub mem: f64,
    pub acgt: bool,
    pub sched: String,
}

impl CntCase {
    pub fn req(&self) -> String {
        format!(
            "cntfile {} {} {:e} {} {} {}",
            self.k,
            self.threads,
            self.mem,
            if self.acgt { 1 } else { 0 },
            self.sched,
            if self.recs.is_empty() { "-".to_string() } else { self.recs.iter().map(|r| hexr(r)).collect::<Vec<_>>().join(",") }
        )
    }
    pub fn parse(line: &str) -> Option<CntCase> {
        let w: Vec<&str> = line.split_whitespace().collect();
        if w.len() != 7 || w[0] != "cntfile" {
            return None;
        }
        Some(CntCase {
            k: w[1].parse().ok()?,
            threads: w[2].parse().ok()?,
            mem: w[3].parse().ok()?,
            acgt: w[4] == "1",
            sched: w[5].to_string(),
            recs: if w[6] == "-" { vec![] } else { w[6].split(',').map(unhex).collect() },
        })
    }
    pub fn describe(&self) -> String {
        format!(
            "count k={} threads={} ceiling={:e}GB acgt={} schedule={} records={} [{}]",
            self.k,
            self.threads,
            self.mem,
            self.acgt,
            self.sched,
            self.recs.len(),
            self.recs.iter().take(4).map(|r| show(&r[..r.len().min(24)])).collect::<Vec<_>>().join(" | ")
        )
    }
}

pub struct CntOut {
    pub result: Result<(), String>,
    pub lines: Vec<String>,
    pub layout: (u64, u64),
    pub leftovers: Vec<String>,
    pub ctl: Option<verif::Ctl>,
}

pub fn run_count(c: &CntCase, work: &str, uid: &str, pre_dir: Option<&str>) -> CntOut {
    let inp = write_input(work, uid, &c.recs, &crate::p_file::container_for(&c.req(), &c.recs));
    let dir = match pre_dir {
        Some(d) => d.to_string(),
        None => format!("{}/cnt_{}", work, uid),
    };
    let _ = std::fs::create_dir_all(&dir);
    let planted = if pre_dir.is_none() && stale_case(&c.req()) { plant_counter_dir(&dir, c.threads.max(3) + 2) } else { Vec::new() };
    let mut layout = (0, 0);
    install_sched(&c.sched);
    let result = catch(std::panic::AssertUnwindSafe(|| {
        let mut cc = CountComputer::new(inp.clone(), dir.clone(), c.k);
        cc.set_threads(c.threads);
        cc.set_max_memory(c.mem);
        cc.set_acgt_output(c.acgt);
        cc.count();
        if stale_case(&format!("count twice {}", c.req())) {
            // a second `count()` on the same object finds the reader exhausted and must change nothing
            cc.count();
        }
        layout = cc.verif_layout();
        cc.merge(true);
    }));
    let ctl = verif::uninstall();
    let text = std::fs::read_to_string(format!("{}/kmers.counts", dir)).unwrap_or_default();
    let lines: Vec<String> = text.lines().map(|l| l.to_string()).collect();
    let mut leftovers = Vec::new();
    if let Ok(rd) = std::fs::read_dir(&dir) {
        for e in rd.flatten() {
            let n = e.file_name().to_string_lossy().to_string();
            // planted files of the "earlier run" that this run had no reason to touch are not its temporaries
            let untouched = planted.iter().any(|(pn, pc)| *pn == n && std::fs::read(e.path()).map(|b| b == *pc).unwrap_or(false));
            if n != "kmers.counts" && !untouched {
                leftovers.push(n);
            }
        }
    }
    leftovers.sort();
    crate::p_file::remove_input(&inp);
    if pre_dir.is_none() {
        let _ = std::fs::remove_dir_all(&dir);
    }
    CntOut { result, lines, layout, leftovers, ctl }
}

/// events of the chunk loops, one string per chunk
pub fn chunk_events(log: &[String]) -> Vec<(usize, String)> {
    let mut out: Vec<(usize, Vec<String>)> = Vec::new();
    for l in log {
        let w: Vec<&str> = l.split(' ').collect();
        match w[0] {
            "begin" if w[1] == "count-chunk" => out.push((w[2].parse().unwrap_or(0), Vec::new())),
            "check" => {
                if let Some(c) = out.last_mut() {
                    c.1.push(format!("c:{}", w[1]))
                }
            }
            "took" => {
                if let Some(c) = out.last_mut() {
                    c.1.push(format!("t:{}:{}", w[1], if w[2] == "-1" { "x" } else { w[2] }))
                }
            }
            "count" => {
                if let Some(c) = out.last_mut() {
                    c.1.push(format!("k:{}:{}", w[1], w[2]))
                }
            }
            "addlen" => {
                if let Some(c) = out.last_mut() {
                    c.1.push(format!("a:{}:{}", w[1], w[2]))
                }
            }
            "exit" => {
                if let Some(c) = out.last_mut() {
                    c.1.push(format!("x:{}", w[1]))
                }
            }
            _ => {}
        }
    }
    out.into_iter().map(|(t, e)| (t, if e.is_empty() { "-".into() } else { e.join(",") })).collect()
}

pub fn eval_count(c: &CntCase, model: &Model, work: &str, uid: &str, traces: &mut u64, branching: &mut Vec<usize>, dist: &mut Vec<(u64, u64)>) -> Option<Fail> {
    let r = run_count(c, work, uid, None);
    branching.clear();
    if let Some(ctl) = &r.ctl {
        branching.extend(ctl.branching.iter());
    }
    let recs_field = if c.recs.is_empty() { "-".to_string() } else { c.recs.iter().map(|r| hex(r)).collect::<Vec<_>>().join(",") };
    let ans = model.query(&[format!("counts {} {}", c.k, recs_field)]);
    let f: Vec<&str> = ans[0].split('|').collect();
    let fail = |class: &'static str, thm: &'static str, detail: String, imp: String| {
        Some(Fail { class, detail, theorem: thm, impl_out: trunc(&imp, 1500), model_out: trunc(&ans[0], 1500) })
    };
    if f.len() < 4 || f[0] != "ok" {
        return fail("model", "", "model failed".into(), String::new());
    }
    if let Err(p) = &r.result {
        return fail("spec", "KT.count_merge_exact", format!("counting panicked: {}", p), String::new());
    }
    dist.push(r.layout);
    // expected table
    let exp_num: Vec<(String, String)> = if f[1].is_empty() {
        vec![]
    } else {
        f[1].split(',').map(|e| { let mut it = e.split(':'); (it.next().unwrap().to_string(), it.next().unwrap().to_string()) }).collect()
    };
    let texts: Vec<String> = if f[3].is_empty() { vec![] } else { f[3].split(',').map(|h| String::from_utf8_lossy(&unhex(h)).to_string()).collect() };
    let mut expected: Vec<String> = exp_num
        .iter()
        .enumerate()
        .map(|(i, (x, n))| format!("{}\t{}", if c.acgt { texts[i].clone() } else { x.clone() }, n))
        .collect();
    expected.sort();
    let mut got = r.lines.clone();
    got.sort();
    if got != expected {
        // classify
        let mut keys: Vec<&str> = r.lines.iter().map(|l| l.split('\t').next().unwrap_or("")).collect();
        keys.sort();
        let dup = keys.windows(2).any(|w| w[0] == w[1]);
        let detail = if dup {
            "a k-mer appears on more than one line of the counts file".to_string()
        } else {
            format!("counts file differs from the multiset of canonical k-mers of the input ({} lines, expected {}; chunks={}, partitions={})", got.len(), expected.len(), r.layout.0, r.layout.1)
        };
        return fail("spec", "KT.count_merge_exact", detail, got.join(" ; "));
    }
    let sum: u64 = r.lines.iter().filter_map(|l| l.split('\t').nth(1)).filter_map(|x| x.parse::<u64>().ok()).sum();
    if sum.to_string() != f[2] {
        return fail("spec", "KT.table_sum", format!("counts sum to {} but the input has {} valid windows", sum, f[2]), got.join(" ; "));
    }
    if !r.leftovers.is_empty() {
        return fail("spec", "KT.no_temp_left", format!("files left in the output directory after merge(delete): {:?}", r.leftovers), r.leftovers.join(","));
    }
    // traces
    if c.sched.starts_with("serial") {
        if let Some(ctl) = &r.ctl {
            if ctl.uncontrolled {
                return fail("model", "", "scheduler lost control of the workers (uncontrolled run)".into(), String::new());
            }
            let limit = (1_000_000_000_f64 * c.mem / 8.0) as u64;
            let lens = if c.recs.is_empty() { "-".to_string() } else { c.recs.iter().map(|r| r.len().to_string()).collect::<Vec<_>>().join(",") };
            let mut start = 0usize;
            for (t, evs) in chunk_events(&ctl.log) {
                let req = format!("counttrace {} {} {} {} {} {}", c.recs.len(), limit, t, start, lens, evs);
                let a = model.query(&[req]);
                if !a[0].starts_with("ok") {
                    return Some(Fail { class: "model", detail: format!("event trace of a chunk (starting at record {}) is not a run of the Lean transition system: {}", start, a[0]), theorem: "", impl_out: trunc(&evs, 1500), model_out: a[0].clone() });
                }
                let next: usize = a[0].split('|').nth(1).and_then(|x| x.parse().ok()).unwrap_or(start);
                start = next;
                *traces += 1;
            }
            if start != c.recs.len() {
                return fail("model", "", format!("chunks consumed {} of {} records", start, c.recs.len()), String::new());
            }
        }
    }
    None
}

// ------------------------------------------------------------------ library histories (C17)

/// the table a run must leave: sorted lines `key TAB count` (numeric or ACGT keys) from the Lean spec `countsOf`
pub fn expected_lines(c: &CntCase, model: &Model) -> Result<Vec<String>, String> {
    let recs_field = if c.recs.is_empty() { "-".to_string() } else { c.recs.iter().map(|r| hex(r)).collect::<Vec<_>>().join(",") };
    let ans = model.query(&[format!("counts {} {}", c.k, recs_field)]);
    let f: Vec<&str> = ans[0].split('|').collect();
    if f.len() < 4 || f[0] != "ok" {
        return Err(format!("model failed: {}", trunc(&ans[0], 200)));
    }
    let nums: Vec<(String, String)> = if f[1].is_empty() { vec![] } else {
        f[1].split(',').map(|e| { let mut it = e.split(':'); (it.next().unwrap().to_string(), it.next().unwrap().to_string()) }).collect()
    };
    let texts: Vec<String> = if f[3].is_empty() { vec![] } else { f[3].split(',').map(|h| String::from_utf8_lossy(&unhex(h)).to_string()).collect() };
    let mut expected: Vec<String> = nums.iter().enumerate().map(|(i, (x, n))| format!("{}\t{}", if c.acgt { texts[i].clone() } else { x.clone() }, n)).collect();
    expected.sort();
    Ok(expected)
}

/// one step of a history in a shared output directory: a fresh `CountComputer` on the step's input, or (`reuse`) the object of
/// the previous step asked to count and merge again after its settings were changed; `delete` is merge's argument
#[derive(Clone, Debug)]
pub struct HistStep {
    pub case: CntCase,
    pub delete: bool,
    pub reuse: bool,
    /// with `reuse`: only `merge` is called again (after the setters), no second `count()`
    pub merge_only: bool,
}

#[derive(Clone, Debug)]
pub struct CntHistory {
    pub steps: Vec<HistStep>,
}

impl CntHistory {
    pub fn req(&self) -> String {
        format!("cnthist {}", self.steps.iter().map(|s| format!("{}/{}/{}", s.case.req().replace(' ', "/"), if s.delete { 1 } else { 0 }, if s.reuse && s.merge_only { 2 } else if s.reuse { 1 } else { 0 })).collect::<Vec<_>>().join(" "))
    }
    pub fn parse(line: &str) -> Option<CntHistory> {
        let w: Vec<&str> = line.split_whitespace().collect();
        if w.len() < 2 || w[0] != "cnthist" {
            return None;
        }
        let mut steps = Vec::new();
        for st in &w[1..] {
            let f: Vec<&str> = st.split('/').collect();
            if f.len() != 9 {
                return None;
            }
            let case = CntCase::parse(&f[..7].join(" "))?;
            steps.push(HistStep { case, delete: f[7] == "1", reuse: f[8] == "1" || f[8] == "2", merge_only: f[8] == "2" });
        }
        Some(CntHistory { steps })
    }
    pub fn describe(&self) -> String {
        self.steps.iter().map(|s| format!("[{} merge({}) {}]", s.case.describe(), s.delete, if s.reuse && s.merge_only { "same object, merge only" } else if s.reuse { "same object again" } else { "new object" })).collect::<Vec<_>>().join(" then ")
    }
}

pub fn eval_history(h: &CntHistory, model: &Model, work: &str, uid: &str) -> Option<Fail> {
    let last = &h.steps[h.steps.len() - 1].case;
    let expected = match expected_lines(last, model) {
        Ok(e) => e,
        Err(e) => return Some(Fail { class: "model", detail: e, theorem: "", impl_out: String::new(), model_out: String::new() }),
    };
    let dir = format!("{}/hist_{}", work, uid);
    let _ = std::fs::remove_dir_all(&dir);
    let _ = std::fs::create_dir_all(&dir);
    let mut inputs: Vec<String> = Vec::new();
    let result = catch(std::panic::AssertUnwindSafe(|| {
        let mut obj: Option<CountComputer> = None;
        for (i, st) in h.steps.iter().enumerate() {
            if !(st.reuse && obj.is_some()) {
                let inp = write_input(work, &format!("{}_{}", uid, i), &st.case.recs, "fa");
                inputs.push(inp.clone());
                let mut cc = CountComputer::new(inp, dir.clone(), st.case.k);
                cc.set_threads(st.case.threads);
                obj = Some(cc);
            }
            let cc = obj.as_mut().unwrap();
            cc.set_max_memory(st.case.mem);
            cc.set_acgt_output(st.case.acgt);
            if !(st.reuse && st.merge_only) {
                cc.count();
                if stale_case(&format!("count twice {} {}", i, st.case.req())) {
                    cc.count();
                }
            }
            cc.merge(st.delete);
        }
    }));
    let text = std::fs::read_to_string(format!("{}/kmers.counts", dir)).unwrap_or_default();
    for i in inputs {
        crate::p_file::remove_input(&i);
    }
    let _ = std::fs::remove_dir_all(&dir);
    if let Err(p) = result {
        return Some(Fail { class: "spec", detail: format!("a step of the history panicked: {}", p), theorem: "KT.ctrRun_result_independent", impl_out: String::new(), model_out: String::new() });
    }
    let mut got: Vec<String> = text.lines().map(|l| l.to_string()).collect();
    got.sort();
    if got != expected {
        return Some(Fail {
            class: "spec",
            detail: format!("after the history the table has {} lines; the last run alone in a fresh directory gives {}", got.len(), expected.len()),
            theorem: "KT.ctrRun_result_independent",
            impl_out: trunc(&got.join(" ; "), 1200),
            model_out: trunc(&expected.join(" ; "), 1200),
        });
    }
    None
}

fn shrink_hist(h: &CntHistory) -> Vec<CntHistory> {
    let mut out = Vec::new();
    if h.steps.len() > 2 {
        for i in 0..h.steps.len() - 1 {
            let mut d = h.clone();
            d.steps.remove(i);
            if !d.steps[0].reuse && !d.steps.iter().enumerate().any(|(j, s)| s.reuse && (j == 0 || d.steps[j - 1].delete)) {
                out.push(d);
            }
        }
    }
    for i in 0..h.steps.len() {
        if h.steps[i].reuse || (i + 1 < h.steps.len() && h.steps[i + 1].reuse) {
            continue;
        }
        for r in shrink_records(&h.steps[i].case.recs) {
            let mut d = h.clone();
            d.steps[i].case.recs = r;
            out.push(d);
        }
    }
    out
}

/// C17 through the library: histories of two or three count+merge steps in one directory — new objects with other inputs,
/// thread counts and ceilings, `merge(false)` leaving its chunk files behind, the same object asked again after a setter call
pub fn run_lib_histories(rep: &mut Report, tier: &str, seed: u64, model: &Model, corpus_lines: &[String], work: &str) {
    if sharded() {
        return;
    }
    rep.rules.push("library histories: 2-3 steps of CountComputer::count + merge(delete?) sharing one output directory (new object on another input / k / threads / ceiling / rendering, or the same object again after set_max_memory / set_acgt_output; merge(false) keeps the chunk files for the next step to trip over); the final kmers.counts must be the table of the last step's input (Lean spec countsOf)".into());
    let mut rng = Rng::new(seed ^ 0x17);
    let mut hs: Vec<(CntHistory, &str)> = corpus_lines.iter().filter_map(|l| CntHistory::parse(l)).map(|h| (h, "corpus")).collect();
    if tier != "replay" {
        let n = if tier == "thorough" { 600 } else { 150 };
        for _ in 0..n {
            let nsteps = rng.range(2, 3) as usize;
            // a frequent first step: the plainest run there is (one thread, one chunk, numeric keys) that keeps its chunk files
            let plain_first = rng.chance(1, 3);
            let mut steps: Vec<HistStep> = Vec::new();
            for i in 0..nsteps {
                let reuse = i > 0 && !steps[i - 1].delete && rng.chance(1, 3);
                let case = if reuse {
                    let mut c = steps[i - 1].case.clone();
                    // a ceiling that leaves the partition count as it was (the second `count()` recomputes it; another value
                    // would send the second merge looking for partitions the first pass never wrote — a use of the API the
                    // property does not cover)
                    if c.mem >= 1.0 {
                        c.mem = *rng.pick(&[6.0, 8.0]);
                    }
                    c.acgt = rng.chance(1, 2);
                    c
                } else {
                    let k = rng.range(2, 12) as usize;
                    let nrec = match rng.below(4) { 0 => rng.range(0, 1) as usize, 1 => 1, _ => rng.range(2, 14) as usize };
                    let recs = gen_recs(&mut rng, nrec, k, 120);
                    let total: usize = recs.iter().map(|r| r.len()).sum::<usize>().max(1);
                    CntCase { recs, k, threads: *rng.pick(&[1usize, 1, 2, 4, 7]), mem: *rng.pick(&[6.0, 6.0, 8e-9 * (total / 2).max(1) as f64, 8e-9]), acgt: rng.chance(1, 4), sched: "free".into() }
                };
                let mut case = case;
                let mut delete = rng.chance(1, 2);
                if i == 0 && plain_first {
                    case.threads = 1;
                    case.mem = 6.0;
                    case.acgt = false;
                    delete = false;
                    if case.recs.iter().all(|r| r.len() < case.k) {
                        case.recs.push(gen::clean_seq(&mut rng, case.k + 30, gen::Flavor::Uniform));
                    }
                }
                if i == 1 && plain_first && !reuse {
                    case.threads = *rng.pick(&[2usize, 3, 4]);
                }
                let merge_only = reuse && rng.chance(1, 2);
                if merge_only {
                    // the ceiling only matters to `count()`
                    case.mem = steps[i - 1].case.mem;
                }
                steps.push(HistStep { case, delete, reuse, merge_only });
            }
            hs.push((CntHistory { steps }, "library-histories"));
        }
    }
    for (i, (h, section)) in hs.iter().enumerate() {
        rep.evaluations += 1;
        progress(&h.req());
        rep.count(&format!("{}/steps:{}", section, h.steps.len()), 1);
        rep.count(&format!("{}/same-object-again:{}", section, h.steps.iter().any(|s| s.reuse)), 1);
        rep.count(&format!("{}/merge-keeps-chunks:{}", section, h.steps.iter().any(|s| !s.delete)), 1);
        let uid = format!("h{}_{}", seed, i);
        match eval_history(h, model, work, &uid) {
            None => {
                rep.nontrivial.insert(h.req());
                if i % 20 == 0 {
                    rep.sample(format!("[{}] {}", section, trunc(&h.describe(), 400)));
                }
            }
            Some(f) => {
                if rep.fail_count(section, f.class) < 2 {
                    let k = std::cell::Cell::new(0u64);
                    let ev = |x: &CntHistory| {
                        k.set(k.get() + 1);
                        eval_history(x, model, work, &format!("{}_s{}", uid, k.get()))
                    };
                    let from = h.steps.len();
                    let (sh, sf) = shrink_struct(h.clone(), f, &ev, &shrink_hist, 80);
                    rep.push_fail(section, trunc(&sh.describe(), 600), sh.req(), sf, from);
                }
            }
        }
    }
}

fn gen_recs(r: &mut Rng, n: usize, k: usize, maxlen: usize) -> Vec<Vec<u8>> {
    (0..n)
        .map(|_| match r.below(10) {
            0 => vec![],
            1 => gen::clean_seq(r, k.saturating_sub(1), gen::Flavor::Uniform),
            2 => vec![b'N'; r.range(1, 6) as usize],
            3 | 4 => {
                // highly repetitive: all workers hit the same k-mer
                let l = r.range(k as u64, maxlen as u64) as usize;
                vec![*r.pick(b"AC"); l]
            }
            _ => gen::sequence(r, &[k, k + 1, 3 * k], maxlen).0.into_iter().map(|b| if b < 33 || b > 126 || b == b'>' { b'N' } else { b }).collect(),
        })
        .collect()
}

fn shrink_cnt(c: &CntCase) -> Vec<CntCase> {
    let mut out = Vec::new();
    for r in shrink_records(&c.recs) {
        let mut d = c.clone();
        d.recs = r;
        out.push(d);
    }
    if c.threads > 1 {
        let mut d = c.clone();
        d.threads = 1;
        out.push(d);
    }
    if c.k > 1 {
        let mut d = c.clone();
        d.k -= 1;
        out.push(d);
    }
    out
}

pub fn run_c07(tier: &str, seed: u64, model: &Model, corpus_lines: Vec<String>, work: &str) -> Report {
    let mut rep = Report::new("C07");
    rep.rules.push("a case = record list (incl. highly repetitive records) + k in 1..=31 + threads 1..16 + memory ceiling (public float setter; values that give 1 to dozens of chunks and partitions) + ACGT flag + schedule (all interleavings of the record-level steps for small cases by DFS, seeded serialised schedules, jitter, free-running); compared: counts file as a sorted set of lines vs the multiset of canonical k-mers of the input (Lean spec), sum of counts vs number of valid windows, directory listing after merge, every chunk's event trace as a run of the Lean chunk system; non-trivial = at least two records, two workers and two chunks".into());
    let mut rng = Rng::new(seed);
    let mut traces = 0u64;
    let mut branching: Vec<usize> = Vec::new();
    let mut layouts: Vec<(u64, u64)> = Vec::new();
    let mut counter = 0u64;
    let mut n_sched = 0u64;
    let mut run_one = |c: &CntCase, section: &str, rep: &mut Report, traces: &mut u64, branching: &mut Vec<usize>, layouts: &mut Vec<(u64, u64)>| {
        counter += 1;
        let uid = format!("c07_{}_{}", seed, counter);
        progress(&c.req());
        rep.evaluations += 1;
        rep.count(&format!("{}/sched:{}", section, c.sched.split(':').next().unwrap()), 1);
        rep.count(&format!("{}/threads:{}", section, c.threads), 1);
        let before = layouts.len();
        match eval_count(c, model, work, &uid, traces, branching, layouts) {
            None => {
                if layouts.len() > before {
                    let (ch, pa) = layouts[layouts.len() - 1];
                    rep.count(&format!("{}/chunks:{}", section, match ch { 0 => "0", 1 => "1", 2..=5 => "2-5", _ => "6+" }), 1);
                    rep.count(&format!("{}/partitions:{}", section, match pa { 0..=1 => "1", 2..=16 => "2-16", _ => "17+" }), 1);
                    if c.recs.len() >= 2 && c.threads >= 2 && ch >= 2 {
                        rep.nontrivial.insert(c.req());
                    }
                }
                if counter % 61 == 1 {
                    rep.sample(format!("[{}] {}", section, c.describe()));
                }
            }
            Some(f) => {
                if rep.fail_count(section, f.class) < 2 {
                    let from = c.recs.len();
                    let k = std::cell::Cell::new(0u64);
                    let ev = |x: &CntCase| {
                        k.set(k.get() + 1);
                        let mut tr = 0;
                        let mut br = Vec::new();
                        let mut ly = Vec::new();
                        eval_count(x, model, work, &format!("{}_s{}", uid, k.get()), &mut tr, &mut br, &mut ly)
                    };
                    let (sc, sf) = shrink_struct(c.clone(), f, &ev, &shrink_cnt, 120);
                    rep.push_fail(section, sc.describe(), sc.req(), sf, from);
                } else {
                    rep.count(&format!("{}/more-failures:{}", section, f.class), 1);
                }
            }
        }
    };
    for c in corpus_lines.iter().filter_map(|l| CntCase::parse(l)) {
        run_one(&c, "corpus", &mut rep, &mut traces, &mut branching, &mut layouts);
    }
    if tier == "replay" {
        rep.traces_validated = traces;
        return rep;
    }
    // (1) DFS over all record-level interleavings for small cases
    let cfgs: Vec<(usize, usize)> = if tier == "thorough" { vec![(2, 2), (2, 3), (3, 2)] } else { vec![(2, 2)] };
    for (t, n) in cfgs {
        let k = 2;
        let recs = gen_recs(&mut rng, n, k, 8);
        let total: usize = recs.iter().map(|r| r.len()).sum();
        // ceiling such that the chunk limit is about half of the data: two chunks
        let mem = 8e-9 * (total.max(2) / 2) as f64;
        let base = CntCase { recs, k, threads: t, mem, acgt: false, sched: "serial:".into() };
        let mut stack: Vec<Vec<usize>> = vec![vec![]];
        let mut explored = 0u64;
        let cap = if tier == "thorough" { 6000 } else { 400 };
        while let Some(prefix) = stack.pop() {
            let mut c = base.clone();
            c.sched = format!("serial:{}", prefix.iter().map(|x| x.to_string()).collect::<Vec<_>>().join("."));
            run_one(&c, "dfs", &mut rep, &mut traces, &mut branching, &mut layouts);
            explored += 1;
            n_sched += 1;
            if explored >= cap {
                rep.notes.push(format!("DFS over schedules of {} workers x {} records stopped at the cap of {} schedules", t, n, cap));
                break;
            }
            for i in prefix.len()..branching.len() {
                for alt in 1..branching[i] {
                    let mut p = prefix.clone();
                    p.resize(i, 0);
                    p.push(alt);
                    stack.push(p);
                }
            }
        }
        if explored < cap {
            rep.exhaustive_spaces.push(format!("all {} interleavings (hook granularity) of {} workers over {} records, chunked counting", explored, t, n));
        }
    }
    // (2) random
    let n = if tier == "thorough" { 1500 } else { 120 };
    for _ in 0..n {
        let k = match rng.below(4) {
            0 => gen::kval(&mut rng, 1, 31) as usize,
            _ => rng.range(1, 6) as usize,
        };
        let nrec = match rng.below(5) {
            0 => rng.range(0, 2) as usize,
            1 => rng.range(40, if tier == "thorough" { 400 } else { 120 }) as usize,
            _ => rng.range(2, 25) as usize,
        };
        let recs = gen_recs(&mut rng, nrec, k, if nrec > 40 { 50 } else { 200 });
        let total: usize = recs.iter().map(|r| r.len()).sum::<usize>().max(1);
        let mem = match rng.below(5) {
            0 => 6.0,
            1 => 8e-9 * total as f64,
            2 => 8e-9 * (total / 3).max(1) as f64,
            3 => 8e-9 * (total / 20).max(1) as f64,
            _ => 8e-9,
        };
        let threads = *rng.pick(&[1usize, 2, 3, 4, 8, 16]);
        let sched = match rng.below(4) {
            0 => "free".to_string(),
            1 => format!("jitter:{}", rng.below(1 << 30) + 1),
            _ => format!("serialrand:{}", rng.below(1 << 30) + 1),
        };
        let c = CntCase { recs, k, threads, mem, acgt: rng.chance(1, 4), sched };
        run_one(&c, "random", &mut rep, &mut traces, &mut branching, &mut layouts);
    }
    // (3) free-running contention stress: many copies of one long record so that all workers meet
    // the same k-mers for the first time together (races below hook granularity, e.g. a lost update
    // between a lookup and an insert, only show up here)
    let rounds = if tier == "thorough" { 60 } else { 5 };
    for i in 0..rounds {
        let k = *rng.pick(&[5usize, 11, 21, 31]);
        let len = rng.range(3000, 6000) as usize;
        let one = gen::clean_seq(&mut rng, len, if i % 2 == 0 { gen::Flavor::Uniform } else { gen::Flavor::Tandem });
        let recs: Vec<Vec<u8>> = (0..32).map(|_| one.clone()).collect();
        let c = CntCase { recs, k, threads: 16, mem: 6.0, acgt: false, sched: "free".into() };
        run_one(&c, "contention", &mut rep, &mut traces, &mut branching, &mut layouts);
    }
    // (3b) a ceiling below 8e-9 GB: the chunk budget (1e9 * ceiling / 8, truncated) is 0 bases — every chunk still takes one
    // record per worker, and the table must be exact
    for _ in 0..(if tier == "thorough" { 40 } else { 6 }) {
        let k = rng.range(1, 5) as usize;
        let nrec = rng.range(1, 5) as usize;
        let recs: Vec<Vec<u8>> = (0..nrec).map(|_| { let l = rng.range(k as u64, k as u64 + 8) as usize; gen::clean_seq(&mut rng, l, gen::Flavor::Uniform) }).collect();
        let c = CntCase { recs, k, threads: *rng.pick(&[1usize, 2, 3]), mem: *rng.pick(&[1e-9, 4e-9, 7e-9, 7.9e-9]), acgt: false, sched: "free".into() };
        run_one(&c, "zero-budget", &mut rep, &mut traces, &mut branching, &mut layouts);
    }
    // (4) scale: multiplicities beyond 16 bits (one k-mer seen > 65536 times, within one record and across records) and more
    // than 2^16 records — narrow counters, block-wise readers, per-record budget arithmetic
    {
        let a = rng.range(66_000, 70_000) as usize;
        let mut recs: Vec<Vec<u8>> = vec![vec![*rng.pick(b"ACGTacgt"); a]];
        for _ in 0..3 {
            recs.push(vec![b'A'; rng.range(20_000, 30_000) as usize]);
            recs.push(gen::clean_seq(&mut rng, 50, gen::Flavor::Uniform));
        }
        for (threads, mem) in [(4usize, 6.0), (3, 8e-9 * 30_000.0)] {
            let c = CntCase { recs: recs.clone(), k: *rng.pick(&[1usize, 3, 4]), threads, mem, acgt: false, sched: "free".into() };
            run_one(&c, "scale", &mut rep, &mut traces, &mut branching, &mut layouts);
        }
        let n = rng.range(66_000, 68_000) as usize;
        let recs: Vec<Vec<u8>> = (0..n).map(|i| gen::clean_seq(&mut rng, 2 + i % 5, gen::Flavor::Uniform)).collect();
        let c = CntCase { recs, k: 2, threads: 8, mem: 6.0, acgt: false, sched: "free".into() };
        run_one(&c, "scale", &mut rep, &mut traces, &mut branching, &mut layouts);
    }
    rep.traces_validated = traces;
    rep.schedules_enumerated = n_sched;
    rep
}

/// C14: the unchecked partition index `min_mer % n_parts` — small inputs with a tiny ceiling so that the
/// number of partitions exceeds the thread count by far
pub fn run_partition_cases(tier: &str, seed: u64, model: &Model, work: &str) -> Report {
    let mut rep = Report::new("C14");
    rep.rules.push("counting partitions: records counted with 1..4 threads and a ceiling that yields dozens of partitions and several chunks (the unchecked partition index must stay inside the partition table); counts file compared with the Lean counts".into());
    if sharded() || tier == "replay" {
        return rep;
    }
    let mut rng = Rng::new(seed ^ 0x7714);
    let n = if tier == "thorough" { 200 } else { 20 };
    for i in 0..n {
        let k = rng.range(3, 15) as usize;
        let nrec = rng.range(2, 30) as usize;
        let recs = gen_recs(&mut rng, nrec, k, 120);
        let c = CntCase { recs, k, threads: *rng.pick(&[1usize, 2, 4]), mem: *rng.pick(&[1e-6, 1e-7, 4e-8]), acgt: false, sched: "free".into() };
        progress(&c.req());
        rep.evaluations += 1;
        let mut tr = 0;
        let mut br = Vec::new();
        let mut ly = Vec::new();
        match eval_count(&c, model, work, &format!("c14p_{}_{}", seed, i), &mut tr, &mut br, &mut ly) {
            None => {
                if let Some((_, parts)) = ly.last() {
                    rep.count(&format!("partitions/{}", if *parts as usize > 4 * c.threads { "many" } else { "few" }), 1);
                    if *parts as usize > c.threads {
                        rep.nontrivial.insert(c.req());
                    }
                }
            }
            Some(f) => {
                if rep.fail_count("partitions", f.class) < 2 {
                    rep.push_fail("partitions", c.describe(), c.req(), f, c.recs.len());
                }
            }
        }
    }
    rep
}
