//! structured generators for sequences and parameters (DESIGN §1.5)
use crate::util::Rng;

pub const ACGT: &[u8] = b"ACGT";
pub const NUC_ALL: &[u8] = b"ACGTUacgtu";

fn comp(b: u8) -> u8 {
    match b {
        b'A' | b'a' => b'T',
        b'C' | b'c' => b'G',
        b'G' | b'g' => b'C',
        b'T' | b't' | b'U' | b'u' => b'A',
        x => x,
    }
}

pub fn revcomp(s: &[u8]) -> Vec<u8> {
    s.iter().rev().map(|&b| comp(b)).collect()
}

/// an ambiguous byte: N, IUPAC letters, or any byte 0x04..=0xFF that is not a nucleotide letter
pub fn ambiguous_byte(r: &mut Rng) -> u8 {
    match r.below(4) {
        0 => b'N',
        1 => *r.pick(b"RYKMSWBDHVNnryk-*. \t"),
        _ => loop {
            let b = r.range(4, 255) as u8;
            if !NUC_ALL.contains(&b) {
                return b;
            }
        },
    }
}

#[derive(Clone, Copy, Debug, PartialEq, Eq)]
pub enum Flavor {
    Uniform,
    Homopolymer,
    Tandem,
    Palindromic,
    MixedCase,
}

pub const FLAVORS: &[(&str, Flavor)] = &[
    ("uniform", Flavor::Uniform),
    ("homopolymer", Flavor::Homopolymer),
    ("tandem", Flavor::Tandem),
    ("palindromic", Flavor::Palindromic),
    ("mixedcase", Flavor::MixedCase),
];

/// clean nucleotide string of length `n`
pub fn clean_seq(r: &mut Rng, n: usize, fl: Flavor) -> Vec<u8> {
    let mut s: Vec<u8> = match fl {
        Flavor::Uniform => (0..n).map(|_| *r.pick(ACGT)).collect(),
        Flavor::MixedCase => (0..n).map(|_| *r.pick(NUC_ALL)).collect(),
        Flavor::Homopolymer => {
            // a few long single-letter stretches
            let mut v = Vec::with_capacity(n);
            while v.len() < n {
                let c = *r.pick(ACGT);
                let l = r.range(1, 12) as usize;
                for _ in 0..l {
                    v.push(c);
                }
            }
            v
        }
        Flavor::Tandem => {
            let p = r.range(2, 6) as usize;
            let unit: Vec<u8> = (0..p).map(|_| *r.pick(ACGT)).collect();
            (0..n).map(|i| unit[i % p]).collect()
        }
        Flavor::Palindromic => {
            let h = n / 2 + 1;
            let half: Vec<u8> = (0..h).map(|_| *r.pick(ACGT)).collect();
            let mut v = half.clone();
            v.extend(revcomp(&half));
            v
        }
    };
    s.truncate(n);
    while s.len() < n {
        s.push(*r.pick(ACGT));
    }
    s
}

/// sprinkle ambiguous bytes at rate `per_mille`/1000, optionally pinned first / last
pub fn add_ambiguous(r: &mut Rng, s: &mut [u8], per_mille: u64) {
    for b in s.iter_mut() {
        if r.below(1000) < per_mille {
            *b = ambiguous_byte(r);
        }
    }
}

/// a "typical" length distribution around the interesting sizes `marks`
pub fn length(r: &mut Rng, marks: &[usize], max: usize) -> usize {
    match r.below(10) {
        0..=3 => {
            let m = *r.pick(marks) as i64;
            let d = r.range(0, 4) as i64 - 2;
            (m + d).max(0) as usize
        }
        4 => r.below(4) as usize,
        _ => r.log_uniform(1, max as u64) as usize,
    }
    .min(max)
}

/// general sequence: flavour × ambiguity rate; returns (bytes, generator tag)
pub fn sequence(r: &mut Rng, marks: &[usize], max: usize) -> (Vec<u8>, &'static str) {
    let n = length(r, marks, max);
    let (name, fl) = *r.pick(FLAVORS);
    let mut s = clean_seq(r, n, fl);
    let rate = *r.pick(&[0u64, 0, 10, 100, 500]);
    add_ambiguous(r, &mut s, rate);
    if !s.is_empty() {
        match r.below(12) {
            0 => s[0] = ambiguous_byte(r),
            1 => {
                let l = s.len() - 1;
                s[l] = ambiguous_byte(r)
            }
            _ => {}
        }
    }
    (s, name)
}

/// k with weight on the boundary values
pub fn kval(r: &mut Rng, lo: u64, hi: u64) -> u64 {
    let marks = [1u64, 2, 3, 15, 16, 17, 30, 31];
    if r.chance(1, 2) {
        for _ in 0..8 {
            let k = *r.pick(&marks);
            if k >= lo && k <= hi {
                return k;
            }
        }
    }
    r.range(lo, hi)
}

/// enumerate all strings over `alpha` of length `n` (callback)
pub fn all_strings(alpha: &[u8], n: usize, f: &mut dyn FnMut(&[u8])) {
    let mut idx = vec![0usize; n];
    let mut buf: Vec<u8> = vec![alpha[0]; n];
    loop {
        f(&buf);
        let mut i = n;
        loop {
            if i == 0 {
                return;
            }
            i -= 1;
            idx[i] += 1;
            if idx[i] < alpha.len() {
                buf[i] = alpha[idx[i]];
                break;
            }
            idx[i] = 0;
            buf[i] = alpha[0];
        }
    }
}
