//! correspondence harness: calls the real kmertools code in-process, asks the Lean model driver
//! the same questions, compares, shrinks, and writes a JSON report for `./check`.
mod engine;
mod gen;
mod model;
mod p_kmer;
mod p_minfile;
mod p_min;
mod p_py;
mod p_cgrfile;
mod p_cli;
mod p_count;
mod p_covfile;
mod p_file;
mod p_io;
mod p_tables;
mod p_vec;
mod util;

use engine::{Case, Report};
use model::Model;

const KINDS: &[&str] = &["kmers", "revcomp", "posmaps", "mins", "kmins", "oligo", "cov", "cgr", "oligocgr", "oligobig", "posmapsp", "oligocgrbig"];

fn parse_case(line: &str) -> Option<Case> {
    let line = line.trim();
    if line.is_empty() || line.starts_with('#') {
        return None;
    }
    let ws: Vec<&str> = line.split_whitespace().collect();
    let kind = KINDS.iter().find(|k| **k == ws[0])?;
    let mut params = Vec::new();
    let mut i = 1;
    while i < ws.len() {
        // parameters are decimal numbers; the sequence is hex (even length) or "-"
        if let Ok(p) = ws[i].parse::<u64>() {
            // a purely numeric hex string is ambiguous: parameters come first and their number is fixed per kind
            let nparams = match *kind {
                "kmers" | "posmaps" | "cgr" => 1,
                "revcomp" | "mins" | "kmins" | "oligo" | "oligobig" | "posmapsp" => 2,
                "oligocgr" | "oligocgrbig" => 3,
                "cov" => 4,
                _ => 0,
            };
            if params.len() < nparams {
                params.push(p);
                i += 1;
                continue;
            }
        }
        break;
    }
    let seq = if i < ws.len() { util::unhex(ws[i]) } else { vec![] };
    let extra = if i + 1 < ws.len() { ws[i + 1..].join(" ") } else { String::new() };
    let mut c = Case::new(kind, &params, &seq, "corpus");
    c.extra = extra;
    Some(c)
}

/// the Python entry point named among a property's observation points: the same cases as C13 runs, restricted to `ops`
#[allow(clippy::too_many_arguments)]
fn py_part(rep: &mut Report, pid: &str, ops: &[&str], what: &str, tier: &str, seed: u64, model: &Model, corpus_lines: &[String], pymod: &str, work: &str) {
    let py_corpus: Vec<String> = corpus_lines.iter().filter(|l| ops.iter().any(|o| l.starts_with(&format!("{} ", o)))).cloned().collect();
    let mut py = p_py::run_py(pid, Some(ops), tier, seed, model, py_corpus, pymod, work);
    py.rules.clear();
    py.rules.push(format!("Python binding: {} on the module built from the working tree vs the Rust core called in-process (and the Lean transcription where the binding has its own loop)", what));
    rep.merge(py);
}

fn load_corpus_lines(dir: &str) -> Vec<String> {
    let mut out = Vec::new();
    if let Ok(rd) = std::fs::read_dir(dir) {
        let mut paths: Vec<_> = rd.filter_map(|e| e.ok()).map(|e| e.path()).collect();
        paths.sort();
        for p in paths {
            if p.extension().map(|e| e == "req").unwrap_or(false) {
                if let Ok(text) = std::fs::read_to_string(&p) {
                    out.extend(text.lines().filter(|l| !l.trim().is_empty() && !l.starts_with('#')).map(|l| l.to_string()));
                }
            }
        }
    }
    out
}

fn load_corpus(dir: &str) -> Vec<Case> {
    let mut out = Vec::new();
    if let Ok(rd) = std::fs::read_dir(dir) {
        let mut paths: Vec<_> = rd.filter_map(|e| e.ok()).map(|e| e.path()).collect();
        paths.sort();
        for p in paths {
            if p.extension().map(|e| e == "req").unwrap_or(false) {
                if let Ok(text) = std::fs::read_to_string(&p) {
                    out.extend(text.lines().filter_map(parse_case));
                }
            }
        }
    }
    out
}

fn main() {
    let args: Vec<String> = std::env::args().collect();
    let mut prop = String::new();
    let mut tier = "quick".to_string();
    let mut seed = 1u64;
    let mut model_path = "/verif/lean/.lake/build/bin/ktmodel".to_string();
    let mut out = String::new();
    let mut corpus_dir = String::new();
    let mut replay = String::new();
    let mut work = "/verif/.cache/work".to_string();
    let mut cli_bin = "/verif/.cache/target-cli/release/kmertools".to_string();
    let mut pymod = "/verif/.cache/pymod".to_string();
    let mut i = 1;
    while i < args.len() {
        match args[i].as_str() {
            "--tier" => {
                tier = args[i + 1].clone();
                i += 1
            }
            "--seed" => {
                seed = args[i + 1].parse().unwrap_or(1);
                i += 1
            }
            "--model" => {
                model_path = args[i + 1].clone();
                i += 1
            }
            "--out" => {
                out = args[i + 1].clone();
                i += 1
            }
            "--corpus" => {
                corpus_dir = args[i + 1].clone();
                i += 1
            }
            "--replay" => {
                replay = args[i + 1].clone();
                i += 1
            }
            "--cli" => {
                cli_bin = args[i + 1].clone();
                i += 1
            }
            "--pymod" => {
                pymod = args[i + 1].clone();
                i += 1
            }
            "--work" => {
                work = args[i + 1].clone();
                i += 1
            }
            x if prop.is_empty() => prop = x.to_string(),
            x => {
                eprintln!("unknown argument {}", x);
                std::process::exit(2);
            }
        }
        i += 1;
    }
    // panics of the code under test are captured per case; keep stderr quiet
    std::panic::set_hook(Box::new(|_| {}));
    if prop == "dump-tables" {
        println!("{}", p_tables::dump());
        return;
    }
    engine::start_watchdog(if tier == "thorough" { 900 } else { 240 });
    let model = Model::new(&model_path);
    let corpus_lines: Vec<String> = if !replay.is_empty() {
        let text = std::fs::read_to_string(&replay).unwrap_or_default();
        text.lines().filter_map(|l| l.strip_prefix("request: ")).map(|l| l.to_string()).collect()
    } else {
        load_corpus_lines(&corpus_dir)
    };
    let _ = std::fs::create_dir_all(&work);
    let corpus = if !replay.is_empty() {
        // a replay file carries the request on its `request:` line
        let text = std::fs::read_to_string(&replay).unwrap_or_default();
        text.lines()
            .filter_map(|l| l.strip_prefix("request: "))
            .filter_map(parse_case)
            .collect()
    } else {
        load_corpus(&corpus_dir)
    };
    let only_corpus = !replay.is_empty();
    let eff_tier = if only_corpus { "replay" } else { tier.as_str() };
    let rep: Report = match prop.as_str() {
        "C01" => {
            let mut rep = p_kmer::run_c01(eff_tier, seed, &model, corpus);
            py_part(&mut rep, "C01", &["kmers", "kmersdel"], "KmerGenerator", eff_tier, seed, &model, &corpus_lines, &pymod, &work);
            rep
        }
        "C02" => {
            let mut rep = p_kmer::run_c02(eff_tier, seed, &model, corpus);
            py_part(&mut rep, "C02", &["toacgt", "kmers"], "KmerGenerator.to_acgt and the iterator's pairs", eff_tier, seed, &model, &corpus_lines, &pymod, &work);
            rep
        }
        "C03" => {
            let mut rep = p_kmer::run_c03(eff_tier, seed, &model, corpus);
            p_cli::run_c03_cli(&mut rep, eff_tier, seed, &model, &cli_bin, &work);
            py_part(&mut rep, "C03", &["header"], "OligoComputer(k).get_header()", eff_tier, seed, &model, &corpus_lines, &pymod, &work);
            if eff_tier == "thorough" && !engine::sharded() {
                // the header line of a mapped output of more than 4 GiB (row offsets beyond 32 bits must not land in it)
                let mut exp = p_file::Expect::new(&model);
                rep.evaluations += 1;
                if let Some(f) = p_file::giant_output(true, &mut exp, &work) {
                    rep.push_fail("giant-output", "58300 identical records, k = 7, mapped writer with header".into(), "giant 1".into(), f, 0);
                }
            }
            rep
        }
        "C04" => {
            // per-record values, then the written rows through both writer paths of the file API
            let mut rep = p_vec::run_c04(eff_tier, seed, &model, corpus);
            let mut files = p_file::run_files("C04", if eff_tier == "thorough" { "quick" } else { eff_tier }, seed, &model, corpus_lines.clone(), &work);
            files.property = "C04".into();
            rep.merge(files);
            py_part(&mut rep, "C04", &["oligo", "obatch"], "OligoComputer.vectorise_one / vectorise_batch", eff_tier, seed, &model, &corpus_lines, &pymod, &work);
            rep
        }
        "C08" => {
            let mut rep = Report::new("C08");
            let mut rng = util::Rng::new(seed);
            p_vec::run_c08_one(eff_tier, &mut rng, &model, &mut rep, corpus);
            p_covfile::run_c08_files(eff_tier, &mut rng, &model, &mut rep, &corpus_lines, &work);
            rep
        }
        "C11" => {
            let mut rep = Report::new("C11");
            let mut rng = util::Rng::new(seed);
            p_vec::run_c11_one(eff_tier, &mut rng, &model, &mut rep, corpus);
            p_vec::run_display(eff_tier, &mut rng, &model, &mut rep, &corpus_lines);
            p_cgrfile::run_cgr_files(false, eff_tier, &mut rng, &model, &mut rep, &corpus_lines, &work);
            // the Python binding has its own copy of the CGR loop (same property, same anchors)
            let py_corpus: Vec<String> = corpus_lines.iter().filter(|l| l.starts_with("cgr ") || l.starts_with("cbatch ")).cloned().collect();
            let mut py = p_py::run_py("C11", Some(&["cgr", "cbatch"]), eff_tier, seed, &model, py_corpus, &pymod, &work);
            py.rules.clear();
            py.rules.push("Python binding: CgrComputer.vectorise_one / vectorise_batch on the module built from the working tree vs the Rust core and the Lean transcription of the binding's loop".into());
            rep.merge(py);
            rep
        }
        "C12" => {
            let mut rep = Report::new("C12");
            let mut rng = util::Rng::new(seed);
            p_vec::run_c12_one(eff_tier, &mut rng, &model, &mut rep, corpus);
            p_cgrfile::run_cgr_files(true, eff_tier, &mut rng, &model, &mut rep, &corpus_lines, &work);
            p_cli::run_c12_cli(&mut rep, eff_tier, seed, &model, &corpus_lines, &cli_bin, &work);
            rep
        }
        "C05" => p_file::run_files("C05", eff_tier, seed, &model, corpus_lines, &work),
        "C14" => {
            // memory-mapped writes, then the unchecked histogram index of the coverage vectors
            let (cov_corpus, _rest): (Vec<Case>, Vec<Case>) = corpus.into_iter().partition(|c| c.kind == "cov");
            let mut rep = p_file::run_files("C14", eff_tier, seed, &model, corpus_lines, &work);
            let mut cov = Report::new("C14");
            let mut rng = util::Rng::new(seed ^ 0xC14);
            p_vec::run_c08_one(eff_tier, &mut rng, &model, &mut cov, cov_corpus);
            cov.rules.push("coverage histogram: CovComputer::vectorise_one with multiplicities at and around bin-size x bin-count and up to u32::MAX (the unchecked index must stay below bin-count)".into());
            rep.merge(cov);
            rep.merge(p_count::run_partition_cases(eff_tier, seed, &model, &work));
            rep
        }
        "C07" => p_count::run_c07(eff_tier, seed, &model, corpus_lines, &work),
        "C10" => p_minfile::run_c10(eff_tier, seed, &model, corpus_lines, &work),
        "C13" => p_py::run_c13(eff_tier, seed, &model, corpus_lines, &pymod, &work),
        "C15" => p_cli::run_c15(eff_tier, seed, &model, corpus_lines, &cli_bin, &work),
        "C16" => {
            let mut rep = p_cli::run_c16(eff_tier, seed, &model, corpus_lines.clone(), &cli_bin, &work);
            // "Result or panic of the library entry points": the file API on degenerate record lists
            let mut lib = p_file::run_files("C16", eff_tier, seed, &model, corpus_lines, &work);
            lib.property = "C16".into();
            lib.rules.clear();
            lib.rules.push("library: OligoComputer file API (both writers) on degenerate record lists with delimiters of length 0, 1, 2, 3 and a multi-byte character; output compared with header ++ rows of the Lean model".into());
            rep.merge(lib);
            rep
        }
        "C17" => {
            let mut rep = p_cli::run_c17(eff_tier, seed, &model, corpus_lines.clone(), &cli_bin, &work);
            p_count::run_lib_histories(&mut rep, eff_tier, seed, &model, &corpus_lines, &work);
            rep
        }
        "C06" => p_io::run_c06(eff_tier, seed, &model, corpus_lines, &work),
        "C09" => {
            let mut rep = p_min::run_c09(eff_tier, seed, &model, corpus);
            py_part(&mut rep, "C09", &["mins", "minsdel"], "MinimiserGenerator", eff_tier, seed, &model, &corpus_lines, &pymod, &work);
            rep
        }
        "C18" => p_min::run_c18(eff_tier, seed, &model, corpus),
        _ => {
            eprintln!("unknown property {}", prop);
            std::process::exit(2);
        }
    };
    let js = rep.to_json();
    if out.is_empty() {
        println!("{}", js);
    } else {
        std::fs::write(&out, js).expect("write report");
    }
}
