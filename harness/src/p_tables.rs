//! behavioural copies of the data-like parts (DESIGN §1.2a): complete enumeration of each finite domain
use kmer::kmer::KmerGenerator;
use kmer::kmer_minimisers::KmerMinimiserGenerator;
use kmer::minimiser::MinimiserGenerator;
use ktio::seq::SeqFormat;

pub const FORMAT_NAMES: &[&str] = &[
    "x.fa", "x.fasta", "x.fna", "x.fq", "x.fastq", "x.fa.gz", "x.fasta.gz", "x.fna.gz", "x.fq.gz",
    "x.fastq.gz", "x.txt", "x.gz", "x", "x.fa.bz2", "x.FA", "fa", "x.fastq.fa", "x.fa.fq", "x.fas",
    ".fa", "dir/.fastq", ".fq.gz", "reads.fq.fa.gz", "a.fq/x.fa", "x.fastq.fasta", ".gz", "x..fa",
];

fn arr(v: &[i64]) -> String {
    format!("[{}]", v.iter().map(|x| x.to_string()).collect::<Vec<_>>().join(","))
}

pub fn dump() -> String {
    // effective table of each iterator: value of byte b, or 4 when it yields nothing
    let mut t_kmer = Vec::new();
    let mut t_min = Vec::new();
    let mut t_kmin = Vec::new();
    let mut corner = Vec::new();
    let cgr = composition::cgr::CgrComputer::new("-".into(), "-".into(), 2);
    for b in 0..=255u8 {
        let v = crate::util::catch(|| KmerGenerator::new(&[b], 1).next().map(|(f, _)| f as i64).unwrap_or(4))
            .unwrap_or(-1);
        t_kmer.push(v);
        let s = [b'A', b];
        let v = crate::util::catch(|| {
            MinimiserGenerator::new(&s, 2, 2)
                .next()
                .map(|(m, _, _)| m as i64)
                .unwrap_or(4)
        })
        .unwrap_or(-1);
        t_min.push(v);
        let v = crate::util::catch(|| {
            KmerMinimiserGenerator::new(&s, 2, 2)
                .next()
                .map(|(m, _, _, _)| m as i64)
                .unwrap_or(4)
        })
        .unwrap_or(-1);
        t_kmin.push(v);
        // corner of byte b at S = 2: first point = ((cx+1)/2, (cy+1)/2)
        let c = match cgr.verif_vectorise_one(&[b]) {
            Ok(p) if p.len() == 1 => {
                let cx = 2.0 * p[0].0 - 1.0;
                let cy = 2.0 * p[0].1 - 1.0;
                let ux = if cx == 0.0 { 0 } else if cx == 2.0 { 1 } else { 9 };
                let uy = if cy == 0.0 { 0 } else if cy == 2.0 { 1 } else { 9 };
                2 * ux + uy
            }
            _ => 4,
        };
        corner.push(c as i64);
    }
    let letters: Vec<i64> = (0..4u64)
        .map(|d| kmer::numeric_to_kmer(d, 1).bytes().next().map(|b| b as i64).unwrap_or(-1))
        .collect();
    let formats: Vec<i64> = FORMAT_NAMES
        .iter()
        .map(|n| match SeqFormat::get(n) {
            None => 0,
            Some(SeqFormat::Fasta) => 1,
            Some(SeqFormat::Fastq) => 2,
        })
        .collect();
    format!(
        "{{\"nt4_kmer\":{},\"nt4_min\":{},\"nt4_kmin\":{},\"cgr_corner\":{},\"letters\":{},\"formats\":{}}}",
        arr(&t_kmer),
        arr(&t_min),
        arr(&t_kmin),
        arr(&corner),
        arr(&letters),
        arr(&formats)
    )
}
