//! the Lean model driver (`ktmodel`), spoken to through its line protocol
use std::io::{BufRead, BufReader, Write};
use std::process::{Command, Stdio};

pub struct Model {
    pub path: String,
}

impl Model {
    pub fn new(path: &str) -> Self {
        Model {
            path: path.to_string(),
        }
    }

    /// one answer line per request line, same order
    pub fn query(&self, reqs: &[String]) -> Vec<String> {
        if reqs.is_empty() {
            return Vec::new();
        }
        // split into chunks answered by parallel driver processes
        let nproc = std::thread::available_parallelism()
            .map(|n| n.get())
            .unwrap_or(4)
            .min(16);
        let chunk = ((reqs.len() + nproc - 1) / nproc).max(64);
        let chunks: Vec<&[String]> = reqs.chunks(chunk).collect();
        let mut out: Vec<Vec<String>> = Vec::new();
        std::thread::scope(|sc| {
            let handles: Vec<_> = chunks
                .iter()
                .map(|c| sc.spawn(move || self.query_one(c)))
                .collect();
            for h in handles {
                out.push(h.join().expect("model thread"));
            }
        });
        out.into_iter().flatten().collect()
    }

    fn query_one(&self, reqs: &[String]) -> Vec<String> {
        let mut child = Command::new(&self.path)
            .stdin(Stdio::piped())
            .stdout(Stdio::piped())
            .stderr(Stdio::inherit())
            .spawn()
            .unwrap_or_else(|e| panic!("cannot start model driver {}: {}", self.path, e));
        let mut stdin = child.stdin.take().unwrap();
        let stdout = child.stdout.take().unwrap();
        let mut answers = Vec::with_capacity(reqs.len());
        std::thread::scope(|sc| {
            sc.spawn(move || {
                for r in reqs {
                    let _ = stdin.write_all(r.as_bytes());
                    let _ = stdin.write_all(b"\n");
                }
                drop(stdin);
            });
            let rd = BufReader::with_capacity(1 << 20, stdout);
            for line in rd.lines() {
                answers.push(line.unwrap_or_else(|_| "io-error".to_string()));
            }
        });
        let _ = child.wait();
        while answers.len() < reqs.len() {
            answers.push("model-died".to_string());
        }
        answers
    }
}
