//! C06: the sequence reader (FASTA / FASTQ, plain or gzip, iterator and statistics pass)
use crate::engine::*;
use crate::gen;
use crate::model::Model;
use crate::util::*;
use flate2::write::GzEncoder;
use flate2::Compression;
use ktio::seq::{get_reader, SeqFormat, Sequences};
use std::io::Write;

#[derive(Clone, Debug, PartialEq)]
pub struct Src {
    pub id: Vec<u8>,
    pub desc: Option<Vec<u8>>,
    pub seq: Vec<u8>,
    pub qual: Vec<u8>,
}

#[derive(Clone, Debug)]
pub struct IoCase {
    pub fastq: bool,
    pub eol: Vec<u8>,
    pub wrap: usize,
    pub fin: bool,
    pub recs: Vec<Src>,
    /// "plain", "gzc" (one compressed member), "gzs" (one stored member), "gzm:<a>,<b>,…" (members cut at these offsets)
    pub container: String,
    pub suffix: String,
}

pub fn chunks(w: usize, l: &[u8]) -> Vec<Vec<u8>> {
    if l.is_empty() {
        return vec![];
    }
    l.chunks(w.max(1)).map(|c| c.to_vec()).collect()
}

pub fn serialise(c: &IoCase) -> Vec<u8> {
    let mut lines: Vec<Vec<u8>> = Vec::new();
    for r in &c.recs {
        let mut h = vec![if c.fastq { b'@' } else { b'>' }];
        h.extend(&r.id);
        if let Some(d) = &r.desc {
            h.push(b' ');
            h.extend(d);
        }
        lines.push(h);
        lines.extend(chunks(c.wrap, &r.seq));
        if c.fastq {
            lines.push(vec![b'+']);
            lines.extend(chunks(c.wrap, &r.qual));
        }
    }
    let mut out = Vec::new();
    let n = lines.len();
    for (i, l) in lines.iter().enumerate() {
        out.extend(l);
        if i + 1 < n || c.fin {
            out.extend(&c.eol);
        }
    }
    out
}

fn recs_field(recs: &[Src]) -> String {
    if recs.is_empty() {
        return "-".into();
    }
    recs.iter()
        .map(|r| {
            format!(
                "{}:{}:{}:{}",
                hex(&r.id),
                r.desc.as_ref().map(|d| hex(d)).unwrap_or("~".into()),
                hex(&r.seq),
                hex(&r.qual)
            )
        })
        .collect::<Vec<_>>()
        .join(";")
}

impl IoCase {
    pub fn req(&self) -> String {
        format!(
            "io {} {} {} {} {} {} {}",
            if self.fastq { "fastq" } else { "fasta" },
            hex(&self.eol),
            self.wrap,
            if self.fin { 1 } else { 0 },
            recs_field(&self.recs),
            self.container,
            self.suffix
        )
    }
    pub fn parse(line: &str) -> Option<IoCase> {
        let w: Vec<&str> = line.split_whitespace().collect();
        if w.len() != 8 || w[0] != "io" {
            return None;
        }
        let recs = if w[5] == "-" {
            vec![]
        } else {
            w[5].split(';')
                .filter_map(|e| {
                    let f: Vec<&str> = e.split(':').collect();
                    if f.len() != 4 {
                        return None;
                    }
                    Some(Src {
                        id: unhex(f[0]),
                        desc: if f[1] == "~" { None } else { Some(unhex(f[1])) },
                        seq: unhex(f[2]),
                        qual: unhex(f[3]),
                    })
                })
                .collect()
        };
        Some(IoCase {
            fastq: w[1] == "fastq",
            eol: unhex(w[2]),
            wrap: w[3].parse().ok()?,
            fin: w[4] == "1",
            recs,
            container: w[6].to_string(),
            suffix: w[7].to_string(),
        })
    }
    pub fn describe(&self) -> String {
        format!(
            "{} {} records eol={} wrap={} final_newline={} container={} suffix={} first=\"{}\"",
            if self.fastq { "FASTQ" } else { "FASTA" },
            self.recs.len(),
            if self.eol.len() == 2 { "CRLF" } else { "LF" },
            self.wrap,
            self.fin,
            self.container,
            self.suffix,
            self.recs.first().map(|r| show(&r.seq)).unwrap_or_default()
        )
    }
}

/// write `bytes` to `path` in the requested container
pub fn write_container(path: &str, bytes: &[u8], container: &str) {
    let mut f = std::fs::File::create(path).expect("create input file");
    if container == "plain" {
        f.write_all(bytes).unwrap();
        return;
    }
    let mut cuts: Vec<usize> = vec![];
    let mut level = Compression::default();
    if container == "gzs" {
        level = Compression::none();
    } else if let Some(list) = container.strip_prefix("gzm:") {
        cuts = list.split(',').filter_map(|x| x.parse().ok()).filter(|&x: &usize| x <= bytes.len()).collect();
        cuts.sort();
    }
    let mut start = 0;
    let mut parts: Vec<&[u8]> = Vec::new();
    for &c in &cuts {
        parts.push(&bytes[start..c]);
        start = c;
    }
    parts.push(&bytes[start..]);
    for (i, p) in parts.iter().enumerate() {
        let lv = if container.starts_with("gzm") && i % 2 == 1 { Compression::none() } else { level };
        let mut enc = GzEncoder::new(Vec::new(), lv);
        enc.write_all(p).unwrap();
        f.write_all(&enc.finish().unwrap()).unwrap();
    }
}

pub fn fmt_recs(v: &[(usize, Vec<u8>, Vec<u8>)]) -> String {
    v.iter()
        .map(|(n, id, s)| format!("{}:{}:{}", n, hex(id), hex(s)))
        .collect::<Vec<_>>()
        .join(",")
}

/// the real reader on a real file: (records, stats) or panic text
pub fn read_impl(path: &str) -> String {
    let r = catch(|| {
        let fmt = SeqFormat::get(path).expect("format");
        let reader = get_reader(path).expect("reader");
        let seqs = Sequences::new(fmt, reader).expect("sequences");
        let v: Vec<(usize, Vec<u8>, Vec<u8>)> = seqs.map(|s| (s.n, s.id.into_bytes(), s.seq)).collect();
        let reader = get_reader(path).expect("reader");
        let st = Sequences::seq_stats(fmt, reader);
        format!("{}|{}:{}", fmt_recs(&v), st.seq_count, st.total_length)
    });
    match r {
        Ok(s) => s,
        Err(m) => format!("panic:{}", m),
    }
}

fn graph(r: &mut Rng, n: usize, avoid: &[u8]) -> Vec<u8> {
    (0..n)
        .map(|_| loop {
            let b = r.range(33, 126) as u8;
            if !avoid.contains(&b) {
                return b;
            }
        })
        .collect()
}

pub fn gen_case(r: &mut Rng, tier: &str) -> IoCase {
    let fastq = r.chance(2, 5);
    let nrec = match r.below(6) {
        0 => 0,
        1 => 1,
        2 => r.range(2, 4) as usize,
        _ => r.range(1, if tier == "thorough" { 60 } else { 25 }) as usize,
    };
    let mut recs = Vec::new();
    for i in 0..nrec {
        let id = match r.below(3) {
            0 => format!("r{}", i).into_bytes(),
            _ => {
                let n = r.range(1, 12) as usize;
                graph(r, n, b"")
            }
        };
        let desc = if r.chance(1, 2) {
            let n = r.range(1, 20) as usize;
            let mut d: Vec<u8> = (0..n).map(|_| if r.chance(1, 6) { b' ' } else { r.range(33, 126) as u8 }).collect();
            if d[0] == b' ' {
                d[0] = b'x';
            }
            let l = d.len() - 1;
            if d[l] == b' ' {
                d[l] = b'y';
            }
            Some(d)
        } else {
            None
        };
        let len = if fastq {
            match r.below(5) {
                0 => 1,
                _ => gen::length(r, &[1, 60, 70], if tier == "thorough" { 3000 } else { 400 }).max(1),
            }
        } else {
            match r.below(6) {
                0 => 0,
                _ => gen::length(r, &[0, 1, 60, 70], if tier == "thorough" { 3000 } else { 400 }),
            }
        };
        let seq: Vec<u8> = match r.below(4) {
            0 => graph(r, len, if fastq { b"+@" } else { b">" }),
            _ => {
                let (_, fl) = *r.pick(gen::FLAVORS);
                let mut s = gen::clean_seq(r, len, fl);
                if r.chance(1, 3) {
                    for b in s.iter_mut() {
                        if r.chance(1, 20) {
                            *b = *r.pick(b"NnRYKM-*.");
                        }
                    }
                }
                s
            }
        };
        let qual = if fastq { graph(r, len, b"") } else { vec![] };
        recs.push(Src { id, desc, seq, qual });
    }
    let eol = if r.chance(1, 3) { b"\r\n".to_vec() } else { b"\n".to_vec() };
    let wrap = *r.pick(&[1usize, 2, 7, 60, 70, 80, 100000]);
    let fin = r.chance(2, 3);
    let container = match r.below(6) {
        0 | 1 => "plain".to_string(),
        2 => "gzc".to_string(),
        3 => "gzs".to_string(),
        _ => "gzm".to_string(), // cut points filled in by the caller once the bytes are known
    };
    let suffix = if fastq { *r.pick(&[".fq", ".fastq"]) } else { *r.pick(&[".fa", ".fasta", ".fna"]) }.to_string();
    IoCase { fastq, eol, wrap, fin, recs, container, suffix }
}

/// many short records: record counts around powers of two and far beyond (block-wise readers, look-ahead queues, 16-bit counters)
pub fn gen_many(r: &mut Rng, nrec: usize) -> IoCase {
    let fastq = r.chance(2, 5);
    let mut recs = Vec::new();
    for i in 0..nrec {
        let len = if fastq { r.range(1, 9) as usize } else { r.range(0, 9) as usize };
        let seq = gen::clean_seq(r, len, gen::FLAVORS[0].1);
        let qual = if fastq { graph(r, len, b"") } else { vec![] };
        recs.push(Src { id: format!("r{}", i).into_bytes(), desc: None, seq, qual });
    }
    let eol = if r.chance(1, 4) { b"\r\n".to_vec() } else { b"\n".to_vec() };
    let wrap = *r.pick(&[3usize, 60, 100000]);
    let container = r.pick(&["plain", "gzc", "gzm"]).to_string();
    let suffix = if fastq { ".fq" } else { ".fa" }.to_string();
    IoCase { fastq, eol, wrap, fin: r.chance(2, 3), recs, container, suffix }
}

/// files of 70-150 kB in which the record-start characters ('>' for FASTA; '@' and '+' for FASTQ) make up most of the
/// descriptions and quality strings: some of them then sit exactly at a read-buffer boundary (8 KiB, 64 KiB, ...), where a
/// scanner that keeps its line-start state per buffer goes wrong
pub fn gen_boundary(r: &mut Rng) -> IoCase {
    let fastq = r.chance(1, 2);
    let mut recs = Vec::new();
    let mut total = 0usize;
    let target = r.range(70_000, 150_000) as usize;
    let mut i = 0;
    // second flavour: ids and descriptions made mostly of multi-byte characters, so that some character straddles a
    // buffer boundary (a reader that validates or converts text per buffer mangles it)
    let utf8 = r.chance(1, 2);
    while utf8 && total < target {
        let chars = ["é", "ß", "漢", "😀", "Ω", "ñ"];
        let n = r.range(8, 60) as usize;
        let mut id: Vec<u8> = format!("r{}", i).into_bytes();
        for _ in 0..n {
            id.extend_from_slice(r.pick(&chars).as_bytes());
        }
        let desc: Option<Vec<u8>> = if r.chance(1, 2) { let mut d = Vec::new(); for _ in 0..r.range(3, 30) { d.extend_from_slice(r.pick(&chars).as_bytes()); } Some(d) } else { None };
        let len = r.range(1, 40) as usize;
        let seq = gen::clean_seq(r, len, gen::FLAVORS[0].1);
        let qual: Vec<u8> = if fastq { vec![b'I'; len] } else { vec![] };
        total += id.len() + desc.as_ref().map(|d| d.len() + 1).unwrap_or(0) + 2 * len + 6;
        recs.push(Src { id, desc, seq, qual });
        i += 1;
    }
    while total < target {
        let dl = r.range(20, 200) as usize;
        let mark = if fastq { b'@' } else { b'>' };
        let mut desc: Vec<u8> = (0..dl).map(|_| if r.chance(4, 5) { mark } else { *r.pick(b"+x |") }).collect();
        desc[0] = mark;
        desc[dl - 1] = mark;
        let len = r.range(1, 40) as usize;
        let seq = gen::clean_seq(r, len, gen::FLAVORS[0].1);
        let qual: Vec<u8> = if fastq { (0..len).map(|_| *r.pick(b"@@@+I")).collect() } else { vec![] };
        total += dl + 2 * len + 12;
        recs.push(Src { id: format!("r{}", i).into_bytes(), desc: Some(desc), seq, qual });
        i += 1;
    }
    let container = r.pick(&["plain", "plain", "gzc"]).to_string();
    // CRLF in half of them: a CR LF pair may then straddle a buffer boundary as well
    let eol = if r.chance(1, 2) { b"\r\n".to_vec() } else { b"\n".to_vec() };
    IoCase { fastq, eol, wrap: *r.pick(&[60usize, 100000]), fin: true, recs, container, suffix: if fastq { ".fq" } else { ".fa" }.to_string() }
}

fn expected(c: &IoCase) -> String {
    let v: Vec<(usize, Vec<u8>, Vec<u8>)> = c
        .recs
        .iter()
        .enumerate()
        .map(|(i, r)| (i, r.id.clone(), r.seq.clone()))
        .collect();
    let total: usize = c.recs.iter().map(|r| r.seq.len()).sum();
    format!("{}|{}:{}", fmt_recs(&v), c.recs.len(), total)
}

fn eval_case(c: &IoCase, model: &Model, work: &str, uid: &str) -> Option<Fail> {
    let bytes = serialise(c);
    let gz = c.container != "plain";
    let path = format!("{}/in_{}{}{}", work, uid, c.suffix, if gz { ".gz" } else { "" });
    // every third case: the bytes sit in a file with an unrelated name, the reader is given a symbolic link that carries the
    // suffix (the name that was passed decides format and compression)
    let store = format!("{}/store_{}.dat", work, uid);
    let ln = stale_case(&format!("ln {}", c.req())) && c.recs.len() % 3 != 0;
    let _ = std::fs::remove_file(&path);
    if ln {
        write_container(&store, &bytes, &c.container);
        let _ = std::os::unix::fs::symlink(&store, &path);
    } else {
        write_container(&path, &bytes, &c.container);
    }
    let imp = read_impl(&path);
    let _ = std::fs::remove_file(&path);
    let _ = std::fs::remove_file(&store);
    let exp = expected(c);
    let fmtname = if c.fastq { "fastq" } else { "fasta" };
    let reqs = vec![
        format!("parse {} {}", fmtname, hex(&bytes)),
        format!(
            "serialise {} {} {} {} {}",
            fmtname,
            hex(&c.eol),
            c.wrap,
            if c.fin { 1 } else { 0 },
            recs_field(&c.recs)
        ),
    ];
    let ans = model.query(&reqs);
    let pm: Vec<&str> = ans[0].split('|').collect();
    let sm: Vec<&str> = ans[1].split('|').collect();
    if sm.len() < 4 || sm[2] != "1" {
        return Some(Fail {
            class: "model",
            detail: "generated record list is not well-formed according to the spec predicate (generator defect)".into(),
            theorem: "",
            impl_out: String::new(),
            model_out: ans[1].clone(),
        });
    }
    if sm[1] != hex(&bytes) {
        return Some(Fail {
            class: "model",
            detail: "harness serialiser differs from the spec serialiser".into(),
            theorem: "",
            impl_out: hex(&bytes),
            model_out: sm[1].to_string(),
        });
    }
    if imp != exp {
        let thm = if gz && c.container.starts_with("gzm") {
            "KT.readAll_gz_members"
        } else if c.fastq {
            "KT.fastq_roundtrip"
        } else {
            "KT.fasta_roundtrip"
        };
        return Some(Fail {
            class: "spec",
            detail: format!(
                "reading the file does not return the records that were written ({}): got {} expected {}",
                c.describe(),
                trunc(&imp, 400),
                trunc(&exp, 400)
            ),
            theorem: thm,
            impl_out: imp,
            model_out: ans[0].clone(),
        });
    }
    if pm.len() < 4 || pm[0] != "ok" {
        return Some(Fail {
            class: "model",
            detail: "model parse failed".into(),
            theorem: "",
            impl_out: imp,
            model_out: ans[0].clone(),
        });
    }
    let model_out = format!("{}|{}", pm[1], pm[3]);
    if pm[2] != "done" || model_out != imp {
        return Some(Fail {
            class: "model",
            detail: "implementation and model parser disagree (implementation matches the written records)".into(),
            theorem: "",
            impl_out: imp,
            model_out,
        });
    }
    None
}

fn shrink_cands(c: &IoCase) -> Vec<IoCase> {
    let mut out = Vec::new();
    for i in 0..c.recs.len() {
        let mut d = c.clone();
        d.recs.remove(i);
        if d.container.starts_with("gzm") {
            d.container = "gzm".into();
        }
        out.push(d);
    }
    for i in 0..c.recs.len() {
        if c.recs[i].seq.len() > 1 {
            let mut d = c.clone();
            let h = d.recs[i].seq.len() / 2;
            d.recs[i].seq.truncate(h);
            d.recs[i].qual.truncate(h);
            if d.container.starts_with("gzm") {
                d.container = "gzm".into();
            }
            out.push(d);
        }
        if c.recs[i].desc.is_some() {
            let mut d = c.clone();
            d.recs[i].desc = None;
            if d.container.starts_with("gzm") {
                d.container = "gzm".into();
            }
            out.push(d);
        }
    }
    out
}

/// fill in member cut points for a "gzm" container (deterministic: between records / mid-line)
fn fix_container(c: &mut IoCase, r: &mut Rng) {
    if c.container == "gzm" {
        let n = serialise(c).len();
        let k = r.range(1, 4) as usize;
        let mut cuts: Vec<usize> = (0..k).map(|_| r.below(n as u64 + 1) as usize).collect();
        cuts.sort();
        c.container = format!("gzm:{}", cuts.iter().map(|x| x.to_string()).collect::<Vec<_>>().join(","));
    }
}

pub fn run_c06(tier: &str, seed: u64, model: &Model, corpus_lines: Vec<String>, work: &str) -> Report {
    let mut rep = Report::new("C06");
    rep.rules.push("a case = a well-formed record list (ids, optional descriptions, bases incl. empty FASTA records, FASTQ qualities) + serialisation (LF/CRLF, wrap width 1..100000, final newline or not) + container (plain, gzip one compressed member, one stored member, 2-5 members cut at arbitrary offsets, alternating compressed/stored) + suffix; the real reader (iterator and statistics pass) is compared with the written records (spec), the Lean parser (model), and the harness serialiser with the Lean serialiser; non-trivial = at least two records and at least one wrapped record".into());
    let mut rng = Rng::new(seed);
    let mut cases: Vec<IoCase> = corpus_lines.iter().filter_map(|l| IoCase::parse(l)).collect();
    let ncorpus = cases.len();
    if tier != "replay" {
        let n = if tier == "thorough" { 6000 } else { 700 };
        for _ in 0..n {
            let mut c = gen_case(&mut rng, tier);
            fix_container(&mut c, &mut rng);
            cases.push(c);
        }
        let mut counts: Vec<usize> = vec![255, 256, 257, 1023, 1024, 1025, 2049, 4097, 65_537];
        for _ in 0..(if tier == "thorough" { 12 } else { 3 }) {
            counts.push(rng.range(100, if tier == "thorough" { 40_000 } else { 9_000 }) as usize);
        }
        for n in counts {
            let mut c = gen_many(&mut rng, n);
            fix_container(&mut c, &mut rng);
            cases.push(c);
        }
        for _ in 0..(if tier == "thorough" { 40 } else { 6 }) {
            let mut c = gen_boundary(&mut rng);
            fix_container(&mut c, &mut rng);
            cases.push(c);
        }
    }
    for (i, c) in cases.iter().enumerate() {
        let section = if i < ncorpus { "corpus" } else { "files" };
        rep.evaluations += 1;
        rep.count(&format!("{}/format:{}", section, if c.fastq { "fastq" } else { "fasta" }), 1);
        rep.count(&format!("{}/container:{}", section, c.container.split(':').next().unwrap()), 1);
        rep.count(&format!("{}/eol:{}", section, if c.eol.len() == 2 { "crlf" } else { "lf" }), 1);
        rep.count(&format!("{}/records:{}", section, match c.recs.len() { 0 => "0", 1 => "1", 2..=9 => "2-9", 10..=99 => "10-99", _ => "100+" }), 1);
        let uid = format!("{}_{}", seed, i);
        progress(&c.req());
        match eval_case(c, model, work, &uid) {
            None => {
                if c.recs.len() >= 2 && c.recs.iter().any(|r| r.seq.len() > c.wrap) {
                    rep.nontrivial.insert(c.req());
                }
                if i % 200 == 0 {
                    rep.sample(format!("[{}] {}", section, c.describe()));
                }
            }
            Some(f) => {
                if rep.fail_count(section, f.class) >= 2 {
                    rep.count(&format!("{}/more-failures:{}", section, f.class), 1);
                    continue;
                }
                let from = c.recs.len();
                let ev = |x: &IoCase| {
                    let mut y = x.clone();
                    if y.container == "gzm" {
                        // re-derive cut points deterministically: after every record boundary candidate
                        let n = serialise(&y).len();
                        y.container = format!("gzm:{}", n / 2);
                    }
                    eval_case(&y, model, work, &format!("{}_s", uid))
                };
                let (sc, sf) = shrink_struct(c.clone(), f, &ev, &shrink_cands, 300);
                let mut sc = sc;
                if sc.container == "gzm" {
                    let n = serialise(&sc).len();
                    sc.container = format!("gzm:{}", n / 2);
                }
                rep.push_fail(section, sc.describe(), sc.req(), sf, from);
            }
        }
    }
    // informational stream: ill-formed text (outside the property's domain) — validates the line-grammar
    // model of rust-bio beyond well-formed files; disagreements are logged, never decide
    if tier != "replay" {
        let n = if tier == "thorough" { 4000 } else { 400 };
        let toks: Vec<&[u8]> = vec![b">", b"@", b"+", b"\n", b"\r\n", b" ", b"\t", b"ACGT", b"N", b"id", b"x y", b"", b"\n\n", b">\n", b"@\n", b"IIII", b"+\n", b"\x0b", b"A"];
        for i in 0..n {
            let fastq = rng.chance(1, 2);
            let len = rng.range(0, 14) as usize;
            let mut bytes: Vec<u8> = Vec::new();
            if rng.chance(3, 4) {
                bytes.push(if fastq { b'@' } else { b'>' });
            }
            for _ in 0..len {
                let t: &[u8] = toks[rng.below(toks.len() as u64) as usize];
                bytes.extend_from_slice(t);
            }
            let path = format!("{}/junk_{}_{}{}", work, seed, i, if fastq { ".fq" } else { ".fa" });
            std::fs::write(&path, &bytes).unwrap();
            let imp = read_impl(&path);
            let _ = std::fs::remove_file(&path);
            let ans = model.query(&[format!("parse {} {}", if fastq { "fastq" } else { "fasta" }, hex(&bytes))]);
            let pm: Vec<&str> = ans[0].split('|').collect();
            let model_out = if pm.len() >= 4 && pm[2] == "done" { format!("{}|{}", pm[1], pm[3]) } else { "panic".to_string() };
            let imp_c = if imp.starts_with("panic") { "panic".to_string() } else { imp.clone() };
            rep.evaluations += 1;
            rep.count("junk/informational", 1);
            rep.count(&format!("junk/outcome:{}", if imp_c == "panic" { "reader-error" } else { "parsed" }), 1);
            if imp_c != model_out {
                rep.info_disagreements += 1;
                if rep.info_samples.len() < 6 {
                    rep.info_samples.push(format!("[junk {}] bytes=\"{}\" impl={} model={}", if fastq { "fastq" } else { "fasta" }, show(&bytes), trunc(&imp, 200), trunc(&model_out, 200)));
                }
            }
        }
    }
    // suffix table
    let names: Vec<String> = crate::p_tables::FORMAT_NAMES.iter().map(|s| s.to_string()).collect();
    let reqs: Vec<String> = names.iter().map(|n| format!("format {}", hex(n.as_bytes()))).collect();
    let ans = model.query(&reqs);
    for (n, a) in names.iter().zip(ans.iter()) {
        rep.evaluations += 1;
        let imp = match SeqFormat::get(n) {
            None => "0",
            Some(SeqFormat::Fasta) => "1",
            Some(SeqFormat::Fastq) => "2",
        };
        let f: Vec<&str> = a.split('|').collect();
        if f.len() < 3 || f[2] != imp {
            rep.push_fail(
                "suffix",
                format!("file name {}", n),
                format!("format {}", hex(n.as_bytes())),
                Fail {
                    class: "spec",
                    detail: format!("format inferred for {} is {} but the documented suffix table gives {}", n, imp, f.get(2).unwrap_or(&"?")),
                    theorem: "KT.formatOf_eq_spec",
                    impl_out: imp.into(),
                    model_out: a.clone(),
                },
                0,
            );
        } else if f[1] != imp {
            rep.push_fail(
                "suffix",
                format!("file name {}", n),
                format!("format {}", hex(n.as_bytes())),
                Fail { class: "model", detail: "model formatOf differs".into(), theorem: "", impl_out: imp.into(), model_out: a.clone() },
                0,
            );
        }
    }
    rep
}
