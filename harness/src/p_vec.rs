//! C04, C08, C11, C12 at the level of one record (`vectorise_one` of each computer)
use crate::engine::*;
use crate::gen;
use crate::model::Model;
use crate::p_kmer::rc_seq;
use crate::util::*;
use composition::cgr::CgrComputer;
use composition::oligo::OligoComputer;
use composition::oligocgr::OligoCgrComputer;
use coverage::CovComputer;
use std::collections::HashMap;

pub fn bits(v: &[f64]) -> String {
    v.iter().map(|x| x.to_bits().to_string()).collect::<Vec<_>>().join(",")
}

pub fn parse_u64s(s: &str) -> Vec<u64> {
    if s.is_empty() {
        vec![]
    } else {
        s.split(',').map(|x| x.parse().unwrap_or(u64::MAX)).collect()
    }
}

fn to_lower(s: &[u8]) -> Vec<u8> {
    s.iter()
        .map(|&b| match b {
            b'A' | b'C' | b'G' | b'T' | b'U' => b + 32,
            x => x,
        })
        .collect()
}
fn to_upper(s: &[u8]) -> Vec<u8> {
    s.iter()
        .map(|&b| match b {
            b'a' | b'c' | b'g' | b't' | b'u' => b - 32,
            x => x,
        })
        .collect()
}
fn t_to_u(s: &[u8]) -> Vec<u8> {
    s.iter()
        .map(|&b| match b {
            b'T' => b'U',
            b't' => b'u',
            x => x,
        })
        .collect()
}

pub struct Oligos {
    pub norm: Vec<Option<OligoComputer>>,
    pub raw: Vec<Option<OligoComputer>>,
}

impl Oligos {
    pub fn new(kmax: usize) -> Self {
        let mut norm = vec![None];
        let mut raw = vec![None];
        for k in 1..=kmax {
            let a = OligoComputer::new("-".into(), "-".into(), k);
            let mut b = OligoComputer::new("-".into(), "-".into(), k);
            b.set_norm(false);
            norm.push(Some(a));
            raw.push(Some(b));
        }
        Oligos { norm, raw }
    }
    pub fn get(&self, k: usize, norm: bool) -> &OligoComputer {
        (if norm { &self.norm[k] } else { &self.raw[k] }).as_ref().unwrap()
    }
}

// ---------------------------------------------------------------- C04

fn judge_oligo(c: &Case, imp: &str, model: &str) -> Verdict {
    // model: ok|counts|total|specRow|specTotal|bits|rowtext|safe      impl: bits|inv
    let f: Vec<&str> = model.split('|').collect();
    let i: Vec<&str> = imp.split('|').collect();
    if f.len() < 8 || f[0] != "ok" {
        return Verdict::ModelDiff(format!("model answered {}", trunc(model, 200)));
    }
    if i.len() != 2 {
        return Verdict::SpecViolation(format!("implementation failed: {}", trunc(imp, 300)), "KT.oligo_counts");
    }
    let norm = c.params[1] == 1;
    let vals: Vec<f64> = parse_u64s(i[0]).into_iter().map(f64::from_bits).collect();
    let spec: Vec<u64> = parse_u64s(f[3]);
    let total: u64 = f[4].parse().unwrap_or(0);
    if vals.len() != spec.len() {
        return Verdict::SpecViolation(
            format!("row has {} values, expected one per canonical k-mer = {}", vals.len(), spec.len()),
            "KT.oligo_row_length",
        );
    }
    for (j, (&v, &cn)) in vals.iter().zip(spec.iter()).enumerate() {
        let expect = if norm { cn as f64 / (total.max(1)) as f64 } else { cn as f64 };
        let ok = if norm { (v - expect).abs() <= 5e-7 } else { v == expect };
        if !ok || v.is_nan() {
            return Verdict::SpecViolation(
                format!(
                    "column {}: value {} but the record has {} windows of that canonical k-mer out of {}",
                    j, v, cn, total
                ),
                "KT.oligo_counts",
            );
        }
    }
    if i[1] != "1" {
        return Verdict::SpecViolation(
            format!("row changes under {}", i[1]),
            "KT.oligo_invariances",
        );
    }
    if i[0] != f[5] {
        return Verdict::ModelDiff(format!("bits differ: impl={} model={}", trunc(i[0], 300), trunc(f[5], 300)));
    }
    if f[7] != "1" {
        return Verdict::ModelDiff("model reports an unchecked index out of range".into());
    }
    Verdict::Ok {
        nontrivial: total >= 2 && spec.iter().filter(|&&x| x > 0).count() >= 2,
    }
}

pub fn oligo_cases(tier: &str, rng: &mut Rng, rep: &mut Report, kmax: u64) -> Vec<Case> {
    let mut cases = Vec::new();
    let maxlen = if tier == "thorough" { 7 } else { 5 };
    for n in 0..=maxlen {
        gen::all_strings(b"ACGTN", n, &mut |s| {
            for k in 1..=3u64 {
                for norm in 0..2u64 {
                    let mut c = Case::new("oligo", &[k, norm], s, "exhaustive");
                    c.extra = "20".into();
                    cases.push(c);
                }
            }
        });
    }
    rep.exhaustive_spaces.push(format!(
        "all strings over {{A,C,G,T,N}} of length 0..={} x k in 1..=3 x raw/normalised",
        maxlen
    ));
    let n = if tier == "thorough" { 60_000 } else { 4_000 };
    for _ in 0..n {
        let k = if rng.chance(1, 40) { rng.range(6, kmax) } else { rng.range(1, kmax.min(5)) };
        let (s, tag) = gen::sequence(rng, &[k as usize - 1, k as usize, k as usize + 1, 4 * k as usize], if k > 5 { 150 } else { 600 });
        let mut c = Case::new("oligo", &[k, rng.below(2)], &s, tag);
        c.extra = "20".into();
        c.info = s.iter().any(|&b| b < 4);
        cases.push(c);
    }
    cases
}

pub fn run_c04(tier: &str, seed: u64, model: &Model, corpus: Vec<Case>) -> Report {
    let mut rep = Report::new("C04");
    rep.rules.push("per-record: OligoComputer::vectorise_one (raw f64 bits) vs model (exact float emulation) vs spec (counts of canonical windows; normalised within 5e-7), plus the three invariances (reverse complement, case, U for T) on the real code; cases: corpus, all strings over {A,C,G,T,N} up to a bound for k<=3, random structured records for k in 1..=8; non-trivial = at least two windows in two different columns".into());
    let mut rng = Rng::new(seed);
    let kmax = 8;
    let oligos = Oligos::new(kmax);
    let run = |c: &Case| -> String {
        let k = c.params[0] as usize;
        let norm = c.params[1] == 1;
        let oc = oligos.get(k, norm);
        if c.kind == "oligobig" {
            // run-length encoded record: `byte*count+byte*count…`
            let mut seq: Vec<u8> = Vec::new();
            for part in c.extra.split(' ').next().unwrap_or("").split('+') {
                let mut it = part.split('*');
                if let (Some(b), Some(n)) = (it.next(), it.next()) {
                    seq.extend(std::iter::repeat(b.parse::<u8>().unwrap_or(b'N')).take(n.parse().unwrap_or(0)));
                }
            }
            return format!("{}|1", bits(&oc.verif_vectorise_one(&seq)));
        }
        let v = oc.verif_vectorise_one(&c.seq);
        let b = bits(&v);
        let mut inv = "1".to_string();
        if bits(&oc.verif_vectorise_one(&rc_seq(&c.seq))) != b {
            inv = "reverse-complementing the record".into();
        } else if bits(&oc.verif_vectorise_one(&to_lower(&c.seq))) != b || bits(&oc.verif_vectorise_one(&to_upper(&c.seq))) != b {
            inv = "changing letter case".into();
        } else if bits(&oc.verif_vectorise_one(&t_to_u(&c.seq))) != b {
            inv = "writing U for T".into();
        }
        format!("{}|{}", b, inv)
    };
    run_section(&mut rep, model, "corpus", corpus, &run, &judge_oligo);
    if tier == "replay" {
        return rep;
    }
    let cases = oligo_cases(tier, &mut rng, &mut rep, kmax as u64);
    run_section(&mut rep, model, "oligo-one", cases, &run, &judge_oligo);
    // one record with more windows in a single column than a 24-bit significand can count (2^24 = 16777216): the row must
    // still be exact, which rules out single-precision (or otherwise lossy) accumulation
    let mut big = Vec::new();
    for (k, norm) in [(2u64, 0u64), (3, 1)] {
        let mut c = Case::new("oligobig", &[k, norm], &[], "huge-record");
        let n1 = 16_777_216 + 40 + rng.below(1000);
        c.extra = format!("{}*{}+67*{}+78*3+71*{}+84*{} 20", *rng.pick(&[65u64, 84, 97]), n1, 50 + rng.below(100), rng.below(40), 2 + rng.below(9));
        big.push(c);
        if tier != "thorough" {
            break;
        }
    }
    run_section(&mut rep, model, "huge-record", big, &run, &judge_oligo);
    rep
}

// ---------------------------------------------------------------- C08

fn parse_tbl(s: &str) -> HashMap<u64, u32> {
    let mut m = HashMap::new();
    if s != "-" {
        for e in s.split(',') {
            let mut it = e.split(':');
            if let (Some(a), Some(b)) = (it.next(), it.next()) {
                m.insert(a.parse().unwrap(), b.parse().unwrap());
            }
        }
    }
    m
}

fn judge_cov(c: &Case, imp: &str, model: &str) -> Verdict {
    // model: ok|counts|total|specRow|specTotal|bits|rowtext       impl: bits
    let f: Vec<&str> = model.split('|').collect();
    if f.len() < 7 || f[0] != "ok" {
        return Verdict::ModelDiff(format!("model answered {}", trunc(model, 200)));
    }
    if imp.starts_with("panic") {
        return Verdict::SpecViolation(format!("implementation failed: {}", trunc(imp, 300)), "KT.cov_counts");
    }
    let norm = c.params[3] == 1;
    let vals: Vec<f64> = parse_u64s(imp).into_iter().map(f64::from_bits).collect();
    let spec = parse_u64s(f[3]);
    let total: u64 = f[4].parse().unwrap_or(0);
    if vals.len() != spec.len() {
        return Verdict::SpecViolation(
            format!("row has {} entries, expected bin-count = {}", vals.len(), spec.len()),
            "KT.cov_row_length",
        );
    }
    for (j, (&v, &cn)) in vals.iter().zip(spec.iter()).enumerate() {
        let expect = if norm { cn as f64 / (total.max(1)) as f64 } else { cn as f64 };
        let ok = if norm { (v - expect).abs() <= 5e-7 } else { v == expect };
        if !ok || v.is_nan() {
            return Verdict::SpecViolation(
                format!("bin {}: value {} but {} of the record's {} windows fall in that bin", j, v, cn, total),
                "KT.cov_counts",
            );
        }
    }
    if imp != f[5] {
        return Verdict::ModelDiff(format!("bits differ: impl={} model={}", trunc(imp, 300), trunc(f[5], 300)));
    }
    Verdict::Ok {
        nontrivial: total >= 2 && spec.iter().filter(|&&x| x > 0).count() >= 2,
    }
}

pub fn cov_cases(tier: &str, rng: &mut Rng) -> Vec<Case> {
    let mut cases = Vec::new();
    let n = if tier == "thorough" { 60_000 } else { 5_000 };
    for _ in 0..n {
        let k = match rng.below(4) {
            0 => gen::kval(rng, 1, 31),
            _ => rng.range(1, 6),
        };
        let (s, tag) = gen::sequence(rng, &[k as usize, k as usize + 1, 5 * k as usize], 300);
        let bin_size = match rng.below(3) {
            0 => rng.range(1, 400),
            1 => {
                // up to 2^52: the option is a u64, sizes beyond the u32 range put every window in bin 0
                let sh = rng.range(1, 52);
                1 + rng.below(1 << sh)
            }
            _ => *rng.pick(&[1u64, 1, 2, 3, 5, 16, 100, 1 << 20, u32::MAX as u64]),
        };
        let bin_count = *rng.pick(&[1u64, 2, 3, 5, 16, 40]);
        // multiplicities for some of the record's canonical k-mers (+ some foreign keys)
        let mut tbl: Vec<(u64, u32)> = Vec::new();
        let mut seen = std::collections::HashSet::new();
        if (1..=31).contains(&k) {
            for (f, r) in kmer::kmer::KmerGenerator::new(&s, k as usize) {
                let x = f.min(r);
                if seen.insert(x) && rng.chance(3, 4) && tbl.len() < 60 {
                    let cnt = match rng.below(8) {
                        0 => 0,
                        1 => u32::MAX,
                        2 => (bin_size.saturating_mul(bin_count)).min(u32::MAX as u64) as u32,
                        3 => (bin_size.saturating_mul(bin_count).saturating_sub(1)).min(u32::MAX as u64) as u32,
                        4 => (bin_size.saturating_mul(rng.range(0, bin_count))).min(u32::MAX as u64) as u32,
                        5 => rng.below(1 << 31) as u32,
                        _ => rng.below(bin_size * (bin_count + 2) + 3).min(u32::MAX as u64) as u32,
                    };
                    tbl.push((x, cnt));
                }
            }
        }
        let tbl_s = if tbl.is_empty() {
            "-".to_string()
        } else {
            tbl.iter().map(|(a, b)| format!("{}:{}", a, b)).collect::<Vec<_>>().join(",")
        };
        let mut c = Case::new("cov", &[k, bin_size, bin_count, rng.below(2)], &s, tag);
        c.extra = format!("20 {}", tbl_s);
        c.info = s.iter().any(|&b| b < 4);
        cases.push(c);
    }
    cases
}

/// Every bin size 1..=700 (and a few large ones) with multiplicities that are exact multiples of it (and one below): the
/// boundaries of `floor(c / bin_size)`, where a reciprocal-multiply or other inexact quotient first goes wrong.
pub fn cov_boundary_cases(rng: &mut Rng) -> Vec<Case> {
    let mut cases = Vec::new();
    let sizes: Vec<u64> = (1..=700u64).chain([1000, 4097, 65_537, 1_000_003, 16_777_217, 100_000_007, (1 << 32) - 1, 1 << 32, (1 << 32) + 1, (1 << 32) + 5, (1 << 33) + 2, (1 << 40) + 3]).collect();
    for bs in sizes {
        let k = 4usize;
        let s: Vec<u8> = (0..160).map(|_| b"ACGT"[rng.below(4) as usize]).collect();
        let bin_count = 41u64;
        let mut tbl: Vec<(u64, u32)> = Vec::new();
        let mut seen = std::collections::HashSet::new();
        for (f, r) in kmer::kmer::KmerGenerator::new(&s, k) {
            let x = f.min(r);
            if seen.insert(x) {
                let m = tbl.len() as u64 / 2 + 1;
                // beyond the u32 range every multiplicity is below the bin size (bin 0): use multiples of the size's low 32
                // bits, which a narrowed divisor would spread over the bins
                let unit = if bs > u32::MAX as u64 { (bs & 0xffff_ffff).max(1) } else { bs };
                let c = (m * unit - (tbl.len() as u64 % 2)).min(u32::MAX as u64) as u32;
                tbl.push((x, c));
                if tbl.len() >= 80 {
                    break;
                }
            }
        }
        let tbl_s = tbl.iter().map(|(a, b)| format!("{}:{}", a, b)).collect::<Vec<_>>().join(",");
        let mut c = Case::new("cov", &[k as u64, bs, bin_count, rng.below(2)], &s, "bin-boundaries");
        c.extra = format!("20 {}", tbl_s);
        cases.push(c);
    }
    cases
}

pub fn impl_cov(c: &Case) -> String {
    let (k, bs, bc, norm) = (c.params[0] as usize, c.params[1] as usize, c.params[2] as usize, c.params[3] == 1);
    let tbl = parse_tbl(c.extra.split(' ').nth(1).unwrap_or("-"));
    let mut cc = CovComputer::new("-".into(), "-".into(), k, bs, bc);
    cc.set_norm(norm);
    bits(&cc.verif_vectorise_one(&c.seq, &tbl))
}

pub fn run_c08_one(tier: &str, rng: &mut Rng, model: &Model, rep: &mut Report, corpus: Vec<Case>) {
    run_section(rep, model, "corpus", corpus, &impl_cov, &judge_cov);
    if tier == "replay" {
        return;
    }
    let cases = cov_cases(tier, rng);
    run_section(rep, model, "cov-one", cases, &impl_cov, &judge_cov);
    let cases = cov_boundary_cases(rng);
    run_section(rep, model, "cov-bin-boundaries", cases, &impl_cov, &judge_cov);
    // records longer than 2^22 bases whose length leaves 1..k-1 (and k+something) bases after the last multiple of 2^22:
    // block-wise scanning of a long record must neither drop nor double the windows at block boundaries
    let mut cases = Vec::new();
    for extra in [3usize, 20, 11] {
        let k = 15u64;
        let n = (1usize << 22) + extra;
        let unit = gen::clean_seq(rng, 4099, gen::Flavor::Uniform);
        let mut s: Vec<u8> = Vec::with_capacity(n);
        while s.len() < n {
            let l = unit.len().min(n - s.len());
            s.extend_from_slice(&unit[..l]);
        }
        // the last k-mer occurs once in the table, everything else is absent (bin 0): the tail windows are visible in bin 1
        let mut tbl = Vec::new();
        if let Some((f, r)) = kmer::kmer::KmerGenerator::new(&s[n - k as usize..], k as usize).next() {
            tbl.push((f.min(r), 7u32));
        }
        let tbl_s = tbl.iter().map(|(a, b)| format!("{}:{}", a, b)).collect::<Vec<_>>().join(",");
        // raw counts in the quick tier: a handful of windows among four million moves a frequency by less than the 6-decimal
        // tolerance of the normalised comparison
        let mut c = Case::new("cov", &[k, 5, 5, if extra == 11 { 1 } else { 0 }], &s, "beyond-2^22-bases");
        c.extra = format!("20 {}", if tbl_s.is_empty() { "-".to_string() } else { tbl_s });
        cases.push(c);
        if tier != "thorough" && extra == 20 {
            break;
        }
    }
    run_section(rep, model, "cov-long-record", cases, &impl_cov, &judge_cov);
}

// ---------------------------------------------------------------- C11

fn impl_cgr(c: &Case) -> String {
    let s = c.params[0] as usize;
    let cg = CgrComputer::new("-".into(), "-".into(), s);
    match cg.verif_vectorise_one(&c.seq) {
        Ok(p) => format!(
            "ok|{}",
            p.iter()
                .map(|(x, y)| format!("{}:{}", x.to_bits(), y.to_bits()))
                .collect::<Vec<_>>()
                .join(",")
        ),
        Err(_) => "err".to_string(),
    }
}

pub fn run_c11_one(tier: &str, rng: &mut Rng, model: &Model, rep: &mut Report, corpus: Vec<Case>) {
    let judge = |c: &Case, imp: &str, mo: &str| -> Verdict {
        // model: ok|pts|specok   or  err|specerr
        let f: Vec<&str> = mo.split('|').collect();
        let has_bad = c.seq.iter().any(|b| !gen::NUC_ALL.contains(b));
        if imp.starts_with("panic") {
            return Verdict::SpecViolation(format!("implementation failed: {}", trunc(imp, 200)), "KT.cgr_reject");
        }
        if has_bad {
            if imp != "err" {
                return Verdict::SpecViolation(
                    "a record with a non-nucleotide byte was not rejected".into(),
                    "KT.cgr_reject",
                );
            }
            if f[0] != "err" {
                return Verdict::ModelDiff(format!("model accepts: {}", trunc(mo, 100)));
            }
            return Verdict::Ok { nontrivial: c.seq.len() >= 2 };
        }
        if imp == "err" {
            return Verdict::SpecViolation("a clean nucleotide record was rejected".into(), "KT.cgr_reject");
        }
        let pts = &imp[3..];
        if f[0] == "ok" && f.len() >= 3 && pts == f[1] && f[2] == "1" {
            return Verdict::Ok { nontrivial: c.seq.len() >= 3 };
        }
        // disagreement with the emulation: judge the implementation's points against the spec itself
        let req = format!("cgrjudge {} {} {}", c.params[0], hex(&c.seq), if pts.is_empty() { "-" } else { pts });
        let ans = model.query(&[req]);
        if ans[0] != "ok" {
            return Verdict::SpecViolation(
                format!("point {} is neither the exact midpoint (while representable) nor inside its sub-square: impl={}", ans[0], trunc(pts, 300)),
                "KT.cgr_midpoint",
            );
        }
        Verdict::ModelDiff(format!("impl={} model={}", trunc(pts, 300), trunc(mo, 300)))
    };
    run_section(rep, model, "corpus", corpus, &impl_cgr, &judge);
    if tier == "replay" {
        return;
    }
    let mut cases = Vec::new();
    let maxlen = if tier == "thorough" { 7 } else { 5 };
    for n in 0..=maxlen {
        gen::all_strings(b"ACGTuN", n, &mut |s| {
            for &sz in &[1u64, 2, 3] {
                cases.push(Case::new("cgr", &[sz], s, "exhaustive"));
            }
        });
    }
    rep.exhaustive_spaces
        .push(format!("all strings over {{A,C,G,T,u,N}} of length 0..={} x S in {{1,2,3}}", maxlen));
    for b in 0..=255u8 {
        cases.push(Case::new("cgr", &[2], &[b'A', b, b'c'], "byte-in-context"));
        cases.push(Case::new("cgr", &[2], &[b, b'A', b'c'], "byte-first"));
        cases.push(Case::new("cgr", &[2], &[b, b, b'G', b'T'], "byte-first-twice"));
        cases.push(Case::new("cgr", &[2], &[b'A', b'c', b], "byte-last"));
        cases.push(Case::new("cgr", &[3], &[b], "byte-alone"));
    }
    rep.exhaustive_spaces.push("all 256 byte values inside / first / repeated first / last / alone in a nucleotide context (rejection clause)".into());
    let n = if tier == "thorough" { 20_000 } else { 1_500 };
    for _ in 0..n {
        let sz = *rng.pick(&[1u64, 2, 3, 16, 1000, 1 << 20, 7, 49, (1 << 20) - 1]);
        let len = match rng.below(if tier == "thorough" { 6 } else { 20 }) {
            0 => rng.range(1000, if tier == "thorough" { 5000 } else { 1300 }) as usize,
            _ => gen::length(rng, &[1, 2, 50, 60], 300),
        };
        let (_, fl) = *rng.pick(gen::FLAVORS);
        let mut s = gen::clean_seq(rng, len, fl);
        let tag = if rng.chance(1, 4) {
            gen::add_ambiguous(rng, &mut s, 5);
            if !s.is_empty() && rng.chance(1, 2) {
                let p = rng.below(s.len() as u64) as usize;
                s[p] = gen::ambiguous_byte(rng);
            }
            "with-foreign-byte"
        } else {
            "clean"
        };
        // long A-runs drive the marker towards 0 (subnormal range after ~1074 halvings)
        if rng.chance(1, 20) {
            s = vec![*rng.pick(b"ACGT"); len];
        }
        cases.push(Case::new("cgr", &[sz], &s, tag));
    }
    // long records with low-complexity runs laid across every multiple of 1024 (block-wise or restartable evaluation must
    // carry the marker exactly: after 64+ bases pulling one coordinate to 0 the marker is far below S/2^64)
    let lens: Vec<usize> = if tier == "thorough" { vec![4096 + 300, 8192 + 200, 16_384 + 100, 65_536 + 200, 131_072 + 50] } else { vec![4096 + 300, 8192 + 200, 16_384 + 100] };
    for len in lens {
        let mut s = gen::clean_seq(rng, len, gen::Flavor::Uniform);
        let mut b = 1024usize;
        while b < len {
            let run = rng.range(70, 260) as usize;
            let before = rng.range(66, run as u64) as usize;
            let letters: &[u8] = *rng.pick(&[&b"A"[..], &b"AC"[..], &b"AT"[..], &b"a"[..], &b"G"[..], &b"CG"[..], &b"TU"[..]]);
            for i in b.saturating_sub(before)..(b + run - before).min(len) {
                s[i] = *rng.pick(letters);
            }
            b += 1024;
        }
        cases.push(Case::new("cgr", &[*rng.pick(&[1u64, 16, 1000])], &s, "runs-across-block-boundaries"));
    }
    run_section(rep, model, "cgr-one", cases, &impl_cgr, &judge);
}

/// The text of a coordinate: `format!("{}", x)` (what the CGR writers print) against the Lean model of `Display`
/// (`KT.f64Display`: shortest digits that read back as the same double, positional notation), and the text must read back as
/// the same double (`KT.display_roundtrip`).
pub fn run_display(tier: &str, rng: &mut Rng, model: &Model, rep: &mut Report, corpus_lines: &[String]) {
    if sharded() {
        return;
    }
    rep.rules.push("coordinate text: format!(\"{}\", x) of the real code vs KT.f64Display for doubles drawn as CGR coordinates (dyadic fractions of S), random bit patterns over every exponent, boundaries (powers of two and ten, subnormals, the largest finite double, integers around 2^53), and doubles parsed from short decimal strings; each text must also parse back to the same bits".into());
    let mut batches: Vec<(Vec<u64>, bool)> = corpus_lines.iter().filter(|l| l.starts_with("display ")).map(|l| (l[8..].trim().split(',').filter_map(|x| x.parse().ok()).collect(), true)).collect();
    if tier != "replay" {
        let mut vals: Vec<u64> = vec![0, 1, 2, (1u64 << 52) - 1, 1u64 << 52, (1u64 << 52) + 1, f64::MAX.to_bits(), f64::MIN_POSITIVE.to_bits(), 1.0f64.to_bits(), 0.1f64.to_bits(), 0.3f64.to_bits(), 1e23f64.to_bits(), 9007199254740992f64.to_bits(), 9007199254740993f64.to_bits(), 5e-324f64.to_bits(), 1e21f64.to_bits(), 1e-7f64.to_bits(), 123456789012345680f64.to_bits()];
        for e in -323..=308i32 {
            if let Ok(x) = format!("1e{}", e).parse::<f64>() {
                vals.push(x.to_bits());
                vals.push(x.to_bits() + 1);
                vals.push(x.to_bits() - 1);
            }
        }
        for e in 1..=2046u64 {
            vals.push(e << 52);
            vals.push((e << 52) - 1);
        }
        let n = if tier == "thorough" { 60_000 } else { 4_000 };
        for _ in 0..n {
            let b = match rng.below(5) {
                0 => {
                    // a CGR coordinate: S * m / 2^j
                    let s = *rng.pick(&[1u64, 2, 3, 16, 1000, 1 << 20, 49]) as f64;
                    let j = rng.range(1, 60) as i32;
                    let m = rng.below(1u64 << j.min(53)) as f64;
                    (s * m / 2f64.powi(j)).to_bits()
                }
                1 => (rng.below(2047) << 52) | rng.below(1 << 52),
                2 => (rng.below(2047) << 52) | (rng.below(1 << 12) << rng.below(41)),
                3 => {
                    // a short decimal
                    let digits = rng.range(1, 17) as usize;
                    let d: String = (0..digits).map(|i| if i == 0 { (b'1' + rng.below(9) as u8) as char } else { (b'0' + rng.below(10) as u8) as char }).collect();
                    let e = rng.range(0, 60) as i32 - 30;
                    format!("{}e{}", d, e).parse::<f64>().unwrap_or(1.0).to_bits()
                }
                _ => (rng.below(1u64 << 54) as f64).to_bits(),
            };
            vals.push(b);
        }
        for ch in vals.chunks(40) {
            batches.push((ch.to_vec(), false));
        }
    }
    for (bs, from_corpus) in batches {
        if bs.is_empty() {
            continue;
        }
        let section = if from_corpus { "corpus-display" } else { "display" };
        let req = format!("display {}", bs.iter().map(|b| b.to_string()).collect::<Vec<_>>().join(","));
        progress(&req);
        let ans = model.query(&[req.clone()]);
        let f: Vec<&str> = ans[0].split('|').collect();
        let texts: Vec<Vec<u8>> = if f.len() >= 3 && f[0] == "ok" { f[1].split(',').map(unhex).collect() } else { vec![] };
        let rts: Vec<&str> = if f.len() >= 3 { f[2].split(',').collect() } else { vec![] };
        for (i, &b) in bs.iter().enumerate() {
            rep.evaluations += 1;
            let x = f64::from_bits(b);
            let imp = format!("{}", x);
            let one = format!("display {}", b);
            rep.count(&format!("{}/{}", section, if x == 0.0 { "zero" } else if x < f64::MIN_POSITIVE { "subnormal" } else if x < 1.0 { "below-one" } else if x.fract() == 0.0 { "integral" } else { "mixed" }), 1);
            if imp.parse::<f64>().map(|y| y.to_bits()) != Ok(b) {
                if rep.fail_count(section, "spec") < 2 {
                    rep.push_fail(section, format!("double with bit pattern {}", b), one.clone(), Fail { class: "spec", detail: format!("the printed coordinate \"{}\" does not read back as the same double", trunc(&imp, 120)), theorem: "KT.display_roundtrip", impl_out: trunc(&imp, 400), model_out: String::new() }, 0);
                }
                continue;
            }
            let mt = texts.get(i).cloned().unwrap_or_default();
            if mt != imp.as_bytes() || rts.get(i) != Some(&"1") {
                if rep.fail_count(section, "model") < 2 {
                    rep.push_fail(section, format!("double with bit pattern {}", b), one, Fail { class: "model", detail: "format!(\"{}\", x) and KT.f64Display differ (or the model's text does not read back)".into(), theorem: "", impl_out: trunc(&imp, 400), model_out: trunc(&show(&mt), 400) }, 0);
                }
                continue;
            }
            if imp.len() >= 3 {
                rep.nontrivial.insert(format!("display {}", b));
            }
        }
    }
}

// ---------------------------------------------------------------- C12

pub fn run_c12_one(tier: &str, rng: &mut Rng, model: &Model, rep: &mut Report, corpus: Vec<Case>) {
    let kmax = 7usize;
    let oligos = Oligos::new(kmax);
    let run = |c: &Case| -> String {
        let (k, sz, norm) = (c.params[0] as usize, c.params[1] as usize, c.params[2] == 1);
        let mut oc = OligoCgrComputer::new("-".into(), "-".into(), k, sz);
        oc.set_norm(norm);
        let expanded: Vec<u8>;
        let c: &Case = if c.kind == "oligocgrbig" {
            // run-length encoded record: `byte*count+byte*count…`
            let mut seq: Vec<u8> = Vec::new();
            for part in c.extra.split(' ').next().unwrap_or("").split('+') {
                let mut it = part.split('*');
                if let (Some(b), Some(n)) = (it.next(), it.next()) {
                    seq.extend(std::iter::repeat(b.parse::<u8>().unwrap_or(b'N')).take(n.parse().unwrap_or(0)));
                }
            }
            expanded = seq;
            &Case { kind: "oligocgr", params: c.params.clone(), seq: expanded.clone(), extra: String::new(), info: false, tag: c.tag }
        } else {
            c
        };
        let row = match oc.verif_vectorise_one(&c.seq) {
            Ok(r) => r,
            Err(e) => return format!("err:{}", e),
        };
        // cross-checks on the real code: coordinates = whole-sequence CGR end point of the column
        // text; frequency = oligo vector of the same record
        let header = oc.verif_header();
        let cg = CgrComputer::new("-".into(), "-".into(), sz);
        let freqs = oligos.get(k, norm).verif_vectorise_one(&c.seq);
        let mut cross = "1".to_string();
        if header.len() != row.len() || freqs.len() != row.len() {
            cross = format!("row has {} triples for {} columns", row.len(), header.len());
        } else {
            for (j, ((p, f), h)) in row.iter().zip(header.iter()).enumerate() {
                let end = cg.verif_vectorise_one(h.as_bytes()).ok().and_then(|v| v.last().copied());
                if end.map(|e| e.0.to_bits() == p.0.to_bits() && e.1.to_bits() == p.1.to_bits()) != Some(true) {
                    cross = format!("column {} ({}): coordinates {:?} are not the CGR end point {:?}", j, h, p, end);
                    break;
                }
                if f.to_bits() != freqs[j].to_bits() {
                    cross = format!("column {} ({}): frequency {} but the oligo vector gives {}", j, h, f, freqs[j]);
                    break;
                }
            }
        }
        format!(
            "{}|{}",
            row.iter()
                .map(|((x, y), f)| format!("{}:{}:{}", x.to_bits(), y.to_bits(), f.to_bits()))
                .collect::<Vec<_>>()
                .join(","),
            cross
        )
    };
    let judge = |_c: &Case, imp: &str, mo: &str| -> Verdict {
        let f: Vec<&str> = mo.split('|').collect();
        let i: Vec<&str> = imp.split('|').collect();
        if i.len() != 2 {
            return Verdict::SpecViolation(format!("implementation failed: {}", trunc(imp, 200)), "KT.oligoCgr_row");
        }
        if i[1] != "1" {
            return Verdict::SpecViolation(i[1].to_string(), "KT.oligoCgr_row");
        }
        if f[0] != "ok" || f.len() < 2 {
            return Verdict::ModelDiff(format!("model answered {}", trunc(mo, 200)));
        }
        if i[0] != f[1] {
            return Verdict::ModelDiff(format!("impl={} model={}", trunc(i[0], 300), trunc(f[1], 300)));
        }
        Verdict::Ok {
            nontrivial: i[0].split(',').filter(|t| !t.ends_with(":0")).count() >= 2,
        }
    };
    run_section(rep, model, "corpus", corpus, &run, &judge);
    if tier == "replay" {
        return;
    }
    let mut cases = Vec::new();
    let n = if tier == "thorough" { 12_000 } else { 1_200 };
    for _ in 0..n {
        let k = if rng.chance(1, 5) { rng.range(1, kmax as u64) } else { rng.range(1, 4) };
        // sizes whose odd part is large: an end point S*(2X+1)/2^(k+1) then needs more than 24 significant bits
        let sz = *rng.pick(&[1u64, 2, 3, 9, 16, 25, 49, 1000, 1 << 20, (1 << 20) - 1, 1_000_001, 999_983, 65_795, 541_201, 3 * 65_537]);
        let (s, tag) = gen::sequence(rng, &[k as usize, 4 * k as usize], 300);
        let mut c = Case::new("oligocgr", &[k, sz, rng.below(2)], &s, tag);
        c.info = s.iter().any(|&b| b < 4);
        cases.push(c);
    }
    run_section(rep, model, "oligocgr-one", cases, &run, &judge);
    // a column count beyond 2^24 in one record: the frequency must still equal the oligo vector's value
    let mut c = Case::new("oligocgrbig", &[3, 16, rng.below(2)], &[], "huge-record");
    c.extra = format!("{}*{}+67*{}+78*2+71*{}", *rng.pick(&[65u64, 84]), 16_777_216 + 60 + rng.below(300), 20 + rng.below(30), 5 + rng.below(10));
    run_section(rep, model, "huge-record", vec![c], &run, &judge);
}
