//! C10: `seq_to_min` (s2m) and `bin_sequences` (m2s) on real files
use crate::engine::*;
use crate::gen;
use crate::model::Model;
use crate::p_file::{install_sched, write_input};
use crate::util::*;
use ktio::verif;
use std::collections::BTreeMap;

#[derive(Clone, Debug)]
pub struct MinCase {
    pub recs: Vec<Vec<u8>>,
    pub w: usize,
    pub m: usize,
    pub threads: usize,
    pub sched: String,
}

impl MinCase {
    pub fn req(&self) -> String {
        format!(
            "minfile {} {} {} {} {}",
            self.w,
            self.m,
            self.threads,
            self.sched,
            if self.recs.is_empty() { "-".to_string() } else { self.recs.iter().map(|r| hexr(r)).collect::<Vec<_>>().join(",") }
        )
    }
    pub fn parse(line: &str) -> Option<MinCase> {
        let w: Vec<&str> = line.split_whitespace().collect();
        if w.len() != 6 || w[0] != "minfile" {
            return None;
        }
        Some(MinCase {
            w: w[1].parse().ok()?,
            m: w[2].parse().ok()?,
            threads: w[3].parse().ok()?,
            sched: w[4].to_string(),
            recs: if w[5] == "-" { vec![] } else { w[5].split(',').map(unhex).collect() },
        })
    }
    pub fn describe(&self) -> String {
        format!(
            "minimisers w={} m={} threads={} schedule={} records={} [{}]",
            self.w,
            self.m,
            self.threads,
            self.sched,
            self.recs.len(),
            self.recs.iter().take(4).map(|r| show(&r[..r.len().min(30)])).collect::<Vec<_>>().join(" | ")
        )
    }
}

/// `sched` may carry `/dup<d>`: records i and i+d (and so on) share an id
pub fn dup_of(sched: &str) -> usize {
    sched.split("/dup").nth(1).and_then(|x| x.split('/').next()).and_then(|x| x.parse().ok()).unwrap_or(0)
}

pub struct MinOut {
    pub result: Result<(), String>,
    pub text: String,
    pub ctl: Option<verif::Ctl>,
}

pub fn run_min(c: &MinCase, m2s: bool, work: &str, uid: &str) -> MinOut {
    crate::p_file::ID_MOD.store(dup_of(&c.sched), std::sync::atomic::Ordering::SeqCst);
    crate::p_file::ID_WIDE.store(c.sched.contains("/wide"), std::sync::atomic::Ordering::SeqCst);
    let inp = write_input(work, uid, &c.recs, &crate::p_file::container_for(&c.req(), &c.recs));
    crate::p_file::ID_MOD.store(0, std::sync::atomic::Ordering::SeqCst);
    crate::p_file::ID_WIDE.store(false, std::sync::atomic::Ordering::SeqCst);
    let outp = format!("{}/min_{}.txt", work, uid);
    let _ = std::fs::remove_file(&outp);
    if stale_case(&c.req()) {
        plant_file(&outp, c.recs.iter().map(|r| r.len() * 4 + 40).sum());
    }
    install_sched(c.sched.split('/').next().unwrap_or("free"));
    let result = catch(std::panic::AssertUnwindSafe(|| {
        if m2s {
            misc::minimisers::bin_sequences(c.w, c.m, &inp, &outp, c.threads)
        } else {
            misc::minimisers::seq_to_min(c.w, c.m, &inp, &outp, c.threads)
        }
    }));
    let ctl = verif::uninstall();
    let text = String::from_utf8_lossy(&std::fs::read(&outp).unwrap_or_default()).to_string();
    crate::p_file::remove_input(&inp);
    let _ = std::fs::remove_file(&outp);
    MinOut { result, text, ctl }
}

fn g_events(log: &[String], act: &str) -> String {
    let mut ev: Vec<String> = Vec::new();
    for l in log {
        let w: Vec<&str> = l.split(' ').collect();
        if w[0] == "took" {
            ev.push(format!("t:{}:{}", w[1], if w[2] == "-1" { "x" } else { w[2] }));
        } else if w[0] == act {
            ev.push(format!("e:{}:{}", w[1], w[2]));
        } else if w[0] == "exit" {
            ev.push(format!("x:{}", w[1]));
        }
    }
    if ev.is_empty() { "-".into() } else { ev.join(",") }
}

/// parse an m2s line `KEY\t[("id", s, e), ("id", s, e)]`
fn parse_m2s_line(l: &str) -> Option<(String, Vec<(String, usize, usize)>)> {
    let mut it = l.splitn(2, '\t');
    let key = it.next()?.to_string();
    let rest = it.next()?.trim();
    let inner = rest.strip_prefix('[')?.strip_suffix(']')?;
    let mut v = Vec::new();
    if !inner.is_empty() {
        for t in inner.split("), (") {
            let t = t.trim_start_matches('(').trim_end_matches(')');
            // "id", s, e   — ids of the harness contain no quote or comma
            let parts: Vec<&str> = t.rsplitn(3, ", ").collect();
            if parts.len() != 3 {
                return None;
            }
            let e: usize = parts[0].parse().ok()?;
            let s: usize = parts[1].parse().ok()?;
            let id = parts[2].trim_matches('"').to_string();
            v.push((id, s, e));
        }
    }
    v.sort();
    Some((key, v))
}

pub fn eval_min(c: &MinCase, model: &Model, work: &str, uid: &str, traces: &mut u64, branching: &mut Vec<usize>) -> Option<Fail> {
    let recs_field = if c.recs.is_empty() {
        "-".to_string()
    } else {
        crate::p_file::ID_MOD.store(dup_of(&c.sched), std::sync::atomic::Ordering::SeqCst);
        crate::p_file::ID_WIDE.store(c.sched.contains("/wide"), std::sync::atomic::Ordering::SeqCst);
        let f = c.recs.iter().enumerate().map(|(i, r)| format!("{}:{}", hex(crate::p_file::rec_id(i).as_bytes()), hex(r))).collect::<Vec<_>>().join(",");
        crate::p_file::ID_MOD.store(0, std::sync::atomic::Ordering::SeqCst);
        crate::p_file::ID_WIDE.store(false, std::sync::atomic::Ordering::SeqCst);
        f
    };
    let ans = model.query(&[format!("s2m {} {} {}", c.w, c.m, recs_field)]);
    let f: Vec<&str> = ans[0].split('|').collect();
    let a = run_min(c, false, work, uid);
    branching.clear();
    if let Some(ctl) = &a.ctl {
        branching.extend(ctl.branching.iter());
    }
    let fail = |class: &'static str, thm: &'static str, detail: String, imp: String| {
        Some(Fail { class, detail, theorem: thm, impl_out: trunc(&imp, 1500), model_out: trunc(&ans[0], 1500) })
    };
    if let Err(p) = &a.result {
        return fail("spec", "KT.s2m_any_schedule", format!("seq_to_min panicked: {}", p), String::new());
    }
    if f[0] != "ok" || f.len() < 3 {
        return fail("model", "", "model refuses these parameters but the implementation ran".into(), a.text.clone());
    }
    let dec = |h: &str| -> Vec<String> {
        if h.is_empty() { vec![] } else { h.split(',').map(|x| String::from_utf8_lossy(&unhex(x)).to_string()).collect() }
    };
    let mut spec_lines = dec(f[2]);
    let mut model_lines = dec(f[1]);
    // s2m output as a set of lines (each line ends with "\t\n")
    let mut got: Vec<String> = a.text.split_inclusive('\n').map(|s| s.to_string()).collect();
    got.sort();
    spec_lines.sort();
    model_lines.sort();
    if got != spec_lines {
        return fail(
            "spec",
            "KT.s2m_any_schedule",
            format!("s2m output is not one line per record holding the record's minimiser runs: got {:?} expected {:?}", trunc(&format!("{:?}", got), 500), trunc(&format!("{:?}", spec_lines), 500)),
            a.text.clone(),
        );
    }
    if got != model_lines {
        return fail("model", "", "s2m differs from the model lines".into(), a.text.clone());
    }
    if c.sched.starts_with("serial") {
        if let Some(ctl) = &a.ctl {
            if ctl.uncontrolled {
                return fail("model", "", "scheduler lost control (uncontrolled run)".into(), String::new());
            }
            let evs = g_events(&ctl.log, "emit");
            let t = model.query(&[format!("gtrace {} {} {}", c.recs.len(), c.threads, evs)]);
            if !t[0].starts_with("ok") {
                return Some(Fail { class: "model", detail: format!("s2m event trace is not a run of the Lean transition system: {}", t[0]), theorem: "", impl_out: trunc(&evs, 1500), model_out: t[0].clone() });
            }
            *traces += 1;
        }
    }
    // m2s: exact inversion of the s2m output
    let b = run_min(c, true, work, &format!("{}b", uid));
    if let Err(p) = &b.result {
        return fail("spec", "KT.m2s_any_schedule", format!("bin_sequences panicked: {}", p), String::new());
    }
    let mut expect: BTreeMap<String, Vec<(String, usize, usize)>> = BTreeMap::new();
    for l in &got {
        let fields: Vec<&str> = l.trim_end_matches('\n').split('\t').filter(|x| !x.is_empty()).collect();
        if fields.is_empty() {
            continue;
        }
        let id = fields[0];
        for r in &fields[1..] {
            let mut kv = r.splitn(2, ':');
            let key = kv.next().unwrap_or("").to_string();
            let mut se = kv.next().unwrap_or("").splitn(2, '-');
            let s: usize = se.next().unwrap_or("0").parse().unwrap_or(0);
            let e: usize = se.next().unwrap_or("0").parse().unwrap_or(0);
            expect.entry(key).or_default().push((id.to_string(), s, e));
        }
    }
    for v in expect.values_mut() {
        v.sort();
    }
    let mut gotm: BTreeMap<String, Vec<(String, usize, usize)>> = BTreeMap::new();
    for l in b.text.lines() {
        match parse_m2s_line(l) {
            Some((k, v)) => {
                if gotm.insert(k.clone(), v).is_some() {
                    return fail("spec", "KT.m2s_any_schedule", format!("minimiser {} has more than one line in the m2s output", k), b.text.clone());
                }
            }
            None => return fail("spec", "KT.m2s_any_schedule", format!("unparsable m2s line {:?}", l), b.text.clone()),
        }
    }
    if gotm != expect {
        return fail("spec", "KT.m2s_any_schedule", format!("m2s output is not the inversion of the s2m output: got {} expected {}", trunc(&format!("{:?}", gotm), 500), trunc(&format!("{:?}", expect), 500)), b.text.clone());
    }
    if c.sched.starts_with("serial") {
        if let Some(ctl) = &b.ctl {
            let evs = g_events(&ctl.log, "push");
            let t = model.query(&[format!("gtrace {} {} {}", c.recs.len(), c.threads, evs)]);
            if !t[0].starts_with("ok") {
                return Some(Fail { class: "model", detail: format!("m2s event trace is not a run of the Lean transition system: {}", t[0]), theorem: "", impl_out: trunc(&evs, 1500), model_out: t[0].clone() });
            }
            *traces += 1;
        }
    }
    None
}

fn gen_recs(r: &mut Rng, n: usize, w: usize, m: usize, maxlen: usize) -> Vec<Vec<u8>> {
    (0..n)
        .map(|_| match r.below(10) {
            0 => vec![],
            1 => gen::clean_seq(r, m.saturating_sub(1), gen::Flavor::Uniform),
            2 => gen::clean_seq(r, m, gen::Flavor::Uniform),
            3 => vec![b'N'; r.range(1, 6) as usize],
            4 => gen::clean_seq(r, w.max(m).saturating_sub(1), gen::Flavor::Tandem),
            _ => gen::sequence(r, &[m, w, w + 1, 2 * w + m], maxlen).0.into_iter().map(|b| if b < 33 || b > 126 || b == b'>' { b'N' } else { b }).collect(),
        })
        .collect()
}

fn shrink_min(c: &MinCase) -> Vec<MinCase> {
    let mut out = Vec::new();
    for r in shrink_records(&c.recs) {
        let mut d = c.clone();
        d.recs = r;
        out.push(d);
    }
    if c.threads > 1 {
        let mut d = c.clone();
        d.threads = 1;
        out.push(d);
    }
    out
}

pub fn run_c10(tier: &str, seed: u64, model: &Model, corpus_lines: Vec<String>, work: &str) -> Report {
    let mut rep = Report::new("C10");
    rep.rules.push("a case = record list (empty records, records shorter than m, of length m, all-N, low-complexity, with ambiguous bytes) + m in 1..=28 + w (0 = whole record, or w>m) + threads 1..16 + schedule (DFS over record-level interleavings for small cases, seeded serialised, jitter, free); compared: s2m output as a set of lines vs the Lean spec lines (id, runs from specRuns) and model lines; m2s output vs the exact inversion of the s2m output (lists as multisets, one line per distinct minimiser); event traces of both loops as runs of the Lean transition system; non-trivial = at least two records with at least one run each".into());
    let mut rng = Rng::new(seed);
    let mut traces = 0u64;
    let mut branching: Vec<usize> = Vec::new();
    let mut counter = 0u64;
    let mut n_sched = 0u64;
    let mut run_one = |c: &MinCase, section: &str, rep: &mut Report, traces: &mut u64, branching: &mut Vec<usize>| {
        counter += 1;
        let uid = format!("c10_{}_{}", seed, counter);
        progress(&c.req());
        rep.evaluations += 1;
        rep.count(&format!("{}/sched:{}", section, c.sched.split(':').next().unwrap()), 1);
        rep.count(&format!("{}/threads:{}", section, c.threads), 1);
        rep.count(&format!("{}/w:{}", section, if c.w == 0 { "0" } else { "window" }), 1);
        match eval_min(c, model, work, &uid, traces, branching) {
            None => {
                if c.recs.iter().filter(|r| r.len() >= c.m.max(c.w) && r.iter().all(|b| gen::NUC_ALL.contains(b))).count() >= 2 {
                    rep.nontrivial.insert(c.req());
                }
                if counter % 53 == 1 {
                    rep.sample(format!("[{}] {}", section, c.describe()));
                }
            }
            Some(f) => {
                if rep.fail_count(section, f.class) < 2 {
                    let from = c.recs.len();
                    let k = std::cell::Cell::new(0u64);
                    let ev = |x: &MinCase| {
                        k.set(k.get() + 1);
                        let mut tr = 0;
                        let mut br = Vec::new();
                        eval_min(x, model, work, &format!("{}_s{}", uid, k.get()), &mut tr, &mut br)
                    };
                    let (sc, sf) = shrink_struct(c.clone(), f, &ev, &shrink_min, 120);
                    rep.push_fail(section, sc.describe(), sc.req(), sf, from);
                } else {
                    rep.count(&format!("{}/more-failures:{}", section, f.class), 1);
                }
            }
        }
    };
    for c in corpus_lines.iter().filter_map(|l| MinCase::parse(l)) {
        run_one(&c, "corpus", &mut rep, &mut traces, &mut branching);
    }
    if tier == "replay" {
        rep.traces_validated = traces;
        return rep;
    }
    let cfgs: Vec<(usize, usize)> = if tier == "thorough" { vec![(2, 2), (2, 3), (3, 2), (3, 3)] } else { vec![(2, 2), (2, 3)] };
    for (t, n) in cfgs {
        let (w, m) = (4, 2);
        let recs = gen_recs(&mut rng, n, w, m, 14);
        let base = MinCase { recs, w, m, threads: t, sched: "serial:".into() };
        let mut stack: Vec<Vec<usize>> = vec![vec![]];
        let mut explored = 0u64;
        let cap = if tier == "thorough" { 4000 } else { 300 };
        while let Some(prefix) = stack.pop() {
            let mut c = base.clone();
            c.sched = format!("serial:{}", prefix.iter().map(|x| x.to_string()).collect::<Vec<_>>().join("."));
            run_one(&c, "dfs", &mut rep, &mut traces, &mut branching);
            explored += 1;
            n_sched += 1;
            if explored >= cap {
                rep.notes.push(format!("DFS over schedules of {} workers x {} records stopped at the cap of {} schedules", t, n, cap));
                break;
            }
            for i in prefix.len()..branching.len() {
                for alt in 1..branching[i] {
                    let mut p = prefix.clone();
                    p.resize(i, 0);
                    p.push(alt);
                    stack.push(p);
                }
            }
        }
        if explored < cap {
            rep.exhaustive_spaces.push(format!("all {} interleavings (hook granularity) of {} workers over {} records, s2m loop (the m2s loop runs the same schedule prefix)", explored, t, n));
        }
    }
    let n = if tier == "thorough" { 2500 } else { 220 };
    for _ in 0..n {
        let m = match rng.below(4) {
            0 => rng.range(7, 28) as usize,
            _ => rng.range(1, 6) as usize,
        };
        let w = match rng.below(3) {
            0 => 0,
            _ => m + rng.range(1, 20) as usize,
        };
        let nrec = match rng.below(5) {
            0 => rng.range(0, 2) as usize,
            1 => rng.range(30, if tier == "thorough" { 400 } else { 100 }) as usize,
            _ => rng.range(2, 20) as usize,
        };
        let recs = gen_recs(&mut rng, nrec, w, m, if nrec > 30 { 60 } else { 200 });
        let threads = *rng.pick(&[1usize, 2, 3, 4, 8, 16]);
        let sched = match rng.below(4) {
            0 => "free".to_string(),
            1 => format!("jitter:{}", rng.below(1 << 30) + 1),
            _ => format!("serialrand:{}", rng.below(1 << 30) + 1),
        };
        let mut c = MinCase { recs, w, m, threads, sched };
        if c.recs.len() >= 2 && rng.chance(1, 5) {
            // several records under one id (the same read twice, mates named alike), some of them identical
            let d = (c.recs.len() / 2).max(1);
            for i in d..c.recs.len() {
                if rng.chance(1, 2) {
                    c.recs[i] = c.recs[i % d].clone();
                }
            }
            c.sched = format!("{}/dup{}", c.sched, d);
        }
        run_one(&c, "random", &mut rep, &mut traces, &mut branching);
    }
    // free-running contention: groups of identical reads, so that several workers meet the same minimiser for the
    // first time together (a lost insert between a lookup and an insert only shows up here)
    let rounds = if tier == "thorough" { 12 } else { 2 };
    for _ in 0..rounds {
        let mut recs: Vec<Vec<u8>> = Vec::new();
        for _ in 0..100 {
            let l = rng.range(120, 200) as usize;
            let one = gen::clean_seq(&mut rng, l, gen::Flavor::Uniform);
            for _ in 0..16 {
                recs.push(one.clone());
            }
        }
        let c = MinCase { recs, w: 20, m: 15, threads: 16, sched: "free".into() };
        run_one(&c, "contention", &mut rep, &mut traces, &mut branching);
    }
    // one large input (more than 1 MiB of bases, ~12000 records): batching / buffering thresholds
    {
        let n = if tier == "thorough" { 40_000 } else { 12_000 };
        let recs: Vec<Vec<u8>> = (0..n).map(|_| { let l = rng.range(60, 140) as usize; gen::clean_seq(&mut rng, l, gen::Flavor::Uniform) }).collect();
        // ids of 23 ASCII bytes followed by a two-byte character
        let c = MinCase { recs, w: 15, m: 7, threads: 4, sched: "free/wide".into() };
        run_one(&c, "large", &mut rep, &mut traces, &mut branching);
    }
    // whole-record mode (w = 0) on contig-sized records: the window holds more than 2^16 m-mers
    {
        let mut recs: Vec<Vec<u8>> = Vec::new();
        for _ in 0..1 {
            let l = rng.range(65_700, 66_500) as usize;
            recs.push(gen::clean_seq(&mut rng, l, gen::Flavor::Uniform));
            recs.push(gen::clean_seq(&mut rng, 80, gen::Flavor::Uniform));
        }
        let c = MinCase { recs, w: 0, m: 10, threads: 2, sched: "free".into() };
        run_one(&c, "contigs-whole-record", &mut rep, &mut traces, &mut branching);
    }
    // more than 2^16 records (tiny ones)
    {
        let n = rng.range(65_600, 66_500) as usize;
        let recs: Vec<Vec<u8>> = (0..n).map(|i| gen::clean_seq(&mut rng, 8 + (i % 7), gen::Flavor::Uniform)).collect();
        let c = MinCase { recs, w: 9, m: 7, threads: 4, sched: "free".into() };
        run_one(&c, "records-beyond-16-bits", &mut rep, &mut traces, &mut branching);
    }
    // whole-record mode on a record of more than 2^20 bases: a window of a million m-mers (expected line from the closed form
    // that w0_single_window proves; see the driver)
    {
        // the smallest m-mer (poly-A) is planted once, either in the last bases (it enters the window after a million m-mers)
        // or among the first (it is the first thing a window that slides too early would lose)
        let l = (1usize << 20) + rng.range(2_000, 60_000) as usize;
        let mut big = gen::clean_seq(&mut rng, l, gen::Flavor::Uniform);
        let at = if rng.chance(1, 2) { l - 400 } else { 120 };
        for b in big[at..at + 20].iter_mut() {
            *b = b'A';
        }
        let recs = vec![gen::clean_seq(&mut rng, 90, gen::Flavor::Uniform), big];
        let c = MinCase { recs, w: 0, m: 16, threads: 2, sched: "free".into() };
        run_one(&c, "megabase-whole-record", &mut rep, &mut traces, &mut branching);
    }
    rep.traces_validated = traces;
    rep.schedules_enumerated = n_sched;
    rep
}
