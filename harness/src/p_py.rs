//! C13: the Python bindings (module built from the working tree) vs the Rust core vs the Lean model
use crate::engine::*;
use crate::gen;
use crate::model::Model;
use crate::p_vec::{bits, Oligos};
use crate::util::*;
use composition::cgr::CgrComputer;
use kmer::kmer::KmerGenerator;
use kmer::minimiser::MinimiserGenerator;
use std::process::Command;

/// a Python string as UTF-8 bytes (always valid UTF-8)
fn py_string(r: &mut Rng, marks: &[usize], max: usize) -> (Vec<u8>, &'static str) {
    match r.below(6) {
        5 => {
            // nucleotide text with white space as it comes out of files: leading / trailing / embedded blanks, tabs, LF, CRLF
            // (every such character is an ambiguous byte at its own position; nothing is stripped or joined)
            let (mut s, _) = gen::sequence(r, marks, max);
            s.retain(|b| *b < 0x80);
            let ws: [&[u8]; 6] = [b" ", b"\n", b"\r\n", b"\t", b"  ", b"\n\n"];
            if r.chance(2, 3) {
                let w = *r.pick(&ws);
                s.splice(0..0, w.iter().cloned());
            }
            if r.chance(1, 2) {
                s.extend_from_slice(*r.pick(&ws));
            }
            for _ in 0..r.below(3) {
                let p = r.below(s.len() as u64 + 1) as usize;
                let w = *r.pick(&ws);
                s.splice(p..p, w.iter().cloned());
            }
            (s, "whitespace")
        }
        0 => {
            // arbitrary unicode mixed with nucleotides
            let n = gen::length(r, marks, max.min(120));
            let mut s = String::new();
            for _ in 0..n {
                match r.below(5) {
                    0 => s.push(*r.pick(&['é', 'ß', 'Ω', 'あ', '漢', '𝔸', '😀', '\u{a0}', '\u{85}', 'Ａ', 'Ｃ', 'ẗ', 'ẚ', 'ﬅ', 'ﬆ', 'ı', 'ſ', 'ŉ', 'ǰ', 'ΐ', 'ﬃ', 'İ', 'K', 'Å'])),
                    1 => {
                        // a non-ASCII scalar value whose low byte is a nucleotide letter (must still be ambiguous)
                        let hi = match r.below(3) { 0 => r.range(1, 7), 1 => r.range(8, 0xD7), _ => r.range(0x100, 0x10FF) } as u32;
                        let cp = (hi << 8) | (*r.pick(gen::NUC_ALL) as u32);
                        s.push(char::from_u32(cp).unwrap_or('é'));
                    }
                    _ => s.push(*r.pick(gen::NUC_ALL) as char),
                }
            }
            (s.into_bytes(), "unicode")
        }
        _ => {
            let (s, tag) = gen::sequence(r, marks, max);
            // ASCII only (bytes >= 0x80 would not be valid UTF-8); NUL and other controls are fine in a Python str
            (s.into_iter().map(|b| if b >= 0x80 { b'N' } else { b }).collect(), tag)
        }
    }
}

fn core_answer(line: &str, oligos: &Oligos) -> String {
    let w: Vec<&str> = line.split_whitespace().collect();
    let r = catch(std::panic::AssertUnwindSafe(|| match w[0] {
        "kmers" => {
            let k: usize = w[1].parse().unwrap();
            let s = unhex(w[2]);
            KmerGenerator::new(&s, k).map(|(f, r)| format!("{}:{}", f, r)).collect::<Vec<_>>().join(",")
        }
        "kmersdel" => {
            let k: usize = w[1].parse().unwrap();
            let s = unhex(w[2]);
            KmerGenerator::new(&s, k).map(|(f, r)| format!("{}:{}", f, r)).collect::<Vec<_>>().join(",")
        }
        "mins" | "minsdel" => {
            let (wz, m): (usize, usize) = (w[1].parse().unwrap(), w[2].parse().unwrap());
            let s = unhex(w[3]);
            MinimiserGenerator::new(&s, wz, m).map(|(a, b, c)| format!("{}:{}:{}", a, b, c)).collect::<Vec<_>>().join(",")
        }
        "toacgt" => {
            let (k, x): (usize, u64) = (w[1].parse().unwrap(), w[2].parse().unwrap());
            let t = hex(kmer::numeric_to_kmer(x, k).as_bytes());
            format!("{}|{}", t, t)
        }
        "oligo" => {
            let k: usize = w[1].parse().unwrap();
            let norm = w[2] == "1";
            format!("{}|1", bits(&oligos.get(k, norm).verif_vectorise_one(&unhex(w[3]))))
        }
        "oligobig" => {
            let k: usize = w[1].parse().unwrap();
            let norm = w[2] == "1";
            let mut seq: Vec<u8> = Vec::new();
            for part in w[3].split('+') {
                let mut it = part.split('*');
                if let (Some(b), Some(n)) = (it.next(), it.next()) {
                    seq.extend(std::iter::repeat(b.parse::<u8>().unwrap_or(b'N')).take(n.parse().unwrap_or(0)));
                }
            }
            format!("{}|1", bits(&oligos.get(k, norm).verif_vectorise_one(&seq)))
        }
        "header" => {
            let k: usize = w[1].parse().unwrap();
            oligos.get(k, true).verif_header().iter().map(|h| hex(h.as_bytes())).collect::<Vec<_>>().join(",")
        }
        "obatch" => {
            let k: usize = w[1].parse().unwrap();
            let norm = w[2] == "1";
            let ss: Vec<Vec<u8>> = if w[3] == "~" { vec![] } else { w[3].split(',').map(unhex).collect() };
            let rows: Vec<String> = ss.iter().map(|s| bits(&oligos.get(k, norm).verif_vectorise_one(s))).collect();
            format!("{}|{}", rows.join(";"), rows.len())
        }
        "cgr" => {
            let sz: usize = w[1].parse().unwrap();
            match CgrComputer::new("-".into(), "-".into(), sz).verif_vectorise_one(&unhex(w[2])) {
                Ok(p) => format!("ok|{}", p.iter().map(|(x, y)| format!("{}:{}", x.to_bits(), y.to_bits())).collect::<Vec<_>>().join(",")),
                Err(_) => "valueerror".to_string(),
            }
        }
        "cbatch" => {
            let sz: usize = w[1].parse().unwrap();
            let ss: Vec<Vec<u8>> = if w[2] == "~" { vec![] } else { w[2].split(',').map(unhex).collect() };
            let cg = CgrComputer::new("-".into(), "-".into(), sz);
            let mut rows = Vec::new();
            for s in &ss {
                match cg.verif_vectorise_one(s) {
                    Ok(p) => rows.push(p.iter().map(|(x, y)| format!("{}:{}", x.to_bits(), y.to_bits())).collect::<Vec<_>>().join(",")),
                    Err(_) => return "valueerror".to_string(),
                }
            }
            format!("ok|{}|{}", rows.join(";"), rows.len())
        }
        _ => "bad-op".to_string(),
    }));
    r.unwrap_or_else(|m| format!("panic:{}", m))
}

/// Runs the cases in one interpreter. Answers are flushed line by line, so when the interpreter dies, or stops answering
/// (no new answer for `STALL` seconds: a call that neither returns nor raises, e.g. a GIL deadlock), the first case without an
/// answer is the culprit; it is reported and the remaining cases run in a fresh interpreter (at most three restarts).
fn run_python(pymod: &str, cases: &[String], work: &str, tag: &str) -> (Vec<String>, Vec<(usize, String)>) {
    const STALL: u64 = 90;
    let script = std::env::var("VERIF_PY").unwrap_or_else(|_| "/verif/py/run_c13.py".to_string());
    let mut answers: Vec<String> = Vec::new();
    let mut crashes: Vec<(usize, String)> = Vec::new();
    while answers.len() < cases.len() && crashes.len() < 3 {
        let start = answers.len();
        let cf = format!("{}/c13_{}.cases", work, tag);
        let of = format!("{}/c13_{}.out", work, tag);
        let ef = format!("{}/c13_{}.err", work, tag);
        std::fs::write(&cf, cases[start..].join("\n") + "\n").unwrap();
        let _ = std::fs::remove_file(&of);
        let errf = std::fs::File::create(&ef).unwrap();
        let child = Command::new("python3").arg(&script).arg(pymod).arg(&cf).arg(&of).stderr(errf).stdout(std::process::Stdio::null()).spawn();
        let mut why: Option<String> = None;
        match child {
            Err(e) => why = Some(format!("cannot start python3: {}", e)),
            Ok(mut ch) => {
                let mut last_len = 0u64;
                let mut last_change = std::time::Instant::now();
                loop {
                    match ch.try_wait() {
                        Ok(Some(st)) => {
                            if !st.success() {
                                let err = std::fs::read_to_string(&ef).unwrap_or_default();
                                why = Some(format!("python exited with {:?}: {}", st.code(), trunc(&err, 400)));
                            }
                            break;
                        }
                        Ok(None) => {}
                        Err(e) => {
                            why = Some(format!("wait failed: {}", e));
                            break;
                        }
                    }
                    let len = std::fs::metadata(&of).map(|m| m.len()).unwrap_or(0);
                    if len != last_len {
                        last_len = len;
                        last_change = std::time::Instant::now();
                        crate::engine::progress(&format!("python answers so far: {} bytes", len));
                    } else if last_change.elapsed().as_secs() >= STALL {
                        let _ = ch.kill();
                        let _ = ch.wait();
                        why = Some(format!("no answer within {} s: the call neither returned nor raised (interpreter killed)", STALL));
                        break;
                    }
                    std::thread::sleep(std::time::Duration::from_millis(100));
                }
            }
        }
        let text = std::fs::read_to_string(&of).unwrap_or_default();
        let mut got: Vec<String> = text.lines().map(|l| l.to_string()).collect();
        if !text.ends_with('\n') && !got.is_empty() {
            got.pop(); // partially written answer
        }
        got.truncate(cases.len() - start);
        answers.extend(got);
        let _ = std::fs::remove_file(&cf);
        let _ = std::fs::remove_file(&of);
        let _ = std::fs::remove_file(&ef);
        match why {
            None => break,
            Some(w) => {
                if answers.len() < cases.len() {
                    crashes.push((answers.len(), w));
                    answers.push("missing".into());
                } else {
                    crashes.push((cases.len(), w));
                    break;
                }
            }
        }
    }
    while answers.len() < cases.len() {
        answers.push("missing".into());
    }
    (answers, crashes)
}

pub fn run_c13(tier: &str, seed: u64, model: &Model, corpus_lines: Vec<String>, pymod: &str, work: &str) -> Report {
    run_py("C13", None, tier, seed, model, corpus_lines, pymod, work)
}

/// `only`: restrict the generated cases to these operations (C11 runs the CGR part of the binding)
pub fn run_py(pid: &str, only: Option<&[&str]>, tier: &str, seed: u64, model: &Model, corpus_lines: Vec<String>, pymod: &str, work: &str) -> Report {
    let mut rep = Report::new(pid);
    if sharded() {
        return rep;
    }
    rep.rules.push("cases: Python strings (ASCII nucleotide text, mixed case, ambiguous bytes, control characters, arbitrary unicode incl. non-BMP, NBSP, full-width letters) for the k-mer and minimiser iterators (also after `del s; gc.collect()` and heap churn), to_acgt, OligoComputer.vectorise_one (norm, raw, default argument) / vectorise_batch (0..thousands of strings) / get_header, CgrComputer.vectorise_one / vectorise_batch (ValueError on a bad nucleotide); the module is built from the working tree; compared: Python result (floats as bit patterns) vs the Rust core called in-process (the property) and vs the separately transcribed Lean model of the binding; non-trivial = distinct case whose result is non-empty".into());
    let mut rng = Rng::new(seed);
    let oligos = Oligos::new(8);
    let mut cases: Vec<String> = corpus_lines.clone();
    let ncorpus = cases.len();
    if tier != "replay" {
        let n = if tier == "thorough" { 30_000 } else { 2_500 };
        for _ in 0..n {
            let line = match rng.below(12) {
                0 | 1 => {
                    let k = gen::kval(&mut rng, 1, 31);
                    let (s, _) = py_string(&mut rng, &[k as usize, 2 * k as usize], 300);
                    format!("{} {} {}", if rng.chance(1, 5) { "kmersdel" } else { "kmers" }, k, hex(&s))
                }
                2 | 3 => {
                    let m = rng.range(1, 31);
                    let w = m + rng.range(0, 30);
                    let (s, _) = py_string(&mut rng, &[w as usize, 2 * w as usize], 300);
                    format!("{} {} {} {}", if rng.chance(1, 5) { "minsdel" } else { "mins" }, w, m, hex(&s))
                }
                4 => {
                    let k = rng.range(1, 31);
                    let top = 1u64 << (2 * k);
                    let code = match rng.below(4) { 0 => top - 1, 1 => *rng.pick(&[0, 1, top - 2, top / 2, top / 2 - 1]), _ => rng.below(top) };
                    format!("toacgt {} {}", k, code.min(top - 1))
                }
                5 | 6 => {
                    let k = if rng.chance(1, 30) { rng.range(6, 8) } else { rng.range(1, 5) };
                    let (s, _) = py_string(&mut rng, &[k as usize, 4 * k as usize], 300);
                    format!("oligo {} {} {}", k, rng.below(2), hex(&s))
                }
                7 => format!("header {}", rng.range(1, 7)),
                8 => {
                    let k = rng.range(1, 4);
                    let n = match rng.below(4) { 0 => 0, 1 => rng.range(500, if tier == "thorough" { 4000 } else { 1200 }), _ => rng.range(1, 40) } as usize;
                    let ss: Vec<String> = (0..n).map(|_| hex(&py_string(&mut rng, &[k as usize], 30).0)).collect();
                    format!("obatch {} {} {}", k, rng.below(2), if ss.is_empty() { "~".to_string() } else { ss.join(",") })
                }
                9 | 10 => {
                    let sz = *rng.pick(&[1u64, 2, 3, 16, 1000, 1 << 20]);
                    let n = gen::length(&mut rng, &[1, 30], 400);
                    let mut s = gen::clean_seq(&mut rng, n, gen::Flavor::MixedCase);
                    if rng.chance(1, 2) && !s.is_empty() {
                        let p = rng.below(s.len() as u64) as usize;
                        // one non-ASCII character whose low byte is a nucleotide letter, or any other string
                        let u: Vec<u8> = if rng.chance(1, 2) {
                            let hi = match rng.below(3) { 0 => rng.range(1, 7), 1 => rng.range(8, 0xD7), _ => rng.range(0x100, 0x10FF) } as u32;
                            let cp = (hi << 8) | (*rng.pick(gen::NUC_ALL) as u32);
                            char::from_u32(cp).unwrap_or('é').to_string().into_bytes()
                        } else {
                            py_string(&mut rng, &[1], 2).0
                        };
                        s.splice(p..p, u);
                        if rng.chance(1, 4) { s.push(b'N'); }
                    }
                    format!("cgr {} {}", sz, hex(&s))
                }
                _ => {
                    let sz = *rng.pick(&[1u64, 16]);
                    let n = match rng.below(3) { 0 => 0, 1 => rng.range(300, 1500), _ => rng.range(1, 30) } as usize;
                    let bad = rng.chance(1, 3);
                    let badpos = rng.below(n.max(1) as u64) as usize;
                    let ss: Vec<String> = (0..n).map(|i| {
                        let l = rng.range(0, 20) as usize;
                        let mut s = gen::clean_seq(&mut rng, l, gen::Flavor::Uniform);
                        if bad && i == badpos { s.push(b'N'); }
                        hex(&s)
                    }).collect();
                    format!("cbatch {} {}", sz, if ss.is_empty() { "~".to_string() } else { ss.join(",") })
                }
            };
            if let Some(ops) = only {
                if !ops.contains(&line.split_whitespace().next().unwrap_or("")) {
                    continue;
                }
            }
            cases.push(line);
        }
    }
    if tier != "replay" && only.map(|o| o.contains(&"oligo")).unwrap_or(true) {
        // the binding has its own accumulation loop: a column count beyond 2^24 must still be exact
        let n1 = 16_777_216 + 50 + rng.below(500);
        cases.push(format!("oligobig {} {} {}*{}+67*{}+78*2+71*{}", rng.range(2, 3), rng.below(2), *rng.pick(&[65u64, 84]), n1, 30 + rng.below(50), 5 + rng.below(20)));
    }
    if cases.is_empty() {
        return rep;
    }
    // python side (one interpreter; on a crash bisect by halves to find the case)
    let (py, crashes) = run_python(pymod, &cases, work, &format!("{}", seed));
    for (idx, why) in &crashes {
        let culprit = cases.get(*idx).cloned().unwrap_or_default();
        rep.evaluations += 1;
        rep.push_fail(
            "python",
            format!("interpreter did not survive case {}: {}", idx, trunc(&culprit, 300)),
            culprit.clone(),
            Fail { class: "spec", detail: format!("the Python interpreter crashed, hung, or the module could not be used: {}", why), theorem: "KT.py_never_crashes", impl_out: why.clone(), model_out: String::new() },
            0,
        );
    }
    if crashes.iter().any(|(i, _)| *i == 0) && py.iter().all(|a| a == "missing") {
        return rep;
    }
    // model side for the duplicated loops
    let mreqs: Vec<String> = cases.iter().map(|l| {
        let w: Vec<&str> = l.split_whitespace().collect();
        match w[0] {
            "oligo" => format!("pyoligo {} {} {}", w[1], w[2], w[3]),
            "cgr" => format!("pycgr {} {}", w[1], w[2]),
            _ => "noop".to_string(),
        }
    }).collect();
    let mans = model.query(&mreqs);
    for (i, line) in cases.iter().enumerate() {
        if py[i] == "missing" {
            continue;
        }
        let section = if i < ncorpus { "corpus" } else { "python" };
        rep.evaluations += 1;
        let op = line.split_whitespace().next().unwrap_or("");
        rep.count(&format!("{}/op:{}", section, op), 1);
        let core = core_answer(line, &oligos);
        let mut fail: Option<Fail> = None;
        if py[i] != core {
            let both_err = py[i].starts_with("exception:") && core.starts_with("panic:");
            if !both_err {
                fail = Some(Fail {
                    class: "spec",
                    detail: format!("the Python binding and the Rust core disagree on `{}`", trunc(line, 200)),
                    theorem: match op { "oligo" | "obatch" | "header" | "oligobig" => "KT.pyOligo_eq_core", "cgr" | "cbatch" => "KT.pyCgr_eq_core", _ => "KT.py_iter_eq_core" },
                    impl_out: trunc(&py[i], 1200),
                    model_out: trunc(&core, 1200),
                });
            }
        } else {
            let m = &mans[i];
            let ok = match op {
                "oligo" => m.split('|').nth(1).map(|b| py[i].split('|').next() == Some(b)).unwrap_or(false),
                "cgr" => *m == py[i],
                _ => true,
            };
            if !ok {
                fail = Some(Fail { class: "model", detail: "Python result differs from the Lean transcription of the binding".into(), theorem: "", impl_out: trunc(&py[i], 1200), model_out: trunc(m, 1200) });
            }
        }
        match fail {
            None => {
                if !py[i].is_empty() && py[i] != "|0" {
                    rep.nontrivial.insert(line.clone());
                }
                if i % 300 == 0 {
                    rep.sample(format!("[{}] {} => {}", section, trunc(line, 120), trunc(&py[i], 100)));
                }
            }
            Some(f) => {
                let n = rep.failures.iter().filter(|x| x.theorem == f.theorem && x.class == f.class).count();
                if n < 2 {
                    rep.push_fail(section, trunc(line, 400), line.clone(), f, 0);
                } else {
                    rep.count(&format!("{}/more-failures", section), 1);
                }
            }
        }
    }
    rep
}
