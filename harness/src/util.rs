//! small utilities: PRNG, hex, JSON text, panic capture
use std::fmt::Write as _;

/// splitmix64 — every random choice of the harness derives from one seed
#[derive(Clone)]
pub struct Rng(pub u64);

impl Rng {
    pub fn new(seed: u64) -> Self {
        Rng(seed ^ 0x9E3779B97F4A7C15)
    }
    pub fn next(&mut self) -> u64 {
        self.0 = self.0.wrapping_add(0x9E3779B97F4A7C15);
        let mut z = self.0;
        z = (z ^ (z >> 30)).wrapping_mul(0xBF58476D1CE4E5B9);
        z = (z ^ (z >> 27)).wrapping_mul(0x94D049BB133111EB);
        z ^ (z >> 31)
    }
    pub fn below(&mut self, n: u64) -> u64 {
        if n == 0 {
            0
        } else {
            self.next() % n
        }
    }
    pub fn range(&mut self, lo: u64, hi: u64) -> u64 {
        lo + self.below(hi - lo + 1)
    }
    pub fn chance(&mut self, num: u64, den: u64) -> bool {
        self.below(den) < num
    }
    pub fn pick<'a, T>(&mut self, xs: &'a [T]) -> &'a T {
        &xs[self.below(xs.len() as u64) as usize]
    }
    /// log-uniform integer in [lo, hi]
    pub fn log_uniform(&mut self, lo: u64, hi: u64) -> u64 {
        let l = (lo.max(1) as f64).ln();
        let h = (hi.max(1) as f64).ln();
        let u = (self.next() >> 11) as f64 / (1u64 << 53) as f64;
        let v = (l + u * (h - l)).exp().round() as u64;
        v.clamp(lo, hi)
    }
    pub fn fork(&mut self) -> Rng {
        Rng::new(self.next())
    }
}

pub fn hex(bs: &[u8]) -> String {
    if bs.is_empty() {
        return "-".to_string();
    }
    let mut s = String::with_capacity(bs.len() * 2);
    for b in bs {
        write!(s, "{:02x}", b).unwrap();
    }
    s
}

/// hex of a record inside a comma-separated record list (`e` = record without bases, so that the
/// list `-` = no records stays unambiguous)
pub fn hexr(bs: &[u8]) -> String {
    if bs.is_empty() { "e".to_string() } else { hex(bs) }
}

pub fn unhex(s: &str) -> Vec<u8> {
    if s == "-" {
        return Vec::new();
    }
    (0..s.len() / 2)
        .map(|i| u8::from_str_radix(&s[2 * i..2 * i + 2], 16).unwrap_or(0))
        .collect()
}

/// printable rendering of a byte string for samples / replays
pub fn show(bs: &[u8]) -> String {
    let mut s = String::new();
    for &b in bs {
        if (0x20..0x7f).contains(&b) && b != b'\\' && b != b'"' {
            s.push(b as char);
        } else {
            write!(s, "\\x{:02x}", b).unwrap();
        }
    }
    s
}

pub fn json_str(s: &str) -> String {
    let mut o = String::with_capacity(s.len() + 2);
    o.push('"');
    for c in s.chars() {
        match c {
            '"' => o.push_str("\\\""),
            '\\' => o.push_str("\\\\"),
            '\n' => o.push_str("\\n"),
            '\r' => o.push_str("\\r"),
            '\t' => o.push_str("\\t"),
            c if (c as u32) < 0x20 => {
                write!(o, "\\u{:04x}", c as u32).unwrap();
            }
            c => o.push(c),
        }
    }
    o.push('"');
    o
}

/// A tiny JSON object builder (values are already-rendered JSON text).
#[derive(Default, Clone)]
pub struct Obj(pub Vec<(String, String)>);

impl Obj {
    pub fn new() -> Self {
        Obj(Vec::new())
    }
    pub fn s(mut self, k: &str, v: &str) -> Self {
        self.0.push((k.to_string(), json_str(v)));
        self
    }
    pub fn n(mut self, k: &str, v: u64) -> Self {
        self.0.push((k.to_string(), v.to_string()));
        self
    }
    pub fn b(mut self, k: &str, v: bool) -> Self {
        self.0.push((k.to_string(), v.to_string()));
        self
    }
    pub fn raw(mut self, k: &str, v: String) -> Self {
        self.0.push((k.to_string(), v));
        self
    }
    pub fn render(&self) -> String {
        let parts: Vec<String> = self
            .0
            .iter()
            .map(|(k, v)| format!("{}:{}", json_str(k), v))
            .collect();
        format!("{{{}}}", parts.join(","))
    }
}

pub fn json_arr(items: &[String]) -> String {
    format!("[{}]", items.join(","))
}

/// run `f`, mapping a panic to `Err(message)`; the default panic hook is silenced by `main`
pub fn catch<T>(f: impl FnOnce() -> T + std::panic::UnwindSafe) -> Result<T, String> {
    match std::panic::catch_unwind(f) {
        Ok(v) => Ok(v),
        Err(e) => {
            let msg = if let Some(s) = e.downcast_ref::<&str>() {
                s.to_string()
            } else if let Some(s) = e.downcast_ref::<String>() {
                s.clone()
            } else {
                "panic".to_string()
            };
            Err(msg)
        }
    }
}
