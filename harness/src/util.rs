//! small utilities: PRNG, hex, JSON text, panic capture
use std::fmt::Write as _;

/// splitmix64 — every random choice of the harness derives from one seed
#[derive(Clone)]
pub struct Rng(pub u64);

impl Rng {
    pub fn new(seed: u64) -> Self {
        Rng(seed ^ 0x9E3779B97F4A7C15)
    }
    pub fn next(&mut self) -> u64 {
        self.0 = self.0.wrapping_add(0x9E3779B97F4A7C15);
        let mut z = self.0;
        z = (z ^ (z >> 30)).wrapping_mul(0xBF58476D1CE4E5B9);
        z = (z ^ (z >> 27)).wrapping_mul(0x94D049BB133111EB);
        z ^ (z >> 31)
    }
    pub fn below(&mut self, n: u64) -> u64 {
        if n == 0 {
            0
        } else {
            self.next() % n
        }
    }
    pub fn range(&mut self, lo: u64, hi: u64) -> u64 {
        lo + self.below(hi - lo + 1)
    }
    pub fn chance(&mut self, num: u64, den: u64) -> bool {
        self.below(den) < num
    }
    pub fn pick<'a, T>(&mut self, xs: &'a [T]) -> &'a T {
        &xs[self.below(xs.len() as u64) as usize]
    }
    /// log-uniform integer in [lo, hi]
    pub fn log_uniform(&mut self, lo: u64, hi: u64) -> u64 {
        let l = (lo.max(1) as f64).ln();
        let h = (hi.max(1) as f64).ln();
        let u = (self.next() >> 11) as f64 / (1u64 << 53) as f64;
        let v = (l + u * (h - l)).exp().round() as u64;
        v.clamp(lo, hi)
    }
    pub fn fork(&mut self) -> Rng {
        Rng::new(self.next())
    }
}

pub fn hex(bs: &[u8]) -> String {
    if bs.is_empty() {
        return "-".to_string();
    }
    let mut s = String::with_capacity(bs.len() * 2);
    for b in bs {
        write!(s, "{:02x}", b).unwrap();
    }
    s
}

/// hex of a record inside a comma-separated record list (`e` = record without bases, so that the
/// list `-` = no records stays unambiguous)
pub fn hexr(bs: &[u8]) -> String {
    if bs.is_empty() { "e".to_string() } else { hex(bs) }
}

pub fn unhex(s: &str) -> Vec<u8> {
    if s == "-" {
        return Vec::new();
    }
    (0..s.len() / 2)
        .map(|i| u8::from_str_radix(&s[2 * i..2 * i + 2], 16).unwrap_or(0))
        .collect()
}

/// printable rendering of a byte string for samples / replays
pub fn show(bs: &[u8]) -> String {
    let mut s = String::new();
    for &b in bs {
        if (0x20..0x7f).contains(&b) && b != b'\\' && b != b'"' {
            s.push(b as char);
        } else {
            write!(s, "\\x{:02x}", b).unwrap();
        }
    }
    s
}

pub fn json_str(s: &str) -> String {
    let mut o = String::with_capacity(s.len() + 2);
    o.push('"');
    for c in s.chars() {
        match c {
            '"' => o.push_str("\\\""),
            '\\' => o.push_str("\\\\"),
            '\n' => o.push_str("\\n"),
            '\r' => o.push_str("\\r"),
            '\t' => o.push_str("\\t"),
            c if (c as u32) < 0x20 => {
                write!(o, "\\u{:04x}", c as u32).unwrap();
            }
            c => o.push(c),
        }
    }
    o.push('"');
    o
}

/// A tiny JSON object builder (values are already-rendered JSON text).
#[derive(Default, Clone)]
pub struct Obj(pub Vec<(String, String)>);

impl Obj {
    pub fn new() -> Self {
        Obj(Vec::new())
    }
    pub fn s(mut self, k: &str, v: &str) -> Self {
        self.0.push((k.to_string(), json_str(v)));
        self
    }
    pub fn n(mut self, k: &str, v: u64) -> Self {
        self.0.push((k.to_string(), v.to_string()));
        self
    }
    pub fn b(mut self, k: &str, v: bool) -> Self {
        self.0.push((k.to_string(), v.to_string()));
        self
    }
    pub fn raw(mut self, k: &str, v: String) -> Self {
        self.0.push((k.to_string(), v));
        self
    }
    pub fn render(&self) -> String {
        let parts: Vec<String> = self
            .0
            .iter()
            .map(|(k, v)| format!("{}:{}", json_str(k), v))
            .collect();
        format!("{{{}}}", parts.join(","))
    }
}

pub fn json_arr(items: &[String]) -> String {
    format!("[{}]", items.join(","))
}

/// run `f`, mapping a panic to `Err(message)`; the default panic hook is silenced by `main`
pub fn catch<T>(f: impl FnOnce() -> T + std::panic::UnwindSafe) -> Result<T, String> {
    match std::panic::catch_unwind(f) {
        Ok(v) => Ok(v),
        Err(e) => {
            let msg = if let Some(s) = e.downcast_ref::<&str>() {
                s.to_string()
            } else if let Some(s) = e.downcast_ref::<String>() {
                s.clone()
            } else {
                "panic".to_string()
            };
            Err(msg)
        }
    }
}

/// Half of the file-level cases (chosen by a hash of the request line, so a replay repeats the choice) run against an
/// output location that already holds the result of an earlier, larger run: the property fixes the file's content whatever was
/// there before, and "open without truncate", "skip the write when there is nothing to write" or "tolerate a missing temp
/// file" only show on a used location.
pub fn stale_case(req: &str) -> bool {
    let mut h: u64 = 0xcbf29ce484222325;
    for b in req.bytes() {
        h ^= b as u64;
        h = h.wrapping_mul(0x100000001b3);
    }
    (h >> 7) & 1 == 1
}

/// an old, longer result file (well-formed-looking text)
pub fn plant_file(path: &str, at_least: usize) {
    let line = b"stale_record 0.125000 0.250000 0.125000 0.500000 (0.5,0.5) AAAAAAA:0-7 12\n";
    let n = (at_least + 70_000) / line.len() + 1;
    let mut v = Vec::with_capacity(n * line.len());
    for _ in 0..n {
        v.extend_from_slice(line);
    }
    let _ = std::fs::write(path, v);
}

/// left-overs of an earlier counting run in an output directory: an old table, an old vectors file, and chunk files of a run
/// with `parts` partitions and three chunks (valid lines: k-mer code TAB count). Returns (name, content) of what was planted.
pub fn plant_counter_dir(dir: &str, parts: usize) -> Vec<(String, Vec<u8>)> {
    let mut planted = Vec::new();
    let mut table = Vec::new();
    for i in 0..6000u64 {
        table.extend_from_slice(format!("{}\t{}\n", i * 3 + 1, 40 + i % 7).as_bytes());
    }
    planted.push(("kmers.counts".to_string(), table));
    let mut vecs = Vec::new();
    for _ in 0..3000 {
        vecs.extend_from_slice(b"7 7 7 7 7 7 7 7 7 7 7 7 7 7 7 7\n");
    }
    planted.push(("kmers.vectors".to_string(), vecs));
    for p in 0..parts {
        for ch in 0..3 {
            let mut t = Vec::new();
            for i in 0..40u64 {
                t.extend_from_slice(format!("{}\t{}\n", (i * parts as u64 + p as u64) * 5 + ch, 9).as_bytes());
            }
            planted.push((format!("temp_kmers.part_{}_chunk_{}", p, ch), t));
        }
    }
    // what a run that died half-way may leave: staging copies of the result files, longer than any new result
    for n in ["kmers.counts.tmp", "kmers.vectors.tmp", "kmers.counts.part", ".kmers.counts.swp"] {
        let mut t = Vec::new();
        for i in 0..9000u64 {
            t.extend_from_slice(format!("{}\t{}\n", i * 7 + 3, 11).as_bytes());
        }
        planted.push((n.to_string(), t));
    }
    for (n, c) in &planted {
        let _ = std::fs::write(format!("{}/{}", dir, n), c);
    }
    planted
}
