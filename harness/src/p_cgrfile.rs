//! C11 / C12 at file level: `CgrComputer::vectorise` and `OligoCgrComputer::vectorise`
//! (batched writers: rows in input order for every thread count and batch limit)
use crate::engine::*;
use crate::gen;
use crate::model::Model;
use crate::p_file::write_input;
use crate::util::*;
use composition::cgr::CgrComputer;
use composition::oligocgr::OligoCgrComputer;

#[derive(Clone, Debug)]
pub struct CgrFileCase {
    pub recs: Vec<Vec<u8>>,
    pub k: Option<usize>,
    pub size: usize,
    pub norm: bool,
    pub threads: usize,
    pub mem: usize,
    pub container: String,
}

fn recs_field(r: &[Vec<u8>]) -> String {
    if r.is_empty() { "-".into() } else { r.iter().map(|x| hexr(x)).collect::<Vec<_>>().join(",") }
}

impl CgrFileCase {
    pub fn req(&self) -> String {
        format!("cgrfile {} {} {} {} {} {} {}", self.k.map(|k| k.to_string()).unwrap_or("~".into()), self.size, if self.norm { 1 } else { 0 }, self.threads, self.mem, self.container, recs_field(&self.recs))
    }
    pub fn parse(line: &str) -> Option<CgrFileCase> {
        let w: Vec<&str> = line.split_whitespace().collect();
        if w.len() != 8 || w[0] != "cgrfile" {
            return None;
        }
        Some(CgrFileCase {
            k: if w[1] == "~" { None } else { w[1].parse().ok() },
            size: w[2].parse().ok()?,
            norm: w[3] == "1",
            threads: w[4].parse().ok()?,
            mem: w[5].parse().ok()?,
            container: w[6].to_string(),
            recs: if w[7] == "-" { vec![] } else { w[7].split(',').map(unhex).collect() },
        })
    }
    pub fn describe(&self) -> String {
        format!("{} file S={} norm={} threads={} batch-limit={} container={} records={} [{}]",
            match self.k { None => "whole-sequence CGR".to_string(), Some(k) => format!("k-mer CGR k={}", k) },
            self.size, self.norm, self.threads, self.mem, self.container, self.recs.len(),
            self.recs.iter().take(4).map(|r| show(&r[..r.len().min(20)])).collect::<Vec<_>>().join(" | "))
    }
}

fn fmt_f64(bits: u64) -> String {
    format!("{}", f64::from_bits(bits))
}

/// expected file text from the Lean model (coordinates printed by the Lean model of `Display`);
/// second component: some record has a non-nucleotide byte (whole-sequence CGR refuses)
pub fn expected_text(c: &CgrFileCase, model: &Model) -> Result<(Vec<u8>, bool), String> {
    let reqs: Vec<String> = c.recs.iter().map(|r| match c.k {
        None => format!("cgr {} {}", c.size, hex(r)),
        Some(k) => format!("oligocgr {} {} {} {}", k, c.size, if c.norm { 1 } else { 0 }, hex(r)),
    }).collect();
    let ans = model.query(&reqs);
    let mut out = Vec::new();
    let mut bad = false;
    for a in ans {
        let g: Vec<&str> = a.split('|').collect();
        if g[0] == "err" {
            bad = true;
            continue;
        }
        if g[0] != "ok" || g.len() < 2 {
            return Err(format!("model failed: {}", a));
        }
        // the row text comes from the Lean model of `Display` (KT.cgrRowText / KT.oligoCgrRowText); it is cross-checked against
        // the same bit patterns printed by Rust's own formatter, so a disagreement of the Display model is told apart
        let pts: Vec<String> = if g[1].is_empty() { vec![] } else {
            g[1].split(',').map(|p| {
                let v: Vec<String> = p.split(':').map(|x| fmt_f64(x.parse().unwrap())).collect();
                format!("({})", v.join(","))
            }).collect()
        };
        let rust_row = format!("{}\n", pts.join(" ")).into_bytes();
        let model_row = unhex(g[if c.k.is_none() { 3 } else { 2 }.min(g.len() - 1)]);
        if model_row != rust_row {
            return Err(format!("Lean Display model and Rust formatter disagree on a row: model \"{}\" vs \"{}\"", trunc(&show(&model_row), 200), trunc(&show(&rust_row), 200)));
        }
        out.extend(model_row);
    }
    Ok((out, bad))
}

pub fn eval_cgrfile(c: &CgrFileCase, model: &Model, work: &str, uid: &str) -> Option<Fail> {
    let (exp, bad) = match expected_text(c, model) {
        Ok(e) => e,
        Err(e) => return Some(Fail { class: "model", detail: e, theorem: "", impl_out: String::new(), model_out: String::new() }),
    };
    let inp = write_input(work, uid, &c.recs, &c.container);
    let outp = format!("{}/cgrout_{}.txt", work, uid);
    let _ = std::fs::remove_file(&outp);
    if stale_case(&c.req()) {
        plant_file(&outp, exp.len());
    }
    let res = catch(std::panic::AssertUnwindSafe(|| match c.k {
        None => {
            let mut cg = CgrComputer::new(inp.clone(), outp.clone(), c.size);
            cg.set_threads(c.threads);
            cg.verif_set_max_memory(c.mem);
            cg.vectorise()
        }
        Some(k) => {
            let mut cg = OligoCgrComputer::new(inp.clone(), outp.clone(), k, c.size);
            cg.set_threads(c.threads);
            cg.set_norm(c.norm);
            cg.verif_set_max_memory(c.mem);
            cg.vectorise()
        }
    }));
    let out = std::fs::read(&outp).unwrap_or_default();
    crate::p_file::remove_input(&inp);
    let _ = std::fs::remove_file(&outp);
    let thm = if c.k.is_none() { "KT.batchOutput_eq" } else { "KT.oligoCgr_rows_in_order" };
    if bad {
        return match res {
            Err(p) if p.contains("Bad nucleotide") => None,
            Ok(Err(e)) if e.contains("Bad nucleotide") => None,
            other => Some(Fail { class: "spec", detail: format!("a record with a non-nucleotide byte was not rejected ({:?})", other.map(|r| r.is_ok())), theorem: "KT.cgr_reject", impl_out: trunc(&show(&out), 600), model_out: String::new() }),
        };
    }
    if let Err(p) = &res {
        return Some(Fail { class: "spec", detail: format!("writer panicked: {}", p), theorem: thm, impl_out: String::new(), model_out: trunc(&show(&exp), 600) });
    }
    if out != exp {
        let nl = out.iter().filter(|&&x| x == b'\n').count();
        return Some(Fail {
            class: "spec",
            detail: format!("output is not one row per record in input order ({} rows for {} records)", nl, c.recs.len()),
            theorem: thm,
            impl_out: trunc(&show(&out), 700),
            model_out: trunc(&show(&exp), 700),
        });
    }
    None
}

fn shrink_c(c: &CgrFileCase) -> Vec<CgrFileCase> {
    let mut out = Vec::new();
    for r in shrink_records(&c.recs) {
        let mut d = c.clone();
        d.recs = r;
        out.push(d);
    }
    if c.threads > 1 {
        let mut d = c.clone();
        d.threads -= 1;
        out.push(d);
    }
    out
}

/// `kmer` = false: C11 (whole sequence), true: C12 (k-mer CGR)
pub fn run_cgr_files(kmer: bool, tier: &str, rng: &mut Rng, model: &Model, rep: &mut Report, corpus_lines: &[String], work: &str) {
    if sharded() {
        return;
    }
    rep.rules.push("file level: record lists (empty records, trailing empty records, 0..60 records) through the batched writer with thread counts 1..16 and batch limits from 1 byte to 4 GiB, FASTA/FASTQ; the output text is compared with the rows of the Lean model (bit patterns printed with Rust's own float formatting); non-trivial = more records than threads".into());
    let mut counter = 0u64;
    let mut run_one = |c: &CgrFileCase, section: &str, rep: &mut Report| {
        counter += 1;
        let uid = format!("cg{}_{}", if kmer { 12 } else { 11 }, counter);
        progress(&c.req());
        rep.evaluations += 1;
        rep.count(&format!("{}/threads:{}", section, c.threads), 1);
        rep.count(&format!("{}/limit:{}", section, if c.mem < 100 { "tiny" } else if c.mem < 100000 { "small" } else { "large" }), 1);
        match eval_cgrfile(c, model, work, &uid) {
            None => {
                if c.recs.len() > c.threads {
                    rep.nontrivial.insert(c.req());
                }
                if counter % 29 == 1 {
                    rep.sample(format!("[{}] {}", section, c.describe()));
                }
            }
            Some(f) => {
                if rep.fail_count(section, f.class) < 2 {
                    let from = c.recs.len();
                    let k = std::cell::Cell::new(0u64);
                    let ev = |x: &CgrFileCase| {
                        k.set(k.get() + 1);
                        eval_cgrfile(x, model, work, &format!("{}_s{}", uid, k.get()))
                    };
                    let (sc, sf) = shrink_struct(c.clone(), f, &ev, &shrink_c, 120);
                    rep.push_fail(section, sc.describe(), sc.req(), sf, from);
                } else {
                    rep.count(&format!("{}/more-failures:{}", section, f.class), 1);
                }
            }
        }
    };
    for c in corpus_lines.iter().filter_map(|l| CgrFileCase::parse(l)) {
        run_one(&c, "corpus-files", rep);
    }
    if tier == "replay" {
        return;
    }
    let n = if tier == "thorough" { 1500 } else { 110 };
    for _ in 0..n {
        let k = if kmer { Some(rng.range(1, 4) as usize) } else { None };
        let nrec = match rng.below(6) { 0 => rng.range(0, 2) as usize, 1 => rng.range(20, 60) as usize, _ => rng.range(2, 19) as usize };
        let mut recs: Vec<Vec<u8>> = (0..nrec).map(|_| {
            let l = match rng.below(5) { 0 => 0, _ => rng.range(1, 40) as usize };
            let (_, fl) = *rng.pick(gen::FLAVORS);
            let mut s = gen::clean_seq(rng, l, fl);
            if kmer && rng.chance(1, 4) && !s.is_empty() {
                let p = rng.below(s.len() as u64) as usize;
                s[p] = b'N';
            }
            s
        }).collect();
        // trailing / all empty records
        if rng.chance(1, 5) {
            let extra = rng.range(1, 3) as usize;
            for _ in 0..extra { recs.push(vec![]); }
        }
        if !kmer && rng.chance(1, 12) && !recs.is_empty() {
            let p = rng.below(recs.len() as u64) as usize;
            recs[p].push(b'N');
        }
        let container = match rng.below(10) { 0 | 1 => "fq", 2 => "fagzm", 3 => "fagz", 4 => "fawrap:7", 5 => "fqwrap:5", _ => "fa" }.to_string();
        let recs = if container.starts_with("fq") { recs.into_iter().map(|r| if r.is_empty() { b"A".to_vec() } else { r }).collect() } else { recs };
        let c = CgrFileCase {
            recs,
            k,
            size: *rng.pick(&[1usize, 2, 9, 16, 1000]),
            norm: rng.chance(1, 2),
            threads: *rng.pick(&[1usize, 2, 3, 4, 5, 8, 16]),
            mem: *rng.pick(&[1usize, 2, 7, 50, 100, 5000, 4 << 30]),
            container,
        };
        run_one(&c, "files", rep);
    }
    // a single long record (fewer records than threads) whose length is an exact multiple of 2^16, and one off by one: block-wise
    // formatting of one record's points must not lose the last block
    if !kmer {
        for len in (if tier == "thorough" { vec![131_072usize, 196_608, 131_073] } else { vec![131_072usize] }) {
            let s = gen::clean_seq(rng, len, gen::Flavor::Uniform);
            let c = CgrFileCase { recs: vec![s], k: None, size: *rng.pick(&[16usize, 512]), norm: true, threads: *rng.pick(&[2usize, 4]), mem: 4 << 30, container: "fa".into() };
            run_one(&c, "single-long-record", rep);
        }
    }
    // many records in one batch with several threads
    {
        let n = rng.range(2200, 3000) as usize;
        let recs: Vec<Vec<u8>> = (0..n).map(|i| gen::clean_seq(rng, 1 + (i % 9), gen::Flavor::Uniform)).collect();
        let c = CgrFileCase { recs, k: if kmer { Some(2) } else { None }, size: 16, norm: true, threads: 8, mem: 4 << 30, container: "fa".into() };
        run_one(&c, "many-records", rep);
    }
}
