//! C09, C18: minimiser iterators
use crate::engine::*;
use crate::gen;
use crate::model::Model;
use crate::util::*;
use kmer::kmer_minimisers::KmerMinimiserGenerator;
use kmer::minimiser::MinimiserGenerator;

pub fn fmt_runs(v: &[(u64, usize, usize)]) -> String {
    v.iter()
        .map(|(m, s, e)| format!("{}:{}:{}", m, s, e))
        .collect::<Vec<_>>()
        .join(",")
}

pub fn impl_mins(c: &Case) -> String {
    let (w, m) = (c.params[0] as usize, c.params[1] as usize);
    let v: Vec<(u64, usize, usize)> = MinimiserGenerator::new(&c.seq, w, m).collect();
    fmt_runs(&v)
}

fn judge_mins(c: &Case, imp: &str, model: &str) -> Verdict {
    let f: Vec<&str> = model.split('|').collect();
    if f.len() < 3 || f[0] != "ok" {
        return Verdict::ModelDiff(format!("model answered {}", model));
    }
    if imp != f[2] {
        let thm = if imp.contains("18446744073709551615") {
            "KT.minimisers_no_placeholder"
        } else {
            "KT.minimisers_eq_specRuns"
        };
        return Verdict::SpecViolation(
            format!("iterator output is not the list of maximal same-minimiser runs: impl=[{}] spec=[{}]", imp, f[2]),
            thm,
        );
    }
    if imp != f[1] {
        return Verdict::ModelDiff(format!("impl=[{}] model=[{}]", imp, f[1]));
    }
    let amb = c.seq.iter().any(|&b| !gen::NUC_ALL.contains(&b));
    let nruns = if imp.is_empty() { 0 } else { imp.split(',').count() };
    Verdict::Ok {
        nontrivial: nruns >= 2 || (nruns >= 1 && amb),
    }
}

pub const SMALL_WM: &[(u64, u64)] = &[(1, 1), (2, 1), (2, 2), (3, 2), (3, 3), (4, 1), (4, 2), (5, 3)];

fn wm_random(r: &mut Rng) -> (u64, u64) {
    let m = match r.below(4) {
        0 => gen::kval(r, 1, 31),
        1 => r.range(1, 4),
        _ => r.range(1, 31),
    };
    let w = match r.below(5) {
        0 => m,
        1 => m + 1,
        2 => m + r.range(0, 60),
        _ => m + r.range(0, 12),
    };
    (w, m)
}

pub fn min_cases(kind: &'static str, tier: &str, rng: &mut Rng, rep: &mut Report, wmax: u64) -> Vec<Case> {
    let mut cases = Vec::new();
    let maxlen = if tier == "thorough" { 9 } else { 7 };
    for &(w, m) in SMALL_WM {
        for n in 0..=maxlen {
            gen::all_strings(b"ACGTN", n, &mut |s| {
                cases.push(Case::new(kind, &[w, m], s, "exhaustive"));
            });
        }
    }
    rep.exhaustive_spaces.push(format!(
        "all strings over {{A,C,G,T,N}} of length 0..={} for (w,m) in {:?}",
        maxlen, SMALL_WM
    ));
    // a very long run of ambiguous bytes between two clean stretches
    {
        let mut s = gen::clean_seq(rng, 40, gen::Flavor::Uniform);
        s.extend(std::iter::repeat(b'N').take(1_200_000));
        s.extend(gen::clean_seq(rng, 40, gen::Flavor::Uniform));
        cases.push(Case::new(kind, &[12.min(wmax), 5], &s, "long-gap"));
    }
    // one minimiser run covering more than 2^20 windows (a homopolymer between random flanks): per-run buffers and counters
    {
        let mut s = gen::clean_seq(rng, 60, gen::Flavor::Uniform);
        s.extend(std::iter::repeat(*rng.pick(b"ACGT")).take((1 << 20) + rng.range(100, 5000) as usize));
        s.extend(gen::clean_seq(rng, 60, gen::Flavor::Uniform));
        cases.push(Case::new(kind, &[*rng.pick(&[8u64, 21, 31]).min(&wmax), 5], &s, "run-of-a-million-windows"));
    }
    // one very long clean sequence
    {
        let s = gen::clean_seq(rng, 66_000, gen::Flavor::Uniform);
        cases.push(Case::new(kind, &[25.min(wmax), 11], &s, "long-clean"));
    }
    // windows holding more than 2^16 m-mers (the CLI's whole-record mode reaches this on any contig): buffer capacities,
    // 16-bit positions; once with the window as long as the record, once shorter so that it slides, once with an N inside
    if wmax >= 200 {
        let m = 10u64;
        let len = rng.range(69_000, 71_000) as usize;
        let s = gen::clean_seq(rng, len, gen::Flavor::Uniform);
        cases.push(Case::new(kind, &[len as u64, m], &s, "huge-window"));
        cases.push(Case::new(kind, &[65_536 + m + rng.range(0, 40), m], &s, "huge-window"));
        let mut t = s.clone();
        t[len - 1500] = b'N';
        cases.push(Case::new(kind, &[65_536 + m - 1, m], &t, "huge-window"));
    }
    let n = if tier == "thorough" { 120_000 } else { 6_000 };
    for _ in 0..n {
        let (mut w, m) = wm_random(rng);
        if w > wmax {
            w = wmax.max(m);
        }
        if m > w {
            continue;
        }
        let (mut s, tag) = gen::sequence(rng, &[w as usize - 1, w as usize, w as usize + 1, 2 * w as usize], 500);
        // low-complexity content makes ties; thin out ambiguity for long windows
        if w > 20 && rng.chance(1, 2) {
            for b in s.iter_mut() {
                if !gen::NUC_ALL.contains(b) && rng.chance(9, 10) {
                    *b = *rng.pick(gen::ACGT);
                }
            }
        }
        let mut c = Case::new(kind, &[w, m], &s, tag);
        c.info = s.iter().any(|&b| b < 4);
        cases.push(c);
    }
    cases
}

pub fn run_c09(tier: &str, seed: u64, model: &Model, corpus: Vec<Case>) -> Report {
    let mut rep = Report::new("C09");
    rep.rules.push("cases: corpus (past failures first), every string over {A,C,G,T,N} up to a length bound for eight small (w,m), then random structured sequences (low-complexity content creates ties) with m in 1..=31 and w in m..=m+60; non-trivial = distinct request whose output has at least two runs, or one run and an ambiguous byte".into());
    let mut rng = Rng::new(seed);
    run_section(&mut rep, model, "corpus", corpus, &impl_mins, &judge_mins);
    if tier == "replay" {
        return rep;
    }
    let cases = min_cases("mins", tier, &mut rng, &mut rep, 200);
    run_section(&mut rep, model, "mins", cases, &impl_mins, &judge_mins);
    rep
}

// ---------------------------------------------------------------- C18

fn impl_kmins(c: &Case) -> String {
    let (w, m) = (c.params[0] as usize, c.params[1] as usize);
    let v: Vec<(u64, usize, usize, Vec<u64>)> = KmerMinimiserGenerator::new(&c.seq, w, m).collect();
    let plain: Vec<(u64, usize, usize)> = MinimiserGenerator::new(&c.seq, w, m).collect();
    let canon: Vec<u64> = kmer::kmer::KmerGenerator::new(&c.seq, w)
        .map(|(f, r)| f.min(r))
        .collect();
    let a = v
        .iter()
        .map(|(mm, s, e, ks)| {
            format!(
                "{}:{}:{}:{}",
                mm,
                s,
                e,
                ks.iter().map(|x| x.to_string()).collect::<Vec<_>>().join("/")
            )
        })
        .collect::<Vec<_>>()
        .join(",");
    format!(
        "{}|{}|{}",
        a,
        fmt_runs(&plain),
        canon.iter().map(|x| x.to_string()).collect::<Vec<_>>().join(",")
    )
}

fn judge_kmins(_c: &Case, imp: &str, model: &str) -> Verdict {
    // model: ok|kruns|specRuns|canons
    let f: Vec<&str> = model.split('|').collect();
    let i: Vec<&str> = imp.split('|').collect();
    if f.len() < 4 || f[0] != "ok" {
        return Verdict::ModelDiff(format!("model answered {}", model));
    }
    if i.len() != 3 {
        return Verdict::SpecViolation(format!("implementation failed: {}", imp), "KT.kmg_runs_eq_minGen");
    }
    // projection of the k-mer-reporting iterator
    let proj: Vec<String> = if i[0].is_empty() {
        vec![]
    } else {
        i[0].split(',')
            .map(|r| r.split(':').take(3).collect::<Vec<_>>().join(":"))
            .collect()
    };
    let projs = proj.join(",");
    if projs != i[1] {
        return Verdict::SpecViolation(
            format!("runs differ from the plain minimiser iterator: with-kmers=[{}] plain=[{}]", projs, i[1]),
            "KT.kmg_runs_eq_minGen",
        );
    }
    let conc: Vec<&str> = if i[0].is_empty() {
        vec![]
    } else {
        i[0].split(',')
            .flat_map(|r| {
                let ks = r.split(':').nth(3).unwrap_or("");
                ks.split('/').filter(|x| !x.is_empty()).collect::<Vec<_>>()
            })
            .collect()
    };
    let concs = conc.join(",");
    if concs != f[3] {
        return Verdict::SpecViolation(
            format!("attached w-mers [{}] are not the canonical w-mers of the input in order [{}]", concs, f[3]),
            "KT.kmg_conserves",
        );
    }
    if i[2] != f[3] {
        return Verdict::SpecViolation("k-mer iterator at k=w disagrees with the canonical w-mers".into(), "KT.kmerGen_eq_spec");
    }
    if i[0] != f[1] {
        return Verdict::ModelDiff(format!("impl=[{}] model=[{}]", i[0], f[1]));
    }
    Verdict::Ok {
        nontrivial: proj.len() >= 2 && conc.len() >= 2,
    }
}

pub fn run_c18(tier: &str, seed: u64, model: &Model, corpus: Vec<Case>) -> Report {
    let mut rep = Report::new("C18");
    rep.rules.push("same generators as C09 restricted to w<=31; compared: projection of the k-mer-reporting iterator vs the plain iterator (both real), concatenated w-mer lists vs the canonical w-mers of the input (spec), whole output vs the separately transcribed model; non-trivial = at least two runs and two w-mers".into());
    let mut rng = Rng::new(seed);
    run_section(&mut rep, model, "corpus", corpus, &impl_kmins, &judge_kmins);
    if tier == "replay" {
        return rep;
    }
    let cases = min_cases("kmins", tier, &mut rng, &mut rep, 31);
    run_section(&mut rep, model, "kmins", cases, &impl_kmins, &judge_kmins);
    rep
}
