//! C08 at file level: `CovComputer::build_table` + `compute_coverages`
use crate::engine::*;
use crate::gen;
use crate::model::Model;
use crate::p_file::write_input;
use crate::util::*;
use coverage::CovComputer;
use std::collections::HashMap;

#[derive(Clone, Debug)]
pub struct CovCase {
    pub recs: Vec<Vec<u8>>,
    pub alt: Option<Vec<Vec<u8>>>,
    pub k: usize,
    pub bin_size: usize,
    pub bin_count: usize,
    pub norm: bool,
    pub delim: Vec<u8>,
    pub threads: usize,
    pub mem: f64,
    /// the same `CovComputer` object first built its table from (and computed coverages against) this other counting
    /// input, then was pointed at the actual one with `set_kmer_path` and rebuilt
    pub prev: Option<Vec<Vec<u8>>>,
}

fn recs_field(r: &[Vec<u8>]) -> String {
    if r.is_empty() { "-".into() } else { r.iter().map(|x| hexr(x)).collect::<Vec<_>>().join(",") }
}
fn parse_recs(s: &str) -> Vec<Vec<u8>> {
    if s == "-" { vec![] } else { s.split(',').map(unhex).collect() }
}

impl CovCase {
    pub fn req(&self) -> String {
        format!(
            "covfile {} {} {} {} {} {} {:e} {} {}{}",
            self.k,
            self.bin_size,
            self.bin_count,
            if self.norm { 1 } else { 0 },
            hex(&self.delim),
            self.threads,
            self.mem,
            recs_field(&self.recs),
            self.alt.as_ref().map(|a| recs_field(a)).unwrap_or("~".into()),
            self.prev.as_ref().map(|a| format!(" {}", recs_field(a))).unwrap_or_default()
        )
    }
    pub fn parse(line: &str) -> Option<CovCase> {
        let w: Vec<&str> = line.split_whitespace().collect();
        if (w.len() != 10 && w.len() != 11) || w[0] != "covfile" {
            return None;
        }
        Some(CovCase {
            k: w[1].parse().ok()?,
            bin_size: w[2].parse().ok()?,
            bin_count: w[3].parse().ok()?,
            norm: w[4] == "1",
            delim: unhex(w[5]),
            threads: w[6].parse().ok()?,
            mem: w[7].parse().ok()?,
            recs: parse_recs(w[8]),
            alt: if w[9] == "~" { None } else { Some(parse_recs(w[9])) },
            prev: if w.len() == 11 { Some(parse_recs(w[10])) } else { None },
        })
    }
    pub fn describe(&self) -> String {
        format!(
            "coverage k={} bin-size={} bin-count={} norm={} delim=\"{}\" threads={} memory={:e} records={} alt-input={}{} [{}]",
            self.k,
            self.bin_size,
            self.bin_count,
            self.norm,
            show(&self.delim),
            self.threads,
            self.mem,
            self.recs.len(),
            self.alt.as_ref().map(|a| a.len().to_string()).unwrap_or("same".into()),
            self.prev.as_ref().map(|a| format!(" (computer reused: first built and computed against another counting input of {} records)", a.len())).unwrap_or_default(),
            self.recs.iter().take(4).map(|r| show(&r[..r.len().min(24)])).collect::<Vec<_>>().join(" | ")
        )
    }
}

/// expected rows from the Lean model: counts table of the counting input (spec `countsOf`), then one
/// `cov` request per record carrying the multiplicities of that record's k-mers
pub fn expected_rows(c: &CovCase, model: &Model) -> Result<Vec<u8>, String> {
    let counting = c.alt.as_ref().unwrap_or(&c.recs);
    let ans = model.query(&[format!("counts {} {}", c.k, recs_field(counting))]);
    let f: Vec<&str> = ans[0].split('|').collect();
    if f.len() < 4 || f[0] != "ok" {
        return Err(format!("model counts failed: {}", ans[0]));
    }
    let mut tbl: HashMap<u64, u64> = HashMap::new();
    if !f[1].is_empty() {
        for e in f[1].split(',') {
            let mut it = e.split(':');
            tbl.insert(it.next().unwrap().parse().unwrap(), it.next().unwrap().parse().unwrap());
        }
    }
    let reqs: Vec<String> = c
        .recs
        .iter()
        .map(|r| {
            // multiplicities of the k-mers of this record (selection of keys only; values come from the model)
            let mut keys: Vec<u64> = kmer::kmer::KmerGenerator::new(r, c.k).map(|(a, b)| a.min(b)).collect();
            keys.sort();
            keys.dedup();
            let t: Vec<String> = keys.iter().filter_map(|x| tbl.get(x).map(|n| format!("{}:{}", x, n))).collect();
            format!(
                "cov {} {} {} {} {} {} {}",
                c.k,
                c.bin_size,
                c.bin_count,
                if c.norm { 1 } else { 0 },
                hex(r),
                hex(&c.delim),
                if t.is_empty() { "-".to_string() } else { t.join(",") }
            )
        })
        .collect();
    let ans = model.query(&reqs);
    let mut out = Vec::new();
    for a in ans {
        let f: Vec<&str> = a.split('|').collect();
        if f.len() < 7 || f[0] != "ok" {
            return Err(format!("model cov failed: {}", a));
        }
        out.extend(unhex(f[6]));
    }
    Ok(out)
}

pub fn run_cov(c: &CovCase, work: &str, uid: &str) -> (Result<(), String>, Vec<u8>) {
    let inp = write_input(work, uid, &c.recs, &crate::p_file::container_for(&c.req(), &c.recs));
    let alt = c.alt.as_ref().map(|a| write_input(work, &format!("{}alt", uid), a, &crate::p_file::container_for(&format!("alt {}", c.req()), a)));
    let prev = c.prev.as_ref().map(|a| write_input(work, &format!("{}prev", uid), a, "fa"));
    let dir = format!("{}/cov_{}", work, uid);
    let _ = std::fs::create_dir_all(&dir);
    if stale_case(&c.req()) {
        plant_counter_dir(&dir, c.threads.max(3) + 2);
    }
    let result = catch(std::panic::AssertUnwindSafe(|| {
        let mut cc = CovComputer::new(inp.clone(), dir.clone(), c.k, c.bin_size, c.bin_count);
        cc.set_threads(c.threads);
        cc.set_norm(c.norm);
        cc.set_delim(String::from_utf8_lossy(&c.delim).to_string());
        cc.set_max_memory(c.mem);
        if let Some(p) = &prev {
            cc.set_kmer_path(p.clone());
            cc.build_table().unwrap();
            cc.compute_coverages();
            cc.set_kmer_path(inp.clone());
        }
        if let Some(a) = &alt {
            cc.set_kmer_path(a.clone());
        }
        cc.build_table().unwrap();
        cc.compute_coverages();
        if prev.is_some() {
            // computing again without rebuilding must not change anything either
            cc.compute_coverages();
        }
    }));
    if let Some(p) = prev {
        crate::p_file::remove_input(&p);
    }
    let out = std::fs::read(format!("{}/kmers.vectors", dir)).unwrap_or_default();
    crate::p_file::remove_input(&inp);
    if let Some(a) = alt {
        crate::p_file::remove_input(&a);
    }
    let _ = std::fs::remove_dir_all(&dir);
    (result, out)
}

pub fn eval_cov(c: &CovCase, model: &Model, work: &str, uid: &str) -> Option<Fail> {
    let exp = match expected_rows(c, model) {
        Ok(e) => e,
        Err(e) => return Some(Fail { class: "model", detail: e, theorem: "", impl_out: String::new(), model_out: String::new() }),
    };
    let (res, out) = run_cov(c, work, uid);
    if let Err(p) = res {
        return Some(Fail { class: "spec", detail: format!("coverage computation panicked: {}", p), theorem: "KT.cov_rows_one_per_record", impl_out: String::new(), model_out: trunc(&show(&exp), 800) });
    }
    if out != exp {
        let nrows = out.iter().filter(|&&b| b == b'\n').count();
        let detail = if nrows != c.recs.len() {
            format!("{} rows written for {} records", nrows, c.recs.len())
        } else {
            "rows differ from the histogram of each record's windows by global multiplicity".to_string()
        };
        return Some(Fail {
            class: "spec",
            detail,
            theorem: if nrows != c.recs.len() { "KT.cov_rows_one_per_record" } else { "KT.covCounts_eq_spec_of_bin" },
            impl_out: trunc(&show(&out), 800),
            model_out: trunc(&show(&exp), 800),
        });
    }
    None
}

fn gen_recs(r: &mut Rng, n: usize, k: usize, maxlen: usize) -> Vec<Vec<u8>> {
    (0..n)
        .map(|_| match r.below(8) {
            0 => vec![],
            1 => gen::clean_seq(r, k.saturating_sub(1), gen::Flavor::Uniform),
            2 => vec![b'N'; r.range(1, 6) as usize],
            3 => vec![*r.pick(b"ACGT"); r.range(k as u64, maxlen as u64) as usize],
            _ => gen::sequence(r, &[k, k + 1, 3 * k], maxlen).0.into_iter().map(|b| if b < 33 || b > 126 || b == b'>' { b'N' } else { b }).collect(),
        })
        .collect()
}

fn shrink_cov(c: &CovCase) -> Vec<CovCase> {
    let mut out = Vec::new();
    for r in shrink_records(&c.recs) {
        let mut d = c.clone();
        d.recs = r;
        out.push(d);
    }
    if c.alt.is_some() {
        let mut d = c.clone();
        d.alt = None;
        out.push(d);
    }
    if c.threads > 1 {
        let mut d = c.clone();
        d.threads = 1;
        out.push(d);
    }
    out
}

pub fn run_c08_files(tier: &str, rng: &mut Rng, model: &Model, rep: &mut Report, corpus_lines: &[String], work: &str) {
    if sharded() {
        return;
    }
    rep.rules.push("file level: counting input (same file or an alternate one) + records + k + bin size/count + raw/normalised + delimiter + threads 1..16 + memory setting (below 1 = flush per record and many counting chunks, 1..6 = flush once); kmers.vectors compared byte for byte with the rows of the Lean model computed from the Lean counts table of the counting input; non-trivial = at least two records with windows".into());
    let mut counter = 0u64;
    let mut run_one = |c: &CovCase, section: &str, rep: &mut Report| {
        counter += 1;
        let uid = format!("c08_{}", counter);
        progress(&c.req());
        rep.evaluations += 1;
        rep.count(&format!("{}/memory:{}", section, if c.mem < 1.0 { "per-record" } else { "once" }), 1);
        rep.count(&format!("{}/alt:{}", section, c.alt.is_some()), 1);
        match eval_cov(c, model, work, &uid) {
            None => {
                if c.recs.iter().filter(|r| r.len() >= c.k).count() >= 2 {
                    rep.nontrivial.insert(c.req());
                }
                if counter % 41 == 1 {
                    rep.sample(format!("[{}] {}", section, c.describe()));
                }
            }
            Some(f) => {
                if rep.fail_count(section, f.class) < 2 {
                    let from = c.recs.len();
                    let k = std::cell::Cell::new(0u64);
                    let ev = |x: &CovCase| {
                        k.set(k.get() + 1);
                        eval_cov(x, model, work, &format!("{}_s{}", uid, k.get()))
                    };
                    let (sc, sf) = shrink_struct(c.clone(), f, &ev, &shrink_cov, 100);
                    rep.push_fail(section, sc.describe(), sc.req(), sf, from);
                } else {
                    rep.count(&format!("{}/more-failures:{}", section, f.class), 1);
                }
            }
        }
    };
    for c in corpus_lines.iter().filter_map(|l| CovCase::parse(l)) {
        run_one(&c, "corpus-files", rep);
    }
    if tier == "replay" {
        return;
    }
    let n = if tier == "thorough" { 1200 } else { 90 };
    for _ in 0..n {
        let k = match rng.below(4) {
            0 => gen::kval(rng, 1, 31) as usize,
            _ => rng.range(1, 6) as usize,
        };
        let nrec = match rng.below(5) {
            0 => rng.range(0, 3) as usize,
            _ => rng.range(2, 25) as usize,
        };
        let mut recs = gen_recs(rng, nrec, k, 150);
        if rng.chance(1, 8) {
            // degenerate: every record without bases (one row of zeros each is still due)
            recs = vec![vec![]; rng.range(1, 4) as usize];
        }
        let alt = if rng.chance(1, 3) {
            let n = rng.range(0, 10) as usize;
            Some(gen_recs(rng, n, k, 150))
        } else {
            None
        };
        let c = CovCase {
            recs,
            alt,
            k,
            bin_size: *rng.pick(&[1usize, 1, 2, 3, 5, 16, 49, (1 << 32) + 1, (1 << 32) + 5]),
            bin_count: *rng.pick(&[1usize, 2, 3, 5, 16]),
            norm: rng.chance(1, 2),
            delim: rng.pick(&[b" ".to_vec(), b",".to_vec(), b"\t".to_vec()]).clone(),
            threads: *rng.pick(&[1usize, 2, 4, 16]),
            mem: *rng.pick(&[6.0, 1.0, 0.5, 1e-7, 1e-8]),
            prev: None,
        };
        run_one(&c, "files", rep);
        if rng.chance(1, 3) {
            // the same object used twice: first against another counting input
            let mut c2 = c.clone();
            let n = rng.range(1, 10) as usize;
            let mut p = gen_recs(rng, n, k, 150);
            // share content with the records so that the earlier multiplicities would be visible
            for r in c.recs.iter().take(3) {
                for _ in 0..rng.range(1, 6) {
                    p.push(r.clone());
                }
            }
            c2.prev = Some(p);
            run_one(&c2, "reused-computer", rep);
        }
    }
    // a record of 2.5 million windows of which exactly one falls outside bin 0 (separate counting input holding only that k-mer):
    // the fraction 0.9999996 lies between the last 6-decimal value below 1 and 1 itself and must be printed as 1.000000
    {
        let k = 15usize;
        let p = b"GATTACAGGCTTAAC".to_vec();
        let half = rng.range(620_000, 640_000) as usize;
        let mut big: Vec<u8> = Vec::with_capacity(4 * half + 20);
        for _ in 0..half { big.extend_from_slice(b"AC"); }
        big.extend_from_slice(&p);
        for _ in 0..half { big.extend_from_slice(b"CA"); }
        let recs = vec![gen::clean_seq(rng, 60, gen::Flavor::Uniform), big];
        let alt = Some(vec![p.clone(), p.clone(), p.clone(), p.clone(), p.clone()]);
        let c = CovCase { recs, alt, k, bin_size: 5, bin_count: 5, norm: true, delim: b" ".to_vec(), threads: 2, mem: 6.0, prev: None };
        run_one(&c, "fraction-just-below-one", rep);
    }
    // many records in one batch with several threads (rows must stay in input order)
    let rounds = if tier == "thorough" { 6 } else { 1 };
    for _ in 0..rounds {
        let k = 3;
        let n = rng.range(2200, 3500) as usize;
        let mut recs: Vec<Vec<u8>> = (0..n).map(|i| { let l = 3 + (i % 37); gen::clean_seq(rng, l, gen::Flavor::Uniform) }).collect();
        // one record with more than 2^16 windows in a single bin (narrow per-record counters)
        recs.push(gen::clean_seq(rng, 70_000, gen::Flavor::Uniform));
        let c = CovCase { recs, alt: None, k, bin_size: 2, bin_count: 4, norm: false, delim: b" ".to_vec(), threads: 8, mem: 6.0, prev: None };
        run_one(&c, "many-records", rep);
    }
}
