//! C01, C02, C03: k-mer iterator, reverse complement / decoding, canonical column index
use crate::engine::*;
use crate::gen;
use crate::model::Model;
use crate::util::*;
use kmer::kmer::KmerGenerator;
use kmer::numeric_to_kmer;

pub fn fmt_pairs(v: &[(u64, u64)]) -> String {
    v.iter()
        .map(|(f, r)| format!("{}:{}", f, r))
        .collect::<Vec<_>>()
        .join(",")
}

pub fn impl_kmers(c: &Case) -> String {
    let k = c.params[0] as usize;
    let v: Vec<(u64, u64)> = KmerGenerator::new(&c.seq, k).collect();
    fmt_pairs(&v)
}

fn has_raw(seq: &[u8]) -> bool {
    seq.iter().any(|&b| b < 4)
}

fn judge_kmers(c: &Case, imp: &str, model: &str) -> Verdict {
    let f: Vec<&str> = model.split('|').collect();
    if f.len() < 4 || f[0] != "ok" {
        return Verdict::ModelDiff(format!("model answered {}", model));
    }
    let (m, s) = (f[1], f[2]);
    if imp != s {
        return Verdict::SpecViolation(
            format!("iterator output differs from the valid windows of the input: impl=[{}] spec=[{}]", imp, s),
            "KT.kmerGen_eq_spec",
        );
    }
    if imp != m {
        return Verdict::ModelDiff(format!("impl=[{}] model=[{}]", imp, m));
    }
    let k = c.params[0] as usize;
    let amb = c.seq.iter().any(|&b| !gen::NUC_ALL.contains(&b));
    Verdict::Ok {
        nontrivial: !imp.is_empty() && (amb || k >= 16),
    }
}

pub fn kmer_cases(tier: &str, rng: &mut Rng, rep: &mut Report) -> Vec<Case> {
    let mut cases = Vec::new();
    // exhaustive small space
    let (maxlen, maxk) = if tier == "thorough" { (9, 5) } else { (6, 4) };
    for n in 0..=maxlen {
        gen::all_strings(b"ACGTN", n, &mut |s| {
            for k in 1..=maxk {
                cases.push(Case::new("kmers", &[k as u64], s, "exhaustive"));
            }
        });
    }
    rep.exhaustive_spaces.push(format!(
        "all strings over {{A,C,G,T,N}} of length 0..={} x k in 1..={}",
        maxlen, maxk
    ));
    // all 256 byte values inside a clean context
    for &k in &[1usize, 2, 3, 16, 31] {
        for b in 0..=255u8 {
            let mut s = gen::clean_seq(rng, k, gen::Flavor::Uniform);
            s.push(b);
            s.extend(gen::clean_seq(rng, k + 1, gen::Flavor::Uniform));
            let mut c = Case::new("kmers", &[k as u64], &s, "byte-in-context");
            c.info = b < 4;
            cases.push(c);
        }
    }
    rep.exhaustive_spaces
        .push("all 256 byte values between clean flanks, k in {1,2,3,16,31} (0x00-0x03 informational)".into());
    // a very long run of ambiguous bytes (an assembly gap): whatever the iterator does per ambiguous byte, it must not
    // accumulate (stack, counters)
    {
        let mut s = b"ACGTAC".to_vec();
        s.extend(std::iter::repeat(b'N').take(1_200_000));
        s.extend_from_slice(b"GATTACA");
        cases.push(Case::new("kmers", &[3], &s, "long-gap"));
    }
    // a few very long clean stretches (counters and registers over tens of thousands of steps)
    for &(k, len) in &[(21u64, 66_000usize), (31, 70_000), (2, 66_500)] {
        let mut s = gen::clean_seq(rng, len, gen::Flavor::Uniform);
        cases.push(Case::new("kmers", &[k], &s, "long-clean"));
        s[60_000] = b'N';
        cases.push(Case::new("kmers", &[k], &s, "long-one-n"));
    }
    // random
    let n = if tier == "thorough" { 150_000 } else { 6_000 };
    for _ in 0..n {
        let k = gen::kval(rng, 1, 31);
        let (s, tag) = gen::sequence(rng, &[k as usize - 1, k as usize, k as usize + 1, 2 * k as usize], 400);
        let mut c = Case::new("kmers", &[k], &s, tag);
        c.info = has_raw(&s);
        cases.push(c);
    }
    cases
}

pub fn run_c01(tier: &str, seed: u64, model: &Model, corpus: Vec<Case>) -> Report {
    let mut rep = Report::new("C01");
    rep.rules.push("cases: corpus, then every string over {A,C,G,T,N} up to a length bound for small k, every byte value in a clean context, then random structured sequences (uniform / homopolymer / tandem / palindromic / mixed-case, ambiguity 0-50%, N pinned first/last) for k drawn from 1..=31 with weight on 1,2,15,16,17,30,31; non-trivial = distinct request with at least one k-mer emitted and (an ambiguous byte present or k>=16)".into());
    let mut rng = Rng::new(seed);
    run_section(&mut rep, model, "corpus", corpus, &impl_kmers, &judge_kmers);
    if tier == "replay" {
        return rep;
    }
    let cases = kmer_cases(tier, &mut rng, &mut rep);
    run_section(&mut rep, model, "kmers", cases, &impl_kmers, &judge_kmers);
    if tier == "thorough" && !sharded() {
        // one record of more than 2^31 bytes: A^N followed by a short tail. By `kmers_homopolymer_prefix` (Props/C01, kernel-checked)
        // the expected stream is (0, 4^k - 1) for the N - k + 1 windows inside the homopolymer followed by the model's stream for
        // A^(k-1) ++ tail.
        let n: usize = (1usize << 31) + 1000;
        let tail = b"CGTNACGGTTAACCGT".to_vec();
        let mut big = vec![b'A'; n];
        big.extend_from_slice(&tail);
        for k in [1usize, 4, 21, 31] {
            rep.evaluations += 1;
            progress(&format!("giant record k={}", k));
            let mut short = vec![b'A'; k - 1];
            short.extend_from_slice(&tail);
            let ans = model.query(&[format!("kmers {} {}", k, hex(&short))]);
            let f: Vec<&str> = ans[0].split('|').collect();
            let tail_items: Vec<(u64, u64)> = if f.len() >= 2 && f[0] == "ok" && !f[1].is_empty() {
                f[1].split(',').map(|p| { let mut it = p.split(':'); (it.next().unwrap().parse().unwrap(), it.next().unwrap().parse().unwrap()) }).collect()
            } else { vec![] };
            let top = if k == 32 { u64::MAX } else { (1u64 << (2 * k)) - 1 };
            let inside = n - k + 1;
            let res = catch(std::panic::AssertUnwindSafe(|| {
                let mut bad: Option<String> = None;
                let mut count = 0usize;
                for (i, it) in KmerGenerator::new(&big, k).enumerate() {
                    let want = if i < inside { Some((0u64, top)) } else { tail_items.get(i - inside).copied() };
                    if Some(it) != want && bad.is_none() {
                        bad = Some(format!("item {} is {:?}, expected {:?}", i, it, want));
                    }
                    count += 1;
                }
                if bad.is_none() && count != inside + tail_items.len() {
                    bad = Some(format!("{} items, expected {}", count, inside + tail_items.len()));
                }
                bad
            }));
            let bad = match res { Ok(b) => b, Err(p) => Some(format!("panicked: {}", p)) };
            if let Some(d) = bad {
                rep.push_fail("giant-record", format!("A^{} ++ \"{}\" at k = {}", n, show(&tail), k), format!("giantrecord {}", k), Fail { class: "spec", detail: d, theorem: "KT.kmerGen_eq_spec", impl_out: String::new(), model_out: String::new() }, 0);
            } else {
                rep.nontrivial.insert(format!("giantrecord {}", k));
            }
        }
    }
    rep
}

// ---------------------------------------------------------------- C02

fn impl_revcomp(c: &Case) -> String {
    let k = c.params[0] as usize;
    let x = c.params[1];
    let rc = KmerGenerator::rev_comp(x, k);
    let rcrc = KmerGenerator::rev_comp(rc, k);
    let text = numeric_to_kmer(x, k);
    format!("{}|{}|{}", rc, rcrc, hex(text.as_bytes()))
}

fn judge_revcomp(c: &Case, imp: &str, model: &str) -> Verdict {
    let f: Vec<&str> = model.split('|').collect();
    if f.len() < 6 || f[0] != "ok" {
        return Verdict::ModelDiff(format!("model answered {}", model));
    }
    let i: Vec<&str> = imp.split('|').collect();
    if i.len() != 3 {
        return Verdict::SpecViolation(format!("implementation failed: {}", imp), "KT.revComp_eq_spec");
    }
    let x = c.params[1];
    if i[0] != f[2] {
        return Verdict::SpecViolation(
            format!("rev_comp={} but the code of the reverse-complemented text is {}", i[0], f[2]),
            "KT.revComp_eq_spec",
        );
    }
    if i[1] != x.to_string() {
        return Verdict::SpecViolation(format!("rev_comp(rev_comp(x))={} != x", i[1]), "KT.revComp_involutive");
    }
    if i[2] != f[4] {
        return Verdict::SpecViolation(
            format!("numeric_to_kmer gives {} expected {}", i[2], f[4]),
            "KT.numericToKmer_eq_spec",
        );
    }
    if f[5] != x.to_string() {
        return Verdict::SpecViolation(format!("re-encoding the decoded text gives {}", f[5]), "KT.enc_decode");
    }
    if i[0] != f[1] || i[2] != f[3] {
        return Verdict::ModelDiff(format!("impl={} model={}", imp, model));
    }
    Verdict::Ok {
        nontrivial: c.params[0] >= 2,
    }
}

/// reverse-complement of text as the property defines it (ambiguous bytes stay in place)
pub fn rc_seq(s: &[u8]) -> Vec<u8> {
    s.iter()
        .rev()
        .map(|&b| match b {
            b'A' | b'a' => b'T',
            b'C' | b'c' => b'G',
            b'G' | b'g' => b'C',
            b'T' | b't' | b'U' | b'u' => b'A',
            0 => b'T',
            1 => b'G',
            2 => b'C',
            3 => b'A',
            x => x,
        })
        .collect()
}

fn impl_strands(c: &Case) -> String {
    let k = c.params[0] as usize;
    let fwd: Vec<(u64, u64)> = KmerGenerator::new(&c.seq, k).collect();
    let rcs = rc_seq(&c.seq);
    let rev: Vec<(u64, u64)> = KmerGenerator::new(&rcs, k).collect();
    let snd_ok = fwd.iter().all(|&(f, r)| KmerGenerator::rev_comp(f, k) == r);
    format!("{}|{}|{}|{}", fmt_pairs(&fwd), fmt_pairs(&rev), hex(&rcs), if snd_ok { 1 } else { 0 })
}

fn judge_strands(c: &Case, imp: &str, model: &str) -> Verdict {
    // model: ok|kmers s|spec s|starts  (request is a plain `kmers` request)
    let f: Vec<&str> = model.split('|').collect();
    let i: Vec<&str> = imp.split('|').collect();
    if f.len() >= 4 && f[0] == "ok" && imp.starts_with("panic") {
        // k is in range (the model accepts): the iterator must yield its items, not fail
        return Verdict::SpecViolation(format!("the k-mer iterator failed on the sequence or on its reverse complement: {}", trunc(imp, 300)), "KT.kmers_rcSeq");
    }
    if f.len() < 4 || f[0] != "ok" || i.len() != 4 {
        return Verdict::ModelDiff(format!("model {} impl {}", trunc(model, 300), trunc(imp, 300)));
    }
    let parse = |s: &str| -> Vec<(u64, u64)> {
        if s.is_empty() {
            return vec![];
        }
        s.split(',')
            .map(|p| {
                let mut it = p.split(':');
                (it.next().unwrap().parse().unwrap(), it.next().unwrap().parse().unwrap())
            })
            .collect()
    };
    let fwd = parse(i[0]);
    let rev = parse(i[1]);
    if i[3] != "1" {
        return Verdict::SpecViolation(
            "second component of an item is not the reverse complement of the first".into(),
            "KT.kmers_snd_eq_revComp",
        );
    }
    let expect: Vec<(u64, u64)> = fwd.iter().rev().map(|&(a, b)| (b, a)).collect();
    if rev != expect {
        return Verdict::SpecViolation(
            format!(
                "stream of the reverse-complemented sequence is not the reversed stream with strands swapped: fwd=[{}] rc=[{}]",
                i[0], i[1]
            ),
            "KT.kmers_rcSeq",
        );
    }
    let mut ca: Vec<u64> = fwd.iter().map(|&(a, b)| a.min(b)).collect();
    let mut cb: Vec<u64> = rev.iter().map(|&(a, b)| a.min(b)).collect();
    ca.sort();
    cb.sort();
    if ca != cb {
        return Verdict::SpecViolation("canonical multisets differ between strands".into(), "KT.canons_rcSeq_perm");
    }
    if i[0] != f[2] {
        return Verdict::SpecViolation(format!("impl=[{}] spec=[{}]", i[0], f[2]), "KT.kmerGen_eq_spec");
    }
    let _ = c;
    Verdict::Ok {
        nontrivial: fwd.len() >= 2,
    }
}

pub fn run_c02(tier: &str, seed: u64, model: &Model, corpus: Vec<Case>) -> Report {
    let mut rep = Report::new("C02");
    rep.rules.push("codes: every x < 4^k for k up to a bound, then for every k in 1..=31 the extremes 0, 4^k-1, palindromes (x = a*4^h + rc(a)), single-digit patterns and random codes; sequences: structured random sequences with ambiguous bytes, compared with the stream of their reverse complement; non-trivial = k>=2 (codes) / at least two k-mers (sequences)".into());
    let mut rng = Rng::new(seed);
    let (c_rev, c_str): (Vec<Case>, Vec<Case>) = corpus.into_iter().partition(|c| c.kind == "revcomp");
    run_section(&mut rep, model, "corpus-codes", c_rev, &impl_revcomp, &judge_revcomp);
    run_section(&mut rep, model, "corpus-strands", c_str, &impl_strands, &judge_strands);
    if tier == "replay" {
        return rep;
    }
    let mut cases = Vec::new();
    let kmax = if tier == "thorough" { 10 } else { 7 };
    for k in 1..=kmax {
        for x in 0..(1u64 << (2 * k)) {
            cases.push(Case::new("revcomp", &[k, x], &[], "exhaustive"));
        }
    }
    rep.exhaustive_spaces
        .push(format!("all codes x < 4^k for k in 1..={}", kmax));
    let nrand = if tier == "thorough" { 3000 } else { 200 };
    for k in 1..=31u64 {
        let top = if k == 32 { u64::MAX } else { (1u64 << (2 * k)) - 1 };
        let mut xs = vec![0, top, 1, top - 1, top / 3, top / 3 * 2, 1u64 << (2 * k - 2), 3u64 << (2 * k - 2)];
        // palindromes for even k: a * 4^h + rc_h(a)
        if k % 2 == 0 {
            let h = k / 2;
            for _ in 0..20 {
                let a = rng.below(1u64 << (2 * h));
                xs.push((a << (2 * h)) | KmerGenerator::rev_comp(a, h as usize));
            }
        }
        for _ in 0..nrand {
            xs.push(rng.below(top) + rng.below(2));
        }
        for x in xs {
            cases.push(Case::new("revcomp", &[k, x.min(top)], &[], "per-k"));
        }
    }
    run_section(&mut rep, model, "codes", cases, &impl_revcomp, &judge_revcomp);
    // the same code decoded for one k after another (and back down): an answer remembered from the previous call must not leak
    // into the next one (the sections above walk the codes of one k before moving to the next k)
    let mut cases = Vec::new();
    for x in [0u64, 1, 2, 3, 6, 27, 57, 228, 4095, 65_535] {
        let kmin = (1..=31u64).find(|k| *k == 32 || x < (1u64 << (2 * k))).unwrap_or(31);
        for k in (kmin..=31).chain((kmin..=31).rev()) {
            cases.push(Case::new("revcomp", &[k, x], &[], "code-outer"));
        }
    }
    run_section(&mut rep, model, "codes-k-inner", cases, &impl_revcomp, &judge_revcomp);
    let mut cases = Vec::new();
    let n = if tier == "thorough" { 60_000 } else { 4_000 };
    for _ in 0..n {
        let k = gen::kval(&mut rng, 1, 31);
        let (s, tag) = gen::sequence(&mut rng, &[k as usize, k as usize + 1, 3 * k as usize], 300);
        let mut c = Case::new("kmers", &[k], &s, tag);
        c.info = s.iter().any(|&b| b < 4);
        cases.push(c);
    }
    // an ambiguous byte (or the end of a gap) directly followed by 15..40 identical clean bases: whatever is skipped or
    // fast-forwarded on one strand must be on the other
    for &x in b"ACGTacgu" {
        for run in [15usize, 16, 17, 31, 32, 33, 40] {
            let k = *rng.pick(&[1u64, 4, 11, 21, 31]);
            let mut s = gen::clean_seq(&mut rng, 12, gen::Flavor::Uniform);
            s.extend_from_slice(if rng.chance(1, 2) { b"N" } else { b"NNNN" });
            s.extend(std::iter::repeat(x).take(run));
            s.extend(gen::clean_seq(&mut rng, 35, gen::Flavor::Uniform));
            cases.push(Case::new("kmers", &[k], &s, "gap-then-homopolymer"));
        }
    }
    // very long clean stretches (counters of the iterator running over tens of thousands of steps lose different windows on the
    // two strands): the stream of the reverse complement must still be the reversed, strand-swapped stream
    for &(k, len) in &[(5u64, 66_000usize), (31, 70_000), (16, 131_200)] {
        let mut s = gen::clean_seq(&mut rng, len, gen::Flavor::Uniform);
        s[len / 15] = b'N';
        cases.push(Case::new("kmers", &[k], &s, "long-one-n"));
    }
    run_section(&mut rep, model, "strands", cases, &impl_strands, &judge_strands);
    rep
}

// ---------------------------------------------------------------- C03

fn impl_posmaps(c: &Case) -> String {
    if c.kind == "posmapsp" && c.params.len() == 2 {
        // the same tables built inside a rayon pool of the given size (the tables must not depend on the number of workers
        // that happen to be available: auto-detected core count, RAYON_NUM_THREADS)
        let inner = Case::new("posmaps", &c.params[..1], &[], "per-k");
        return match rayon::ThreadPoolBuilder::new().num_threads(c.params[1] as usize).build() {
            Ok(pool) => pool.install(|| impl_posmaps(&inner)),
            Err(e) => format!("panic:pool {}", e),
        };
    }
    let k = c.params[0] as usize;
    let (pos_map, pos_kmer, count) = KmerGenerator::kmer_pos_maps(k);
    let mut inv: Vec<String> = Vec::new();
    for p in 0..pos_kmer.len() {
        match pos_kmer.get(&p) {
            Some(x) => inv.push(x.to_string()),
            None => inv.push("missing".into()),
        }
    }
    let oc = composition::oligo::OligoComputer::new("-".into(), "-".into(), k);
    let header = oc.verif_header();
    let occ = composition::oligocgr::OligoCgrComputer::new("-".into(), "-".into(), k, 4);
    let header2 = occ.verif_header();
    format!(
        "{}|{}|{}|{}|{}",
        count,
        inv.join(","),
        pos_map.iter().map(|x| x.to_string()).collect::<Vec<_>>().join(","),
        header.iter().map(|h| hex(h.as_bytes())).collect::<Vec<_>>().join(","),
        header2.iter().map(|h| hex(h.as_bytes())).collect::<Vec<_>>().join(",")
    )
}

fn judge_posmaps(c: &Case, imp: &str, model: &str) -> Verdict {
    // model: ok|kcount|formula|posKmer|canonList|posMap|header|headerSpec
    let f: Vec<&str> = model.split('|').collect();
    let i: Vec<&str> = imp.split('|').collect();
    if f.len() < 8 || f[0] != "ok" {
        return Verdict::ModelDiff(format!("model answered {}", trunc(model, 200)));
    }
    if i.len() != 5 {
        return Verdict::SpecViolation(format!("implementation failed: {}", trunc(imp, 300)), "KT.posMaps_spec");
    }
    if i[0] != f[2] {
        return Verdict::SpecViolation(
            format!("column count {} differs from the documented formula {}", i[0], f[2]),
            "KT.kcount_formula",
        );
    }
    if i[1] != f[4] {
        return Verdict::SpecViolation(
            "index-to-k-mer map is not the increasing list of canonical codes".into(),
            "KT.minMerVec_eq_canonList",
        );
    }
    // rank at canonical codes must be the position in canonList
    let canon: Vec<usize> = if f[4].is_empty() { vec![] } else { f[4].split(',').map(|x| x.parse().unwrap()).collect() };
    let pm: Vec<usize> = i[2].split(',').map(|x| x.parse().unwrap()).collect();
    for (rank, &x) in canon.iter().enumerate() {
        if pm.get(x).copied() != Some(rank) {
            return Verdict::SpecViolation(
                format!("canonical code {} has column {:?}, expected rank {}", x, pm.get(x), rank),
                "KT.posMap_rank",
            );
        }
    }
    if i[3] != f[7] {
        return Verdict::SpecViolation("oligo header differs from the canonical k-mers in column order".into(), "KT.header_eq_spec");
    }
    if i[4] != f[7] {
        return Verdict::SpecViolation("k-mer CGR column texts differ from the canonical k-mers in column order".into(), "KT.header_eq_spec");
    }
    if i[0] != f[1] || i[1] != f[3] || i[2] != f[5] || i[3] != f[6] {
        return Verdict::ModelDiff("impl differs from the code-shaped model (but satisfies the spec)".into());
    }
    let _ = c;
    Verdict::Ok { nontrivial: true }
}

pub fn run_c03(tier: &str, _seed: u64, model: &Model, _corpus: Vec<Case>) -> Report {
    let mut rep = Report::new("C03");
    rep.rules.push("one case per k: the complete tables (rank vector of size 4^k, index-to-k-mer map, column count, header of the oligo and of the k-mer CGR computer) are compared entry by entry with the model and the spec; every k is non-trivial and distinct".into());
    let kmax = if tier == "thorough" { 10 } else { 9 };
    let cases: Vec<Case> = (1..=kmax).map(|k| Case::new("posmaps", &[k], &[], "per-k")).collect();
    // posmaps takes no sequence: request is "posmaps k -"; the driver ignores the dash
    rep.exhaustive_spaces
        .push(format!("all 4^k codes for every k in 1..={}", kmax));
    run_section(&mut rep, model, "tables", cases, &impl_posmaps, &judge_posmaps);
    let mut pcases = Vec::new();
    for pool in [1u64, 2, 3, 5, 6, 7, 9, 11, 12, 13, 17, 20, 24, 26, 33, 48, 64] {
        for k in 1..=5u64 {
            pcases.push(Case::new("posmapsp", &[k, pool], &[], "per-k-per-pool"));
        }
    }
    run_section(&mut rep, model, "tables-in-pools", pcases, &impl_posmaps, &judge_posmaps);
    rep
}
