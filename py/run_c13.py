#!/usr/bin/env python3
"""Executor for C13: runs the freshly built pykmertools on the cases written by the harness.

usage: run_c13.py <dir containing pykmertools.so> <cases file> <output file>
One answer line per case line, in the same canonical syntax the harness uses for the Rust core.
"""
import gc
import struct
import sys

sys.path.insert(0, sys.argv[1])
import pykmertools as kt  # noqa: E402


def bits(x):
    return str(struct.unpack(">Q", struct.pack(">d", x))[0])


def text(hexs):
    return b"".decode() if hexs == "-" else bytes.fromhex(hexs).decode("utf-8")


def texts(field):
    return [] if field == "~" else [text(h) for h in field.split(",")]


def churn():
    # heap churn so that a dangling slice would be overwritten
    junk = [("x" * (17 + i % 97)) + str(i) for i in range(3000)]
    del junk
    gc.collect()


_oligo = {}
_cgr = {}


def oligo(k):
    if k not in _oligo:
        _oligo[k] = kt.OligoComputer(k)
    return _oligo[k]


def cgr(s):
    if s not in _cgr:
        _cgr[s] = kt.CgrComputer(s)
    return _cgr[s]


def consume(make):
    """The items of a fresh iterator, taken in every way Python offers: a for loop, list(), tuple(), list.extend,
    repeated next(), and a loop continued after exhaustion (must stay exhausted).  All must agree."""
    ref = [x for x in make()]
    ways = {}
    try:
        ways["list()"] = list(make())
        ways["tuple()"] = list(tuple(make()))
        e = []
        e.extend(make())
        ways["extend"] = e
        it = make()
        n = []
        while True:
            try:
                n.append(next(it))
            except StopIteration:
                break
        ways["next()"] = n
        ways["after-exhaustion"] = ref + list(it)
        it2 = iter(make())
        ways["iter(iter)"] = [x for x in it2]
        # one item by next(), the rest by a for loop / list(): iter() on a started iterator must not rewind it
        it3 = make()
        head = []
        try:
            head.append(next(it3))
        except StopIteration:
            pass
        ways["next() then list()"] = head + list(it3)
        it4 = make()
        head = []
        for x in it4:
            head.append(x)
            break
        ways["for-break then for"] = head + [x for x in it4]
        # built here, drained on another thread (the core iterators are Send)
        import threading
        it5 = make()
        box = []
        def drain():
            try:
                box.append(list(it5))
            except BaseException as e:  # noqa
                box.append(f"{type(e).__name__}:{e}")
        th = threading.Thread(target=drain)
        th.start()
        th.join()
        if not box or not isinstance(box[0], list):
            return ref, f"consumption:another thread: {box[0] if box else 'no result'}"
        ways["another thread"] = box[0]
    except BaseException as e:  # noqa
        return ref, f"consumption:{type(e).__name__}:{e}"
    for name, v in ways.items():
        if v != ref:
            return ref, f"consumption:{name} gives {len(v)} items, the for loop {len(ref)}"
    return ref, None


def answer(line):
    w = line.split()
    op = w[0]
    if op == "kmers":
        k, s = int(w[1]), text(w[2])
        items, bad = consume(lambda: kt.KmerGenerator(s, k))
        if bad:
            return bad
        return ",".join(f"{f}:{r}" for f, r in items)
    if op == "kmersdel":
        # the iterator must stay valid after the Python string is released
        k = int(w[1])
        s = text(w[2])
        s = s + ""  # private copy
        it = kt.KmerGenerator(s, k)
        del s
        churn()
        first = []
        for i, x in enumerate(it):
            first.append(x)
            if i == 2:
                churn()
        return ",".join(f"{f}:{r}" for f, r in first)
    if op == "mins":
        wz, m, s = int(w[1]), int(w[2]), text(w[3])
        items, bad = consume(lambda: kt.MinimiserGenerator(s, wz, m))
        if bad:
            return bad
        return ",".join(f"{a}:{b}:{c}" for a, b, c in items)
    if op == "minsdel":
        wz, m = int(w[1]), int(w[2])
        s = text(w[3]) + ""
        it = kt.MinimiserGenerator(s, wz, m)
        del s
        churn()
        return ",".join(f"{a}:{b}:{c}" for a, b, c in it)
    if op == "toacgt":
        k, x = int(w[1]), int(w[2])
        a = kt.KmerGenerator("A", k).to_acgt(x)
        b = kt.MinimiserGenerator("A", max(k, 1), k).to_acgt(x)
        return a.encode().hex() + "|" + b.encode().hex()
    if op == "oligo":
        k, norm, s = int(w[1]), w[2] == "1", text(w[3])
        v = oligo(k).vectorise_one(s, norm)
        d = oligo(k).vectorise_one(s) if norm else v  # default argument = normalised
        return ",".join(bits(x) for x in v) + "|" + ("1" if [bits(x) for x in d] == [bits(x) for x in v] else "0")
    if op == "oligobig":
        # one very long sequence given run-length encoded: byte*count+byte*count...
        k, norm = int(w[1]), w[2] == "1"
        s = "".join(chr(int(b)) * int(n) for b, n in (part.split("*") for part in w[3].split("+")))
        v = oligo(k).vectorise_one(s, norm)
        return ",".join(bits(x) for x in v) + "|1"
    if op == "header":
        k = int(w[1])
        return ",".join(h.encode().hex() for h in oligo(k).get_header())
    if op == "obatch":
        k, norm, ss = int(w[1]), w[2] == "1", texts(w[3])
        rows = oligo(k).vectorise_batch(ss, norm)
        return ";".join(",".join(bits(x) for x in r) for r in rows) + f"|{len(rows)}"
    if op == "cgr":
        s_, s = int(w[1]), text(w[2])
        try:
            pts = cgr(s_).vectorise_one(s)
        except ValueError:
            return "valueerror"
        return "ok|" + ",".join(f"{bits(x)}:{bits(y)}" for x, y in pts)
    if op == "cbatch":
        s_, ss = int(w[1]), texts(w[2])
        try:
            rows = cgr(s_).vectorise_batch(ss)
        except ValueError:
            return "valueerror"
        return "ok|" + ";".join(",".join(f"{bits(x)}:{bits(y)}" for x, y in r) for r in rows) + f"|{len(rows)}"
    return "bad-op"


def main():
    out = open(sys.argv[3], "w")
    for line in open(sys.argv[2]):
        line = line.strip()
        if not line:
            continue
        try:
            a = answer(line)
        except BaseException as e:  # noqa
            a = f"exception:{type(e).__name__}:{e}"
        out.write(a + "\n")
        out.flush()
    out.close()


main()
