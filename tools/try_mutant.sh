#!/bin/sh
# usage: tools/try_mutant.sh <patch.diff> <property-id>...
# Applies a seeded change to /repo, runs the given checks (quick tier), prints their verdict lines,
# then restores /repo and the committed evidence files.
patch="$1"; shift
cd /verif
if ! git -C /repo diff --quiet; then echo "/repo has local changes; refusing"; exit 3; fi
git -C /repo apply "$patch" || { echo "patch does not apply"; exit 3; }
for id in "$@"; do
  echo "=== $id on $(basename $(dirname $patch))/$(basename $patch)"
  ./check "$id" --tier quick 2>&1 | grep -E "^\[check\]|^VIOLATION|^KNOWN" | cut -c1-250
  for r in $(ls replays/$id-seed*-1.txt 2>/dev/null | head -1); do grep -E "^(theorem_contradicted|theorem_no_longer_checks|detail|request|correspondence_broken):" "$r" | head -4 | cut -c1-300; done
done
git -C /repo checkout -- .
git -C /verif checkout -- evidence 2>/dev/null
rm -f /verif/replays/*
