#!/bin/sh
# usage: tools/alt_check.sh <repo-worktree> <property-id>...
# Runs checks against ANOTHER checkout of the repository (e.g. a scratch worktree holding a seeded change) without
# touching /repo: a private copy of /verif is kept in /tmp/altverif with the harness' path dependencies rewritten.
wt="$1"; shift
A=/tmp/altverif
mkdir -p $A
rsync -a --delete --exclude .cache --exclude lean/.lake --exclude replays --exclude .git /verif/ $A/
[ -d $A/lean/.lake ] || cp -r /verif/lean/.lake $A/lean/.lake
mkdir -p $A/.cache
for t in target-hooks target-hooks-ub target-cli target-py; do [ -d $A/.cache/$t ] || cp -r /verif/.cache/$t $A/.cache/$t 2>/dev/null; done
sed -i "s|path = \"/repo/|path = \"$wt/|g" $A/harness/Cargo.toml
cp $wt/Cargo.lock $A/harness/Cargo.lock
cd $A
for id in "$@"; do
  VERIF_REPO=$wt ./check "$id" --tier quick 2>&1 | grep -E "^\[check\]|^VIOLATION|^KNOWN" | sed "s|^|[$(basename $wt)] |" | cut -c1-260
  for r in $(ls replays/$id-seed*-1.txt 2>/dev/null | head -1); do grep -E "^(theorem_contradicted|theorem_no_longer_checks|detail|request|correspondence_broken):" "$r" | head -3 | cut -c1-280; done
  rm -f replays/$id-seed*
done
