#!/bin/sh
# usage: tools/confirm_mutant.sh <Cxx> [2]
# Confirms a seeded change in its scratch worktree /tmp/mut/<Cxx>: the suite passes with the change,
# the demonstration fails with it and passes without it.  Prints one summary line.
id="$1"; sfx="$2"
wt=/tmp/mut/$id; demo=/tmp/mut/${id}_demo
cd "$wt" || exit 3
git checkout -q -- . 2>/dev/null
git apply "$demo/patch$sfx.diff" || { echo "$id$sfx: patch does not apply"; exit 3; }
suite=$(CARGO_TARGET_DIR=/tmp/mut/target_$id cargo test --workspace --offline 2>&1 | grep -E "^test result" | awk '{p+=$4; f+=$6} END {print p "/" f}')
CARGO_TARGET_DIR=/tmp/mut/target_$id cargo build --offline -p kmertools >/dev/null 2>&1
script="$demo/demo$sfx.sh"
[ -f "$script" ] || script=$(ls $demo/*demo*$sfx*.sh 2>/dev/null | head -1)
( cd "$demo" && timeout 900 sh "$script" >"/tmp/mut/${id}${sfx}_with.log" 2>&1 ); with=$?
git apply -R "$demo/patch$sfx.diff"
CARGO_TARGET_DIR=/tmp/mut/target_$id cargo build --offline -p kmertools >/dev/null 2>&1
( cd "$demo" && timeout 900 sh "$script" >"/tmp/mut/${id}${sfx}_without.log" 2>&1 ); without=$?
if [ "$without" != "0" ]; then ( cd "$demo" && timeout 900 sh "$script" --orig >"/tmp/mut/${id}${sfx}_without.log" 2>&1 ); without=$?; fi
git apply "$demo/patch$sfx.diff"
echo "$id$sfx: suite pass/fail=$suite demo_with_change_exit=$with demo_without_change_exit=$without"
git checkout -q -- .
