#!/bin/sh
# usage: tools/mutant_round.sh <suffix e.g. r4> [extra property ids to run for every change]
# For every seeded change delivered in /tmp/mut/C??<suffix>_demo/patch*.diff: confirm it in its scratch worktree, then run the
# check of the property it targets against that worktree (tools/alt_check.sh; /repo is never touched).
sfx="$1"; shift
cd /verif
for demo in /tmp/mut/C??${sfx}_demo; do
  id=$(basename $demo _demo); prop=$(echo $id | cut -c1-3)
  for patch in $demo/patch.diff $demo/patch2.diff $demo/patch3.diff; do
    [ -f $patch ] || continue
    n=$(basename $patch .diff | sed 's/patch//')
    tools/confirm_mutant.sh $id $n
    wt=/tmp/mut/$id
    (cd $wt && git checkout -q -- . && git apply $patch) || { echo "$id$n: cannot apply"; continue; }
    echo "##### $id patch$n"
    tools/alt_check.sh $wt $prop "$@"
    (cd $wt && git checkout -q -- .)
  done
done
