#!/usr/bin/env python3
"""usage: keep_mutant.py <Cxx> <sfx or ''> <name> <property> <needs> <confirm-line> <caught-by...>
Copies a confirmed seeded change into /verif/seeded/<name>/ (patch.diff, demonstration files, meta.json)."""
import json, os, shutil, sys
cid, sfx, name, prop, needs, confirm = sys.argv[1:7]
caught = sys.argv[7:]
src = f"/tmp/mut/{cid}_demo"
dst = f"/verif/seeded/{name}"
os.makedirs(dst, exist_ok=True)
shutil.copy(f"{src}/patch{sfx}.diff", f"{dst}/patch.diff")
demo = os.path.join(dst, "demo")
os.makedirs(demo, exist_ok=True)
for fn in os.listdir(src):
    p = os.path.join(src, fn)
    if os.path.isdir(p):
        if fn in ("build", "target", "orig", "work", "out", "tmp"):
            continue
        # small source directories only
        size = sum(os.path.getsize(os.path.join(r, f)) for r, _, fs in os.walk(p) for f in fs)
        if size < 300_000:
            shutil.copytree(p, os.path.join(demo, fn), dirs_exist_ok=True, ignore=shutil.ignore_patterns("target", "build", "*.o", "Cargo.lock"))
        continue
    if os.path.getsize(p) > 300_000 or fn.startswith("patch"):
        continue
    # keep files of this variant: suffix-matching demo/README files and shared helpers
    shutil.copy(p, os.path.join(demo, fn))
meta = {
    "breaks_property": prop,
    "needs_to_manifest": needs,
    "author": "independent sub-agent given only the property text and a scratch worktree of /repo",
    "confirmed": confirm,
    "what_was_run": [
        f"tools/confirm_mutant.sh {cid} {sfx}".strip() + "  (scratch worktree: suite with the change, demonstration with and without the change)",
        f"tools/try_mutant.sh seeded/{name}/patch.diff " + " ".join(c.split(':')[0] for c in caught) + "  (git -C /repo apply; ./check; git -C /repo checkout -- .)",
    ],
    "checks": {c.split(':')[0]: c.split(':', 1)[1] for c in caught},
    "demonstration": f"demo/ (see README{sfx}.txt; paths inside refer to the author's scratch worktree /tmp/mut/{cid})",
}
json.dump(meta, open(os.path.join(dst, "meta.json"), "w"), indent=1)
print("kept", dst)
